/-
  Rv.Basic — byte strings and the few `strings`/`strconv` functions of Go's
  standard library that the reservoir models use.  Core Lean only.

  A Go `string` is modelled as `List Char` where every `Char` stands for one
  BYTE (code point 0..255).  The harness hex-encodes every string on the op
  line so that arbitrary bytes survive the line protocol.
-/
namespace Rv

abbrev Str := List Char

def s (x : String) : Str := x.toList

/-- ASCII digit test, as Go's `ch < '0' || ch > '9'` negated. -/
def isDigit (c : Char) : Bool := '0' ≤ c && c ≤ '9'

def digitVal (c : Char) : Nat := c.toNat - 48

/-- Go `strings.TrimSpace` restricted to bytes: the ASCII white space set of
    `unicode.IsSpace` below 0x80 is `\t \n \v \f \r ' '`; 0x85 and 0xA0 are
    Latin-1 spaces only when they appear as *runes*, which a byte string that
    is valid UTF-8 cannot contain as single bytes.  The harness never sends
    non-ASCII bytes to functions modelled with `trimSpace`. -/
def isSpace (c : Char) : Bool :=
  c = ' ' || c = '\t' || c = '\n' || c = '\r' || c.toNat = 11 || c.toNat = 12

def trimLeft : Str → Str
  | [] => []
  | c :: cs => if isSpace c then trimLeft cs else c :: cs

def trimSpace (x : Str) : Str := (trimLeft (trimLeft x).reverse).reverse

/-- ASCII lower-casing (Go `strings.ToLower` on ASCII input). -/
def lowerChar (c : Char) : Char :=
  if 'A' ≤ c && c ≤ 'Z' then Char.ofNat (c.toNat + 32) else c

def toLower (x : Str) : Str := x.map lowerChar

/-- `strings.CutPrefix`. -/
def cutPrefix : Str → Str → Option Str
  | x, [] => some x
  | [], _ :: _ => none
  | c :: cs, p :: ps => if c = p then cutPrefix cs ps else none

/-- split at the first occurrence of `sep`: `strings.SplitN(x, sep, 2)` /
    `strings.Cut`. -/
def cutAt (sep : Char) : Str → Option (Str × Str)
  | [] => none
  | c :: cs =>
    if c = sep then some ([], cs)
    else match cutAt sep cs with
      | none => none
      | some (a, b) => some (c :: a, b)

/-- `strings.Split(x, sep)` for a one-byte separator. Never returns `[]`. -/
def splitOn (sep : Char) : Str → List Str
  | [] => [[]]
  | c :: cs =>
    if c = sep then [] :: splitOn sep cs
    else match splitOn sep cs with
      | [] => [[c]]
      | h :: t => (c :: h) :: t

/-- decimal value of a digit string by Horner's rule (no check). -/
def decVal (ds : Str) : Nat := ds.foldl (fun a c => a * 10 + digitVal c) 0

def allDigits (ds : Str) : Bool := ds.all isDigit

/-- decimal printing of a natural number (`strconv.Itoa` for n ≥ 0). -/
def toDecAux : Nat → Nat → Str → Str
  | 0, _, acc => acc
  | fuel + 1, n, acc =>
    let acc' := Char.ofNat (48 + n % 10) :: acc
    if n / 10 = 0 then acc' else toDecAux fuel (n / 10) acc'

def toDec (n : Nat) : Str := toDecAux (n + 1) n []

def intToDec (i : Int) : Str :=
  if i < 0 then '-' :: toDec i.natAbs else toDec i.natAbs

/-! ### hex transport encoding used by the line protocol -/

def hexVal (c : Char) : Option Nat :=
  if '0' ≤ c && c ≤ '9' then some (c.toNat - 48)
  else if 'a' ≤ c && c ≤ 'f' then some (c.toNat - 87)
  else if 'A' ≤ c && c ≤ 'F' then some (c.toNat - 55)
  else none

def unhex : Str → Option Str
  | [] => some []
  | [_] => none
  | a :: b :: rest =>
    match hexVal a, hexVal b, unhex rest with
    | some x, some y, some r => some (Char.ofNat (x * 16 + y) :: r)
    | _, _, _ => none

def hexDigit (n : Nat) : Char :=
  if n < 10 then Char.ofNat (48 + n) else Char.ofNat (87 + n)

def hex (x : Str) : Str :=
  x.flatMap (fun c => [hexDigit (c.toNat / 16 % 16), hexDigit (c.toNat % 16)])

def maxI64 : Nat := 9223372036854775807

end Rv
