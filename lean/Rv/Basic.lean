def hello := "world"
