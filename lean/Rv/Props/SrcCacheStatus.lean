import Rv.Generated.SrcCacheStatus
import Rv.Model.Labels
import Rv.Props.SrcLabels
import Rv.Oracle.Proxy
/-
  PROVED tie between the readable specification of the `Cache-Status` header
  text, `Rv.Labels.cacheStatusString` (Rv/Model/Labels.lean), and the code:
  `Rv.Generated.SrcCacheStatus.makeCacheStatusHeader` is the translation of
  `makeCacheStatusHeader` (proxy/cache_status_headers.go), regenerated on every
  run: a `[]string` built with `make`/`append` under two `switch`es and three
  `if`s, `fmt.Sprintf("fwd-status=%d", …)`, `fmt.Sprintf("ttl=%d", …)`,
  `strings.Join(params, "; ")` (TRUSTED meaning: `Rv.SrcStr.joinSep`).

  Leaves of the spec: `cached.IsSome()` is the binder `cachedIsSome`; the
  expression `max(0, int(time.Until(cached.ForceUnwrap().Metadata.Expires).Seconds()))`
  is the binder `ttl` (its value is the business of the real-time family).

  `makeCacheStatusHeader_spec` is the tie for EVERY value of the Go record
  (any `hitStatus`, any `fwdReason` including miss / bypass, which the machine
  never produces); `makeCacheStatusHeader_eq` is the tie to the model for every
  labelling the machine produces (`CacheStatus.toView`, label ≠ none).

  BRIDGE to the oracle (`Rv.Oracle.Proxy.cacheStatus`) and to the harness: see
  the last section.
-/
set_option linter.unusedSimpArgs false
namespace Rv.Props.SrcCacheStatus
open Rv Rv.Fetch Rv.Labels Rv.SrcViews Rv.SrcStr Rv.Props.SrcLabels

theorem l_reservoir : s "reservoir" = ['r', 'e', 's', 'e', 'r', 'v', 'o', 'i', 'r'] := by decide
theorem l_hit : s "hit" = ['h', 'i', 't'] := by decide
theorem l_reval : s "hit; detail=\"revalidated\"" = ['h', 'i', 't', ';', ' ', 'd', 'e', 't', 'a', 'i', 'l', '=', '"', 'r', 'e', 'v', 'a', 'l', 'i', 'd', 'a', 't', 'e', 'd', '"'] := by decide
theorem l_miss : s "miss" = ['m', 'i', 's', 's'] := by decide
theorem l_stale : s "fwd=stale" = ['f', 'w', 'd', '=', 's', 't', 'a', 'l', 'e'] := by decide
theorem l_fwdstatus : s "fwd-status=" = ['f', 'w', 'd', '-', 's', 't', 'a', 't', 'u', 's', '='] := by decide
theorem l_stored : s "stored" = ['s', 't', 'o', 'r', 'e', 'd'] := by decide
theorem l_ttl : s "ttl=" = ['t', 't', 'l', '='] := by decide
theorem l_sep : s "; " = [';', ' '] := by decide

theorem joinSep_eq : ∀ (xs : List Str), joinSep [';', ' '] xs = joinParams xs
  | [] => rfl
  | [a] => rfl
  | a :: b :: rest => by
    have ih := joinSep_eq (b :: rest)
    simp only [joinSep, joinParams, l_sep] at ih ⊢
    rw [ih]

theorem intToDec_natCast (n : Nat) : intToDec (n : Int) = toDec n := by
  have h1 : ¬ ((n : Int) < 0) := Int.not_lt.mpr (Int.natCast_nonneg _)
  simp only [intToDec, h1, if_false, Int.natAbs_natCast]

/-- THE TIE to the model: for every labelling the machine produces, the header text of the source is the
    specification's; it cannot panic. -/
theorem makeCacheStatusHeader_eq (cs : CacheStatus) (cached : Bool) (ttl : Nat) (hl : cs.label ≠ .none) :
    Rv.Generated.Src.makeCacheStatusHeader () cs.toView cached (ttl : Int) =
      some (cacheStatusString cs cached ttl) := by
  obtain ⟨l, fs, fst, st⟩ := cs
  simp only [Rv.Generated.Src.makeCacheStatusHeader, cacheStatusString, cacheStatusParams, CacheStatus.toView,
    joinSep_eq, l_reservoir, l_hit, l_reval, l_miss, l_stale, l_fwdstatus, l_stored, l_ttl]
  cases l <;> cases fs <;> cases fst <;> cases st <;> cases cached <;>
    simp [labelCode, intToDec_natCast] at hl ⊢

/-! ### the tie for EVERY value of the Go record -/

/-- what the code writes for an arbitrary `cacheStatus` record (codes outside the enumerations write nothing). -/
def paramsV (v : CacheStatusView) (cachedIsSome : Bool) (ttl : Int) : List Str :=
  [s "reservoir"] ++
  (if v.hitStatus = 2 then [s "hit"] else if v.hitStatus = 1 then [s "hit; detail=\"revalidated\""]
    else if v.hitStatus = 0 then [s "miss"] else []) ++
  (match v.fwdReason with
    | some r => if r = 0 then [s "fwd=miss"] else if r = 1 then [s "fwd=bypass"] else if r = 2 then [s "fwd=stale"] else []
    | none => []) ++
  (match v.fwdStatus with
    | some n => [s "fwd-status=" ++ intToDec n]
    | none => []) ++
  (if v.stored then [s "stored"] else []) ++
  (if cachedIsSome && (decide (v.hitStatus = 2) || decide (v.hitStatus = 1)) then [s "ttl=" ++ intToDec ttl] else [])

theorem l_fwdmiss : s "fwd=miss" = ['f', 'w', 'd', '=', 'm', 'i', 's', 's'] := by decide
theorem l_bypass : s "fwd=bypass" = ['f', 'w', 'd', '=', 'b', 'y', 'p', 'a', 's', 's'] := by decide

/-- for all inputs: the header text of the source is `paramsV` joined by "; "; it cannot panic (both `ForceUnwrap`s
    are guarded by `IsSome`). -/
theorem makeCacheStatusHeader_spec (v : CacheStatusView) (c : Bool) (ttl : Int) :
    Rv.Generated.Src.makeCacheStatusHeader () v c ttl = some (joinParams (paramsV v c ttl)) := by
  obtain ⟨hs, fr, fst, st⟩ := v
  simp only [Rv.Generated.Src.makeCacheStatusHeader, paramsV, joinSep_eq, l_reservoir, l_hit, l_reval, l_miss, l_stale,
    l_fwdstatus, l_stored, l_ttl, l_fwdmiss, l_bypass]
  have hhs : hs = 2 ∨ hs = 1 ∨ hs = 0 ∨ (hs ≠ 2 ∧ hs ≠ 1 ∧ hs ≠ 0) := by omega
  rcases fr with _ | r
  · rcases fst with _ | n <;> rcases hhs with h | h | h | ⟨h2, h1, h0⟩ <;> cases st <;> cases c <;> simp [*]
  · have hr : r = 0 ∨ r = 1 ∨ r = 2 ∨ (r ≠ 0 ∧ r ≠ 1 ∧ r ≠ 2) := by omega
    rcases fst with _ | n <;> rcases hhs with h | h | h | ⟨h2, h1, h0⟩ <;>
      rcases hr with g | g | g | ⟨g0, g1, g2⟩ <;> cases st <;> cases c <;> simp [*]

theorem makeCacheStatusHeader_total (v : CacheStatusView) (c : Bool) (ttl : Int) :
    (Rv.Generated.Src.makeCacheStatusHeader () v c ttl).isSome = true := by
  rw [makeCacheStatusHeader_spec]; rfl

/-! ### bridge to the oracle and to the harness

  The oracle (`Rv.Oracle.Proxy.cacheStatus`) prints, hex-encoded,
    hit          "reservoir; hit"
    revalidated  "reservoir; hit; detail=\"revalidated\"; fwd=stale; fwd-status=N"
    miss         "reservoir; miss; fwd-status=N" ++ ("; stored" if stored)
  with N = the response's `fwdStatus` printed by `toString`.  The harness (fam_proxy.go) cuts the real header at
  "; ttl=" before comparing.  `noTtl_*` prove that the specification WITHOUT its ttl member is exactly those three
  strings (N printed by `toDec`), `ttl_suffix` that the ttl member is a suffix "; ttl=N" and present exactly when the
  response comes from an entry and is a hit or a revalidation.  So the oracle omits nothing the code emits except
  `ttl=` (cut by the harness); `fwd=miss` is NOT emitted by the code on a miss (`fetchResultToCacheStatus` sets a
  forward reason only for a revalidation), in agreement with the oracle.  Not proved: `toString N = toDec N` inside the
  oracle's `String` interpolation (checked on concrete statuses below). -/

theorem o_hit : s "reservoir; hit" = s "reservoir" ++ s "; " ++ s "hit" := by decide
theorem o_reval : s "reservoir; hit; detail=\"revalidated\"; fwd=stale; fwd-status=" =
    s "reservoir" ++ s "; " ++ s "hit; detail=\"revalidated\"" ++ s "; " ++ s "fwd=stale" ++ s "; " ++ s "fwd-status=" := by decide
theorem o_miss : s "reservoir; miss; fwd-status=" = s "reservoir" ++ s "; " ++ s "miss" ++ s "; " ++ s "fwd-status=" := by decide
theorem o_stored : s "; stored" = s "; " ++ s "stored" := by decide
theorem o_ttl : s "; ttl=" = s "; " ++ s "ttl=" := by decide

theorem noTtl_hit (cached : Bool) (up : Nat) :
    cacheStatusNoTtl (cacheStatusOf cached .hit up) = s "reservoir; hit" := by
  cases cached <;> simp [cacheStatusNoTtl, cacheStatusString, cacheStatusParams, cacheStatusOf, joinParams, o_hit]

theorem noTtl_revalidated (cached : Bool) (up : Nat) :
    cacheStatusNoTtl (cacheStatusOf cached .revalidated up) =
      s "reservoir; hit; detail=\"revalidated\"; fwd=stale; fwd-status=" ++ toDec up := by
  cases cached <;> simp [cacheStatusNoTtl, cacheStatusString, cacheStatusParams, cacheStatusOf, joinParams, o_reval]

theorem noTtl_miss (cached : Bool) (up : Nat) :
    cacheStatusNoTtl (cacheStatusOf cached .miss up) =
      s "reservoir; miss; fwd-status=" ++ toDec up ++ (if cached then s "; stored" else []) := by
  cases cached <;> simp [cacheStatusNoTtl, cacheStatusString, cacheStatusParams, cacheStatusOf, joinParams, o_miss, o_stored]

/-- the ttl member is a suffix, present exactly for a response from an entry that is a hit or a revalidation. -/
theorem ttl_suffix (cached : Bool) (l : Label) (up ttl : Nat) (hl : l ≠ .none) :
    cacheStatusString (cacheStatusOf cached l up) cached ttl =
      cacheStatusNoTtl (cacheStatusOf cached l up) ++
        (if cached && (decide (l = .hit) || decide (l = .revalidated)) then s "; ttl=" ++ toDec ttl else []) := by
  cases cached <;> cases l <;>
    simp [cacheStatusNoTtl, cacheStatusString, cacheStatusParams, cacheStatusOf, joinParams, o_ttl] at hl ⊢

/-! ### the oracle's own function on concrete responses: its string is the specification without ttl, hex-encoded
    (this checks `toString N` against `toDec N` for the statuses shown) -/

example : Rv.Oracle.Proxy.cacheStatus { status := 200, label := .miss, fwdStatus := some 200, storedFlag := true, body := .empty } =
    Rv.Oracle.Proxy.hexS (cacheStatusNoTtl (cacheStatusOf true .miss 200)) := by decide
set_option maxRecDepth 8000 in
example : Rv.Oracle.Proxy.cacheStatus { status := 200, label := .revalidated, fwdStatus := some 304, body := .empty } =
    Rv.Oracle.Proxy.hexS (cacheStatusNoTtl (cacheStatusOf true .revalidated 304)) := by decide
example : Rv.Oracle.Proxy.cacheStatus { status := 200, label := .hit, body := .empty } =
    Rv.Oracle.Proxy.hexS (cacheStatusNoTtl (cacheStatusOf true .hit 0)) := by decide

/-! ### concrete inputs -/

example : Rv.Generated.Src.makeCacheStatusHeader () ⟨1, some 2, some 304, false⟩ true 17 =
    some (s "reservoir; hit; detail=\"revalidated\"; fwd=stale; fwd-status=304; ttl=17") := by decide
example : Rv.Generated.Src.makeCacheStatusHeader () ⟨0, none, some 200, true⟩ true 5 =
    some (s "reservoir; miss; fwd-status=200; stored") := by decide
example : Rv.Generated.Src.makeCacheStatusHeader () ⟨2, none, none, false⟩ true 0 = some (s "reservoir; hit; ttl=0") := by decide
example : Rv.Generated.Src.makeCacheStatusHeader () ⟨0, some 1, some 206, false⟩ false 0 =
    some (s "reservoir; miss; fwd=bypass; fwd-status=206") := by decide

end Rv.Props.SrcCacheStatus
