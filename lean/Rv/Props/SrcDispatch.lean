import Rv.Generated.SrcDispatch
import Rv.Model.Dispatch
/-
  PROVED tie between the upstream-answer dispatch of the model's request machine
  and the code: `Rv.Generated.SrcDispatch` is regenerated from /repo's Go source
  on every run.  Translated as pure deciders:
  * `(*fetcher).shouldResponseBeCached` (proxy/fetcher.go): leaves
    `upstreamHd.ShouldCache(cfg.ignore_cache_control)` (tied to the model by group
    Directives), `resp.StatusCode`, `resp.Request.Method`, `http.StatusOK` = 200,
    `http.MethodGet` = "GET";
  * `(*fetcher).handleUpstreamResponse`: WHICH handler its status switch calls
    (spec `returns`: every return statement is named by exactly one rule; the
    `noRetry` argument passed to `handleUpstream416` is translated), leaves
    `resp.StatusCode`, `cfg.Proxy.RetryOnRange416.Read()`, the three status
    constants.  The handlers themselves (cache writes, the second exchange) are
    not translated: Rv/Model/Dispatch.lean proves which path of `onAnswer` /
    `fetchUpstream` the model's machine takes for each `Dispatch`.

  FINDING (model vs code).  The model decides by the CONSTRUCTOR of the scripted
  origin answer, the code by the status.  They agree for every answer with
  `Scripted a`; they differ for an origin record scripted with `status = 304` or
  `416` that answers a request as `.full o` (e.g. `o.status = 304`, `o.cond =
  false`, any unconditional GET): the model relays it (`onAnswer … (.full o) =
  (.direct …, c)`), the code runs `handleUpstream304` (UpdateMetadata on the
  key; an error → ErrNotCacheable path when the key is absent) resp.
  `handleUpstream416` (a retry when enabled) — `full_304_differs`.
-/
set_option linter.unusedSimpArgs false
namespace Rv.Props.SrcDispatch
open Rv Rv.Fetch Rv.SrcViews

/-- `shouldResponseBeCached` of the source is the model's `storable`. -/
theorem shouldResponseBeCached_eq (cfg : Cfg) (o : ORes) (method : String) (now : Int) :
    Rv.Generated.Src.shouldResponseBeCached () () ()
        (CacheControl.shouldCache (directives o now) cfg.ignoreCC (ns now)) (o.status : Int) method =
      some (storable cfg o method now) := by
  simp only [Rv.Generated.Src.shouldResponseBeCached, storable]
  have i2 : ((o.status : Int) = 200) = (o.status = 200) := by apply propext; omega
  have j2 : ((200 : Int) = (o.status : Int)) = (o.status = 200) := by apply propext; omega
  by_cases h : o.status = 200 <;> by_cases hm : method = "GET" <;> simp [i2, j2, h, hm] <;> omega

/-- the status switch of the source is `dispatchOf`, for every status and both flags; it cannot panic. -/
theorem handleUpstreamResponse_eq (cfg : Cfg) (status : Nat) (noRetry : Bool) :
    Rv.Generated.Src.handleUpstreamResponse () () () () () noRetry (status : Int) cfg.retry416 =
      some (dispatchOf cfg status noRetry) := by
  simp only [Rv.Generated.Src.handleUpstreamResponse, dispatchOf]
  have i2 : ((status : Int) = 200) = (status = 200) := by apply propext; omega
  have j2 : ((200 : Int) = (status : Int)) = (status = 200) := by apply propext; omega
  have i3 : ((status : Int) = 304) = (status = 304) := by apply propext; omega
  have j3 : ((304 : Int) = (status : Int)) = (status = 304) := by apply propext; omega
  have i4 : ((status : Int) = 416) = (status = 416) := by apply propext; omega
  have j4 : ((416 : Int) = (status : Int)) = (status = 416) := by apply propext; omega
  by_cases h2 : status = 200 <;> by_cases h3 : status = 304 <;> by_cases h4 : status = 416 <;>
    cases noRetry <;> cases hr : cfg.retry416 <;> simp [i2, j2, i3, j3, i4, j4, h2, h3, h4, hr] <;> omega

/-- composed with the model: for a scripted answer, the handler the CODE picks for the answer's status is the path
    the MODEL's `onAnswer` takes. -/
theorem dispatch_passThrough (cfg : Cfg) (c : Cache) (now : Int) (u : UpReq) (a : OAns) (nr : Bool) (hs : Scripted a)
    (h : Rv.Generated.Src.handleUpstreamResponse () () () () () nr (ansStatus a : Int) cfg.retry416 = some .passThrough) :
    onAnswer cfg c now u a = (.direct a, c) := by
  rw [handleUpstreamResponse_eq] at h
  exact onAnswer_passThrough cfg c now u a nr hs (Option.some.inj h)

theorem dispatch_ok200 (cfg : Cfg) (c : Cache) (now : Int) (u : UpReq) (a : OAns) (nr : Bool) (hs : Scripted a)
    (h : Rv.Generated.Src.handleUpstreamResponse () () () () () nr (ansStatus a : Int) cfg.retry416 = some .ok200) :
    ∃ o, a = .full o ∧ o.status = 200 ∧
      (Rv.Generated.Src.shouldResponseBeCached () () ()
          (CacheControl.shouldCache (directives o now) cfg.ignoreCC (ns now)) (o.status : Int) u.method = some false →
        onAnswer cfg c now u a = (.direct a, c)) := by
  rw [handleUpstreamResponse_eq] at h
  obtain ⟨o, ha, hst, hon⟩ := onAnswer_ok200 cfg c now u a nr hs (Option.some.inj h)
  refine ⟨o, ha, hst, fun hf => ?_⟩
  rw [shouldResponseBeCached_eq] at hf
  rw [hon, Option.some.inj hf]; rfl

/-- the finding, concretely: an origin record with status 304 answering as a full response. -/
theorem full_304_differs (cfg : Cfg) (c : Cache) (now : Int) (u : UpReq) (o : ORes) (h : o.status = 304) :
    onAnswer cfg c now u (.full o) = (.direct (.full o), c) ∧
    Rv.Generated.Src.handleUpstreamResponse () () () () () false (ansStatus (.full o) : Int) cfg.retry416 =
      some .notModified := by
  constructor
  · simp [onAnswer, h]
  · rw [handleUpstreamResponse_eq]; simp [dispatchOf, ansStatus, h]

example : Rv.Generated.Src.handleUpstreamResponse () () () () () false 416 true = some (.unsat416 false) := by decide
example : Rv.Generated.Src.handleUpstreamResponse () () () () () false 416 false = some (.unsat416 true) := by decide
example : Rv.Generated.Src.handleUpstreamResponse () () () () () true 416 true = some (.unsat416 true) := by decide
example : Rv.Generated.Src.handleUpstreamResponse () () () () () false 206 true = some .passThrough := by decide
example : Rv.Generated.Src.shouldResponseBeCached () () () true 200 "HEAD" = some false := by decide

end Rv.Props.SrcDispatch
