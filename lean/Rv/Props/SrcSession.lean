import Rv.Generated.SrcSession
import Rv.Model.Auth
/-
  PROVED tie between the session model and the code: the three time tests of
  webserver/auth/session.go (refuse-as-expired, extend, collect) are translated
  from the Go source on every run (`Rv.Generated.SrcSession`, tools/go2lean);
  the theorems state that `Rv.Auth.getSession` and `Rv.Auth.gc` decide by exactly
  these tests. A changed comparison (`>` vs `>=`, a swapped operand, a margin)
  changes the translated definition and breaks the theorem in the kernel.
-/
namespace Rv.Props.SrcSession
open Rv Rv.Auth

theorem refused_eq (e now : Int) : Rv.Generated.Src.sessionRefusedAsExpired e now = some (decide (¬ (e > now))) := by
  unfold Rv.Generated.Src.sessionRefusedAsExpired
  by_cases h : e > now <;> simp [h]

theorem extended_eq (e th now : Int) : Rv.Generated.Src.sessionExtended e th now = some (decide (e - now ≤ th)) := by
  unfold Rv.Generated.Src.sessionExtended; rfl

theorem collected_eq (e now : Int) : Rv.Generated.Src.sessionCollected e now = some (decide (e < now)) := by
  unfold Rv.Generated.Src.sessionCollected; rfl

/-- `GetSession` of the model decides by the source's two tests, in the source's order. -/
theorem getSession_uses_the_source_tests (c : Cfg) (st : St) (sid : Nat) (s : Session) (h : find st sid = some s) :
    getSession c st sid =
      if Rv.Generated.Src.sessionRefusedAsExpired s.expiresAt st.now = some true then (remove st sid, none)
      else if Rv.Generated.Src.sessionExtended s.expiresAt c.threshold st.now = some true then
        ({ st with sessions := st.sessions.map (fun x => if x.sid = sid then { s with expiresAt := st.now + c.lifetime } else x) },
          some { s with expiresAt := st.now + c.lifetime })
      else (st, some s) := by
  unfold getSession
  rw [h, refused_eq, extended_eq]
  by_cases h1 : s.expiresAt > st.now <;> by_cases h2 : s.expiresAt - st.now ≤ c.threshold <;> simp [h1, h2]

/-- the session GC of the model removes exactly what the source's test selects. -/
theorem gc_uses_the_source_test (st : St) :
    gc st = { st with sessions := st.sessions.filter (fun s => !(Rv.Generated.Src.sessionCollected s.expiresAt st.now == some true)) } := by
  unfold gc
  congr 1
  apply List.filter_congr
  intro s _
  rw [collected_eq]
  by_cases h : s.expiresAt < st.now <;> simp [h]

example : Rv.Generated.Src.sessionRefusedAsExpired 100 100 = some true := by decide
example : Rv.Generated.Src.sessionExtended 700 600 100 = some true := by decide

end Rv.Props.SrcSession
