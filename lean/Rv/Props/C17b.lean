import Rv.Model.Config
import Rv.Lemmas.Config
/-
  C17 (configuration cells) — saved config reads back identically; CLI overrides
  win but are not saved.
-/
namespace Rv.Props.C17b
open Rv.Config

/-- reading back: loading the file written for a configuration yields the same
    base value in every cell (the per-type text round trips — ByteSize proved in
    C17a, Duration and slog.Level standard-library pairs — are what makes the
    file's values equal the cells'). -/
theorem save_load_identity (cfg : Cfg) (hn : (cfg.map (·.name)).Nodup) :
    (load cfg (serialize cfg)).map (·.base) = cfg.map (·.base) :=
  Rv.Lemmas.Config.save_load_identity cfg hn

/-- an override wins: after ANY history of overwrites and (accepted, rejected,
    failing) updates, a setting that was overridden on the command line reads as
    the last command-line value. -/
theorem override_wins (ops : List Op) (st : State) (view : String → Option Val) (name : String) (v : Val)
    (hk : known st.cfg name = true)
    (hno : ∀ v', Op.overwrite name v' ∉ ops) :
    readOf (run (.overwrite name v :: ops) st view).1.cfg name = some v :=
  Rv.Lemmas.Config.override_wins ops st view name v hk hno

/-- … but is never saved: in every reachable state the file holds the base
    values, and no overwrite changes the file. -/
theorem overrides_not_saved (ops : List Op) (st : State) (view : String → Option Val) (h : st.file = serialize st.cfg) :
    (run ops st view).1.file = serialize (run ops st view).1.cfg :=
  Rv.Lemmas.Config.overrides_not_saved ops st view h

theorem overwrite_keeps_file (st : State) (name : String) (v : Val) :
    (overwrite st name v).1.file = st.file ∧ serialize (overwrite st name v).1.cfg = serialize st.cfg :=
  Rv.Lemmas.Config.overwrite_keeps_file st name v

/-- the running process follows the effective value: a component that starts
    with the effective value of a setting and applies the notifications it
    receives (in order) holds the effective value after any history — in
    particular the command-line value for an overridden setting, also after
    later API updates of that setting. -/
theorem running_process_follows_override (ops : List Op) (st : State) (view : String → Option Val)
    (hn : (st.cfg.map (·.name)).Nodup)
    (h0 : ∀ c ∈ st.cfg, view c.name = some c.read) :
    ∀ c ∈ (run ops st view).1.cfg, (run ops st view).2 c.name = some c.read :=
  Rv.Lemmas.Config.running_process_follows_override ops st view hn h0

end Rv.Props.C17b
