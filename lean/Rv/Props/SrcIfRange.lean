import Rv.Generated.SrcIfRange
import Rv.Model.Fetch
/-
  PROVED tie between the model's `Rv.Fetch.ifRangeMismatch` (C07: "an If-Range
  that does not match the stored validator yields the full 200") and the code:
  `Rv.Generated.SrcIfRange.ifRangeDecision` is the translation of the statement
  `if clientHd.IfRange.IsPresent() { … }` of `Proxy.handleRangeRequest`
  (proxy/proxy.go), regenerated on every run (spec mode `block`: the result is
  `none` when control falls out of the statement — the 206 is served — and
  `some "ErrIfRangeMismatch"` when it returns that error — `handleHTTP` then
  sends the full 200).

  Leaves of the spec: the parsed If-Range header `clientHd.IfRange` is
  `ifRangeHd : Option (Sum String Int)` (`typeutils.Either`: `inl` = an entity
  tag, `inr` = an HTTP date; `IsLeft`, `ForceUnwrapLeft/Right` are `Sum.isLeft`,
  `Sum.getLeft?/getRight?`, the latter Option-valued: a wrong-side unwrap is a
  panic); the stored validators `cached.Metadata.Object.ETag` is `etag`,
  `….LastModified.IsZero()` is `lmZero` and `….LastModified` is `lm` — two
  INDEPENDENT parameters, so the theorem holds for every value of `lm` when the
  stored Last-Modified is absent or unparsable (the code must not look at it).
-/
namespace Rv.Props.SrcIfRange
open Rv Rv.Fetch

/-- the request's If-Range as the code's `Either`: an entity tag takes precedence (the parser produces a date only
    when the value is an HTTP date). -/
def ifRangeHd (r : Req) : Option (Sum String Int) :=
  match r.ifRangeEtag, r.ifRangeDate with
  | some t, _ => some (.inl t)
  | none, some d => some (.inr d)
  | none, none => none

/-- the stored Last-Modified is "zero" unless it is a valid date. -/
def lmZero (e : CEntry) : Bool :=
  match e.o.lm with
  | .at _ => false
  | _ => true

/-- the stored Last-Modified when it is a valid date, else the arbitrary `dflt`. -/
def lmVal (e : CEntry) (dflt : Int) : Int :=
  match e.o.lm with
  | .at l => l
  | _ => dflt

/-- the decision cannot panic: `Value()` is guarded by `IsPresent()`, each `ForceUnwrap` by `IsLeft()`. -/
theorem ifRangeDecision_total (hd : Option (Sum String Int)) (etag : String) (z : Bool) (lm : Int) :
    (Rv.Generated.Src.ifRangeDecision hd etag z lm).isSome = true := by
  simp only [Rv.Generated.Src.ifRangeDecision]
  rcases hd with _ | (t | d) <;> simp <;> (repeat' split) <;> simp

/-- the tie on the components the decision depends on. -/
theorem ifRangeDecision_core (ie : Option String) (id : Option Int) (etag : String) (lm : LM) (dflt : Int) :
    Rv.Generated.Src.ifRangeDecision
        (match ie, id with | some t, _ => some (.inl t) | none, some d => some (.inr d) | none, none => none)
        etag (match lm with | .at _ => false | _ => true) (match lm with | .at l => l | _ => dflt) =
      some (if (match ie, id with
                | some t, _ => decide (t ≠ etag)
                | none, some d => (match lm with | .at l => decide (d < l) | _ => true)
                | none, none => false) = true
            then some "ErrIfRangeMismatch" else none) := by
  simp only [Rv.Generated.Src.ifRangeDecision]
  cases ie <;> cases id <;> cases lm <;> simp <;> (repeat' split) <;> simp_all

/-- THE TIE: the code returns `ErrIfRangeMismatch` (⇒ full 200) exactly when the model's `ifRangeMismatch` holds, and
    otherwise falls through to serve the range; for every value `dflt` of the unread Last-Modified. -/
theorem ifRangeDecision_eq (r : Req) (e : CEntry) (dflt : Int) :
    Rv.Generated.Src.ifRangeDecision (ifRangeHd r) e.o.etag (lmZero e) (lmVal e dflt) =
      some (if ifRangeMismatch r e then some "ErrIfRangeMismatch" else none) :=
  ifRangeDecision_core r.ifRangeEtag r.ifRangeDate e.o.etag e.o.lm dflt

example : Rv.Generated.Src.ifRangeDecision (some (.inl "\"a\"")) "\"a\"" true 0 = some none := by decide
example : Rv.Generated.Src.ifRangeDecision (some (.inl "\"a\"")) "\"b\"" false 7 = some (some "ErrIfRangeMismatch") := by decide
example : Rv.Generated.Src.ifRangeDecision (some (.inr 10)) "" false 10 = some none := by decide
example : Rv.Generated.Src.ifRangeDecision (some (.inr 9)) "" false 10 = some (some "ErrIfRangeMismatch") := by decide
example : Rv.Generated.Src.ifRangeDecision (some (.inr 9)) "" true 0 = some (some "ErrIfRangeMismatch") := by decide
example : Rv.Generated.Src.ifRangeDecision none "x" true 0 = some none := by decide

end Rv.Props.SrcIfRange
