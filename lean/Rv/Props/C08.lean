import Rv.Model.Headers
import Rv.Generated.Consts
import Rv.Generated.Shapes
import Rv.Lemmas.Headers
/-
  C08 — relayed traffic is faithful in both directions (header level; status,
  body and request line pass through `Rv.Model.Fetch.relay`, see C08b there).
-/
namespace Rv.Props.C08
open Rv Rv.Headers

/-- the hop-by-hop list of the CURRENT source. -/
def hop : List Str := (Rv.Generated.hopHeaders.map String.toList).map canonKey   -- as `http.Header.Del` sees the names

/-- the source's list is the RFC 9110 §7.6.1 list the property refers to. -/
theorem hop_list_is_standard :
    Rv.Generated.hopHeaders = ["Connection", "Proxy-Connection", "Keep-Alive", "Proxy-Authenticate",
      "Proxy-Authorization", "TE", "Trailer", "Transfer-Encoding", "Upgrade"] := by decide

/-- no hop-by-hop field and no field nominated by `Connection` survives, whatever
    the casing of the nomination. -/
theorem hop_removed (h : Hdr) (kv : Str × Str) (hin : kv ∈ removeHopByHop hop h) :
    kv.1 ∉ hop ∧ kv.1 ∉ connTokens h :=
  Rv.Lemmas.Headers.hop_removed hop h kv hin

/-- every other field keeps all of its values, in order. -/
theorem end_to_end_preserved (h : Hdr) (name : Str) (h1 : name ∉ hop) (h2 : name ∉ connTokens h) :
    values (removeHopByHop hop h) name = values h name :=
  Rv.Lemmas.Headers.end_to_end_preserved hop h name h1 h2

/-- `SetHeaders` delivers every value of every field of the source, in order
    (the multi-valued `Set-Cookie` case), and leaves other fields of the
    destination alone. -/
theorem setHeaders_values (dst src : Hdr) (name : Str) :
    values (setHeaders dst src) name = if (values src name) ≠ [] then values src name else values dst name :=
  Rv.Lemmas.Headers.setHeaders_values dst src name

/-- both responders copy multi-valued fields value by value (extracted shape). -/
theorem setHeaders_shape :
    Rv.Generated.setHeadersHTTPResponder = "replaceThenAddEach" ∧
    Rv.Generated.setHeadersRawHTTPResponder = "replaceThenAddEach" := by decide

/-- the proxy relays redirects instead of following them (extracted shape). -/
theorem redirects_relayed : Rv.Generated.upstreamRedirects = "relaysRedirects" := by decide

/-- a response assembled from origin headers `o` by hop-by-hop removal, SetHeaders
    onto an empty responder and then any number of Set/Add of proxy-owned fields
    carries, for every field that is neither hop-by-hop nor proxy-owned, exactly
    the origin's values in the origin's order. -/
theorem response_faithful (o : Hdr) (own : List (Bool × Str × Str)) (name : Str)
    (hown : ∀ x ∈ own, x.2.1 ∈ proxyOwned) (h0 : name ∉ proxyOwned) (h1 : name ∉ hop)
    (h2 : name ∉ connTokens o) :
    values (own.foldl (fun d x => if x.1 then set d x.2.1 x.2.2 else add d x.2.1 x.2.2)
      (setHeaders [] (removeHopByHop hop o))) name = values o name :=
  Rv.Lemmas.Headers.response_faithful hop o own name hown h0 h1 h2

example : values (setHeaders [] [(s "Set-Cookie", s "a=1"), (s "Set-Cookie", s "b=2")]) (s "Set-Cookie") = [s "a=1", s "b=2"] := by decide
example : removeHopByHop hop [(s "Connection", s "close, x-hop"), (s "X-Hop", s "1"), (s "X-Keep", s "2")] = [(s "X-Keep", s "2")] := by decide

end Rv.Props.C08
