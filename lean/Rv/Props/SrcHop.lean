import Rv.Generated.SrcHop
import Rv.Model.Headers
import Rv.Lemmas.Headers
import Rv.Lemmas.Key
import Rv.Oracle.Proxy
/-
  PROVED tie between the model's `Rv.Headers.removeHopByHop` (C08) and the code:
  `Rv.Generated.SrcHop.removeHopByHopHeaders` is the translation of
  `removeHopByHopHeaders` (proxy/requests.go), regenerated on every run: three
  range loops (two of them nested) over lists of strings, each an auxiliary
  structurally recursive function carrying the header.

  `http.Header` is `Rv.Headers.Hdr` (a list of (canonical name, value) pairs; the
  parameter the Go function mutates is a loop-carried local whose final value is
  the result).  TRUSTED leaf meanings: `header.Values(k)` = `values h (canonKey
  k)` and `header.Del(k)` = `del h (canonKey k)` (http.Header canonicalises the
  name it is given), `strings.SplitSeq(v, ",")` = `Rv.splitOn ','`,
  `strings.TrimSpace` = `Rv.trimSpace`, `http.CanonicalHeaderKey` =
  `Rv.Headers.canonKey`.

  RESULT: list equality with the model's function — for the hop list in
  CANONICAL form.  FINDING: the Go literal spells one name "TE"; `header.Del`
  canonicalises it to "Te" and removes a `Te` header, whereas the model applied
  to the literal list as it stands (`Rv.Oracle.Proxy.hopList`, which contains
  "TE") keeps a header stored under the canonical key "Te" — see
  `model_keeps_Te`.
-/
namespace Rv.Props.SrcHop
open Rv Rv.Headers

/-! ### `canonKey` is idempotent (so `Del(token)` of an already canonical token deletes that token) -/

theorem upper_ofNat : ∀ k, k < 26 → upperChar (Char.ofNat (65 + k)) = Char.ofNat (65 + k) ∧ Char.ofNat (65 + k) ≠ '-' := by decide
theorem lower_ofNat : ∀ k, k < 26 → Char.ofNat (97 + k) ≠ '-' := by decide

theorem lower_bounds {c : Char} (h : ('a' ≤ c && c ≤ 'z') = true) : 97 ≤ c.toNat ∧ c.toNat ≤ 122 := by
  simp only [Bool.and_eq_true, decide_eq_true_eq] at h
  obtain ⟨h1, h2⟩ := h
  rw [Char.le_def] at h1 h2
  simp only [UInt32.le_iff_toNat_le] at h1 h2
  have e1 : 'a'.val.toNat = 97 := by decide
  have e2 : 'z'.val.toNat = 122 := by decide
  have e3 : c.toNat = c.val.toNat := rfl
  omega

theorem dash_toNat : '-'.toNat = 45 := by decide

theorem upperChar_facts (c : Char) : upperChar (upperChar c) = upperChar c ∧ (upperChar c = '-' ↔ c = '-') := by
  by_cases h : ('a' ≤ c && c ≤ 'z') = true
  · have hb := lower_bounds h
    have e : upperChar c = Char.ofNat (65 + (c.toNat - 97)) := by
      unfold upperChar; rw [if_pos h]; congr 1; omega
    have hk := upper_ofNat (c.toNat - 97) (by omega)
    rw [e]
    refine ⟨hk.1, ⟨fun h' => absurd h' hk.2, fun h' => ?_⟩⟩
    rw [h', dash_toNat] at hb; omega
  · have e : upperChar c = c := by unfold upperChar; rw [if_neg h]
    rw [e, e]; exact ⟨rfl, Iff.rfl⟩

theorem lowerChar_facts (c : Char) : lowerChar (lowerChar c) = lowerChar c ∧ (lowerChar c = '-' ↔ c = '-') := by
  refine ⟨Rv.Lemmas.Key.lowerChar_idem c, ?_⟩
  by_cases h : ('A' ≤ c && c ≤ 'Z') = true
  · have hb := Rv.Lemmas.Key.upper_bounds h
    have e : lowerChar c = Char.ofNat (97 + (c.toNat - 65)) := by
      unfold lowerChar; rw [if_pos h]; congr 1; omega
    have hk := lower_ofNat (c.toNat - 65) (by omega)
    rw [e]
    refine ⟨fun h' => absurd h' hk, fun h' => ?_⟩
    rw [h', dash_toNat] at hb; omega
  · have e : lowerChar c = c := by unfold lowerChar; rw [if_neg h]
    rw [e]

theorem canonAux_idem : ∀ (x : Str) (up : Bool), canonAux up (canonAux up x) = canonAux up x
  | [], _ => rfl
  | c :: cs, up => by
    cases up
    · have hf := lowerChar_facts c
      simp only [canonAux, Bool.false_eq_true, if_false, hf.1, List.cons.injEq, true_and]
      have : decide (lowerChar c = '-') = decide (c = '-') := by simp only [hf.2]
      rw [this]; exact canonAux_idem cs _
    · have hf := upperChar_facts c
      simp only [canonAux, if_true, hf.1, List.cons.injEq, true_and]
      have : decide (upperChar c = '-') = decide (c = '-') := by simp only [hf.2]
      rw [this]; exact canonAux_idem cs _

theorem canonKey_idem (x : Str) : canonKey (canonKey x) = canonKey x := canonAux_idem x true

/-! ### the three loops as folds -/

/-- one iteration of the inner loop: the token named by one comma-separated piece of a `Connection` value -/
def step2 (h : Hdr) (raw : Str) : Hdr :=
  if canonKey (trimSpace raw) = [] then h else del h (canonKey (canonKey (trimSpace raw)))

theorem loop2_eq : ∀ (rest : List Str) (h : Hdr),
    Rv.Generated.Src.removeHopByHopHeaders_loop2 rest h = some (.done (rest.foldl step2 h))
  | [], h => by simp only [Rv.Generated.Src.removeHopByHopHeaders_loop2, List.foldl_nil]
  | raw :: rest, h => by
    rw [Rv.Generated.Src.removeHopByHopHeaders_loop2, List.foldl_cons]
    simp only [step2, beq_iff_eq]
    (repeat' split) <;> first | exact loop2_eq rest _ | (simp_all; done)

theorem loop1_eq : ∀ (vs : List Str) (h : Hdr),
    Rv.Generated.Src.removeHopByHopHeaders_loop1 vs h =
      some (.done (vs.foldl (fun h v => (splitOn ',' v).foldl step2 h) h))
  | [], h => by simp only [Rv.Generated.Src.removeHopByHopHeaders_loop1, List.foldl_nil]
  | v :: vs, h => by
    rw [Rv.Generated.Src.removeHopByHopHeaders_loop1, List.foldl_cons]
    simp only [loop2_eq, Option.bind_some]
    exact loop1_eq vs _

theorem loop3_eq : ∀ (ks : List Str) (h : Hdr),
    Rv.Generated.Src.removeHopByHopHeaders_loop3 ks h = some (.done (ks.foldl (fun h k => del h (canonKey k)) h))
  | [], h => by simp only [Rv.Generated.Src.removeHopByHopHeaders_loop3, List.foldl_nil]
  | k :: ks, h => by
    rw [Rv.Generated.Src.removeHopByHopHeaders_loop3, List.foldl_cons]
    exact loop3_eq ks _

/-! ### successive deletions are one filter -/

theorem foldl_del : ∀ (ks : List Str) (h : Hdr),
    ks.foldl (fun h k => del h k) h = h.filter (fun kv => !ks.contains kv.1)
  | [], h => by
    have : h.filter (fun _ => true) = h := List.filter_eq_self.mpr (fun _ _ => rfl)
    simpa using this.symm
  | k :: ks, h => by
    rw [List.foldl_cons, foldl_del ks, del, List.filter_filter]
    apply List.filter_congr
    intro kv _
    by_cases e : kv.1 = k <;> simp [e, List.contains_cons, eq_comm]

/-- the tokens one `Connection` value names -/
def tokV (v : Str) : List Str := ((splitOn ',' v).map (fun t => canonKey (trimSpace t))).filter (· ≠ [])

theorem foldl_step2 : ∀ (raws : List Str) (h : Hdr),
    raws.foldl step2 h = ((raws.map (fun t => canonKey (trimSpace t))).filter (· ≠ [])).foldl (fun h k => del h k) h
  | [], h => rfl
  | raw :: raws, h => by
    rw [List.foldl_cons, foldl_step2 raws, List.map_cons]
    by_cases e : canonKey (trimSpace raw) = []
    · simp [step2, e]
    · simp [step2, e, canonKey_idem]

theorem foldl_values : ∀ (vs : List Str) (h : Hdr),
    vs.foldl (fun h v => (splitOn ',' v).foldl step2 h) h = (vs.flatMap tokV).foldl (fun h k => del h k) h
  | [], h => rfl
  | v :: vs, h => by
    rw [List.foldl_cons, foldl_values vs, List.flatMap_cons, List.foldl_append, foldl_step2]
    rfl

theorem connTokens_eq (h : Hdr) : connTokens h = (values h connectionLit).flatMap tokV := by
  simp only [connTokens, List.filter_flatMap]
  rfl

theorem canon_connection : canonKey ['C', 'o', 'n', 'n', 'e', 'c', 't', 'i', 'o', 'n'] = connectionLit := by decide

theorem foldl_del_canon (ks : List Str) (h : Hdr) :
    ks.foldl (fun h k => del h (canonKey k)) h = (ks.map canonKey).foldl (fun h k => del h k) h := by
  rw [List.foldl_map]

/-! ### the tie -/

/-- THE TIE: for every header map, the translated `removeHopByHopHeaders` returns exactly the model's
    `removeHopByHop` of the hop list in canonical form (`hopList` is the Go literal, emitted by the fact extractor;
    `header.Del` canonicalises each of its names); it cannot panic. -/
theorem removeHopByHopHeaders_eq (h : Hdr) :
    Rv.Generated.Src.removeHopByHopHeaders h =
      some (removeHopByHop (Rv.Oracle.Proxy.hopList.map canonKey) h) := by
  simp only [Rv.Generated.Src.removeHopByHopHeaders, loop1_eq, loop3_eq, Option.bind_some, canon_connection,
    foldl_values, foldl_del_canon, foldl_del, ← connTokens_eq, removeHopByHop, List.filter_filter]
  congr 1
  apply List.filter_congr
  intro kv _
  have hl : (([['C', 'o', 'n', 'n', 'e', 'c', 't', 'i', 'o', 'n'], ['P', 'r', 'o', 'x', 'y', '-', 'C', 'o', 'n', 'n', 'e', 'c', 't', 'i', 'o', 'n'], ['K', 'e', 'e', 'p', '-', 'A', 'l', 'i', 'v', 'e'], ['P', 'r', 'o', 'x', 'y', '-', 'A', 'u', 't', 'h', 'e', 'n', 't', 'i', 'c', 'a', 't', 'e'], ['P', 'r', 'o', 'x', 'y', '-', 'A', 'u', 't', 'h', 'o', 'r', 'i', 'z', 'a', 't', 'i', 'o', 'n'], ['T', 'E'], ['T', 'r', 'a', 'i', 'l', 'e', 'r'], ['T', 'r', 'a', 'n', 's', 'f', 'e', 'r', '-', 'E', 'n', 'c', 'o', 'd', 'i', 'n', 'g'], ['U', 'p', 'g', 'r', 'a', 'd', 'e']] : List Str)) =
      Rv.Oracle.Proxy.hopList := by decide
  simp only [hl, Bool.and_comm]

/-- the same as an equality of `values` for every name. -/
theorem removeHopByHopHeaders_values (h : Hdr) (name : Str) :
    (Rv.Generated.Src.removeHopByHopHeaders h).map (fun r => values r name) =
      some (values (removeHopByHop (Rv.Oracle.Proxy.hopList.map canonKey) h) name) := by
  rw [removeHopByHopHeaders_eq]; rfl

/-- FINDING: the canonical hop list is not the literal list (TE / Te) … -/
theorem hopList_not_canonical : Rv.Oracle.Proxy.hopList.map canonKey ≠ Rv.Oracle.Proxy.hopList := by decide

/-- … and the model applied to the literal list keeps a `Te` header that the code removes. -/
theorem model_keeps_Te :
    values (removeHopByHop Rv.Oracle.Proxy.hopList [(['T', 'e'], ['x'])]) ['T', 'e'] = [['x']] ∧
    Rv.Generated.Src.removeHopByHopHeaders [(['T', 'e'], ['x'])] = some [] := by decide

example : Rv.Generated.Src.removeHopByHopHeaders
    [(Rv.s "Connection", Rv.s "close, x-foo"), (Rv.s "X-Foo", Rv.s "1"), (Rv.s "Accept", Rv.s "a"), (Rv.s "Keep-Alive", Rv.s "5"), (Rv.s "Accept", Rv.s "b")] =
    some [(Rv.s "Accept", Rv.s "a"), (Rv.s "Accept", Rv.s "b")] := by decide

end Rv.Props.SrcHop
