import Rv.Generated.SrcRange
import Rv.Model.Range
/-
  PROVED tie between a hand-written model and the code: `Rv.Generated.SrcRange` is
  regenerated from /repo's Go source on every run by `tools/go2lean` (`none` =
  Go run-time panic); each theorem states that a translated definition equals,
  for ALL inputs, the model function the property theorems are about, and never
  panics. A change of the Go function that changes its input/output behaviour
  breaks the theorem in the kernel; a behaviour-preserving rewrite does not
  (the proofs are case analyses closed by simp/omega, not syntactic matches).
-/
namespace Rv.Props.SrcRange
open Rv Rv.SrcViews

/-! ### proxy/headers/range_header.go -/

/-- `validateRange` of the source = the model's, and it cannot panic. -/
theorem validateRange_eq (start end_ size : Int) :
    Rv.Generated.Src.validateRange start end_ size = some (Rv.Range.validateRange start end_ size) := by
  simp only [Rv.Generated.Src.validateRange, Rv.Range.validateRange]
  (repeat' split) <;> simp_all <;> omega

/-- `rangeHeader.SliceSize` of the source = the model's `sliceSize` (the error
    result collapses to `none`), and it cannot panic. -/
theorem sliceSize_eq (start end_ size : Int) :
    (Rv.Generated.Src.sliceSize ⟨start, end_⟩ size).map (fun r => if r.2.2 then some (r.1, r.2.1) else none) =
      some (Rv.Range.sliceSize start end_ size) := by
  simp only [Rv.Generated.Src.sliceSize, Rv.Range.sliceSize, validateRange_eq, Option.bind_some]
  by_cases h1 : start = -1 <;> by_cases h2 : end_ = -1 <;> simp [h1, h2]
  all_goals ((repeat' split) <;> simp_all)

theorem sliceSize_total (r : RangeHdr) (size : Int) : (Rv.Generated.Src.sliceSize r size).isSome := by
  simp only [Rv.Generated.Src.sliceSize, validateRange_eq, Option.bind_some]
  (repeat' split) <;> simp

example : Rv.Generated.Src.sliceSize ⟨-1, 5⟩ 20 = some (15, 19, true) := by decide

end Rv.Props.SrcRange
