import Rv.Generated.SrcConfig
import Rv.Model.Config
/-
  PROVED tie between a hand-written model and the code: `Rv.Generated.SrcConfig` is
  regenerated from /repo's Go source on every run by `tools/go2lean` (`none` =
  Go run-time panic); each theorem states that a translated definition equals,
  for ALL inputs, the model function the property theorems are about, and never
  panics. A change of the Go function that changes its input/output behaviour
  breaks the theorem in the kernel; a behaviour-preserving rewrite does not
  (the proofs are case analyses closed by simp/omega, not syntactic matches).
-/
namespace Rv.Props.SrcConfig
open Rv Rv.SrcViews

/-! ### config/*_config.go: verify() -/

def cacheView (cfg : Rv.Config.Cfg) : CacheCfgView :=
  let str (n : String) : String := match Rv.Config.readOf cfg n with | some (.str s) => s | _ => ""
  let int (n : String) : Int := match Rv.Config.readOf cfg n with | some (.int i) => i | some (.dur d) => d | some (.size b) => b | _ => 0
  { maxCacheSize := int "cache.max_cache_size", cleanupInterval := int "cache.cleanup_interval",
    memoryBudgetPercent := int "cache.memory.memory_budget_percent", lockShards := int "cache.lock_shards",
    fileDir := str "cache.file.dir", type_ := str "cache.type" }

def proxyView (cfg : Rv.Config.Cfg) : ProxyCfgView :=
  let str (n : String) : String := match Rv.Config.readOf cfg n with | some (.str s) => s | _ => ""
  { listen := str "proxy.listen", caCert := str "proxy.ca_cert", caKey := str "proxy.ca_key" }

def webView (cfg : Rv.Config.Cfg) : WebCfgView :=
  let str (n : String) : String := match Rv.Config.readOf cfg n with | some (.str s) => s | _ => ""
  { listen := str "webserver.listen" }

/-- the model's acceptance test, stated over the three views. -/
def viewVerify (p : ProxyCfgView) (w : WebCfgView) (c : CacheCfgView) : Bool :=
  p.listen ≠ "" && p.caCert ≠ "" && p.caKey ≠ "" && w.listen ≠ "" &&
  c.maxCacheSize > 0 && c.cleanupInterval > 0 && c.memoryBudgetPercent ≥ 0 && c.memoryBudgetPercent ≤ 100 &&
  c.lockShards ≥ 1 && c.fileDir ≠ "" && (c.type_ = "file" || c.type_ = "memory")

theorem model_verify_is_viewVerify (cfg : Rv.Config.Cfg) :
    Rv.Config.verify cfg = viewVerify (proxyView cfg) (webView cfg) (cacheView cfg) := rfl

/-- the three section checks of the source, in the order `Config.verify` calls
    them, accept exactly what the model's `verify` accepts — for all values. -/
theorem verify_views_eq (p : ProxyCfgView) (w : WebCfgView) (c : CacheCfgView) :
    (do let a ← Rv.Generated.Src.proxyConfigVerify p
        let b ← Rv.Generated.Src.webserverConfigVerify w
        let c ← Rv.Generated.Src.cacheConfigVerify c
        pure (a && b && c)) = some (viewVerify p w c) := by
  rcases p with ⟨pl, pc, pk⟩
  rcases w with ⟨wl⟩
  rcases c with ⟨ms, ci, mb, ls, fd, ty⟩
  by_cases h1 : pl = "" <;> by_cases h2 : pc = "" <;> by_cases h3 : pk = "" <;> by_cases h4 : wl = "" <;>
    simp [Rv.Generated.Src.proxyConfigVerify, Rv.Generated.Src.webserverConfigVerify, Rv.Generated.Src.cacheConfigVerify, viewVerify, h1, h2, h3, h4]
  all_goals (by_cases h5 : fd = "" <;> by_cases h6 : ty = "file" <;> by_cases h7 : ty = "memory" <;> simp [h5, h6, h7])
  all_goals (repeat' split)
  all_goals (first | done | grind | (simp_all <;> omega) | simp_all | omega)
  all_goals (first | done | omega | (by_cases hty : ty = "file" <;> simp_all))

theorem verify_eq (cfg : Rv.Config.Cfg) :
    (do let a ← Rv.Generated.Src.proxyConfigVerify (proxyView cfg)
        let b ← Rv.Generated.Src.webserverConfigVerify (webView cfg)
        let c ← Rv.Generated.Src.cacheConfigVerify (cacheView cfg)
        pure (a && b && c)) = some (Rv.Config.verify cfg) := by
  rw [model_verify_is_viewVerify]; exact verify_views_eq _ _ _


end Rv.Props.SrcConfig
