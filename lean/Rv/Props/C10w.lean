import Rv.Model.Wire
import Rv.Lemmas.Wire
/-
  C10 at the byte level — "no header, Content-Length, Content-Range or body byte
  from an earlier exchange appears in a later one, however many requests the
  tunnel carries" is a FRAMING property of the byte stream the proxy writes on a
  kept-alive CONNECT tunnel.

  `Rv.Model.Wire` models the writer (RawHTTPResponder.parseAndSetContentLength /
  writeResponse on top of go1.26's http.Response.Write: Content-Length, chunked,
  no-body statuses, HEAD, the one-byte probe of a body announced with length 0,
  short / long / failing body sources), the tunnel loop that stops after a
  response it could not complete (fix 6648a58), and a client that reads the stream
  by the RFC 9112 §6.3 message-length rules. The `wire` family compares `frame`
  (framing decision, completion flag, bytes) with the real RawHTTPResponder on
  every run.
-/
namespace Rv.Props.C10w
open Rv Rv.Wire Rv.Lemmas.Wire

/-- the reader consumes EXACTLY the bytes of a completely written response,
    whatever follows it on the stream. -/
theorem one_response_is_self_delimiting (r : Resp) (h : r.WF) (hc : (frame r).2 = true) (rest : Str) :
    readOne r.head ((frame r).1 ++ rest) = some (view r, rest) :=
  Rv.Lemmas.Wire.frame_readOne r h hc rest

/-- ANY number of complete exchanges on one tunnel: the client recovers exactly
    the sequence of responses, nothing is left over, no byte is attributed to
    another exchange. -/
theorem exchanges_isolated (rs : List Resp) (h : ∀ r ∈ rs, r.WF) (hc : ∀ r ∈ rs, (frame r).2 = true) :
    readAll (rs.map (·.head)) (serve rs) = (rs.map view, []) :=
  Rv.Lemmas.Wire.serve_isolated rs h hc

/-- after a response that could not be completed nothing more is written: no
    later exchange can be read as part of an earlier one. -/
theorem nothing_follows_an_incomplete_response (pre post : List Resp) (bad : Resp)
    (h : ∀ r ∈ pre, r.WF) (hc : ∀ r ∈ pre, (frame r).2 = true) (hbc : (frame bad).2 = false) :
    serve (pre ++ [bad] ++ post) = serve pre ++ (frame bad).1 ∧
    readAll ((pre ++ [bad] ++ post).map (·.head)) (serve (pre ++ [bad] ++ post)) =
      (pre.map view ++ (readAll ((bad :: post).map (·.head)) (frame bad).1).1,
       (readAll ((bad :: post).map (·.head)) (frame bad).1).2) :=
  Rv.Lemmas.Wire.serve_stops_at_failure_any pre post bad h hc hbc

/-- WITHOUT that stop (the code before fix 6648a58) bytes of the next response are
    delivered as body of the truncated one. -/
theorem open_tunnel_after_incomplete_response_leaks :
    ∃ rs : List Resp, (∀ r ∈ rs, r.WF) ∧
      (readAll (rs.map (·.head)) (serveNoClose rs)).1 =
        [⟨200, [(nameCL, ['1', '0'])], ['a', 'b', 'c', 'd', 'H', 'T', 'T', 'P', '/', '1']⟩] ∧
      (readAll (rs.map (·.head)) (serve rs)) = ([], (frame cut10).1) :=
  Rv.Lemmas.Wire.noClose_leaks

/-- the well-formedness hypothesis `delimited` is necessary: a response announced
    with `Content-Length: 0` whose body source is not empty is written by Go with
    close-delimited framing and counts as complete - a client would read every
    later response as its body. (Not reachable through the proxy: net/http's
    client hands out an empty body for such an origin answer and stored entries
    carry the length of their body; the `wire` family and the proxytrace family
    observe no such response.) -/
theorem delimited_is_necessary :
    framing zeroWithBody = .untilClose ∧ (frame zeroWithBody).2 = true ∧
    readAll [false, false] (serve [zeroWithBody, ok2]) =
      ([⟨200, [(nameConn, valClose)], ['a', 'b'] ++ (frame ok2).1⟩], []) :=
  Rv.Lemmas.Wire.untilClose_swallows

end Rv.Props.C10w
