import Rv.Generated.SrcKey
import Rv.Model.Key
/-
  PROVED tie between the model's cache-key string `Rv.Key.keyString` (C02) and
  the code: `Rv.Generated.SrcKey.makeKeyString` is the translation of
  `cache.MakeFromRequest` (cache/cache_key.go) up to and including the
  assignment of the pre-hash string `stringKey` (spec `until`), regenerated on
  every run.  The cache key itself is BLAKE2b-256 of that string in hex
  (`FromString`), not translated.

  TRUSTED leaf meanings (the model's transcriptions of the Go standard
  library, cross-checked against the real functions by the correspondence run,
  family `key`): `strings.ToLower` = `Rv.toLower` (ASCII lower-casing: Go's on
  ASCII input), `path.Clean` = `Rv.Key.clean`, `strings.HasSuffix` =
  `Rv.Key.endsWith`.  STRUCTURAL: string `+`/`+=` is `++`, `len` is the length,
  `fmt.Sprintf` with a format of literal text, `%s` and `%d` only is the
  concatenation of the pieces (`%d` = `Rv.intToDec`).  Leaves of the spec:
  `r.TLS != nil`, `r.Method`, `r.Host`, `r.URL.EscapedPath()`, `r.URL.RawQuery`
  are the fields of `ReqView`.

  Proof style: `simp only [defs]`, case split, `simp`.
-/
namespace Rv.Props.SrcKey
open Rv Rv.Key Rv.SrcViews

theorem intToDec_natCast (n : Nat) : intToDec (n : Int) = toDec n := by
  have h1 : ¬ ((n : Int) < 0) := Int.not_lt.mpr (Int.natCast_nonneg _)
  simp only [intToDec, h1, if_false, Int.natAbs_natCast]

/-- THE TIE: the pre-hash key string of the source is the model's `keyString`, for every request; it cannot panic. -/
theorem makeKeyString_eq (q : ReqView) :
    Rv.Generated.Src.makeKeyString q =
      some (keyString (if q.tls then ['h', 't', 't', 'p', 's'] else ['h', 't', 't', 'p'])
        q.method q.host q.escapedPath q.rawQuery) := by
  simp only [Rv.Generated.Src.makeKeyString, keyString, lp, normPath, intToDec_natCast]
  cases q.tls <;> (repeat' split) <;> simp_all

theorem makeKeyString_total (q : ReqView) : (Rv.Generated.Src.makeKeyString q).isSome = true := by
  rw [makeKeyString_eq]; rfl

example : Rv.Generated.Src.makeKeyString ⟨false, Rv.s "GET", Rv.s "Example.COM", Rv.s "/a/./b/../c/", Rv.s "x=1"⟩ =
    some (Rv.s "http|3:GET|11:example.com|5:/a/c/|x=1") := by decide
example : Rv.Generated.Src.makeKeyString ⟨true, Rv.s "HEAD", Rv.s "h", Rv.s "/a%2Fb", Rv.s ""⟩ =
    some (Rv.s "https|4:HEAD|1:h|6:/a%2Fb|") := by decide
example : Rv.Generated.Src.makeKeyString ⟨false, Rv.s "GET", Rv.s "h", Rv.s "/", Rv.s ""⟩ =
    some (Rv.s "http|3:GET|1:h|1:/|") := by decide
example : Rv.Generated.Src.makeKeyString ⟨false, Rv.s "GET", Rv.s "h", Rv.s "/a|b", Rv.s "c"⟩ ≠
    Rv.Generated.Src.makeKeyString ⟨false, Rv.s "GET", Rv.s "h", Rv.s "/a", Rv.s "b|c"⟩ := by decide

end Rv.Props.SrcKey
