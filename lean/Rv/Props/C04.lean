import Rv.Model.Fetch
import Rv.Props.C04a
import Rv.Lemmas.FetchA
/-
  C04 — exactly the storable responses are stored (request level).
-/
namespace Rv.Props.C04
open Rv Rv.Fetch

/-- invariant of every reachable store: each entry was put there by a 200
    answer (to a GET — the only method `storable` admits). -/
def Inv (c : Cache) : Prop := ∀ e ∈ c, e.o.status = 200

theorem inv_preserved (cfg : Cfg) (tbl : Nat → Option ORes) (c : Cache) (now : Int) (r : Req) (h : Inv c) :
    Inv (handle cfg tbl c now r).2.1 :=
  Rv.Lemmas.FetchA.inv_preserved cfg tbl c now r h

/-- an entry that was not in the store before the request is there because a 200
    answer to a GET passed the storability decision (C04a) at that moment — or it
    is an existing entry renewed by a 304. -/
theorem stored_only_if_storable (cfg : Cfg) (tbl : Nat → Option ORes) (c : Cache) (now : Int) (r : Req) (e : CEntry)
    (hin : e ∈ (handle cfg tbl c now r).2.1) (hnew : e ∉ c) :
    (r.method = "GET" ∧ storable cfg e.o "GET" now = true) ∨ (∃ e0 ∈ c, e0.o = e.o ∧ e0.res = e.res ∧ e0.query = e.query) :=
  Rv.Lemmas.FetchA.stored_only_if_storable cfg tbl c now r e hin hnew

/-- any request that is not a GET reaches the origin, and never changes the store. -/
theorem non_get_reaches_origin (cfg : Cfg) (tbl : Nat → Option ORes) (c : Cache) (now : Int) (r : Req)
    (h : r.method ≠ "GET") :
    (handle cfg tbl c now r).2.2 ≠ [] ∧ (handle cfg tbl c now r).2.1 = c :=
  Rv.Lemmas.FetchA.non_get_reaches_origin cfg tbl c now r h

/-- a request for which there is no entry reaches the origin. -/
theorem uncached_reaches_origin (cfg : Cfg) (tbl : Nat → Option ORes) (c : Cache) (now : Int) (r : Req)
    (h : lookup c r.res r.query = none) : (handle cfg tbl c now r).2.2 ≠ [] :=
  Rv.Lemmas.FetchA.uncached_reaches_origin cfg tbl c now r h

/-- converse: a storable 200 answer to a plain GET is in the store afterwards
    and the client is told so (MISS, stored). -/
theorem storable_is_stored (cfg : Cfg) (tbl : Nat → Option ORes) (c : Cache) (now : Int) (r : Req) (o : ORes)
    (hm : r.method = "GET") (hr : r.range = none) (hl : lookup c r.res r.query = none)
    (ho : originAnswer tbl (upReq r none) = .full o) (hs : storable cfg o "GET" now = true) (hf : storeFails cfg o = false) :
    (∃ e, lookup (handle cfg tbl c now r).2.1 r.res r.query = some e ∧ e.o = o ∧ e.expires = lifetimeEnd cfg o now) ∧
    (handle cfg tbl c now r).1.label = .miss ∧ (handle cfg tbl c now r).1.storedFlag = true ∧
    (handle cfg tbl c now r).1.body = .stored o.ver 0 o.size :=
  Rv.Lemmas.FetchA.storable_is_stored cfg tbl c now r o hm hr hl ho hs hf

end Rv.Props.C04
