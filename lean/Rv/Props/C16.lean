import Rv.Model.Phc
import Rv.Model.Key
import Rv.Props.C07
/-
  C16 — no input makes the proxy panic (parser level).  Every model function
  whose Go original contains an index / slice / division site returns an
  outcome with an explicit `.panic` constructor and performs the Go runtime's
  check itself; "never panics" is then a theorem for every byte string.
  The request-level statement (`handle_total`) lives with the Fetch model.
-/
namespace Rv.Props.C16
open Rv

/-- Range header parser (re-exported from C07). -/
theorem range_total (x : Str) : Rv.Range.parseRangeHeader x ≠ .panic :=
  Rv.Props.C07.parse_total x

theorem range_outcome_total (x : Str) (size : Int) : Rv.Range.outcome x size ≠ .panic :=
  Rv.Props.C07.outcome_total x size

private theorem paramStep_ne_panic (p : Phc.Params) (seg : Str) : Phc.paramStep p seg ≠ .panic := by
  unfold Phc.paramStep
  split
  · simp
  · cases h : cutAt '=' seg with
    | none => simp
    | some kv =>
      obtain ⟨k, v⟩ := kv
      simp only [List.length_cons, List.length_nil, ne_eq, List.getElem?_cons_zero, List.getElem?_cons_succ]
      intro hh
      repeat' split at hh
      all_goals first | cases hh | simp at *

private theorem paramLoop_ne_panic (l : List Str) (p : Phc.Params) : Phc.paramLoop l p ≠ .panic := by
  induction l generalizing p with
  | nil => simp [Phc.paramLoop]
  | cons a t ih =>
    unfold Phc.paramLoop
    cases h : Phc.paramStep p a with
    | panic => exact absurd h (paramStep_ne_panic p a)
    | err => simp
    | ok p' => simpa using ih p'

private theorem parseFields_ne_panic (a b c d e : Str) : Phc.parseFields a b c d e ≠ .panic := by
  unfold Phc.parseFields
  intro h
  have hp := paramLoop_ne_panic (splitOn ',' c) {}
  repeat' split at h
  all_goals first | (exact hp (by assumption)) | cases h | simp_all

/-- stored password-hash strings: accepted or rejected, never a panic. -/
theorem phc_total (x : Str) : Phc.parsePHC x ≠ .panic := by
  unfold Phc.parsePHC
  simp only
  split
  · simp
  · generalize (splitOn '$' (Phc.trimDollar (trimSpace x))) = parts
    split
    · simp
    · rename_i hl
      have h5 : parts.length = 5 := by simpa using hl
      match parts, h5 with
      | [a, b, c, d, e], _ =>
        simp only [List.getElem?_cons_zero, List.getElem?_cons_succ]
        exact parseFields_ne_panic a b c d e

/-- shard selection never divides by zero or indexes outside the lock array
    for a shard count of at least one (the configuration check added by the
    `lock_shards` fix guarantees that count). -/
theorem lock_index_total (k : Str) (n : Nat) (h : 1 ≤ n) : Key.lockIndex k n ≠ .panic := by
  unfold Key.lockIndex
  have : Key.hex8ToIndex k % n < n := Nat.mod_lt _ (by omega)
  simp [this]; omega

/-- with zero shards the same expression does panic — the witness that the
    guard in `verify()` is what the theorem above rests on. -/
theorem lock_index_zero_panics (k : Str) : Key.lockIndex k 0 = .panic := by
  simp [Key.lockIndex]

example : Phc.parsePHC (s "$argon2id$v=19$m=8,t=1,p=1$AAAAAAAAAAAAAAAAAAAAAAAAAAAAAAAAAAAAAAAAAAAAAAAAAAAAAA$AAAA") = .err := by decide
example : (match Phc.parsePHC (s "$argon2id$v=19$m=8,t=1,p=1$AAAAAAAAAAAAAAAAAAAAAA$AAAA") with | .ok _ => true | _ => false) = true := by decide

end Rv.Props.C16
