import Rv.Model.Store
import Rv.Spec.AbsCache
import Rv.Lemmas.StoreInv
/-
  C12 — reported cache size and entry count equal what is actually stored.
-/
namespace Rv.Props.C12
open Rv.Store Rv.Spec.AbsCache

/-- For BOTH backends and EVERY history of stores (incl. overwrites, empty
    bodies, a source reader failing, temp-file creation or rename failing), gets,
    metadata updates, deletes, reads, cleanup cycles with arbitrary client
    operations inside the scan/removal window, evictions, limit changes, clock
    advances and reopening at any point: the accounting invariant holds in the
    state reached. -/
theorem counters_exact (b : Backend) (limit cap : Int) (shards : List Nat) (ops : List Op) :
    Inv (run ops (init b limit cap shards)) :=
  Rv.Lemmas.StoreInv.counters_exact b limit cap shards ops

/-- one-step form (what the induction rests on; also used by C13 / C01). -/
theorem step_preserves (st : St) (op : Op) (h : Inv st) : Inv (step st op) :=
  Rv.Lemmas.StoreInv.step_preserves st op h

/-- the counters never go negative. -/
theorem counters_nonneg (b : Backend) (limit cap : Int) (shards : List Nat) (ops : List Op) :
    let st := run ops (init b limit cap shards)
    0 ≤ st.byteSize ∧ 0 ≤ st.mBytes ∧ 0 ≤ st.mEntries :=
  Rv.Lemmas.StoreInv.counters_nonneg b limit cap shards ops

/-- a failed store (any failure point) changes nothing but what its own
    preceding eviction removed: no partially written entry is ever visible. -/
theorem failed_store_invisible (st : St) (k ver size : Nat) (exp : Int) (f : Fault) (h : Inv st)
    (hres : (store st k ver size exp f).2.1 ≠ .ok) :
    let r := store st k ver size exp f
    r.1.entries = st.entries.filter (fun e => !r.2.2.contains e.key) ∧
    r.1.dir = st.dir.filter (fun d => !r.2.2.contains d.key) :=
  Rv.Lemmas.StoreInv.failed_store_invisible st k ver size exp f h hres

example : Inv (run [.store 0 1 100 50 .none, .store 0 2 40 50 .none, .delete 0] (init .file 1000 1000 [0])) :=
  counters_exact _ _ _ _ _
example : (run [.store 0 1 100 50 .none, .store 0 2 40 50 .none] (init .mem 1000 1000 [0])).byteSize = 40 := by decide

end Rv.Props.C12
