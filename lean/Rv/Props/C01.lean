import Rv.Model.Store
import Rv.Spec.AbsCache
import Rv.Lemmas.StoreInv
/-
  C01 (store level) — served bodies are complete, unmixed bodies of the
  requested resource.  A body is identified by the version id the origin
  response was stored under; a data handle is (version, length, position).
  The response-building half (Content-Length and Content-Range, validators from the same
  metadata object) is in the Fetch model.
-/
namespace Rv.Props.C01
open Rv.Store Rv.Spec.AbsCache

/-- what `Get` hands out is the body and the length of the entry currently in
    the map — on the file backend the opened file is the one whose version and
    length the metadata describes: never mispaired. -/
theorem get_matches_entry (st : St) (k : Nat) (h : Inv st) (hok : (get st k).2.res = .ok) :
    ∃ e ∈ st.entries, e.key = k ∧ (get st k).2.ver = e.ver ∧ (get st k).2.size = e.size ∧
      ∃ hd ∈ (get st k).1.handles, hd.id = (get st k).2.handle ∧ hd.ver = e.ver ∧ hd.size = e.size ∧ hd.pos = 0 :=
  Rv.Lemmas.StoreInv.get_matches_entry st k h hok

/-- after a successful store the next `Get` of that key returns exactly that
    version and length (the replaced body is unreachable through `Get`). -/
theorem get_after_store (st : St) (k ver size : Nat) (exp : Int) (h : Inv st)
    (hok : (store st k ver size exp .none).2.1 = .ok) :
    let st' := (store st k ver size exp .none).1
    (get st' k).2.res = .ok ∧ (get st' k).2.ver = ver ∧ (get st' k).2.size = size :=
  Rv.Lemmas.StoreInv.get_after_store st k ver size exp h hok

/-- after a delete (or any removal) `Get` does not find the key. -/
theorem get_after_delete (st : St) (k : Nat) (h : Inv st) :
    (get (delete st k).1 k).2.res = .notFound :=
  Rv.Lemmas.StoreInv.get_after_delete st k h

/-- a store of `k` does not touch any other key that its eviction did not remove. -/
theorem store_other_keys_untouched (st : St) (k k' ver size : Nat) (exp : Int) (f : Fault)
    (hne : k' ≠ k) (hev : k' ∉ (store st k ver size exp f).2.2) :
    lookup (store st k ver size exp f).1.entries k' = lookup st.entries k' :=
  Rv.Lemmas.StoreInv.store_other_keys_untouched st k k' ver size exp f hne hev

/-- an open handle is pinned to its version and length through EVERY later
    history that does not close it or abandon the cache object: overwrites,
    failed overwrites, deletes, evictions and cleanup of the same key included.
    Its position only moves forward and never beyond the length. -/
theorem handle_pinned (st : St) (hd : Handle) (ops : List Op) (hin : hd ∈ st.handles)
    (hpos : hd.pos ≤ hd.size)
    (hfresh : ∀ x ∈ st.handles, x.id < st.nextHandle)
    (huniq : st.handles.Pairwise (fun a b => a.id ≠ b.id))
    (hnc : ∀ op ∈ ops, op ≠ .close hd.id ∧ op ≠ .reopen) :
    ∃ hd' ∈ (run ops st).handles, hd'.id = hd.id ∧ hd'.ver = hd.ver ∧ hd'.size = hd.size ∧
      hd.pos ≤ hd'.pos ∧ hd'.pos ≤ hd.size :=
  Rv.Lemmas.StoreInv.handle_pinned st hd ops hin hpos hfresh huniq hnc

/-- every read returns the next contiguous slice of the pinned body: the
    concatenation of all reads is a prefix of `body ver`, and the whole of it at
    end of file — never truncated, extended or spliced. -/
theorem read_is_next_slice (st : St) (h n : Nat) (hd : Handle)
    (hin : st.handles.find? (·.id = h) = some hd) (hpos : hd.pos ≤ hd.size) :
    (read st h n).2 = some (hd.ver, hd.pos, min n (hd.size - hd.pos)) ∧
    hd.pos + min n (hd.size - hd.pos) ≤ hd.size :=
  Rv.Lemmas.StoreInv.read_is_next_slice st h n hd hin hpos

example : (read (get (store (init .file 100 100 [0]) 0 7 10 50 .none).1 0).1 0 3).2 = some (7, 0, 3) := by decide

end Rv.Props.C01
