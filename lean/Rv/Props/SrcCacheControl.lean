import Rv.Generated.SrcCacheControl
import Rv.Model.CacheControl
/-
  PROVED tie between the model's `Rv.CacheControl.parseCacheControl` and the
  code: `Rv.Generated.SrcCacheControl.parseCacheControl` is the translation of
  `parseCacheControl` (proxy/headers/cache_control.go), regenerated on every run
  (`none` = Go run-time panic): one range loop over `strings.SplitSeq(h, ",")`
  carrying the struct `cc`, with `continue` and an early `return … err`.

  ERRORS.  The Go function returns `(cacheControl, error)`; it is translated to
  `Except String CC`, the string being the NAME of the package-level error
  variable the returned error wraps (`fmt.Errorf("%w: %v", ErrParseMaxAge, err)`).
  The model returns `Option CC` with `none` = that (only) error: `toSrc`.

  TRUSTED leaf meanings (the model's transcriptions of the standard library):
  `strings.SplitSeq(h, ",")` = `Rv.splitOn ','`, `strings.TrimSpace` =
  `Rv.trimSpace`, `strings.ToLower` = `Rv.toLower` (ASCII), `strings.CutPrefix` =
  `Rv.cutPrefix` (both results: `(s, false)` when the prefix is absent),
  `strconv.ParseInt(s, 10, 64)` = `Rv.CacheControl.parseInt64` (accepted only
  when followed at once by `if err != nil { return … }`, the value beside a
  non-nil error not being modelled), `time.Second` = 10^9 ns.  STRUCTURAL: the
  struct value `cc` is a record, `cc.f = v` a record update; the loop variable
  `directive` is assigned in the body (a per-iteration variable: a `let`).

  Proof style: `simp only [defs]`, case split on the semantic conditions,
  `simp_all`; the induction hypothesis closes every branch that iterates.
-/
set_option linter.unusedSimpArgs false
namespace Rv.Props.SrcCacheControl
open Rv Rv.CacheControl Rv.SrcStr

/-- the model's result in the shape of the translated `(cacheControl, error)`. -/
def toSrc : Option CC → Except String CC
  | some cc => .ok cc
  | none => .error "ErrParseMaxAge"

/-- the model's loop result as an outcome of the translated loop: an error is an early return, otherwise the loop
    runs to its end with the model's `cc`. -/
def loopOut : Option CC → Loop (Except String CC) CC
  | some cc => .done cc
  | none => .ret (.error "ErrParseMaxAge")

theorem lit_noCache : noCacheLit = ['n', 'o', '-', 'c', 'a', 'c', 'h', 'e'] := by decide
theorem lit_noStore : noStoreLit = ['n', 'o', '-', 's', 't', 'o', 'r', 'e'] := by decide
theorem lit_private : privateLit = ['p', 'r', 'i', 'v', 'a', 't', 'e'] := by decide
theorem lit_maxAge : maxAgeLit = ['m', 'a', 'x', '-', 'a', 'g', 'e', '='] := by decide
theorem clamp_const : Int.tdiv 9223372036854775807 1000000000 = 9223372036 := by decide

/-- the generalised loop lemma: any remaining directives, any accumulated `cc`.  The step is a case analysis on the
    SEMANTIC conditions (is the directive one of the three words; does it start with `max-age=`; does the rest parse;
    is the value < 1; is it above the clamp); in each case both sides reduce by `simp` and the induction hypothesis
    closes the branches that iterate. -/
theorem loop_eq : ∀ (ds : List Str) (cc : CC),
    Rv.Generated.Src.parseCacheControl_loop1 ds cc = some (loopOut (ccLoop ds cc))
  | [], cc => by simp only [Rv.Generated.Src.parseCacheControl_loop1, ccLoop, loopOut]
  | d :: ds, cc => by
    rw [Rv.Generated.Src.parseCacheControl_loop1, ccLoop, ccStep]
    simp only [lit_noCache, lit_noStore, lit_private, lit_maxAge, clamp_const, maxSeconds, second]
    generalize toLower (trimSpace d) = x
    by_cases hw : x = ['n', 'o', '-', 'c', 'a', 'c', 'h', 'e'] ∨ x = ['n', 'o', '-', 's', 't', 'o', 'r', 'e'] ∨
        x = ['p', 'r', 'i', 'v', 'a', 't', 'e']
    · rcases hw with h | h | h <;> subst h <;> simp <;> (first | exact loop_eq ds _ | (simp only [Int.mul_comm _ (1000000000 : Int)]; exact loop_eq ds _))
    · obtain ⟨n1, n2, n3⟩ : x ≠ ['n', 'o', '-', 'c', 'a', 'c', 'h', 'e'] ∧ x ≠ ['n', 'o', '-', 's', 't', 'o', 'r', 'e'] ∧
          x ≠ ['p', 'r', 'i', 'v', 'a', 't', 'e'] := by simpa [not_or] using hw
      cases hcp : cutPrefix x ['m', 'a', 'x', '-', 'a', 'g', 'e', '='] with
      | none => simp [n1, n2, n3, n1.symm, n2.symm, n3.symm, hcp]; (first | exact loop_eq ds _ | (simp only [Int.mul_comm _ (1000000000 : Int)]; exact loop_eq ds _))
      | some after =>
        cases hpi : parseInt64 after with
        | none => simp [n1, n2, n3, n1.symm, n2.symm, n3.symm, hcp, hpi, loopOut]
        | some v =>
          by_cases h1 : v < 1
          · simp [n1, n2, n3, n1.symm, n2.symm, n3.symm, hcp, hpi, h1]; (first | exact loop_eq ds _ | (simp only [Int.mul_comm _ (1000000000 : Int)]; exact loop_eq ds _))
          · by_cases h2 : v > 9223372036
            · simp [n1, n2, n3, n1.symm, n2.symm, n3.symm, hcp, hpi, h1, h2]; (first | exact loop_eq ds _ | (simp only [Int.mul_comm _ (1000000000 : Int)]; exact loop_eq ds _))
            · simp [n1, n2, n3, n1.symm, n2.symm, n3.symm, hcp, hpi, h1, h2]; (first | exact loop_eq ds _ | (simp only [Int.mul_comm _ (1000000000 : Int)]; exact loop_eq ds _))

/-- THE TIE: `parseCacheControl` of the source is the model's, for every header value (error ↦ `none`). -/
theorem parseCacheControl_eq (h : Str) :
    Rv.Generated.Src.parseCacheControl h = some (toSrc (Rv.CacheControl.parseCacheControl h)) := by
  simp only [Rv.Generated.Src.parseCacheControl, Rv.CacheControl.parseCacheControl, loop_eq, Option.bind_some]
  cases ccLoop (splitOn ',' h) { noCache := false, maxAge := 0 } <;> rfl

/-- `parseCacheControl` never panics. -/
theorem parseCacheControl_total (h : Str) : (Rv.Generated.Src.parseCacheControl h).isSome = true := by
  rw [parseCacheControl_eq]; rfl

example : Rv.Generated.Src.parseCacheControl (Rv.s "max-age=60") = some (.ok ⟨false, 60000000000⟩) := by decide
example : Rv.Generated.Src.parseCacheControl (Rv.s "No-Cache , MAX-AGE=5") = some (.ok ⟨true, 5000000000⟩) := by decide
example : Rv.Generated.Src.parseCacheControl (Rv.s "max-age=0") = some (.ok ⟨true, 0⟩) := by decide
example : Rv.Generated.Src.parseCacheControl (Rv.s "max-age=x, no-cache") = some (.error "ErrParseMaxAge") := by decide
example : Rv.Generated.Src.parseCacheControl (Rv.s "max-age=9223372036854775807") = some (.ok ⟨false, 9223372036000000000⟩) := by decide
example : Rv.Generated.Src.parseCacheControl (Rv.s "max-age=9223372036854775808") = some (.error "ErrParseMaxAge") := by decide
example : Rv.Generated.Src.parseCacheControl (Rv.s "public,, max-age=10, max-age=20") = some (.ok ⟨false, 20000000000⟩) := by decide
example : Rv.Generated.Src.parseCacheControl (Rv.s "") = some (.ok ⟨false, 0⟩) := by decide

end Rv.Props.SrcCacheControl
