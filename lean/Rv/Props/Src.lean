import Rv.Generated.Src
import Rv.Model.Range
import Rv.Model.CacheControl
import Rv.Model.Config
import Rv.Model.Auth
import Rv.Model.Store
/-
  Rv.Props.Src — the PROVED tie between the hand-written models and the code.

  `Rv.Generated.Src` is regenerated from /repo's Go source on every run by
  `tools/go2lean` (one definition per decision function, `none` = Go panic).
  Each theorem below states that a translated definition is, for ALL inputs,
  equal to the model function that the property theorems (Rv.Props.C03, C04,
  C07, C13, C18, C20) are about, and that it never panics. A change of the Go
  function that changes its input/output behaviour makes the corresponding
  theorem fail in the kernel; a behaviour-preserving rewrite (reordered tests,
  an extracted helper, renamed variables) leaves it provable, because the
  proofs are case analyses closed by `simp`/`omega`, not syntactic matches.
-/
namespace Rv.Props.Src
open Rv Rv.SrcViews

/-! ### proxy/headers/range_header.go -/

/-- `validateRange` of the source = the model's, and it cannot panic. -/
theorem validateRange_eq (start end_ size : Int) :
    Rv.Generated.Src.validateRange start end_ size = some (Rv.Range.validateRange start end_ size) := by
  unfold Rv.Generated.Src.validateRange Rv.Range.validateRange
  split <;> simp_all <;> omega

/-- `rangeHeader.SliceSize` of the source = the model's `sliceSize` (the error
    result collapses to `none`), and it cannot panic. -/
theorem sliceSize_eq (start end_ size : Int) :
    (Rv.Generated.Src.sliceSize ⟨start, end_⟩ size).map (fun r => if r.2.2 then some (r.1, r.2.1) else none) =
      some (Rv.Range.sliceSize start end_ size) := by
  unfold Rv.Generated.Src.sliceSize Rv.Range.sliceSize
  simp only [validateRange_eq, Option.bind_some]
  by_cases h1 : start = -1 <;> by_cases h2 : end_ = -1 <;> simp [h1, h2]
  all_goals (split <;> simp_all)

theorem sliceSize_total (r : RangeHdr) (size : Int) : (Rv.Generated.Src.sliceSize r size).isSome := by
  unfold Rv.Generated.Src.sliceSize
  simp only [validateRange_eq, Option.bind_some]
  repeat' split
  all_goals simp

/-! ### proxy/headers/header_directives.go -/

/-- `HeaderDirectives.ShouldCache` of the source = the model's `shouldCache`;
    in particular no `ForceUnwrap` of an absent header value is reachable. -/
theorem shouldCache_eq (d : Rv.CacheControl.Directives) (ignore : Bool) (now : Int) :
    Rv.Generated.Src.shouldCache d ignore now = some (Rv.CacheControl.shouldCache d ignore now) := by
  unfold Rv.Generated.Src.shouldCache Rv.CacheControl.shouldCache
  rcases d with ⟨cc, ex, rg⟩
  cases cc <;> cases ex <;> cases ignore <;> cases rg <;> simp
  all_goals (repeat' split)
  all_goals simp_all
  all_goals omega

/-- `HeaderDirectives.GetExpiresOrDefault` of the source = the model's. -/
theorem getExpiresOrDefault_eq (d : Rv.CacheControl.Directives) (force : Bool) (dflt now : Int) :
    Rv.Generated.Src.getExpiresOrDefault d force dflt now = some (Rv.CacheControl.expiresOrDefault d force dflt now) := by
  unfold Rv.Generated.Src.getExpiresOrDefault Rv.CacheControl.expiresOrDefault
  rcases d with ⟨cc, ex, rg⟩
  cases cc <;> cases ex <;> cases force <;> simp
  all_goals (repeat' split)
  all_goals simp_all

/-! ### config/*_config.go: verify() -/

def cacheView (cfg : Rv.Config.Cfg) : CacheCfgView :=
  let str (n : String) : String := match Rv.Config.readOf cfg n with | some (.str s) => s | _ => ""
  let int (n : String) : Int := match Rv.Config.readOf cfg n with | some (.int i) => i | some (.dur d) => d | some (.size b) => b | _ => 0
  { maxCacheSize := int "cache.max_cache_size", cleanupInterval := int "cache.cleanup_interval",
    memoryBudgetPercent := int "cache.memory.memory_budget_percent", lockShards := int "cache.lock_shards",
    fileDir := str "cache.file.dir", type_ := str "cache.type" }

def proxyView (cfg : Rv.Config.Cfg) : ProxyCfgView :=
  let str (n : String) : String := match Rv.Config.readOf cfg n with | some (.str s) => s | _ => ""
  { listen := str "proxy.listen", caCert := str "proxy.ca_cert", caKey := str "proxy.ca_key" }

def webView (cfg : Rv.Config.Cfg) : WebCfgView :=
  let str (n : String) : String := match Rv.Config.readOf cfg n with | some (.str s) => s | _ => ""
  { listen := str "webserver.listen" }

/-- the model's acceptance test, stated over the three views. -/
def viewVerify (p : ProxyCfgView) (w : WebCfgView) (c : CacheCfgView) : Bool :=
  p.listen ≠ "" && p.caCert ≠ "" && p.caKey ≠ "" && w.listen ≠ "" &&
  c.maxCacheSize > 0 && c.cleanupInterval > 0 && c.memoryBudgetPercent ≥ 0 && c.memoryBudgetPercent ≤ 100 &&
  c.lockShards ≥ 1 && c.fileDir ≠ "" && (c.type_ = "file" || c.type_ = "memory")

theorem model_verify_is_viewVerify (cfg : Rv.Config.Cfg) :
    Rv.Config.verify cfg = viewVerify (proxyView cfg) (webView cfg) (cacheView cfg) := rfl

/-- the three section checks of the source, in the order `Config.verify` calls
    them, accept exactly what the model's `verify` accepts — for all values. -/
theorem verify_views_eq (p : ProxyCfgView) (w : WebCfgView) (c : CacheCfgView) :
    (do let a ← Rv.Generated.Src.proxyConfigVerify p
        let b ← Rv.Generated.Src.webserverConfigVerify w
        let c ← Rv.Generated.Src.cacheConfigVerify c
        pure (a && b && c)) = some (viewVerify p w c) := by
  rcases p with ⟨pl, pc, pk⟩
  rcases w with ⟨wl⟩
  rcases c with ⟨ms, ci, mb, ls, fd, ty⟩
  unfold Rv.Generated.Src.proxyConfigVerify Rv.Generated.Src.webserverConfigVerify Rv.Generated.Src.cacheConfigVerify viewVerify
  by_cases h1 : pl = "" <;> by_cases h2 : pc = "" <;> by_cases h3 : pk = "" <;> by_cases h4 : wl = "" <;> simp [h1, h2, h3, h4]
  by_cases h5 : fd = "" <;> by_cases h6 : ty = "file" <;> by_cases h7 : ty = "memory" <;> simp [h5, h6, h7]
  all_goals (repeat' split)
  all_goals simp_all
  all_goals (first | omega | (by_cases hty : ty = "file" <;> simp_all))

theorem verify_eq (cfg : Rv.Config.Cfg) :
    (do let a ← Rv.Generated.Src.proxyConfigVerify (proxyView cfg)
        let b ← Rv.Generated.Src.webserverConfigVerify (webView cfg)
        let c ← Rv.Generated.Src.cacheConfigVerify (cacheView cfg)
        pure (a && b && c)) = some (Rv.Config.verify cfg) := by
  rw [model_verify_is_viewVerify]; exact verify_views_eq _ _ _

/-! ### webserver/middleware/harden.go -/

/-- the request filter of `Harden` lets a request through exactly when the
    model's `hardenAllows` does. -/
theorem harden_eq (method origin site : String) :
    Rv.Generated.Src.harden method origin site = some (Rv.Auth.hardenAllows method origin site) := by
  unfold Rv.Generated.Src.harden Rv.Auth.hardenAllows
  by_cases h1 : origin = "" <;> by_cases h2 : site = "" <;> by_cases h3 : site = "same-origin" <;>
    by_cases h4 : site = "same-site" <;> by_cases h5 : method = "OPTIONS" <;> simp [h1, h2, h3, h4, h5]

/-! ### cache/cache_janitor.go: the arithmetic and the two decisions of eviction -/

/-- the eviction priority of the source is the model's `priority`. -/
theorem evictPriority_eq (now : Int) (e : Rv.Store.Entry) :
    (do let w ← Rv.Generated.Src.evictSizeWeight (e.size : Int)
        Rv.Generated.Src.evictPriority (now - e.lastAccess) w) = some (Rv.Store.priority now e) := by
  unfold Rv.Generated.Src.evictSizeWeight Rv.Generated.Src.evictPriority Rv.Store.priority Rv.Store.mib
  simp

/-- the loop of `evict` stops exactly at `size ≤ target` (the model's test). -/
theorem evictStops_eq (size tgt : Int) : Rv.Generated.Src.evictStops size tgt = some (decide (size ≤ tgt)) := by
  unfold Rv.Generated.Src.evictStops; rfl

/-- `ensureCacheSize` returns without evicting exactly below the limit. -/
theorem ensureSkips_eq (size limit : Int) : Rv.Generated.Src.ensureSkips size limit = some (decide (size < limit)) := by
  unfold Rv.Generated.Src.ensureSkips; rfl

/-- ... which is the test of the model's `ensure`. -/
theorem ensure_uses_it (st : Rv.Store.St) :
    Rv.Store.ensure st = if (Rv.Generated.Src.ensureSkips st.byteSize st.cfgLimit) = some true then (st, [])
      else Rv.Store.evict st st.cfgLimit (fun _ => false) := by
  unfold Rv.Store.ensure Rv.Generated.Src.ensureSkips
  by_cases h : st.byteSize < st.cfgLimit <;> simp [h]

example : Rv.Generated.Src.sliceSize ⟨-1, 5⟩ 20 = some (15, 19, true) := by decide
example : Rv.Generated.Src.shouldCache { cc := some { noCache := false, maxAge := 5 }, expires := some 0, range := false } false 10 = some true := by decide
example : Rv.Generated.Src.harden "OPTIONS" "https://evil.example" "" = some false := by decide

end Rv.Props.Src
