import Rv.Model.Fetch
import Rv.Props.C04a
import Rv.Lemmas.FetchA
/-
  C03 — a stored response is reused only while fresh; expiry forces an origin
  contact (request level; the lifetime rule itself is C04a.lifetime_rule).
-/
namespace Rv.Props.C03
open Rv Rv.Fetch

/-- a response is labelled HIT only if the origin was not contacted, the entry
    used was in the store and its lifetime had not elapsed, and the body and
    headers delivered are that entry's. -/
theorem hit_means_fresh_and_silent (cfg : Cfg) (tbl : Nat → Option ORes) (c : Cache) (now : Int) (r : Req)
    (h : (handle cfg tbl c now r).1.label = .hit) :
    (handle cfg tbl c now r).2.2 = [] ∧
    ∃ e, lookup c r.res r.query = some e ∧ ¬ (e.expires < now) ∧ (handle cfg tbl c now r).1.hdrFrom = some e.o :=
  Rv.Lemmas.FetchA.hit_means_fresh_and_silent cfg tbl c now r h

/-- the upper bound: whenever the origin is NOT contacted, whatever is served
    comes from an entry whose lifetime has not elapsed — once it has, the origin
    is contacted before the entry is used again. -/
theorem silent_only_while_fresh (cfg : Cfg) (tbl : Nat → Option ORes) (c : Cache) (now : Int) (r : Req)
    (h : (handle cfg tbl c now r).2.2 = []) :
    ∃ e, lookup c r.res r.query = some e ∧ ¬ (e.expires < now) ∧ (handle cfg tbl c now r).1.hdrFrom = some e.o :=
  Rv.Lemmas.FetchA.silent_only_while_fresh cfg tbl c now r h

/-- conversely a plain GET for a fresh entry is a HIT without origin contact. -/
theorem fresh_get_is_hit (cfg : Cfg) (tbl : Nat → Option ORes) (c : Cache) (now : Int) (r : Req) (e : CEntry)
    (hm : r.method = "GET") (hr : r.range = none) (he : lookup c r.res r.query = some e) (hf : ¬ (e.expires < now)) :
    (handle cfg tbl c now r).1.label = .hit ∧ (handle cfg tbl c now r).2.2 = [] ∧
    (handle cfg tbl c now r).1.body = .stored e.o.ver 0 e.o.size ∧ (handle cfg tbl c now r).2.1 = c :=
  Rv.Lemmas.FetchA.fresh_get_is_hit cfg tbl c now r e hm hr he hf

/-- MISS / REVALIDATED are given only when the origin was contacted. -/
theorem miss_means_origin_contacted (cfg : Cfg) (tbl : Nat → Option ORes) (c : Cache) (now : Int) (r : Req)
    (h : (handle cfg tbl c now r).1.label = .miss ∨ (handle cfg tbl c now r).1.label = .revalidated) :
    (handle cfg tbl c now r).2.2 ≠ [] :=
  Rv.Lemmas.FetchA.miss_means_origin_contacted cfg tbl c now r h

/-- Age of a HIT / REVALIDATED answer: the origin's Age plus the whole seconds
    the entry has been resident. -/
theorem age_consistent (cfg : Cfg) (tbl : Nat → Option ORes) (c : Cache) (now : Int) (r : Req) (a : Int)
    (h : (handle cfg tbl c now r).1.age = some a) :
    ∃ e ∈ (handle cfg tbl c now r).2.1, e.res = r.res ∧ e.query = r.query ∧ a = currentAge e now :=
  Rv.Lemmas.FetchA.age_consistent cfg tbl c now r a h

/-- every entry the request puts into the store (new or replaced) carries the
    lifetime of C04a.lifetime_rule computed at the moment of storing; a 304
    renews by exactly the configured default. -/
theorem stored_lifetime (cfg : Cfg) (tbl : Nat → Option ORes) (c : Cache) (now : Int) (r : Req) (e : CEntry)
    (hin : e ∈ (handle cfg tbl c now r).2.1) (hnew : e ∉ c) :
    (e.expires = lifetimeEnd cfg e.o now ∧ e.timeWritten = now) ∨
    (∃ e0 ∈ c, e0.o = e.o ∧ e0.timeWritten = e.timeWritten ∧ e.expires = now + cfg.defaultMaxAge) ∨
    -- stored and, already expired on arrival, revalidated by the retry-without-Range of the same request
    (cfg.retryInvalidRange = true ∧ e.timeWritten = now ∧ lifetimeEnd cfg e.o now < now ∧ e.expires = now + cfg.defaultMaxAge) :=
  Rv.Lemmas.FetchA.stored_lifetime cfg tbl c now r e hin hnew

end Rv.Props.C03
