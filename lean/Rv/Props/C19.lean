import Rv.Model.Event
import Rv.Spec.PubSub
import Rv.Lemmas.Event
import Rv.Model.Mailbox
import Rv.Lemmas.Mailbox
import Rv.Generated.Shapes
/-
  C19 — components follow the latest setting; unsubscribing is safe in any order.
-/
namespace Rv.Props.C19
open Rv.Event Rv.Spec.PubSub

/-- Refinement: after ANY history of subscribe / unsubscribe (any order, any id,
    repeated) / fire / deliver, the subscriber list is exactly the reference set
    of live subscriptions, in subscription order. In particular every remover
    removes its own subscription and no other, and removing twice or removing an
    unknown id is a no-op. -/
theorem subs_eq_live (ops : List Op) : (run ops init).subs = live ops 0 [] :=
  Rv.Lemmas.Event.subs_eq_live ops

/-- a `fire` creates one delivery for each live subscription and nothing else. -/
theorem fire_reaches_exactly_live (ops : List Op) (v : Int) :
    (run (ops ++ [.fire v]) init).pending =
      (run ops init).pending ++ (live ops 0 []).map (fun x => (x.2, v)) :=
  Rv.Lemmas.Event.fire_reaches_exactly_live ops v

/-- a subscription that has been removed receives nothing fired afterwards:
    no later history makes its id reappear. -/
theorem unsubscribed_stays_out (ops later : List Op) (id : Nat)
    (hid : id < (run ops init).nextId) :
    ∀ x ∈ (run (ops ++ [.unsubscribe id] ++ later) init).subs, x.1 ≠ id :=
  Rv.Lemmas.Event.unsubscribed_stays_out ops later id hid

/-- removing one subscription leaves every other one in place, in order. -/
theorem unsubscribe_only_own (ops : List Op) (id : Nat) :
    (run (ops ++ [.unsubscribe id]) init).subs = ((run ops init).subs).filter (fun x => x.1 ≠ id) :=
  Rv.Lemmas.Event.unsubscribe_only_own ops id

/-- `follows_latest`, the part that holds: when a change is fired while no
    delivery of an earlier change is outstanding, then whatever order the
    scheduler runs its deliveries in, once they have all run every live listener
    holds the new value. -/
theorem follows_latest_partial (st : State) (v : Int) (sched : List Nat)
    (hq : st.pending = [])
    (hdone : (run (.fire v :: sched.map .deliver) st).pending = []) :
    ∀ l ∈ listeners st, (run (.fire v :: sched.map .deliver) st).cell l = some v :=
  Rv.Lemmas.Event.follows_latest_partial st v sched hq hdone

/-- full strength `follows_latest` ("however quickly changes follow one another")
    as a proposition about the model … -/
def FollowsLatestFull : Prop :=
  ∀ (ops : List Op), (run ops init).pending = [] →
    ∀ v, lastFired ops = some v →
      ∀ l ∈ listeners (run ops init), (run ops init).cell l = some v ∨ (run ops init).cell l = none

/-- … which is FALSE: deliveries are unordered goroutines, so two back-to-back
    changes can leave a component on the older value (known finding
    C19/async-delivery-unordered; the harness forces this schedule on the real
    Event with a gate). -/
theorem not_follows_latest_full : ¬ FollowsLatestFull :=
  Rv.Lemmas.Event.not_follows_latest_full

/-! ### the cleanup task's interval mailbox (cache/cache_janitor.go) -/

/-- the CURRENT source hands a new cleanup interval to the task with a plain,
    blocking channel send (extracted shape of newCacheJanitor). -/
theorem interval_send_blocks : Rv.Generated.intervalSend = "blockingSend" := by decide

/-- with that blocking send the cleanup task ends up following the LAST interval
    whose notification was delivered — for every number of changes, however
    quickly they follow one another, and every interleaving of the listeners'
    sends with the task's receives (the task may be busy in a cleanup cycle for
    arbitrarily long in between): nothing delivered is ever lost or overtaken in
    the one-slot mailbox. (Which notification is delivered last is the Event's
    business: known finding C19/async-delivery-unordered.) -/
theorem cleanup_task_follows_latest_interval (i : Nat) (steps : List Rv.Mailbox.Step)
    (hq : Rv.Mailbox.quiescent (Rv.Mailbox.run true steps (Rv.Mailbox.init i)) = true)
    (hne : Rv.Mailbox.delivered steps ≠ []) :
    (Rv.Mailbox.run true steps (Rv.Mailbox.init i)).interval = ((Rv.Mailbox.delivered steps).getLast?).getD i :=
  Rv.Lemmas.Mailbox.follows_latest i steps hq hne

/-- why the extracted fact matters: a send that gives up when the slot is taken
    (select/default) loses the newer value while the task is busy. -/
theorem nonblocking_send_loses_the_latest :
    let st := Rv.Mailbox.run false [.deliver 3600, .deliver 50, .drain, .drain] (Rv.Mailbox.init 20)
    Rv.Mailbox.quiescent st = true ∧ st.interval = 3600 := by decide

example : (Rv.Mailbox.run true [.deliver 3600, .deliver 50, .drain, .drain] (Rv.Mailbox.init 20)).interval = 50 := by decide

example : (run [.subscribe 7, .subscribe 8, .subscribe 9, .unsubscribe 0, .unsubscribe 1] init).subs = [(2, 9)] := by decide
example : (run [.subscribe 7, .subscribe 8, .subscribe 9, .unsubscribe 0, .unsubscribe 2, .unsubscribe 2] init).subs = [(1, 8)] := by decide
example : (run [.subscribe 0, .fire 1, .fire 2, .deliver 1, .deliver 0] init).cell 0 = some 1 := by decide

end Rv.Props.C19
