import Rv.Model.History
import Rv.Lemmas.History
/-
  Whole histories (C01, C02, C03, C04, C06 quantify "for all histories
  interleaving client requests, lifetime expiry, origin content / validator
  changes and removals of entries"): invariants of EVERY world reachable by
  `Rv.History.run` from `Rv.History.init`, for every configuration and every
  history of any length — requests (with or without a mid-flight drop of their
  entry), time passing, the origin's records changing or disappearing, the
  environment dropping entries.

  `(run cfg ops init).1` is the world after the history, `(run cfg ops init).2`
  the exchanges `(request, response, upstream log)` in order.  "At the time of
  that request" is expressed through a prefix: `step cfg (run cfg pre init).1
  (.request r d)` is the request `r` made in the world the history `pre` leads
  to (`every_exchange_is_a_step` / `every_request_is_an_exchange` tie the two
  views together).
-/
namespace Rv.Props.History
open Rv Rv.Fetch Rv.History

/-- the stored `Last-Modified` as a conditional request carries it (as `Rv.Props.C06.lmOf`). -/
abbrev lmOf (e : CEntry) : Option Int := Rv.Lemmas.FetchB.lmOf e

/-! ### the two views of "an exchange of the history" -/

/-- every exchange in the list a history yields is the exchange of one of its
    `request` events, made in the world the events before it lead to; the world
    after it is the world after that prefix plus the request. -/
theorem every_exchange_is_a_step (cfg : Cfg) (ops : List HOp) (x : Req × Resp × List UpReq)
    (hx : x ∈ (run cfg ops init).2) :
    ∃ pre r d post, ops = pre ++ .request r d :: post ∧
      step cfg (run cfg pre init).1 (.request r d) = ((run cfg (pre ++ [.request r d]) init).1, some x) ∧
      x.1 = r := by
  obtain ⟨pre, r, d, post, h1, h2⟩ := Rv.Lemmas.History.mem_run cfg ops init x hx
  refine ⟨pre, r, d, post, h1, ?_, ?_⟩
  · rw [Rv.Lemmas.History.run_append_fst, ← h2]; rfl
  · cases h2; rfl

/-- conversely, every `request` event of a history contributes its exchange. -/
theorem every_request_is_an_exchange (cfg : Cfg) (pre post : List HOp) (r : Req) (d : Bool)
    (w' : World) (x : Req × Resp × List UpReq)
    (hs : step cfg (run cfg pre init).1 (.request r d) = (w', some x)) :
    x ∈ (run cfg (pre ++ .request r d :: post) init).2 := by
  obtain ⟨y, h1, h2⟩ := Rv.Lemmas.History.run_mem cfg pre post r d init
  rw [hs] at h1
  cases h1
  exact h2

/-! ### (H1) what is stored -/

/-- C01 / C04 over histories: in every reachable world, every stored entry is
    a record the origin really had for THAT resource (`produced` collects every
    record the origin ever had), and it is a 200 record — nothing else is ever
    stored, whatever the interleaving. -/
theorem cache_entries_are_origin_records (cfg : Cfg) (ops : List HOp) (e : CEntry)
    (he : e ∈ (run cfg ops init).1.cache) :
    (e.res, e.o) ∈ (run cfg ops init).1.produced ∧ e.o.status = 200 :=
  (Rv.Lemmas.History.run_inv cfg ops init Rv.Lemmas.History.inv_init).cache_produced e he

/-! ### (H2) one entry per key -/

/-- C01 (per-key atomicity at the model level): in every reachable world the
    store holds at most one entry per `(res, query)`. -/
theorem one_entry_per_key (cfg : Cfg) (ops : List HOp) (e1 e2 : CEntry)
    (h1 : e1 ∈ (run cfg ops init).1.cache) (h2 : e2 ∈ (run cfg ops init).1.cache)
    (hr : e1.res = e2.res) (hq : e1.query = e2.query) : e1 = e2 :=
  Rv.Lemmas.History.uniq_eq (Rv.Lemmas.History.run_inv cfg ops init Rv.Lemmas.History.inv_init).uniq h1 h2 hr hq

/-- the same as a `List.Pairwise` statement (the form the induction carries). -/
theorem one_entry_per_key_pairwise (cfg : Cfg) (ops : List HOp) :
    (run cfg ops init).1.cache.Pairwise (fun a b => ¬ (a.res = b.res ∧ a.query = b.query)) :=
  (Rv.Lemmas.History.run_inv cfg ops init Rv.Lemmas.History.inv_init).uniq

/-- hence `lookup` under an entry's key finds exactly that entry: a replaced
    entry is not merely shadowed, it is not in the store at all. -/
theorem lookup_finds_the_entry (cfg : Cfg) (ops : List HOp) (e : CEntry)
    (he : e ∈ (run cfg ops init).1.cache) : lookup (run cfg ops init).1.cache e.res e.query = some e :=
  Rv.Lemmas.History.lookup_of_mem (Rv.Lemmas.History.run_inv cfg ops init Rv.Lemmas.History.inv_init).uniq he

/-! ### (H3) what is served -/

/-- C01 ("complete, unmixed origin bodies") and C02 (no cross-resource leak) at
    the model level: no response of any history carries bytes of a version the
    origin never produced for THE REQUESTED resource. -/
theorem served_bodies_are_origin_versions (cfg : Cfg) (ops : List HOp) (r : Req) (resp : Resp) (log : List UpReq)
    (v : Nat) (hx : (r, resp, log) ∈ (run cfg ops init).2) (hv : bodyVersion resp.body = some v) :
    ∃ o, (r.res, o) ∈ (run cfg ops init).1.produced ∧ o.ver = v := by
  obtain ⟨pre, r', d, post, h1, h2⟩ := Rv.Lemmas.History.mem_run cfg ops init _ hx
  cases h2
  obtain ⟨o, ho, hov⟩ := Rv.Lemmas.History.request_bodyVersion cfg _
    (Rv.Lemmas.History.run_inv cfg pre init Rv.Lemmas.History.inv_init) r d v hv
  refine ⟨o, ?_, hov⟩
  rw [h1, Rv.Lemmas.History.run_append_fst]
  exact Rv.Lemmas.History.run_produced cfg _ _ _ ho

/-- the sharper form, per request: the version served was produced by the
    origin for that resource BEFORE the request was made (no bytes "from the
    future", none of another resource). -/
theorem served_bodies_were_already_produced (cfg : Cfg) (pre : List HOp) (r : Req) (d : Bool)
    (w' : World) (resp : Resp) (log : List UpReq) (v : Nat)
    (hs : step cfg (run cfg pre init).1 (.request r d) = (w', some (r, resp, log)))
    (hv : bodyVersion resp.body = some v) :
    ∃ o, (r.res, o) ∈ (run cfg pre init).1.produced ∧ o.ver = v := by
  cases hs
  exact Rv.Lemmas.History.request_bodyVersion cfg _
    (Rv.Lemmas.History.run_inv cfg pre init Rv.Lemmas.History.inv_init) r d v hv

/-! ### (H4) what is served from the store -/

/-- C06 ("after a 200 replaces it the old body is never served again") and C01
    (headers and body from the same stored answer), per request of any history:
    a body served from the store is the version of THE entry the store holds
    under the request's key once the request's own upstream exchange has been
    processed (`w'` is the world right after the request), delivered with that
    entry's headers — never an entry that was replaced, dropped or evicted. -/
theorem store_served_only_what_is_stored (cfg : Cfg) (pre : List HOp) (r : Req) (d : Bool)
    (w' : World) (resp : Resp) (log : List UpReq) (v st len : Nat)
    (hs : step cfg (run cfg pre init).1 (.request r d) = (w', some (r, resp, log)))
    (hb : resp.body = .stored v st len) :
    ∃ e, lookup w'.cache r.res r.query = some e ∧ e.o.ver = v ∧ resp.hdrFrom = some e.o := by
  cases hs
  exact Rv.Lemmas.History.request_stored cfg _
    (Rv.Lemmas.History.run_inv cfg pre init Rv.Lemmas.History.inv_init) r d v st len hb

/-- the same for the exchanges of a history: each one that served a stored
    body did so at a point `pre ++ [request]` of the history where the store
    held that version under the request's key. -/
theorem stored_bodies_are_current (cfg : Cfg) (ops : List HOp) (r : Req) (resp : Resp) (log : List UpReq)
    (v st len : Nat) (hx : (r, resp, log) ∈ (run cfg ops init).2) (hb : resp.body = .stored v st len) :
    ∃ pre d post, ops = pre ++ .request r d :: post ∧
      ∃ e, lookup (run cfg (pre ++ [.request r d]) init).1.cache r.res r.query = some e ∧ e.o.ver = v ∧
        resp.hdrFrom = some e.o := by
  obtain ⟨pre, r', d, post, h1, h2, h3⟩ := every_exchange_is_a_step cfg ops _ hx
  cases h3
  exact ⟨pre, d, post, h1, store_served_only_what_is_stored cfg pre r d _ resp log v st len h2 hb⟩

/-- C06, the history form of "the old body is never served again": once no
    entry under `(res, q)` and no current origin record of `res` has version
    `v` (e.g. right after a 200 replaced the entry stored from `v`), no request
    for `(res, q)` in ANY continuation `post` is answered with bytes of `v` —
    from the store or relayed — unless the origin itself is set to a record of
    version `v` again. -/
theorem replaced_version_never_served_again (cfg : Cfg) (pre post : List HOp) (res : Nat) (q : String) (v : Nat)
    (hcache : ∀ e ∈ (run cfg pre init).1.cache, e.res = res → e.query = q → e.o.ver ≠ v)
    (htbl : ∀ p ∈ (run cfg pre init).1.tbl, p.1 = res → p.2.ver ≠ v)
    (hpost : ∀ o, HOp.setOrigin res o ∈ post → o.ver ≠ v)
    (r : Req) (resp : Resp) (log : List UpReq)
    (hx : (r, resp, log) ∈ (run cfg post (run cfg pre init).1).2) (hr : r.res = res) (hq : r.query = q) :
    bodyVersion resp.body ≠ some v :=
  Rv.Lemmas.History.run_gone cfg res q v post _ ⟨hcache, fun o ho => htbl (res, o) ho rfl⟩ hpost _ hx hr hq

/-! ### (H5) conditional requests -/

/-- C06 over histories (lift of `Rv.Props.C06.conditionals_come_from_the_store`
    to every reachable world and every mid-flight drop): every upstream request
    of every exchange is for the client's own resource and query, and if it
    carries a validator (`If-None-Match` / `If-Modified-Since`) then that
    validator is exactly the stored one of an expired entry `e` for that key
    holding a record the origin produced for that resource — the entry the
    store held under that key when the request arrived, or (only with
    `retryInvalidRange`) the entry this very request stored a moment earlier
    from the origin's current record, already expired on arrival. No
    conditional ever comes from the client (`UpReq` has no field for one). -/
theorem no_conditionals_from_clients (cfg : Cfg) (pre : List HOp) (r : Req) (d : Bool)
    (w' : World) (resp : Resp) (log : List UpReq)
    (hs : step cfg (run cfg pre init).1 (.request r d) = (w', some (r, resp, log)))
    (u : UpReq) (hu : u ∈ log) (hc : u.inm ≠ "" ∨ u.ims.isSome) :
    u.res = r.res ∧ u.query = r.query ∧
    ∃ e, e.res = u.res ∧ e.query = u.query ∧ e.expires < (run cfg pre init).1.now ∧
      u.inm = e.o.etag ∧ u.ims = lmOf e ∧ (e.res, e.o) ∈ (run cfg pre init).1.produced ∧
      (lookup (run cfg pre init).1.cache u.res u.query = some e ∨
        (cfg.retryInvalidRange = true ∧ tblFn (run cfg pre init).1.tbl r.res = some e.o ∧
          storable cfg e.o r.method (run cfg pre init).1.now = true ∧
          e.expires = lifetimeEnd cfg e.o (run cfg pre init).1.now)) := by
  cases hs
  have hc' : u.inm ≠ "" ∨ u.ims ≠ none := by
    rcases hc with h | h
    · exact Or.inl h
    · exact Or.inr (by intro hn; rw [hn] at h; cases h)
  exact Rv.Lemmas.History.request_cond cfg _
    (Rv.Lemmas.History.run_inv cfg pre init Rv.Lemmas.History.inv_init) r d u hu hc'

/-- without `retryInvalidRange` the clause is exactly the task's: the
    validators are those of the entry stored under `(u.res, u.query)` at the
    time of the request. -/
theorem conditionals_are_the_stored_validators (cfg : Cfg) (hcfg : cfg.retryInvalidRange = false)
    (pre : List HOp) (r : Req) (d : Bool) (w' : World) (resp : Resp) (log : List UpReq)
    (hs : step cfg (run cfg pre init).1 (.request r d) = (w', some (r, resp, log)))
    (u : UpReq) (hu : u ∈ log) (hc : u.inm ≠ "" ∨ u.ims.isSome) :
    ∃ e, lookup (run cfg pre init).1.cache u.res u.query = some e ∧
      e.expires < (run cfg pre init).1.now ∧ u.inm = e.o.etag ∧ u.ims = lmOf e := by
  obtain ⟨_, _, e, _, _, h3, h4, h5, _, h7⟩ := no_conditionals_from_clients cfg pre r d w' resp log hs u hu hc
  rcases h7 with h7 | ⟨h7, _⟩
  · exact ⟨e, h7, h3, h4, h5⟩
  · rw [hcfg] at h7; cases h7

/-- the history form: every upstream request in every exchange's log. -/
theorem no_conditionals_from_clients_in_history (cfg : Cfg) (ops : List HOp) (r : Req) (resp : Resp)
    (log : List UpReq) (hx : (r, resp, log) ∈ (run cfg ops init).2)
    (u : UpReq) (hu : u ∈ log) (hc : u.inm ≠ "" ∨ u.ims.isSome) :
    ∃ pre d post, ops = pre ++ .request r d :: post ∧ u.res = r.res ∧ u.query = r.query ∧
      ∃ e, e.res = u.res ∧ e.query = u.query ∧ e.expires < (run cfg pre init).1.now ∧
        u.inm = e.o.etag ∧ u.ims = lmOf e ∧ (e.res, e.o) ∈ (run cfg pre init).1.produced ∧
        (lookup (run cfg pre init).1.cache u.res u.query = some e ∨
          (cfg.retryInvalidRange = true ∧ tblFn (run cfg pre init).1.tbl r.res = some e.o ∧
            storable cfg e.o r.method (run cfg pre init).1.now = true ∧
            e.expires = lifetimeEnd cfg e.o (run cfg pre init).1.now)) := by
  obtain ⟨pre, r', d, post, h1, h2, h3⟩ := every_exchange_is_a_step cfg ops _ hx
  cases h3
  exact ⟨pre, d, post, h1, no_conditionals_from_clients cfg pre r d _ resp log h2 u hu hc⟩

/-! ### a concrete history

  One resource; the origin first has version 1, then version 2, then version 3
  (`max-age=1`, i.e. a lifetime of 1000 ms; revalidation default 3000 ms):
  a store, two hits (the second after the origin changed: the entry is still
  fresh), an expiry, a replacement by a 200, a hit on the new entry, another
  expiry, a revalidation whose entry vanishes mid-flight (304 → fallback to an
  unconditional request, the origin's body relayed), a fresh store, another
  origin change and a Range request. -/
section Examples

def exCfg : Cfg :=
  { ignoreCC := false, forceDefault := false, defaultMaxAge := 3000, retryInvalidRange := false, retry416 := false,
    fileBackend := false }

/-- an origin record: version `ver`, `size` bytes, ETag `etag`, `max-age=1`. -/
def exO (ver size : Nat) (etag : String) : ORes :=
  { status := 200, ver := ver, size := size, etag := etag, lm := .none, cc := [s "max-age=1"], expires := .absent,
    rangeMode := "ignore", cond := true, age := none, hdrset := ver }

def exGet : Req :=
  { res := 1, method := "GET", query := "", range := none, ifRangeEtag := none, ifRangeDate := none, hasBody := false }

/-- up to and including the replacement of version 1 by version 2. -/
def exPre : List HOp :=
  [ .setOrigin 1 (exO 1 10 "v1"), .request exGet false, .request exGet false, .setOrigin 1 (exO 2 20 "v2"),
    .request exGet false, .elapse 5000, .request exGet false ]

def exPost : List HOp :=
  [ .request exGet false, .elapse 5000, .request exGet true, .request exGet false,
    .setOrigin 1 (exO 3 30 "v3"), .request { exGet with range := some (s "bytes=0-4") } false ]

/-- the exchanges of the whole history: label, body, the validators sent upstream. -/
example :
    (run exCfg (exPre ++ exPost) init).2.map (fun x => (x.2.1.label, x.2.1.body, x.2.2.map (·.inm))) =
      [ (.miss, .stored 1 0 10, [""]),            -- stored
        (.hit, .stored 1 0 10, []),               -- hit
        (.hit, .stored 1 0 10, []),               -- origin changed, entry still fresh
        (.revalidated, .stored 2 0 20, ["v1"]),   -- expired: stored validator sent, 200 replaces the entry
        (.hit, .stored 2 0 20, []),               -- the new entry
        (.miss, .origin 2 0 20, ["v2", ""]),      -- expired, 304, entry vanished mid-flight: unconditional fallback
        (.miss, .stored 2 0 20, [""]),            -- stored again
        (.none, .stored 3 0 5, [""]) ] := by decide  -- Range: uncoalesced, version 3 stored, slice of it served

/-- after `exPre` the hypotheses of `replaced_version_never_served_again` hold for
    version 1: the store holds exactly one entry (version 2), the origin's
    current record is version 2, both versions are on record as produced. -/
example :
    (∀ e ∈ (run exCfg exPre init).1.cache, e.res = 1 → e.query = "" → e.o.ver ≠ 1) ∧
    (∀ p ∈ (run exCfg exPre init).1.tbl, p.1 = 1 → p.2.ver ≠ 1) ∧
    (run exCfg exPre init).1.cache.map (fun e => (e.res, e.query, e.o.ver, e.expires)) = [(1, "", 2, 6000)] ∧
    (run exCfg exPre init).1.produced.map (fun p => (p.1, p.2.ver)) = [(1, 2), (1, 1)] := by decide

/-- so, by the theorem, no exchange of the continuation carries version 1 … -/
example (r : Req) (resp : Resp) (log : List UpReq)
    (hx : (r, resp, log) ∈ (run exCfg exPost (run exCfg exPre init).1).2) (hr : r.res = 1) (hq : r.query = "") :
    bodyVersion resp.body ≠ some 1 :=
  replaced_version_never_served_again exCfg exPre exPost 1 "" 1 (by decide) (by decide)
    (by
      intro o ho
      simp only [exPost, List.mem_cons, List.not_mem_nil, or_false, reduceCtorEq, false_or,
        HOp.setOrigin.injEq, true_and] at ho
      rw [ho]; decide)
    r resp log hx hr hq

/-- … which the evaluation of the history confirms (the first four exchanges
    are those of `exPre`). -/
example :
    ∀ x ∈ (run exCfg (exPre ++ exPost) init).2.drop 4, bodyVersion x.2.1.body ≠ some 1 := by decide

/-- why `no_conditionals_from_clients` has a second disjunct: with
    `retryInvalidRange` (and an origin record that is storable but already
    expired on arrival) the retry without Range of an unsatisfiable Range
    request revalidates the entry the SAME request stored a moment before —
    the store was empty when the request arrived, yet the origin sees
    `If-None-Match: "c"`, the validator of its own current record. -/
def exCfgRetry : Cfg :=
  { ignoreCC := true, forceDefault := false, defaultMaxAge := 3000, retryInvalidRange := true, retry416 := false,
    fileBackend := false }

def exStaleO : ORes := { exO 7 5 "c" with cc := [], expires := .at (-5) }

example :
    (run exCfgRetry [.setOrigin 1 exStaleO, .request { exGet with range := some (s "bytes=50-60") } false] init).2.map
        (fun x => (x.2.1.status, x.2.1.body, x.2.2.map (fun u => (u.inm, u.range.isSome)))) =
      [(200, .stored 7 0 5, [("", true), ("c", false)])] ∧
    lookup (run exCfgRetry [.setOrigin 1 exStaleO] init).1.cache 1 "" = none := by decide

end Examples

end Rv.Props.History
