import Rv.Generated.SrcLabels
import Rv.Model.Labels
import Rv.Oracle.Proxy
/-
  PROVED tie between the response labelling of the model's request machine and
  the code: `Rv.Generated.SrcLabels` is regenerated from /repo's Go source on
  every run by `tools/go2lean` (`none` = Go run-time panic).  Translated:
  `fetchResultToCacheStatus` (proxy/cache_status_headers.go) with
  `fetchResult.getFetchInfo` (proxy/fetch_result.go) translated on demand, and
  `addCacheHeaders` as "which headers does it set": the value of `X-Cache` and
  whether `Age` is set.  The `iota` constants (`hitStatus*`, `fwdReason*`,
  `fetchType*`) are resolved to their values from the source, `typeutils.Optional`
  is `Option` (`ForceUnwrap` of `None` = panic).

  What is tied: `Rv.Fetch.cacheStatusOf` / `ageShown` (Rv/Model/Labels.lean), which
  the model's two response builders `fullFromCache` and `relay` are proved to
  agree with.  So: the code labels HIT / MISS / REVALIDATED, sets fwd=stale,
  fwd-status and stored, and sets Age, exactly as the model's machine does —
  given the fetch result the fetcher hands over (`FetchShape`: the `fetchInfo`
  selected by `Type` carries the code of the label and the upstream status; the
  fetcher itself, proxy/fetcher.go, is not translated — that part of the tie
  stays with the correspondence runs).

  NOT translated: the text of the Cache-Status header (`makeCacheStatusHeader`:
  string building with append/Sprintf/Join) and `Via`; the oracle renders `cs=`
  from the fields tied here.  The VALUE of Age is `getCurrentAge` (Props/SrcAge).

  Proof style: `simp only [defs]`, case split, `simp_all`/`grind`/`omega`.
-/
namespace Rv.Props.SrcLabels
open Rv Rv.Fetch Rv.SrcViews

/-- `hitStatusMiss = 0`, `hitStatusRevalidated = 1`, `hitStatusHit = 2` (the translator reads the values off the
    `iota` block; a reordering of the block changes the generated definitions and breaks the theorems). -/
def labelCode : Label → Int
  | .miss => 0
  | .revalidated => 1
  | .hit => 2
  | .none => -1          -- no code: every theorem assumes `l ≠ .none`

/-- the model's labelling as the Go `cacheStatus` record: `fwdReasonStale = 2`. -/
def _root_.Rv.Fetch.CacheStatus.toView (cs : CacheStatus) : CacheStatusView :=
  { hitStatus := labelCode cs.label,
    fwdReason := if cs.fwdStale then some 2 else none,
    fwdStatus := cs.fwdStatus.map Int.ofNat,
    stored := cs.stored }

/-- the fetch result the fetcher hands over for a response with label `l` built from a cache entry (`cached`) or
    relayed (`¬ cached`): `Type` says which, and the `fetchInfo` that `Type` selects carries the label's code and the
    upstream status.  The other `fetchInfo` and the latency are arbitrary. -/
def FetchShape (fr : FetchResultView) (cached : Bool) (l : Label) (up : Nat) : Prop :=
  fr.type_ = (if cached then 0 else 1) ∧
  (if cached then fr.cached.fetchInfo else fr.direct.fetchInfo).status = labelCode l ∧
  (if cached then fr.cached.fetchInfo else fr.direct.fetchInfo).upstreamStatus = (up : Int)

/-! ### fetchResultToCacheStatus -/

/-- `getFetchInfo` selects by `Type` (and yields the zero `fetchInfo` for an unknown type); it cannot panic. -/
theorem getFetchInfo_eq (fr : FetchResultView) :
    Rv.Generated.Src.fetchResultToCacheStatus_getFetchInfo fr =
      some (if fr.type_ = 1 then fr.direct.fetchInfo else if fr.type_ = 0 then fr.cached.fetchInfo else ⟨0, 0, 0⟩) := by
  simp only [Rv.Generated.Src.fetchResultToCacheStatus_getFetchInfo]
  (repeat' split) <;> simp_all

/-- `fetchResultToCacheStatus` never panics, whatever the fetch result. -/
theorem fetchResultToCacheStatus_total (fr : FetchResultView) :
    (Rv.Generated.Src.fetchResultToCacheStatus fr).isSome = true := by
  simp only [Rv.Generated.Src.fetchResultToCacheStatus, getFetchInfo_eq, Option.bind_some]
  (repeat' split) <;> simp

/-- THE TIE: on the fetch results the machine produces, the translated `fetchResultToCacheStatus` is the model's
    `cacheStatusOf`: hitStatus = the label's code; fwd-status present iff the label is miss or revalidated, and then
    the upstream status; fwd=stale iff revalidated; stored iff built from a cache entry and miss. -/
theorem fetchResultToCacheStatus_eq (fr : FetchResultView) (cached : Bool) (l : Label) (up : Nat)
    (hl : l ≠ .none) (hs : FetchShape fr cached l up) :
    Rv.Generated.Src.fetchResultToCacheStatus fr = some (cacheStatusOf cached l up).toView := by
  obtain ⟨ht, hst, hup⟩ := hs
  simp only [Rv.Generated.Src.fetchResultToCacheStatus, getFetchInfo_eq, Option.bind_some, cacheStatusOf,
    CacheStatus.toView]
  cases cached <;> cases l <;> simp_all [labelCode]

/-- the four clauses of the tie, spelled out (what C03 uses). -/
theorem fetchResultToCacheStatus_fields (fr : FetchResultView) (cached : Bool) (l : Label) (up : Nat)
    (hl : l ≠ .none) (hs : FetchShape fr cached l up) :
    ∃ cs, Rv.Generated.Src.fetchResultToCacheStatus fr = some cs ∧
      cs.hitStatus = labelCode l ∧
      (cs.fwdStatus = if l = .miss ∨ l = .revalidated then some (up : Int) else none) ∧
      (cs.fwdReason = if l = .revalidated then some 2 else none) ∧
      (cs.stored = (cached && decide (l = .miss))) := by
  refine ⟨_, fetchResultToCacheStatus_eq fr cached l up hl hs, ?_⟩
  cases cached <;> cases l <;> simp_all [cacheStatusOf, CacheStatus.toView, labelCode]

/-! ### addCacheHeaders: X-Cache and the presence of Age -/

/-- `addCacheHeaders` never panics (`cached.ForceUnwrap()` is guarded by `cached.IsSome()`). -/
theorem addCacheHeaders_total (cached : Option Unit) (cs : CacheStatusView) :
    (Rv.Generated.Src.addCacheHeaders () () cached cs).isSome = true := by
  simp only [Rv.Generated.Src.addCacheHeaders]
  cases cached <;> (repeat' split) <;> simp_all

/-- X-Cache is the oracle's `labelName` of the label (HIT / MISS / REVALIDATED) and Age is set exactly when the model
    sets `age` (`ageShown`): served from an entry that was stored before this request. -/
theorem addCacheHeaders_eq (entry : Option Unit) (cached : Bool) (l : Label) (up : Nat)
    (hl : l ≠ .none) (hc : entry.isSome = cached) :
    Rv.Generated.Src.addCacheHeaders () () entry (cacheStatusOf cached l up).toView =
      some (ageShown cached l, Rv.Oracle.Proxy.labelName l) := by
  simp only [Rv.Generated.Src.addCacheHeaders, cacheStatusOf, CacheStatus.toView, ageShown]
  cases entry <;> cases cached <;> cases l <;> simp_all [labelCode, Rv.Oracle.Proxy.labelName]

/-! ### composed with the model's response builders -/

/-- a response the machine serves from a cache entry (`fullFromCache`): the code computes exactly its label,
    fwd-status, stored flag, X-Cache text and presence of Age. -/
theorem fullFromCache_labels (fr : FetchResultView) (e : CEntry) (l : Label) (up : Nat) (m : String) (now : Int)
    (hl : l ≠ .none) (hs : FetchShape fr true l up) :
    let resp := fullFromCache e l up m now
    ∃ cs, Rv.Generated.Src.fetchResultToCacheStatus fr = some cs ∧
      cs.hitStatus = labelCode resp.label ∧
      cs.fwdStatus = resp.fwdStatus.map Int.ofNat ∧
      cs.stored = resp.storedFlag ∧
      (cs.fwdReason = some 2 ↔ resp.label = .revalidated) ∧
      Rv.Generated.Src.addCacheHeaders () () (some ()) cs = some (resp.age.isSome, Rv.Oracle.Proxy.labelName resp.label) := by
  intro resp
  obtain ⟨h1, h2, h3, h4⟩ := fullFromCache_cacheStatus e l up m now
  refine ⟨_, fetchResultToCacheStatus_eq fr true l up hl hs, ?_, ?_, ?_, ?_, ?_⟩
  · simp only [CacheStatus.toView, resp, h1]
  · simp only [CacheStatus.toView, resp, h2]
  · simp only [CacheStatus.toView, resp, h3]
  · simp only [CacheStatus.toView, resp, h1, cacheStatusOf]; cases l <;> simp
  · simp only [resp, h4, h1]
    exact addCacheHeaders_eq (some ()) true l up hl rfl

/-- a 2xx origin answer the machine relays (`relay`, always labelled miss): likewise; Age is not set. -/
theorem relay_labels (fr : FetchResultView) (a : OAns) (m : String)
    (h2xx : 200 ≤ ansStatus a ∧ ansStatus a < 300) (hs : FetchShape fr false .miss (ansStatus a)) :
    let resp := relay a m .miss
    ∃ cs, Rv.Generated.Src.fetchResultToCacheStatus fr = some cs ∧
      cs.hitStatus = labelCode resp.label ∧
      cs.fwdStatus = resp.fwdStatus.map Int.ofNat ∧
      cs.stored = resp.storedFlag ∧
      cs.fwdReason = none ∧
      Rv.Generated.Src.addCacheHeaders () () none cs = some (resp.age.isSome, Rv.Oracle.Proxy.labelName resp.label) := by
  intro resp
  obtain ⟨h1, h2, h3, h4⟩ := relay_cacheStatus a m .miss h2xx rfl
  refine ⟨_, fetchResultToCacheStatus_eq fr false .miss (ansStatus a) (by simp) hs, ?_, ?_, ?_, ?_, ?_⟩
  · simp only [CacheStatus.toView, resp, h1]
  · simp only [CacheStatus.toView, resp, h2]
  · simp only [CacheStatus.toView, resp, h3]
  · simp [CacheStatus.toView, cacheStatusOf]
  · simp only [resp, h4, h1]
    exact addCacheHeaders_eq none false .miss (ansStatus a) (by simp) rfl

/-! ### concrete inputs, evaluated by the kernel on the translated source -/

example : Rv.Generated.Src.fetchResultToCacheStatus ⟨0, ⟨⟨304, 1, 7⟩⟩, ⟨⟨0, 0, 0⟩⟩⟩ =
    some { hitStatus := 1, fwdReason := some 2, fwdStatus := some 304, stored := false } := by decide
example : Rv.Generated.Src.fetchResultToCacheStatus ⟨0, ⟨⟨200, 0, 7⟩⟩, ⟨⟨0, 0, 0⟩⟩⟩ =
    some { hitStatus := 0, fwdReason := none, fwdStatus := some 200, stored := true } := by decide
example : Rv.Generated.Src.fetchResultToCacheStatus ⟨0, ⟨⟨0, 2, 0⟩⟩, ⟨⟨0, 0, 0⟩⟩⟩ =
    some { hitStatus := 2, fwdReason := none, fwdStatus := none, stored := false } := by decide
example : Rv.Generated.Src.fetchResultToCacheStatus ⟨1, ⟨⟨0, 0, 0⟩⟩, ⟨⟨206, 0, 3⟩⟩⟩ =
    some { hitStatus := 0, fwdReason := none, fwdStatus := some 206, stored := false } := by decide
example : Rv.Generated.Src.addCacheHeaders () () (some ()) ⟨2, none, none, false⟩ = some (true, "HIT") := by decide
example : Rv.Generated.Src.addCacheHeaders () () (some ()) ⟨0, none, some 200, true⟩ = some (false, "MISS") := by decide
example : Rv.Generated.Src.addCacheHeaders () () none ⟨0, none, some 200, false⟩ = some (false, "MISS") := by decide
example : Rv.Generated.Src.addCacheHeaders () () (some ()) ⟨1, some 2, some 304, false⟩ = some (true, "REVALIDATED") := by decide

end Rv.Props.SrcLabels
