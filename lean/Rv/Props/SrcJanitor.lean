import Rv.Generated.SrcJanitor
import Rv.Model.Store
/-
  PROVED tie between a hand-written model and the code: `Rv.Generated.SrcJanitor` is
  regenerated from /repo's Go source on every run by `tools/go2lean` (`none` =
  Go run-time panic); each theorem states that a translated definition equals,
  for ALL inputs, the model function the property theorems are about, and never
  panics. A change of the Go function that changes its input/output behaviour
  breaks the theorem in the kernel; a behaviour-preserving rewrite does not
  (the proofs are case analyses closed by simp/omega, not syntactic matches).
-/
namespace Rv.Props.SrcJanitor
open Rv Rv.SrcViews

/-! ### cache/cache_janitor.go: the arithmetic and the two decisions of eviction -/

/-- the eviction priority of the source is the model's `priority`. -/
theorem evictPriority_eq (now : Int) (e : Rv.Store.Entry) :
    (do let w ← Rv.Generated.Src.evictSizeWeight (e.size : Int)
        Rv.Generated.Src.evictPriority (now - e.lastAccess) w) = some (Rv.Store.priority now e) := by
  unfold Rv.Generated.Src.evictSizeWeight Rv.Generated.Src.evictPriority Rv.Store.priority Rv.Store.mib
  simp

/-- the loop of `evict` stops exactly at `size ≤ target` (the model's test). -/
theorem evictStops_eq (size tgt : Int) : Rv.Generated.Src.evictStops size tgt = some (decide (size ≤ tgt)) := by
  unfold Rv.Generated.Src.evictStops; rfl

/-- `ensureCacheSize` returns without evicting exactly below the limit. -/
theorem ensureSkips_eq (size limit : Int) : Rv.Generated.Src.ensureSkips size limit = some (decide (size < limit)) := by
  unfold Rv.Generated.Src.ensureSkips; rfl

/-- ... which is the test of the model's `ensure`. -/
theorem ensure_uses_it (st : Rv.Store.St) :
    Rv.Store.ensure st = if (Rv.Generated.Src.ensureSkips st.byteSize st.cfgLimit) = some true then (st, [])
      else Rv.Store.evict st st.cfgLimit (fun _ => false) := by
  unfold Rv.Store.ensure Rv.Generated.Src.ensureSkips
  by_cases h : st.byteSize < st.cfgLimit <;> simp [h]


end Rv.Props.SrcJanitor
