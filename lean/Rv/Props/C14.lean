import Rv.Model.Locks
import Rv.Model.Key
import Rv.Generated.LockFacts
import Rv.Generated.LockTable
import Rv.Generated.Shapes
import Rv.Lemmas.Locks
/-
  C14 — no interleaving deadlocks the cache or a request.

  Three layers:
  (1) `table_is_postfix`, `entry_points_ok`: the lock programs extracted from the
      CURRENT source (Rv/Generated/LockFacts.lean) pass the static discipline
      check — re-checked by the kernel on every run;
  (2) `check_sound`: a post-fixpoint table is sound for the path semantics: every
      path of every accepted function acquires blocking locks only in rank order
      (shard < mu, never two shards), never waits on a channel / I/O / callback
      while holding `mu`, and returns with exactly the locks it was entered with;
  (3) `no_deadlock`: in ANY system state (any number of threads, any number of
      shard locks) in which blocked threads respect that discipline, no set of
      threads waits for each other — so some thread can always move.
-/
namespace Rv.Props.C14
open Rv.Locks Rv.Generated

/-- closures defined in the cache constructors (the janitor's function table, the OnChange listeners) call
    methods of the object under construction; the model resolves such calls through `closureOwner`, and the
    CURRENT source agrees with that table (so the removal and eviction paths INTO `ensureRemove` /
    `deleteInternal` are part of the analysed programs, not leaves). -/
theorem closure_owners_as_assumed :
    (Rv.Generated.closureOwners.all (fun p => closureOwner p.1 = p.2) && decide (Rv.Generated.closureOwners.length = 3)) = true := by
  decide

/-- (1a) the candidate table is justified by the extracted programs. -/
theorem table_is_postfix : postFix lockFacts lockTable = true := by decide +kernel

/-- every public cache operation, the janitor goroutine, its stop, every
    configuration-change handler, the session/certificate map and the event
    primitives, entered holding nothing. -/
def entryPoints : List String := [
  "cache:MemoryCache.Get", "cache:MemoryCache.Cache", "cache:MemoryCache.Delete",
  "cache:MemoryCache.UpdateMetadata", "cache:MemoryCache.GetMetadata", "cache:MemoryCache.Destroy",
  "cache:FileCache.Get", "cache:FileCache.Cache", "cache:FileCache.Delete",
  "cache:FileCache.UpdateMetadata", "cache:FileCache.GetMetadata", "cache:FileCache.Destroy",
  "cache:cacheJanitor.start.goroutine", "cache:cacheJanitor.stop",
  "cache:cacheJanitor.cleanExpiredEntries", "cache:cacheJanitor.ensureCacheSize",
  "cache:cache_janitor.onChange(cfg.Cache.CleanupInterval)",
  "cache:file_cache.onChange(cfg.Cache.MaxCacheSize)",
  "cache:memory_cache.onChange(cfg.Cache.MaxCacheSize)",
  "cache:memory_cache.onChange(cfg.Cache.Memory.MemoryBudgetPercent)",
  "utils/syncmap:SyncMap.Get", "utils/syncmap:SyncMap.GetOrSet", "utils/syncmap:SyncMap.Delete", "utils/syncmap:SyncMap.Set",
  "utils/event:Event.Subscribe", "utils/event:Event.Fire", "utils/event:Event.Subscribe.returned",
  "config:ConfigSubscriber.UnsubscribeAll"]

/-- (1b) all of them are accepted. -/
theorem entry_points_ok : entryPoints.all (fun f => ofList lockTable f []) = true := by decide +kernel

/-- "an eviction started from inside a store never waits for a lock its own
    caller holds": `evict` is accepted when entered holding a shard lock, which
    the rank rule only allows if it acquires shard locks exclusively by TryLock. -/
theorem evict_inside_store_ok : ofList lockTable "cache:cacheJanitor.evict" [⟨"shard", false⟩] = true := by
  decide +kernel

/-- (2) soundness of the static check for the path semantics. -/
theorem check_sound (facts : Facts) (l : List (String × List Held × Bool))
    (hpf : postFix facts l = true) (f : String) (held : List Held) (body : Prog)
    (hT : ofList l f held = true) (hb : lookupFn facts f = some body)
    (evs : List Ev) (ts' : TS) (ex : Exit)
    (hex : Exec facts f body { held := held, deferred := [] } evs ts' ex) :
    DiscPath evs ∧ (ex = .normal ∨ ex = .ret) ∧
      ∃ devs, runDeferred ts'.held ts'.deferred = some (held, devs) :=
  Rv.Lemmas.Locks.check_sound facts l hpf f held body hT hb evs ts' ex hex

/-- corollary for the code as it is now: every path of every entry point is
    disciplined and lock-neutral. -/
theorem extracted_paths_disciplined (f : String) (hf : f ∈ entryPoints) (body : Prog)
    (hb : lookupFn lockFacts f = some body) (evs : List Ev) (ts' : TS) (ex : Exit)
    (hex : Exec lockFacts f body { held := [], deferred := [] } evs ts' ex) :
    DiscPath evs ∧ ∃ devs, runDeferred ts'.held ts'.deferred = some ([], devs) :=
  Rv.Lemmas.Locks.extracted_paths_disciplined lockFacts lockTable table_is_postfix entryPoints
    entry_points_ok f hf body hb evs ts' ex hex

/-- (3) rank discipline ⇒ no deadlocked set, for any thread type (any number of
    threads) and any lock indices (any number of shards). -/
theorem no_deadlock {Thread : Type} (s : Sys Thread) (hd : s.Disciplined) (S : List Thread) :
    ¬ s.Deadlocked S :=
  Rv.Lemmas.Locks.no_deadlock s hd S

/-- progress form: if every unfinished thread in `S` is blocked on a lock, one of
    those locks is held by nobody in `S` — the system is not stuck on itself. -/
theorem some_thread_can_move {Thread : Type} (s : Sys Thread) (hd : s.Disciplined) (S : List Thread)
    (hne : S ≠ []) (hblocked : ∀ t ∈ S, (s.waits t).isSome) :
    ∃ t ∈ S, ∃ l, s.waits t = some l ∧ ∀ t' ∈ S, l ∉ s.holds t' :=
  Rv.Lemmas.Locks.some_thread_can_move s hd S hne hblocked

/-- stopping the cache never blocks: `stop` and what it calls contain no channel
    wait, no blocking I/O and no blocking acquisition except of the innermost
    lock class `mu` (the Event's own subscriber mutex). An acquisition of `mu`
    always completes: by the rank discipline established above (`evOk`), a
    holder of `mu` never acquires another lock, never waits on a channel and
    never runs a caller-supplied function while holding it, so it releases `mu`
    after finitely many of its own steps. -/
def noBlocking : Prog → Bool
  | .lock cls _ | .rlock cls _ => rank cls = some 2
  | .chanSend _ _ | .chanRecv _ _ | .unknown _ _ => false
  | .seq a b | .alt a b => noBlocking a && noBlocking b
  | .loop p | .catchBrk p => noBlocking p
  | _ => true

theorem stop_never_blocks :
    (lookupFn lockFacts "cache:cacheJanitor.stop").map noBlocking = some true ∧
    (lookupFn lockFacts "config:ConfigSubscriber.UnsubscribeAll").map noBlocking = some true ∧
    (lookupFn lockFacts "utils/event:Event.Subscribe.returned").map noBlocking = some true := by
  decide +kernel

/-- the shard index is inside the lock array for every key and every shard
    count of at least one (no out-of-range panic while holding locks). -/
theorem shard_index_in_range (k : Rv.Str) (n : Nat) (h : 1 ≤ n) :
    ∃ i, Rv.Key.lockIndex k n = .idx i ∧ i < n := by
  unfold Rv.Key.lockIndex
  have : Rv.Key.hex8ToIndex k % n < n := Nat.mod_lt _ (by omega)
  exact ⟨_, by simp [this]; omega, this⟩

/-! non-vacuity: a blocking shard acquisition while holding a shard lock (what
    `evict` would do with Lock instead of TryLock) is rejected by the checker,
    and the state it leads to IS a deadlock. -/
example : absRun [] (fun _ _ => true) "x" (.lock "shard" "") { held := [⟨"shard", false⟩], deferred := [] } = none := by
  decide
example : (⟨fun _ => [⟨"shard", 0⟩], fun _ => some ⟨"shard", 0⟩⟩ : Sys Unit).Deadlocked [()] := by
  refine ⟨by simp, fun t _ => ⟨⟨"shard", 0⟩, rfl, (), by simp, by simp⟩⟩

end Rv.Props.C14
