import Rv.Generated.SrcAge
import Rv.Model.Fetch
/-
  PROVED tie between the model's `Rv.Fetch.currentAge` (the value of the `Age`
  header of a response served from the store; C03 "Age consistent") and the
  code: `Rv.Generated.SrcAge` is the translation of `getCurrentAge`
  (proxy/cache_status_headers.go), regenerated on every run.

  Leaves of the spec: the two header parses.  `time.Parse(http.TimeFormat,
  dateHeader)` is the parameter `date? : Option Int` (ns; `none` = absent or
  not an HTTP date), `strconv.Atoi(upstreamAge)` is `age? : Option Int`; both
  occur in the form `if v, err := f(); err == nil { … }`, translated to a
  `match` whose `some` arm is the body.  `int(d.Seconds())` is
  `Rv.SrcStr.durSeconds d` = `Int.tdiv d 10^9` (rule valid for |d| < 2^24 s, see
  its docstring), `max` is the builtin, `time.Now()` is the parameter `now`.

  UNITS.  The model counts in ms, the code in ns: `storedAt = e.timeWritten *
  10^6`, `now = now_ms * 10^6`.

  HYPOTHESES of the tie.
  * `date? = none`: the model has no apparent-age term (the harness's origins
    send no Date header; DESIGN: clock-hook caveat).  `getCurrentAge_spec`
    states what the code computes in general, including the Date term.
  * `e.timeWritten ≤ now`: the model divides with `/` (floor), the code
    truncates toward zero; they differ exactly on a NEGATIVE resident time that
    is not a whole number of seconds — see `currentAge_differs_before_write`
    (a finding about the model: harmless while the model's clock is monotone,
    which `handle` guarantees for entries it wrote itself).
-/
namespace Rv.Props.SrcAge
open Rv Rv.Fetch Rv.SrcStr

/-- what the code computes, in general: RFC 9111 §4.2.3 with response_delay = 0. -/
theorem getCurrentAge_spec (storedAt now : Int) (date? age? : Option Int) :
    Rv.Generated.Src.getCurrentAge () storedAt date? age? now =
      some (
        let apparent : Int := match date? with
          | some d => max 0 (Int.tdiv (storedAt - d) 1000000000)
          | none => 0
        let corrected : Int := match age? with
          | some a => max apparent a
          | none => apparent
        max 0 (corrected + Int.tdiv (now - storedAt) 1000000000)) := by
  simp only [Rv.Generated.Src.getCurrentAge, durSeconds]
  cases date? <;> cases age? <;> simp only [Int.max_def, gt_iff_lt, decide_eq_true_eq] <;> grind

/-- `getCurrentAge` cannot panic. -/
theorem getCurrentAge_total (storedAt now : Int) (date? age? : Option Int) :
    (Rv.Generated.Src.getCurrentAge () storedAt date? age? now).isSome = true := by
  rw [getCurrentAge_spec]; rfl

/-- THE TIE: without a Date header on the stored response and with the model's clock not before the instant the
    entry was written, the translated `getCurrentAge` is the model's `currentAge` (ms ↦ ns: × 10^6). -/
theorem getCurrentAge_eq (e : CEntry) (now : Int) (hmono : e.timeWritten ≤ now) :
    Rv.Generated.Src.getCurrentAge () (e.timeWritten * 1000000) none (e.o.age.map Int.ofNat) (now * 1000000) =
      some (currentAge e now) := by
  rw [getCurrentAge_spec]
  simp only [currentAge]
  have h0 : 0 ≤ now * 1000000 - e.timeWritten * 1000000 := by omega
  rw [Int.tdiv_eq_ediv_of_nonneg h0]
  have hd : (now * 1000000 - e.timeWritten * 1000000) / 1000000000 = (now - e.timeWritten) / 1000 := by omega
  rw [hd]
  cases e.o.age <;> simp <;> omega

/-- the exact relation without the monotonicity hypothesis: the code is the model's formula with TRUNCATED division. -/
theorem getCurrentAge_eq_tdiv (e : CEntry) (now : Int) :
    Rv.Generated.Src.getCurrentAge () (e.timeWritten * 1000000) none (e.o.age.map Int.ofNat) (now * 1000000) =
      some (max 0 ((match e.o.age with | some a => (a : Int) | none => 0) + Int.tdiv (now - e.timeWritten) 1000)) := by
  rw [getCurrentAge_spec]
  have hd : Int.tdiv (now * 1000000 - e.timeWritten * 1000000) 1000000000 = Int.tdiv (now - e.timeWritten) 1000 := by
    have : now * 1000000 - e.timeWritten * 1000000 = (now - e.timeWritten) * 1000000 := by omega
    rw [this, show (1000000000 : Int) = 1000 * 1000000 from rfl, Int.mul_tdiv_mul_of_pos_left _ _ (by omega)]
  rw [hd]
  cases e.o.age <;> simp <;> omega

/-- FINDING (model vs code): half a second BEFORE the entry was written, with an upstream Age of 5, the code says
    Age: 5 (−0.5 s truncates to 0) and the model says 4 (−500/1000 floors to −1). Unreachable while `now` is monotone. -/
theorem currentAge_differs_before_write (e : CEntry) (now : Int)
    (hage : e.o.age = some 5) (hw : e.timeWritten = now + 500) :
    Rv.Generated.Src.getCurrentAge () (e.timeWritten * 1000000) none (e.o.age.map Int.ofNat) (now * 1000000) = some 5 ∧
    currentAge e now = 4 := by
  constructor
  · rw [getCurrentAge_eq_tdiv, hage, hw]
    have : now - (now + 500) = -500 := by omega
    simp only [this]; decide
  · simp only [currentAge, hage, hw]
    have : now - (now + 500) = -500 := by omega
    simp only [this]; decide

/-! ### concrete inputs, evaluated by the kernel on the translated source -/

example : Rv.Generated.Src.getCurrentAge () 1000000000 none none 4500000000 = some 3 := by decide
example : Rv.Generated.Src.getCurrentAge () 1000000000 none (some 7) 4500000000 = some 10 := by decide
example : Rv.Generated.Src.getCurrentAge () 1000000000 none (some (-7)) 4500000000 = some 3 := by decide
example : Rv.Generated.Src.getCurrentAge () 10000000000 (some 4000000000) (some 2) 12000000000 = some 8 := by decide
example : Rv.Generated.Src.getCurrentAge () 10000000000 (some 14000000000) none 9500000000 = some 0 := by decide

end Rv.Props.SrcAge
