import Rv.Model.Range
import Rv.Spec.Range
import Rv.Lemmas.Range
/-
  C07 — Range answers are exact slices or explicit refusals.
  Property theorems only; helper lemmas live in Rv/Lemmas/Range.lean.
-/
namespace Rv.Props.C07
open Rv Rv.Range Rv.Spec.Range

/-- the parser has no reachable index-out-of-range: for every byte string. -/
theorem parse_total (x : Str) : parseRangeHeader x ≠ .panic :=
  Rv.Lemmas.Range.parse_ne_panic x

/-- every number the parser returns fits in an int64, so the `Int` arithmetic of
    the model coincides with Go's `int64` arithmetic (no wrap-around). -/
theorem parse_in_int64 (x : Str) (st en : Int) (h : parseRangeHeader x = .ok st en) :
    -1 ≤ st ∧ st ≤ maxI64 ∧ -1 ≤ en ∧ en ≤ maxI64 :=
  Rv.Lemmas.Range.parse_bounds x st en h

/-- a 206 is only ever produced for an interval inside the representation. -/
theorem slice_inside (x : Str) (size a b : Int) (h : outcome x size = .slice a b) :
    0 ≤ a ∧ a ≤ b ∧ b < size :=
  Rv.Lemmas.Range.slice_inside x size a b h

/-- never a panic, whatever the header and the size. -/
theorem outcome_total (x : Str) (size : Int) : outcome x size ≠ .panic :=
  Rv.Lemmas.Range.outcome_ne_panic x size

/-- when the client sent a well-formed single byte range and the proxy answers
    206, the slice is exactly the requested one — computed by the spec in
    unbounded arithmetic, which is what excludes 64-bit wrap-around. -/
theorem slice_is_requested (x : Str) (sp : RangeSpec) (size : Nat) (a b : Int)
    (hw : wellFormedSingle x = some sp) (h : outcome x size = .slice a b) :
    resolve sp size = some (a.toNat, b.toNat) ∧ 0 ≤ a ∧ 0 ≤ b :=
  Rv.Lemmas.Range.slice_is_requested x sp size a b hw h

/-- conversely a well-formed, satisfiable range whose numbers fit in an int64 is
    served (so the 206 branch is not vacuous and the proxy does not refuse what
    it can serve). -/
theorem requested_is_served (x : Str) (sp : RangeSpec) (size a b : Nat)
    (hw : wellFormedSingle x = some sp) (hs : size ≤ maxI64)
    (hr : resolve sp size = some (a, b)) :
    outcome x size = .slice a b :=
  Rv.Lemmas.Range.requested_is_served x sp size a b hw hs hr

/-- a well-formed single range that is not satisfiable (or overflows) is
    refused — 416 or full 200 — never answered with some other slice. -/
theorem unsatisfiable_refused (x : Str) (sp : RangeSpec) (size : Nat)
    (hw : wellFormedSingle x = some sp) (hr : resolve sp size = none) :
    outcome x size = .reject ∨ outcome x size = .absent :=
  Rv.Lemmas.Range.unsatisfiable_refused x sp size hw hr

/-! non-vacuity: concrete inputs meeting the hypotheses -/
example : wellFormedSingle (s "bytes=2-5") = some (.fromTo 2 5) := by decide
example : outcome (s "bytes=2-5") 10 = .slice 2 5 := by decide
example : outcome (s "bytes=-3") 10 = .slice 7 9 := by decide
example : outcome (s "bytes=4-") 10 = .slice 4 9 := by decide
example : outcome (s "bytes=") 10 = .absent := by decide
example : outcome (s "bytes=5") 10 = .absent := by decide
example : outcome (s "bytes=18446744073709551616-18446744073709551620") 10 = .absent := by decide
example : outcome (s "bytes=0-10") 10 = .reject := by decide

end Rv.Props.C07
