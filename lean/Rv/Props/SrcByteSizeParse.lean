import Rv.Generated.SrcByteSizeParse
import Rv.Model.ByteSize
import Rv.Lemmas.ByteSize
import Rv.Lemmas.SrcParse
/-
  PROVED tie between the hand-written model of `bytesize.Parse` and the code:
  `Rv.Generated.SrcByteSizeParse` is regenerated from /repo's Go source on every
  run by `tools/go2lean` (`none` = Go run-time panic: here the only candidate is
  the division `math.MaxInt64/multiplier`, which the theorem shows is never by
  zero).  `parse_eq` states that the translated `Parse` equals, for ALL inputs,
  the model `Rv.ByteSize.parse` the property theorems (C17a) are about, error
  kind for error kind.

  THE TABLE.  `unitRuneMap` is emitted from the Go map literal as Lean data
  (`Rv.Generated.Src.unitRuneMap`, after checking that no statement of the
  package can modify the map) and `unit, exists := unitRuneMap[r]` is a lookup
  in it; `unitRuneMap_lookup` proves that this lookup IS the model's `unitOf`,
  so a change of the table in Go breaks that proof.

  BYTES AND RUNES.  As for the Range parser (see Props/SrcRangeParse): the
  translation steps one BYTE at a time, Go's `for _, r := range s` decodes
  RUNES; they coincide on ASCII input, hence `hascii` in the theorem about the
  Go function.  The proofs do not use it.  (The Go function also agrees with
  the byte-wise definition on non-ASCII input up to the error kind erased: a
  rune ≥ 0x80 is neither a digit nor a key of `unitRuneMap`, so the loop returns
  ErrMultipleUnits or ErrUnknownUnit at that rune, exactly as the byte-wise
  loop does at its first byte; not formalised.)

  FindLargestFittingUnit / ToString / String are translated as well: see the last section (the map iteration
  order is a parameter; the theorems hold for every permutation of the table).

  ERROR KINDS are kept: the result is `Except String Int`, the string being the
  NAME of the package-level error variable the returned error wraps (`%w`).
-/
set_option linter.unusedSimpArgs false
namespace Rv.Props.SrcByteSizeParse
open Rv Rv.ByteSize Rv.SrcStr Rv.SrcViews Rv.Lemmas.SrcParse

/-! ### isDigit, the unit table -/

/-- `isDigit` of the source = the model's, and it cannot panic. -/
theorem isDigit_eq (c : Char) : Rv.Generated.Src.isDigit c = some (Rv.isDigit c) := by
  unfold Rv.Generated.Src.isDigit Rv.isDigit
  simp only [ge_iff_le, Bool.decide_and]

/-- the table `unitRuneMap` of the source is, up to the order of the literal (irrelevant for a Go map), the model's
    list of units -/
theorem unitRuneMap_perm_units :
    (Rv.Generated.Src.unitRuneMap).Perm (units.map (fun u => (u.1, Int.ofNat u.2))) := by decide

/-- a lookup in the table `unitRuneMap` of the source is the model's `unitOf`: changing the Go map literal breaks
    this proof. -/
theorem unitRuneMap_lookup (c : Char) :
    List.lookup c Rv.Generated.Src.unitRuneMap = (unitOf c).map Int.ofNat := by
  by_cases hB : c = 'B'; · subst hB; rfl
  by_cases hK : c = 'K'; · subst hK; rfl
  by_cases hM : c = 'M'; · subst hM; rfl
  by_cases hG : c = 'G'; · subst hG; rfl
  by_cases hT : c = 'T'; · subst hT; rfl
  have eB : (c == 'B') = false := beq_eq_false_iff_ne.mpr hB
  have eK : (c == 'K') = false := beq_eq_false_iff_ne.mpr hK
  have eM : (c == 'M') = false := beq_eq_false_iff_ne.mpr hM
  have eG : (c == 'G') = false := beq_eq_false_iff_ne.mpr hG
  have eT : (c == 'T') = false := beq_eq_false_iff_ne.mpr hT
  simp [Rv.Generated.Src.unitRuneMap, List.lookup, unitOf, hB, hK, hM, hG, hT, eB, eK, eM, eG, eT]

/-- the model's result in the shape of the translated `(ByteSize, error)`: the error kind is the NAME of the Go
    error variable that the returned error wraps. -/
def PRes.toSrc : PRes → Except String Int
  | .err .empty => .error "ErrEmptyString"
  | .err .charsAfterUnit => .error "ErrCharsAfterUnit"
  | .err .multipleUnits => .error "ErrMultipleUnits"
  | .err .unknownUnit => .error "ErrUnknownUnit"
  | .err .invalidFormat => .error "ErrInvalidFormat"
  | .ok v => .ok (v : Int)

/-- an outcome of the translated loop agrees with the model's loop result: no panic; an early `return` returns the
    model's result; falling off the end leaves carried variables on which the model's end-of-string case gives the
    model's result, with a positive multiplier (so that the division after the loop cannot panic). -/
def LoopGood : Option (Loop (Except String Int) (Int × Int × Bool × Bool)) → PRes → Prop
  | none, _ => False
  | some (.ret v), m => v = PRes.toSrc m
  | some (.done (n, mu, fu, fd)), m => ∃ n' mu' : Nat, n = n' ∧ mu = mu' ∧ 0 < mu' ∧ m = parseLoop [] n' mu' fu fd

/-- the generalised loop lemma: arbitrary accumulators (non-negative number, positive multiplier, any flags). -/
theorem loop_good : ∀ (cs : Str) (num mult : Int) (num' mult' : Nat) (fu fd : Bool),
    num = num' → mult = mult' → 0 < mult' →
    LoopGood (Rv.Generated.Src.parse_loop1 cs num mult fu fd) (parseLoop cs num' mult' fu fd) := by
  intro cs
  induction cs with
  | nil =>
    intro num mult num' mult' fu fd hn hm hpos
    subst hn hm
    rw [Rv.Generated.Src.parse_loop1]
    exact ⟨num', mult', rfl, rfl, hpos, rfl⟩
  | cons c cs ih =>
    intro num mult num' mult' fu fd hn hm hpos
    subst hn hm
    rw [Rv.Generated.Src.parse_loop1, parseLoop]
    simp only [isDigit_eq, Option.bind_some, unitRuneMap_lookup]
    cases hu : unitOf c with
    | none =>
      simp only [Option.map_none]
      repeat' split
      all_goals (try simp only [Bool.or_eq_true, Bool.and_eq_true, Bool.not_eq_true', Bool.not_eq_true, decide_eq_true_eq,
        decide_eq_false_iff_not, beq_iff_eq, bne_iff_ne, ne_eq, isDigit_iff, isDigit_false_iff, Char.reduceToNat, not_or, not_and,
        Nat.not_lt, Nat.not_le, Int.not_lt, Int.not_le, gt_iff_lt, ge_iff_le, maxI64, digitVal, Int.ofNat_eq_natCast,
        Bool.not_true, Bool.not_false, Bool.false_eq_true, Bool.true_eq_false] at *)
      all_goals (try simp (disch := omega) only [tdiv_nonneg] at *)
      all_goals (first
        | omega
        | contradiction
        | (apply ih <;> omega)
        | (simp [LoopGood, PRes.toSrc] <;> omega))
    | some u =>
      have hup := (Rv.Lemmas.ByteSize.unitOf_some hu).2.1
      simp only [Option.map_some]
      repeat' split
      all_goals (try simp only [Bool.or_eq_true, Bool.and_eq_true, Bool.not_eq_true', Bool.not_eq_true, decide_eq_true_eq,
        decide_eq_false_iff_not, beq_iff_eq, bne_iff_ne, ne_eq, isDigit_iff, isDigit_false_iff, Char.reduceToNat, not_or, not_and,
        Nat.not_lt, Nat.not_le, Int.not_lt, Int.not_le, gt_iff_lt, ge_iff_le, maxI64, digitVal, Int.ofNat_eq_natCast,
        Bool.not_true, Bool.not_false, Bool.false_eq_true, Bool.true_eq_false] at *)
      all_goals (try simp (disch := omega) only [tdiv_nonneg] at *)
      all_goals (first
        | omega
        | contradiction
        | (apply ih <;> omega)
        | (simp [LoopGood, PRes.toSrc] <;> omega))


theorem maxI64_cast : (9223372036854775807 : Int) = ((maxI64 : Nat) : Int) := rfl

/-- the translated `Parse` is the model's `parse` on every byte string, and cannot panic. -/
theorem parse_eq_bytes (x : Str) :
    Rv.Generated.Src.parse x = some (PRes.toSrc (Rv.ByteSize.parse x)) := by
  unfold Rv.Generated.Src.parse Rv.ByteSize.parse
  by_cases hx : x = []
  · subst hx; simp [PRes.toSrc]
  have h := loop_good x 0 1 0 1 false false rfl rfl (by omega)
  have hx' : (x == ([] : Str)) = false := by simpa using hx
  simp only [hx, hx', if_false, Bool.false_eq_true]
  cases hr : Rv.Generated.Src.parse_loop1 x 0 1 false false with
  | none => simp [hr, LoopGood] at h
  | some r =>
    rw [hr] at h
    cases r with
    | ret v => simp only [LoopGood] at h; subst h; simp
    | done st =>
      obtain ⟨n, mu, fu, fd⟩ := st
      simp only [LoopGood] at h
      obtain ⟨n', mu', rfl, rfl, hpos, hm⟩ := h
      rw [hm, parseLoop]
      have hne : ((mu' : Int) == 0) = false := by simp; omega
      simp only [Option.bind_some, hne, Bool.false_eq_true, if_false, maxI64_cast]
      rw [tdiv_nonneg _ _ (by omega)]
      have hdiv : ((maxI64 : Nat) : Int) / (mu' : Int) < (n' : Int) ↔ maxI64 / mu' < n' := by
        rw [← Int.natCast_ediv]; exact Int.ofNat_lt
      by_cases hov : maxI64 / mu' < n' <;> cases fu <;> cases fd <;> simp [PRes.toSrc, hov, hdiv]

/-- `bytesize.Parse` of the source = the model's `parse` (error kinds kept), and it cannot panic (no division by
    zero).  `hascii`: see the header. -/
theorem bytesizeParse_eq (x : Str) (hascii : ∀ c ∈ x, c.toNat < 128) :
    Rv.Generated.Src.parse x = some (PRes.toSrc (Rv.ByteSize.parse x)) := by
  have _ := hascii
  exact parse_eq_bytes x

/-! ### concrete inputs, evaluated by the kernel on the translated source -/

example : Rv.Generated.Src.parse (Rv.s "10G") = some (.ok 10737418240) := by decide
example : Rv.Generated.Src.parse (Rv.s "5K5") = some (.error "ErrCharsAfterUnit") := by decide
example : Rv.Generated.Src.parse (Rv.s "") = some (.error "ErrEmptyString") := by decide
example : Rv.Generated.Src.parse (Rv.s "5KK") = some (.error "ErrMultipleUnits") := by decide
example : Rv.Generated.Src.parse (Rv.s "5X") = some (.error "ErrUnknownUnit") := by decide
example : Rv.Generated.Src.parse (Rv.s "G") = some (.error "ErrInvalidFormat") := by decide
example : Rv.Generated.Src.parse (Rv.s "12") = some (.error "ErrInvalidFormat") := by decide
example : Rv.Generated.Src.parse (Rv.s "8388608T") = some (.error "ErrInvalidFormat") := by decide
example : Rv.Generated.Src.parse (Rv.s "8388607T") = some (.ok 9223370937343148032) := by decide

/-! ### FindLargestFittingUnit, ToString, String — the loop over the MAP

  `for unitRune, unitSize := range unitRuneMap` iterates in an order Go does not specify.  The translated
  `findLargestFittingUnit` therefore takes the iteration order as a parameter and the theorems hold for EVERY
  permutation of the emitted table (`hp : order.Perm unitRuneMap`); the model computes in one fixed order and
  `Rv.Lemmas.ByteSize.largest_perm` (different units have different sizes, so two iterations commute) bridges the two.
  The receiver is taken non-negative (`n : Nat`), as in the model. -/

/-- a table over `Nat` as the translated code sees it (over `Int`) -/
def castTable (l : List (Char × Nat)) : List (Char × Int) := l.map (fun u => (u.1, Int.ofNat u.2))

theorem fit_loop (n : Nat) : ∀ (rest : List (Char × Nat)) (size : Nat) (rune : Char),
    (∀ u ∈ rest, 0 < u.2) →
    Rv.Generated.Src.findLargestFittingUnit_loop1 (n : Int) (castTable rest) (size : Int) rune =
      some (.done (((rest.foldl (fitStep n) (rune, size)).2 : Int), (rest.foldl (fitStep n) (rune, size)).1)) := by
  intro rest
  induction rest with
  | nil => intro size rune _; simp [castTable, Rv.Generated.Src.findLargestFittingUnit_loop1]
  | cons u tl ih =>
    intro size rune hpos
    obtain ⟨r, s⟩ := u
    have hs : 0 < s := hpos (r, s) (by simp)
    have htl : ∀ u ∈ tl, 0 < u.2 := fun u hu => hpos u (by simp [hu])
    have ih' := fun size rune => ih size rune htl
    simp only [castTable, List.map_cons, Int.ofNat_eq_natCast] at ih' ⊢
    rw [Rv.Generated.Src.findLargestFittingUnit_loop1, List.foldl_cons, fitStep]
    simp only [← Int.ofNat_tmod, Int.ofNat_lt, Option.bind_some]
    repeat' split
    all_goals (try simp only [Bool.or_eq_true, Bool.and_eq_true, Bool.not_eq_true', Bool.not_eq_true, decide_eq_true_eq,
      decide_eq_false_iff_not, beq_iff_eq, bne_iff_ne, ne_eq, not_or, not_and, Int.natCast_eq_zero, Int.ofNat_lt,
      Nat.not_lt, Nat.not_le, Int.not_lt, Int.not_le, gt_iff_lt, ge_iff_le, Option.bind_some, Option.bind_none,
      Decidable.not_not, if_true, if_false] at *)
    all_goals (repeat' split)
    all_goals (try simp only [Bool.or_eq_true, Bool.and_eq_true, Bool.not_eq_true', Bool.not_eq_true, decide_eq_true_eq,
      decide_eq_false_iff_not, beq_iff_eq, bne_iff_ne, ne_eq, not_or, not_and, Int.natCast_eq_zero, Int.ofNat_lt,
      Nat.not_lt, Nat.not_le, Int.not_lt, Int.not_le, gt_iff_lt, ge_iff_le, Option.bind_some, Option.bind_none,
      Decidable.not_not, if_true, if_false] at *)
    all_goals (first
      | omega
      | contradiction
      | exact ih' _ _)


theorem units_pos : ∀ u ∈ units, 0 < u.2 := by decide
theorem unitRuneMap_nonneg : ∀ u ∈ Rv.Generated.Src.unitRuneMap, 0 ≤ u.2 := by decide
theorem unitRuneMap_toNat : ((Rv.Generated.Src.unitRuneMap).map (fun u => (u.1, u.2.toNat))).Perm units := by decide

/-- `FindLargestFittingUnit` of the source, run with ANY iteration order of the map (any permutation of the table),
    returns the rune of the model's `largestFittingUnit` computed in the model's fixed order; it cannot panic (the
    `%` is never by zero). -/
theorem findLargestFittingUnit_eq (n : Nat) (order : List (Char × Int))
    (hp : order.Perm Rv.Generated.Src.unitRuneMap) :
    Rv.Generated.Src.findLargestFittingUnit (n : Int) order = some (largestFittingUnit units n).1 := by
  -- the order as a table over Nat
  let order' : List (Char × Nat) := order.map (fun u => (u.1, u.2.toNat))
  have hp' : order'.Perm units := by
    exact (hp.map (fun u : Char × Int => (u.1, u.2.toNat))).trans unitRuneMap_toNat
  have hcast : castTable order' = order := by
    simp only [castTable, order', List.map_map]
    have : ∀ u ∈ order, ((fun u : Char × Nat => (u.1, Int.ofNat u.2)) ∘ (fun u : Char × Int => (u.1, u.2.toNat))) u = u := by
      intro u hu
      have h0 := unitRuneMap_nonneg u (hp.subset hu)
      obtain ⟨a, b⟩ := u
      simp only [Function.comp, Int.ofNat_eq_natCast, Prod.mk.injEq, true_and]
      simp only at h0
      omega
    rw [List.map_congr_left this, List.map_id']
  have hpos : ∀ u ∈ order', 0 < u.2 := fun u hu => units_pos u (hp'.subset hu)
  have h := fit_loop n order' 1 'B' hpos
  rw [hcast] at h
  unfold Rv.Generated.Src.findLargestFittingUnit
  simp only [Int.ofNat_eq_natCast, Int.natCast_one] at h
  simp only [h, Option.bind_some]
  have := Rv.Lemmas.ByteSize.largest_perm order' n hp'
  unfold largestFittingUnit at this ⊢
  rw [this]


/-- `ByteSize.ToString` of the source (leaf: `fmt.Sprintf("%d%c", size, r)` = decimal of `size` followed by `r`) on a
    non-negative size: unknown unit or the quotient printed with the unit; it cannot panic (no division by zero). -/
theorem toString_eq (n : Nat) (u : Char) :
    Rv.Generated.Src.toString (n : Int) u =
      some (match unitOf u with
        | none => .error "ErrUnknownUnit"
        | some m => .ok (toDec (n / m) ++ [u])) := by
  unfold Rv.Generated.Src.toString
  rw [unitRuneMap_lookup]
  cases hu : unitOf u with
  | none => simp
  | some m =>
    have hm := (Rv.Lemmas.ByteSize.unitOf_some hu).2.1
    have hne : ((m : Int) == 0) = false := by simp; omega
    simp only [Option.map_some, Int.ofNat_eq_natCast, Bool.not_true, Bool.false_eq_true, if_false, hne,
      Option.bind_some]
    rw [tdiv_nonneg _ _ (by omega), ← Int.natCast_ediv]
    have h1 : ¬ ((n / m : Nat) : Int) < 0 := Int.not_lt.mpr (Int.natCast_nonneg _)
    have h2 : ((n / m : Nat) : Int).natAbs = n / m := Int.natAbs_natCast _
    simp only [intToDec, h1, h2, if_false]

/-- `ByteSize.String()` = `ToString(FindLargestFittingUnit())` on the translated source, for ANY iteration order of
    the map, is the model's `toStr` (about which C17a proves the round trip with `Parse`). -/
theorem string_eq (n : Nat) (order : List (Char × Int)) (hp : order.Perm Rv.Generated.Src.unitRuneMap) :
    (Rv.Generated.Src.findLargestFittingUnit (n : Int) order).bind (Rv.Generated.Src.toString (n : Int)) =
      some (.ok (toStr n)) := by
  rw [findLargestFittingUnit_eq n order hp, Option.bind_some, toString_eq]
  have h := (Rv.Lemmas.ByteSize.largest_fits units n Rv.Lemmas.ByteSize.mem_units_unitOf).1
  simp only [h, toStr]

example : Rv.Generated.Src.findLargestFittingUnit 10737418240 Rv.Generated.Src.unitRuneMap = some 'G' := by decide
example : Rv.Generated.Src.findLargestFittingUnit 10737418240 Rv.Generated.Src.unitRuneMap.reverse = some 'G' := by decide
example : Rv.Generated.Src.findLargestFittingUnit 1500 Rv.Generated.Src.unitRuneMap = some 'B' := by decide
example : Rv.Generated.Src.toString 10737418240 'M' = some (.ok (Rv.s "10240M")) := by decide
example : Rv.Generated.Src.toString 5 'X' = some (.error "ErrUnknownUnit") := by decide

end Rv.Props.SrcByteSizeParse
