import Rv.Model.Key
import Rv.Spec.Resource
import Rv.Lemmas.Key
/-
  C02 — distinct resources never share a cache entry.
  The entry identity is BLAKE2b-256(keyString …); collision freedom of BLAKE2b is
  in the trusted base, the theorems are about the pre-hash string.
-/
namespace Rv.Props.C02
open Rv Rv.Key Rv.Spec.Resource

def keyOf (scheme : Str) (r : Req) : Str := keyString scheme r.method r.host r.path r.query

def validScheme (x : Str) : Prop := x = s "http" ∨ x = s "https"

/-- two requests get the same key exactly when they name the same resource —
    for all component strings, including '|', ':', digits, NUL, empty
    components, trailing and repeated slashes. -/
theorem key_injective (sc : Str) (a b : Req) (hs : validScheme sc) :
    keyOf sc a = keyOf sc b ↔ sameResource a b :=
  Rv.Lemmas.Key.key_injective sc a b hs

/-- the scheme is part of the key as well. -/
theorem key_scheme (sa sb : Str) (a b : Req) (ha : validScheme sa) (hb : validScheme sb)
    (h : keyOf sa a = keyOf sb b) : sa = sb :=
  Rv.Lemmas.Key.key_scheme sa sb a b ha hb h

/-- requests that differ only in host letter case share an entry. -/
theorem host_case_shares (sc m h p q : Str) :
    keyString sc m h p q = keyString sc m (toLower h) p q :=
  Rv.Lemmas.Key.host_case_shares sc m h p q

/-- a "." segment or a duplicate slash in the middle of a rooted path does not
    change the entry. -/
theorem dot_segment_shares (a b : Str) :
    normPath ('/' :: a ++ s "/./" ++ b) = normPath ('/' :: a ++ '/' :: b) :=
  Rv.Lemmas.Key.dot_segment_shares a b

theorem double_slash_shares (a b : Str) :
    normPath ('/' :: a ++ s "//" ++ b) = normPath ('/' :: a ++ '/' :: b) :=
  Rv.Lemmas.Key.double_slash_shares a b

/-- "seg/.." cancels: `/a/seg/../b` and `/a/b` share (seg an ordinary segment). -/
theorem dotdot_shares (a seg b : Str) (h1 : seg ≠ []) (h2 : seg ≠ dot) (h3 : seg ≠ dotdot)
    (h4 : '/' ∉ seg) :
    normPath ('/' :: a ++ '/' :: seg ++ s "/../" ++ b) = normPath ('/' :: a ++ '/' :: b) :=
  Rv.Lemmas.Key.dotdot_shares a seg b h1 h2 h3 h4

/-- a trailing slash is significant: a rooted path whose last segment is an
    ordinary name never shares with the same path plus "/". -/
theorem trailing_slash_distinct (a seg : Str) (h1 : seg ≠ []) (h2 : seg ≠ dot) (h3 : seg ≠ dotdot)
    (h4 : '/' ∉ seg) :
    normPath ('/' :: a ++ '/' :: seg) ≠ normPath ('/' :: a ++ '/' :: seg ++ ['/']) :=
  Rv.Lemmas.Key.trailing_slash_distinct a seg h1 h2 h3 h4

/-- the shard index is always inside the lock array for a shard count ≥ 1 (C14). -/
theorem shard_index_in_range (k : Str) (n : Nat) (h : 1 ≤ n) :
    ∃ i, lockIndex k n = .idx i ∧ i < n :=
  Rv.Lemmas.Key.shard_index_in_range k n h

example : keyOf (s "http") ⟨s "GET", s "h", s "/a|b", s "c"⟩ ≠ keyOf (s "http") ⟨s "GET", s "h", s "/a", s "b|c"⟩ := by decide
example : normPath (s "/dir/") = s "/dir/" ∧ normPath (s "/dir") = s "/dir" := by decide
example : normPath (s "/a/../b/./c//d/") = s "/b/c/d/" := by decide
example : sameResource ⟨s "GET", s "ExAmple.com", s "/a/./b", s "x=1"⟩ ⟨s "GET", s "example.COM", s "/a//b", s "x=1"⟩ := by decide

end Rv.Props.C02
