import Rv.Generated.SrcCerts
import Rv.Model.Certs
/-
  PROVED tie for the certificate cache's expiry test (proxy/certs/private_ca.go,
  `expired := cert.Leaf.NotAfter.Before(time.Now())`), translated from the Go
  source on every run: the model's `lookupStep` drops a cached certificate
  exactly when the source's test says so.
-/
namespace Rv.Props.SrcCerts
open Rv Rv.Certs

theorem certExpired_eq (notAfter now : Int) : Rv.Generated.Src.certExpired notAfter now = some (decide (notAfter < now)) := by
  unfold Rv.Generated.Src.certExpired; rfl

theorem lookupStep_uses_the_source_test (st : St) (host : Str) (c : Cert) (h : lookup st host = some c) :
    lookupStep st host =
      if Rv.Generated.Src.certExpired c.notAfter st.now = some true
      then ({ st with cache := st.cache.filter (·.host ≠ host) }, none) else (st, some c) := by
  unfold lookupStep
  rw [h, certExpired_eq]
  by_cases h1 : c.notAfter < st.now <;> simp [h1]

example : Rv.Generated.Src.certExpired 5 6 = some true := by decide

end Rv.Props.SrcCerts
