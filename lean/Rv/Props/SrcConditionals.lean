import Rv.Generated.SrcConditionals
import Rv.Model.Headers
import Rv.Model.Fetch
import Rv.Lemmas.Headers
/-
  PROVED tie for C06 ("the origin is asked with the validators saved from the
  stored response; conditional headers sent by the client are never forwarded in
  their place"): `Rv.Generated.SrcConditionals` is regenerated from /repo's Go
  source on every run.

  (1) `(*HeaderDirectives).StripRegularConditionals(header)`
      (proxy/headers/header_directives.go) as a function on the header
      (`http.Header` = `Rv.Headers.Hdr`, canonical keys).  The four
      `hd.X.SyncRemove(header)` calls are LEAVES of the spec with the meaning of
      `Header[T].SyncRemove` (`if h.value.IsNone() { return }; delete(headers,
      h.name)`): `pX` = the field is present, `nX` = its `name`, ARBITRARY here.
      The final `for _, name := range []string{…} { delete(header, name) }` is
      translated structurally (`delete` on the map: no canonicalisation).
  (2) the two statements of `(*fetcher).getFromCacheOrFetch` (proxy/fetcher.go)
      that set `If-None-Match` / `If-Modified-Since` on the revalidation request
      from the STORED validators (spec mode `hdrblock` over `up.Header`); leaves:
      the stored ETag, `LastModified.IsZero()`, `LastModified.Format(http.TimeFormat)`.

  Proof style: `simp only [defs]`, case split, `simp`.
-/
set_option linter.unusedSimpArgs false
namespace Rv.Props.SrcConditionals
open Rv Rv.Headers Rv.Fetch Rv.Lemmas.Headers

def ifModifiedSince : Str := s "If-Modified-Since"
def ifUnmodifiedSince : Str := s "If-Unmodified-Since"
def ifNoneMatch : Str := s "If-None-Match"
def ifMatch : Str := s "If-Match"

/-- the four conditional request fields the proxy never forwards (If-Range is not among them). -/
def condNames : List Str := [ifModifiedSince, ifUnmodifiedSince, ifNoneMatch, ifMatch]

theorem l_ims : (['I', 'f', '-', 'M', 'o', 'd', 'i', 'f', 'i', 'e', 'd', '-', 'S', 'i', 'n', 'c', 'e'] : Str) = ifModifiedSince := by decide
theorem l_ius : (['I', 'f', '-', 'U', 'n', 'm', 'o', 'd', 'i', 'f', 'i', 'e', 'd', '-', 'S', 'i', 'n', 'c', 'e'] : Str) = ifUnmodifiedSince := by decide
theorem l_inm : (['I', 'f', '-', 'N', 'o', 'n', 'e', '-', 'M', 'a', 't', 'c', 'h'] : Str) = ifNoneMatch := by decide
theorem l_im : (['I', 'f', '-', 'M', 'a', 't', 'c', 'h'] : Str) = ifMatch := by decide
theorem canon_inm : canonKey ifNoneMatch = ifNoneMatch := by decide
theorem canon_ims : canonKey ifModifiedSince = ifModifiedSince := by decide

/-! ### StripRegularConditionals -/

theorem strip_loop : ∀ (ks : List Str) (h : Hdr),
    Rv.Generated.Src.stripRegularConditionals_loop1 ks h = some (.done (ks.foldl del h))
  | [], h => by simp only [Rv.Generated.Src.stripRegularConditionals_loop1, List.foldl_nil]
  | k :: ks, h => by
    rw [Rv.Generated.Src.stripRegularConditionals_loop1, List.foldl_cons]
    exact strip_loop ks _

/-- is the field named `k` removed: it is one of the four conditional names, or the name of a PRESENT directive field. -/
def removed (pIms pIus pInm pIm : Bool) (nIms nIus nInm nIm : Str) (k : Str) : Bool :=
  decide (k ∈ condNames ∨ (pIms = true ∧ k = nIms) ∨ (pIus = true ∧ k = nIus) ∨ (pInm = true ∧ k = nInm) ∨
    (pIm = true ∧ k = nIm))

theorem foldl_del_filter : ∀ (ks : List Str) (h : Hdr), ks.foldl del h = h.filter (fun kv => !ks.contains kv.1)
  | [], h => by
    have : h.filter (fun _ => true) = h := List.filter_eq_self.mpr (fun _ _ => rfl)
    simpa using this.symm
  | k :: ks, h => by
    rw [List.foldl_cons, foldl_del_filter ks, del, List.filter_filter]
    apply List.filter_congr
    intro kv _
    by_cases e : kv.1 = k <;> simp [e]

theorem delIf_filter (p : Bool) (h : Hdr) (n : Str) :
    (if p = true then del h n else h) = h.filter (fun kv => !(p && decide (kv.1 = n))) := by
  cases p
  · have : h.filter (fun _ => true) = h := List.filter_eq_self.mpr (fun _ _ => rfl)
    simpa using this.symm
  · simp [del]

/-- the translated function is ONE filter of the header: exactly the `removed` names go (whatever the order of the
    calls and of the list); it cannot panic. -/
theorem stripRegularConditionals_eq (h : Hdr) (pIms pIus pInm pIm : Bool) (nIms nIus nInm nIm : Str) :
    Rv.Generated.Src.stripRegularConditionals () h pIms pIus pInm pIm nIms nIus nInm nIm =
      some (h.filter (fun kv => !removed pIms pIus pInm pIm nIms nIus nInm nIm kv.1)) := by
  simp only [Rv.Generated.Src.stripRegularConditionals, strip_loop, Option.bind_some, l_ims, l_ius, l_inm, l_im,
    foldl_del_filter, delIf_filter, List.filter_filter, removed, condNames]
  congr 1
  apply List.filter_congr
  intro kv _
  cases pIms <;> cases pIus <;> cases pInm <;> cases pIm <;>
    simp [and_comm, and_left_comm, and_assoc, or_comm, or_left_comm, or_assoc, not_or, Bool.and_comm, Bool.and_left_comm, Bool.and_assoc]

theorem stripRegularConditionals_total (h : Hdr) (pIms pIus pInm pIm : Bool) (nIms nIus nInm nIm : Str) :
    (Rv.Generated.Src.stripRegularConditionals () h pIms pIus pInm pIm nIms nIus nInm nIm).isSome = true := by
  rw [stripRegularConditionals_eq]; rfl

/-- per field name: the values after the function. -/
theorem strip_values (h : Hdr) (pIms pIus pInm pIm : Bool) (nIms nIus nInm nIm : Str) (n : Str) :
    values (h.filter (fun kv => !removed pIms pIus pInm pIm nIms nIus nInm nIm kv.1)) n =
      if removed pIms pIus pInm pIm nIms nIus nInm nIm n then [] else values h n := by
  by_cases hr : removed pIms pIus pInm pIm nIms nIus nInm nIm n = true
  · rw [if_pos hr]
    exact values_filter_none _ n h (fun kv _ e => by simp [e, hr])
  · rw [if_neg hr]
    exact values_filter _ n h (fun kv _ e => by simpa [e] using hr)

theorem values_foldl_del (ks : List Str) : ∀ (h : Hdr) (n : Str),
    values (ks.foldl del h) n = if n ∈ ks then [] else values h n := by
  induction ks with
  | nil => intro h n; simp
  | cons k ks ih =>
    intro h n
    rw [List.foldl_cons, ih, values_del]
    by_cases e : n = k <;> by_cases m : n ∈ ks <;> simp [e, m]

/-- C06, first half: after `StripRegularConditionals` NONE of the four conditional fields has a value — whatever the
    client sent, whatever parsed, whatever names the directive fields carry. -/
theorem no_client_conditional_survives (h : Hdr) (pIms pIus pInm pIm : Bool) (nIms nIus nInm nIm : Str)
    (n : Str) (hn : n ∈ condNames) :
    ∃ r, Rv.Generated.Src.stripRegularConditionals () h pIms pIus pInm pIm nIms nIus nInm nIm = some r ∧
      values r n = [] := by
  refine ⟨_, stripRegularConditionals_eq .., ?_⟩
  rw [strip_values, if_pos]
  simp [removed, hn]

/-- every other field is unchanged (If-Range in particular), provided the directive fields carry their own names
    (as `ParseHeaderDirective` constructs them with `NewHeader("If-…", …)`). -/
theorem other_fields_kept (h : Hdr) (pIms pIus pInm pIm : Bool) (nIms nIus nInm nIm : Str)
    (h1 : nIms ∈ condNames) (h2 : nIus ∈ condNames) (h3 : nInm ∈ condNames) (h4 : nIm ∈ condNames)
    (n : Str) (hn : n ∉ condNames) :
    ∃ r, Rv.Generated.Src.stripRegularConditionals () h pIms pIus pInm pIm nIms nIus nInm nIm = some r ∧
      values r n = values h n := by
  refine ⟨_, stripRegularConditionals_eq .., ?_⟩
  have ne : ∀ k ∈ condNames, ¬ n = k := fun k hk e => hn (e ▸ hk)
  rw [strip_values, if_neg]
  simp [removed, hn, ne _ h1, ne _ h2, ne _ h3, ne _ h4]

theorem ifRange_kept (h : Hdr) (pIms pIus pInm pIm : Bool) (nIms nIus nInm nIm : Str)
    (h1 : nIms ∈ condNames) (h2 : nIus ∈ condNames) (h3 : nInm ∈ condNames) (h4 : nIm ∈ condNames) :
    ∃ r, Rv.Generated.Src.stripRegularConditionals () h pIms pIus pInm pIm nIms nIus nInm nIm = some r ∧
      values r (s "If-Range") = values h (s "If-Range") :=
  other_fields_kept h pIms pIus pInm pIm nIms nIus nInm nIm h1 h2 h3 h4 _ (by decide)

/-! ### the revalidation request -/

/-- the two statements: `Set("If-None-Match", etag)` iff the stored ETag is non-empty, `Set("If-Modified-Since", …)`
    iff the stored Last-Modified is not the zero time; nothing else is touched; it cannot panic. -/
theorem revalidationHeaders_eq (hdr : Hdr) (etag : Str) (lmZero : Bool) (lmText : Str) :
    Rv.Generated.Src.revalidationHeaders hdr etag lmZero lmText =
      some (let h1 := if etag = [] then hdr else set hdr ifNoneMatch etag
            if lmZero then h1 else set h1 ifModifiedSince lmText) := by
  simp only [Rv.Generated.Src.revalidationHeaders, l_inm, l_ims, canon_inm, canon_ims]
  by_cases he : etag = [] <;> cases lmZero <;> simp [he]

/-- C06, second half, on the translated code: on a request whose client conditionals were stripped, the
    revalidation request carries If-None-Match exactly when a non-empty ETag was stored, and then THAT etag;
    If-Modified-Since exactly when a Last-Modified was stored, and then the stored date; If-Match and
    If-Unmodified-Since never. -/
theorem revalidation_validators (h : Hdr) (pIms pIus pInm pIm : Bool) (nIms nIus nInm nIm : Str)
    (etag : Str) (lmZero : Bool) (lmText : Str) :
    ∃ r up, Rv.Generated.Src.stripRegularConditionals () h pIms pIus pInm pIm nIms nIus nInm nIm = some r ∧
      Rv.Generated.Src.revalidationHeaders r etag lmZero lmText = some up ∧
      values up ifNoneMatch = (if etag = [] then [] else [etag]) ∧
      values up ifModifiedSince = (if lmZero then [] else [lmText]) ∧
      values up ifMatch = [] ∧ values up ifUnmodifiedSince = [] := by
  refine ⟨_, _, stripRegularConditionals_eq .., revalidationHeaders_eq .., ?_⟩
  have d1 : ifNoneMatch ≠ ifModifiedSince := by decide
  have d2 : ifNoneMatch ≠ ifMatch := by decide
  have d3 : ifNoneMatch ≠ ifUnmodifiedSince := by decide
  have d4 : ifModifiedSince ≠ ifMatch := by decide
  have d5 : ifModifiedSince ≠ ifUnmodifiedSince := by decide
  have m1 : ifNoneMatch ∈ condNames := by decide
  have m2 : ifModifiedSince ∈ condNames := by decide
  have m3 : ifMatch ∈ condNames := by decide
  have m4 : ifUnmodifiedSince ∈ condNames := by decide
  have r1 := strip_values h pIms pIus pInm pIm nIms nIus nInm nIm
  by_cases he : etag = [] <;> cases lmZero <;> simp only [he, if_true, if_false, values_set, r1, Bool.false_eq_true] <;>
    simp [removed, m1, m2, m3, m4, d1, d1.symm, d2, d3, d4, d5, d2.symm, d3.symm, d4.symm, d5.symm]

/-- … which is how the model builds the conditional request of `dedupFetchEnv` from the stored entry `e`:
    `inm := e.o.etag` ("" = absent), `ims := some l` iff `e.o.lm = .at l`. -/
theorem revalidation_matches_model (e : CEntry) (etag : Str) (lmZero : Bool)
    (he : (etag = []) ↔ e.o.etag = "") (hz : lmZero = (match e.o.lm with | .at _ => false | _ => true)) :
    ((if etag = [] then ([] : List Str) else [etag]) = [] ↔ e.o.etag = "") ∧
    (lmZero = false ↔ (match e.o.lm with | .at l => some l | _ => none).isSome = true) := by
  constructor
  · by_cases h : etag = [] <;> simp [h, ← he]
  · subst hz; cases e.o.lm <;> simp

example : Rv.Generated.Src.stripRegularConditionals () [(ifNoneMatch, s "\"x\""), (s "If-Range", s "\"y\""), (ifMatch, s "*"), (s "Accept", s "a")]
    true false false false ifModifiedSince ifUnmodifiedSince ifNoneMatch ifMatch =
    some [(s "If-Range", s "\"y\""), (s "Accept", s "a")] := by decide
example : Rv.Generated.Src.revalidationHeaders [(s "Accept", s "a")] (s "\"v1\"") true (s "") =
    some [(s "Accept", s "a"), (ifNoneMatch, s "\"v1\"")] := by decide

end Rv.Props.SrcConditionals
