import Rv.Model.Tunnel
import Rv.Generated.Shapes
import Rv.Lemmas.Headers
/-
  C10 — each exchange on a CONNECT tunnel is isolated and equals plain proxying.
-/
namespace Rv.Props.C10
open Rv Rv.Fetch Rv.Headers Rv.Tunnel

/-- the CURRENT source constructs the tunnel's responder inside the request loop. -/
theorem responder_per_request : Rv.Generated.tunnelResponder = "perRequest" := by decide

/-- with a responder per request, ANY sequence of requests (methods, ranges,
    hits, misses, errors) over one tunnel yields exactly the responses of plain
    proxying, whatever an earlier responder may have held. -/
theorem tunnel_eq_plain (cfg : Cfg) (tbl : Nat → Option ORes) (rs : Responder) (c : Cache) (now : Int) (reqs : List Req) :
    serve false cfg tbl rs c now reqs = servePlain cfg tbl c now reqs := by
  induction reqs generalizing rs c now with
  | nil => simp [serve, servePlain]
  | cons r rest ih =>
    simp only [serve, servePlain, Bool.false_eq_true, ↓reduceIte]
    congr 1
    exact ih _ _ _

/-- no leak: every header value of response i is one that response i itself
    set — nothing of earlier exchanges. -/
theorem no_leak (r : Resp) (name : Str) :
    values (respond [] r).2.headers name = values (hdrOps r) name := by
  simp only [respond]
  rw [Rv.Lemmas.Headers.setHeaders_values]
  split
  · rfl
  · rename_i h
    simp only [ne_eq, Decidable.not_not] at h
    rw [h]; rfl

/-- a shared responder DOES leak (this is what the fix removed): after a 206 the
    next plain 200 on the same tunnel still carries the Content-Range. -/
theorem shared_responder_leaks :
    ∃ r1 r2 : Resp, values (respond (respond [] r1).1 r2).2.headers (s "Content-Range") ≠
      values (respond [] r2).2.headers (s "Content-Range") := by
  refine ⟨{ status := 206, label := .none, body := .stored 1 0 5, contentRange := some (0, 4, 20) },
          { status := 200, label := .none, body := .stored 2 0 7 }, ?_⟩
  decide

end Rv.Props.C10
