import Rv.Model.Flight
import Rv.Generated.Shapes
import Rv.Lemmas.Flight
/-
  C05 — concurrent identical requests share one origin fetch; each gets a full answer.
-/
namespace Rv.Props.C05
open Rv.Flight

/-- the CURRENT source runs the shared fetch on a context detached from the
    leader's connection (extracted shape of dedupFetch). -/
theorem shared_fetch_detached : Rv.Generated.upstreamCtx = "detached" := by decide

def arrivals (cs : List Nat) : List Step := cs.map .arrive

/-- steps that callers and clients take on their own: acting on the result, hanging up. -/
def CallerSteps (steps : List Step) : Prop := ∀ s ∈ steps, (∃ c, s = .act c) ∨ (∃ c, s = .disconnect c)
def Disconnects (steps : List Step) : Prop := ∀ s ∈ steps, ∃ c, s = .disconnect c

/-- ONE origin fetch: any number of clients of a cold key that are all in flight
    before the leader's fetch returns, in any arrival order, with any of them
    (the leader included) hanging up at any point before or after, and every
    order of the callers' follow-up steps: the origin sees exactly one request
    and every answer delivered is the complete body of the version it served. -/
theorem single_fetch_cold (n v : Nat) (cs : List Nat) (pre tail : List Step)
    (hne : cs ≠ []) (hnd : cs.Nodup) (hpre : Disconnects pre) (htail : CallerSteps tail) :
    let st := run (arrivals cs ++ pre ++ [.leaderFetch, .publish] ++ tail) (init n none false v .cacheable true)
    st.originLog = 1 ∧ st.failed = [] ∧ ∀ c ver h, pcOf st c = .responded ver h → ver = v :=
  Rv.Lemmas.Flight.single_fetch_cold n v cs pre tail hne hnd hpre htail

/-- a single revalidation when the entry is stale. -/
theorem single_fetch_stale (n v0 v : Nat) (cs : List Nat) (pre tail : List Step)
    (hne : cs ≠ []) (hnd : cs.Nodup) (hpre : Disconnects pre) (htail : CallerSteps tail) :
    let st := run (arrivals cs ++ pre ++ [.leaderFetch, .publish] ++ tail) (init n (some v0) true v .cacheable true)
    st.originLog = 1 ∧ st.failed = [] ∧ ∀ c ver h, pcOf st c = .responded ver h → ver = v :=
  Rv.Lemmas.Flight.single_fetch_stale n v0 v cs pre tail hne hnd hpre htail

/-- no origin contact at all when the entry is fresh. -/
theorem no_fetch_fresh (n v0 v : Nat) (cs : List Nat) (pre tail : List Step) (k : OriginKind)
    (hne : cs ≠ []) (hnd : cs.Nodup) (hpre : Disconnects pre) (htail : CallerSteps tail) :
    let st := run (arrivals cs ++ pre ++ [.leaderFetch, .publish] ++ tail) (init n (some v0) false v k true)
    st.originLog = 0 ∧ st.failed = [] ∧ ∀ c ver h, pcOf st c = .responded ver h → ver = v0 :=
  Rv.Lemmas.Flight.no_fetch_fresh n v0 v cs pre tail k hne hnd hpre htail

/-! late arrivals: arrivals and hang-ups interleaved in any order before the leader's fetch returns -/

/-- what happens before the leader's fetch returns: clients arrive, clients hang up. -/
def ArriveOrDisconnect (steps : List Step) : Prop :=
  ∀ s ∈ steps, (∃ c, s = .arrive c) ∨ (∃ c, s = .disconnect c)

/-- some client really arrives during `pre`: an `arrive c` that no `disconnect c`
    precedes. (A client that hangs up while idle never arrives: `arrive` only
    moves an idle client. Client ids ≥ n are idle too and may arrive.) -/
def SomeoneArrives (pre : List Step) : Prop :=
  ∃ c pre1 pre2, pre = pre1 ++ .arrive c :: pre2 ∧ .disconnect c ∉ pre1

instance (s : Step) : Decidable (∃ c, s = .arrive c) :=
  match s with
  | .arrive c => isTrue ⟨c, rfl⟩
  | .leaderFetch | .publish | .act _ | .disconnect _ | .evict => isFalse (fun ⟨_, h⟩ => nomatch h)

instance (s : Step) : Decidable (∃ c, s = .disconnect c) :=
  match s with
  | .disconnect c => isTrue ⟨c, rfl⟩
  | .leaderFetch | .publish | .act _ | .arrive _ | .evict => isFalse (fun ⟨_, h⟩ => nomatch h)

instance (steps : List Step) : Decidable (ArriveOrDisconnect steps) :=
  inferInstanceAs (Decidable (∀ s ∈ steps, (∃ c, s = .arrive c) ∨ (∃ c, s = .disconnect c)))

/-- ONE origin fetch, late arrivals included: clients of a cold key arrive and
    hang up in ANY interleaving before the leader's fetch returns (a client may
    arrive after the leader has already hung up, repeated or ineffective
    arrivals allowed, no distinctness assumption), then the callers' follow-up
    steps in any order: the origin sees at most one request — exactly one iff
    somebody really arrived —, nobody fails, and every answer delivered is the
    complete body of the version the origin served. -/
theorem single_fetch_interleaved_cold (n v : Nat) (pre tail : List Step)
    (hpre : ArriveOrDisconnect pre) (htail : CallerSteps tail) :
    let st := run (pre ++ [.leaderFetch, .publish] ++ tail) (init n none false v .cacheable true)
    st.originLog ≤ 1 ∧ st.failed = [] ∧ (∀ c ver h, pcOf st c = .responded ver h → ver = v) ∧
      (st.originLog = 1 ↔ SomeoneArrives pre) :=
  Rv.Lemmas.Flight.single_fetch_interleaved_cold n v pre tail hpre htail

/-- the reading of the last conjunct asked for most often: the schedule starts with an arrival. -/
theorem single_fetch_interleaved_cold_first (n v c : Nat) (pre' tail : List Step)
    (hpre : ArriveOrDisconnect (.arrive c :: pre')) (htail : CallerSteps tail) :
    (run (.arrive c :: pre' ++ [.leaderFetch, .publish] ++ tail) (init n none false v .cacheable true)).originLog = 1 :=
  (single_fetch_interleaved_cold n v (.arrive c :: pre') tail hpre htail).2.2.2.2
    ⟨c, [], pre', rfl, List.not_mem_nil⟩

/-- a single revalidation when the entry is stale, late arrivals included. -/
theorem single_fetch_interleaved_stale (n v0 v : Nat) (pre tail : List Step)
    (hpre : ArriveOrDisconnect pre) (htail : CallerSteps tail) :
    let st := run (pre ++ [.leaderFetch, .publish] ++ tail) (init n (some v0) true v .cacheable true)
    st.originLog ≤ 1 ∧ st.failed = [] ∧ (∀ c ver h, pcOf st c = .responded ver h → ver = v) ∧
      (st.originLog = 1 ↔ SomeoneArrives pre) :=
  Rv.Lemmas.Flight.single_fetch_interleaved_stale n v0 v pre tail hpre htail

/-- no origin contact at all when the entry is fresh, late arrivals included. -/
theorem no_fetch_interleaved_fresh (n v0 v : Nat) (pre tail : List Step) (k : OriginKind)
    (hpre : ArriveOrDisconnect pre) (htail : CallerSteps tail) :
    let st := run (pre ++ [.leaderFetch, .publish] ++ tail) (init n (some v0) false v k true)
    st.originLog = 0 ∧ st.failed = [] ∧ ∀ c ver h, pcOf st c = .responded ver h → ver = v0 :=
  Rv.Lemmas.Flight.no_fetch_interleaved_fresh n v0 v pre tail k hpre htail

/-- a late arrival JOINS the call in flight: a client that arrives at any point
    before the leader's fetch returns — after any number of other arrivals and
    hang-ups, the leader's included — and does not hang up gets the complete
    body of the version the origin served when it acts on the returned result,
    and the origin has seen exactly one request. -/
theorem late_arrival_joins (n v c : Nat) (pre : List Step)
    (hpre : ArriveOrDisconnect pre) (harr : .arrive c ∈ pre) (hstay : .disconnect c ∉ pre) :
    let st := run (pre ++ [.leaderFetch, .publish, .act c]) (init n none false v .cacheable true)
    (∃ h, pcOf st c = .responded v h) ∧ st.originLog = 1 :=
  Rv.Lemmas.Flight.late_arrival_joins n v c pre hpre harr hstay

/-- … also when the other callers act or hang up, in any order, before it does. -/
theorem late_arrival_joins_then (n v c : Nat) (pre tail : List Step)
    (hpre : ArriveOrDisconnect pre) (harr : .arrive c ∈ pre) (hstay : .disconnect c ∉ pre)
    (htail : CallerSteps tail) (hstay' : .disconnect c ∉ tail) :
    let st := run (pre ++ [.leaderFetch, .publish] ++ tail ++ [.act c]) (init n none false v .cacheable true)
    (∃ h, pcOf st c = .responded v h) ∧ st.originLog = 1 ∧ st.failed = [] :=
  Rv.Lemmas.Flight.late_arrival_joins_then n v c pre tail hpre harr hstay htail hstay'

/-- … joins the single revalidation when the entry is stale. -/
theorem late_arrival_joins_stale (n v0 v c : Nat) (pre tail : List Step)
    (hpre : ArriveOrDisconnect pre) (harr : .arrive c ∈ pre) (hstay : .disconnect c ∉ pre)
    (htail : CallerSteps tail) (hstay' : .disconnect c ∉ tail) :
    let st := run (pre ++ [.leaderFetch, .publish] ++ tail ++ [.act c]) (init n (some v0) true v .cacheable true)
    (∃ h, pcOf st c = .responded v h) ∧ st.originLog = 1 ∧ st.failed = [] :=
  Rv.Lemmas.Flight.late_arrival_joins_stale n v0 v c pre tail hpre harr hstay htail hstay'

/-- … and is served the stored version without any origin contact when the entry is fresh. -/
theorem late_arrival_joins_fresh (n v0 v c : Nat) (k : OriginKind) (pre tail : List Step)
    (hpre : ArriveOrDisconnect pre) (harr : .arrive c ∈ pre) (hstay : .disconnect c ∉ pre)
    (htail : CallerSteps tail) (hstay' : .disconnect c ∉ tail) :
    let st := run (pre ++ [.leaderFetch, .publish] ++ tail ++ [.act c]) (init n (some v0) false v k true)
    (∃ h, pcOf st c = .responded v0 h) ∧ st.originLog = 0 ∧ st.failed = [] :=
  Rv.Lemmas.Flight.late_arrival_joins_fresh n v0 v c k pre tail hpre harr hstay htail hstay'

/-- EVERY schedule — arrivals at any time, evictions at any time (also between
    the shared call returning and a follower re-opening its entry), any client
    hanging up at any time, uncacheable answers and cache-side store failures
    included: nobody is answered with an error, and every answer is the complete
    body of a version the origin produced for this key. -/
theorem everyone_gets_a_full_answer (n : Nat) (entry : Option Nat) (stale : Bool) (v : Nat) (k : OriginKind) (steps : List Step) :
    let st := run steps (init n entry stale v k true)
    st.failed = [] ∧ ∀ c ver h, pcOf st c = .responded ver h → (ver = v ∨ entry = some ver) :=
  Rv.Lemmas.Flight.everyone_gets_a_full_answer n entry stale v k steps

/-- … and nobody is left waiting: from every reachable state, letting the
    leader's fetch finish, the call return and every caller act brings every
    client that arrived and has not hung up to a complete answer. -/
theorem nobody_left_waiting (n : Nat) (entry : Option Nat) (stale : Bool) (v : Nat) (k : OriginKind) (steps : List Step) :
    let st := run (steps ++ [.leaderFetch, .publish] ++ (List.range n).map .act) (init n entry stale v k true)
    ∀ c, c < n → (pcOf st c = .idle ∨ pcOf st c = .gone ∨ ∃ ver h, pcOf st c = .responded ver h) :=
  Rv.Lemmas.Flight.nobody_left_waiting n entry stale v k steps

/-- never a shared or partially consumed body: in every reachable state the
    data handles of the clients that were answered are pairwise distinct, and a
    caller of a shared result never reads through the leader's handle. -/
theorem no_shared_body (n : Nat) (entry : Option Nat) (stale : Bool) (v : Nat) (k : OriginKind) (d : Bool) (steps : List Step) :
    let st := run steps (init n entry stale v k d)
    ∀ c1 c2 v1 h1 v2 h2, c1 ≠ c2 → pcOf st c1 = .responded v1 h1 → pcOf st c2 = .responded v2 h2 → h1 ≠ h2 :=
  Rv.Lemmas.Flight.no_shared_body n entry stale v k d steps

/-- when the answer is not cacheable every caller fetches for itself: N + 1
    origin requests for N callers that all act, each with its own complete body. -/
theorem uncacheable_everyone_fetches (n v : Nat) (cs : List Nat) (k : OriginKind)
    (hne : cs ≠ []) (hnd : cs.Nodup) (hk : k ≠ .cacheable) :
    let st := run (arrivals cs ++ [.leaderFetch, .publish] ++ cs.map .act) (init n none false v k true)
    st.originLog = cs.length + 1 ∧ st.failed = [] ∧ ∀ c ∈ cs, ∃ h, pcOf st c = .responded v h :=
  Rv.Lemmas.Flight.uncacheable_everyone_fetches n v cs k hne hnd hk

/-- why the extracted fact matters: with the shared fetch tied to the leader's
    connection (the pre-fix code) a leader that hangs up fails every follower. -/
theorem attached_leader_disconnect_fails_followers :
    (run [.arrive 0, .arrive 1, .arrive 2, .disconnect 0, .leaderFetch, .publish] (init 3 none false 7 .cacheable false)).failed ≠ [] := by
  decide

example : (run [.arrive 0, .arrive 1, .arrive 2, .disconnect 0, .leaderFetch, .publish, .act 1, .evict, .act 2] (init 3 none false 7 .cacheable true)).originLog = 2 := by decide
example : pcOf (run [.arrive 0, .arrive 1, .leaderFetch, .publish, .act 0, .act 1] (init 2 none false 7 .cacheable true)) 1 = .responded 7 2 := by decide

/-! late arrival after the leader has hung up: client 2 (and client 5, an id ≥ n) arrive
    after leader 0 disconnected; the hypotheses of the theorems above hold and the
    origin is contacted once. -/
example : ArriveOrDisconnect [.arrive 0, .arrive 1, .disconnect 0, .arrive 2, .arrive 5] := by decide
example : SomeoneArrives [.arrive 0, .arrive 1, .disconnect 0, .arrive 2, .arrive 5] :=
  ⟨2, [.arrive 0, .arrive 1, .disconnect 0], [.arrive 5], rfl, by decide⟩
example : Step.arrive 2 ∈ [Step.arrive 0, .arrive 1, .disconnect 0, .arrive 2, .arrive 5] ∧
    Step.disconnect 2 ∉ [Step.arrive 0, .arrive 1, .disconnect 0, .arrive 2, .arrive 5] := by decide
example : (run ([.arrive 0, .arrive 1, .disconnect 0, .arrive 2, .arrive 5] ++ [.leaderFetch, .publish, .act 2])
    (init 3 none false 7 .cacheable true)).originLog = 1 := by decide
example : pcOf (run ([.arrive 0, .arrive 1, .disconnect 0, .arrive 2, .arrive 5] ++ [.leaderFetch, .publish, .act 2])
    (init 3 none false 7 .cacheable true)) 2 = .responded 7 1 := by decide
example : (run ([.arrive 0, .arrive 1, .disconnect 0, .arrive 2, .arrive 5] ++ [.leaderFetch, .publish] ++ [.act 1, .act 5, .disconnect 1] ++ [.act 2])
    (init 3 none false 7 .cacheable true)).originLog = 1 := by decide
/-- the sole caller hangs up, a late arrival joins the call it left behind. -/
example : ArriveOrDisconnect [.arrive 0, .disconnect 0, .arrive 1] ∧
    (run ([.arrive 0, .disconnect 0, .arrive 1] ++ [.leaderFetch, .publish, .act 1]) (init 2 none false 7 .cacheable true)).originLog = 1 ∧
    ∃ h, pcOf (run ([.arrive 0, .disconnect 0, .arrive 1] ++ [.leaderFetch, .publish, .act 1]) (init 2 none false 7 .cacheable true)) 1 = .responded 7 h :=
  ⟨by decide, by decide, 1, by decide⟩
/-- why `SomeoneArrives` and not just "`pre` contains an `arrive`": a client that
    hangs up while idle and then "arrives" does not arrive; no call, no fetch. -/
example : ArriveOrDisconnect [.disconnect 0, .arrive 0] ∧
    (run ([.disconnect 0, .arrive 0] ++ [.leaderFetch, .publish, .act 0]) (init 1 none false 7 .cacheable true)).originLog = 0 := by decide

end Rv.Props.C05
