import Rv.Model.Auth
import Rv.Spec.Session
import Rv.Generated.Routes
import Rv.Lemmas.Auth
/-
  C20 — the dashboard API needs a live session obtained with the right password.
-/
namespace Rv.Props.C20
open Rv.Auth Rv.Spec.Session Rv.Generated

/-! ### over the route table extracted from the CURRENT source -/

/-- every route of every endpoint type except POST /auth/login requires
    authentication (an unreadable flag counts as a failure). -/
theorem all_routes_guarded :
    routes.all (fun r => (r.path == "/auth/login" && r.method == "POST") || r.requiresAuth == some true) = true := by
  decide

/-- the login route exists, is the only open one, and nothing is unreadable. -/
theorem login_open_and_table_readable :
    routes.any (fun r => r.path == "/auth/login" && r.method == "POST" && r.requiresAuth == some false) = true ∧
    routes.all (fun r => r.method != "unknown" && r.path != "unknown" && r.requiresAuth.isSome) = true := by
  decide

/-- every endpoint type declared under webserver/api is registered in api.New
    and vice versa (no handler escapes the wrapper, none is forgotten). -/
theorem registered_eq_declared :
    declaredEndpointTypes.all (fun t => registeredEndpointTypes.contains t) = true ∧
    registeredEndpointTypes.all (fun t => declaredEndpointTypes.contains t) = true := by
  decide

/-- EnsureAllowed has the shape the model of `wrap` assumes. -/
theorem ensure_allowed_shape : ensureAllowedShape = "flagThenSession" := by decide

/-! ### over the model, for all states, cookies, histories and time gaps -/

/-- a guarded route reaches its handler only with the cookie of a session that is
    in the table and not expired; otherwise 401. -/
theorem guarded_needs_live_session (c : Cfg) (st : St) (ck : Cookie) (u : Option Nat)
    (h : (wrap c st true ck).2 = .reached u) :
    ∃ sid s, ck = some sid ∧ find st sid = some s ∧ s.expiresAt > st.now ∧ u = some s.user :=
  Rv.Lemmas.Auth.guarded_needs_live_session c st ck u h

/-- a refused request has no effect beyond forgetting the expired session it named. -/
theorem unauthorized_has_no_effect (c : Cfg) (st : St) (ck : Cookie)
    (h : (wrap c st true ck).2 = .unauthorized) :
    (wrap c st true ck).1 = st ∨ ∃ sid, ck = some sid ∧ (wrap c st true ck).1 = remove st sid :=
  Rv.Lemmas.Auth.unauthorized_has_no_effect c st ck h

/-- Refinement to the history-only reference: after ANY history of logins
    (right / wrong password, unknown user, with or without cookie), logouts,
    requests of any kind, clock advances by any amount and GC passes, a guarded
    request with cookie `sid` is served iff `sid` is live in the reference —
    issued by a successful login, not logged out since, not expired (an expired
    session is refused, never revived). -/
theorem session_live_exactly (c : Cfg) (hl : 0 < c.lifetime) (ht : 0 ≤ c.threshold) (ops : List Op) (sid : Nat) :
    ((wrap c (run c ops init) true (some sid)).2 ≠ .unauthorized) ↔
      (Abs.run c ops Abs.init).live sid = true :=
  Rv.Lemmas.Auth.session_live_exactly c hl ht ops sid

/-- in the reference a session that has ended stays ended: liveness can only be
    (re)gained by the login that issues the id, and ids are never reused. -/
theorem ended_stays_ended (c : Cfg) (hl : 0 < c.lifetime) (ht : 0 ≤ c.threshold) (ops later : List Op) (sid : Nat)
    (hissued : sid < (Abs.run c ops Abs.init).nextSid)
    (hdead : (Abs.run c ops Abs.init).live sid = false) :
    (Abs.run c (ops ++ later) Abs.init).live sid = false :=
  Rv.Lemmas.Auth.ended_stays_ended c hl ht ops later sid hissued hdead

/-- a cookie value that was never issued is refused. -/
theorem unknown_cookie_refused (c : Cfg) (ops : List Op) (sid : Nat)
    (h : (run c ops init).nextSid ≤ sid) :
    (wrap c (run c ops init) true (some sid)).2 = .unauthorized :=
  Rv.Lemmas.Auth.unknown_cookie_refused c ops sid h

/-- a session is created only by a login whose user exists and whose password
    verifies against the stored hash. -/
theorem login_only_with_verifying_password (c : Cfg) (st : St) (ck : Cookie) (ue v : Bool) (u sid : Nat)
    (h : (login c st ck ue v u).2 = .created sid) : ue = true ∧ v = true :=
  Rv.Lemmas.Auth.login_only_with_verifying_password c st ck ue v u sid h

/-- no other operation adds a session to the table. -/
theorem only_login_adds_sessions (c : Cfg) (st : St) (op : Op) (s : Session)
    (hs : s.sid ∈ (step c st op).sessions.map (·.sid)) (hn : s.sid ∉ st.sessions.map (·.sid)) :
    ∃ ck u, op = .login ck true true u :=
  Rv.Lemmas.Auth.only_login_adds_sessions c st op s hs hn

/-- cross-site requests and CORS pre-flights are refused before any handler. -/
theorem cross_site_refused (c : Cfg) (st : St) (ra : Bool) (m origin site : String) (ck : Cookie)
    (h : (origin ≠ "" ∧ site ≠ "" ∧ site ≠ "same-origin" ∧ site ≠ "same-site") ∨ (m = "OPTIONS" ∧ origin ≠ "")) :
    request c st ra m origin site ck = (st, .forbidden) :=
  Rv.Lemmas.Auth.cross_site_refused c st ra m origin site ck h

/-! non-vacuity -/
def cfg1h : Cfg := { lifetime := 3600000, threshold := 600000 }
example : (wrap cfg1h (run cfg1h [.login none true true 7] init) true (some 0)).2 = .reached (some 7) := by decide
example : (wrap cfg1h (run cfg1h [.login none true true 7, .shift 3660000] init) true (some 0)).2 = .unauthorized := by decide
example : (wrap cfg1h (run cfg1h [.login none true true 7, .shift 3660000, .request true "GET" "" "" (some 0)] init) true (some 0)).2 = .unauthorized := by decide
example : (wrap cfg1h (run cfg1h [.login none true true 7, .shift 3300000, .request true "GET" "" "" (some 0), .shift 3300000] init) true (some 0)).2 = .reached (some 7) := by decide

end Rv.Props.C20
