import Rv.Model.Config
import Rv.Generated.Shapes
import Rv.Lemmas.Config
/-
  C18 — only workable configurations are accepted; a rejected update changes nothing.
-/
namespace Rv.Props.C18
open Rv.Config

/-- the CURRENT source notifies listeners after the commit, not at Stage, and
    replaces the config file atomically (extracted shapes). -/
theorem update_shape :
    Rv.Generated.stageNotification = "noFireAtStage" ∧ Rv.Generated.persistShape = "tempThenRename" := by decide

/-- accepted ⇒ workable: every configuration that passes `verify()` lets a cache
    and proxy be constructed and serve (shard count ≥ 1, positive interval and
    size, budget in 0..100, a known cache type, non-empty directory and listen
    address). -/
theorem accepted_is_workable (cfg : Cfg) (ht : WellTyped cfg) (h : verify cfg = true) : workable cfg :=
  Rv.Lemmas.Config.accepted_is_workable cfg ht h

/-- FULL STRENGTH: whatever makes an update fail — an ill-typed value anywhere in
    the document (in any position, whatever order the keys are walked in), a
    value or combination that fails verification, or the file write failing —
    the running settings (effective values of ALL cells, overrides included),
    the file on disk, the restart flag are exactly as before and no listener is
    told anything. -/
theorem rejected_changes_nothing (st : State) (doc : List Entry) (persistOk : Bool)
    (h : (update st doc persistOk).2.1 = .failed) :
    (update st doc persistOk).1 = st ∧ (update st doc persistOk).2.2 = [] :=
  Rv.Lemmas.Config.rejected_changes_nothing st doc persistOk h

/-- an update fails exactly for those three reasons. -/
theorem fails_iff (st : State) (doc : List Entry) (persistOk : Bool) :
    (update st doc persistOk).2.1 = .failed ↔
      (hasIllTyped st.cfg doc = true ∨ verify (applyAll st.cfg (addressed st.cfg doc)) = false ∨ persistOk = false) :=
  Rv.Lemmas.Config.fails_iff st doc persistOk

/-- the order in which the document's keys are walked does not matter for
    rejection (Go iterates the map in arbitrary order). -/
theorem rejection_order_independent (st : State) (doc doc' : List Entry) (persistOk : Bool) (hp : doc.Perm doc')
    (h : hasIllTyped st.cfg doc = true) : (update st doc' persistOk) = (st, .failed, []) :=
  Rv.Lemmas.Config.rejection_order_independent st doc doc' persistOk hp h

/-- an accepted update changes exactly the addressed settings: an unaddressed
    cell is untouched, overrides are never touched, the file holds the new base
    values (what the next start loads), and the accepted configuration verifies. -/
theorem accepted_changes_exactly (st : State) (doc : List Entry) (persistOk : Bool)
    (h : (update st doc persistOk).2.1 ≠ .failed) :
    let st' := (update st doc persistOk).1
    (∀ c ∈ st.cfg, (∀ s ∈ addressed st.cfg doc, s.1 ≠ c.name) → c ∈ st'.cfg) ∧
    st'.cfg.map (·.override) = st.cfg.map (·.override) ∧
    st'.cfg.map (·.name) = st.cfg.map (·.name) ∧
    st'.file = serialize st'.cfg ∧ verify st'.cfg = true :=
  Rv.Lemmas.Config.accepted_changes_exactly st doc persistOk h

/-- a single addressed setting gets the submitted value as its base value. -/
theorem accepted_sets_value (st : State) (name : String) (v : Val) (persistOk : Bool)
    (hk : known st.cfg name = true)
    (h : (update st [.set name v] persistOk).2.1 ≠ .failed) :
    baseOf (update st [.set name v] persistOk).1.cfg name = some v :=
  Rv.Lemmas.Config.accepted_sets_value st name v persistOk hk h

end Rv.Props.C18
