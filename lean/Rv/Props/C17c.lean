import Rv.Model.Duration
import Rv.Lemmas.Duration
/-
  C17 (third part) — "durations and log levels are written in a form that reads
  back to the identical value".

  The configuration file stores a `duration.Duration` as the JSON string
  `time.Duration.String()` and reads it with `time.ParseDuration`
  (utils/duration/duration.go); a `slog.Level` as `Level.String()` and reads it
  with `Level.UnmarshalJSON`. `Rv.Model.Duration` models the four standard-
  library functions branch by branch (including the float64 arithmetic
  `ParseDuration` performs on fractions, as a software binary64); the `durlevel`
  family compares them with the real Go functions, called through the
  repository's own JSON wrappers, on every run.
-/
namespace Rv.Props.C17c
open Rv Rv.Duration

/-- EVERY int64 duration is printed in a form that parses back to itself. -/
theorem duration_reads_back (d : Int) (h1 : -(2 ^ 63 : Int) ≤ d) (h2 : d < 2 ^ 63) :
    parseDuration (durString d) = some d :=
  Rv.Lemmas.Duration.duration_round_trip d h1 h2

/-- EVERY log level (any Go `int`) is printed in a form that parses back to itself. -/
theorem level_reads_back (l : Int) (h1 : -(2 ^ 63 : Int) ≤ l) (h2 : l < 2 ^ 63) :
    parseLevel (levelString l) = some l :=
  Rv.Lemmas.Duration.level_round_trip64 l h1 h2

/-- consequently two different durations are never saved as the same text. -/
theorem durString_injective (a b : Int) (ha1 : -(2 ^ 63 : Int) ≤ a) (ha2 : a < 2 ^ 63)
    (hb1 : -(2 ^ 63 : Int) ≤ b) (hb2 : b < 2 ^ 63) (h : durString a = durString b) : a = b := by
  have := duration_reads_back a ha1 ha2
  rw [h, duration_reads_back b hb1 hb2] at this
  exact (Option.some.inj this).symm

example : durString 5400000000000 = s "1h30m0s" := by decide
example : parseDuration (s "1h30m0s") = some 5400000000000 := by decide
example : levelString (-3) = s "DEBUG+1" := by decide
example : parseLevel (s "DEBUG+1") = some (-3) := by decide

end Rv.Props.C17c
