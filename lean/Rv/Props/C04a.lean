import Rv.Model.CacheControl
import Rv.Spec.Freshness
import Rv.Lemmas.CacheControl
/-
  C04 / C03 at the level of the storability and lifetime decision
  (ParseHeaderDirective + ShouldCache + GetExpiresOrDefault), for every set of
  Cache-Control lines (any case, order, repetition), every Expires form and
  every policy combination.  The request-level statements ("only 200 answers to
  GET", "origin contacted after expiry") are in C03.lean / C04.lean over the
  Fetch model and use these as lemmas.
-/
namespace Rv.Props.C04a
open Rv Rv.CacheControl Rv.Spec.Freshness

/-- (`0 ≤ now`: instants of the Unix era — before year 1 the zero instant that
    stands for an unparseable Expires would not be in the past.)
    Stored ⇒ (unless directives are ignored) the origin did not mark it
    no-store / no-cache / private / max-age<1 / malformed max-age, and either a
    positive max-age is present or there is no Cache-Control at all and Expires
    is neither unparseable nor in the past. -/
theorem stored_only_if (lines : List Str) (e : ExpiresHdr) (range : Bool) (now : Int)
    (hn : 0 ≤ now) (h : shouldCache (parseDirectives lines e range) false now = true) :
    forbids (tokens lines) = false ∧
    (lines ≠ [] → positiveMaxAges (tokens lines) ≠ []) ∧
    (positiveMaxAges (tokens lines) = [] → e ≠ .bad ∧ ∀ t, e = .at t → ¬ t < now) :=
  Rv.Lemmas.CacheControl.stored_only_if lines e range now hn h

/-- a positive max-age (any casing, any line, any representable value) and no
    forbidding directive ⇒ stored, whatever Expires says. -/
theorem stored_if_max_age (lines : List Str) (e : ExpiresHdr) (now : Int)
    (hf : forbids (tokens lines) = false) (hp : positiveMaxAges (tokens lines) ≠ []) :
    shouldCache (parseDirectives lines e false) false now = true :=
  Rv.Lemmas.CacheControl.stored_if_max_age lines e now hf hp

/-- no Cache-Control and no past / unparseable Expires ⇒ stored. -/
theorem stored_if_plain (e : ExpiresHdr) (now : Int)
    (he : e = .absent ∨ ∃ t, e = .at t ∧ now ≤ t) :
    shouldCache (parseDirectives [] e false) false now = true :=
  Rv.Lemmas.CacheControl.stored_if_plain e now he

/-- with origin directives ignored every response is storable. -/
theorem ignore_stores_all (lines : List Str) (e : ExpiresHdr) (now : Int) :
    shouldCache (parseDirectives lines e false) true now = true :=
  Rv.Lemmas.CacheControl.ignore_stores_all lines e now

/-- C03 lifetime rule: the expiry instant recorded with a stored response is
    force-default > last positive max-age (clamped to the representable maximum)
    > Expires (unparseable counts as the zero instant, i.e. already expired) >
    default — provided no max-age token is malformed (then nothing is stored
    unless directives are ignored). -/
theorem lifetime_rule (lines : List Str) (e : ExpiresHdr) (range force : Bool) (dflt now : Int)
    (hv : ∀ t ∈ tokens lines, maxAgeOf t ≠ some none) :
    expiresOrDefault (parseDirectives lines e range) force dflt now =
      expiryInstant lines e force dflt now :=
  Rv.Lemmas.CacheControl.lifetime_rule lines e range force dflt now hv

/-- an unparseable Expires is in the past of every instant of the Unix era. -/
theorem bad_expires_is_expired (now : Int) (h : 0 ≤ now) : zeroTime < now := by
  unfold zeroTime second; omega

/-- the nanosecond conversion cannot overflow an int64 (the Go expression
    `time.Duration(maxAge) * time.Second` is exact after the clamp). -/
theorem max_age_in_int64 (h : Str) (cc : CC) (hp : parseCacheControl h = some cc) :
    0 ≤ cc.maxAge ∧ cc.maxAge ≤ 9223372036854775807 :=
  Rv.Lemmas.CacheControl.max_age_in_int64 h cc hp

example : shouldCache (parseDirectives [s "private, max-age=60"] .absent false) false 0 = false := by decide
example : shouldCache (parseDirectives [s "No-Store", s "max-age=60"] .absent false) false 0 = false := by decide
example : shouldCache (parseDirectives [s "no-store, max-age=abc"] .absent false) false 0 = false := by decide
example : shouldCache (parseDirectives [s "MAX-AGE=60"] .absent false) false 0 = true := by decide
example : shouldCache (parseDirectives [s "max-age=9223372037"] .absent false) false 0 = true := by decide
example : shouldCache (parseDirectives [] .bad false) false 0 = false := by decide
example : forbids (tokens [s "max-age=60"]) = false ∧ positiveMaxAges (tokens [s "max-age=60"]) = [60] := by decide

end Rv.Props.C04a
