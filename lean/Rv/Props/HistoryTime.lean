import Rv.Model.History
import Rv.Lemmas.HistoryTime
import Rv.Props.History
/-
  C03 over whole histories ("a stored response is reused without contacting
  the origin only while it is fresh; expiry forces an origin contact"),
  quantified over EVERY configuration and EVERY history from
  `Rv.History.init`: requests (with or without a mid-flight drop of their
  entry), arbitrary time gaps (`elapse` amounts are naturals: the clock never
  goes back), the origin's records changing or disappearing, the environment
  dropping entries.

  As in `Rv.Props.History`, "at the time of that request" is a prefix:
  `step cfg (run cfg pre init).1 (.request r d)` is the request `r` made in the
  world the history `pre` leads to, and `(run cfg pre init).1.now` is the clock
  at that moment.  All proofs are in `Rv.Lemmas.HistoryTime`.
-/
namespace Rv.Props.HistoryTime
open Rv Rv.Fetch Rv.History
open Rv.Lemmas.History Rv.Lemmas.HistoryTime

/-- the stored `Last-Modified` as a conditional request carries it. -/
abbrev lmOf (e : CEntry) : Option Int := Rv.Props.History.lmOf e

/-! ### (T1) the clock -/

/-- the clock of a history never goes back: the time after a prefix is at most
    the time after the whole history (and it starts at 0, so it is never
    negative). -/
theorem time_is_monotone (cfg : Cfg) (pre post : List HOp) :
    (run cfg pre init).1.now ≤ (run cfg (pre ++ post) init).1.now ∧ 0 ≤ (run cfg pre init).1.now := by
  rw [run_append_fst]
  exact ⟨run_now_le cfg post _, run_now_le cfg pre init⟩

/-- the clock is never negative. -/
theorem time_is_nonnegative (cfg : Cfg) (ops : List HOp) : 0 ≤ (run cfg ops init).1.now :=
  run_now_le cfg ops init

/-- exactly: the clock is the sum of the `elapse` amounts of the history —
    requests, origin changes and drops take no model time. -/
theorem time_is_the_elapsed_time (cfg : Cfg) (ops : List HOp) :
    (run cfg ops init).1.now = (elapsed ops : Nat) := by
  rw [run_now]
  show (0 : Int) + _ = _
  omega

/-! ### (T2) when entries were written -/

/-- every entry of every reachable world was written at a moment of the
    history: `0 ≤ e.timeWritten ≤ now` (no entry "from the future"; hence
    `currentAge`'s resident time `now - e.timeWritten` is never negative). -/
theorem entries_written_in_the_past (cfg : Cfg) (ops : List HOp) (e : CEntry)
    (he : e ∈ (run cfg ops init).1.cache) :
    0 ≤ e.timeWritten ∧ e.timeWritten ≤ (run cfg ops init).1.now :=
  let h := (run_tinv cfg ops init (tinv_init cfg)).timed e he
  ⟨h.1, h.2.1⟩

/-- and at that moment its record was storable (`shouldResponseBeCached` said
    yes to a 200 answer to a GET): nothing unstorable is ever in the store. -/
theorem entries_were_storable_when_written (cfg : Cfg) (ops : List HOp) (e : CEntry)
    (he : e ∈ (run cfg ops init).1.cache) : storable cfg e.o "GET" e.timeWritten = true :=
  ((run_tinv cfg ops init (tinv_init cfg)).timed e he).2.2.1

/-! ### (T3) where a lifetime comes from -/

/-- the sharp form: the `expires` of every entry of every reachable world is
    EITHER the lifetime `GetExpiresOrDefault` computed from the stored record
    at the very moment the entry was written (the storing 200; no revalidation
    since), OR `defaultMaxAge` after a moment `t` of the history, not before
    the write and not after now, at which a 304 renewed it.  A lifetime is
    never invented and never extended without an origin answer for that key. -/
theorem lifetime_is_from_the_store_or_a_revalidation (cfg : Cfg) (ops : List HOp) (e : CEntry)
    (he : e ∈ (run cfg ops init).1.cache) :
    e.expires = lifetimeEnd cfg e.o e.timeWritten ∨
    ∃ t, e.timeWritten ≤ t ∧ t ≤ (run cfg ops init).1.now ∧ e.expires = t + cfg.defaultMaxAge :=
  ((run_tinv cfg ops init (tinv_init cfg)).timed e he).2.2.2

/-- the form of the task: the lifetime was computed at a moment `t` of the
    history (`0 ≤ t ≤ now`) at which the origin answered for this key — the
    store of the 200 (then `t` is `e.timeWritten`) or a 304 revalidation. -/
theorem lifetime_counts_from_an_origin_contact (cfg : Cfg) (ops : List HOp) (e : CEntry)
    (he : e ∈ (run cfg ops init).1.cache) :
    ∃ t, 0 ≤ t ∧ t ≤ (run cfg ops init).1.now ∧
      (e.expires = lifetimeEnd cfg e.o t ∨ e.expires = t + cfg.defaultMaxAge) := by
  obtain ⟨h0, h1, _, h3 | ⟨t, ht1, ht2, ht3⟩⟩ := (run_tinv cfg ops init (tinv_init cfg)).timed e he
  · exact ⟨e.timeWritten, h0, h1, Or.inl h3⟩
  · exact ⟨t, Int.le_trans h0 ht1, ht2, Or.inr ht3⟩

/-! ### (T4) a hit needs a fresh entry -/

/-- C03, first half, per request of any history: a response labelled `hit` was
    produced WITHOUT contacting the origin (`log = []`), the store is left
    untouched, and the key held an entry `e` that had NOT expired at that
    moment; the response is that entry: its headers, its whole body, status
    200, `Age` computed from it.  (A `hit` only ever answers a GET whose Range
    header is absent or does not parse — the conclusion `r.method = "GET"` and
    the unconditional body clause say so; the body clause the task asked for
    "for a GET without Range" is this one.) -/
theorem hit_only_while_fresh (cfg : Cfg) (pre : List HOp) (r : Req) (d : Bool)
    (w' : World) (resp : Resp) (log : List UpReq)
    (hs : step cfg (run cfg pre init).1 (.request r d) = (w', some (r, resp, log)))
    (hh : resp.label = .hit) :
    log = [] ∧ w'.cache = (run cfg pre init).1.cache ∧
    ∃ e, lookup (run cfg pre init).1.cache r.res r.query = some e ∧
      ¬ (e.expires < (run cfg pre init).1.now) ∧
      r.method = "GET" ∧ resp.status = 200 ∧ resp.hdrFrom = some e.o ∧
      resp.body = .stored e.o.ver 0 e.o.size ∧
      resp.age = some (currentAge e (run cfg pre init).1.now) := by
  obtain ⟨hc, rfl, rfl⟩ := step_request_eq hs
  obtain ⟨e, hm, hl, hf, heq⟩ := request_hit cfg _ r d hh
  rw [hc, heq]
  exact ⟨rfl, rfl, e, hl, hf, hm, rfl, rfl, fullFromCache_get_body e .hit 0 _ hm, rfl⟩

/-- the same for the exchanges of a history. -/
theorem hits_in_a_history_are_fresh (cfg : Cfg) (ops : List HOp) (r : Req) (resp : Resp) (log : List UpReq)
    (hx : (r, resp, log) ∈ (run cfg ops init).2) (hh : resp.label = .hit) :
    log = [] ∧ ∃ pre d post, ops = pre ++ .request r d :: post ∧
      ∃ e, lookup (run cfg pre init).1.cache r.res r.query = some e ∧
        ¬ (e.expires < (run cfg pre init).1.now) ∧ resp.hdrFrom = some e.o ∧
        resp.body = .stored e.o.ver 0 e.o.size := by
  obtain ⟨pre, r', d, post, h1, h2, h3⟩ := Rv.Props.History.every_exchange_is_a_step cfg ops _ hx
  cases h3
  obtain ⟨g1, _, e, g2, g3, _, _, g4, g5, _⟩ := hit_only_while_fresh cfg pre r d _ resp log h2 hh
  exact ⟨g1, pre, d, post, h1, e, g2, g3, g4, g5⟩

/-- conversely, while the entry is fresh a plain GET IS answered from it,
    silently: label `hit`, no upstream request. -/
theorem fresh_entry_is_reused (cfg : Cfg) (pre : List HOp) (r : Req) (d : Bool)
    (w' : World) (resp : Resp) (log : List UpReq)
    (hs : step cfg (run cfg pre init).1 (.request r d) = (w', some (r, resp, log)))
    (hm : r.method = "GET") (hr : r.range = none) (e : CEntry)
    (he : lookup (run cfg pre init).1.cache r.res r.query = some e)
    (hf : ¬ (e.expires < (run cfg pre init).1.now)) :
    resp.label = .hit ∧ log = [] ∧ resp.body = .stored e.o.ver 0 e.o.size := by
  obtain ⟨_, rfl, rfl⟩ := step_request_eq hs
  rw [request_fresh cfg _ r d e hm hr he hf]
  exact ⟨rfl, rfl, fullFromCache_get_body e .hit 0 _ hm⟩

/-! ### (T5) expiry forces an origin contact -/

/-- C03, second half (with C06's "built from the stored validators"), per
    request of any history: a plain GET (no Range) for a key whose entry `e`
    HAS expired contacts the origin, and the first upstream request is the
    conditional one carrying `e`'s validators; the response is not a `hit` —
    whatever happens to the entry while the origin answers (`d`). -/
theorem stale_forces_origin_contact (cfg : Cfg) (pre : List HOp) (r : Req) (d : Bool)
    (w' : World) (resp : Resp) (log : List UpReq)
    (hs : step cfg (run cfg pre init).1 (.request r d) = (w', some (r, resp, log)))
    (hm : r.method = "GET") (hr : r.range = none) (e : CEntry)
    (he : lookup (run cfg pre init).1.cache r.res r.query = some e)
    (hx : e.expires < (run cfg pre init).1.now) :
    log ≠ [] ∧ resp.label ≠ .hit ∧
    ∃ rest, log =
      { res := r.res, method := "GET", query := r.query, inm := e.o.etag, ims := lmOf e, range := none } :: rest := by
  obtain ⟨_, rfl, rfl⟩ := step_request_eq hs
  obtain ⟨⟨rest, h1⟩, h2⟩ := request_stale cfg _ r d e hm hr he hx
  exact ⟨by rw [h1]; exact List.cons_ne_nil _ _, h2, rest, h1⟩

/-- likewise a plain GET for a key with NO entry contacts the origin — with an
    unconditional request (there are no stored validators to send). -/
theorem absent_forces_origin_contact (cfg : Cfg) (pre : List HOp) (r : Req) (d : Bool)
    (w' : World) (resp : Resp) (log : List UpReq)
    (hs : step cfg (run cfg pre init).1 (.request r d) = (w', some (r, resp, log)))
    (hm : r.method = "GET") (hr : r.range = none)
    (hn : lookup (run cfg pre init).1.cache r.res r.query = none) :
    log ≠ [] ∧ resp.label ≠ .hit ∧
    ∃ rest, log = { res := r.res, method := "GET", query := r.query, inm := "", ims := none, range := none } :: rest := by
  obtain ⟨_, rfl, rfl⟩ := step_request_eq hs
  obtain ⟨⟨rest, h1⟩, h2⟩ := request_noentry cfg _ r d hm hr hn
  exact ⟨by rw [h1]; exact List.cons_ne_nil _ _, h2, rest, h1⟩

/-- T4 + T5 in one line, for plain GETs: the origin is NOT contacted exactly
    when the key holds an entry that has not expired. -/
theorem origin_skipped_iff_fresh (cfg : Cfg) (pre : List HOp) (r : Req) (d : Bool)
    (w' : World) (resp : Resp) (log : List UpReq)
    (hs : step cfg (run cfg pre init).1 (.request r d) = (w', some (r, resp, log)))
    (hm : r.method = "GET") (hr : r.range = none) :
    log = [] ↔ ∃ e, lookup (run cfg pre init).1.cache r.res r.query = some e ∧
      ¬ (e.expires < (run cfg pre init).1.now) := by
  constructor
  · intro hl
    cases hlk : lookup (run cfg pre init).1.cache r.res r.query with
    | none => exact absurd hl (absent_forces_origin_contact cfg pre r d w' resp log hs hm hr hlk).1
    | some e =>
      refine ⟨e, rfl, fun hx => ?_⟩
      exact absurd hl (stale_forces_origin_contact cfg pre r d w' resp log hs hm hr e hlk hx).1
  · rintro ⟨e, he, hf⟩
    exact (fresh_entry_is_reused cfg pre r d w' resp log hs hm hr e he hf).2.1

/-! ### (T6) how long silence can last -/

/-- C03 as one bound (T3 + T4): whenever a response is a `hit`, the entry it
    was built from satisfies `now ≤ e.expires`, and `e.expires` is the
    lifetime computed at an earlier moment `t ≤ now` of the history at which
    the origin answered for this key — `lifetimeEnd cfg e.o t` (the storing
    200) or `t + cfg.defaultMaxAge` (a 304).  So the origin is never left
    uncontacted beyond the lifetime its last answer earned. -/
theorem silent_reuse_is_bounded (cfg : Cfg) (pre : List HOp) (r : Req) (d : Bool)
    (w' : World) (resp : Resp) (log : List UpReq)
    (hs : step cfg (run cfg pre init).1 (.request r d) = (w', some (r, resp, log)))
    (hh : resp.label = .hit) :
    ∃ e t, lookup (run cfg pre init).1.cache r.res r.query = some e ∧ resp.hdrFrom = some e.o ∧
      0 ≤ t ∧ t ≤ (run cfg pre init).1.now ∧ (run cfg pre init).1.now ≤ e.expires ∧
      (e.expires = lifetimeEnd cfg e.o t ∨ e.expires = t + cfg.defaultMaxAge) := by
  obtain ⟨_, _, e, he, hf, _, _, hh', _, _⟩ := hit_only_while_fresh cfg pre r d w' resp log hs hh
  obtain ⟨t, h0, h1, h2⟩ :=
    lifetime_counts_from_an_origin_contact cfg pre e (Rv.Lemmas.FetchB.lookup_some he).1
  exact ⟨e, t, he, hh', h0, h1, Int.not_lt.1 hf, h2⟩

/-- the sharp form: a `hit` happens within the lifetime computed when the
    entry was written, or at most `defaultMaxAge` after a 304 that came after
    the write. -/
theorem silent_reuse_is_bounded_sharp (cfg : Cfg) (pre : List HOp) (r : Req) (d : Bool)
    (w' : World) (resp : Resp) (log : List UpReq)
    (hs : step cfg (run cfg pre init).1 (.request r d) = (w', some (r, resp, log)))
    (hh : resp.label = .hit) :
    ∃ e, lookup (run cfg pre init).1.cache r.res r.query = some e ∧ resp.hdrFrom = some e.o ∧
      e.timeWritten ≤ (run cfg pre init).1.now ∧
      ((run cfg pre init).1.now ≤ lifetimeEnd cfg e.o e.timeWritten ∨
        ∃ t, e.timeWritten ≤ t ∧ t ≤ (run cfg pre init).1.now ∧
          (run cfg pre init).1.now - t ≤ cfg.defaultMaxAge) := by
  obtain ⟨_, _, e, he, hf, _, _, hh', _, _⟩ := hit_only_while_fresh cfg pre r d w' resp log hs hh
  have hmem := (Rv.Lemmas.FetchB.lookup_some he).1
  have hle := Int.not_lt.1 hf
  refine ⟨e, he, hh', (entries_written_in_the_past cfg pre e hmem).2, ?_⟩
  rcases lifetime_is_from_the_store_or_a_revalidation cfg pre e hmem with h | ⟨t, h1, h2, h3⟩
  · exact Or.inl (h ▸ hle)
  · exact Or.inr ⟨t, h1, h2, by omega⟩

/-! ### a concrete history crossing lifetimes

  One resource, `max-age=1` (a lifetime of 1000 ms), revalidation default
  3000 ms.  Stored at 250 (expires 1250); hits at 850 and — the boundary is
  inclusive — at 1250; at 1251 the entry has expired: conditional request,
  304, renewed to 4251; hits at 4250 and 4251; revalidation at 4252; the
  environment drops the entry: miss, stored again (expires 5252); the origin
  changes; at 5253 the stale entry's validator is sent, a 200 replaces it. -/
section Examples

def tCfg : Cfg :=
  { ignoreCC := false, forceDefault := false, defaultMaxAge := 3000, retryInvalidRange := false, retry416 := false,
    fileBackend := false }

/-- an origin record: version `ver`, `size` bytes, ETag `etag`, `max-age=1`. -/
def tO (ver size : Nat) (etag : String) : ORes :=
  { status := 200, ver := ver, size := size, etag := etag, lm := .none, cc := [s "max-age=1"], expires := .absent,
    rangeMode := "ignore", cond := true, age := none, hdrset := ver }

def tGet : Req :=
  { res := 1, method := "GET", query := "", range := none, ifRangeEtag := none, ifRangeDate := none, hasBody := false }

def tOps : List HOp :=
  [ .setOrigin 1 (tO 1 10 "v1"), .elapse 250, .request tGet false,
    .elapse 600, .request tGet false, .elapse 400, .request tGet false,
    .elapse 1, .request tGet false,
    .elapse 2999, .request tGet false, .elapse 1, .request tGet false,
    .elapse 1, .request tGet false,
    .dropEntry 1 "", .request tGet false,
    .setOrigin 1 (tO 2 20 "v2"), .elapse 1001, .request tGet false ]

/-- the exchanges: label, body, `Age`, validators sent upstream. -/
example :
    (run tCfg tOps init).2.map (fun x => (x.2.1.label, x.2.1.body, x.2.1.age, x.2.2.map (·.inm))) =
      [ (.miss, .stored 1 0 10, none, [""]),              -- 250: stored, expires 1250
        (.hit, .stored 1 0 10, some 0, []),               -- 850: fresh
        (.hit, .stored 1 0 10, some 1, []),               -- 1250: still fresh (inclusive)
        (.revalidated, .stored 1 0 10, some 1, ["v1"]),   -- 1251: expired ⇒ origin contacted, 304, renewed to 4251
        (.hit, .stored 1 0 10, some 4, []),               -- 4250: within the renewed lifetime
        (.hit, .stored 1 0 10, some 4, []),               -- 4251: boundary
        (.revalidated, .stored 1 0 10, some 4, ["v1"]),   -- 4252: expired again
        (.miss, .stored 1 0 10, none, [""]),              -- entry dropped ⇒ unconditional fetch, stored, expires 5252
        (.revalidated, .stored 2 0 20, some 0, ["v1"]) ]  -- 5253: expired, origin changed: 200 replaces the entry
    := by decide

/-- the store and the clock along the way: `(version, expires, timeWritten)`.
    After the first revalidation `expires = 1251 + 3000` while `timeWritten`
    stays 250 (second disjunct of T3); after the re-store both restart. -/
example :
    (run tCfg (tOps.take 3) init).1.cache.map (fun e => (e.o.ver, e.expires, e.timeWritten)) = [(1, 1250, 250)] ∧
    (run tCfg (tOps.take 9) init).1.cache.map (fun e => (e.o.ver, e.expires, e.timeWritten)) = [(1, 4251, 250)] ∧
    (run tCfg (tOps.take 9) init).1.now = 1251 ∧
    (run tCfg (tOps.take 15) init).1.cache.map (fun e => (e.o.ver, e.expires, e.timeWritten)) = [(1, 7252, 250)] ∧
    (run tCfg (tOps.take 16) init).1.cache = [] ∧
    (run tCfg (tOps.take 17) init).1.cache.map (fun e => (e.o.ver, e.expires, e.timeWritten)) = [(1, 5252, 4252)] ∧
    (run tCfg tOps init).1.cache.map (fun e => (e.o.ver, e.expires, e.timeWritten)) = [(2, 6253, 5253)] ∧
    (run tCfg tOps init).1.now = 5253 ∧ elapsed tOps = 5253 := by decide

/-- the invariants, checked on every prefix of the history by evaluation:
    written in the past, lifetime from the store or from a revalidation. -/
example :
    ∀ n ∈ List.range (tOps.length + 1), ∀ e ∈ (run tCfg (tOps.take n) init).1.cache,
      0 ≤ e.timeWritten ∧ e.timeWritten ≤ (run tCfg (tOps.take n) init).1.now ∧
      (e.expires = lifetimeEnd tCfg e.o e.timeWritten ∨
        (e.timeWritten ≤ e.expires - tCfg.defaultMaxAge ∧
          e.expires - tCfg.defaultMaxAge ≤ (run tCfg (tOps.take n) init).1.now)) := by decide

/-- `hit_only_while_fresh` instantiated at the third request (time 1250): from
    the mere label the theorem yields the silent, fresh reuse … -/
example (w' : World) (resp : Resp) (log : List UpReq)
    (hs : step tCfg (run tCfg (tOps.take 6) init).1 (.request tGet false) = (w', some (tGet, resp, log)))
    (hh : resp.label = .hit) : log = [] :=
  (hit_only_while_fresh tCfg (tOps.take 6) tGet false w' resp log hs hh).1

/-- … and `stale_forces_origin_contact` at the fourth (time 1251): the entry
    found there has expired, so the origin is contacted with `If-None-Match: v1`. -/
example (w' : World) (resp : Resp) (log : List UpReq)
    (hs : step tCfg (run tCfg (tOps.take 8) init).1 (.request tGet false) = (w', some (tGet, resp, log))) :
    ∃ rest, log = { res := 1, method := "GET", query := "", inm := "v1", ims := none, range := none } :: rest :=
  (stale_forces_origin_contact tCfg (tOps.take 8) tGet false w' resp log hs rfl rfl
    { res := 1, query := "", o := tO 1 10 "v1", expires := 1250, timeWritten := 250 } (by decide) (by decide)).2.2

end Examples

end Rv.Props.HistoryTime
