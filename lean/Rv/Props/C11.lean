import Rv.Model.Certs
import Rv.Generated.Consts
import Rv.Lemmas.Certs
/-
  C11 — every tunnel gets a valid host-specific certificate from the configured
  CA (issuance logic; X.509 signing, chain building and key match are observed
  by the correspondence run on every generated case, not proved).
-/
namespace Rv.Props.C11
open Rv Rv.Certs

/-- the validity period in the CURRENT source is the 240 hours of the model. -/
theorem validity_constant : Rv.Generated.certHoursValid = "240" := by decide

/-- invariant of every certificate in the cache. -/
def Inv (isIP : Str → Bool) (st : St) : Prop :=
  ∀ c ∈ st.cache, c.sanIsIP = isIP c.host ∧ c.issuedByCA = true ∧ c.notBefore ≤ st.now ∧
    c.notAfter = c.notBefore + validityMs ∧ c.id < st.nextId

theorem inv_init (isIP : Str → Bool) : Inv isIP init := by intro c hc; cases hc

theorem inv_get (isIP : Str → Bool) (st : St) (target : Str) (h : Inv isIP st) : Inv isIP (get st target isIP).1 :=
  Rv.Lemmas.Certs.inv_get isIP st target h

/-- what `SplitHostPort` accepts: `host:port` without brackets or a second colon,
    or `[host]:port`; the host it returns is literally the one in the target. -/
theorem split_shape (hp host port : Str) (h : splitHostPort hp = .ok host port) :
    (hp = host ++ ':' :: port ∧ ':' ∉ host ∧ '[' ∉ hp ∧ ']' ∉ hp ∧ ':' ∉ port) ∨
    (hp = '[' :: host ++ ']' :: ':' :: port ∧ ']' ∉ host ∧ '[' ∉ host ∧ ':' ∉ port ∧ '[' ∉ port ∧ ']' ∉ port) :=
  Rv.Lemmas.Certs.split_shape hp host port h

/-- the certificate returned names exactly the host of the target, with the SAN
    kind that matches it, is issued by the CA and is inside its validity period
    at the moment of return; a malformed target yields an error and changes nothing. -/
theorem cert_names_host_and_valid (isIP : Str → Bool) (st : St) (target : Str) (h : Inv isIP st) :
    (splitHostPort target = .err ∧ get st target isIP = (st, .err)) ∨
    ∃ host port c, splitHostPort target = .ok host port ∧ (get st target isIP).2 = .ok c ∧
      c.host = host ∧ c.sanIsIP = isIP host ∧ c.issuedByCA = true ∧
      c.notBefore ≤ st.now ∧ st.now ≤ c.notAfter :=
  Rv.Lemmas.Certs.cert_names_host_and_valid isIP st target h

/-- reuse while valid: a second request for the same host, before the
    certificate expires, returns the same object. -/
theorem reuse_while_valid (isIP : Str → Bool) (st : St) (target : Str) (c : Cert) (d : Nat) (h : Inv isIP st)
    (h1 : (get st target isIP).2 = .ok c) (hd : (st.now + d : Int) ≤ c.notAfter) :
    (get { (get st target isIP).1 with now := st.now + d } target isIP).2 = .ok c :=
  Rv.Lemmas.Certs.reuse_while_valid isIP st target c d h h1 hd

/-- replaced once expired: after its expiry a new certificate (fresh identity,
    valid now) is returned and the expired one is no longer in the cache. -/
theorem replace_once_expired (isIP : Str → Bool) (st : St) (target : Str) (c : Cert) (d : Nat) (h : Inv isIP st)
    (h1 : (get st target isIP).2 = .ok c) (hd : c.notAfter < (st.now + d : Int)) :
    ∃ c', (get { (get st target isIP).1 with now := st.now + d } target isIP).2 = .ok c' ∧ c'.id ≠ c.id ∧
      c'.notBefore = st.now + d ∧
      c ∉ (get { (get st target isIP).1 with now := st.now + d } target isIP).1.cache :=
  Rv.Lemmas.Certs.replace_once_expired isIP st target c d h h1 hd

/-- at most one certificate per host in the cache: holds initially and is
    preserved by every `get` (this discharges the hypothesis `hu` of
    `concurrent_first_requests` on every reachable state; `Inv` alone does not
    imply it). -/
def Unique (st : St) : Prop := ∀ host : Str, (st.cache.filter (·.host = host)).length ≤ 1

theorem cache_unique_init : Unique init := Rv.Lemmas.Certs.unique_init

theorem cache_unique (isIP : Str → Bool) (st : St) (target : Str) (h : Unique st) :
    Unique (get st target isIP).1 :=
  Rv.Lemmas.Certs.unique_get isIP st target h

/-- many tunnels to a new host opening at once: for EVERY interleaving of the
    callers' lookup and issue steps, every caller that finishes holds a
    certificate for that host, issued by the CA, valid when issued; and
    afterwards the cache holds exactly one certificate for the host. -/
theorem concurrent_first_requests (isIP : Str → Bool) (host : Str) (steps : List Step) (st : St) (h : Inv isIP st)
    (hu : (st.cache.filter (·.host = host)).length ≤ 1) :
    let r := concRun host (isIP host) steps { st := st, prog := [] }
    (∀ k c, progOf r.prog k = some (some c) → c.host = host ∧ c.sanIsIP = isIP host ∧ c.issuedByCA = true ∧
        c.notAfter = c.notBefore + validityMs ∧ c.notBefore ≤ r.st.now) ∧
    (r.st.cache.filter (·.host = host)).length ≤ 1 ∧ Inv isIP r.st :=
  Rv.Lemmas.Certs.concurrent_first_requests isIP host steps st h hu

example : splitHostPort (s "example.com:443") = .ok (s "example.com") (s "443") := by decide
example : splitHostPort (s "[::1]:8443") = .ok (s "::1") (s "8443") := by decide
example : splitHostPort (s "::1:443") = .err := by decide
example : splitHostPort (s "example.com") = .err := by decide

end Rv.Props.C11
