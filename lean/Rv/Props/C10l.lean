import Rv.Model.WireLink
import Rv.Lemmas.WireLink
/-
  C10, record level ⟶ byte level.  `Rv.Props.C10` says that every exchange of a
  CONNECT tunnel is answered like a plain request (records); `Rv.Props.C10w`
  says that a client recovers exactly the responses written PROVIDED each of
  them is well formed (`Rv.Wire.Resp.WF`).  Here the proviso is discharged for
  the responses `Rv.Fetch.handle` produces: byte-level isolation is a theorem
  about `Rv.Tunnel.serve`.

  `Rv.WireLink.toWire` maps a response record and the bytes its body source
  yields to what the raw responder is handed; `bytesMatch` ties the bytes to
  the record.  Two assumptions remain, both about the ORIGIN's records (and the
  entries already in the store), none about the proxy:
    * `tblClean` / `cacheClean`: entity tags are header values Go writes
      unchanged (no CR / LF, no blank at either end);
    * `originOK`: no body on a status below 200.  Without it the model has a
      response that is not delimitable (`finding_1xx_with_body`).
-/
namespace Rv.Props.C10l
open Rv Rv.Fetch Rv.Wire Rv.WireLink Rv.Lemmas.WireLink

/-- (L1) the header fields a record-level response sets — decimal numbers,
    fixed literals, the entity tag — are well formed and none of them is a
    framing field. -/
theorem header_fields_well_formed (isHead : Bool) (r : Fetch.Resp) (bytes : Str) (fails : Bool)
    (he : etagClean r) :
    ∀ nv ∈ (toWire isHead r bytes fails).hdrs, FieldOK nv ∧ NotFraming nv :=
  toWire_fields_ok isHead r bytes fails he

/-- non-vacuity: a 206 from the store with an entity tag sets three such fields. -/
example :
    (toWire false { status := 206, label := .none, body := .stored 3 0 5, hdrFrom := some exO,
                    contentRange := some (0, 4, 10) } b5 false).hdrs =
      [(s "X-Origin-Ver", ['3']), (s "Etag", ['v', '3']), (s "Content-Range", s "bytes 0-4/10")] := by decide

/-- (L2) a record-level response is delimited on the wire exactly when it is a
    HEAD exchange, or its status allows a body, or no body byte is sent. -/
theorem delimited_iff (isHead : Bool) (r : Fetch.Resp) (bytes : Str) (hm : bytesMatch r bytes) :
    delimited (toWire isHead r bytes false) = true ↔
      (isHead = true ∨ noBodyStatus r.status = false ∨ bytes = []) :=
  toWire_delimited_iff isHead r bytes hm

/-- (L2) neither non-delimitable shape arises: `Content-Length: 0` goes with an
    empty body, and a 1xx / 204 / 304 of declared length 0 sends no byte. -/
theorem always_delimited (isHead : Bool) (r : Fetch.Resp) (bytes : Str) (hm : bytesMatch r bytes)
    (hs : noBodyOK r) : delimited (toWire isHead r bytes false) = true :=
  toWire_delimited isHead r bytes hm hs

/-- non-vacuity: a 304 relayed with an empty body, a 200 of 10 bytes. -/
example :
    bytesMatch { status := 304, label := .none, body := .empty } [] ∧
    delimited (toWire false { status := 304, label := .none, body := .empty } [] false) = true ∧
    bytesMatch { status := 200, label := .hit, body := .stored 3 0 10 } b10 ∧
    delimited (toWire false { status := 200, label := .hit, body := .stored 3 0 10 } b10 false) = true := by
  decide

/-- every response of `handle` pairs a no-body status with a declared length of
    0 and delivers headers of an origin record, for an origin that sends no body
    on a status below 200. -/
theorem handle_responses_ok (cfg : Cfg) (tbl : Nat → Option ORes) (c : Cache) (now : Int) (reqs : List Req)
    (hO : originOK tbl) (hT : tblClean tbl) (hC : cacheClean c) :
    ∀ r ∈ resps cfg tbl c now reqs, etagClean r ∧ noBodyOK r :=
  resps_clean cfg tbl c now reqs hO hT hC

/-- non-vacuity: the example origin and the empty store satisfy the hypotheses. -/
example : originOK exTbl ∧ tblClean exTbl ∧ cacheClean [] := ⟨originOK_exTbl, tblClean_exTbl, cacheClean_nil⟩

/-- (L3) BYTE-LEVEL ISOLATION OF A TUNNEL.  Any requests on one CONNECT tunnel,
    any bytes from the body sources as long as they are what the records say
    and no transfer fails: the client reads back one message per request,
    exactly the responses written (status of exchange i = status `handle` chose
    for request i), and no byte is left over or attributed to another exchange. -/
theorem tunnel_bytes_isolated (cfg : Cfg) (tbl : Nat → Option ORes) (rs : Rv.Tunnel.Responder)
    (c : Cache) (now : Int) (reqs : List Req) (bs : List Str)
    (hO : originOK tbl) (hT : tblClean tbl) (hC : cacheClean c)
    (hm : allMatch (Rv.Tunnel.serve false cfg tbl rs c now reqs) bs) :
    readAll (reqs.map (fun q => q.method == "HEAD"))
        (Rv.Wire.serve (tunnelResps reqs (Rv.Tunnel.serve false cfg tbl rs c now reqs) bs))
      = ((tunnelResps reqs (Rv.Tunnel.serve false cfg tbl rs c now reqs) bs).map view, []) ∧
    (tunnelResps reqs (Rv.Tunnel.serve false cfg tbl rs c now reqs) bs).map (·.status)
      = (resps cfg tbl c now reqs).map (·.status) :=
  tunnel_bytes_isolated_of_inputs cfg tbl rs c now reqs bs hO hT hC hm

/-- non-vacuity: a 206 then a 200 on one tunnel. -/
example :
    readAll [false, false] (tunnelBytes exCfg exTbl [] 0 exReqs [b5, b10]) =
      ((tunnelResps exReqs (Rv.Tunnel.serve false exCfg exTbl [] [] 0 exReqs) [b5, b10]).map view, []) :=
  (tunnel_bytes_isolated exCfg exTbl [] [] 0 exReqs [b5, b10]
    originOK_exTbl tblClean_exTbl cacheClean_nil exMatch).1

/-- … whose second message carries no Content-Range and exactly its own ten bytes. -/
example :
    (tunnelResps exReqs (Rv.Tunnel.serve false exCfg exTbl [] [] 0 exReqs) [b5, b10]).map view =
      [⟨206, [(nameCL, ['5']), (s "X-Origin-Ver", ['3']), (s "Etag", ['v', '3']),
              (s "Content-Range", s "bytes 0-4/10")], b5⟩,
       ⟨200, [(nameCL, ['1', '0']), (s "X-Origin-Ver", ['3']), (s "Etag", ['v', '3'])], b10⟩] := by decide

/-- (L3) for any list of exchanges given as triples (HEAD?, record, bytes). -/
theorem exchanges_isolated (ts : List (Bool × Fetch.Resp × Str))
    (h : ∀ t ∈ ts, etagClean t.2.1 ∧ noBodyOK t.2.1 ∧ bytesMatch t.2.1 t.2.2) :
    readAll (ts.map (·.1)) (Rv.Wire.serve (ts.map ofTriple)) = ((ts.map ofTriple).map view, []) :=
  triples_isolated ts h

/-- non-vacuity: a 416 written by the proxy itself (text of 3 bytes), then a 204. -/
example :
    ∀ t ∈ [(false, ({ status := 416, label := .none, body := .proxyError, unsatRange := some 10 } : Fetch.Resp), ['b', 'a', 'd']),
           (false, ({ status := 204, label := .none, body := .empty } : Fetch.Resp), [])],
      etagClean t.2.1 ∧ noBodyOK t.2.1 ∧ bytesMatch t.2.1 t.2.2 := by
  intro t ht
  simp only [List.mem_cons, List.not_mem_nil, or_false] at ht
  rcases ht with rfl | rfl
  · refine ⟨?_, ?_, ?_⟩
    · intro o h; cases h
    · intro h; exact absurd h (by decide)
    · trivial
  · refine ⟨?_, ?_, ?_⟩
    · intro o h; cases h
    · intro _; rfl
    · rfl

/-- a transfer that is cut (the body source fails) ends the tunnel: nothing is
    written after it and whatever the client reads after the complete exchanges
    comes from bytes of the cut response alone. -/
theorem nothing_follows_a_cut_transfer (pre : List (Bool × Fetch.Resp × Str)) (post : List Rv.Wire.Resp)
    (r : Fetch.Resp) (bytes : Str)
    (h : ∀ t ∈ pre, etagClean t.2.1 ∧ noBodyOK t.2.1 ∧ bytesMatch t.2.1 t.2.2) :
    Rv.Wire.serve (pre.map ofTriple ++ [toWire false r bytes true] ++ post)
      = Rv.Wire.serve (pre.map ofTriple) ++ (frame (toWire false r bytes true)).1 ∧
    readAll ((pre.map ofTriple ++ [toWire false r bytes true] ++ post).map (·.head))
        (Rv.Wire.serve (pre.map ofTriple ++ [toWire false r bytes true] ++ post)) =
      ((pre.map ofTriple).map view ++
        (readAll ((toWire false r bytes true :: post).map (·.head)) (frame (toWire false r bytes true)).1).1,
       (readAll ((toWire false r bytes true :: post).map (·.head)) (frame (toWire false r bytes true)).1).2) :=
  triples_stop_at_cut pre post r bytes h

/-- non-vacuity: a stored body of 10 bytes cut after 5 is an incomplete write. -/
example :
    bytesMatch { status := 200, label := .hit, body := .stored 3 0 10 } b5 true ∧
    (frame (toWire false { status := 200, label := .hit, body := .stored 3 0 10 } b5 true)).2 = false := by
  decide

/-- FINDING (model level): `originOK` cannot be dropped.  `handle` relays an
    origin record of status 103 and size 2 as `Content-Length: 2` + two bytes
    on a status that allows no body; the write completes, the client reads the
    two bytes as the start of the next status line. -/
theorem finding_1xx_with_body :
    r103 = { status := 103, label := .none, body := .origin 3 0 2, hdrFrom := some o103 } ∧
    bytesMatch r103 ['a', 'b'] ∧
    (toWire false r103 ['a', 'b'] false).cl = some 2 ∧
    (frame (toWire false r103 ['a', 'b'] false)).2 = true ∧
    delimited (toWire false r103 ['a', 'b'] false) = false ∧
    readAll [false, false] (Rv.Wire.serve [toWire false r103 ['a', 'b'] false, Rv.Lemmas.Wire.ok2]) =
      ([⟨103, [(nameCL, ['2']), (s "X-Origin-Ver", ['3'])], []⟩], ['a', 'b'] ++ (frame Rv.Lemmas.Wire.ok2).1) :=
  relay_1xx_with_body

end Rv.Props.C10l
