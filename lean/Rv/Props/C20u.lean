import Rv.Model.Users
import Rv.Spec.Users
import Rv.Lemmas.Users
/-
  C20 (credentials) — login succeeds only with the password whose stored hash
  verifies; that password is the one accepted last by change-password.

  The hash is abstract: `Rv.Users.verifies (hashOf p) q = decide (p = q)` is the
  cryptographic assumption on Argon2id (see Rv/Model/Users.lean).  A well-formed
  user table (`WF`) has pairwise distinct names under NOCASE (the UNIQUE
  constraint of the `users` table).
-/
namespace Rv.Props.C20u
open Rv.Auth hiding run step init login
open Rv.Users Rv.Spec.Users

/-- the cryptographic assumption, as realised by the model. -/
theorem crypto_assumption (p q : Pw) : verifies (hashOf p) q = decide (p = q) := verifies_hashOf p q

def cfg1h : Cfg := { lifetime := 3600000, threshold := 600000 }
def tbl0 : Table := [("alice", "pw1"), ("Bob", "pwb")]
/-- ALICE logs in, changes pw1 → pw2. -/
def h1 : List UOp := [.login none "ALICE" "pw1", .changePassword (some 0) "pw1" "pw2"]

theorem tbl0_WF : WF tbl0 := by decide

/-! ### the concrete history of the task statement -/
example : (login cfg1h (init tbl0) none "ALICE" "pw1").2 = .created 0 := by decide
example : (changePassword cfg1h (run cfg1h [.login none "ALICE" "pw1"] (init tbl0)) (some 0) "pw1" "pw2").2 = .changed := by decide
example : (login cfg1h (run cfg1h h1 (init tbl0)) none "Alice" "pw1").2 = .invalid := by decide
example : (login cfg1h (run cfg1h h1 (init tbl0)) none "alice" "pw2").2 = .created 1 := by decide
example : (run cfg1h h1 (init tbl0)).tbl = [("alice", "pw2"), ("Bob", "pwb")] := by decide

/-- (U1) in any reachable state, a login whose cookie is not a live session
    creates a session iff some row matches the name under NOCASE and holds
    exactly this password as its CURRENT stored password. -/
theorem login_iff_current_password (c : Cfg) (tbl0 : Table) (hwf : WF tbl0) (ops : List UOp)
    (ck : Cookie) (name : String) (pw : Pw)
    (hck : liveUser (run c ops (init tbl0)).auth ck = none) :
    (∃ sid, (login c (run c ops (init tbl0)) ck name pw).2 = .created sid) ↔
      ∃ (u : Nat) (n : String), (run c ops (init tbl0)).tbl[u]? = some (n, pw) ∧ canon n = canon name :=
  Rv.Lemmas.Users.login_iff_current_password c tbl0 hwf ops ck name pw hck

example : liveUser (run cfg1h h1 (init tbl0)).auth none = none := by decide
example : ∃ sid, (login cfg1h (run cfg1h h1 (init tbl0)) none "aLiCe" "pw2").2 = .created sid :=
  (login_iff_current_password cfg1h tbl0 tbl0_WF h1 none "aLiCe" "pw2" (by decide)).2
    ⟨0, "alice", by decide, by decide⟩
example : ¬ ∃ sid, (login cfg1h (run cfg1h h1 (init tbl0)) none "alice" "pw1").2 = .created sid :=
  fun h => by
    have hn := (login_iff_current_password cfg1h tbl0 tbl0_WF h1 none "alice" "pw1" (by decide)).1 h
    have : ¬ pwOk (run cfg1h h1 (init tbl0)).tbl "alice" "pw1" = true := by decide
    exact this ((Rv.Lemmas.Users.pwOk_iff_row (by decide)).2 hn)

/-- with a live session the answer is "already", whatever the credentials. -/
example : (login cfg1h (run cfg1h h1 (init tbl0)) (some 0) "alice" "pw2").2 = .already := by decide

/-- the session a successful login creates is a live session of the user the name denotes. -/
theorem login_session_user (c : Cfg) (hl : 0 < c.lifetime) (s : UState) (ck : Cookie) (name : String)
    (pw : Pw) (sid : Nat) (h : (login c s ck name pw).2 = .created sid) :
    ∃ u, idOf s.tbl name = some u ∧ liveUser (login c s ck name pw).1.auth (some sid) = some u :=
  Rv.Lemmas.Users.login_session_user c hl s ck name pw sid h

example : liveUser (login cfg1h (init tbl0) none "BOB" "pwb").1.auth (some 0) = some 1 := by decide

/-- the oracle entry point `pwOk` is `Authenticate`: some row matches the name
    under NOCASE and holds this password. -/
theorem pwOk_iff_row (tbl : Table) (hwf : WF tbl) (name : String) (pw : Pw) :
    pwOk tbl name pw = true ↔ ∃ (u : Nat) (n : String), tbl[u]? = some (n, pw) ∧ canon n = canon name :=
  Rv.Lemmas.Users.pwOk_iff_row hwf

example : pwOk tbl0 "BOB" "pwb" = true ∧ pwOk tbl0 "bob" "pw1" = false ∧ pwOk tbl0 "carol" "pw1" = false := by decide

/-- (U2) the stored password of user `u` after ANY history is `lastAccepted`,
    computed from the history (and the provisioned table) alone. -/
theorem current_password_is_last_accepted_change (c : Cfg) (tbl0 : Table) (hwf : WF tbl0)
    (ops : List UOp) (u : Nat) :
    pwOf (run c ops (init tbl0)).tbl u = lastAccepted c tbl0 ops u :=
  Rv.Lemmas.Users.current_password_is_last_accepted_change c tbl0 hwf ops u

/-- `lastAccepted` starts at the provisioned password … -/
theorem lastAccepted_nil (c : Cfg) (tbl0 : Table) (u : Nat) : lastAccepted c tbl0 [] u = pwOf tbl0 u :=
  Rv.Lemmas.Users.lastAccepted_nil c tbl0 u

/-- … and moves to `new` exactly at the change-password requests the reference
    accepts for `u` (live session of `u` in the session reference, non-empty
    fields, `cur` = the password accepted last before). -/
theorem lastAccepted_snoc (c : Cfg) (tbl0 : Table) (ops : List UOp) (op : UOp) (u : Nat) :
    lastAccepted c tbl0 (ops ++ [op]) u =
      match op with
      | .changePassword ck cur new =>
        if acceptedAfter c tbl0 ops ck cur new u then some new else lastAccepted c tbl0 ops u
      | _ => lastAccepted c tbl0 ops u :=
  Rv.Lemmas.Users.lastAccepted_snoc c tbl0 ops op u

/-- the reference accepts a change-password request iff the endpoint answers 204. -/
theorem accepted_iff_changed (c : Cfg) (tbl0 : Table) (hwf : WF tbl0) (ops : List UOp) (ck : Cookie)
    (cur new : Pw) :
    (∃ u, acceptedAfter c tbl0 ops ck cur new u = true) ↔
      (changePassword c (run c ops (init tbl0)) ck cur new).2 = .changed :=
  Rv.Lemmas.Users.accepted_iff_changed c tbl0 hwf ops ck cur new

example : lastAccepted cfg1h tbl0 h1 0 = some "pw2" ∧ lastAccepted cfg1h tbl0 h1 1 = some "pwb" ∧
    lastAccepted cfg1h tbl0 h1 2 = none := by decide
/-- wrong current password, somebody else's session, expired session, empty field: not accepted. -/
example : lastAccepted cfg1h tbl0 (h1 ++ [.changePassword (some 0) "pw1" "x"]) 0 = some "pw2" := by decide
example : lastAccepted cfg1h tbl0 (h1 ++ [.login none "bob" "pwb", .changePassword (some 1) "pw2" "x"]) 0 = some "pw2" := by decide
example : lastAccepted cfg1h tbl0 (h1 ++ [.shift 3600000, .changePassword (some 0) "pw2" "x"]) 0 = some "pw2" := by decide
example : lastAccepted cfg1h tbl0 (h1 ++ [.changePassword (some 0) "pw2" ""]) 0 = some "pw2" := by decide
example : lastAccepted cfg1h tbl0 (h1 ++ [.logout (some 0), .changePassword (some 0) "pw2" "x"]) 0 = some "pw2" := by decide
example : lastAccepted cfg1h tbl0 (h1 ++ [.changePassword (some 0) "pw2" "pw3"]) 0 = some "pw3" := by decide

/-- (U3) after a successful change from `p` to `q ≠ p` by a session of `u`, no
    later login under any spelling of `u`'s name with `p` creates a session, as
    long as no later successful change by a session of `u` sets it back to `p`. -/
theorem old_password_is_dead (c : Cfg) (tbl0 : Table) (hwf : WF tbl0) (pre later : List UOp)
    (ck : Cookie) (p q : Pw) (u : Nat)
    (hu : liveUser (run c pre (init tbl0)).auth ck = some u)
    (hchg : (changePassword c (run c pre (init tbl0)) ck p q).2 = .changed)
    (hpq : q ≠ p)
    (hnoback : ∀ l1 ck2 cur l2, later = l1 ++ UOp.changePassword ck2 cur p :: l2 →
      ¬ ((changePassword c (run c (pre ++ UOp.changePassword ck p q :: l1) (init tbl0)) ck2 cur p).2 = .changed ∧
         liveUser (run c (pre ++ UOp.changePassword ck p q :: l1) (init tbl0)).auth ck2 = some u))
    (ck' : Cookie) (name : String)
    (hname : ∃ n p0, tbl0[u]? = some (n, p0) ∧ canon name = canon n) (sid : Nat) :
    (login c (run c (pre ++ UOp.changePassword ck p q :: later) (init tbl0)) ck' name p).2 ≠ .created sid :=
  Rv.Lemmas.Users.old_password_is_dead c tbl0 hwf pre later ck p q u hu hchg hpq hnoback ck' name hname sid

/-- the hypotheses are satisfiable (bob changing HIS password to "pw1" in between does not count). -/
example : (login cfg1h (run cfg1h ([.login none "ALICE" "pw1"] ++ UOp.changePassword (some 0) "pw1" "pw2" ::
      [.login none "bob" "pwb", .changePassword (some 1) "pwb" "pw1"]) (init tbl0)) none "Alice" "pw1").2 ≠ .created 2 :=
  old_password_is_dead cfg1h tbl0 tbl0_WF [.login none "ALICE" "pw1"]
    [.login none "bob" "pwb", .changePassword (some 1) "pwb" "pw1"] (some 0) "pw1" "pw2" 0
    (by decide) (by decide) (by decide)
    (fun l1 ck2 cur l2 e => by
      rcases l1 with _ | ⟨a, _ | ⟨b, l1⟩⟩
      · cases e
      · injection e with e1 e2
        injection e2 with e3 e4
        cases e1
        cases e3
        decide
      · injection e with e1 e2
        injection e2 with e3 e4
        cases l1 <;> cases e4)
    none "Alice" ⟨"alice", "pw1", by decide, by decide⟩ 2
/-- the conclusion is not trivial: the same login succeeds before the change, and again after a change back. -/
example : (login cfg1h (run cfg1h [.login none "ALICE" "pw1"] (init tbl0)) none "Alice" "pw1").2 = .created 1 := by decide
example : (login cfg1h (run cfg1h (h1 ++ [.changePassword (some 0) "pw2" "pw1"]) (init tbl0)) none "Alice" "pw1").2 = .created 1 := by decide

/-- (U4) change-password changes the user table only with the cookie of a session
    that is in the session table and not expired (the liveness condition of
    `Rv.Props.C20.guarded_needs_live_session`), non-empty fields and `cur` equal
    to the current password of that session's user; and it never changes the
    password of anybody but the session's user. -/
theorem change_requires_live_session_and_current_password (c : Cfg) (s : UState) (hwf : WF s.tbl)
    (ck : Cookie) (cur new : Pw) :
    ((changePassword c s ck cur new).1.tbl ≠ s.tbl →
      ∃ sid x, ck = some sid ∧ find s.auth sid = some x ∧ x.expiresAt > s.auth.now ∧
        pwOf s.tbl x.user = some cur ∧ cur ≠ "" ∧ new ≠ "" ∧ (changePassword c s ck cur new).2 = .changed) ∧
    (∀ v, liveUser s.auth ck ≠ some v →
      pwOf (changePassword c s ck cur new).1.tbl v = pwOf s.tbl v) := by
  refine ⟨fun h => ?_, fun v hv => Rv.Lemmas.Users.change_leaves_other_users c s hwf ck cur new v hv⟩
  rcases Rv.Lemmas.Users.change_requires_live_session_and_current_password c s ck cur new h with
    ⟨u, hl, hp, h1, h2, h3⟩
  rcases (Rv.Lemmas.Users.liveUser_iff s.auth ck u).1 hl with ⟨sid, x, hck, hf, hgt, hx⟩
  exact ⟨sid, x, hck, hf, hgt, by rw [hx]; exact hp, h1, h2, h3⟩

example : (changePassword cfg1h (run cfg1h [.login none "ALICE" "pw1"] (init tbl0)) (some 0) "pw1" "pw2").1.tbl ≠
    (run cfg1h [.login none "ALICE" "pw1"] (init tbl0)).tbl := by decide
example : (changePassword cfg1h (run cfg1h [.login none "ALICE" "pw1"] (init tbl0)) (some 0) "pwb" "pw2") =
    (run cfg1h [.login none "ALICE" "pw1"] (init tbl0), .refused) := by decide
example : (changePassword cfg1h (run cfg1h [.login none "ALICE" "pw1", .shift 3600000] (init tbl0)) (some 0) "pw1" "pw2").2 =
    .unauthorized := by decide

/-- a request that is not answered 204 leaves the user table alone, a request
    without a live session is answered 401, and in every case the session table
    is what `Rv.Auth.request` (guarded route) makes of it. -/
theorem unauthorized_change_has_no_effect (c : Cfg) (s : UState) (ck : Cookie) (cur new : Pw) :
    (liveUser s.auth ck = none → (changePassword c s ck cur new).2 = .unauthorized) ∧
    ((changePassword c s ck cur new).2 ≠ .changed → (changePassword c s ck cur new).1.tbl = s.tbl) ∧
    (changePassword c s ck cur new).1.auth = (request c s.auth true "PATCH" "" "" ck).1 :=
  Rv.Lemmas.Users.unauthorized_change_has_no_effect c s ck cur new

/-- (U4, over histories) the session must be live in the history-only session
    reference of Rv.Spec.Session. -/
theorem change_needs_reference_live_session (c : Cfg) (tbl0 : Table) (hwf : WF tbl0) (ops : List UOp)
    (ck : Cookie) (cur new : Pw)
    (hch : (changePassword c (run c ops (init tbl0)) ck cur new).1.tbl ≠ (run c ops (init tbl0)).tbl) :
    ∃ sid, ck = some sid ∧ (Ref.run c tbl0 ops (Ref.init tbl0)).abs.live sid = true :=
  Rv.Lemmas.Users.change_needs_reference_live_session c tbl0 hwf ops ck cur new hch

example : (Ref.run cfg1h tbl0 [.login none "ALICE" "pw1"] (Ref.init tbl0)).abs.live 0 = true := by decide

/-- the accepted change sets the session's user's password to `new` and nothing else. -/
theorem change_accepted_table (c : Cfg) (s : UState) (hwf : WF s.tbl) (ck : Cookie) (cur new : Pw) (u : Nat)
    (hl : liveUser s.auth ck = some u) (h : (changePassword c s ck cur new).2 = .changed) (v : Nat) :
    pwOf (changePassword c s ck cur new).1.tbl v = if v = u then some new else pwOf s.tbl v :=
  Rv.Lemmas.Users.change_accepted_table c s hwf ck cur new u hl h v

/-- (U5) two spellings of a name that agree under NOCASE give the same outcome and the same state. -/
theorem spelling_irrelevant (c : Cfg) (s : UState) (ck : Cookie) (name name' : String) (pw : Pw)
    (h : canon name = canon name') : login c s ck name pw = login c s ck name' pw :=
  Rv.Lemmas.Users.spelling_irrelevant c s ck name name' pw h

example : canon "ALICE" = canon "aLiCe" ∧ canon "alice" ≠ canon "alicé" ∧ canon "É" = "É" := by decide
example : login cfg1h (init tbl0) none "ALICE" "pw1" = login cfg1h (init tbl0) none "aLiCe" "pw1" :=
  spelling_irrelevant cfg1h (init tbl0) none "ALICE" "aLiCe" "pw1" (by decide)

/-- in a reachable state the session's user always has a row: the nil dereference
    `user.PasswordHash` after `GetByID` returned no row is not reachable. -/
theorem change_never_hits_missing_user (c : Cfg) (tbl0 : Table) (hwf : WF tbl0) (ops : List UOp)
    (ck : Cookie) (cur new : Pw) :
    (changePassword c (run c ops (init tbl0)) ck cur new).2 ≠ .noUser :=
  Rv.Lemmas.Users.change_never_hits_missing_user c tbl0 hwf ops ck cur new

/-- (it is reachable from a state that is not: a session of a user without a row). -/
example : (changePassword cfg1h { auth := { sessions := [{ sid := 0, user := 7, expiresAt := 10 }], nextSid := 1, now := 0 }, tbl := tbl0 }
    (some 0) "a" "b").2 = .noUser := by decide

end Rv.Props.C20u
