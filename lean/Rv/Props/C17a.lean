import Rv.Model.ByteSize
import Rv.Lemmas.ByteSize
/-
  C17 (size strings) — "sizes … are written in a form that reads back to the
  identical value, and a size string is accepted only in the documented
  digits-plus-unit form and means digits times unit."
-/
namespace Rv.Props.C17a
open Rv Rv.ByteSize

/-- every representable byte count prints to a string that parses back to it. -/
theorem bytesize_roundtrip (b : Nat) (h : b ≤ maxI64) : parse (toStr b) = .ok b :=
  Rv.Lemmas.ByteSize.roundtrip b h

/-- an accepted string is digits followed by exactly one unit and means
    digits × unit, without overflow. -/
theorem bytesize_strict (x : Str) (v : Nat) (h : parse x = .ok v) :
    ∃ ds u m, x = ds ++ [u] ∧ ds ≠ [] ∧ allDigits ds = true ∧ unitOf u = some m ∧
      v = decVal ds * m ∧ v ≤ maxI64 :=
  Rv.Lemmas.ByteSize.strict x v h

/-- conversely every digits-plus-unit string whose value fits is accepted. -/
theorem bytesize_accepts (ds : Str) (u : Char) (m : Nat) (hd : ds ≠ []) (ha : allDigits ds = true)
    (hu : unitOf u = some m) (hv : decVal ds * m ≤ maxI64) :
    parse (ds ++ [u]) = .ok (decVal ds * m) :=
  Rv.Lemmas.ByteSize.accepts ds u m hd ha hu hv

/-- Go ranges over `unitRuneMap` in an unspecified order; the chosen unit does
    not depend on it. -/
theorem largest_perm (order : List (Char × Nat)) (b : Nat) (hp : order.Perm units) :
    largestFittingUnit order b = largestFittingUnit units b :=
  Rv.Lemmas.ByteSize.largest_perm order b hp

example : parse (s "1536B") = .ok 1536 := by decide
example : toStr 1536 = s "1536B" := by decide
example : toStr (50 * 1024 * 1024 * 1024) = s "50G" := by decide
example : parse (s "5K5") = .err .charsAfterUnit := by decide
example : parse (s "K") = .err .invalidFormat := by decide
example : parse (s "5") = .err .invalidFormat := by decide
example : parse (s "99999999999999999999B") = .err .invalidFormat := by decide

end Rv.Props.C17a
