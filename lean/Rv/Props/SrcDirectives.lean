import Rv.Generated.SrcDirectives
import Rv.Model.CacheControl
/-
  PROVED tie between a hand-written model and the code: `Rv.Generated.SrcDirectives` is
  regenerated from /repo's Go source on every run by `tools/go2lean` (`none` =
  Go run-time panic); each theorem states that a translated definition equals,
  for ALL inputs, the model function the property theorems are about, and never
  panics. A change of the Go function that changes its input/output behaviour
  breaks the theorem in the kernel; a behaviour-preserving rewrite does not
  (the proofs are case analyses closed by simp/omega, not syntactic matches).
-/
namespace Rv.Props.SrcDirectives
open Rv Rv.SrcViews

/-! ### proxy/headers/header_directives.go -/

/-- `HeaderDirectives.ShouldCache` of the source = the model's `shouldCache`;
    in particular no `ForceUnwrap` of an absent header value is reachable. -/
theorem shouldCache_eq (d : Rv.CacheControl.Directives) (ignore : Bool) (now : Int) :
    Rv.Generated.Src.shouldCache d ignore now = some (Rv.CacheControl.shouldCache d ignore now) := by
  rcases d with ⟨cc, ex, rg⟩
  cases cc <;> cases ex <;> cases ignore <;> cases rg <;>
    simp [Rv.Generated.Src.shouldCache, Rv.CacheControl.shouldCache]
  all_goals (repeat' split)
  all_goals (first | done | grind | (simp_all <;> omega) | simp_all | omega)

/-- `HeaderDirectives.GetExpiresOrDefault` of the source = the model's. -/
theorem getExpiresOrDefault_eq (d : Rv.CacheControl.Directives) (force : Bool) (dflt now : Int) :
    Rv.Generated.Src.getExpiresOrDefault d force dflt now = some (Rv.CacheControl.expiresOrDefault d force dflt now) := by
  rcases d with ⟨cc, ex, rg⟩
  cases cc <;> cases ex <;> cases force <;>
    simp [Rv.Generated.Src.getExpiresOrDefault, Rv.CacheControl.expiresOrDefault]
  all_goals (repeat' split)
  all_goals (first | done | grind | (simp_all <;> omega) | simp_all | omega)

example : Rv.Generated.Src.shouldCache { cc := some { noCache := false, maxAge := 5 }, expires := some 0, range := false } false 10 = some true := by decide

end Rv.Props.SrcDirectives
