import Rv.Model.Fetch
import Rv.Lemmas.FetchB
/-
  C06 — revalidation uses stored validators; 304 and 200 update the entry correctly.
-/
namespace Rv.Props.C06
open Rv Rv.Fetch

def lmOf (e : CEntry) : Option Int := match e.o.lm with | .at l => some l | _ => none

/-- every conditional header the origin ever sees was built from the stale
    entry's stored validators; requests carry no client conditional by
    construction of `UpReq` (the model has no place for one: the correspondence
    run and the C06 verdict tie that to the code). -/
theorem conditionals_come_from_the_store (cfg : Cfg) (tbl : Nat → Option ORes) (c : Cache) (now : Int) (r : Req) (u : UpReq)
    (hu : u ∈ (handle cfg tbl c now r).2.2) (hc : u.inm ≠ "" ∨ u.ims ≠ none) :
    ∃ e, (lookup c r.res r.query = some e ∨
          -- … or the entry this very request stored a moment ago (retry without Range of an
          -- unsatisfiable Range request whose 200 answer was already expired on arrival)
          (cfg.retryInvalidRange = true ∧ originAnswer tbl (upReq r r.range) = .full e.o ∧
           storable cfg e.o r.method now = true ∧ e.expires = lifetimeEnd cfg e.o now)) ∧
      e.expires < now ∧ u.inm = e.o.etag ∧ u.ims = lmOf e :=
  Rv.Lemmas.FetchB.conditionals_come_from_the_store cfg tbl c now r u hu hc

/-- a plain GET for a stale entry first asks the origin with exactly the stored
    ETag (iff one was stored) and Last-Modified (iff a valid one was stored). -/
theorem reval_uses_stored (cfg : Cfg) (tbl : Nat → Option ORes) (c : Cache) (now : Int) (r : Req) (e : CEntry)
    (hm : r.method = "GET") (hr : r.range = none) (he : lookup c r.res r.query = some e) (hs : e.expires < now) :
    ∃ rest, (handle cfg tbl c now r).2.2 =
      { res := r.res, method := "GET", query := r.query, inm := e.o.etag, ims := lmOf e, range := none } :: rest :=
  Rv.Lemmas.FetchB.reval_uses_stored cfg tbl c now r e hm hr he hs

/-- 304: the stored body stays in service, its lifetime is renewed by the
    configured default, the answer is REVALIDATED with that body. -/
theorem on_304 (cfg : Cfg) (tbl : Nat → Option ORes) (c : Cache) (now : Int) (r : Req) (e : CEntry) (o' : ORes)
    (hm : r.method = "GET") (hr : r.range = none) (he : lookup c r.res r.query = some e) (hs : e.expires < now)
    (ha : originAnswer tbl { res := r.res, method := "GET", query := r.query, inm := e.o.etag, ims := lmOf e, range := none } = .notModified o') :
    lookup (handle cfg tbl c now r).2.1 r.res r.query = some { e with expires := now + cfg.defaultMaxAge } ∧
    (handle cfg tbl c now r).1.label = .revalidated ∧ (handle cfg tbl c now r).1.body = .stored e.o.ver 0 e.o.size :=
  Rv.Lemmas.FetchB.on_304 cfg tbl c now r e o' hm hr he hs ha

/-- 200 (storable): the entry is replaced; the old body is no longer reachable
    under that key and the client gets the new one. -/
theorem on_200_replaced (cfg : Cfg) (tbl : Nat → Option ORes) (c : Cache) (now : Int) (r : Req) (e : CEntry) (o' : ORes)
    (hm : r.method = "GET") (hr : r.range = none) (he : lookup c r.res r.query = some e) (hs : e.expires < now)
    (ha : originAnswer tbl { res := r.res, method := "GET", query := r.query, inm := e.o.etag, ims := lmOf e, range := none } = .full o')
    (h2 : o'.status = 200) (hst : storable cfg o' "GET" now = true) (hf : storeFails cfg o' = false) :
    (∀ x ∈ (handle cfg tbl c now r).2.1, x.res = r.res → x.query = r.query → x.o = o') ∧
    (handle cfg tbl c now r).1.body = .stored o'.ver 0 o'.size ∧ (handle cfg tbl c now r).1.label = .revalidated :=
  Rv.Lemmas.FetchB.on_200_replaced cfg tbl c now r e o' hm hr he hs ha h2 hst hf

/-- any other answer (3xx/4xx/5xx, or an uncacheable 200) is relayed from a
    second, unconditional fetch and nothing is stored or changed. -/
theorem other_answer_relayed_not_stored (cfg : Cfg) (tbl : Nat → Option ORes) (c : Cache) (now : Int) (r : Req) (e : CEntry) (o' : ORes)
    (hm : r.method = "GET") (hr : r.range = none) (he : lookup c r.res r.query = some e) (hs : e.expires < now)
    (ha : originAnswer tbl { res := r.res, method := "GET", query := r.query, inm := e.o.etag, ims := lmOf e, range := none } = .full o')
    (hn : o'.status ≠ 200 ∨ storable cfg o' "GET" now = false) :
    (handle cfg tbl c now r).2.1 = c ∧
    (handle cfg tbl c now r).1.status = ansStatus (originAnswer tbl (upReq r none)) :=
  Rv.Lemmas.FetchB.other_answer_relayed_not_stored cfg tbl c now r e o' hm hr he hs ha hn

end Rv.Props.C06
