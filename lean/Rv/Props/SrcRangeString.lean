import Rv.Generated.SrcRangeString
import Rv.Model.Range
/-
  PROVED tie between `Rv.Range.rangeString` and the code: `rangeHeader.String()`
  (proxy/headers/range_header.go), regenerated on every run.  TRUSTED meaning:
  `strconv.FormatInt(x, 10)` = `Rv.intToDec x`; `fmt.Sprintf("bytes=%d-%d", …)` and
  string `+` are structural.
-/
namespace Rv.Props.SrcRangeString
open Rv Rv.Range Rv.SrcViews

theorem l_suffix : s "bytes=-" = ['b', 'y', 't', 'e', 's', '=', '-'] := by decide
theorem l_bytes : s "bytes=" = ['b', 'y', 't', 'e', 's', '='] := by decide

/-- `String()` of the source is the model's `rangeString`, for every header value; it cannot panic. -/
theorem rangeHeaderString_eq (r : RangeHdr) :
    Rv.Generated.Src.rangeHeaderString r = some (rangeString r.start r.end_) := by
  simp only [Rv.Generated.Src.rangeHeaderString, rangeString, l_suffix, l_bytes]
  by_cases h1 : r.start = -1 <;> by_cases h2 : r.end_ = -1 <;> simp [h1, h2]

theorem rangeHeaderString_total (r : RangeHdr) : (Rv.Generated.Src.rangeHeaderString r).isSome = true := by
  rw [rangeHeaderString_eq]; rfl

theorem intToDec_natCast (n : Nat) : intToDec (n : Int) = toDec n := by
  have h1 : ¬ ((n : Int) < 0) := Int.not_lt.mpr (Int.natCast_nonneg _)
  simp only [intToDec, h1, if_false, Int.natAbs_natCast]

/-- the three shapes, for the headers the parser produces (non-negative bounds, `-1` = absent). -/
theorem rangeString_suffix (n : Nat) : rangeString (-1) n = s "bytes=-" ++ toDec n := by
  simp [rangeString, intToDec_natCast]
theorem rangeString_from (a : Nat) : rangeString a (-1) = s "bytes=" ++ toDec a ++ ['-'] := by
  have h : ¬ ((a : Int) = -1) := by omega
  simp [rangeString, h, intToDec_natCast]
theorem rangeString_fromTo (a b : Nat) : rangeString a b = s "bytes=" ++ toDec a ++ '-' :: toDec b := by
  have h : ¬ ((a : Int) = -1) := by omega
  have h' : ¬ ((b : Int) = -1) := by omega
  simp [rangeString, h, h', intToDec_natCast]

example : Rv.Generated.Src.rangeHeaderString ⟨0, 4⟩ = some (s "bytes=0-4") := by decide
example : Rv.Generated.Src.rangeHeaderString ⟨-1, 5⟩ = some (s "bytes=-5") := by decide
example : Rv.Generated.Src.rangeHeaderString ⟨5, -1⟩ = some (s "bytes=5-") := by decide

end Rv.Props.SrcRangeString
