import Rv.Model.Fetch
import Rv.Spec.Range
import Rv.Lemmas.FetchB
import Rv.Lemmas.FetchEnv
/-
  C09 / C16 / C07 / C01 at the request level: whatever happens inside the proxy,
  the client gets an answer derived from an origin answer.
-/
namespace Rv.Props.C09
open Rv Rv.Fetch

/-- the proxy never answers with its own 502/500: every path that fails on the
    cache side (store refused, entry vanished on a 304) falls back to a direct
    fetch. -/
theorem never_gateway_error (cfg : Cfg) (tbl : Nat → Option ORes) (c : Cache) (now : Int) (r : Req) :
    (handle cfg tbl c now r).1.status ≠ 502 ∧ (handle cfg tbl c now r).1.status ≠ 500
      ∨ ∃ u, (ansStatus (originAnswer tbl u) = 502 ∨ ansStatus (originAnswer tbl u) = 500) :=
  Rv.Lemmas.FetchB.never_gateway_error cfg tbl c now r

/-- the status delivered is either an origin answer's status for this resource,
    or one of the proxy's own deliberate answers: 200 / 206 built from a stored
    200 answer, or 416 for a Range it understood but cannot satisfy. -/
theorem status_comes_from_origin (cfg : Cfg) (tbl : Nat → Option ORes) (c : Cache) (now : Int) (r : Req)
    (hinv : ∀ e ∈ c, e.o.status = 200) :
    let st := (handle cfg tbl c now r).1.status
    (∃ u ∈ (handle cfg tbl c now r).2.2, st = ansStatus (originAnswer tbl u)) ∨ st = 200 ∨ st = 206 ∨
    (st = 416 ∧ cfg.retryInvalidRange = false ∧ ∃ e ∈ (handle cfg tbl c now r).2.1, (handle cfg tbl c now r).1.unsatRange = some e.o.size) :=
  Rv.Lemmas.FetchB.status_comes_from_origin cfg tbl c now r hinv

/-- a good origin answer stored on the file backend with an empty body (the
    cache refuses it) still reaches the client as the origin's 200. -/
theorem empty_body_still_served (cfg : Cfg) (tbl : Nat → Option ORes) (c : Cache) (now : Int) (r : Req) (o : ORes)
    (hm : r.method = "GET") (hr : r.range = none) (hl : lookup c r.res r.query = none)
    (ho : originAnswer tbl (upReq r none) = .full o) (h2 : o.status = 200) (hf : storeFails cfg o = true) :
    (handle cfg tbl c now r).1.status = 200 ∧ (handle cfg tbl c now r).1.body = .origin o.ver 0 o.size ∧
    (handle cfg tbl c now r).2.1 = c :=
  Rv.Lemmas.FetchB.empty_body_still_served cfg tbl c now r o hm hr hl ho h2 hf

/-- C07: a 206 built by the proxy lies inside the stored representation, its
    Content-Range, length and bytes agree, and for a well-formed single range it
    is exactly the requested interval. -/
theorem served_206_exact (cfg : Cfg) (tbl : Nat → Option ORes) (c : Cache) (now : Int) (r : Req) (v st len : Nat)
    (h : (handle cfg tbl c now r).1.status = 206) (hb : (handle cfg tbl c now r).1.body = .stored v st len) :
    ∃ e ∈ (handle cfg tbl c now r).2.1, e.o.ver = v ∧ 0 < len ∧ st + len ≤ e.o.size ∧
      (handle cfg tbl c now r).1.contentRange = some (st, st + len - 1, e.o.size) ∧
      (handle cfg tbl c now r).1.hdrFrom = some e.o ∧
      (∀ x sp, r.range = some x → Rv.Spec.Range.wellFormedSingle x = some sp →
        Rv.Spec.Range.resolve sp e.o.size = some (st, st + len - 1)) :=
  Rv.Lemmas.FetchB.served_206_exact cfg tbl c now r v st len h hb

/-- C01: a full body served from the store comes with the headers, validators
    and length of the very origin answer it was stored from. -/
theorem stored_body_paired (cfg : Cfg) (tbl : Nat → Option ORes) (c : Cache) (now : Int) (r : Req) (v st len : Nat)
    (hb : (handle cfg tbl c now r).1.body = .stored v st len) :
    ∃ o, (handle cfg tbl c now r).1.hdrFrom = some o ∧ o.ver = v ∧ st + len ≤ o.size ∧
      ((handle cfg tbl c now r).1.status = 200 → st = 0 ∧ len = o.size) :=
  Rv.Lemmas.FetchB.stored_body_paired cfg tbl c now r v st len hb

/-- C07: an If-Range that does not match the stored validator yields the full
    200: a 206 built by the proxy (not the origin's own 206 relayed) is only given
    when the If-Range, if any, matches the stored validator. -/
theorem if_range_mismatch_full (cfg : Cfg) (tbl : Nat → Option ORes) (c : Cache) (now : Int) (r : Req)
    (h : (handle cfg tbl c now r).1.status = 206)
    (hnr : ∀ u ∈ (handle cfg tbl c now r).2.2, ansStatus (originAnswer tbl u) ≠ 206) :
    ∃ e ∈ (handle cfg tbl c now r).2.1, e.res = r.res ∧ e.query = r.query ∧ ifRangeMismatch r e = false :=
  Rv.Lemmas.FetchB.if_range_mismatch_full cfg tbl c now r h hnr

/-- C16: the status code handed to WriteHeader is always a valid one (the
    `WriteHeader(0)` panic of the unfixed retry path cannot occur), provided the
    origin's own status codes are valid. -/
theorem status_valid (cfg : Cfg) (tbl : Nat → Option ORes) (c : Cache) (now : Int) (r : Req)
    (hinv : ∀ e ∈ c, e.o.status = 200)
    (ho : ∀ k o, tbl k = some o → 100 ≤ o.status ∧ o.status ≤ 599) :
    100 ≤ (handle cfg tbl c now r).1.status ∧ (handle cfg tbl c now r).1.status ≤ 599 :=
  Rv.Lemmas.FetchB.status_valid cfg tbl c now r hinv ho

/-! ### C09 for every mid-flight cache

  `handleEnv cfg tbl c cMid now r` is `handle` with the window of
  proxy/fetcher.go made explicit: `c` is the store as `getFromCacheOrFetch`
  looked it up, `cMid` is the store as `fetchUpstream` / `handleUpstream200` /
  `handleUpstream304` find it when the origin's answer arrives. Eviction,
  cleanup, a DELETE or another request's store may have run in between, so
  NOTHING is assumed about `cMid`. "A cache-side failure never fails the
  client" is stated for all of them. -/

/-- the stored `Last-Modified` as a conditional request carries it (same
    definition as `Rv.Props.C06.lmOf`). -/
def lmOf (e : CEntry) : Option Int := match e.o.lm with | .at l => some l | _ => none

/-- (c) when nothing touched the store in the window, `handleEnv` IS `handle`:
    the theorems above are the `cMid = c` instances of those below. -/
theorem env_agrees_when_unchanged (cfg : Cfg) (tbl : Nat → Option ORes) (c : Cache) (now : Int) (r : Req) :
    handleEnv cfg tbl c c now r = handle cfg tbl c now r := rfl

/-- whatever happened to the store while the origin was answering, the status
    the client gets is the origin's answer to one of the upstream requests this
    very request made, or one of the proxy's deliberate 200 / 206 / 416
    (`dedupFetch` turns every `ErrNotCacheable` of `fetchUpstream` into a direct
    fetch, so `handleHTTP`'s error branch is never taken). -/
theorem status_comes_from_origin_env (cfg : Cfg) (tbl : Nat → Option ORes) (c cMid : Cache) (now : Int) (r : Req) :
    (∃ u ∈ (handleEnv cfg tbl c cMid now r).2.2,
        (handleEnv cfg tbl c cMid now r).1.status = ansStatus (originAnswer tbl u)) ∨
    (handleEnv cfg tbl c cMid now r).1.status = 200 ∨ (handleEnv cfg tbl c cMid now r).1.status = 206 ∨
    ((handleEnv cfg tbl c cMid now r).1.status = 416 ∧ cfg.retryInvalidRange = false) :=
  Rv.Lemmas.FetchEnv.status_comes_from_origin_env cfg tbl c cMid now r

/-- a 502 / 500 that reaches the client is never the proxy's own: it is the
    status of the origin's answer to an upstream request in this request's log
    (`relay` passes an origin 5xx through unchanged — the only way `handleEnv`
    can say 502, for any `c` and any `cMid`). -/
theorem gateway_error_is_the_origins_env (cfg : Cfg) (tbl : Nat → Option ORes) (c cMid : Cache) (now : Int) (r : Req)
    (k : Nat) (hk : k = 502 ∨ k = 500) (h : (handleEnv cfg tbl c cMid now r).1.status = k) :
    ∃ u ∈ (handleEnv cfg tbl c cMid now r).2.2, ansStatus (originAnswer tbl u) = k :=
  Rv.Lemmas.FetchEnv.gateway_error_is_the_origins_env cfg tbl c cMid now r k hk h

/-- `never_gateway_error` for every mid-flight cache. -/
theorem never_gateway_error_env (cfg : Cfg) (tbl : Nat → Option ORes) (c cMid : Cache) (now : Int) (r : Req) :
    (handleEnv cfg tbl c cMid now r).1.status ≠ 502 ∧ (handleEnv cfg tbl c cMid now r).1.status ≠ 500
      ∨ ∃ u, (ansStatus (originAnswer tbl u) = 502 ∨ ansStatus (originAnswer tbl u) = 500) :=
  Rv.Lemmas.FetchEnv.never_gateway_error_env cfg tbl c cMid now r

/-- (a) a cache-side failure never fails the client: no 502, for every store at
    lookup time and every store in the window. The hypothesis on the origin is
    NECESSARY, not a convenience: an origin resource whose own status is 502 is
    relayed as 502 (see the `example` below), which is the origin failing, not
    the cache. It is the weakest such hypothesis on `tbl`: by
    `gateway_error_is_the_origins_env` a 502 is always an origin record's. -/
theorem never_bad_gateway_env (cfg : Cfg) (tbl : Nat → Option ORes) (c cMid : Cache) (now : Int) (r : Req)
    (ho : ∀ k o, tbl k = some o → o.status ≠ 502) :
    (handleEnv cfg tbl c cMid now r).1.status ≠ 502 :=
  Rv.Lemmas.FetchEnv.never_bad_gateway_env cfg tbl c cMid now r ho

/-- (b) proxy/fetcher.go `handleUpstream304`: the lookup found a stale entry,
    `fetchUpstream` sent the conditional request built from its validators, the
    origin said 304 — and by then the entry was gone from the store
    (`UpdateMetadata` / `Get` fail → `ErrNotCacheable`). `dedupFetch` falls back
    to a direct fetch: the client gets the relay of the origin's answer to a
    SECOND, unconditional request (no `If-None-Match`, no `If-Modified-Since`),
    labelled as a miss, and the store is left exactly as it was found. -/
theorem vanished_entry_falls_back_env (cfg : Cfg) (tbl : Nat → Option ORes) (c cMid : Cache) (now : Int) (r : Req)
    (e : CEntry) (o' : ORes)
    (hm : r.method = "GET") (hr : r.range = none) (he : lookup c r.res r.query = some e) (hs : e.expires < now)
    (ha : originAnswer tbl { res := r.res, method := "GET", query := r.query, inm := e.o.etag, ims := lmOf e, range := none } = .notModified o')
    (hv : lookup cMid r.res r.query = none) :
    (handleEnv cfg tbl c cMid now r).2.2 =
      [{ res := r.res, method := "GET", query := r.query, inm := e.o.etag, ims := lmOf e, range := none },
       { res := r.res, method := "GET", query := r.query, inm := "", ims := none, range := none }] ∧
    (handleEnv cfg tbl c cMid now r).1 = relay (originAnswer tbl (upReq r none)) "GET" .miss ∧
    (handleEnv cfg tbl c cMid now r).1.status = ansStatus (originAnswer tbl (upReq r none)) ∧
    (handleEnv cfg tbl c cMid now r).2.1 = cMid := by
  have h := Rv.Lemmas.FetchEnv.vanished_entry_falls_back_env cfg tbl c cMid now r e o' hm hr he hs ha hv
  rw [h]
  refine ⟨?_, ?_, rfl, rfl⟩
  · show [_, upReq r none] = _
    simp only [upReq, hm]
    rfl
  · show relay _ r.method .miss = _
    rw [hm]

/-- … in the shape asked of the log: two upstream requests, the second without
    validators; and the status is the second answer's — in particular not a
    502 of the proxy's making. -/
theorem vanished_entry_second_request_unconditional (cfg : Cfg) (tbl : Nat → Option ORes) (c cMid : Cache) (now : Int) (r : Req)
    (e : CEntry) (o' : ORes)
    (hm : r.method = "GET") (hr : r.range = none) (he : lookup c r.res r.query = some e) (hs : e.expires < now)
    (ha : originAnswer tbl { res := r.res, method := "GET", query := r.query, inm := e.o.etag, ims := lmOf e, range := none } = .notModified o')
    (hv : lookup cMid r.res r.query = none) :
    (handleEnv cfg tbl c cMid now r).2.2.length = 2 ∧
    (∃ u1 u2, (handleEnv cfg tbl c cMid now r).2.2 = [u1, u2] ∧ u2.inm = "" ∧ u2.ims = none ∧
      (handleEnv cfg tbl c cMid now r).1.status = ansStatus (originAnswer tbl u2)) ∧
    ((∀ k o, tbl k = some o → o.status ≠ 502) → (handleEnv cfg tbl c cMid now r).1.status ≠ 502) := by
  obtain ⟨h1, _, h3, _⟩ := vanished_entry_falls_back_env cfg tbl c cMid now r e o' hm hr he hs ha hv
  refine ⟨by rw [h1]; rfl, ⟨_, _, h1, rfl, rfl, ?_⟩, never_bad_gateway_env cfg tbl c cMid now r⟩
  rw [h3]
  simp only [upReq, hm]

/-! #### the hypotheses are satisfiable, the side condition of (a) is needed -/

section Examples

/-- a cacheable 200 with an ETag, answering 304 to a matching `If-None-Match`. -/
def exO : ORes :=
  { status := 200, ver := 1, size := 10, etag := "v1", lm := .none, cc := [], expires := .absent,
    rangeMode := "ignore", cond := true, age := none, hdrset := 0 }

def exCfg : Cfg :=
  { ignoreCC := false, forceDefault := false, defaultMaxAge := 1000, retryInvalidRange := true, retry416 := true,
    fileBackend := false }

def exReq : Req :=
  { res := 1, method := "GET", query := "", range := none, ifRangeEtag := none, ifRangeDate := none, hasBody := false }

/-- stored at 0, expired at 5. -/
def exEntry : CEntry := { res := 1, query := "", o := exO, expires := 5, timeWritten := 0 }

def exTbl : Nat → Option ORes := fun k => if k = 1 then some exO else none

/-- the hypotheses of (b) hold at `now = 100` with `c = [exEntry]`, `cMid = []`
    (the entry was evicted in the window) … -/
example :
    exReq.method = "GET" ∧ exReq.range = none ∧ lookup [exEntry] exReq.res exReq.query = some exEntry ∧
    exEntry.expires < 100 ∧
    originAnswer exTbl { res := exReq.res, method := "GET", query := exReq.query, inm := exEntry.o.etag,
                         ims := lmOf exEntry, range := none } = .notModified exO ∧
    lookup [] exReq.res exReq.query = none := by decide

/-- … and the request then behaves as (b) says: conditional request, 304, entry
    gone, unconditional request, its 200 relayed with the origin's body. -/
example :
    (handleEnv exCfg exTbl [exEntry] [] 100 exReq).1.status = 200 ∧
    (handleEnv exCfg exTbl [exEntry] [] 100 exReq).1.body = .origin 1 0 10 ∧
    (handleEnv exCfg exTbl [exEntry] [] 100 exReq).2.2.map (fun u => (u.inm, u.ims)) = [("v1", none), ("", none)] ∧
    (handleEnv exCfg exTbl [exEntry] [] 100 exReq).2.1 = [] := by decide

/-- without the window (`cMid = c`) the same request is a plain revalidation. -/
example :
    (handle exCfg exTbl [exEntry] 100 exReq).1.label = .revalidated ∧
    (handle exCfg exTbl [exEntry] 100 exReq).2.2.length = 1 := by decide

/-- the side condition of (a) cannot be dropped: an origin whose resource
    answers 502 is relayed as 502 (here on an empty store, no cache involved). -/
example :
    (handleEnv exCfg (fun _ => some { exO with status := 502 }) [] [] 100 exReq).1.status = 502 := by decide

/-- an unknown resource (`.missing`) is a 404, not a 502. -/
example : (handleEnv exCfg (fun _ => none) [exEntry] [] 100 exReq).1.status = 404 := by decide

end Examples

end Rv.Props.C09
