import Rv.Model.Fetch
import Rv.Spec.Range
import Rv.Lemmas.FetchB
/-
  C09 / C16 / C07 / C01 at the request level: whatever happens inside the proxy,
  the client gets an answer derived from an origin answer.
-/
namespace Rv.Props.C09
open Rv Rv.Fetch

/-- the proxy never answers with its own 502/500: every path that fails on the
    cache side (store refused, entry vanished on a 304) falls back to a direct
    fetch. -/
theorem never_gateway_error (cfg : Cfg) (tbl : Nat → Option ORes) (c : Cache) (now : Int) (r : Req) :
    (handle cfg tbl c now r).1.status ≠ 502 ∧ (handle cfg tbl c now r).1.status ≠ 500
      ∨ ∃ u, (ansStatus (originAnswer tbl u) = 502 ∨ ansStatus (originAnswer tbl u) = 500) :=
  Rv.Lemmas.FetchB.never_gateway_error cfg tbl c now r

/-- the status delivered is either an origin answer's status for this resource,
    or one of the proxy's own deliberate answers: 200 / 206 built from a stored
    200 answer, or 416 for a Range it understood but cannot satisfy. -/
theorem status_comes_from_origin (cfg : Cfg) (tbl : Nat → Option ORes) (c : Cache) (now : Int) (r : Req)
    (hinv : ∀ e ∈ c, e.o.status = 200) :
    let st := (handle cfg tbl c now r).1.status
    (∃ u ∈ (handle cfg tbl c now r).2.2, st = ansStatus (originAnswer tbl u)) ∨ st = 200 ∨ st = 206 ∨
    (st = 416 ∧ cfg.retryInvalidRange = false ∧ ∃ e ∈ (handle cfg tbl c now r).2.1, (handle cfg tbl c now r).1.unsatRange = some e.o.size) :=
  Rv.Lemmas.FetchB.status_comes_from_origin cfg tbl c now r hinv

/-- a good origin answer stored on the file backend with an empty body (the
    cache refuses it) still reaches the client as the origin's 200. -/
theorem empty_body_still_served (cfg : Cfg) (tbl : Nat → Option ORes) (c : Cache) (now : Int) (r : Req) (o : ORes)
    (hm : r.method = "GET") (hr : r.range = none) (hl : lookup c r.res r.query = none)
    (ho : originAnswer tbl (upReq r none) = .full o) (h2 : o.status = 200) (hf : storeFails cfg o = true) :
    (handle cfg tbl c now r).1.status = 200 ∧ (handle cfg tbl c now r).1.body = .origin o.ver 0 o.size ∧
    (handle cfg tbl c now r).2.1 = c :=
  Rv.Lemmas.FetchB.empty_body_still_served cfg tbl c now r o hm hr hl ho h2 hf

/-- C07: a 206 built by the proxy lies inside the stored representation, its
    Content-Range, length and bytes agree, and for a well-formed single range it
    is exactly the requested interval. -/
theorem served_206_exact (cfg : Cfg) (tbl : Nat → Option ORes) (c : Cache) (now : Int) (r : Req) (v st len : Nat)
    (h : (handle cfg tbl c now r).1.status = 206) (hb : (handle cfg tbl c now r).1.body = .stored v st len) :
    ∃ e ∈ (handle cfg tbl c now r).2.1, e.o.ver = v ∧ 0 < len ∧ st + len ≤ e.o.size ∧
      (handle cfg tbl c now r).1.contentRange = some (st, st + len - 1, e.o.size) ∧
      (handle cfg tbl c now r).1.hdrFrom = some e.o ∧
      (∀ x sp, r.range = some x → Rv.Spec.Range.wellFormedSingle x = some sp →
        Rv.Spec.Range.resolve sp e.o.size = some (st, st + len - 1)) :=
  Rv.Lemmas.FetchB.served_206_exact cfg tbl c now r v st len h hb

/-- C01: a full body served from the store comes with the headers, validators
    and length of the very origin answer it was stored from. -/
theorem stored_body_paired (cfg : Cfg) (tbl : Nat → Option ORes) (c : Cache) (now : Int) (r : Req) (v st len : Nat)
    (hb : (handle cfg tbl c now r).1.body = .stored v st len) :
    ∃ o, (handle cfg tbl c now r).1.hdrFrom = some o ∧ o.ver = v ∧ st + len ≤ o.size ∧
      ((handle cfg tbl c now r).1.status = 200 → st = 0 ∧ len = o.size) :=
  Rv.Lemmas.FetchB.stored_body_paired cfg tbl c now r v st len hb

/-- C07: an If-Range that does not match the stored validator yields the full
    200: a 206 built by the proxy (not the origin's own 206 relayed) is only given
    when the If-Range, if any, matches the stored validator. -/
theorem if_range_mismatch_full (cfg : Cfg) (tbl : Nat → Option ORes) (c : Cache) (now : Int) (r : Req)
    (h : (handle cfg tbl c now r).1.status = 206)
    (hnr : ∀ u ∈ (handle cfg tbl c now r).2.2, ansStatus (originAnswer tbl u) ≠ 206) :
    ∃ e ∈ (handle cfg tbl c now r).2.1, e.res = r.res ∧ e.query = r.query ∧ ifRangeMismatch r e = false :=
  Rv.Lemmas.FetchB.if_range_mismatch_full cfg tbl c now r h hnr

/-- C16: the status code handed to WriteHeader is always a valid one (the
    `WriteHeader(0)` panic of the unfixed retry path cannot occur), provided the
    origin's own status codes are valid. -/
theorem status_valid (cfg : Cfg) (tbl : Nat → Option ORes) (c : Cache) (now : Int) (r : Req)
    (hinv : ∀ e ∈ c, e.o.status = 200)
    (ho : ∀ k o, tbl k = some o → 100 ≤ o.status ∧ o.status ≤ 599) :
    100 ≤ (handle cfg tbl c now r).1.status ∧ (handle cfg tbl c now r).1.status ≤ 599 :=
  Rv.Lemmas.FetchB.status_valid cfg tbl c now r hinv ho

end Rv.Props.C09
