import Rv.Model.Race
import Rv.Lemmas.Race
import Rv.Generated.Shapes
/-
  C15: the lock-set argument against the Go memory model's happens-before for
  mutexes. Every statement is about ALL well-formed traces: any length, any
  number of goroutines, locks and locations; a goroutine may hold an RWMutex in
  shared mode several times.
-/
namespace Rv.Props.C15
open Rv.Race

/-- the CURRENT source hands entry metadata out of the cache only as private
    snapshots taken under the entry's lock: to the janitor (cacheIterator) and to
    callers of Get / GetMetadata / Cache (extracted shapes). The access facts
    treat fields read through such values as private memory on the strength of
    exactly this. -/
theorem cache_hands_out_snapshots :
    Rv.Generated.metadataHandedOut = "snapshot" ∧ Rv.Generated.iteratorYields = "snapshot" := by decide

/-- Two events of different goroutines, each made while its goroutine holds the
    same lock instance `l`, not both in shared mode, are ordered by
    happens-before. (No assumption on what the two events are: the earlier one
    may even be the release of `l` itself.) -/
theorem lockset_orders (tr : Trace) (hwf : wellFormed tr = true) (i j : Nat) (a b : Event) (l : Nat)
    (s1 s2 : Bool) (hij : i < j) (ha : tr[i]? = some a) (hb : tr[j]? = some b) (hne : a.tid ≠ b.tid)
    (h1 : holdsAt tr i a.tid l s1 = true) (h2 : holdsAt tr j b.tid l s2 = true)
    (hx : ¬ (s1 = true ∧ s2 = true)) : HB tr i j :=
  Rv.Lemmas.Race.lockset_orders tr hwf i j a b l s1 s2 hij ha hb hne h1 h2 hx

/-- Conflicting accesses made under a common lock, not both holding it in shared
    mode, are not a data race. -/
theorem common_lock_no_race (tr : Trace) (hwf : wellFormed tr = true) (i j : Nat) (a b : Event)
    (loc : Nat) (w1 w2 : Bool) (l : Nat) (s1 s2 : Bool) (hij : i < j)
    (ha : tr[i]? = some a) (hb : tr[j]? = some b) (hne : a.tid ≠ b.tid)
    (_hea : a.ev = .access loc w1) (_heb : b.ev = .access loc w2) (_hw : w1 = true ∨ w2 = true)
    (h1 : holdsAt tr i a.tid l s1 = true) (h2 : holdsAt tr j b.tid l s2 = true)
    (hx : ¬ (s1 = true ∧ s2 = true)) : ¬ Race tr i j :=
  Rv.Lemmas.Race.common_lock_no_race tr hwf i j a b l s1 s2 hij ha hb hne h1 h2 hx

/-- Consistent locking: if every access of a location is made holding that
    location's guard lock — exclusively, or in shared mode for a read — the whole
    trace is free of data races. -/
theorem guarded_locations_race_free (tr : Trace) (hwf : wellFormed tr = true) (guard : Nat → Nat)
    (hg : ∀ i a loc w, tr[i]? = some a → a.ev = .access loc w →
      (holdsAt tr i a.tid (guard loc) false = true ∨
        (w = false ∧ holdsAt tr i a.tid (guard loc) true = true))) :
    ∀ i j, ¬ Race tr i j :=
  Rv.Lemmas.Race.guarded_locations_race_free tr hwf guard hg

/-- Any happens-before path between two goroutines contains a release by the
    first one (at or after the start) … -/
theorem hb_needs_release (tr : Trace) (i j : Nat) (a b : Event) (h : HB tr i j)
    (ha : tr[i]? = some a) (hb : tr[j]? = some b) (hne : a.tid ≠ b.tid) :
    ∃ m e l s, i ≤ m ∧ m < j ∧ tr[m]? = some e ∧ e.tid = a.tid ∧ e.ev = .rel l s :=
  Rv.Lemmas.Race.hb_needs_release h a b ha hb hne

/-- … and an acquisition by the second one (at or before the end). These two are
    what proves a race in a concrete trace. -/
theorem hb_needs_acquire (tr : Trace) (i j : Nat) (a b : Event) (h : HB tr i j)
    (ha : tr[i]? = some a) (hb : tr[j]? = some b) (hne : a.tid ≠ b.tid) :
    ∃ n e l s, i < n ∧ n ≤ j ∧ tr[n]? = some e ∧ e.tid = b.tid ∧ e.ev = .acq l s :=
  Rv.Lemmas.Race.hb_needs_acquire h a b ha hb hne

/-! ### non-vacuity -/

/-- two goroutines write location 7, each under Mutex 0. -/
def trLocked : Trace :=
  [⟨1, .acq 0 false⟩, ⟨1, .access 7 true⟩, ⟨1, .rel 0 false⟩,
   ⟨2, .acq 0 false⟩, ⟨2, .access 7 true⟩, ⟨2, .rel 0 false⟩]

example : wellFormed trLocked = true := by decide
example : holdsAt trLocked 1 1 0 false = true ∧ holdsAt trLocked 4 2 0 false = true := by decide

example : HB trLocked 1 4 :=
  lockset_orders trLocked (by decide) 1 4 ⟨1, .access 7 true⟩ ⟨2, .access 7 true⟩ 0 false false
    (by decide) (by decide) (by decide) (by decide) (by decide) (by decide) (by decide)

example : ¬ Race trLocked 1 4 :=
  common_lock_no_race trLocked (by decide) 1 4 ⟨1, .access 7 true⟩ ⟨2, .access 7 true⟩ 7 true true 0
    false false (by decide) (by decide) (by decide) (by decide) rfl rfl (Or.inl rfl)
    (by decide) (by decide) (by decide)

/-- two readers under RLock (overlapping), then a writer under Lock: RWMutex 0 guards location 7. -/
def trRW : Trace :=
  [⟨1, .acq 0 true⟩, ⟨2, .acq 0 true⟩, ⟨1, .access 7 false⟩, ⟨2, .access 7 false⟩,
   ⟨1, .rel 0 true⟩, ⟨2, .rel 0 true⟩,
   ⟨3, .acq 0 false⟩, ⟨3, .access 7 true⟩, ⟨3, .rel 0 false⟩]

example : wellFormed trRW = true := by decide

/-- the discipline's hypothesis holds of a concrete trace, so the whole trace is race free. -/
example : ∀ i j, ¬ Race trRW i j :=
  guarded_locations_race_free trRW (by decide) (fun _ => 0) (by
    intro i a loc w h he
    rcases i with _ | _ | _ | _ | _ | _ | _ | _ | _ | i <;> simp [trRW] at h <;> subst h <;>
      simp at he <;> obtain ⟨rfl, rfl⟩ := he <;> decide)

/-- goroutine 2 writes location 7 WITHOUT the lock while goroutine 1 writes it under the lock. -/
def trUnlocked : Trace :=
  [⟨1, .acq 0 false⟩, ⟨1, .access 7 true⟩, ⟨2, .access 7 true⟩, ⟨1, .rel 0 false⟩]

example : wellFormed trUnlocked = true := by decide

example : Race trUnlocked 1 2 := by
  refine ⟨⟨1, .access 7 true⟩, ⟨2, .access 7 true⟩, 7, true, true, by decide, rfl, rfl, by decide,
    rfl, rfl, Or.inl rfl, ?_⟩
  intro h
  obtain ⟨m, e, l, s, h1, h2, h3, _, h5⟩ :=
    hb_needs_release trUnlocked 1 2 _ _ h rfl rfl (by decide)
  have : m = 1 := by omega
  subst this
  simp [trUnlocked] at h3
  subst h3
  simp at h5

/-- the unlocked read comes after the release: still a race, nothing orders it. -/
def trLate : Trace :=
  [⟨1, .acq 0 false⟩, ⟨1, .access 7 true⟩, ⟨1, .rel 0 false⟩, ⟨2, .access 7 false⟩]

example : wellFormed trLate = true := by decide

example : Race trLate 1 3 := by
  refine ⟨⟨1, .access 7 true⟩, ⟨2, .access 7 false⟩, 7, true, false, by decide, rfl, rfl, by decide,
    rfl, rfl, Or.inl rfl, ?_⟩
  intro h
  obtain ⟨n, e, l, s, h1, h2, h3, h4, h5⟩ :=
    hb_needs_acquire trLate 1 3 _ _ h rfl rfl (by decide)
  have : n = 2 ∨ n = 3 := by omega
  rcases this with rfl | rfl <;> simp [trLate] at h3 <;> subst h3 <;> simp at h4 h5

/-- the side condition "not both shared" is necessary: two writes made under RLock race. -/
def trBothShared : Trace :=
  [⟨1, .acq 0 true⟩, ⟨2, .acq 0 true⟩, ⟨1, .access 7 true⟩, ⟨2, .access 7 true⟩,
   ⟨1, .rel 0 true⟩, ⟨2, .rel 0 true⟩]

example : wellFormed trBothShared = true ∧ holdsAt trBothShared 2 1 0 true = true ∧
    holdsAt trBothShared 3 2 0 true = true := by decide

example : Race trBothShared 2 3 := by
  refine ⟨⟨1, .access 7 true⟩, ⟨2, .access 7 true⟩, 7, true, true, by decide, rfl, rfl, by decide,
    rfl, rfl, Or.inl rfl, ?_⟩
  intro h
  obtain ⟨m, e, l, s, h1, h2, h3, _, h5⟩ :=
    hb_needs_release trBothShared 2 3 _ _ h rfl rfl (by decide)
  have : m = 2 := by omega
  subst this
  simp [trBothShared] at h3
  subst h3
  simp at h5


/-- Mutual exclusion, the fact the sequential store model (C01, C12, C13) rests
    on: at no point of a well-formed trace do two different goroutines hold the
    same lock unless both hold it in shared mode. Hence two per-key cache
    operations, each of which touches the key's index entry only while holding
    the key's shard lock exclusively (checked per access site on the regenerated
    facts, verdict `index-entry-used-outside-the-keys-shard-lock`), never overlap
    on one key: their effects on that key are those of some sequential order. -/
theorem mutual_exclusion (tr : Trace) (hwf : wellFormed tr = true) (k t1 t2 l : Nat) (s1 s2 : Bool)
    (hne : t1 ≠ t2) (h1 : holdsAt tr k t1 l s1 = true) (h2 : holdsAt tr k t2 l s2 = true) :
    s1 = true ∧ s2 = true := by
  have hi := Rv.Lemmas.Race.inv_st tr hwf k
  rw [Rv.Lemmas.Race.holdsAt_iff] at h1 h2
  exact hi _ _ h1 h2 (by intro h; exact hne (by simpa using congrArg Hold.tid h)) rfl

example : wellFormed [⟨1, .acq 0 false⟩, ⟨1, .access 7 true⟩, ⟨1, .rel 0 false⟩, ⟨2, .acq 0 false⟩] = true := by decide

end Rv.Props.C15
