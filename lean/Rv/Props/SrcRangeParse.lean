import Rv.Generated.SrcRangeParse
import Rv.Model.Range
import Rv.Lemmas.SrcParse
/-
  PROVED tie between the hand-written model of the Range parser and the code:
  `Rv.Generated.SrcRangeParse` is regenerated from /repo's Go source on every run
  by `tools/go2lean` (`none` = Go run-time panic: an index or slice expression
  out of range); the theorems state that the translated `parseRangeNumber` and
  `parseRangeHeader` equal, for ALL inputs, the model functions the property
  theorems (C07, C16) are about.  In particular the translated `parseRangeHeader`
  never evaluates to `none`: no index or slice expression of the Go function
  can panic, whatever the header (`parseRangeHeader_total`).

  BYTES AND RUNES.  The translation steps through a string one BYTE at a time
  (`Str` = one Char per byte); Go's `for i, ch := range numStr` decodes RUNES.
  On ASCII input (every byte < 128) the two are the same loop, so the theorems
  that speak about the GO function carry `hascii`.  The proofs do not need it
  (the `_bytes` versions hold for every byte string, they are statements about
  the byte-wise definition), and the Go function in fact behaves like the
  byte-wise definition on every input: a byte ≥ 0x80 starts a rune ≥ 0x80 (a
  decoded code point or U+FFFD), which is neither ' ', '\t' nor in '0'..'9', so
  the loop RETURNS at that rune, and up to there every rune was one byte wide,
  hence `i` and `index` are what the byte-wise loop has.  That argument is not
  formalised (rune decoding is not modelled), hence the hypothesis.

  ERROR KINDS are kept: `(rangeHeader, error)` is translated to
  `Except String RangeHdr`, the string being the NAME of the package-level error
  variable returned; `ParseRes.toSrc` maps the model's error kinds to those names.

  The proofs are case analyses on semantic conditions closed by simp/omega, not
  syntactic matches: a behaviour-preserving rewrite of the Go function leaves
  them valid, a change of behaviour breaks them.
-/
set_option linter.unusedSimpArgs false
namespace Rv.Props.SrcRangeParse
open Rv Rv.Range Rv.SrcStr Rv.SrcViews Rv.Lemmas.SrcParse

/-! ### parseRangeNumber -/

/-- the model's result in the shape of the Go results `(num, endIndex, ok)` -/
def NumRes.toSrc : NumRes → Int × Int × Bool
  | .fail => (0, 0, false)
  | .ok n k => ((n : Int), (k : Int), true)

/-- an outcome of the translated loop agrees with the model's loop result: the loop does not panic; an early
    `return` returns the model's result; falling off the end leaves `(num, index)` = the model's `.ok num index`
    (the Go function then returns `num, index, true`). -/
def LoopGood : Option (Loop (Int × Int × Bool) (Int × Int)) → NumRes → Prop
  | none, _ => False
  | some (.ret v), m => v = NumRes.toSrc m
  | some (.done (n, k)), m => ∃ n' k' : Nat, n = n' ∧ k = k' ∧ m = .ok n' k'

/-- the generalised loop lemma: arbitrary index and accumulators (non-negative: casts of naturals). -/
theorem loop_good : ∀ (cs : Str) (i num index : Int) (i' num' index' : Nat),
    i = i' → num = num' → index = index' →
    LoopGood (Rv.Generated.Src.parseRangeNumber_loop1 cs i num index) (numLoop cs i' num' index') := by
  intro cs
  induction cs with
  | nil =>
    intro i num index i' num' index' hi hn hk
    simp [Rv.Generated.Src.parseRangeNumber_loop1, numLoop, LoopGood, hn, hk]
  | cons c cs ih =>
    intro i num index i' num' index' hi hn hk
    subst hi hn hk
    rw [Rv.Generated.Src.parseRangeNumber_loop1, numLoop]
    simp only [char_beq, char_bne, char_lt, char_le, char_eq]
    repeat' split
    all_goals (try simp only [Bool.or_eq_true, Bool.and_eq_true, Bool.not_eq_true', Bool.not_eq_true, decide_eq_true_eq,
      decide_eq_false_iff_not, beq_iff_eq, bne_iff_ne, ne_eq, isDigit_iff, isDigit_false_iff, Char.reduceToNat, not_or, not_and,
      Nat.not_lt, Nat.not_le, Int.not_lt, Int.not_le, gt_iff_lt, ge_iff_le, maxI64, digitVal] at *)
    all_goals (try simp (disch := omega) only [tdiv_nonneg] at *)
    all_goals (first
      | omega
      | (apply ih <;> omega)
      | (simp [LoopGood, NumRes.toSrc] <;> omega))

/-- the translated `parseRangeNumber` is the model's, on every byte string, and cannot panic. -/
theorem parseRangeNumber_eq_bytes (x : Str) :
    Rv.Generated.Src.parseRangeNumber x = some (NumRes.toSrc (parseRangeNumber x)) := by
  cases x with
  | nil => simp [Rv.Generated.Src.parseRangeNumber, parseRangeNumber, NumRes.toSrc]
  | cons c cs =>
    have h := loop_good (c :: cs) 0 0 0 0 0 0 rfl rfl rfl
    unfold Rv.Generated.Src.parseRangeNumber parseRangeNumber
    simp only [byteAt_zero_cons, Option.bind_some, char_beq, char_eq, Char.reduceToNat]
    cases hr : Rv.Generated.Src.parseRangeNumber_loop1 (c :: cs) 0 0 0 with
    | none => simp [hr, LoopGood] at h
    | some r =>
      rw [hr] at h
      cases r with
      | ret v =>
        simp only [LoopGood] at h
        subst h
        by_cases hc : c.toNat = 45 <;> simp [hc, NumRes.toSrc]
      | done st =>
        obtain ⟨n, k⟩ := st
        simp only [LoopGood] at h
        obtain ⟨n', k', rfl, rfl, hm⟩ := h
        by_cases hc : c.toNat = 45 <;> simp [hc, hm, NumRes.toSrc]

/-- `parseRangeNumber` of the source = the model's `parseRangeNumber` (shape-adapted), and it cannot panic.
    `hascii`: see the header (the translated loop is the Go loop on ASCII input). -/
theorem parseRangeNumber_eq (x : Str) (hascii : ∀ c ∈ x, c.toNat < 128) :
    Rv.Generated.Src.parseRangeNumber x = some (NumRes.toSrc (Rv.Range.parseRangeNumber x)) := by
  have _ := hascii
  exact parseRangeNumber_eq_bytes x

/-! ### parseRangeHeader -/

/-- the model's result in the shape of the translated `(rangeHeader, error)`: a panic of the model is a panic
    (`none`) of the source, an error kind is the NAME of the Go error variable. -/
def ParseRes.toSrc : ParseRes → Option (Except String RangeHdr)
  | .panic => none
  | .err .unit => some (.error "ErrInvalidRangeUnit")
  | .err .value => some (.error "ErrInvalidRangeValue")
  | .err .format => some (.error "ErrInvalidRangeFormat")
  | .err .multiple => some (.error "ErrMultipleRangesNotSupported")
  | .err .bounds => some (.error "ErrRangeValueOutOfBounds")
  | .ok a b => some (.ok ⟨a, b⟩)

/-- the translated `parseRangeHeader` is the model's, panic for panic, error kind for error kind, on every byte
    string. -/
theorem parseRangeHeader_eq_bytes (x : Str) :
    Rv.Generated.Src.parseRangeHeader x = ParseRes.toSrc (Rv.Range.parseRangeHeader x) := by
  unfold Rv.Generated.Src.parseRangeHeader Rv.Range.parseRangeHeader
  simp only [parseRangeNumber_eq_bytes, Option.bind_some]
  cases hcut : cutAt '=' x with
  | none => simp [splitN2, hcut, ParseRes.toSrc]
  | some p =>
    obtain ⟨unit, values⟩ := p
    simp only [splitN2, hcut, pair_len, strAt_pair0, strAt_pair1, Option.bind_some, bne_self_eq_false,
      Bool.false_eq_true, if_false]
    by_cases hu : unit = bytesLit
    case neg => simp [hu, ParseRes.toSrc]; intro h; exact absurd h hu
    case pos =>
      subst hu
      by_cases hnil : values = []
      · subst hnil; simp [ParseRes.toSrc, bytesLit]
      have hlen : 1 ≤ values.length := by
        cases values with
        | nil => exact absurd rfl hnil
        | cons a b => simp
      have hv0 : values[0]? = some (values[0]'(by omega)) := List.getElem?_eq_getElem (by omega)
      fold_casts
      simp only [hv0, hlen, if_true, Option.bind_some]
      generalize values[0]'(by omega) = v0
      by_cases h0 : v0 = '-'
      · -- suffix range: bytes=-N
        subst h0
        cases h1 : parseRangeNumber (List.drop 1 values) with
        | fail => simp [ParseRes.toSrc, bytesLit, NumRes.toSrc, h1, hnil]
        | ok n k =>
          simp only [NumRes.toSrc, h1]
          fold_casts
          by_cases hlt : k + 1 < values.length
          · have hk := List.getElem?_eq_getElem hlt
            by_cases hc : values[k + 1] = ',' <;> by_cases hd : values[k + 1] = '-' <;>
              simp_all [ParseRes.toSrc, bytesLit] <;>
              (first | omega | (simp [*, ParseRes.toSrc, char_eq] at * <;> omega))
          · simp [hlt, ParseRes.toSrc, bytesLit, hnil]
      · -- bytes=N- and bytes=N-M
        cases h1 : parseRangeNumber values with
        | fail => simp [ParseRes.toSrc, bytesLit, NumRes.toSrc, h1, h0, hnil]
        | ok n k =>
          simp only [NumRes.toSrc, h1]
          fold_casts
          by_cases hk : values.length ≤ k
          · simp [hk, ParseRes.toSrc, bytesLit, hnil, h0]
          have hkk := List.getElem?_eq_getElem (Nat.lt_of_not_le hk)
          by_cases hm : values[k]'(Nat.lt_of_not_le hk) = '-'
          case neg => simp [hk, hkk, hm, ParseRes.toSrc, bytesLit, hnil, h0]
          by_cases hk1 : values.length ≤ k + 1
          · simp [hk, hkk, hm, hk1, ParseRes.toSrc, bytesLit, hnil, h0]
          have hk1' : k + 1 ≤ values.length := by omega
          cases h2 : parseRangeNumber (List.drop (k + 1) values) with
          | fail => simp [hk, hkk, hm, hk1, hk1', h2, NumRes.toSrc, ParseRes.toSrc, bytesLit, hnil, h0]
          | ok n2 k2 =>
            simp only [hk1', if_true, Option.bind_some, h2, NumRes.toSrc]
            fold_casts
            by_cases hlt : k2 + (k + 1) < values.length
            · have hk2 := List.getElem?_eq_getElem hlt
              by_cases hc : values[k2 + (k + 1)] = ',' <;>
                simp_all [ParseRes.toSrc, bytesLit] <;>
                (split <;> first | omega | (simp [*, ParseRes.toSrc]; done) |
                  (simp [*, ParseRes.toSrc, char_eq] at * <;> omega))
            · simp [hk, hkk, hm, hk1, h2, hlt, ParseRes.toSrc, bytesLit, hnil, h0]

/-- `parseRangeHeader` of the source = the model's `parseRangeHeader` (error kinds kept). -/
theorem parseRangeHeader_eq (x : Str) (hascii : ∀ c ∈ x, c.toNat < 128) :
    Rv.Generated.Src.parseRangeHeader x = ParseRes.toSrc (Rv.Range.parseRangeHeader x) := by
  have _ := hascii
  exact parseRangeHeader_eq_bytes x

/-- C16 on the translated source: NO index or slice expression of `parseRangeHeader` (nor of `parseRangeNumber`,
    which it calls) can panic, for every input. -/
theorem parseRangeHeader_total (x : Str) (hascii : ∀ c ∈ x, c.toNat < 128) :
    (Rv.Generated.Src.parseRangeHeader x).isSome = true := by
  rw [parseRangeHeader_eq x hascii]
  have h := Rv.Lemmas.Range.parse_ne_panic x
  cases hm : Rv.Range.parseRangeHeader x with
  | panic => exact absurd hm h
  | err e => cases e <;> rfl
  | ok a b => rfl

/-- the same without reference to the model: the translated function always yields a result. -/
theorem parseRangeHeader_never_panics (x : Str) (hascii : ∀ c ∈ x, c.toNat < 128) :
    ∃ r, Rv.Generated.Src.parseRangeHeader x = some r :=
  Option.isSome_iff_exists.mp (parseRangeHeader_total x hascii)

/-! ### concrete inputs, evaluated by the kernel on the translated source -/

example : Rv.Generated.Src.parseRangeHeader (Rv.s "bytes=0-4") = some (.ok ⟨0, 4⟩) := by decide
example : Rv.Generated.Src.parseRangeHeader (Rv.s "bytes=-5") = some (.ok ⟨-1, 5⟩) := by decide
example : Rv.Generated.Src.parseRangeHeader (Rv.s "bytes=5-") = some (.ok ⟨5, -1⟩) := by decide
example : Rv.Generated.Src.parseRangeHeader (Rv.s "bytes=") = some (.error "ErrInvalidRangeValue") := by decide
example : Rv.Generated.Src.parseRangeHeader (Rv.s "bytes=1-2,3-4") = some (.error "ErrMultipleRangesNotSupported") := by decide
example : Rv.Generated.Src.parseRangeHeader (Rv.s "items=1-2") = some (.error "ErrInvalidRangeUnit") := by decide
example : Rv.Generated.Src.parseRangeHeader (Rv.s "bytes") = some (.error "ErrInvalidRangeFormat") := by decide
example : Rv.Generated.Src.parseRangeHeader (Rv.s "bytes=-5-") = some (.error "ErrInvalidRangeFormat") := by decide
example : Rv.Generated.Src.parseRangeHeader (Rv.s "") = some (.error "ErrInvalidRangeFormat") := by decide
example : Rv.Generated.Src.parseRangeNumber (Rv.s "12 3-") = some (123, 4, true) := by decide
example : Rv.Generated.Src.parseRangeNumber (Rv.s "9223372036854775808") = some (0, 0, false) := by decide
example : Rv.Generated.Src.parseRangeNumber (Rv.s "9223372036854775807") = some (9223372036854775807, 19, true) := by decide

end Rv.Props.SrcRangeParse
