import Rv.Generated.SrcAuth
import Rv.Model.Auth
/-
  PROVED tie between a hand-written model and the code: `Rv.Generated.SrcAuth` is
  regenerated from /repo's Go source on every run by `tools/go2lean` (`none` =
  Go run-time panic); each theorem states that a translated definition equals,
  for ALL inputs, the model function the property theorems are about, and never
  panics. A change of the Go function that changes its input/output behaviour
  breaks the theorem in the kernel; a behaviour-preserving rewrite does not
  (the proofs are case analyses closed by simp/omega, not syntactic matches).
-/
namespace Rv.Props.SrcAuth
open Rv Rv.SrcViews

/-! ### webserver/middleware/harden.go -/

/-- the request filter of `Harden` lets a request through exactly when the
    model's `hardenAllows` does. -/
theorem harden_eq (method origin site : String) :
    Rv.Generated.Src.harden method origin site = some (Rv.Auth.hardenAllows method origin site) := by
  simp only [Rv.Generated.Src.harden, Rv.Auth.hardenAllows]
  by_cases h1 : origin = "" <;> by_cases h2 : site = "" <;> by_cases h3 : site = "same-origin" <;>
    by_cases h4 : site = "same-site" <;> by_cases h5 : method = "OPTIONS" <;> simp [h1, h2, h3, h4, h5]
  all_goals (first | done | ((repeat' split) <;> simp_all))

example : Rv.Generated.Src.harden "OPTIONS" "https://evil.example" "" = some false := by decide

end Rv.Props.SrcAuth
