import Rv.Model.Store
import Rv.Spec.AbsCache
import Rv.Spec.Lru
import Rv.Lemmas.StoreEvict
/-
  C13 — size limit enforced by LRU eviction; cleanup removes exactly the expired.
-/
namespace Rv.Props.C13
open Rv.Store Rv.Spec.AbsCache Rv.Spec.Lru

/-- below the limit a periodic cycle evicts nothing … -/
theorem below_limit_no_eviction (st : St) (h : st.byteSize < st.cfgLimit) : ensure st = (st, []) :=
  Rv.Lemmas.StoreEvict.below_limit_no_eviction st h

/-- … and neither does a store. -/
theorem store_below_limit_no_eviction (st : St) (k ver size : Nat) (exp : Int) (f : Fault)
    (h : st.byteSize < (match st.backend with | .mem => min st.limit st.memCap | .file => st.limit)) :
    (store st k ver size exp f).2.2 = [] :=
  Rv.Lemmas.StoreEvict.store_below_limit_no_eviction st k ver size exp f h

/-- the candidates are examined in an order that is a permutation of the stored
    entries sorted by descending priority (least recently used first, larger
    entries weighted up by 100 per MiB). -/
theorem candidates_sorted (now : Int) (es : List Entry) :
    Desc now (sortDesc now es) ∧ (sortDesc now es).Perm es :=
  Rv.Lemmas.StoreEvict.candidates_sorted now es

/-- the victims are a PREFIX of that order, entries whose lock cannot be taken
    (in use, or lock-mates of the storing key) left out. -/
theorem evict_victims_prefix (st : St) (limit : Int) (skip : Nat → Bool) (h : Inv st) :
    ∃ n, (evict st limit skip).2 =
      (((sortDesc st.now st.entries).filter (fun e => !skip e.key)).take n).map (·.key) :=
  Rv.Lemmas.StoreEvict.evict_victims_prefix st limit skip h

/-- the victims, and only they, are gone afterwards; counters stay exact. -/
theorem evict_removes_exactly (st : St) (limit : Int) (skip : Nat → Bool) (h : Inv st) :
    (evict st limit skip).1.entries = st.entries.filter (fun e => !(evict st limit skip).2.contains e.key) ∧
    Inv (evict st limit skip).1 :=
  Rv.Lemmas.StoreEvict.evict_removes_exactly st limit skip h

/-- the loop runs down to 80 % of the limit, or evicts everything it may. -/
theorem evict_reaches_target (st : St) (limit : Int) (skip : Nat → Bool) (h : Inv st) :
    (evict st limit skip).1.byteSize ≤ target limit ∨
    ∀ e ∈ st.entries, skip e.key = false → e.key ∈ (evict st limit skip).2 :=
  Rv.Lemmas.StoreEvict.evict_reaches_target st limit skip h

/-- and it stops as soon as the target is reached: before its last removal the
    size was still above the target. -/
theorem evict_minimal (st : St) (limit : Int) (skip : Nat → Bool) (h : Inv st)
    (ks : List Nat) (k : Nat) (hk : (evict st limit skip).2 = ks ++ [k]) :
    st.byteSize - freed st.entries ks > target limit :=
  Rv.Lemmas.StoreEvict.evict_minimal st limit skip h ks k hk

/-- a cleanup cycle with nothing interleaved removes exactly the entries whose
    lifetime has elapsed, and no fresh one. -/
theorem cleanup_exact (st : St) (h : Inv st) :
    (clean st).1.entries = st.entries.filter (fun e => !decide (e.expires < st.now)) ∧
    (∀ k, k ∈ (clean st).2 ↔ k ∈ expiredKeys st) :=
  Rv.Lemmas.StoreEvict.cleanup_exact st h

/-- full strength: whatever other clients do between the janitor's scan and its
    removal loop (fresh overwrite, revalidation, delete, read), an entry is
    removed only if it was expired at the scan AND is still expired when its turn
    comes; everything else, in particular a fresh overwrite, survives. -/
theorem cleanup_window_keeps_fresh (st : St) (mid : List MidOp) (h : Inv st) :
    let st1 := mid.foldl midStep st
    (cleanRemove st1 (expiredKeys st)).1.entries =
      st1.entries.filter (fun e => !(decide (e.key ∈ expiredKeys st) && decide (e.expires < st1.now))) :=
  Rv.Lemmas.StoreEvict.cleanup_window_keeps_fresh st mid h

/-! #### eviction with a window between the scan and the removal loop

  `cacheJanitor.evict` collects and sorts its candidates FIRST (in `st`); other
  clients may then store, revalidate, delete or read (`mid`); THEN the removal
  loop runs over the stale candidate list, reading the live size before every
  candidate.  That is `evictLoop (target limit) skip (sortDesc st.now st.entries)
  (mid.foldl midStep st) []`, for arbitrary `mid`.  The removed list records the
  keys the loop called `removeEntry` on (as the implementation's `evictions`
  counter does), whether or not something was still stored under them. -/

/-- the size is already at or below the target when the removal loop starts,
    for instance because somebody else deleted entries in the window: nothing is
    removed ("stopping as soon as the target is reached", whoever reached it). -/
theorem evict_window_noop_at_target (st : St) (mid : List MidOp) (limit : Int) (skip : Nat → Bool)
    (h : Inv st) (hle : (mid.foldl midStep st).byteSize ≤ target limit) :
    evictLoop (target limit) skip (sortDesc st.now st.entries) (mid.foldl midStep st) [] =
      (mid.foldl midStep st, []) :=
  Rv.Lemmas.StoreEvict.evict_window_noop_at_target st mid limit skip h hle

/-- the loop runs down to the target as measured on the LIVE size (window stores
    included), or it has tried every scanned entry whose lock it can take, and
    nothing is stored under these keys any more. -/
theorem evict_window_stops_or_exhausts (st : St) (mid : List MidOp) (limit : Int) (skip : Nat → Bool)
    (h : Inv st) :
    let r := evictLoop (target limit) skip (sortDesc st.now st.entries) (mid.foldl midStep st) []
    r.1.byteSize ≤ target limit ∨
    ∀ c ∈ sortDesc st.now st.entries, skip c.key = false → c.key ∈ r.2 ∧ lookup r.1.entries c.key = none :=
  Rv.Lemmas.StoreEvict.evict_window_stops_or_exhausts st mid limit skip h

/-- it never removes a candidate once the size is at or below the target: every
    removal `k` (not only the last) was decided in a state, the state after the
    window with the earlier removals `ks` applied in order, whose live size was
    still above the target. -/
theorem evict_window_minimal (st : St) (mid : List MidOp) (limit : Int) (skip : Nat → Bool)
    (h : Inv st) (ks : List Nat) (k : Nat) (rest : List Nat)
    (hk : (evictLoop (target limit) skip (sortDesc st.now st.entries) (mid.foldl midStep st) []).2 =
      ks ++ k :: rest) :
    (ks.foldl (fun s k' => (removeEntry s k').1) (mid.foldl midStep st)).byteSize > target limit :=
  Rv.Lemmas.StoreEvict.evict_window_minimal st mid limit skip h ks k rest hk

/-- the same in the form of `evict_minimal`: the size after the window minus
    what the earlier removals freed THERE (a candidate deleted in the window
    frees nothing, one overwritten in the window frees its new size). -/
theorem evict_window_minimal_freed (st : St) (mid : List MidOp) (limit : Int) (skip : Nat → Bool)
    (h : Inv st) (ks : List Nat) (k : Nat) (rest : List Nat)
    (hk : (evictLoop (target limit) skip (sortDesc st.now st.entries) (mid.foldl midStep st) []).2 =
      ks ++ k :: rest) :
    (mid.foldl midStep st).byteSize - freed (mid.foldl midStep st).entries ks > target limit :=
  Rv.Lemmas.StoreEvict.evict_window_minimal_freed st mid limit skip h ks k rest hk

/-- every removed key was among the scanned candidates (and its lock could be
    taken) … -/
theorem evict_window_only_scanned (st : St) (mid : List MidOp) (limit : Int) (skip : Nat → Bool)
    (h : Inv st) :
    ∀ k ∈ (evictLoop (target limit) skip (sortDesc st.now st.entries) (mid.foldl midStep st) []).2,
      k ∈ (sortDesc st.now st.entries).map (·.key) ∧ skip k = false :=
  Rv.Lemmas.StoreEvict.evict_window_only_scanned st mid limit skip h

/-- … so an entry written in the window under a NEW key (or under a key whose
    lock is held) is never removed by this eviction, however large it is.  (An
    entry written in the window under a SCANNED key has no such protection: the
    loop removes by key, see the last example below.) -/
theorem evict_window_keeps_unscanned (st : St) (mid : List MidOp) (limit : Int) (skip : Nat → Bool)
    (h : Inv st) :
    ∀ e ∈ (mid.foldl midStep st).entries, ((∀ e0 ∈ st.entries, e0.key ≠ e.key) ∨ skip e.key = true) →
      e ∈ (evictLoop (target limit) skip (sortDesc st.now st.entries) (mid.foldl midStep st) []).1.entries :=
  Rv.Lemmas.StoreEvict.evict_window_keeps_unscanned st mid limit skip h

/-- the removed keys, and only they, are gone afterwards; counters stay exact,
    so the closing `BytesCached.Set(size)` is a no-op. -/
theorem evict_window_preserves (st : St) (mid : List MidOp) (limit : Int) (skip : Nat → Bool)
    (h : Inv st) :
    let r := evictLoop (target limit) skip (sortDesc st.now st.entries) (mid.foldl midStep st) []
    Inv r.1 ∧ { r.1 with mBytes := r.1.byteSize } = r.1 ∧
    r.1.entries = (mid.foldl midStep st).entries.filter (fun e => !r.2.contains e.key) :=
  Rv.Lemmas.StoreEvict.evict_window_preserves st mid limit skip h

/-- a changed limit governs the following cycle and store. -/
theorem limit_change_governs (st : St) (n : Int) :
    (setLimit st n).cfgLimit = n ∧ (setLimit st n).limit = n ∧
    (ensure (setLimit st n) = (if st.byteSize < n then (setLimit st n, []) else evict (setLimit st n) n (fun _ => false))) :=
  Rv.Lemmas.StoreEvict.limit_change_governs st n

example : target 1000 = 800 := by decide
example : (evict (run [.store 0 1 400 50 .none, .shift 100, .store 1 2 400 50 .none, .shift 100, .store 2 3 400 50 .none] (init .mem 5000 5000 [0, 1, 2])) 1000 (fun _ => false)).2 = [0] := by decide

/-- three entries of 400 (keys 0, 1, 2 from least to most recently used), limit 1000, target 800. -/
private def st3 : St :=
  run [.store 0 1 400 50 .none, .shift 100, .store 1 2 400 50 .none, .shift 100, .store 2 3 400 50 .none]
    (init .mem 5000 5000 [0, 1, 2, 3])

private def windowed (st : St) (mid : List MidOp) (limit : Int) : List (Nat × Nat) × Int × List Nat :=
  let r := evictLoop (target limit) (fun _ => false) (sortDesc st.now st.entries) (mid.foldl midStep st) []
  (r.1.entries.map (fun e => (e.key, e.ver)), r.1.byteSize, r.2)

-- nothing in the window: one victim, as above
example : windowed st3 [] 1000 = ([(2, 3), (1, 2)], 800, [0]) := by decide
-- a window store of 600 under a new key pushes the size to 1800: all three candidates go, the new entry stays
example : windowed st3 [.store 3 9 600 50 .none] 1000 = ([(3, 9)], 600, [0, 1, 2]) := by decide
-- a window delete (of an entry that is not even the first candidate) reaches the target: no-op
example : windowed st3 [.delete 1] 1000 = ([(2, 3), (0, 1)], 800, []) := by decide
-- a fresh version written in the window under a scanned key is evicted on the strength of the stale scan
example : windowed st3 [.delete 0, .store 0 8 300 50 .none] 1000 = ([(2, 3), (1, 2)], 800, [0]) := by decide

end Rv.Props.C13
