import Rv.Model.Store
import Rv.Spec.AbsCache
import Rv.Spec.Lru
import Rv.Lemmas.StoreEvict
/-
  C13 — size limit enforced by LRU eviction; cleanup removes exactly the expired.
-/
namespace Rv.Props.C13
open Rv.Store Rv.Spec.AbsCache Rv.Spec.Lru

/-- below the limit a periodic cycle evicts nothing … -/
theorem below_limit_no_eviction (st : St) (h : st.byteSize < st.cfgLimit) : ensure st = (st, []) :=
  Rv.Lemmas.StoreEvict.below_limit_no_eviction st h

/-- … and neither does a store. -/
theorem store_below_limit_no_eviction (st : St) (k ver size : Nat) (exp : Int) (f : Fault)
    (h : st.byteSize < (match st.backend with | .mem => min st.limit st.memCap | .file => st.limit)) :
    (store st k ver size exp f).2.2 = [] :=
  Rv.Lemmas.StoreEvict.store_below_limit_no_eviction st k ver size exp f h

/-- the candidates are examined in an order that is a permutation of the stored
    entries sorted by descending priority (least recently used first, larger
    entries weighted up by 100 per MiB). -/
theorem candidates_sorted (now : Int) (es : List Entry) :
    Desc now (sortDesc now es) ∧ (sortDesc now es).Perm es :=
  Rv.Lemmas.StoreEvict.candidates_sorted now es

/-- the victims are a PREFIX of that order, entries whose lock cannot be taken
    (in use, or lock-mates of the storing key) left out. -/
theorem evict_victims_prefix (st : St) (limit : Int) (skip : Nat → Bool) (h : Inv st) :
    ∃ n, (evict st limit skip).2 =
      (((sortDesc st.now st.entries).filter (fun e => !skip e.key)).take n).map (·.key) :=
  Rv.Lemmas.StoreEvict.evict_victims_prefix st limit skip h

/-- the victims, and only they, are gone afterwards; counters stay exact. -/
theorem evict_removes_exactly (st : St) (limit : Int) (skip : Nat → Bool) (h : Inv st) :
    (evict st limit skip).1.entries = st.entries.filter (fun e => !(evict st limit skip).2.contains e.key) ∧
    Inv (evict st limit skip).1 :=
  Rv.Lemmas.StoreEvict.evict_removes_exactly st limit skip h

/-- the loop runs down to 80 % of the limit, or evicts everything it may. -/
theorem evict_reaches_target (st : St) (limit : Int) (skip : Nat → Bool) (h : Inv st) :
    (evict st limit skip).1.byteSize ≤ target limit ∨
    ∀ e ∈ st.entries, skip e.key = false → e.key ∈ (evict st limit skip).2 :=
  Rv.Lemmas.StoreEvict.evict_reaches_target st limit skip h

/-- and it stops as soon as the target is reached: before its last removal the
    size was still above the target. -/
theorem evict_minimal (st : St) (limit : Int) (skip : Nat → Bool) (h : Inv st)
    (ks : List Nat) (k : Nat) (hk : (evict st limit skip).2 = ks ++ [k]) :
    st.byteSize - freed st.entries ks > target limit :=
  Rv.Lemmas.StoreEvict.evict_minimal st limit skip h ks k hk

/-- a cleanup cycle with nothing interleaved removes exactly the entries whose
    lifetime has elapsed, and no fresh one. -/
theorem cleanup_exact (st : St) (h : Inv st) :
    (clean st).1.entries = st.entries.filter (fun e => !decide (e.expires < st.now)) ∧
    (∀ k, k ∈ (clean st).2 ↔ k ∈ expiredKeys st) :=
  Rv.Lemmas.StoreEvict.cleanup_exact st h

/-- full strength: whatever other clients do between the janitor's scan and its
    removal loop (fresh overwrite, revalidation, delete, read), an entry is
    removed only if it was expired at the scan AND is still expired when its turn
    comes; everything else, in particular a fresh overwrite, survives. -/
theorem cleanup_window_keeps_fresh (st : St) (mid : List MidOp) (h : Inv st) :
    let st1 := mid.foldl midStep st
    (cleanRemove st1 (expiredKeys st)).1.entries =
      st1.entries.filter (fun e => !(decide (e.key ∈ expiredKeys st) && decide (e.expires < st1.now))) :=
  Rv.Lemmas.StoreEvict.cleanup_window_keeps_fresh st mid h

/-- a changed limit governs the following cycle and store. -/
theorem limit_change_governs (st : St) (n : Int) :
    (setLimit st n).cfgLimit = n ∧ (setLimit st n).limit = n ∧
    (ensure (setLimit st n) = (if st.byteSize < n then (setLimit st n, []) else evict (setLimit st n) n (fun _ => false))) :=
  Rv.Lemmas.StoreEvict.limit_change_governs st n

example : target 1000 = 800 := by decide
example : (evict (run [.store 0 1 400 50 .none, .shift 100, .store 1 2 400 50 .none, .shift 100, .store 2 3 400 50 .none] (init .mem 5000 5000 [0, 1, 2])) 1000 (fun _ => false)).2 = [0] := by decide

end Rv.Props.C13
