/-
  Rv.Model.Auth — webserver/auth/session.go (after the fix commit),
  webserver/api/api.go (WrapHandler / EnsureAllowed), the login / logout
  endpoints and webserver/middleware/harden.go, as a transition system.

  Time is explicit (`now`, milliseconds). Session ids are the order of issue
  (crypto/rand.Text in the code: unguessable, unique — trusted). Password
  verification (Argon2id + constant-time compare) is the parameter `verify`.
-/
namespace Rv.Auth

structure Session where
  sid : Nat
  user : Nat
  expiresAt : Int
  deriving Repr, DecidableEq

structure Cfg where
  lifetime : Int          -- defaultLifetime
  threshold : Int         -- extendThreshold
  deriving Repr, DecidableEq

structure St where
  sessions : List Session
  nextSid : Nat
  now : Int
  deriving Repr, DecidableEq

def init : St := { sessions := [], nextSid := 0, now := 0 }

def find (st : St) (sid : Nat) : Option Session := st.sessions.find? (·.sid = sid)
def remove (st : St) (sid : Nat) : St := { st with sessions := st.sessions.filter (·.sid ≠ sid) }

/-- `GetSession`: unknown ⇒ refused; expired ⇒ deleted and refused; close to
    expiry ⇒ extended; live ⇒ returned. -/
def getSession (c : Cfg) (st : St) (sid : Nat) : St × Option Session :=
  match find st sid with
  | none => (st, none)
  | some s =>
    if ¬ (s.expiresAt > st.now) then (remove st sid, none)
    else if s.expiresAt - st.now ≤ c.threshold then
      let s' := { s with expiresAt := st.now + c.lifetime }
      ({ st with sessions := st.sessions.map (fun x => if x.sid = sid then s' else x) }, some s')
    else (st, some s)

/-- `CreateSession`. -/
def createSession (c : Cfg) (st : St) (user : Nat) : St × Nat :=
  ({ st with sessions := { sid := st.nextSid, user := user, expiresAt := st.now + c.lifetime } :: st.sessions,
             nextSid := st.nextSid + 1 }, st.nextSid)

/-- one pass of the GC loop: delete sessions with `ExpiresAt < now`. -/
def gc (st : St) : St := { st with sessions := st.sessions.filter (fun s => ¬ (s.expiresAt < st.now)) }

/-- what a request carries: no cookie, or a cookie naming `sid` (ids never
    issued model random / forged values). -/
abbrev Cookie := Option Nat

inductive Outcome where
  | unauthorized          -- 401, handler not invoked
  | forbidden             -- 403 from Harden, nothing behind it invoked
  | reached (user : Option Nat)   -- the endpoint function runs (with the session's user, if any)
  deriving Repr, DecidableEq

/-- `CreateContext` + `EnsureAllowed` of `WrapHandler`. -/
def wrap (c : Cfg) (st : St) (requiresAuth : Bool) (ck : Cookie) : St × Outcome :=
  let (st1, sess) := match ck with
    | none => (st, none)
    | some sid => getSession c st sid
  if requiresAuth && sess.isNone then (st1, .unauthorized)
  else (st1, .reached (sess.map (·.user)))

/-- `middleware.Harden`: cross-site requests and CORS pre-flights are refused
    before the mux is consulted. -/
def hardenAllows (method origin site : String) : Bool :=
  let isSame := origin = "" || (site = "" || site = "same-origin" || site = "same-site")
  isSame && !(method = "OPTIONS" && origin ≠ "")

/-- a request to a registered route through Harden and WrapHandler. -/
def request (c : Cfg) (st : St) (requiresAuth : Bool) (method origin site : String) (ck : Cookie) : St × Outcome :=
  if !hardenAllows method origin site then (st, .forbidden) else wrap c st requiresAuth ck

inductive LoginRes where
  | created (sid : Nat)
  | already
  | invalid
  deriving Repr, DecidableEq

/-- `LoginEndpoint.Post` (route not guarded; an existing live session short-cuts;
    otherwise `Authenticate`: the user must exist and the password verify). -/
def login (c : Cfg) (st : St) (ck : Cookie) (userExists verifies : Bool) (user : Nat) : St × LoginRes :=
  let (st1, sess) := match ck with
    | none => (st, none)
    | some sid => getSession c st sid
  if sess.isSome then (st1, .already)
  else if userExists && verifies then
    let (st2, sid) := createSession c st1 user
    (st2, .created sid)
  else (st1, .invalid)

/-- `LogoutEndpoint.Post` (guarded). -/
def logout (c : Cfg) (st : St) (ck : Cookie) : St × Outcome :=
  match wrap c st true ck with
  | (st1, .reached u) => (match ck with
      | some sid => (remove st1 sid, .reached u)
      | none => (st1, .reached u))
  | r => r

inductive Op where
  | login (ck : Cookie) (userExists verifies : Bool) (user : Nat)
  | logout (ck : Cookie)
  | request (requiresAuth : Bool) (method origin site : String) (ck : Cookie)
  | shift (d : Nat)
  | gc
  deriving Repr, DecidableEq

def step (c : Cfg) (st : St) : Op → St
  | .login ck ue v u => (login c st ck ue v u).1
  | .logout ck => (logout c st ck).1
  | .request ra m o s ck => (request c st ra m o s ck).1
  | .shift d => { st with now := st.now + d }
  | .gc => gc st

def run (c : Cfg) (ops : List Op) (st : St) : St := ops.foldl (step c) st

end Rv.Auth
