import Rv.Model.Fetch
import Rv.Model.Headers
/-
  Rv.Model.Tunnel — proxy.handleCONNECT's request loop: the requests read from
  one kept-alive tunnel are handled by the same `handleHTTP` as plain requests;
  what differs is the responder. A responder accumulates the header fields, the
  status and the Content-Length of the response under construction; whether the
  loop creates one per request or shares one across the loop is the extracted
  fact `Rv.Generated.tunnelResponder`.
-/
namespace Rv.Tunnel
open Rv Rv.Fetch Rv.Headers

/-- what is written on the wire for one exchange. -/
structure Wire where
  status : Nat
  headers : Hdr
  body : Body
  deriving Repr, DecidableEq

/-- the header fields a response sets through the Responder interface
    (`SetHeaders(stored/relayed header)` followed by the proxy's own fields),
    abstracted to what the properties talk about. -/
def hdrOps (r : Resp) : Hdr :=
  (match r.hdrFrom with
    | some o => [(s "X-Origin-Ver", toDec o.ver)] ++ (if o.etag = "" then [] else [(s "Etag", o.etag.toList)])
    | none => []) ++
  (match r.contentRange with
    | some (a, b, n) => [(s "Content-Range", s "bytes " ++ toDec a ++ ['-'] ++ toDec b ++ ['/'] ++ toDec n)]
    | none => []) ++
  (match r.unsatRange with
    | some n => [(s "Content-Range", s "bytes */" ++ toDec n)]
    | none => []) ++
  (match r.body with
    | .stored _ _ len | .origin _ _ len => [(s "Content-Length", toDec len)]
    | .proxyError => [(s "Content-Type", s "text/plain; charset=utf-8"), (s "X-Content-Type-Options", s "nosniff")]
    | .empty => [])

/-- a responder is the header map it has accumulated so far. -/
abbrev Responder := Hdr

/-- write one response through a responder: its fields replace same-named
    fields, everything else the responder already holds stays. -/
def respond (rs : Responder) (r : Resp) : Responder × Wire :=
  let h := setHeaders rs (hdrOps r)
  (h, { status := r.status, headers := h, body := r.body })

/-- the request loop. `shared = true`: one responder for the whole tunnel;
    `false`: a fresh one per request (also what net/http gives plain requests). -/
def serve (shared : Bool) (cfg : Cfg) (tbl : Nat → Option ORes) : Responder → Cache → Int → List Req → List Wire
  | _, _, _, [] => []
  | rs, c, now, r :: rest =>
    let (resp, c', _) := handle cfg tbl c now r
    let (rs', w) := respond (if shared then rs else []) resp
    w :: serve shared cfg tbl rs' c' (now + 1) rest

/-- plain proxying of the same sequence: every request on its own connection. -/
def servePlain (cfg : Cfg) (tbl : Nat → Option ORes) : Cache → Int → List Req → List Wire
  | _, _, [] => []
  | c, now, r :: rest =>
    let (resp, c', _) := handle cfg tbl c now r
    (respond [] resp).2 :: servePlain cfg tbl c' (now + 1) rest

end Rv.Tunnel
