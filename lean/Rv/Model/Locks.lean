/-
  Rv.Model.Locks — the lock protocol of packages cache / utils/syncmap /
  utils/event as (i) a small program language into which the fact extractor
  translates every function body (Rv/Generated/LockFacts.lean, regenerated from
  the source on every run), (ii) its path semantics, (iii) a static checker of
  the rank discipline (shard lock = rank 1, map lock `mu` = rank 2), and (iv) the
  state-level notion of deadlock.  Props/C14 proves: checker accepts ⇒ every
  path is disciplined ⇒ no set of threads can wait for each other in a cycle,
  for any number of threads and shards.
-/
namespace Rv.Locks

/-- lock programs: what a Go function body does with locks, channels and calls.
    `tryAcq` stands for a TryLock that SUCCEEDED (the failing outcome is the other
    branch of the enclosing `alt`). -/
inductive Prog where
  | skip
  | lock (cls src : String)
  | rlock (cls src : String)
  | tryAcq (cls src : String)
  | unlock (cls src : String)
  | runlock (cls src : String)
  | deferUnlock (cls src : String)
  | deferRUnlock (cls src : String)
  | call (kind name src : String)
  | chanSend (ch src : String)
  | chanRecv (ch src : String)
  | chanClose (ch src : String)
  | go (name src : String)
  | access (loc kind src : String)   -- read ("r") / write ("w") of a curated shared location (C15); no lock effect
  | seq (a b : Prog)
  | alt (a b : Prog)
  | loop (body : Prog)
  | catchBrk (p : Prog)       -- a `break` inside leaves p (switch / select clause)
  | ret
  | brk
  | cont
  | unknown (what src : String)
  deriving Repr, DecidableEq

/-- lock classes and their ranks. `shard` stands for "the shard lock of some
    key": two different shard locks have the same rank, so a blocking
    acquisition of one while holding another is already a violation. -/
def rank (cls : String) : Option Nat :=
  if cls = "shard" then some 1 else if cls = "mu" then some 2 else none

/-- a held lock: class and mode (`w` = exclusive, `r` = shared). -/
structure Held where
  cls : String
  shared : Bool
  deriving Repr, DecidableEq

/-- abstract state of one thread inside one function: locks held (innermost
    first) and the releases registered with `defer` (run at function exit,
    last registered first). -/
structure TS where
  held : List Held
  deferred : List Held
  deriving Repr, DecidableEq

/-- how control leaves a program fragment. -/
inductive Exit where
  | normal | ret | brk | cont
  deriving Repr, DecidableEq

/-- one observable event of a path. `acq … blocking` carries the locks held at
    that moment: this is what the rank discipline talks about. -/
inductive Ev where
  | acq (cls : String) (shared blocking : Bool) (heldBefore : List Held)
  | rel (cls : String) (shared : Bool)
  | wait (what : String) (heldBefore : List Held)      -- channel operation or blocking I/O
  | callback (what : String) (heldBefore : List Held)  -- call of a function value supplied by the caller
  deriving Repr, DecidableEq

/-- the discipline on one event. -/
def evOk : Ev → Bool
  | .acq cls _ true held =>
    match rank cls with
    | none => false
    | some r => held.all (fun h => match rank h.cls with
      | some rh => rh < r
      | none => false)
  | .acq cls _ false _ => (rank cls).isSome
  | .rel _ _ => true
  | .wait _ held => held.all (fun h => h.cls ≠ "mu")     -- `mu` is never held across a wait
  | .callback _ held => held.all (fun h => h.cls ≠ "mu")

/-! ### how a call is resolved -/

inductive Target where
  | fns (names : List String)   -- one of these summaries is executed (both cache backends for the janitor)
  | leaf                        -- does not touch the modelled locks, does not block
  | io                          -- may block on I/O (never on a modelled lock)
  | callback                    -- a function value supplied by the caller
  | unknown
  deriving Repr, DecidableEq

/-! string helpers that the kernel can evaluate (`String.splitOn`/`startsWith` are
    defined by well-founded recursion and do not reduce under `decide`) -/

def splitC (sep : Char) : List Char → List (List Char)
  | [] => [[]]
  | c :: cs =>
    if c = sep then [] :: splitC sep cs
    else match splitC sep cs with
      | [] => [[c]]
      | h :: t => (c :: h) :: t

def splitS (sep : Char) (x : String) : List String := (splitC sep x.toList).map String.ofList

def hasPrefix (x pre : String) : Bool := pre.toList.isPrefixOf x.toList

def dropS (x : String) (n : Nat) : String := String.ofList (x.toList.drop n)

/-- the type whose methods a summary's receiver calls resolve to. Closures defined inside a constructor
    (`cacheFunctions` fields, OnChange listeners) are named after their FILE by the extractor; the variable
    they capture (`c`, `j`) is the object under construction. The file -> type table is checked against the
    extracted `closureOwners` facts by Props/C14.closure_owners_as_assumed. -/
def closureOwner (fileBase : String) : String :=
  if fileBase = "file_cache" then "FileCache"
  else if fileBase = "memory_cache" then "MemoryCache"
  else if fileBase = "cache_janitor" then "cacheJanitor"
  else fileBase

def ownerOf (caller : String) : String :=
  match splitS ':' caller with
  | [pkg, rest] => pkg ++ ":" ++ closureOwner ((splitS '.' rest).headD "")
  | _ => caller

def lockMethod (m : String) : Bool :=
  m = "Lock" || m = "RLock" || m = "Unlock" || m = "RUnlock" || m = "TryLock" || m = "TryRLock" || m = "Wait"

/-- method calls on local values that are not the receiver: values of library
    or atomic types (`meta.Expires.Before`, `c.byteSize.Get`, `file.Close`, …).
    Anything that looks like a lock operation the extractor did not classify is
    `unknown`. -/
def leafOrUnknown (name : String) : Target :=
  let last := (splitS '.' name).getLast?.getD ""
  if lockMethod last then .unknown else .leaf

/-- resolution of a call event inside summary `caller`. Everything not listed is
    `unknown`, which fails the discipline check (a new call must be classified
    before the theorem holds again). -/
def resolve (known : String → Bool) (caller kind name : String) : Target :=
  if kind = "builtin" then .leaf
  else if kind = "deferred" then .leaf
  else if kind = "pkg" || kind = "deferred-pkg" then
    (if name = "io.Copy" then .io
     else if hasPrefix name "sync." || name = "time.Sleep" then .unknown
     else .leaf)
  else
    -- calls through the janitor's function table: either backend
    if hasPrefix name "j.cacheFns." then
      let f := dropS name 11
      .fns ["cache:memory_cache.cacheFns." ++ f, "cache:file_cache.cacheFns." ++ f]
    else if name = "c.janitor.evict" then .fns ["cache:cacheJanitor.evict"]
    else if name = "c.janitor.stop" then .fns ["cache:cacheJanitor.stop"]
    else if name = "c.janitor.start" then .fns ["cache:cacheJanitor.start"]
    else if name = "c.subs.UnsubscribeAll" || name = "j.subs.UnsubscribeAll" then .fns ["config:ConfigSubscriber.UnsubscribeAll"]
    else if name = "c.subs.Add" || name = "j.subs.Add" then .fns ["config:ConfigSubscriber.Add"]
    else if name = "unsub" then .fns ["utils/event:Event.Subscribe.returned"]
    else if name = "buf.ReadFrom" then .io
    else if name = "yield" || name = "modifier" || name = "subscriber.fn" || name = "fn" then .callback
    else if name = "verifYield" then .leaf
    else
      -- method on the receiver of the enclosing function, or a package-level function of the same package
      let owner := ownerOf caller
      let pkg := (splitS ':' caller).headD ""
      match splitS '.' name with
      | [f] => if known (pkg ++ ":" ++ f) then .fns [pkg ++ ":" ++ f] else .unknown
      | [r, m] =>
        if (r = "c" || r = "j" || r = "s" || r = "sm" || r = "e" || r = "p") && known (owner ++ "." ++ m) then .fns [owner ++ "." ++ m]
        else leafOrUnknown name
      | _ => leafOrUnknown name

/-! ### path semantics -/

def removeFirst (h : Held) : List Held → Option (List Held)
  | [] => none
  | x :: xs => if x = h then some xs else (removeFirst h xs).map (x :: ·)

/-- run the deferred releases at function exit. `none` = releasing a lock that
    is not held. -/
def runDeferred : List Held → List Held → Option (List Held × List Ev)
  | held, [] => some (held, [])
  | held, d :: ds =>
    match removeFirst d held with
    | none => none
    | some held' => match runDeferred held' ds with
      | none => none
      | some (h2, evs) => some (h2, .rel d.cls d.shared :: evs)

abbrev Facts := List (String × Prog)

def lookupFn (facts : Facts) (name : String) : Option Prog := (facts.find? (·.1 = name)).map (·.2)

def knownFn (facts : Facts) (name : String) : Bool := (lookupFn facts name).isSome

/-- `Exec facts caller p ts evs ts' ex`: program `p` (inside summary `caller`),
    started with thread state `ts`, can produce the events `evs`, ending in
    state `ts'` with exit `ex`. `stuck`-free: an `unknown`, an unresolvable call
    or a release of a lock that is not held has NO derivation — the static
    checker rejects exactly those, see `check`. -/
inductive Exec (facts : Facts) : String → Prog → TS → List Ev → TS → Exit → Prop where
  | skip : Exec facts c .skip ts [] ts .normal
  | lock : Exec facts c (.lock cls s) ts [.acq cls false true ts.held] { ts with held := ⟨cls, false⟩ :: ts.held } .normal
  | rlock : Exec facts c (.rlock cls s) ts [.acq cls true true ts.held] { ts with held := ⟨cls, true⟩ :: ts.held } .normal
  | tryAcq : Exec facts c (.tryAcq cls s) ts [.acq cls false false ts.held] { ts with held := ⟨cls, false⟩ :: ts.held } .normal
  | unlock : removeFirst ⟨cls, false⟩ ts.held = some h' →
      Exec facts c (.unlock cls s) ts [.rel cls false] { ts with held := h' } .normal
  | runlock : removeFirst ⟨cls, true⟩ ts.held = some h' →
      Exec facts c (.runlock cls s) ts [.rel cls true] { ts with held := h' } .normal
  | deferUnlock : Exec facts c (.deferUnlock cls s) ts [] { ts with deferred := ⟨cls, false⟩ :: ts.deferred } .normal
  | deferRUnlock : Exec facts c (.deferRUnlock cls s) ts [] { ts with deferred := ⟨cls, true⟩ :: ts.deferred } .normal
  | callLeaf : resolve (knownFn facts) c kind name = .leaf → Exec facts c (.call kind name s) ts [] ts .normal
  | callIo : resolve (knownFn facts) c kind name = .io → Exec facts c (.call kind name s) ts [.wait name ts.held] ts .normal
  | callCallback : resolve (knownFn facts) c kind name = .callback →
      Exec facts c (.call kind name s) ts [.callback name ts.held] ts .normal
  | callFn : resolve (knownFn facts) c kind name = .fns names → f ∈ names → lookupFn facts f = some body →
      Exec facts f body { held := ts.held, deferred := [] } evs ts1 ex → (ex = .normal ∨ ex = .ret) →
      runDeferred ts1.held ts1.deferred = some (h2, devs) →
      Exec facts c (.call kind name s) ts (evs ++ devs) { ts with held := h2 } .normal
  | chanSend : Exec facts c (.chanSend ch s) ts [.wait ch ts.held] ts .normal
  | chanRecv : Exec facts c (.chanRecv ch s) ts [.wait ch ts.held] ts .normal
  | chanClose : Exec facts c (.chanClose ch s) ts [] ts .normal
  | go : Exec facts c (.go name s) ts [] ts .normal
  | access : Exec facts c (.access loc kind s) ts [] ts .normal
  | seqNormal : Exec facts c a ts e1 ts1 .normal → Exec facts c b ts1 e2 ts2 ex →
      Exec facts c (.seq a b) ts (e1 ++ e2) ts2 ex
  | seqExit : Exec facts c a ts e1 ts1 ex → ex ≠ .normal → Exec facts c (.seq a b) ts e1 ts1 ex
  | altL : Exec facts c a ts e ts1 ex → Exec facts c (.alt a b) ts e ts1 ex
  | altR : Exec facts c b ts e ts1 ex → Exec facts c (.alt a b) ts e ts1 ex
  | loopDone : Exec facts c (.loop body) ts [] ts .normal
  | loopIter : Exec facts c body ts e1 ts1 ex → (ex = .normal ∨ ex = .cont) →
      Exec facts c (.loop body) ts1 e2 ts2 ex2 → Exec facts c (.loop body) ts (e1 ++ e2) ts2 ex2
  | loopBrk : Exec facts c body ts e1 ts1 .brk → Exec facts c (.loop body) ts e1 ts1 .normal
  | loopRet : Exec facts c body ts e1 ts1 .ret → Exec facts c (.loop body) ts e1 ts1 .ret
  | catchBrk : Exec facts c p ts e ts1 ex → Exec facts c (.catchBrk p) ts e ts1 (if ex = .brk then .normal else ex)
  | ret : Exec facts c .ret ts [] ts .ret
  | brk : Exec facts c .brk ts [] ts .brk
  | cont : Exec facts c .cont ts [] ts .cont

/-! ### the static checker

  `T name held = true` is the claim "summary `name`, entered holding `held`,
  is disciplined on every path and returns holding exactly `held` again".
  `bodyOk T …` checks one body against that table; Props/C14 shows that a table
  which is a post-fixpoint of `bodyOk` is sound for `Exec`. -/

abbrev Table := String → List Held → Bool

/-- result of abstractly running a fragment: the possible (state, exit) pairs,
    or failure. -/
abbrev Outs := Option (List (TS × Exit))

def bindOuts (o : Outs) (f : TS → Outs) (keep : Exit → Bool) : Outs :=
  match o with
  | none => none
  | some outs =>
    outs.foldl (fun (acc : Outs) (p : TS × Exit) =>
      match acc with
      | none => none
      | some l =>
        if keep p.2 then (match f p.1 with
          | none => none
          | some l2 => some (l ++ l2))
        else some (l ++ [p])) (some [])

def absRun (facts : Facts) (T : Table) (caller : String) : Prog → TS → Outs
  | .skip, ts => some [(ts, .normal)]
  | .lock cls _, ts => if evOk (.acq cls false true ts.held) then some [({ ts with held := ⟨cls, false⟩ :: ts.held }, .normal)] else none
  | .rlock cls _, ts => if evOk (.acq cls true true ts.held) then some [({ ts with held := ⟨cls, true⟩ :: ts.held }, .normal)] else none
  | .tryAcq cls _, ts => if evOk (.acq cls false false ts.held) then some [({ ts with held := ⟨cls, false⟩ :: ts.held }, .normal)] else none
  | .unlock cls _, ts => (removeFirst ⟨cls, false⟩ ts.held).map (fun h => [({ ts with held := h }, .normal)])
  | .runlock cls _, ts => (removeFirst ⟨cls, true⟩ ts.held).map (fun h => [({ ts with held := h }, .normal)])
  | .deferUnlock cls _, ts => some [({ ts with deferred := ⟨cls, false⟩ :: ts.deferred }, .normal)]
  | .deferRUnlock cls _, ts => some [({ ts with deferred := ⟨cls, true⟩ :: ts.deferred }, .normal)]
  | .call kind name _, ts =>
    match resolve (knownFn facts) caller kind name with
    | .leaf => some [(ts, .normal)]
    | .io => if evOk (.wait name ts.held) then some [(ts, .normal)] else none
    | .callback => if evOk (.callback name ts.held) then some [(ts, .normal)] else none
    | .fns names => if names.all (fun f => knownFn facts f && T f ts.held) then some [(ts, .normal)] else none
    | .unknown => none
  | .chanSend ch _, ts => if evOk (.wait ch ts.held) then some [(ts, .normal)] else none
  | .chanRecv ch _, ts => if evOk (.wait ch ts.held) then some [(ts, .normal)] else none
  | .chanClose _ _, ts => some [(ts, .normal)]
  | .go _ _, ts => some [(ts, .normal)]
  | .access _ _ _, ts => some [(ts, .normal)]
  | .seq a b, ts => bindOuts (absRun facts T caller a ts) (absRun facts T caller b) (· = .normal)
  | .alt a b, ts =>
    match absRun facts T caller a ts, absRun facts T caller b ts with
    | some x, some y => some (x ++ y)
    | _, _ => none
  | .loop body, ts =>
    -- the body must be lock-neutral on every path that comes back to the loop head
    match absRun facts T caller body ts with
    | none => none
    | some outs =>
      if outs.all (fun p => (p.2 = .normal || p.2 = .cont) → p.1 = ts) then
        some ((ts, .normal) :: outs.filterMap (fun p => match p.2 with
          | .brk => some (p.1, Exit.normal)
          | .ret => some (p.1, Exit.ret)
          | _ => none))
      else none
  | .catchBrk p, ts => (absRun facts T caller p ts).map (·.map (fun q => (q.1, if q.2 = .brk then .normal else q.2)))
  | .ret, ts => some [(ts, .ret)]
  | .brk, ts => some [(ts, .brk)]
  | .cont, ts => some [(ts, .cont)]
  | .unknown _ _, _ => none

/-- the body of `name`, entered holding `held`, is disciplined and comes back
    holding exactly `held` (relative to table `T` for its callees). -/
def bodyOk (facts : Facts) (T : Table) (name : String) (held : List Held) : Bool :=
  match lookupFn facts name with
  | none => false
  | some body =>
    match absRun facts T name body { held := held, deferred := [] } with
    | none => false
    | some outs => outs.all (fun p =>
        (p.2 = .normal || p.2 = .ret) &&
        (match runDeferred p.1.held p.1.deferred with
          | some (h, _) => h = held
          | none => false))

/-- the entry contexts the cache API and the janitor are ever called with. -/
def contexts : List (List Held) := [[], [⟨"shard", false⟩], [⟨"shard", false⟩, ⟨"shard", false⟩]]

/-- the candidate table: start from "everything fine" on the listed contexts and
    remove what fails, `n` times. -/
def refine (facts : Facts) (T : Table) : Table := fun f h => T f h && bodyOk facts T f h

def iter (facts : Facts) : Nat → Table → Table
  | 0, T => T
  | n + 1, T => iter facts n (refine facts T)

def top : Table := fun _ h => contexts.contains h

/-- memoised form of a table over the finitely many (function, context) pairs. -/
def tabulate (facts : Facts) (T : Table) : List (String × List Held × Bool) :=
  facts.flatMap (fun f => contexts.map (fun h => (f.1, h, T f.1 h)))

def ofList (l : List (String × List Held × Bool)) : Table :=
  fun f h => match l.find? (fun e => e.1 = f && e.2.1 = h) with
    | some e => e.2.2
    | none => false

/-- `T` is a post-fixpoint: every claim it makes is justified by `bodyOk` w.r.t.
    `T` itself. -/
def postFix (facts : Facts) (l : List (String × List Held × Bool)) : Bool :=
  l.all (fun e => !e.2.2 || bodyOk facts (ofList l) e.1 e.2.1)

/-- all events of a path satisfy the discipline. -/
def DiscPath (evs : List Ev) : Prop := ∀ e ∈ evs, evOk e = true

/-! ### deadlock, at the level of system states

  Any number of threads; thread `t` holds the locks `holds t` (each lock a pair
  of class and index, e.g. shard 17) and is possibly blocked waiting for
  `waits t`. -/

structure LockId where
  cls : String
  idx : Nat
  deriving Repr, DecidableEq

structure Sys (Thread : Type) where
  holds : Thread → List LockId
  waits : Thread → Option LockId

/-- the discipline as a state property: a thread blocked on `l` holds only locks
    of strictly smaller rank. -/
def Sys.Disciplined {Thread : Type} (s : Sys Thread) : Prop :=
  ∀ t l, s.waits t = some l → ∃ r, rank l.cls = some r ∧ ∀ h ∈ s.holds t, ∃ rh, rank h.cls = some rh ∧ rh < r

/-- a deadlocked set: non-empty, every member is blocked on a lock held by a
    member. -/
def Sys.Deadlocked {Thread : Type} (s : Sys Thread) (S : List Thread) : Prop :=
  S ≠ [] ∧ ∀ t ∈ S, ∃ l, s.waits t = some l ∧ ∃ t' ∈ S, l ∈ s.holds t'

end Rv.Locks
