/-
  Rv.Model.Race — C15: the lock-set argument, stated against the Go memory
  model's own vocabulary.

  A trace is a global sequence of events of threads (goroutines): lock
  acquisitions and releases of sync.Mutex / sync.RWMutex INSTANCES, and reads and
  writes of memory LOCATIONS. A trace is well formed when it respects what the
  mutexes enforce (an exclusive acquisition only when nobody holds the lock, a
  shared one only when no writer holds it, a release only by a holder in that
  mode).

  Happens-before, as the Go memory model defines it for mutexes
  (https://go.dev/ref/mem, "Locks"): program order within a goroutine; call n of
  l.Unlock is synchronized before call m > n of l.Lock returns; an l.RLock
  returns after the Unlock before it; an l.RUnlock is synchronized before the
  next l.Lock. That is: a release at position i and a LATER acquisition of the
  same lock at j are ordered unless both are in shared mode. A data race is a
  pair of conflicting accesses (same location, different goroutines, at least
  one a write) not ordered by happens-before.

  Props/C15 proves: two conflicting accesses made while both goroutines hold the
  same lock instance, not both in shared mode, are ordered by happens-before —
  in every well-formed trace, of any length, with any number of goroutines and
  locks. Which access sites hold which locks is extracted from the source
  (Rv/Generated/LockFacts.lean, `.access` events) and judged by
  Rv.Access.protectedPair.
-/
namespace Rv.Race

inductive Ev where
  | acq (l : Nat) (shared : Bool)       -- Lock / successful TryLock (shared = false), RLock (shared = true) returns
  | rel (l : Nat) (shared : Bool)       -- Unlock (false) / RUnlock (true)
  | access (loc : Nat) (write : Bool)
  | other
  deriving Repr, DecidableEq

structure Event where
  tid : Nat
  ev : Ev
  deriving Repr, DecidableEq

abbrev Trace := List Event

/-- one holding of a lock: who, which lock, in which mode. -/
structure Hold where
  tid : Nat
  l : Nat
  shared : Bool
  deriving Repr, DecidableEq

def removeFirst (h : Hold) : List Hold → List Hold
  | [] => []
  | x :: xs => if x = h then xs else x :: removeFirst h xs

/-- may event `e` happen when the locks are held as in `hs`? -/
def allowed (hs : List Hold) (e : Event) : Bool :=
  match e.ev with
  | .acq l false => hs.all (fun h => h.l ≠ l)                                   -- exclusive: nobody holds l
  | .acq l true => hs.all (fun h => h.l ≠ l || h.shared)                        -- shared: no writer holds l
  | .rel l s => hs.contains { tid := e.tid, l := l, shared := s }               -- only a holder releases, in its mode
  | _ => true

def apply (hs : List Hold) (e : Event) : List Hold :=
  match e.ev with
  | .acq l s => { tid := e.tid, l := l, shared := s } :: hs
  | .rel l s => removeFirst { tid := e.tid, l := l, shared := s } hs
  | _ => hs

/-- the holdings after a trace. -/
def holds (tr : Trace) : List Hold := tr.foldl apply []

/-- well-formedness: every event is allowed in the state its prefix leads to. -/
def WF : Trace → List Hold → Bool
  | [], _ => true
  | e :: rest, hs => allowed hs e && WF rest (apply hs e)

def wellFormed (tr : Trace) : Bool := WF tr []

/-- happens-before between positions of a trace (Go memory model, mutex rules). -/
inductive HB (tr : Trace) : Nat → Nat → Prop where
  | po (i j : Nat) (a b : Event) : i < j → tr[i]? = some a → tr[j]? = some b → a.tid = b.tid → HB tr i j
  | sync (i j : Nat) (a b : Event) (l : Nat) (s1 s2 : Bool) : i < j → tr[i]? = some a → tr[j]? = some b →
      a.ev = .rel l s1 → b.ev = .acq l s2 → ¬ (s1 = true ∧ s2 = true) → HB tr i j
  | trans (i j k : Nat) : HB tr i j → HB tr j k → HB tr i k

/-- thread `t` holds lock `l` in mode `s` just before position `i`. -/
def holdsAt (tr : Trace) (i : Nat) (t l : Nat) (s : Bool) : Bool :=
  (holds (tr.take i)).contains { tid := t, l := l, shared := s }

/-- a data race: conflicting accesses of different goroutines not ordered by happens-before. -/
def Race (tr : Trace) (i j : Nat) : Prop :=
  ∃ a b loc w1 w2, i < j ∧ tr[i]? = some a ∧ tr[j]? = some b ∧ a.tid ≠ b.tid ∧
    a.ev = .access loc w1 ∧ b.ev = .access loc w2 ∧ (w1 = true ∨ w2 = true) ∧ ¬ HB tr i j

end Rv.Race
