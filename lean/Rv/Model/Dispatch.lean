import Rv.Model.Fetch
import Rv.Model.SrcViews
/-
  Rv.Model.Dispatch — which handler the fetcher runs on an upstream answer, isolated.

  `Rv.Fetch.onAnswer` / `Rv.Fetch.fetchUpstream` decide by the CONSTRUCTOR of the
  scripted origin answer (`OAns`); the code (`handleUpstreamResponse`) switches
  on the status code.  `dispatchOf` is the code's decision as a function of the
  status; the theorems below PROVE that the model's machine takes the
  corresponding path, for every answer whose constructor agrees with its status
  (`Scripted`: a `.full o` does not carry status 304 or 416 — see the finding
  in Props/SrcDispatch).  No definition of Rv.Model.Fetch is changed.
-/
namespace Rv.Fetch
open Rv.SrcViews

/-- `handleUpstreamResponse`'s switch: 200 ↦ handleUpstream200, 304 ↦ handleUpstream304, 416 ↦ handleUpstream416 with
    `noRetry || !retry_on_range_416`, anything else is passed through. -/
def dispatchOf (cfg : Cfg) (status : Nat) (noRetry : Bool) : Dispatch :=
  if status = 200 then .ok200
  else if status = 304 then .notModified
  else if status = 416 then .unsat416 (noRetry || !cfg.retry416)
  else .passThrough

/-- the answer's constructor agrees with the status the code will see. -/
def Scripted : OAns → Prop
  | .full o => o.status ≠ 304 ∧ o.status ≠ 416
  | _ => True

/-- pass-through: the machine relays the answer and leaves the cache alone. -/
theorem onAnswer_passThrough (cfg : Cfg) (c : Cache) (now : Int) (u : UpReq) (a : OAns) (nr : Bool)
    (hs : Scripted a) (hd : dispatchOf cfg (ansStatus a) nr = .passThrough) :
    onAnswer cfg c now u a = (.direct a, c) := by
  cases a <;> simp_all [dispatchOf, ansStatus, onAnswer, Scripted]
  all_goals ((repeat' split at hd) <;> (try simp_all))

/-- 200: the answer is a full response with status 200 and the machine stores it exactly when `storable`
    (`shouldResponseBeCached`) says so, else relays it. -/
theorem onAnswer_ok200 (cfg : Cfg) (c : Cache) (now : Int) (u : UpReq) (a : OAns) (nr : Bool)
    (hs : Scripted a) (hd : dispatchOf cfg (ansStatus a) nr = .ok200) :
    ∃ o, a = .full o ∧ o.status = 200 ∧
      onAnswer cfg c now u a =
        if storable cfg o u.method now then
          (if storeFails cfg o then (.notCacheable, c)
           else (.cached { res := u.res, query := u.query, o := o, expires := lifetimeEnd cfg o now, timeWritten := now } 200,
                 { res := u.res, query := u.query, o := o, expires := lifetimeEnd cfg o now, timeWritten := now } :: erase c u.res u.query))
        else (.direct a, c) := by
  cases a <;> simp_all [dispatchOf, ansStatus, onAnswer, Scripted]
  all_goals ((repeat' split at hd) <;> (try simp_all))

/-- 304: the answer is a `notModified` and the machine refreshes the stored entry (or fails when it is gone). -/
theorem onAnswer_notModified (cfg : Cfg) (c : Cache) (now : Int) (u : UpReq) (a : OAns) (nr : Bool)
    (hs : Scripted a) (hd : dispatchOf cfg (ansStatus a) nr = .notModified) :
    ∃ o, a = .notModified o ∧
      onAnswer cfg c now u a =
        match lookup c u.res u.query with
        | none => (.notCacheable, c)
        | some e => (.cached { e with expires := now + cfg.defaultMaxAge } 304,
                     { e with expires := now + cfg.defaultMaxAge } :: erase c u.res u.query) := by
  cases a <;> simp_all [dispatchOf, ansStatus, onAnswer, Scripted]
  all_goals ((repeat' split at hd) <;> (try simp_all))
  all_goals (cases lookup c u.res u.query <;> rfl)

/-- 416 on the first exchange (`noRetry = false`): the argument the code passes to `handleUpstream416` is
    `!retry_on_range_416`; when it is true the machine relays the 416 after ONE exchange, when it is false it asks the
    origin a second time without the Range (and that answer is handled with `noRetry = true`). -/
theorem fetchUpstream_unsat (cfg : Cfg) (tbl : Nat → Option ORes) (c : Cache) (now : Int) (u : UpReq) (rp : Bool)
    (o : ORes) (ha : originAnswer tbl u = .unsat o) :
    dispatchOf cfg (ansStatus (originAnswer tbl u)) false = .unsat416 (!cfg.retry416) ∧
    (cfg.retry416 = false →
      (fetchUpstream cfg tbl c now u rp).out = .direct (.unsat o) ∧ (fetchUpstream cfg tbl c now u rp).log = [u]) ∧
    (cfg.retry416 = true →
      (fetchUpstream cfg tbl c now u rp).log = [u, if rp then { u with range := none } else u] ∧
      (fetchUpstream cfg tbl c now u rp).out =
        (onAnswer cfg c now (if rp then { u with range := none } else u)
          (originAnswer tbl (if rp then { u with range := none } else u))).1) := by
  refine ⟨by simp [ha, dispatchOf, ansStatus], ?_, ?_⟩ <;> intro h <;> simp [fetchUpstream, ha, h]

/-- 416 on the retry (`noRetry = true`): never a third exchange — the machine relays it. -/
theorem onAnswer_unsat_relayed (cfg : Cfg) (c : Cache) (now : Int) (u : UpReq) (o : ORes) :
    dispatchOf cfg (ansStatus (.unsat o)) true = .unsat416 true ∧ onAnswer cfg c now u (.unsat o) = (.direct (.unsat o), c) := by
  simp [dispatchOf, ansStatus, onAnswer]

end Rv.Fetch
