import Rv.Model.Fetch
/-
  Rv.Model.Labels — the response-labelling of the request machine, isolated.

  `Rv.Fetch.fullFromCache` and `Rv.Fetch.relay` set `label`, `fwdStatus`,
  `storedFlag` and `age` of a response inline.  `cacheStatusOf` / `ageShown`
  state that labelling as one function of (was the response built from a cache
  entry, the label, the upstream status); `fullFromCache_cacheStatus` and
  `relay_cacheStatus` PROVE that the machine's two response builders agree with
  it, and Props/SrcLabels ties it to the translated Go
  (`fetchResultToCacheStatus`, `addCacheHeaders`).
-/
namespace Rv.Fetch

/-- what `Cache-Status` / `X-Cache` say about a labelled response. -/
structure CacheStatus where
  label : Label
  fwdStale : Bool              -- `fwd=stale`
  fwdStatus : Option Nat       -- `fwd-status=`
  stored : Bool                -- `stored`
  deriving Repr, DecidableEq

/-- the labelling: `cached` = the response is built from a cache entry (fetchTypeCached), `label` ≠ none what the
    fetch found, `upStatus` the status the origin answered (meaningful for miss / revalidated). -/
def cacheStatusOf (cached : Bool) (label : Label) (upStatus : Nat) : CacheStatus :=
  { label := label,
    fwdStale := decide (label = .revalidated),
    fwdStatus := (match label with | .miss | .revalidated => some upStatus | _ => none),
    stored := cached && decide (label = .miss) }

/-- the `Age` header is set exactly on a response served from a cache entry that was already stored before this
    request (hit, or revalidated). -/
def ageShown (cached : Bool) (label : Label) : Bool :=
  cached && (decide (label = .hit) || decide (label = .revalidated))

/-- `fullFromCache` labels as `cacheStatusOf true`. -/
theorem fullFromCache_cacheStatus (e : CEntry) (l : Label) (up : Nat) (m : String) (now : Int) :
    (fullFromCache e l up m now).label = (cacheStatusOf true l up).label ∧
    (fullFromCache e l up m now).fwdStatus = (cacheStatusOf true l up).fwdStatus ∧
    (fullFromCache e l up m now).storedFlag = (cacheStatusOf true l up).stored ∧
    (fullFromCache e l up m now).age.isSome = ageShown true l := by
  cases l <;> exact ⟨rfl, rfl, rfl, rfl⟩

/-- `relay` of a 2xx origin answer (the only case in which the proxy labels a relayed response) labels as
    `cacheStatusOf false` with the answer's status; a relayed response is always a `miss` (`directFallback`,
    `dedupFetchEnv`). -/
theorem relay_cacheStatus (a : OAns) (m : String) (l : Label) (h2xx : 200 ≤ ansStatus a ∧ ansStatus a < 300)
    (hl : l = .miss) :
    (relay a m l).label = (cacheStatusOf false l (ansStatus a)).label ∧
    (relay a m l).fwdStatus = (cacheStatusOf false l (ansStatus a)).fwdStatus ∧
    (relay a m l).storedFlag = (cacheStatusOf false l (ansStatus a)).stored ∧
    (relay a m l).age.isSome = ageShown false l := by
  subst hl
  simp [relay, cacheStatusOf, ageShown, h2xx]

/-- a relayed answer that is not 2xx carries no label at all (the Go code does not call `addCacheHeaders`). -/
theorem relay_unlabelled (a : OAns) (m : String) (l : Label) (h : ¬ (200 ≤ ansStatus a ∧ ansStatus a < 300)) :
    (relay a m l).label = .none ∧ (relay a m l).fwdStatus = none := by
  simp only [relay]
  simp [h]

end Rv.Fetch

/-! ### the text of the `Cache-Status` header (RFC 9211) -/
namespace Rv.Labels
open Rv Rv.Fetch

/-- `strings.Join(xs, "; ")`. -/
def joinParams : List Str → Str
  | [] => []
  | [a] => a
  | a :: rest => a ++ s "; " ++ joinParams rest

/-- the members of the `Cache-Status` item, in the order the proxy writes them: the cache's name, then
    `hit` / `hit; detail="revalidated"` / `miss`, then `fwd=stale` (the only forward reason the machine produces),
    `fwd-status=N`, `stored`, and `ttl=N` when the response comes from a cache entry (`cached`) that was already
    stored before this request (hit or revalidated). -/
def cacheStatusParams (cs : CacheStatus) (cached : Bool) (ttl : Nat) : List Str :=
  [s "reservoir"] ++
  (match cs.label with
    | .hit => [s "hit"]
    | .revalidated => [s "hit; detail=\"revalidated\""]
    | .miss => [s "miss"]
    | .none => []) ++
  (if cs.fwdStale then [s "fwd=stale"] else []) ++
  (match cs.fwdStatus with
    | some n => [s "fwd-status=" ++ toDec n]
    | none => []) ++
  (if cs.stored then [s "stored"] else []) ++
  (if cached && (decide (cs.label = .hit) || decide (cs.label = .revalidated)) then [s "ttl=" ++ toDec ttl] else [])

/-- the value of the `Cache-Status` header. -/
def cacheStatusString (cs : CacheStatus) (cached : Bool) (ttl : Nat) : Str :=
  joinParams (cacheStatusParams cs cached ttl)

/-- the same without the `ttl` member: what the correspondence harness compares (it cuts the header at "; ttl=",
    the remaining life time being compared by the real-time family). -/
def cacheStatusNoTtl (cs : CacheStatus) : Str := cacheStatusString cs false 0

end Rv.Labels
