import Rv.Basic
import Rv.Model.CacheControl
/-
  Rv.Model.Phc — utils/phc/phc.go ParsePHC and PHC.String (after the fix
  commit): field splitting, `strconv.Atoi` / `ParseUint` with their ranges,
  `base64.RawStdEncoding` decoding (no padding, CR/LF ignored, trailing bits not
  checked), the 16-byte salt and key-length tests.  Slice index expressions
  (`parts[i]`, `kv[i]`) are checked lookups with a `.panic` outcome.
-/
namespace Rv.Phc
open Rv

def b64Val (c : Char) : Option Nat :=
  if 'A' ≤ c && c ≤ 'Z' then some (c.toNat - 65)
  else if 'a' ≤ c && c ≤ 'z' then some (c.toNat - 71)
  else if '0' ≤ c && c ≤ '9' then some (c.toNat + 4)
  else if c = '+' then some 62
  else if c = '/' then some 63
  else none

/-- sextets of the input; `\r` and `\n` are skipped; any other byte outside the
    alphabet (including '=') is an error. -/
def sextets : Str → Option (List Nat)
  | [] => some []
  | c :: cs =>
    if c = '\r' || c = '\n' then sextets cs
    else match b64Val c, sextets cs with
      | some v, some r => some (v :: r)
      | _, _ => none

/-- groups of four sextets to bytes; a final group of 2 / 3 sextets yields 1 / 2
    bytes, a final single sextet is an error. -/
def sextetsToBytes : List Nat → Option (List Nat)
  | [] => some []
  | [_] => none
  | [a, b] => some [(a * 4 + b / 16) % 256]
  | [a, b, c] => some [(a * 4 + b / 16) % 256, (b * 16 + c / 4) % 256]
  | a :: b :: c :: d :: rest =>
    match sextetsToBytes rest with
    | none => none
    | some r => some ((a * 4 + b / 16) % 256 :: (b * 16 + c / 4) % 256 :: (c * 64 + d) % 256 :: r)

/-- `base64.RawStdEncoding.DecodeString`. -/
def b64Decode (x : Str) : Option (List Nat) :=
  match sextets x with
  | none => none
  | some sx => sextetsToBytes sx

def b64Char (v : Nat) : Char :=
  if v < 26 then Char.ofNat (65 + v)
  else if v < 52 then Char.ofNat (71 + v)
  else if v < 62 then Char.ofNat (v - 4)
  else if v = 62 then '+' else '/'

/-- `base64.RawStdEncoding.EncodeToString`. -/
def b64Encode : List Nat → Str
  | [] => []
  | [a] => [b64Char (a / 4), b64Char (a % 4 * 16)]
  | [a, b] => [b64Char (a / 4), b64Char (a % 4 * 16 + b / 16), b64Char (b % 16 * 4)]
  | a :: b :: c :: rest =>
    b64Char (a / 4) :: b64Char (a % 4 * 16 + b / 16) :: b64Char (b % 16 * 4 + c / 64) :: b64Char (c % 64) :: b64Encode rest

/-- `strconv.ParseUint(x, 10, bits)`: digits only, non-empty, below `2^bits`. -/
def parseUint (x : Str) (bits : Nat) : Option Nat :=
  if x = [] || !allDigits x then none
  else if decVal x < 2 ^ bits then some (decVal x) else none

structure PHC where
  version : Int
  memory : Nat
  time : Nat
  threads : Nat
  keyLen : Nat
  salt : List Nat
  hash : List Nat
  deriving Repr, DecidableEq

inductive Res where
  | panic
  | err
  | ok (p : PHC)
  deriving Repr, DecidableEq

structure Params where
  memory : Nat := 0
  time : Nat := 0
  threads : Nat := 0
  keyLen : Nat := 0

inductive PRes where
  | panic | err | ok (p : Params)

def paramStep (p : Params) (seg : Str) : PRes :=
  if seg = [] then .ok p
  else
    -- kv := strings.SplitN(seg, "=", 2)
    let kv : List Str := match cutAt '=' seg with
      | none => [seg]
      | some (k, v) => [k, v]
    if kv.length ≠ 2 then .err
    else match kv[0]?, kv[1]? with
      | some k, some v =>
        if k = ['m'] then (match parseUint v 32 with | some n => .ok { p with memory := n } | none => .err)
        else if k = ['t'] then (match parseUint v 32 with | some n => .ok { p with time := n } | none => .err)
        else if k = ['p'] then (match parseUint v 8 with | some n => .ok { p with threads := n } | none => .err)
        else if k = ['l'] then (match parseUint v 32 with | some n => .ok { p with keyLen := n } | none => .err)
        else .ok p
      | _, _ => .panic

def paramLoop : List Str → Params → PRes
  | [], p => .ok p
  | sg :: rest, p => match paramStep p sg with
    | .ok p' => paramLoop rest p'
    | r => r

def idLit : Str := s "argon2id"

/-- everything after the five parts have been taken apart. -/
def parseFields (id verPart paramsPart saltB64 hashB64 : Str) : Res :=
  if id ≠ idLit then .err
  else match cutPrefix verPart ['v', '='] with
    | none => .err
    | some verStr =>
      match Rv.CacheControl.parseInt64 verStr with
      | none => .err
      | some version =>
        if paramsPart = [] then .err
        else match paramLoop (splitOn ',' paramsPart) {} with
          | .panic => .panic
          | .err => .err
          | .ok p =>
            if p.memory = 0 || p.time = 0 || p.threads = 0 then .err
            else match b64Decode saltB64 with
              | none => .err
              | some salt =>
                if salt.length ≠ 16 then .err
                else match b64Decode hashB64 with
                  | none => .err
                  | some hash =>
                    if hash.length = 0 then .err
                    else if p.keyLen ≠ 0 && p.keyLen ≠ hash.length then .err
                    else .ok { version := version, memory := p.memory, time := p.time, threads := p.threads,
                               keyLen := if p.keyLen = 0 then hash.length else p.keyLen, salt := salt, hash := hash }

/-- strip one leading '$' (`strings.TrimPrefix(s, "$")`). -/
def trimDollar : Str → Str
  | '$' :: r => r
  | r => r

def parsePHC (x0 : Str) : Res :=
  let x1 := trimSpace x0
  if x1 = [] then .err
  else
    let parts := splitOn '$' (trimDollar x1)
    if parts.length ≠ 5 then .err
    else match parts[0]?, parts[1]?, parts[2]?, parts[3]?, parts[4]? with
      | some id, some verPart, some paramsPart, some saltB64, some hashB64 =>
        parseFields id verPart paramsPart saltB64 hashB64
      | _, _, _, _, _ => .panic

/-- `PHC.String()`. -/
def render (p : PHC) : Str :=
  s "$argon2id$v=" ++ intToDec p.version ++ s "$m=" ++ toDec p.memory ++ s ",t=" ++ toDec p.time ++
  s ",p=" ++ toDec p.threads ++ s ",l=" ++ toDec p.keyLen ++ ['$'] ++ b64Encode p.salt ++ ['$'] ++ b64Encode p.hash

end Rv.Phc
