import Rv.Basic
import Rv.Model.ByteSize
/-
  Rv.Model.Config — package config (after the fix commits): the value cells
  (`overwritable` inside `commitable` inside `ConfigProp`), `verify()`,
  `persist()` as an atomic replace of the file, and `UpdatePartialFromConfig` as
  the all-or-nothing transaction stage → commit → verify → persist → notify.

  The configuration is a list of named cells; a value is a tagged scalar. The
  order in which Go walks the update document (a map) is arbitrary, so the model
  takes the document as a list in ANY order and the theorems hold for every
  order.
-/
namespace Rv.Config
open Rv

inductive Val where
  | str (s : String)
  | bool (b : Bool)
  | int (i : Int)
  | dur (ns : Int)          -- duration.Duration
  | size (bytes : Int)      -- bytesize.ByteSize
  | level (l : Int)         -- slog.Level
  deriving Repr, DecidableEq

/-- one ConfigProp: the configured (base) value, the command-line override if
    any, and whether a change needs a restart. -/
structure Cell where
  name : String             -- dotted json path, e.g. "cache.max_cache_size"
  base : Val
  override : Option Val
  restart : Bool
  deriving Repr, DecidableEq

def Cell.read (c : Cell) : Val := c.override.getD c.base

abbrev Cfg := List Cell

def readOf (cfg : Cfg) (name : String) : Option Val := (cfg.find? (·.name = name)).map Cell.read
def baseOf (cfg : Cfg) (name : String) : Option Val := (cfg.find? (·.name = name)).map (·.base)

/-- the file on disk: the base value of every cell (overrides are never written). -/
abbrev File := List (String × Val)

def serialize (cfg : Cfg) : File := cfg.map (fun c => (c.name, c.base))

/-- `Config.verify()` on the effective values. -/
def verify (cfg : Cfg) : Bool :=
  let str (n : String) : String := match readOf cfg n with | some (.str s) => s | _ => ""
  let int (n : String) : Int := match readOf cfg n with | some (.int i) => i | some (.dur d) => d | some (.size b) => b | _ => 0
  str "proxy.listen" ≠ "" && str "proxy.ca_cert" ≠ "" && str "proxy.ca_key" ≠ "" &&
  str "webserver.listen" ≠ "" &&
  int "cache.max_cache_size" > 0 && int "cache.cleanup_interval" > 0 &&
  int "cache.memory.memory_budget_percent" ≥ 0 && int "cache.memory.memory_budget_percent" ≤ 100 &&
  int "cache.lock_shards" ≥ 1 && str "cache.file.dir" ≠ "" &&
  (str "cache.type" = "file" || str "cache.type" = "memory")

/-- what it takes to construct a cache and a proxy and serve a request without
    a panic: the acceptance test the property itself names. -/
def workable (cfg : Cfg) : Prop :=
  (∃ n, readOf cfg "cache.lock_shards" = some (.int n) ∧ 1 ≤ n) ∧
  (∃ d, readOf cfg "cache.cleanup_interval" = some (.dur d) ∧ 0 < d) ∧
  (∃ b, readOf cfg "cache.max_cache_size" = some (.size b) ∧ 0 < b) ∧
  (∃ p, readOf cfg "cache.memory.memory_budget_percent" = some (.int p) ∧ 0 ≤ p ∧ p ≤ 100) ∧
  (readOf cfg "cache.type" = some (.str "file") ∨ readOf cfg "cache.type" = some (.str "memory")) ∧
  (∃ s, readOf cfg "cache.file.dir" = some (.str s) ∧ s ≠ "") ∧
  (∃ s, readOf cfg "proxy.listen" = some (.str s) ∧ s ≠ "")

/-- the cells have the types the schema says (what JSON decoding guarantees). -/
def WellTyped (cfg : Cfg) : Prop :=
  (∀ v, readOf cfg "cache.lock_shards" = some v → ∃ n, v = .int n) ∧
  (∀ v, readOf cfg "cache.cleanup_interval" = some v → ∃ n, v = .dur n) ∧
  (∀ v, readOf cfg "cache.max_cache_size" = some v → ∃ n, v = .size n) ∧
  (∀ v, readOf cfg "cache.memory.memory_budget_percent" = some v → ∃ n, v = .int n) ∧
  (∀ v, readOf cfg "cache.type" = some v → ∃ n, v = .str n) ∧
  (∀ v, readOf cfg "cache.file.dir" = some v → ∃ n, v = .str n) ∧
  (∀ v, readOf cfg "proxy.listen" = some v → ∃ n, v = .str n) ∧
  (readOf cfg "cache.lock_shards").isSome ∧ (readOf cfg "cache.cleanup_interval").isSome ∧
  (readOf cfg "cache.max_cache_size").isSome ∧ (readOf cfg "cache.memory.memory_budget_percent").isSome ∧
  (readOf cfg "cache.type").isSome ∧ (readOf cfg "cache.file.dir").isSome ∧ (readOf cfg "proxy.listen").isSome

/-- one entry of the update document after JSON decoding against the cell's type. -/
inductive Entry where
  | unknown (name : String)            -- no such setting: warned about and skipped
  | illTyped (name : String)           -- the value does not decode into the setting's type
  | set (name : String) (v : Val)
  deriving Repr, DecidableEq

structure State where
  cfg : Cfg
  file : File
  restartNeeded : Bool
  deriving Repr, DecidableEq

/-- a notification delivered to the listeners of a setting: its name and the
    effective value. -/
abbrev Note := String × Val

inductive Status where
  | failed | success | restartRequired
  deriving Repr, DecidableEq

def setBase (cfg : Cfg) (name : String) (v : Val) : Cfg :=
  cfg.map (fun c => if c.name = name then { c with base := v } else c)

def known (cfg : Cfg) (name : String) : Bool := cfg.any (·.name = name)

/-- the settings a document addresses (known names with well-typed values), in document order. -/
def addressed (cfg : Cfg) : List Entry → List (String × Val)
  | [] => []
  | .set n v :: rest => if known cfg n then (n, v) :: addressed cfg rest else addressed cfg rest
  | _ :: rest => addressed cfg rest

def hasIllTyped (cfg : Cfg) (doc : List Entry) : Bool :=
  doc.any (fun e => match e with | .illTyped n => known cfg n | _ => false)

def applyAll (cfg : Cfg) (sets : List (String × Val)) : Cfg := sets.foldl (fun c s => setBase c s.1 s.2) cfg

/-- `UpdatePartialFromConfig`. `persistOk` = the file write succeeds. -/
def update (st : State) (doc : List Entry) (persistOk : Bool) : State × Status × List Note :=
  if hasIllTyped st.cfg doc then (st, .failed, [])             -- staged values discarded
  else
    let sets := addressed st.cfg doc
    let cfg' := applyAll st.cfg sets                            -- staged and committed
    if !verify cfg' then (st, .failed, [])                      -- rolled back
    else if !persistOk then (st, .failed, [])                   -- rolled back, file untouched (temp + rename)
    else
      let notes : List Note := sets.filterMap (fun s =>
        match readOf st.cfg s.1, readOf cfg' s.1 with
        | some old, some new => if old ≠ new then some (s.1, new) else none
        | _, _ => none)
      let restart := st.restartNeeded || sets.any (fun s =>
        match st.cfg.find? (·.name = s.1) with
        | some c => c.restart && decide (baseOf st.cfg s.1 ≠ baseOf cfg' s.1)
        | none => false)
      ({ cfg := cfg', file := serialize cfg', restartNeeded := restart },
       (if restart then .restartRequired else .success), notes)

/-- `ConfigProp.Overwrite` (command-line flag): sets the override, notifies with it. -/
def overwrite (st : State) (name : String) (v : Val) : State × List Note :=
  ({ st with cfg := st.cfg.map (fun c => if c.name = name then { c with override := some v } else c) },
   if known st.cfg name then [(name, v)] else [])

/-- `load` of a file written by `persist`: every cell gets the file's value, no
    overrides. -/
def load (schema : Cfg) (f : File) : Cfg :=
  schema.map (fun c => match f.find? (·.1 = c.name) with
    | some (_, v) => { c with base := v, override := none }
    | none => { c with override := none })

inductive Op where
  | update (doc : List Entry) (persistOk : Bool)
  | overwrite (name : String) (v : Val)
  deriving Repr, DecidableEq

def step (st : State) : Op → State × List Note
  | .update doc ok => let r := update st doc ok; (r.1, r.2.2)
  | .overwrite n v => overwrite st n v

/-- run a history; a component that follows a setting applies the notifications
    in order (`view`). -/
def run : List Op → State → (String → Option Val) → State × (String → Option Val)
  | [], st, view => (st, view)
  | op :: rest, st, view =>
    let (st', notes) := step st op
    let view' := notes.foldl (fun v n => fun k => if k = n.1 then some n.2 else v k) view
    run rest st' view'

end Rv.Config
