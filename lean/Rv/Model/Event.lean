import Rv.Basic
/-
  Rv.Model.Event — utils/event/event.go (after the fix commit) and
  config/subscriber.go.

  `Subscribe` appends `(id, listener)` with a fresh id and returns a remover for
  that id; the remover deletes the first entry with that id (none ⇒ no-op);
  `Fire v` starts one goroutine per current subscriber — modelled as adding one
  pending delivery `(listener, v)` per subscriber to a pool from which the
  scheduler picks in ANY order; a delivery runs the listener, which (for the
  components of reservoir: cache limit, memory cap, janitor interval, log level)
  stores the value in the component's cell.
-/
namespace Rv.Event

structure State where
  subs : List (Nat × Nat)          -- (subscription id, listener)
  nextId : Nat
  pending : List (Nat × Int)       -- deliveries not yet run: (listener, value)
  cell : Nat → Option Int          -- what each component currently holds

def init : State := { subs := [], nextId := 0, pending := [], cell := fun _ => none }

inductive Op where
  | subscribe (listener : Nat)
  | unsubscribe (id : Nat)         -- calling the remover returned for `id`
  | fire (v : Int)
  | deliver (i : Nat)              -- scheduler runs the i-th pending delivery
  deriving Repr, DecidableEq

/-- `for i, sub := range subs { if sub.id == id { remove i; return } }` -/
def removeId (id : Nat) : List (Nat × Nat) → List (Nat × Nat)
  | [] => []
  | x :: xs => if x.1 = id then xs else x :: removeId id xs

def step (st : State) : Op → State
  | .subscribe l => { st with subs := st.subs ++ [(st.nextId, l)], nextId := st.nextId + 1 }
  | .unsubscribe id => { st with subs := removeId id st.subs }
  | .fire v => { st with pending := st.pending ++ st.subs.map (fun x => (x.2, v)) }
  | .deliver i =>
    match st.pending[i]? with
    | none => st
    | some (l, v) =>
      { st with pending := st.pending.eraseIdx i,
                cell := fun k => if k = l then some v else st.cell k }

def run (ops : List Op) (st : State) : State := ops.foldl step st

/-- listeners currently subscribed, in subscription order. -/
def listeners (st : State) : List Nat := st.subs.map (·.2)

end Rv.Event
