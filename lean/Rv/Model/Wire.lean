import Rv.Basic
/-
  Rv.Model.Wire — the BYTES of a kept-alive CONNECT tunnel.

  `proxy.handleCONNECT` answers the requests of one tunnel one after the other
  by writing HTTP/1.1 responses onto the same byte stream; every response goes
  through `responder.RawHTTPResponder.writeResponse`, which decides the
  framing and hands the message to Go's `http.Response.Write`.  This file
  models

    * the WRITER: `framing` (the decision), `frame` (the bytes of one response
      and whether the write completed), `serve` (the tunnel loop AFTER the fix:
      it stops after the first response whose write failed) and `serveNoClose`
      (the loop before the fix);
    * a CLIENT: `readOne` / `readAll`, a reader that finds the end of every
      message with the message-body-length rules of RFC 9112 §6.3.

  What of Go is modelled (go1.26 net/http, response.go / transfer.go):

    parseAndSetContentLength   ContentLength := ParseInt(Header "Content-Length"),
                               -1 when absent / invalid; a NEGATIVE value is < 0
                               and treated like -1.  `Resp.cl = none` stands for
                               all of these, `some n` for a parsed n ≥ 0.
    writeResponse              ContentLength < 0: status < 200, 204, 304 get
                               Body = NoBody, ContentLength = 0; everything else
                               TransferEncoding = chunked.
    Response.Write             status line; THEN the probe: ContentLength = 0 with
                               a body is read for one byte — an error aborts the
                               write after the status line, a byte turns the
                               response into ContentLength = -1 + `Connection:
                               close` (body delimited by the END OF THE STREAM);
                               then `Content-Length: n` (n > 0) / `Transfer-
                               Encoding: chunked` / `Connection: close`; then the
                               header map WITHOUT Content-Length, Transfer-Encoding
                               and Trailer (respExcludeHeader); then `Content-
                               Length: 0` when the length is 0 and the status
                               allows a body; blank line; body.
    transferWriter.writeBody   HEAD: nothing.  chunked: every non-empty read as
                               `<hex>\r\n<bytes>\r\n`, then `0\r\n` `\r\n` unless the
                               body failed.  known length n: min(n, |body|) bytes,
                               error unless the body has exactly n bytes and ends
                               cleanly.  ContentLength = -1: the whole body.

  Abstractions (none of them changes where a message ends):
    * reason phrase: always `X` (Go: StatusText);
    * the status code is printed with `toDec`, Go prints `%03d`: the same for
      every status ≥ 100;
    * a chunked body is written as ONE chunk (Go: one chunk per Read of
      io.Copy, 32 KiB);
    * `hdrs` are the header fields Go writes in the middle block, in the order
      Go writes them (sorted by name), already sanitised (Go replaces CR/LF in
      values by spaces, trims values, drops invalid names);
    * the request method is only known as HEAD / not HEAD.  For POST, PUT,
      PATCH and the other methods that are neither GET nor HEAD Go writes
      `Content-Length: 0` BEFORE the header map (and also for 1xx/204/304);
      the model always writes it after and never for those statuses.
-/
namespace Rv.Wire
open Rv

/-! ### constants (written as character lists so that proofs can compute) -/

def crlf : Str := ['\r', '\n']
/-- `HTTP/1.1 ` -/
def httpVer : Str := ['H', 'T', 'T', 'P', '/', '1', '.', '1', ' ']
/-- ` X`: the space and the fixed reason phrase. -/
def reason : Str := [' ', 'X']
def nameCL : Str := ['C','o','n','t','e','n','t','-','L','e','n','g','t','h']
def nameTE : Str := ['T','r','a','n','s','f','e','r','-','E','n','c','o','d','i','n','g']
def nameConn : Str := ['C','o','n','n','e','c','t','i','o','n']
def lowCL : Str := ['c','o','n','t','e','n','t','-','l','e','n','g','t','h']
def lowTE : Str := ['t','r','a','n','s','f','e','r','-','e','n','c','o','d','i','n','g']
def valChunked : Str := ['c','h','u','n','k','e','d']
def valClose : Str := ['c','l','o','s','e']
/-- `0\r\n\r\n`: the last chunk and the empty trailer section. -/
def lastChunk : Str := ['0', '\r', '\n', '\r', '\n']

/-! ### hexadecimal chunk sizes (`%x`) -/

def toHexAux : Nat → Nat → Str → Str
  | 0, _, acc => acc
  | fuel + 1, n, acc =>
    let acc' := hexDigit (n % 16) :: acc
    if n / 16 = 0 then acc' else toHexAux fuel (n / 16) acc'

/-- `strconv.FormatInt(n, 16)` / `%x` for n ≥ 0. -/
def toHex (n : Nat) : Str := toHexAux (n + 1) n []

def hexNatAux : Nat → Str → Option Nat
  | acc, [] => some acc
  | acc, c :: cs =>
    match hexVal c with
    | none => none
    | some d => hexNatAux (acc * 16 + d) cs

/-- value of a non-empty string of hex digits. -/
def hexNat (x : Str) : Option Nat := if x = [] then none else hexNatAux 0 x

/-! ### the writer -/

/-- one response as the responder sees it. -/
structure Resp where
  /-- status code -/
  status : Nat
  /-- the response answers a HEAD request (`ForRequest(req)`, req.Method = HEAD) -/
  head : Bool := false
  /-- the `Content-Length` header field parsed by `parseAndSetContentLength`;
      `none` = absent, not a decimal int64, or negative -/
  cl : Option Nat := none
  /-- the other header fields, as `Header.WriteSubset` writes them -/
  hdrs : List (Str × Str) := []
  /-- the bytes the body reader yields -/
  body : Str := []
  /-- the body reader ends with an error (not io.EOF) after yielding `body` -/
  fails : Bool := false
  deriving Repr, DecidableEq

/-- `!bodyAllowedForStatus(status)`, which is also writeResponse's
    `status < 200 || status == 204 || status == 304`. -/
def noBodyStatus (st : Nat) : Bool := st < 200 || st == 204 || st == 304

/-- how the end of the message body is announced on the wire. -/
inductive Framing where
  /-- no framing field and no body (1xx / 204 / 304 of length 0) -/
  | noBody
  /-- `Content-Length: n`, then n bytes -/
  | length (n : Nat)
  /-- `Transfer-Encoding: chunked` -/
  | chunked
  /-- no length, not chunked, `Connection: close`: the body ends where the
      STREAM ends.  Go's `Response.Write` falls back to this when the response
      announces `Content-Length: 0` and its body yields a byte. -/
  | untilClose
  deriving Repr, DecidableEq

/-- parseAndSetContentLength + writeResponse + the probe of Response.Write.
    A HEAD request does not change the decision, only drops the body. -/
def framing (r : Resp) : Framing :=
  match r.cl with
  | none => if noBodyStatus r.status then .noBody else .chunked
  | some 0 =>
    if r.body = [] then (if noBodyStatus r.status then .noBody else .length 0)
    else .untilClose
  | some (n + 1) => .length (n + 1)

/-- Response.Write's probe of a body announced with length 0 fails: the write
    is abandoned right after the status line. -/
def probeFails (r : Resp) : Bool :=
  match r.cl with
  | some 0 => r.body.isEmpty && r.fails
  | _ => false

/-- the framing fields `transferWriter.writeHeader` puts BEFORE the header map. -/
def preFields (r : Resp) : List (Str × Str) :=
  match framing r with
  | .length (n + 1) => [(nameCL, toDec (n + 1))]
  | .chunked => [(nameTE, valChunked)]
  | .untilClose => [(nameConn, valClose)]
  | _ => []

/-- the `Content-Length: 0` Response.Write adds AFTER the header map. -/
def postFields (r : Resp) : List (Str × Str) :=
  match framing r with
  | .length 0 => [(nameCL, ['0'])]
  | _ => []

/-- every field of the header section, in wire order. -/
def wireHdrs (r : Resp) : List (Str × Str) := preFields r ++ r.hdrs ++ postFields r

def statusLine (st : Nat) : Str := httpVer ++ toDec st ++ reason ++ crlf

def hdrLine (nv : Str × Str) : Str := nv.1 ++ ':' :: ' ' :: nv.2 ++ crlf

def hdrLines : List (Str × Str) → Str
  | [] => []
  | nv :: t => hdrLine nv ++ hdrLines t

/-- status line, header fields, blank line. -/
def headSection (r : Resp) : Str := statusLine r.status ++ hdrLines (wireHdrs r) ++ crlf

/-- one chunk; `chunkedWriter.Write` writes nothing for no data. -/
def chunk (b : Str) : Str := if b = [] then [] else toHex b.length ++ crlf ++ b ++ crlf

/-- `transferWriter.writeBody`: the body bytes written and whether it returned nil. -/
def bodyBytes (r : Resp) : Str × Bool :=
  if r.head then ([], true) else
  match framing r with
  | .noBody => ([], true)
  | .length n => (r.body.take n, r.body.length == n && !r.fails)
  | .chunked => (chunk r.body ++ (if r.fails then [] else lastChunk), !r.fails)
  | .untilClose => (r.body, !r.fails)

/-- `RawHTTPResponder.Write`: the bytes put on the connection and whether the
    write completed (`!Failed()`). -/
def frame (r : Resp) : Str × Bool :=
  if probeFails r then (statusLine r.status, false)
  else (headSection r ++ (bodyBytes r).1, (bodyBytes r).2)

/-- the tunnel loop after fix 6648a58: a response that could not be completed
    is the last thing written, the connection is closed (end of stream). -/
def serve : List Resp → Str
  | [] => []
  | r :: rs => if (frame r).2 then (frame r).1 ++ serve rs else (frame r).1

/-- the loop before the fix: it went on with the next request. -/
def serveNoClose : List Resp → Str
  | [] => []
  | r :: rs => (frame r).1 ++ serveNoClose rs

/-! ### the client -/

/-- a message as the client understands it. `hdrs` are ALL the fields of the
    header section in wire order, the framing fields (Content-Length,
    Transfer-Encoding, Connection) included. -/
structure Msg where
  status : Nat
  hdrs : List (Str × Str)
  body : Str
  deriving Repr, DecidableEq

/-- split at the first CRLF. `none`: the stream ends before a CRLF. -/
def takeLine : Str → Option (Str × Str)
  | [] => none
  | [_] => none
  | a :: b :: rest =>
    if a = '\r' ∧ b = '\n' then some ([], rest)
    else match takeLine (b :: rest) with
      | none => none
      | some (l, r) => some (a :: l, r)

def isOWS (c : Char) : Bool := c = ' ' || c = '\t'

/-- strip optional white space (SP / HTAB) on both sides. -/
def trimOWS (x : Str) : Str := ((x.dropWhile isOWS).reverse.dropWhile isOWS).reverse

/-- `HTTP/1.1 SP status-code SP reason`: the status code (any non-empty digit
    string is accepted). -/
def parseStatus (line : Str) : Option Nat :=
  match cutPrefix line httpVer with
  | none => none
  | some x =>
    match cutAt ' ' x with
    | none => none
    | some (code, _) => if allDigits code ∧ code ≠ [] then some (decVal code) else none

/-- `field-name ":" OWS field-value OWS` -/
def parseHdr (line : Str) : Option (Str × Str) :=
  match cutAt ':' line with
  | none => none
  | some (n, v) => if n = [] then none else some (n, trimOWS v)

/-- header lines up to and including the blank line. -/
def readHdrs : Nat → Str → Option (List (Str × Str) × Str)
  | 0, _ => none
  | fuel + 1, x =>
    match takeLine x with
    | none => none
    | some (l, rest) =>
      if l = [] then some ([], rest)
      else match parseHdr l with
        | none => none
        | some h =>
          match readHdrs fuel rest with
          | none => none
          | some (hs, rest') => some (h :: hs, rest')

/-- first field with that (lower-case) name, names compared case-insensitively. -/
def lookup (name : Str) : List (Str × Str) → Option Str
  | [] => none
  | nv :: t => if toLower nv.1 = name then some nv.2 else lookup name t

/-- the chunk size: the hex digits before an optional `;extension`. -/
def chunkSize (line : Str) : Option Nat := hexNat (line.takeWhile (fun c => c != ';'))

/-- chunks up to the last chunk and its trailer section (RFC 9112 §7.1).
    `none`: malformed, or the stream ends before the last chunk. -/
def readChunks : Nat → Str → Option (Str × Str)
  | 0, _ => none
  | fuel + 1, x =>
    match takeLine x with
    | none => none
    | some (l, x1) =>
      match chunkSize l with
      | none => none
      | some n =>
        if n = 0 then
          match readHdrs (x1.length + 1) x1 with
          | none => none
          | some (_, x2) => some ([], x2)
        else if n ≤ x1.length then
          match cutPrefix (x1.drop n) crlf with
          | none => none
          | some x2 =>
            match readChunks fuel x2 with
            | none => none
            | some (b, x3) => some (x1.take n ++ b, x3)
        else none

/-- RFC 9112 §6.3 for a response, given status, header fields and what follows
    the header section:
      1. HEAD, 1xx, 204, 304: no body;
      3./4. Transfer-Encoding present: chunked if that is the (only) coding,
         otherwise until the connection closes; it overrides Content-Length;
      5./6. Content-Length: n (the first such field): exactly n bytes, an
         invalid value is an unrecoverable error, fewer than n bytes an
         incomplete message;
      8. otherwise until the connection closes. -/
def readBody (isHead : Bool) (st : Nat) (hs : List (Str × Str)) (x : Str) : Option (Msg × Str) :=
  if isHead || noBodyStatus st then some (⟨st, hs, []⟩, x)
  else match lookup lowTE hs with
    | some v =>
      if toLower (trimOWS v) = valChunked then
        match readChunks (x.length + 1) x with
        | none => none
        | some (b, x') => some (⟨st, hs, b⟩, x')
      else some (⟨st, hs, x⟩, [])
    | none =>
      match lookup lowCL hs with
      | some v =>
        if allDigits v ∧ v ≠ [] then
          (if decVal v ≤ x.length then some (⟨st, hs, x.take (decVal v)⟩, x.drop (decVal v)) else none)
        else none
      | none => some (⟨st, hs, x⟩, [])

/-- read ONE response from the stream: the message and the rest of the stream.
    `none`: no complete message can be read (malformed or truncated). -/
def readOne (isHead : Bool) (x : Str) : Option (Msg × Str) :=
  match takeLine x with
  | none => none
  | some (sl, x1) =>
    match parseStatus sl with
    | none => none
    | some st =>
      match readHdrs (x1.length + 1) x1 with
      | none => none
      | some (hs, x2) => readBody isHead st hs x2

/-- read the responses to a pipeline of requests (`heads`: which of them were
    HEAD): the messages that could be read and the unread remainder. -/
def readAll : List Bool → Str → List Msg × Str
  | [], x => ([], x)
  | h :: hs, x =>
    match readOne h x with
    | none => ([], x)
    | some (m, rest) => (m :: (readAll hs rest).1, (readAll hs rest).2)

/-! ### what a response denotes -/

/-- the body the header section announces (and a complete write delivers). -/
def announced (r : Resp) : Str :=
  if r.head then [] else
  match framing r with
  | .noBody => []
  | .length n => r.body.take n
  | .chunked => r.body
  | .untilClose => r.body

/-- the message a response denotes. -/
def view (r : Resp) : Msg := ⟨r.status, wireHdrs r, announced r⟩

/-! ### well-formedness -/

/-- a header field that survives a print / parse round trip unchanged: a
    non-empty name without `:` CR LF, a value without CR LF and without
    leading / trailing white space (Go's `Header.Write` guarantees all this). -/
def FieldOK (nv : Str × Str) : Prop :=
  nv.1 ≠ [] ∧ (∀ c ∈ nv.1, c ≠ ':' ∧ c ≠ '\r' ∧ c ≠ '\n') ∧
  (∀ c ∈ nv.2, c ≠ '\r' ∧ c ≠ '\n') ∧ trimOWS nv.2 = nv.2

/-- the field is not one of the two framing fields (Go excludes them from the
    header map it writes: `respExcludeHeader`). -/
def NotFraming (nv : Str × Str) : Prop := toLower nv.1 ≠ lowCL ∧ toLower nv.1 ≠ lowTE

/-- the header section tells a client where the message ends WITHOUT closing
    the connection.  Go completes the write in two situations where it does not:
      * `Content-Length: 0` announced and a non-empty body: Go switches to
        `Connection: close` framing (`untilClose`);
      * a 1xx / 204 / 304 with `Content-Length: n`, n > 0 and n body bytes: Go
        writes the body, a client does not expect one.
    Neither can be a HEAD exchange (no body is written then). -/
def delimited (r : Resp) : Bool :=
  r.head ||
  match framing r with
  | .untilClose => false
  | .length (_ + 1) => !noBodyStatus r.status
  | _ => true

structure Resp.WF (r : Resp) : Prop where
  fields : ∀ nv ∈ r.hdrs, FieldOK nv ∧ NotFraming nv
  delimited : delimited r = true

end Rv.Wire
