import Rv.Basic
/-
  Rv.Model.ByteSize — utils/bytesize/bytesize.go: Parse, FindLargestFittingUnit,
  ToString, String.  Values are int64 in Go; the model computes in `Nat` and
  performs the same overflow tests the Go code performs, so no wrap-around can
  occur on an accepted input (theorem `parse_le_max`).
-/
namespace Rv.ByteSize
open Rv

/-- `unitRuneMap`. -/
def unitOf (c : Char) : Option Nat :=
  if c = 'B' then some 1
  else if c = 'K' then some 1024
  else if c = 'M' then some (1024 * 1024)
  else if c = 'G' then some (1024 * 1024 * 1024)
  else if c = 'T' then some (1024 * 1024 * 1024 * 1024)
  else none

inductive PErr where
  | empty | charsAfterUnit | multipleUnits | unknownUnit | invalidFormat
  deriving Repr, DecidableEq

inductive PRes where
  | err (e : PErr)
  | ok (v : Nat)
  deriving Repr, DecidableEq

/-- the `for _, r := range s` loop with its four variables. -/
def parseLoop : Str → Nat → Nat → Bool → Bool → PRes
  | [], num, mult, foundUnit, foundDigit =>
    if !foundDigit || !foundUnit then .err .invalidFormat
    else if num > maxI64 / mult then .err .invalidFormat
    else .ok (num * mult)
  | c :: cs, num, mult, foundUnit, foundDigit =>
    if isDigit c then
      if foundUnit then .err .charsAfterUnit
      else
        let d := digitVal c
        if num > (maxI64 - d) / 10 then .err .invalidFormat
        else parseLoop cs (num * 10 + d) mult foundUnit true
    else
      if foundUnit then .err .multipleUnits
      else match unitOf c with
        | none => .err .unknownUnit
        | some u => parseLoop cs num u true foundDigit

def parse (x : Str) : PRes :=
  if x = [] then .err .empty else parseLoop x 0 1 false false

/-- the units in one fixed order; Go iterates the map in random order, the
    result does not depend on it (`largest_perm` in Props/C17). -/
def units : List (Char × Nat) :=
  [('B', 1), ('K', 1024), ('M', 1024 * 1024), ('G', 1024 * 1024 * 1024), ('T', 1024 * 1024 * 1024 * 1024)]

/-- one iteration of the loop in `FindLargestFittingUnit`. -/
def fitStep (b : Nat) (acc : Char × Nat) (u : Char × Nat) : Char × Nat :=
  if b < u.2 then acc
  else if b % u.2 ≠ 0 then acc
  else if u.2 < acc.2 then acc
  else u

def largestFittingUnit (order : List (Char × Nat)) (b : Nat) : Char × Nat :=
  order.foldl (fitStep b) ('B', 1)

/-- `ByteSize.String()` for a non-negative value. -/
def toStr (b : Nat) : Str :=
  let u := largestFittingUnit units b
  toDec (b / u.2) ++ [u.1]

def PRes.render : PRes → String
  | .err _ => "err"
  | .ok v => s!"ok:{v}"

end Rv.ByteSize
