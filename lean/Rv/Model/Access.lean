import Rv.Model.Locks
/-
  Rv.Model.Access — C15: which curated shared locations are accessed where, and
  under which locks. Walks the lock programs of Rv/Generated/LockFacts.lean from
  the entry points, following calls with the held set of the call site, and logs
  every `.access` event with the locks held at that moment. A pair of accesses to
  one location (at least one write) is `protected` when both sites hold a lock of
  the same class and not both in shared mode — the lock-set discipline that
  Props/C15 shows to exclude simultaneous access.
-/
namespace Rv.Access
open Rv.Locks

structure Acc where
  loc : String
  kind : String          -- "r" | "w"
  fn : String            -- summary it occurs in
  src : String           -- file:line
  held : List Held
  deriving Repr, DecidableEq

structure Log where
  accs : List Acc := []
  calls : List (String × List Held) := []

/-- permissive abstract run (no discipline check): the possible thread states
    after a fragment, logging accesses and resolved calls. -/
def walk (facts : Facts) (caller : String) : Prog → TS → Log → List (TS × Exit) × Log
  | .skip, ts, lg => ([(ts, .normal)], lg)
  | .lock cls _, ts, lg => ([({ ts with held := ⟨cls, false⟩ :: ts.held }, .normal)], lg)
  | .rlock cls _, ts, lg => ([({ ts with held := ⟨cls, true⟩ :: ts.held }, .normal)], lg)
  | .tryAcq cls _, ts, lg => ([({ ts with held := ⟨cls, false⟩ :: ts.held }, .normal)], lg)
  | .unlock cls _, ts, lg => ([({ ts with held := (removeFirst ⟨cls, false⟩ ts.held).getD ts.held }, .normal)], lg)
  | .runlock cls _, ts, lg => ([({ ts with held := (removeFirst ⟨cls, true⟩ ts.held).getD ts.held }, .normal)], lg)
  | .deferUnlock cls _, ts, lg => ([({ ts with deferred := ⟨cls, false⟩ :: ts.deferred }, .normal)], lg)
  | .deferRUnlock cls _, ts, lg => ([({ ts with deferred := ⟨cls, true⟩ :: ts.deferred }, .normal)], lg)
  | .call kind name _, ts, lg =>
    let lg' := match resolve (knownFn facts) caller kind name with
      | .fns names => { lg with calls := lg.calls ++ names.map (fun f => (f, ts.held)) }
      | .callback =>
        -- the function value handed to UpdateMetadata by package proxy
        if name = "modifier" then
          { lg with calls := lg.calls ++ ((facts.filter (fun f => (f.1.splitOn ".modifier").length > 1)).map (fun f => (f.1, ts.held))) }
        else lg
      | _ => lg
    ([(ts, .normal)], lg')
  | .chanSend _ _, ts, lg | .chanRecv _ _, ts, lg | .chanClose _ _, ts, lg | .go _ _, ts, lg => ([(ts, .normal)], lg)
  | .access loc kind src, ts, lg => ([(ts, .normal)], { lg with accs := lg.accs ++ [{ loc := loc, kind := kind, fn := caller, src := src, held := ts.held }] })
  | .seq a b, ts, lg =>
    let (outsA, lgA) := walk facts caller a ts lg
    outsA.foldl (fun (acc : List (TS × Exit) × Log) (p : TS × Exit) =>
      if p.2 = .normal then
        let (o, l) := walk facts caller b p.1 acc.2
        (acc.1 ++ o, l)
      else (acc.1 ++ [p], acc.2)) ([], lgA)
  | .alt a b, ts, lg =>
    let (oa, la) := walk facts caller a ts lg
    let (ob, lb) := walk facts caller b ts la
    (oa ++ ob, lb)
  | .loop body, ts, lg =>
    let (o, l) := walk facts caller body ts lg
    ((ts, .normal) :: o.filterMap (fun p => match p.2 with
      | .brk => some (p.1, Exit.normal)
      | .ret => some (p.1, Exit.ret)
      | _ => none), l)
  | .catchBrk p, ts, lg =>
    let (o, l) := walk facts caller p ts lg
    (o.map (fun q => (q.1, if q.2 = .brk then .normal else q.2)), l)
  | .ret, ts, lg => ([(ts, .ret)], lg)
  | .brk, ts, lg => ([(ts, .brk)], lg)
  | .cont, ts, lg => ([(ts, .cont)], lg)
  | .unknown _ _, ts, lg => ([(ts, .normal)], lg)

/-- all accesses reachable from the root contexts (worklist with fuel). -/
def collect (facts : Facts) : Nat → List (String × List Held) → List (String × List Held) → List Acc → List Acc
  | 0, _, _, accs => accs
  | _ + 1, [], _, accs => accs
  | fuel + 1, (f, held) :: todo, done, accs =>
    if done.contains (f, held) then collect facts fuel todo done accs
    else match lookupFn facts f with
      | none => collect facts fuel todo ((f, held) :: done) accs
      | some body =>
        let (_, lg) := walk facts f body { held := held, deferred := [] } {}
        collect facts fuel (todo ++ lg.calls) ((f, held) :: done) (accs ++ lg.accs)

/-- every summary that some summary calls (calls resolved as in `walk`). -/
def calledFns (facts : Facts) : List String :=
  (facts.foldl (fun (acc : List String) f =>
    let (_, lg) := walk facts f.1 f.2 { held := [], deferred := [] } {}
    lg.calls.foldl (fun a c => if a.contains c.1 then a else c.1 :: a) acc) [])

/-- exported function or method (callable from other packages, hence from any
    goroutine): `pkg:Func` / `pkg:Type.Method` with a capitalised last component.
    Closures, goroutine bodies and callbacks carry a lower-case suffix. -/
def exported (name : String) : Bool :=
  let loc := ((name.splitOn ":").getLast?).getD name
  match (loc.splitOn ".").getLast? with
  | some c => (c.toList.head?.map Char.isUpper).getD false
  | none => false

/-- where a goroutine can enter the analysed code holding nothing: exported
    functions, and summaries nobody in the analysed set calls (goroutine bodies,
    registered listeners, returned closures). Everything else is reached only
    through its callers, with their locks. -/
def roots (facts : Facts) : List (String × List Held) :=
  let called := calledFns facts
  facts.filterMap (fun f => if exported f.1 || !called.contains f.1 then some (f.1, ([] : List Held)) else none)

/-- the lock-set rule for one pair of accesses. -/
def protectedPair (a b : Acc) : Bool :=
  a.held.any (fun h1 => b.held.any (fun h2 => h1.cls = h2.cls && !(h1.shared && h2.shared)))

def conflicting (a b : Acc) : Bool := a.loc = b.loc && (a.kind = "w" || b.kind = "w")

end Rv.Access
