import Rv.Basic
/-
  Rv.Model.Certs — proxy/certs/private_ca.go GetCertForHost: Go's
  net.SplitHostPort (ported statement by statement), the certificate cache
  (lookup / expiry test / issue / store) as a two-step operation so that
  concurrent first requests interleave, and the validity arithmetic. X.509
  signing and chain building are NOT modelled: a certificate is the record of the
  template fields that `createCert` fills in.
-/
namespace Rv.Certs
open Rv

/-- `strings.LastIndexByte`. -/
def lastIndex (c : Char) (x : Str) : Option Nat :=
  (x.zipIdx.filter (fun p => p.1 = c)).getLast?.map (·.2)

def indexOf (c : Char) (x : Str) : Option Nat :=
  (x.zipIdx.find? (fun p => p.1 = c)).map (·.2)

inductive Split where
  | err
  | ok (host port : Str)
  deriving Repr, DecidableEq

/-- `net.SplitHostPort`. -/
def splitHostPort (hp : Str) : Split :=
  match lastIndex ':' hp with
  | none => .err                                    -- missing port in address
  | some i =>
    if hp.head? = some '[' then
      match indexOf ']' hp with
      | none => .err                                -- missing ']' in address
      | some end_ =>
        if end_ + 1 = hp.length then .err           -- missing port
        else if end_ + 1 = i then
          let host := (hp.drop 1).take (end_ - 1)
          -- j = 1, k = end+1
          if (indexOf '[' (hp.drop 1)).isSome then .err
          else if (indexOf ']' (hp.drop (end_ + 1))).isSome then .err
          else .ok host (hp.drop (i + 1))
        else .err                                   -- too many colons / missing port
    else
      let host := hp.take i
      if (indexOf ':' host).isSome then .err        -- too many colons
      else if (indexOf '[' hp).isSome then .err
      else if (indexOf ']' hp).isSome then .err
      else .ok host (hp.drop (i + 1))

/-- the template fields of an issued leaf certificate. -/
structure Cert where
  id : Nat                 -- identity of the *tls.Certificate object
  host : Str               -- the single SAN entry
  sanIsIP : Bool           -- IPAddresses (true) or DNSNames (false)
  notBefore : Int
  notAfter : Int
  issuedByCA : Bool
  deriving Repr, DecidableEq

def validityMs : Int := 240 * 3600 * 1000

structure St where
  cache : List Cert        -- at most one per host (last Set wins)
  nextId : Nat
  now : Int
  deriving Repr, DecidableEq

def init : St := { cache := [], nextId := 0, now := 0 }

def lookup (st : St) (host : Str) : Option Cert := st.cache.find? (·.host = host)

/-- first half of GetCertForHost: the cache lookup with its expiry test (an
    expired entry is deleted). `some c` = return the cached certificate. -/
def lookupStep (st : St) (host : Str) : St × Option Cert :=
  match lookup st host with
  | none => (st, none)
  | some c =>
    if c.notAfter < st.now then ({ st with cache := st.cache.filter (·.host ≠ host) }, none)
    else (st, some c)

/-- second half: createCert + X509KeyPair + certs.Set. -/
def issueStep (st : St) (host : Str) (isIP : Bool) : St × Cert :=
  let c : Cert := { id := st.nextId, host := host, sanIsIP := isIP, notBefore := st.now, notAfter := st.now + validityMs, issuedByCA := true }
  ({ st with cache := c :: st.cache.filter (·.host ≠ host), nextId := st.nextId + 1 }, c)

inductive GetRes where
  | err
  | ok (c : Cert)
  deriving Repr, DecidableEq

/-- a whole sequential GetCertForHost(target). `isIP` is net.ParseIP's verdict
    on the host part (parameter). -/
def get (st : St) (target : Str) (isIP : Str → Bool) : St × GetRes :=
  match splitHostPort target with
  | .err => (st, .err)
  | .ok host _ =>
    match lookupStep st host with
    | (st1, some c) => (st1, .ok c)
    | (st1, none) =>
      let (st2, c) := issueStep st1 host (isIP host)
      (st2, .ok c)

/-- schedule steps of concurrent callers: each caller first looks up, then (if
    it found nothing) issues; other callers' steps may come in between. -/
inductive Step where
  | lookup (caller : Nat)
  | issue (caller : Nat)
  | tick (d : Nat)
  deriving Repr, DecidableEq

structure Conc where
  st : St
  /-- per caller: `none` not started, `some none` looked up and must issue, `some (some c)` done with c -/
  prog : List (Nat × Option Cert)
  deriving Repr, DecidableEq

def progOf (p : List (Nat × Option Cert)) (caller : Nat) : Option (Option Cert) := (p.find? (·.1 = caller)).map (·.2)
def setProg (p : List (Nat × Option Cert)) (caller : Nat) (v : Option Cert) : List (Nat × Option Cert) :=
  (caller, v) :: p.filter (·.1 ≠ caller)

def concStep (host : Str) (isIP : Bool) (c : Conc) : Step → Conc
  | .lookup k =>
    match progOf c.prog k with
    | some _ => c
    | none =>
      let (st1, r) := lookupStep c.st host
      { st := st1, prog := setProg c.prog k r }
  | .issue k =>
    match progOf c.prog k with
    | some none =>
      let (st1, cert) := issueStep c.st host isIP
      { st := st1, prog := setProg c.prog k (some cert) }
    | _ => c
  | .tick d => { c with st := { c.st with now := c.st.now + d } }

def concRun (host : Str) (isIP : Bool) (steps : List Step) (c : Conc) : Conc := steps.foldl (concStep host isIP) c

end Rv.Certs
