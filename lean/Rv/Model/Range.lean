import Rv.Basic
/-
  Rv.Model.Range — proxy/headers/range_header.go, function by function.

  Every Go index expression is modelled with a *checked* lookup that yields
  `.panic` when the Go runtime would (index out of range); the guards the Go
  code performs before the lookup are kept in the same order.  "The parser never
  panics" is therefore a theorem about this model (Props/C07, C16), not an
  assumption, and the correspondence run ties the guards to the code.
-/
namespace Rv.Range
open Rv

/-- result of `parseRangeNumber`: `(num, endIndex, ok)`. -/
inductive NumRes where
  | fail
  | ok (num : Nat) (idx : Nat)
  deriving Repr, DecidableEq

/-- the `for i, ch := range numStr` loop. `i` is the byte index, `index` the
    counter the Go code maintains, `num` the accumulator. -/
def numLoop : Str → Nat → Nat → Nat → NumRes
  | [], _, num, index => .ok num index
  | c :: cs, i, num, index =>
    if c = ' ' || c = '\t' then numLoop cs (i + 1) num (index + 1)
    else if !isDigit c then
      (if i = 0 then .fail else .ok num index)
    else
      let d := digitVal c
      if num > (maxI64 - d) / 10 then .fail
      else numLoop cs (i + 1) (num * 10 + d) (index + 1)

def parseRangeNumber (x : Str) : NumRes :=
  match x with
  | [] => .fail
  | c :: _ => if c = '-' then .fail else numLoop x 0 0 0

inductive RangeErr where
  | unit | value | format | multiple | bounds
  deriving Repr, DecidableEq

/-- `rangeHeader{start,end}` with the `-1` sentinels, or an error, or a Go
    runtime panic. -/
inductive ParseRes where
  | panic
  | err (e : RangeErr)
  | ok (start end_ : Int)
  deriving Repr, DecidableEq

def bytesLit : Str := ['b', 'y', 't', 'e', 's']

def parseRangeHeader (x : Str) : ParseRes :=
  match cutAt '=' x with
  | none => .err .format
  | some (unit, values) =>
    if unit ≠ bytesLit then .err .unit
    else if values = [] then .err .value
    else
      match values[0]? with
      | none => .panic
      | some firstCh =>
        if firstCh = '-' then
          match parseRangeNumber (values.drop 1) with
          | .fail => .err .value
          | .ok suffixLength tail0 =>
            let suffixTail := tail0 + 1
            let isTailSmaller := decide (suffixTail < values.length)
            -- `isTailSmaller && valuesStr[suffixTail] == ','` : short-circuit
            match (if isTailSmaller then values[suffixTail]? else some 'x') with
            | none => .panic
            | some ch =>
              if isTailSmaller && ch = ',' then .err .multiple
              else if isTailSmaller && ch = '-' then .err .format
              else .ok (-1) suffixLength
        else
          match parseRangeNumber values with
          | .fail => .err .value
          | .ok start startTail =>
            if startTail ≥ values.length then .err .format
            else
              match values[startTail]? with
              | none => .panic
              | some middleCh =>
                if middleCh ≠ '-' then .err .format
                else if startTail + 1 ≥ values.length then .ok start (-1)
                else
                  match parseRangeNumber (values.drop (startTail + 1)) with
                  | .fail => .err .value
                  | .ok end_ endTail0 =>
                    let endTail := endTail0 + (startTail + 1)
                    let small := decide (endTail < values.length)
                    match (if small then values[endTail]? else some 'x') with
                    | none => .panic
                    | some ch =>
                      if small && ch = ',' then .err .multiple
                      else .ok start end_

def validateRange (start end_ size : Int) : Bool :=
  !(start < 0 || end_ < 0 || start ≥ size || end_ ≥ size || start > end_)

/-- `rangeHeader.SliceSize`: `some (start, end)` or `none` for any error. -/
def sliceSize (start end_ size : Int) : Option (Int × Int) :=
  if end_ = -1 ∧ start = -1 then none
  else
    let (st, en) :=
      if start = -1 then (size - end_, size - 1)
      else if end_ ≠ -1 then (start, end_)
      else (start, size - 1)
    if validateRange st en size then some (st, en) else none

/-- What the proxy does with a `Range` header value against a stored
    representation of `size` bytes — the observation the correspondence run
    compares. -/
inductive Outcome where
  | panic
  | absent                      -- header did not parse: treated as no Range
  | reject                      -- parsed, SliceSize failed: 416 / retry
  | slice (start end_ : Int)    -- 206 for bytes start..end
  deriving Repr, DecidableEq

def outcome (x : Str) (size : Int) : Outcome :=
  match parseRangeHeader x with
  | .panic => .panic
  | .err _ => .absent
  | .ok st en =>
    match sliceSize st en size with
    | none => .reject
    | some (a, b) => .slice a b

def errName : RangeErr → String
  | .unit => "unit" | .value => "value" | .format => "format"
  | .multiple => "multiple" | .bounds => "bounds"

def ParseRes.render : ParseRes → String
  | .panic => "panic"
  | .err e => "err:" ++ errName e
  | .ok a b => s!"ok:{a}:{b}"

def Outcome.render : Outcome → String
  | .panic => "panic"
  | .absent => "absent"
  | .reject => "reject"
  | .slice a b => s!"slice:{a}:{b}"

/-- `rangeHeader.String()`: the text of a Range value for the three shapes (`-1` = absent bound):
    `bytes=-n` (suffix), `bytes=a-` (from), `bytes=a-b`. -/
def rangeString (start end_ : Int) : Str :=
  if start = -1 then s "bytes=-" ++ intToDec end_
  else if end_ = -1 then s "bytes=" ++ intToDec start ++ ['-']
  else s "bytes=" ++ intToDec start ++ '-' :: intToDec end_

end Rv.Range
