import Rv.Basic
/-
  Rv.Model.Store — cache/memory_cache.go, cache/file_cache.go and
  cache/cache_janitor.go (after the fix commits) as ONE labelled transition
  system with a backend switch.  Each step is one Go critical section as seen
  by a quiescent observer (C14/C15 justify that granularity); reads on open data
  handles are separate steps because they happen outside every lock.

  Time is an explicit `now` (milliseconds); the harness ages the entries instead
  of sleeping (hook VerifShiftClock), which is the same as advancing `now`
  because the model only ever compares instants with each other.

  The file backend keeps a directory `dir` next to the metadata map, updated by
  exactly the file operations the Go code performs (temp file + rename on store,
  stat + remove on removal), so that "directory = entries" is a theorem (C12),
  not a definition.  A body is identified by the version id stored as the
  entry's metadata object; its bytes are the harness's `body ver` (self
  describing), so a handle is `(ver, size, pos)`.
-/
namespace Rv.Store

inductive Backend where
  | mem | file
  deriving Repr, DecidableEq

structure Entry where
  key : Nat
  ver : Nat
  size : Nat
  expires : Int
  lastAccess : Int
  timeWritten : Int
  deriving Repr, DecidableEq

structure DirEnt where
  key : Nat
  ver : Nat
  size : Nat
  deriving Repr, DecidableEq

structure Handle where
  id : Nat
  ver : Nat
  size : Nat
  pos : Nat
  deriving Repr, DecidableEq

structure St where
  backend : Backend
  entries : List Entry          -- the map key ↦ metadata (at most one per key)
  dir : List DirEnt             -- file backend: files in the cache directory
  byteSize : Int                -- c.byteSize
  mBytes : Int                  -- metrics BytesCached
  mEntries : Int                -- metrics CacheEntries
  limit : Int                   -- c.maxCacheSize (follows the config through OnChange)
  cfgLimit : Int                -- cfg.Cache.MaxCacheSize.Read() (read live by ensureCacheSize)
  memCap : Int                  -- c.memoryCap
  now : Int
  shards : List Nat             -- shard index of key 0,1,2,…
  handles : List Handle
  nextHandle : Nat
  deriving Repr, DecidableEq

def init (b : Backend) (limit memCap : Int) (shards : List Nat) : St :=
  { backend := b, entries := [], dir := [], byteSize := 0, mBytes := 0, mEntries := 0,
    limit := limit, cfgLimit := limit, memCap := memCap, now := 0, shards := shards,
    handles := [], nextHandle := 0 }

def lookup (es : List Entry) (k : Nat) : Option Entry := es.find? (·.key = k)
def erase (es : List Entry) (k : Nat) : List Entry := es.filter (·.key ≠ k)
def dirLookup (d : List DirEnt) (k : Nat) : Option DirEnt := d.find? (·.key = k)
def dirErase (d : List DirEnt) (k : Nat) : List DirEnt := d.filter (·.key ≠ k)
def shardOf (st : St) (k : Nat) : Nat := st.shards.getD k 0

/-- how a store can fail apart from the cache's own refusals. -/
inductive Fault where
  | none
  | srcErr            -- the source reader fails part-way (origin transfer aborted)
  | createErr         -- file backend: the temporary file cannot be created
  | renameErr         -- file backend: the rename into place fails
  deriving Repr, DecidableEq

inductive Res where
  | ok
  | notFound
  | memExceeded
  | srcErr
  | createErr
  | writeErr
  | emptyErr
  | readErr
  deriving Repr, DecidableEq

/-! ### removal (deleteInternal / ensureRemove) -/

/-- `MemoryCache.deleteInternal`. -/
def memRemove (st : St) (k : Nat) : St × Res :=
  match lookup st.entries k with
  | none => (st, .notFound)
  | some e =>
    ({ st with entries := erase st.entries k, mEntries := st.mEntries - 1,
               byteSize := st.byteSize - e.size, mBytes := st.mBytes - e.size }, .ok)

/-- `FileCache.ensureRemove`: stat + remove the file (decrementing by the FILE's
    size, and not at all when the file is already gone), then delete the
    metadata. -/
def fileRemove (st : St) (k : Nat) : St × Res :=
  let st1 := match dirLookup st.dir k with
    | none => st
    | some f => { st with dir := dirErase st.dir k, mEntries := st.mEntries - 1,
                          byteSize := st.byteSize - f.size, mBytes := st.mBytes - f.size }
  ({ st1 with entries := erase st1.entries k }, .ok)

def removeEntry (st : St) (k : Nat) : St × Res :=
  match st.backend with
  | .mem => memRemove st k
  | .file => fileRemove st k

/-! ### eviction (cacheJanitor.evict) -/

def mib : Nat := 1048576

/-- `timeSinceAccess.Milliseconds() + (Size / MiB) * 100`. -/
def priority (now : Int) (e : Entry) : Int := (now - e.lastAccess) + ((e.size / mib : Nat) : Int) * 100

/-- insertion into a list sorted by descending priority (stable for ties; the
    Go sort is not stable, so the harness avoids ties and the C13 theorem is
    stated for any priority-descending order). -/
def insertDesc (now : Int) (e : Entry) : List Entry → List Entry
  | [] => [e]
  | x :: xs => if priority now x ≥ priority now e then x :: insertDesc now e xs else e :: x :: xs

def sortDesc (now : Int) (es : List Entry) : List Entry := es.foldr (insertDesc now) []

/-- `int64(float64(max) * 0.8)` for `0 ≤ max < 2^50`. -/
def target (limit : Int) : Int := limit * 4 / 5

/-- the eviction loop over the sorted candidates; `skip k` = the shard lock of
    `k` cannot be taken (TryLock fails). Returns the new state and the evicted
    keys in order. -/
def evictLoop (tgt : Int) (skip : Nat → Bool) : List Entry → St → List Nat → St × List Nat
  | [], st, acc => (st, acc.reverse)
  | c :: cs, st, acc =>
    if st.byteSize ≤ tgt then (st, acc.reverse)
    else if skip c.key then evictLoop tgt skip cs st acc
    else evictLoop tgt skip cs (removeEntry st c.key).1 (c.key :: acc)

def evict (st : St) (limit : Int) (skip : Nat → Bool) : St × List Nat :=
  let cands := sortDesc st.now st.entries
  let (st', ks) := evictLoop (target limit) skip cands st []
  ({ st' with mBytes := st'.byteSize }, ks)

/-- `ensureCacheSize`. -/
def ensure (st : St) : St × List Nat :=
  if st.byteSize < st.cfgLimit then (st, []) else evict st st.cfgLimit (fun _ => false)

/-! ### store -/

def newEntry (st : St) (k ver size : Nat) (expires : Int) : Entry :=
  { key := k, ver := ver, size := size, expires := expires, lastAccess := st.now, timeWritten := st.now }

/-- put the new metadata in the map and adjust the counters (replaced entry
    subtracted first). -/
def publish (st : St) (e : Entry) : St :=
  let st1 := match lookup st.entries e.key with
    | none => st
    | some old => { st with mEntries := st.mEntries - 1, byteSize := st.byteSize - old.size,
                            mBytes := st.mBytes - old.size }
  { st1 with entries := e :: erase st1.entries e.key, mEntries := st1.mEntries + 1,
             byteSize := st1.byteSize + e.size, mBytes := st1.mBytes + e.size }

def openHandle (st : St) (ver size : Nat) : St × Nat :=
  ({ st with handles := { id := st.nextHandle, ver := ver, size := size, pos := 0 } :: st.handles,
             nextHandle := st.nextHandle + 1 }, st.nextHandle)

/-- `MemoryCache.Cache` (shard lock of `k` held throughout, so an eviction
    started here cannot take the lock of any key in the same shard). -/
def memStore (st : St) (k ver size : Nat) (expires : Int) (f : Fault) : St × Res × List Nat :=
  let lim := min st.limit st.memCap
  let (st1, evicted) :=
    if st.byteSize ≥ lim then evict st lim (fun k' => shardOf st k' = shardOf st k) else (st, [])
  if st1.byteSize ≥ lim then (st1, .memExceeded, evicted)
  else match f with
    | .srcErr => (st1, .srcErr, evicted)
    | _ => (publish st1 (newEntry st1 k ver size expires), .ok, evicted)

/-- `FileCache.Cache`: eviction first (no lock held), then under the key's lock
    temp file, copy, rename, metadata, counters. A failure before the rename
    leaves the previous entry untouched. -/
def fileStore (st : St) (k ver size : Nat) (expires : Int) (f : Fault) : St × Res × List Nat :=
  let (st1, evicted) :=
    if st.byteSize ≥ st.limit then evict st st.limit (fun _ => false) else (st, [])
  match f with
  | .createErr => (st1, .createErr, evicted)
  | .srcErr => (st1, .writeErr, evicted)
  | .renameErr => if size = 0 then (st1, .emptyErr, evicted) else (st1, .writeErr, evicted)
  | .none =>
    if size = 0 then (st1, .emptyErr, evicted)
    else
      let st2 := { st1 with dir := { key := k, ver := ver, size := size } :: dirErase st1.dir k }
      (publish st2 (newEntry st2 k ver size expires), .ok, evicted)

def store (st : St) (k ver size : Nat) (expires : Int) (f : Fault) : St × Res × List Nat :=
  match st.backend with
  | .mem => memStore st k ver size expires f
  | .file => fileStore st k ver size expires f

/-! ### get / metadata -/

structure GetRes where
  res : Res
  ver : Nat := 0
  size : Nat := 0
  stale : Bool := false
  handle : Nat := 0
  deriving Repr, DecidableEq

def touch (st : St) (k : Nat) (f : Entry → Entry) : St :=
  { st with entries := st.entries.map (fun e => if e.key = k then f e else e) }

/-- `Get`: metadata lookup, (file: open by name), staleness, LastAccess. -/
def get (st : St) (k : Nat) : St × GetRes :=
  match lookup st.entries k with
  | none => (st, { res := .notFound })
  | some e =>
    match st.backend with
    | .mem =>
      let st1 := touch st k (fun x => { x with lastAccess := st.now })
      let (st2, h) := openHandle st1 e.ver e.size
      (st2, { res := .ok, ver := e.ver, size := e.size, stale := decide (e.expires < st.now), handle := h })
    | .file =>
      match dirLookup st.dir k with
      | none => (st, { res := .readErr })
      | some f =>
        let st1 := touch st k (fun x => { x with lastAccess := st.now })
        let (st2, h) := openHandle st1 f.ver f.size
        (st2, { res := .ok, ver := e.ver, size := e.size, stale := decide (e.expires < st.now), handle := h })

/-- `GetMetadata`. -/
def getMeta (st : St) (k : Nat) : St × GetRes :=
  match lookup st.entries k with
  | none => (st, { res := .notFound })
  | some e =>
    (touch st k (fun x => { x with lastAccess := st.now }),
     { res := .ok, ver := e.ver, size := e.size, stale := decide (e.expires < st.now) })

/-- `UpdateMetadata` with the modifier `meta.Expires = expires` (the 304 path). -/
def update (st : St) (k : Nat) (expires : Int) : St × Res :=
  match lookup st.entries k with
  | none => (st, .notFound)
  | some _ => (touch st k (fun x => { x with expires := expires, lastAccess := st.now }), .ok)

/-- `Delete`. -/
def delete (st : St) (k : Nat) : St × Res := removeEntry st k

/-! ### handles -/

/-- `Read(n)` on handle `h`: `(bytes read, offset they start at)`; the bytes are
    `body ver [pos, pos+len)`. -/
def read (st : St) (h n : Nat) : St × Option (Nat × Nat × Nat) :=
  match st.handles.find? (·.id = h) with
  | none => (st, none)
  | some hd =>
    let len := min n (hd.size - hd.pos)
    ({ st with handles := st.handles.map (fun x => if x.id = h then { x with pos := x.pos + len } else x) },
     some (hd.ver, hd.pos, len))

def close (st : St) (h : Nat) : St := { st with handles := st.handles.filter (·.id ≠ h) }

/-! ### cleanup (cleanExpiredEntries) -/

def expiredKeys (st : St) : List Nat := (st.entries.filter (fun e => decide (e.expires < st.now))).map (·.key)

/-- the removal loop: TryLock succeeds (nothing else runs), the expiry is
    re-checked under the lock, then the entry is removed. -/
def cleanLoop : List Nat → St → List Nat → St × List Nat
  | [], st, acc => (st, acc.reverse)
  | k :: ks, st, acc =>
    match lookup st.entries k with
    | none => cleanLoop ks st acc
    | some e =>
      if e.expires < st.now then cleanLoop ks (removeEntry st k).1 (k :: acc)
      else cleanLoop ks st acc

/-- second half of `cleanExpiredEntries`, given the keys collected by the scan. -/
def cleanRemove (st : St) (scanned : List Nat) : St × List Nat :=
  let (st', removed) := cleanLoop scanned st []
  ({ st' with mBytes := st'.byteSize }, removed)

def clean (st : St) : St × List Nat := cleanRemove st (expiredKeys st)

def shift (st : St) (d : Int) : St := { st with now := st.now + d }

def setLimit (st : St) (n : Int) : St := { st with limit := n, cfgLimit := n }

/-- a new cache object over the same directory (`EnsureCleared`) in a fresh
    process (metrics at zero). -/
def reopen (st : St) : St := init st.backend st.cfgLimit st.memCap st.shards

end Rv.Store

namespace Rv.Store

/-! ### histories -/

/-- what another client may do inside the window between the janitor's expiry
    scan and its removal loop (hook `janitor.afterScan`). -/
inductive MidOp where
  | store (k ver size : Nat) (ttl : Int) (f : Fault)
  | update (k : Nat) (ttl : Int)
  | delete (k : Nat)
  | get (k : Nat)
  deriving Repr, DecidableEq

inductive Op where
  | store (k ver size : Nat) (ttl : Int) (f : Fault)   -- expires = now + ttl
  | get (k : Nat)
  | getMeta (k : Nat)
  | update (k : Nat) (ttl : Int)
  | delete (k : Nat)
  | read (h n : Nat)
  | close (h : Nat)
  | clean (mid : List MidOp)
  | evict (limit : Int)
  | ensure
  | shift (d : Nat)
  | setLimit (n : Int)
  | reopen
  deriving Repr, DecidableEq

def midStep (st : St) : MidOp → St
  | .store k ver size ttl f => (store st k ver size (st.now + ttl) f).1
  | .update k ttl => (update st k (st.now + ttl)).1
  | .delete k => (delete st k).1
  | .get k => (get st k).1

def step (st : St) : Op → St
  | .store k ver size ttl f => (store st k ver size (st.now + ttl) f).1
  | .get k => (get st k).1
  | .getMeta k => (getMeta st k).1
  | .update k ttl => (update st k (st.now + ttl)).1
  | .delete k => (delete st k).1
  | .read h n => (read st h n).1
  | .close h => close st h
  | .clean mid =>
    let scanned := expiredKeys st
    (cleanRemove (mid.foldl midStep st) scanned).1
  | .evict limit => (evict st limit (fun _ => false)).1
  | .ensure => (ensure st).1
  | .shift d => shift st d
  | .setLimit n => setLimit st n
  | .reopen => reopen st

def run (ops : List Op) (st : St) : St := ops.foldl step st

/-- sum of the sizes of the stored entries: what the cache "actually holds". -/
def totalSize (es : List Entry) : Int := (es.map (fun e => (e.size : Int))).sum

end Rv.Store
