import Rv.Model.CacheControl
/-
  Rv.Model.SrcViews — the plain records over which the definitions that
  `tools/go2lean` regenerates from the Go source (Rv/Generated/Src.lean) are
  stated: one field per leaf expression of the translated function (a struct
  field, a configuration read). Hand-written, no logic.
-/
namespace Rv.SrcViews

/-- `headers.rangeHeader{start, end}` (-1 = absent). -/
structure RangeHdr where
  start : Int
  end_ : Int
  deriving Repr, DecidableEq

/-- what `CacheConfig.verify` reads (effective values). -/
structure CacheCfgView where
  maxCacheSize : Int
  cleanupInterval : Int
  memoryBudgetPercent : Int
  lockShards : Int
  fileDir : String
  type_ : String
  deriving Repr, DecidableEq

structure ProxyCfgView where
  listen : String
  caCert : String
  caKey : String
  deriving Repr, DecidableEq

structure WebCfgView where
  listen : String
  deriving Repr, DecidableEq

/-! ### package proxy: the fetch result and the Cache-Status record (proxy/fetch_result.go, cache_status_headers.go)

  The views mirror the Go structs field by field (an embedded struct is a field named after its type, as in Go);
  fields the translated functions never read (`Response`, `Entry`, `Coalesced`) are left out — a translated function
  that read one would not type-check.  `hitStatus`, `fwdReason`, `fetchType` are `int` enumerations (`iota`): the
  translator resolves the constants to their values from the source. -/

/-- `proxy.fetchInfo`. -/
structure FetchInfoView where
  upstreamStatus : Int
  status : Int                 -- hitStatus: 0 miss, 1 revalidated, 2 hit
  upstreamLatency : Int
  deriving Repr, DecidableEq

/-- `proxy.cachedFetchResult` (the embedded `fetchInfo`). -/
structure CachedFetchView where
  fetchInfo : FetchInfoView
  deriving Repr, DecidableEq

/-- `proxy.directFetchResult` (the embedded `fetchInfo`). -/
structure DirectFetchView where
  fetchInfo : FetchInfoView
  deriving Repr, DecidableEq

/-- `proxy.fetchResult`. -/
structure FetchResultView where
  type_ : Int                  -- fetchType: 0 cached, 1 direct
  cached : CachedFetchView
  direct : DirectFetchView
  deriving Repr, DecidableEq

/-- `proxy.cacheStatus`; `typeutils.Optional[T]` is `Option`. -/
structure CacheStatusView where
  hitStatus : Int
  fwdReason : Option Int       -- fwdReason: 0 miss, 1 bypass, 2 stale
  fwdStatus : Option Int
  stored : Bool
  deriving Repr, DecidableEq

/-- what `cache.MakeFromRequest` reads of the `*http.Request`: `r.TLS != nil`, `r.Method`, `r.Host`,
    `r.URL.EscapedPath()`, `r.URL.RawQuery` (byte strings). -/
structure ReqView where
  tls : Bool
  method : Str
  host : Str
  escapedPath : Str
  rawQuery : Str
  deriving Repr, DecidableEq

/-- which exit `(*fetcher).handleUpstreamResponse` takes: the handler it calls (with the `noRetry` argument it passes to
    `handleUpstream416`), or none (`return nil, nil`: the response is passed through uncached). -/
inductive Dispatch where
  | ok200
  | notModified
  | unsat416 (noRetry : Bool)
  | passThrough
  deriving Repr, DecidableEq

end Rv.SrcViews
