import Rv.Model.CacheControl
/-
  Rv.Model.SrcViews — the plain records over which the definitions that
  `tools/go2lean` regenerates from the Go source (Rv/Generated/Src.lean) are
  stated: one field per leaf expression of the translated function (a struct
  field, a configuration read). Hand-written, no logic.
-/
namespace Rv.SrcViews

/-- `headers.rangeHeader{start, end}` (-1 = absent). -/
structure RangeHdr where
  start : Int
  end_ : Int
  deriving Repr, DecidableEq

/-- what `CacheConfig.verify` reads (effective values). -/
structure CacheCfgView where
  maxCacheSize : Int
  cleanupInterval : Int
  memoryBudgetPercent : Int
  lockShards : Int
  fileDir : String
  type_ : String
  deriving Repr, DecidableEq

structure ProxyCfgView where
  listen : String
  caCert : String
  caKey : String
  deriving Repr, DecidableEq

structure WebCfgView where
  listen : String
  deriving Repr, DecidableEq

end Rv.SrcViews
