/-
  Rv.Model.Mailbox — C19, the cleanup task's interval mailbox
  (cache/cache_janitor.go: `intervalChanged chan time.Duration` of capacity 1,
  the OnChange listener `j.intervalChanged <- newInterval`, the task's
  `case newInterval := <-j.intervalChanged: j.interval = newInterval`).

  A notification whose listener goroutine has started is `deliver v`: the send
  goes into the one-slot buffer when it is free, otherwise the goroutine parks in
  the channel's FIFO send queue (a blocking send; `blocking = true` is re-extracted
  from the source each run). `drain` is the task receiving once.
-/
namespace Rv.Mailbox

structure St where
  box : Option Nat          -- the one-slot buffer
  parked : List Nat         -- senders blocked on the full channel, FIFO
  interval : Nat            -- what the cleanup task follows
  deriving Repr, DecidableEq

inductive Step where
  | deliver (v : Nat)
  | drain
  deriving Repr, DecidableEq

/-- `blocking`: the listener's send blocks when the buffer is full (the code as
    it is); `false` models a non-blocking send that gives up (select/default). -/
def step (blocking : Bool) (st : St) : Step → St
  | .deliver v =>
    match st.box with
    | none => { st with box := some v }
    | some _ => if blocking then { st with parked := st.parked ++ [v] } else st
  | .drain =>
    match st.box with
    | none => st
    | some v =>
      match st.parked with
      | [] => { st with box := none, interval := v }
      | p :: ps => { box := some p, parked := ps, interval := v }

def run (blocking : Bool) (steps : List Step) (st : St) : St := steps.foldl (step blocking) st

def init (i : Nat) : St := { box := none, parked := [], interval := i }

/-- the values delivered by a schedule, in delivery order. -/
def delivered : List Step → List Nat
  | [] => []
  | .deliver v :: rest => v :: delivered rest
  | .drain :: rest => delivered rest

/-- nothing is in flight any more. -/
def quiescent (st : St) : Bool := st.box.isNone && st.parked.isEmpty

end Rv.Mailbox
