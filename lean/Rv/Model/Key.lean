import Rv.Basic
/-
  Rv.Model.Key — cache/cache_key.go MakeFromRequest up to the pre-hash string,
  and utils.Hex8ToIndex / getLock's shard index.

  `path.Clean` (Go standard library) is modelled by its documented meaning —
  split on '/', drop empty and "." segments, ".." removes the previous segment
  (kept when there is none and the path is not rooted) — and cross-checked
  against the real `path.Clean` by the correspondence run (family `key`).
-/
namespace Rv.Key
open Rv

def dot : Str := ['.']
def dotdot : Str := ['.', '.']

/-- one segment against the (reversed) stack of kept segments. -/
def cleanStep (rooted : Bool) (st : List Str) (seg : Str) : List Str :=
  if seg = [] || seg = dot then st
  else if seg = dotdot then
    match st with
    | top :: rest => if top = dotdot then seg :: st else rest
    | [] => if rooted then [] else [seg]
  else seg :: st

def joinSlash : List Str → Str
  | [] => []
  | [a] => a
  | a :: rest => a ++ '/' :: joinSlash rest

/-- Go `path.Clean`. -/
def clean (p : Str) : Str :=
  if p = [] then dot
  else
    let rooted := p.head? = some '/'
    let st := (splitOn '/' p).foldl (cleanStep rooted) []
    let body := joinSlash st.reverse
    if rooted then '/' :: body
    else if body = [] then dot else body

def endsWith (x suf : Str) : Bool := suf.reverse.isPrefixOf x.reverse

/-- `normPath` of MakeFromRequest: Clean, plus the trailing slash when the
    path named a directory ("…/", "…/." or "…/.."). -/
def normPath (p : Str) : Str :=
  let np := clean p
  if np ≠ ['/'] && (endsWith p ['/'] || endsWith p ['/', '.'] || endsWith p ['/', '.', '.'])
  then np ++ ['/'] else np

/-- `%d:%s` -/
def lp (x : Str) : Str := toDec x.length ++ ':' :: x

/-- the pre-hash key string `"%s|%d:%s|%d:%s|%d:%s|%s"`. -/
def keyString (scheme method host path query : Str) : Str :=
  scheme ++ '|' :: lp method ++ '|' :: lp (toLower host) ++ '|' :: lp (normPath path) ++ '|' :: query

/-! ### shard index -/

/-- one hex digit as `Hex8ToIndex` reads it: non-hex bytes count as 0. -/
def hexNibble (c : Char) : Nat :=
  if '0' ≤ c && c ≤ '9' then c.toNat - 48
  else if 'a' ≤ c && c ≤ 'f' then c.toNat - 87
  else if 'A' ≤ c && c ≤ 'F' then c.toNat - 55
  else 0

/-- `utils.Hex8ToIndex`: first 8 bytes, `val = (val << 4) | b` in uint32. -/
def hex8ToIndex (x : Str) : Nat :=
  (x.take 8).foldl (fun v c => (v * 16 + hexNibble c) % 4294967296) 0

inductive IdxRes where
  | panic            -- integer divide by zero / index out of range
  | idx (i : Nat)
  deriving Repr, DecidableEq

/-- `getLock`: `&locks[val % uint32(len(locks))]`. -/
def lockIndex (hexKey : Str) (nLocks : Nat) : IdxRes :=
  if nLocks = 0 then .panic
  else
    let i := hex8ToIndex hexKey % nLocks
    if i < nLocks then .idx i else .panic

end Rv.Key
