import Rv.Basic
/-
  Rv.Model.Duration — Go standard library, as of go1.26:

    time.Duration.String      (src/time/time.go:   String, format, fmtFrac, fmtInt)
    time.ParseDuration        (src/time/format.go: ParseDuration, leadingInt,
                               leadingFraction, unitMap)
    slog.Level.String         (src/log/slog/level.go: String and its `str` closure)
    slog.Level.parse          (src/log/slog/level.go: parse; used by UnmarshalText
                               and UnmarshalJSON)   with strconv.Atoi

  A Go `string` is a `Str` (`List Char`, one `Char` per BYTE).  uint64 / int64
  values are `Nat` / `Int`; every place where the Go code could wrap around is
  either shown not to wrap (comment at the place) or wraps explicitly.

  The one floating point expression of ParseDuration,

      v += uint64(float64(f) * (float64(unit) / scale))

  is modelled with a small software implementation of IEEE-754 binary64
  (`F64`: non-negative values only, exact rationals, one rounding function
  `F64.round` — round-to-nearest-even with subnormals and +Inf — applied after
  every operation), so the model is defined on ALL inputs, also on those where
  the float64 computation is inexact ("1.5ns", "0.3333333333333333333333h").
  Core Lean only.
-/
namespace Rv.Duration
open Rv

/-! ### IEEE-754 binary64, non-negative values -/

/-- a non-negative float64: the rational `n / d` (`d > 0`), or `+Inf`.  Every
    value built by the functions below is a float64 value. -/
inductive F64 where
  | fin (n d : Nat)
  | inf
  deriving Repr, DecidableEq

def log2Aux : Nat → Nat → Nat
  | 0, _ => 0
  | fuel + 1, n => if n < 2 then 0 else log2Aux fuel (n / 2) + 1

/-- `⌊log₂ n⌋` for `n > 0`. -/
def log2 (n : Nat) : Nat := log2Aux n n

/-- `⌊log₂ (n / d)⌋` for `n, d > 0`. -/
def floorLog2 (n d : Nat) : Int :=
  if d ≤ n then (log2 (n / d) : Int)
  else
    let t := log2 (d / n)          -- n * 2^t ≤ d < n * 2^(t+1)
    if n * 2 ^ t = d then -(t : Int) else -(t : Int) - 1

/-- `a / b` rounded to the nearest integer, ties to even. -/
def rne (a b : Nat) : Nat :=
  let q := a / b
  let r := a % b
  if 2 * r < b then q
  else if b < 2 * r then q + 1
  else if q % 2 = 0 then q else q + 1

/-- rounding to float64: the float64 nearest to `n / d` (`d > 0`), ties to even.
    The result is `m * 2^e` with `m ≤ 2^53` and `e ≥ -1074` (subnormals share the
    smallest exponent); a result of `2^1024` or more is `+Inf`. -/
def F64.round (n d : Nat) : F64 :=
  if n = 0 then .fin 0 1
  else
    let e : Int := max (floorLog2 n d - 52) (-1074)
    if 0 ≤ e then
      let m := rne n (d * 2 ^ e.toNat)
      if 2 ^ 1024 ≤ m * 2 ^ e.toNat then .inf else .fin (m * 2 ^ e.toNat) 1
    else
      .fin (rne (n * 2 ^ (-e).toNat) d) (2 ^ (-e).toNat)

/-- `float64(x)` for a uint64 `x`. -/
def F64.ofNat (x : Nat) : F64 := F64.round x 1

def F64.one : F64 := .fin 1 1

/-- `x * y`.  (`Inf * y` only with `y > 0` here.) -/
def F64.mul : F64 → F64 → F64
  | .fin a b, .fin c d => F64.round (a * c) (b * d)
  | _, _ => .inf

/-- `x / y` for finite `x`; `y` is never zero here. -/
def F64.div : F64 → F64 → F64
  | .fin a b, .fin c d => if c = 0 then .inf else F64.round (a * d) (b * c)
  | .fin _ _, .inf => .fin 0 1
  | .inf, _ => .inf

/-- `uint64(x)`: truncation.  (Never applied to `Inf` or to a value ≥ 2^64:
    see `fracNanos`.) -/
def F64.toNat : F64 → Nat
  | .fin n d => n / d
  | .inf => 0

/-! ### time.Duration.String -/

def second : Nat := 1000000000

/-- the loop of `fmtFrac`: `i` iterations left. -/
def fmtFracLoop : Nat → Nat → Bool → Str → Str × Nat
  | 0, v, print, buf => (if print then '.' :: buf else buf, v)
  | i + 1, v, print, buf =>
    let digit := v % 10
    let print' := print || digit != 0
    let buf' := if print' then Char.ofNat (48 + digit) :: buf else buf
    fmtFracLoop i (v / 10) print' buf'

/-- `fmtFrac(buf, v, prec)`: prepends the fraction of `v / 10^prec` without
    trailing zeros (nothing at all if the fraction is zero); returns the new
    buffer tail and `v / 10^prec`. -/
def fmtFrac (buf : Str) (v prec : Nat) : Str × Nat := fmtFracLoop prec v false buf

/-- `for v > 0 { w--; buf[w] = byte(v%10) + '0'; v /= 10 }`. -/
def fmtIntLoop : Nat → Nat → Str → Str
  | 0, _, buf => buf
  | fuel + 1, v, buf =>
    if v > 0 then fmtIntLoop fuel (v / 10) (Char.ofNat (48 + v % 10) :: buf) else buf

/-- `fmtInt(buf, v)`. -/
def fmtInt (buf : Str) (v : Nat) : Str :=
  if v = 0 then '0' :: buf else fmtIntLoop (v + 1) v buf

/-- "µ" = U+00B5 = bytes C2 B5. -/
def microSign : Str := [Char.ofNat 0xC2, Char.ofNat 0xB5]

/-- `Duration.format` for the magnitude `u = |d|` as a uint64 (`u = 2^63` for
    minInt64: Go computes `u = -uint64(d)`, which is `2^63`).  Without the sign. -/
def formatAbs (u : Nat) : Str :=
  if u < second then
    -- buf = "...s"
    if u = 0 then ['0', 's']
    else if u < 1000 then
      let r := fmtFrac ['n', 's'] u 0
      fmtInt r.1 r.2
    else if u < 1000000 then
      let r := fmtFrac (microSign ++ ['s']) u 3
      fmtInt r.1 r.2
    else
      let r := fmtFrac ['m', 's'] u 6
      fmtInt r.1 r.2
  else
    let r := fmtFrac ['s'] u 9
    let u := r.2                       -- integer seconds
    let buf := fmtInt r.1 (u % 60)
    let u := u / 60                    -- integer minutes
    if u > 0 then
      let buf := fmtInt ('m' :: buf) (u % 60)
      let u := u / 60                  -- integer hours
      if u > 0 then fmtInt ('h' :: buf) u else buf
    else buf

/-- `time.Duration(d).String()` for `-2^63 ≤ d < 2^63`. -/
def durString (d : Int) : Str :=
  if d < 0 then '-' :: formatAbs d.natAbs else formatAbs d.natAbs

/-! ### time.ParseDuration -/

def pow63 : Nat := 9223372036854775808
def pow64 : Nat := 18446744073709551616

/-- `leadingInt`: `none` is the overflow error, else the value and the rest. -/
def leadingInt : Str → Nat → Option (Nat × Str)
  | [], x => some (x, [])
  | c :: cs, x =>
    if !isDigit c then some (x, c :: cs)
    else if x > pow63 / 10 then none
    else
      -- x ≤ 2^63/10, so x*10 + c - '0' < 2^64: no wrap
      let x' := x * 10 + digitVal c
      if x' > pow63 then none else leadingInt cs x'

/-- `leadingFraction` with its three loop variables `x`, `scale`, `overflow`. -/
def leadingFraction : Str → Nat → F64 → Bool → Nat × F64 × Str
  | [], x, scale, _ => (x, scale, [])
  | c :: cs, x, scale, overflow =>
    if !isDigit c then (x, scale, c :: cs)
    else if overflow then leadingFraction cs x scale overflow
    else if x > (pow63 - 1) / 10 then leadingFraction cs x scale true
    else
      let y := x * 10 + digitVal c
      if y > pow63 then leadingFraction cs x scale true
      else leadingFraction cs y (F64.mul scale (F64.ofNat 10)) false

def muSign : Str := [Char.ofNat 0xCE, Char.ofNat 0xBC]   -- "μ" = U+03BC

/-- `unitMap`. -/
def unitOf (u : Str) : Option Nat :=
  if u = ['n', 's'] then some 1
  else if u = ['u', 's'] then some 1000
  else if u = microSign ++ ['s'] then some 1000
  else if u = muSign ++ ['s'] then some 1000
  else if u = ['m', 's'] then some 1000000
  else if u = ['s'] then some 1000000000
  else if u = ['m'] then some 60000000000
  else if u = ['h'] then some 3600000000000
  else none

/-- the "Consume (\.[0-9]*)?" step: `f`, `scale`, the rest, and `post`. -/
def parseFrac (s : Str) : Nat × F64 × Str × Bool :=
  match s with
  | [] => (0, F64.one, [], false)
  | c :: t =>
    if c = '.' then
      let r := leadingFraction t 0 F64.one false
      (r.1, r.2.1, r.2.2, t.length != r.2.2.length)
    else (0, F64.one, c :: t, false)

/-- the "Consume unit" loop: `(s[:i], s[i:])`. -/
def takeUnit : Str → Str × Str
  | [] => ([], [])
  | c :: cs =>
    if c = '.' || isDigit c then ([], c :: cs)
    else let r := takeUnit cs; (c :: r.1, r.2)

/-- `uint64(float64(f) * (float64(unit) / scale))`.  `f < 10^k` and `scale` is
    `10^k` up to rounding, so the value is at most about `unit ≤ 3.6e12`. -/
def fracNanos (f unit : Nat) (scale : F64) : Nat :=
  F64.toNat (F64.mul (F64.ofNat f) (F64.div (F64.ofNat unit) scale))

/-- from `if v > 1<<63/unit` to `if d > 1<<63`: the new `d`, or `none`. -/
def addTerm (d v f : Nat) (scale : F64) (unit : Nat) : Option Nat :=
  if v > pow63 / unit then none
  else
    let v1 := v * unit                               -- ≤ 2^63
    let v2 : Option Nat :=
      if f > 0 then
        let v2 := v1 + fracNanos f unit scale         -- ≤ 2^63 + 3.6e12: no wrap
        if v2 > pow63 then none else some v2
      else some v1
    match v2 with
    | none => none
    | some v2 =>
      -- d ≤ 2^63 and v2 ≤ 2^63: `d += v` wraps to 0 when both are 2^63
      let d' := (d + v2) % pow64
      if d' > pow63 then none else some d'

/-- the `for s != ""` loop.  Every iteration consumes at least the unit, so
    `fuel = len(s)` iterations always suffice. -/
def parseLoop : Nat → Str → Nat → Option Nat
  | _, [], d => some d
  | 0, _ :: _, _ => none
  | fuel + 1, c :: cs, d =>
    if !(c = '.' || isDigit c) then none
    else
      match leadingInt (c :: cs) 0 with
      | none => none
      | some (v, s1) =>
        let pre := (c :: cs).length != s1.length
        let fr := parseFrac s1
        if !pre && !fr.2.2.2 then none
        else
          let ur := takeUnit fr.2.2.1
          if ur.1 = [] then none
          else
            match unitOf ur.1 with
            | none => none
            | some unit =>
              match addTerm d v fr.1 fr.2.1 unit with
              | none => none
              | some d' => parseLoop fuel ur.2 d'

/-- what follows "Consume [-+]?". -/
def parseUnsigned (neg : Bool) (s : Str) : Option Int :=
  if s = ['0'] then some 0
  else if s = [] then none
  else
    match parseLoop s.length s 0 with
    | none => none
    | some d =>
      -- d ≤ 2^63; `-Duration(1<<63)` is minInt64
      if neg then some (-(d : Int))
      else if d > pow63 - 1 then none
      else some (d : Int)

/-- `time.ParseDuration`; `none` is an error. -/
def parseDuration (s : Str) : Option Int :=
  match s with
  | [] => parseUnsigned false []
  | c :: t =>
    if c = '-' || c = '+' then parseUnsigned (c = '-') t
    else parseUnsigned false (c :: t)

/-! ### slog.Level -/

/-- the `str` closure of `Level.String`. -/
def levelStr (base : Str) (val : Int) : Str :=
  if val = 0 then base
  else
    let sval := intToDec val
    base ++ (if val > 0 then '+' :: sval else sval)

/-- `slog.Level(l).String()`; Debug = -4, Info = 0, Warn = 4, Error = 8.  For an
    int64 `l` none of the subtractions overflows (`l + 4` is only computed for
    `l < 0`, `l - 8` for `l ≥ 8`). -/
def levelString (l : Int) : Str :=
  if l < 0 then levelStr (s "DEBUG") (l - (-4))
  else if l < 4 then levelStr (s "INFO") (l - 0)
  else if l < 8 then levelStr (s "WARN") (l - 4)
  else levelStr (s "ERROR") (l - 8)

/-- `strings.IndexAny(s, "+-")` as `(s[:i], s[i:])`. -/
def indexAny : Str → Option (Str × Str)
  | [] => none
  | c :: cs =>
    if c = '+' || c = '-' then some ([], c :: cs)
    else match indexAny cs with
      | none => none
      | some (a, b) => some (c :: a, b)

/-- `strconv.Atoi` with a 64-bit `int`: optional sign, at least one digit, no
    other byte, value in the int64 range. -/
def atoi (x : Str) : Option Int :=
  let neg : Bool := match x with | c :: _ => decide (c = '-') | [] => false
  let ds : Str := match x with | c :: t => if c = '-' || c = '+' then t else x | [] => x
  if ds = [] then none
  else if !allDigits ds then none
  else
    let n := decVal ds
    if neg then (if n > pow63 then none else some (-(n : Int)))
    else (if n > pow63 - 1 then none else some (n : Int))

/-- `strings.ToUpper` as far as the comparison with the four ASCII level names
    can tell: ASCII letters are upper-cased, and the only non-ASCII runes whose
    upper case is an ASCII letter are U+0131 "ı" (bytes C4 B1) ↦ 'I' and
    U+017F "ſ" (bytes C5 BF) ↦ 'S'.  (C4 and C5 are UTF-8 lead bytes, so the
    decoder always starts a rune there.)  Every other non-ASCII byte stays (Go
    may re-encode it, but never into ASCII). -/
def upperName : Str → Str
  | [] => []
  | [c] => [if 'a' ≤ c && c ≤ 'z' then Char.ofNat (c.toNat - 32) else c]
  | c :: c2 :: cs =>
    if c.toNat = 0xC4 && c2.toNat = 0xB1 then 'I' :: upperName cs
    else if c.toNat = 0xC5 && c2.toNat = 0xBF then 'S' :: upperName cs
    else (if 'a' ≤ c && c ≤ 'z' then Char.ofNat (c.toNat - 32) else c) :: upperName (c2 :: cs)

def levelBase (name : Str) : Option Int :=
  if name = s "DEBUG" then some (-4)
  else if name = s "INFO" then some 0
  else if name = s "WARN" then some 4
  else if name = s "ERROR" then some 8
  else none

/-- int64 wrap-around of `*l += Level(offset)`. -/
def wrap64 (x : Int) : Int := (x + 9223372036854775808) % 18446744073709551616 - 9223372036854775808

/-- `Level.parse` (UnmarshalText / UnmarshalJSON after unquoting). -/
def parseLevel (x : Str) : Option Int :=
  let r : Option (Str × Int) :=
    match indexAny x with
    | none => some (x, 0)
    | some (name, rest) =>
      match atoi rest with
      | none => none
      | some off => some (name, off)
  match r with
  | none => none
  | some (name, off) =>
    match levelBase (upperName name) with
    | none => none
    | some b => some (wrap64 (b + off))

end Rv.Duration
