import Rv.Basic
/-
  Rv.Model.Headers — http.Header as the code uses it: a multimap with canonical
  keys; proxy/requests.go removeHopByHopHeaders; Responder.SetHeaders /
  SetHeader / AddHeader (after the fix commit); the header overrides of
  processRequest / addCacheHeaders.

  A header map is a list of (canonical name, value) pairs; the values of one
  name keep their order (http.Header stores a slice per name), the relative
  order of different names is irrelevant (Go map) and never observed.
-/
namespace Rv.Headers
open Rv

abbrev Hdr := List (Str × Str)

def upperChar (c : Char) : Char := if 'a' ≤ c && c ≤ 'z' then Char.ofNat (c.toNat - 32) else c

/-- `http.CanonicalHeaderKey` for token names: first letter and every letter
    after '-' upper case, the rest lower case. -/
def canonAux : Bool → Str → Str
  | _, [] => []
  | up, c :: cs => (if up then upperChar c else lowerChar c) :: canonAux (c = '-') cs

def canonKey (k : Str) : Str := canonAux true k

/-- `h.Values(name)`: all values of a name, in order. -/
def values (h : Hdr) (name : Str) : List Str := (h.filter (·.1 = name)).map (·.2)

def del (h : Hdr) (name : Str) : Hdr := h.filter (·.1 ≠ name)
def add (h : Hdr) (name value : Str) : Hdr := h ++ [(name, value)]
def set (h : Hdr) (name value : Str) : Hdr := del h name ++ [(name, value)]

def connectionLit : Str := s "Connection"

/-- the header names nominated by `Connection` values (comma separated,
    trimmed, canonicalised, empty tokens skipped). -/
def connTokens (h : Hdr) : List Str :=
  ((values h connectionLit).flatMap (fun v => (splitOn ',' v).map (fun t => canonKey (trimSpace t)))).filter (· ≠ [])

/-- `removeHopByHopHeaders` with the fixed list `hop`. -/
def removeHopByHop (hop : List Str) (h : Hdr) : Hdr :=
  let toks := connTokens h
  h.filter (fun kv => !toks.contains kv.1 && !hop.contains kv.1)

/-- the distinct names of a header map, in first-occurrence order. -/
def names : Hdr → List Str
  | [] => []
  | kv :: rest => kv.1 :: (names rest).filter (· ≠ kv.1)

/-- `Responder.SetHeaders(src)` onto `dst`: for every name of `src`, delete it
    in `dst`, then add all its values in order. -/
def setHeaders (dst src : Hdr) : Hdr :=
  (names src).foldl (fun d k => (values src k).foldl (fun d' v => add d' k v) (del d k)) dst

/-- fields the proxy itself owns on a response (may be set or appended). -/
def proxyOwned : List Str :=
  [s "Age", s "Via", s "Cache-Status", s "X-Cache", s "Accept-Ranges", s "Content-Range", s "Content-Length", s "Etag", s "Last-Modified"]

end Rv.Headers
