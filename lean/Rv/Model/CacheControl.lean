import Rv.Basic
/-
  Rv.Model.CacheControl — proxy/headers/cache_control.go and the Cache-Control /
  Expires part of proxy/headers/header_directives.go (ParseHeaderDirective,
  ShouldCache, GetExpiresOrDefault), after the fix commits.

  Time is explicit: instants and durations are `Int` nanoseconds.  The value of
  an `Expires` header is supplied by the harness as parsed by Go's
  `time.Parse(http.TimeFormat, …)` (standard library, trusted): absent,
  unparseable, or an instant.
-/
namespace Rv.CacheControl
open Rv

def second : Int := 1000000000
/-- `math.MaxInt64 / int64(time.Second)` -/
def maxSeconds : Int := 9223372036

/-- `strconv.ParseInt(x, 10, 64)`: optional sign, at least one digit, only
    digits, value inside int64; anything else is an error. -/
def parseInt64 (x : Str) : Option Int :=
  let (neg, ds) := match x with
    | '-' :: r => (true, r)
    | '+' :: r => (false, r)
    | r => (false, r)
  if ds = [] || !allDigits ds then none
  else
    let v : Int := decVal ds
    if neg then (if v ≤ 9223372036854775808 then some (-v) else none)
    else (if v ≤ 9223372036854775807 then some v else none)

structure CC where
  noCache : Bool
  maxAge : Int          -- nanoseconds (time.Duration)
  deriving Repr, DecidableEq

def noCacheLit : Str := s "no-cache"
def noStoreLit : Str := s "no-store"
def privateLit : Str := s "private"
def maxAgeLit : Str := s "max-age="

/-- one iteration of the directive loop; `none` = return with error. -/
def ccStep (cc : CC) (raw : Str) : Option CC :=
  let d := toLower (trimSpace raw)
  if d = noCacheLit || d = noStoreLit || d = privateLit then some { cc with noCache := true }
  else match cutPrefix d maxAgeLit with
    | none => some cc
    | some after =>
      match parseInt64 after with
      | none => none
      | some v =>
        if v < 1 then some { cc with noCache := true }
        else
          let v' := if v > maxSeconds then maxSeconds else v
          some { cc with maxAge := v' * second }

def ccLoop : List Str → CC → Option CC
  | [], cc => some cc
  | d :: ds, cc => match ccStep cc d with
    | none => none
    | some cc' => ccLoop ds cc'

/-- `parseCacheControl`. -/
def parseCacheControl (h : Str) : Option CC :=
  ccLoop (splitOn ',' h) { noCache := false, maxAge := 0 }

/-- `strings.Join(values, ",")`. -/
def joinComma : List Str → Str
  | [] => []
  | [a] => a
  | a :: rest => a ++ ',' :: joinComma rest

/-- value of an `Expires` header as Go parses it. -/
inductive ExpiresHdr where
  | absent
  | bad
  | at (t : Int)
  deriving Repr, DecidableEq

/-- `time.Time{}` (year 1) as nanoseconds relative to the Unix epoch. -/
def zeroTime : Int := -62135596800 * second

structure Directives where
  cc : Option CC          -- `CacheControl` present?
  expires : Option Int    -- `Expires` present? (zero time when unparseable)
  range : Bool            -- a `Range` field among the parsed headers
  deriving Repr, DecidableEq

/-- the Cache-Control and Expires cases of `ParseHeaderDirective` for a header
    map with the given `Cache-Control` lines (`[]` = field absent). -/
def parseDirectives (ccLines : List Str) (e : ExpiresHdr) (range : Bool) : Directives :=
  { cc := match ccLines with
      | [] => none
      | ls => match parseCacheControl (joinComma ls) with
        | some cc => some cc
        | none => some { noCache := true, maxAge := 0 }
    expires := match e with
      | .absent => none
      | .bad => some zeroTime
      | .at t => some t
    range := range }

/-- `HeaderDirectives.ShouldCache(ignoreCacheControl)` evaluated at `now`. -/
def shouldCache (d : Directives) (ignore : Bool) (now : Int) : Bool :=
  let ccBlocks := match d.cc with
    | some cc => !ignore && (cc.noCache || cc.maxAge < 1)
    | none => false
  if ccBlocks then false
  else
    let hasMaxAge := match d.cc with
      | some cc => decide (cc.maxAge > 0)
      | none => false
    let expBlocks := match d.expires with
      | some t => !ignore && !hasMaxAge && decide (t < now)
      | none => false
    if expBlocks then false
    else if d.range then false
    else true

/-- `GetExpiresOrDefault(force, default)` evaluated at `now`. -/
def expiresOrDefault (d : Directives) (force : Bool) (dflt : Int) (now : Int) : Int :=
  if !force then
    match d.cc with
    | some cc =>
      if cc.maxAge > 0 then now + cc.maxAge
      else match d.expires with
        | some t => t
        | none => now + dflt
    | none => match d.expires with
      | some t => t
      | none => now + dflt
  else now + dflt

end Rv.CacheControl
