import Rv.Model.Auth
/-
  Rv.Model.Users — the stored credentials behind C20: db/stores/users.go
  (GetByUsername, GetByID, Save), webserver/auth/creds.go (Authenticate),
  webserver/api/auth/login.go and change-password.go, layered on the session
  table model Rv.Model.Auth.

  * `users.username` is declared `TEXT NOT NULL UNIQUE COLLATE NOCASE`: SQLite
    folds the 26 ASCII upper-case letters before comparing, nothing else.
    `canon` is that folding; two names denote the same row iff their `canon`
    agree.  A well-formed table (`WF`) has pairwise distinct canonical names
    (the UNIQUE constraint).
  * the user id is the position of the row (ids are issued in insertion order
    and rows are never deleted by any endpoint).
  * CRYPTOGRAPHIC ASSUMPTION (trusted, not proved): for the PHC record
    `hashOf p` produced by `phc.GenerateArgon2id p`, `VerifyArgon2id` accepts
    `q` iff `q = p` (Argon2id is deterministic for a fixed salt and parameters,
    the comparison is exact, and no second password collides on the 32-byte
    key).  Under it a stored hash is represented by the password it was
    generated from: `verifies (hashOf p) q = decide (p = q)`.
  * `user.PasswordChangeRequired = false` on a change is not modelled.
-/
namespace Rv.Users
open Rv.Auth

abbrev Pw := String
abbrev Hash := Pw
/-- `phc.GenerateArgon2id` (abstract). -/
def hashOf (p : Pw) : Hash := p
/-- `PHC.VerifyArgon2id` (abstract). -/
def verifies (h : Hash) (q : Pw) : Bool := decide (h = q)
/-- the cryptographic assumption, as the model realises it. -/
theorem verifies_hashOf (p q : Pw) : verifies (hashOf p) q = decide (p = q) := rfl

/-- the NOCASE folding: ASCII `A`–`Z` to lower case, every other character kept. -/
def canon (s : String) : String := String.ofList (s.toList.map Char.toLower)

/-- rows `(username as stored, password whose hash is stored)`; id = position. -/
abbrev Table := List (String × Pw)

/-- `UNIQUE COLLATE NOCASE`. -/
def WF (tbl : Table) : Prop := (tbl.map (fun r => canon r.1)).Pairwise (· ≠ ·)

instance (tbl : Table) : Decidable (WF tbl) := by unfold WF; infer_instance

/-- `GetByUsername` (`WHERE username = ?` under NOCASE): id and stored password
    of the first row whose name matches, ids counted from `i`. -/
def lookupFrom (i : Nat) : Table → String → Option (Nat × Pw)
  | [], _ => none
  | r :: rest, name => if canon r.1 = canon name then some (i, r.2) else lookupFrom (i + 1) rest name

def lookup (tbl : Table) (name : String) : Option (Nat × Pw) := lookupFrom 0 tbl name

/-- the id a name denotes, in any spelling. -/
def idOf (tbl : Table) (name : String) : Option Nat := (lookup tbl name).map (·.1)

/-- `GetByID`, password column. -/
def pwOf (tbl : Table) (u : Nat) : Option Pw := tbl[u]?.map (·.2)

/-- `Credentials.Authenticate`, as a predicate: the user exists and the password
    verifies against the stored hash.  (Entry point for the oracle.) -/
def pwOk (tbl : Table) (name : String) (pw : Pw) : Bool :=
  match lookup tbl name with
  | some (_, p) => verifies (hashOf p) pw
  | none => false

/-- `UserStore.Save` (`INSERT … ON CONFLICT(username) DO UPDATE`) of a user
    loaded from the table: every row whose name matches `name` under NOCASE is
    overwritten. -/
def save (tbl : Table) (name : String) (new : Pw) : Table :=
  tbl.map (fun r => if canon r.1 = canon name then (name, new) else r)

structure UState where
  auth : Rv.Auth.St
  tbl : Table
  deriving Repr, DecidableEq

def init (tbl : Table) : UState := { auth := Rv.Auth.init, tbl := tbl }

/-- the user of the session a cookie names, if that session is in the table and
    not expired (the condition of `Rv.Props.C20.guarded_needs_live_session`). -/
def liveUser (st : Rv.Auth.St) (ck : Cookie) : Option Nat :=
  match ck with
  | none => none
  | some sid =>
    match Rv.Auth.find st sid with
    | some s => if s.expiresAt > st.now then some s.user else none
    | none => none

/-- `LoginEndpoint.Post`: `Rv.Auth.login` with `userExists` / `verifies` read from
    the user table (an existing live session short-cuts before the lookup). -/
def login (c : Cfg) (s : UState) (ck : Cookie) (name : String) (pw : Pw) : UState × LoginRes :=
  let r := Rv.Auth.login c s.auth ck (lookup s.tbl name).isSome (pwOk s.tbl name pw) ((idOf s.tbl name).getD 0)
  ({ s with auth := r.1 }, r.2)

inductive ChRes where
  | unauthorized        -- 401 (or 403) from WrapHandler, handler not invoked
  | refused             -- 400: an empty field, or the current password does not verify
  | changed             -- 204
  | noUser              -- GetByID found no row for the session's user (a nil dereference in the code)
  deriving Repr, DecidableEq

/-- `ChangePasswordEndpoint.Patch` behind Harden and WrapHandler (guarded route,
    same-site PATCH). -/
def changePassword (c : Cfg) (s : UState) (ck : Cookie) (cur new : Pw) : UState × ChRes :=
  match Rv.Auth.request c s.auth true "PATCH" "" "" ck with
  | (st1, .reached (some u)) =>
    if cur = "" || new = "" then ({ s with auth := st1 }, .refused)
    else match s.tbl[u]? with
      | none => ({ s with auth := st1 }, .noUser)
      | some (n, p) =>
        if verifies (hashOf p) cur then ({ auth := st1, tbl := save s.tbl n new }, .changed)
        else ({ s with auth := st1 }, .refused)
  | (st1, _) => ({ s with auth := st1 }, .unauthorized)

inductive UOp where
  | login (ck : Cookie) (name : String) (pw : Pw)
  | changePassword (ck : Cookie) (cur new : Pw)
  | logout (ck : Cookie)
  | request (requiresAuth : Bool) (method origin site : String) (ck : Cookie)
  | shift (d : Nat)
  | gc
  deriving Repr, DecidableEq

/-- what the operation is to the session table, given the current user table. -/
def authOp (tbl : Table) : UOp → Rv.Auth.Op
  | .login ck name pw => .login ck (lookup tbl name).isSome (pwOk tbl name pw) ((idOf tbl name).getD 0)
  | .changePassword ck _ _ => .request true "PATCH" "" "" ck
  | .logout ck => .logout ck
  | .request ra m o si ck => .request ra m o si ck
  | .shift d => .shift d
  | .gc => .gc

/-- the session part is `Rv.Auth.step`; only `changePassword` touches the user table. -/
def step (c : Cfg) (s : UState) (op : UOp) : UState :=
  { auth := Rv.Auth.step c s.auth (authOp s.tbl op),
    tbl := match op with
      | .changePassword ck cur new => (changePassword c s ck cur new).1.tbl
      | _ => s.tbl }

def run (c : Cfg) (ops : List UOp) (s : UState) : UState := ops.foldl (step c) s

end Rv.Users
