import Rv.Model.Range
import Rv.Model.CacheControl
/-
  Rv.Model.Fetch — the request state machine of package proxy (after the fix
  commits): handleHTTP → processRequest → dedupFetch → getFromCacheOrFetch →
  fetchUpstream → handleUpstream{200,304,416} → handleRangeRequest →
  addCacheHeaders, as a pure function

      handle : Cfg → Origin → Cache → now → Req → Resp × Cache × List UpReq

  for ONE request at a time (coalescing is Rv.Model.Flight). The origin is a
  parameter: a table of resource records and the deterministic answer function
  of the harness's scripted origin. Time is explicit (`now`, milliseconds);
  header values that the properties do not inspect are carried as opaque ids
  (`hdrset`), so "the stored headers are served" is visible as "the same id".
-/
namespace Rv.Fetch
open Rv

/-- `Last-Modified` as the origin sends it. -/
inductive LM where
  | none
  | bad (raw : String)         -- present but not an HTTP date
  | at (sec : Int)             -- a valid HTTP date, seconds relative to the trace base
  deriving Repr, DecidableEq

/-- what the origin currently answers for one resource. -/
structure ORes where
  status : Nat
  ver : Nat
  size : Nat
  etag : String                -- "" = none
  lm : LM
  cc : List Str                -- Cache-Control lines
  expires : CacheControl.ExpiresHdr   -- relative to the instant of the answer
  rangeMode : String           -- ignore | honor | r416
  cond : Bool                  -- answers 304 to a matching validator
  age : Option Nat             -- upstream Age header
  hdrset : Nat                 -- id of the other end-to-end headers it sends
  deriving Repr, DecidableEq

structure Cfg where
  ignoreCC : Bool
  forceDefault : Bool
  defaultMaxAge : Int          -- ms
  retryInvalidRange : Bool
  retry416 : Bool              -- proxy.retry_on_range_416
  fileBackend : Bool
  deriving Repr, DecidableEq

/-- a client request as `handleHTTP` sees it. -/
structure Req where
  res : Nat
  method : String
  query : String
  range : Option Str           -- first Range value
  ifRangeEtag : Option String  -- If-Range that is not an HTTP date (compared as a string)
  ifRangeDate : Option Int     -- If-Range that is an HTTP date (seconds)
  hasBody : Bool
  deriving Repr, DecidableEq

/-- what the origin sees. Client conditionals never appear here by
    construction of `upReq` below — that is C06's second clause. -/
structure UpReq where
  res : Nat
  method : String
  query : String
  inm : String                 -- "" = absent
  ims : Option Int
  range : Option Str
  deriving Repr, DecidableEq

/-- a stored response: the origin record it was stored from plus the cache's
    own metadata. -/
structure CEntry where
  res : Nat
  query : String
  o : ORes
  expires : Int                -- ms
  timeWritten : Int            -- ms
  deriving Repr, DecidableEq

abbrev Cache := List CEntry

def lookup (c : Cache) (res : Nat) (q : String) : Option CEntry := c.find? (fun e => e.res = res && e.query = q)
def erase (c : Cache) (res : Nat) (q : String) : Cache := c.filter (fun e => !(e.res = res && e.query = q))

inductive Label where
  | none | hit | miss | revalidated
  deriving Repr, DecidableEq

/-- where the body bytes come from. -/
inductive Body where
  | empty
  | origin (ver start len : Nat)        -- relayed from an origin answer
  | stored (ver start len : Nat)        -- read from the cache entry
  | proxyError                          -- text written by the proxy itself (416 / 502)
  deriving Repr, DecidableEq

structure Resp where
  status : Nat
  label : Label
  fwdStatus : Option Nat := none        -- Cache-Status fwd-status
  storedFlag : Bool := false            -- Cache-Status "stored"
  body : Body
  hdrFrom : Option ORes := none         -- the origin record whose end-to-end headers are delivered
  contentRange : Option (Nat × Nat × Nat) := none     -- start, end, size
  unsatRange : Option Nat := none       -- Content-Range: bytes */size
  age : Option Int := none
  deriving Repr, DecidableEq

/-! ### the scripted origin -/

inductive OAns where
  | full (o : ORes)                     -- o.status with the whole body
  | notModified (o : ORes)
  | partial_ (o : ORes) (a b : Nat)     -- 206
  | unsat (o : ORes)                    -- 416
  | missing                             -- 404: no such resource
  deriving Repr, DecidableEq

/-- `bytes=<1-9 digits>-<1-9 digits>`, nothing else — what the harness origin honours. -/
def simpleRange (x : Str) : Option (Nat × Nat) :=
  match cutPrefix x (s "bytes=") with
  | none => none
  | some rest =>
    match cutAt '-' rest with
    | none => none
    | some (a, b) =>
      if a ≠ [] && b ≠ [] && allDigits a && allDigits b && a.length ≤ 9 && b.length ≤ 9 then some (decVal a, decVal b) else none

def originAnswer (tbl : Nat → Option ORes) (u : UpReq) : OAns :=
  match tbl u.res with
  | none => .missing
  | some o =>
    if o.cond && u.inm ≠ "" && o.etag ≠ "" && u.inm = o.etag then .notModified o
    else if o.cond && u.inm = "" && (match u.ims, o.lm with | some t, .at l => t = l | _, _ => false) then .notModified o
    else match u.range with
      | some r =>
        if o.status = 200 then
          if o.rangeMode = "r416" then .unsat o
          else if o.rangeMode = "honor" then
            (match simpleRange r with
              | some (a, b) => if a ≤ b && b < o.size then .partial_ o a b else .full o
              | none => .full o)
          else .full o
        else .full o
      | none => .full o

/-! ### storability and lifetime (Rv.Model.CacheControl) -/

/-- milliseconds (this model) ↔ nanoseconds (Rv.Model.CacheControl, time.Duration). -/
def ns (ms : Int) : Int := ms * 1000000

def directives (o : ORes) (now : Int) : CacheControl.Directives :=
  CacheControl.parseDirectives o.cc
    (match o.expires with
      | .at t => .at (ns (now + t))     -- the origin stamps Expires relative to its clock
      | e => e) false

/-- `shouldResponseBeCached`. -/
def storable (cfg : Cfg) (o : ORes) (method : String) (now : Int) : Bool :=
  CacheControl.shouldCache (directives o now) cfg.ignoreCC (ns now) && o.status = 200 && method = "GET"

/-- `GetExpiresOrDefault`, back in milliseconds. -/
def lifetimeEnd (cfg : Cfg) (o : ORes) (now : Int) : Int :=
  CacheControl.expiresOrDefault (directives o now) cfg.forceDefault (ns cfg.defaultMaxAge) (ns now) / 1000000

/-- `Cache()` can refuse: the file backend rejects an empty body. -/
def storeFails (cfg : Cfg) (o : ORes) : Bool := cfg.fileBackend && o.size = 0

/-! ### fetchUpstream -/

inductive Fetched where
  | cached (e : CEntry) (upStatus : Nat)          -- fetchTypeCached, Status = miss
  | direct (a : OAns)                             -- fetchTypeDirect
  | notCacheable                                  -- ErrNotCacheable (cache-side failure)
  deriving Repr, DecidableEq

def ansStatus : OAns → Nat
  | .full o => o.status
  | .notModified _ => 304
  | .partial_ _ _ _ => 206
  | .unsat _ => 416
  | .missing => 404

structure FU where
  out : Fetched
  cache : Cache
  log : List UpReq
  rangeDropped : Bool          -- the 416 retry removed the client's Range (clientHd is mutated)

/-- `handleUpstreamResponse` for one answer (second argument of the 416 case:
    the retry, `noRetry = true`). -/
def onAnswer (cfg : Cfg) (c : Cache) (now : Int) (u : UpReq) (a : OAns) : Fetched × Cache :=
  match a with
  | .full o =>
    if o.status = 200 then
      if storable cfg o u.method now then
        if storeFails cfg o then (.notCacheable, c)
        else
          let e : CEntry := { res := u.res, query := u.query, o := o, expires := lifetimeEnd cfg o now, timeWritten := now }
          (.cached e 200, e :: erase c u.res u.query)
      else (.direct a, c)
    else (.direct a, c)
  | .notModified _ =>
    -- handleUpstream304: UpdateMetadata(Expires = now + default) then Get
    match lookup c u.res u.query with
    | none => (.notCacheable, c)
    | some e =>
      let e' := { e with expires := now + cfg.defaultMaxAge }
      (.cached e' 304, e' :: erase c u.res u.query)
  | _ => (.direct a, c)

/-- `rangeParsed`: the client's Range header parsed (only then does the 416
    retry remove it — `SyncRemove` does nothing for a header that is not
    "present"). -/
def fetchUpstream (cfg : Cfg) (tbl : Nat → Option ORes) (c : Cache) (now : Int) (u : UpReq) (rangeParsed : Bool) : FU :=
  let a := originAnswer tbl u
  match a with
  | .unsat _ =>
    if !cfg.retry416 then
      { out := .direct a, cache := c, log := [u], rangeDropped := false }
    else
      -- handleUpstream416: retry once without Range
      let u2 := if rangeParsed then { u with range := none } else u
      let a2 := originAnswer tbl u2
      let (f, c') := onAnswer cfg c now u2 a2
      { out := f, cache := c', log := [u, u2], rangeDropped := rangeParsed }
  | _ =>
    let (f, c') := onAnswer cfg c now u a
    { out := f, cache := c', log := [u], rangeDropped := false }

/-! ### dedupFetch (single caller) -/

def upReq (r : Req) (range : Option Str) : UpReq :=
  { res := r.res, method := r.method, query := r.query, inm := "", ims := none, range := range }

structure DF where
  out : Fetched                 -- never `.notCacheable`: that falls back to a direct fetch
  label : Label
  cache : Cache
  log : List UpReq
  rangeDropped : Bool

def directFallback (tbl : Nat → Option ORes) (c : Cache) (r : Req) (range : Option Str) (log : List UpReq) (dropped : Bool) : DF :=
  let u := upReq r range
  { out := .direct (originAnswer tbl u), label := .miss, cache := c, log := log ++ [u], rangeDropped := dropped }

/-- `dedupFetch` with the window between the cache lookup and the processing
    of the upstream answer made explicit: `c` is the cache at LOOKUP time (used
    for `lookup`, for building the conditional request from the stored
    validators, and returned unchanged on a fresh hit, where no upstream
    exchange happens); `cMid` is the cache as it is when the upstream answer is
    processed (`fetchUpstream` / `onAnswer`, and the `directFallback` after it,
    which uses `fu.cache`). Eviction, cleanup, deletes and other requests'
    stores may make `cMid ≠ c`. -/
def dedupFetchEnv (cfg : Cfg) (tbl : Nat → Option ORes) (c cMid : Cache) (now : Int) (r : Req) (range : Option Str) (rangePresent : Bool) : DF :=
  if rangePresent || r.method ≠ "GET" then
    -- not coalesced, never looked up: straight to the origin (the Range header is forwarded)
    let fu := fetchUpstream cfg tbl cMid now (upReq r range) rangePresent
    match fu.out with
    -- the fallback re-sends the client's ORIGINAL request: the 416 retry removed Range only from its own clone
    | .notCacheable => directFallback tbl fu.cache r range fu.log fu.rangeDropped
    | f => { out := f, label := .miss, cache := fu.cache, log := fu.log, rangeDropped := fu.rangeDropped }
  else
    match lookup c r.res r.query with
    | none =>
      let fu := fetchUpstream cfg tbl cMid now (upReq r range) false
      (match fu.out with
        | .cached e st => { out := .cached e st, label := .miss, cache := fu.cache, log := fu.log, rangeDropped := fu.rangeDropped }
        | _ => directFallback tbl fu.cache r range fu.log fu.rangeDropped)
    | some e =>
      if ¬ (e.expires < now) then
        { out := .cached e 0, label := .hit, cache := c, log := [], rangeDropped := false }
      else
        -- stale: conditional request built from the STORED validators
        let u := { upReq r range with
                   inm := e.o.etag,
                   ims := (match e.o.lm with | .at l => some l | _ => none) }
        let fu := fetchUpstream cfg tbl cMid now u false
        (match fu.out with
          | .cached e' st => { out := .cached e' st, label := .revalidated, cache := fu.cache, log := fu.log, rangeDropped := fu.rangeDropped }
          | _ => directFallback tbl fu.cache r range fu.log fu.rangeDropped)

/-- `dedupFetch` when nothing else touches the cache while the origin answers:
    the cache the answer is processed against is the cache that was looked up. -/
def dedupFetch (cfg : Cfg) (tbl : Nat → Option ORes) (c : Cache) (now : Int) (r : Req) (range : Option Str) (rangePresent : Bool) : DF :=
  dedupFetchEnv cfg tbl c c now r range rangePresent

/-! ### building the response -/

def relay (a : OAns) (method : String) (label : Label) : Resp :=
  let st := ansStatus a
  let ok2xx := decide (200 ≤ st ∧ st < 300)
  let o? : Option ORes := match a with
    | .full o | .notModified o | .partial_ o _ _ | .unsat o => some o
    | .missing => none
  let body : Body :=
    if method = "HEAD" then .empty
    else match a with
      | .full o => if o.status = 204 || o.status = 304 then .empty else .origin o.ver 0 o.size
      | .partial_ o x y => .origin o.ver x (y - x + 1)
      | .notModified _ => .empty
      | .unsat _ => .empty
      | .missing => .proxyError
  { status := st, label := if ok2xx then label else .none, fwdStatus := if ok2xx then some st else none,
    body := body, hdrFrom := o?,
    contentRange := (match a with | .partial_ o x y => some (x, y, o.size) | _ => none),
    unsatRange := (match a with | .unsat o => some o.size | _ => none) }

def currentAge (e : CEntry) (now : Int) : Int :=
  let up : Int := match e.o.age with | some a => a | none => 0
  let resident := (now - e.timeWritten) / 1000
  max 0 (up + resident)

def fullFromCache (e : CEntry) (label : Label) (upStatus : Nat) (method : String) (now : Int) : Resp :=
  { status := 200, label := label,
    fwdStatus := (match label with | .miss | .revalidated => some upStatus | _ => none),
    storedFlag := decide (label = .miss),
    body := if method = "HEAD" then .empty else .stored e.o.ver 0 e.o.size,
    hdrFrom := some e.o,
    age := (match label with | .hit | .revalidated => some (currentAge e now) | _ => none) }

/-- If-Range against the stored validators: `true` = mismatch ⇒ full 200. -/
def ifRangeMismatch (r : Req) (e : CEntry) : Bool :=
  match r.ifRangeEtag, r.ifRangeDate with
  | some t, _ => t ≠ e.o.etag
  | none, some d => (match e.o.lm with
      | .at l => decide (d < l)
      | _ => true)
  | none, none => false

/-- `handleHTTP` for one request, with the mid-flight cache `cMid` of the FIRST
    `dedupFetch` explicit (see `dedupFetchEnv`). The retry `dedupFetch` runs on
    the cache the first one left. -/
def handleEnv (cfg : Cfg) (tbl : Nat → Option ORes) (c cMid : Cache) (now : Int) (r : Req) : Resp × Cache × List UpReq :=
  -- ParseHeaderDirective: the Range header counts only if it parses
  let parsed : Option (Int × Int) := match r.range with
    | some x => (match Range.parseRangeHeader x with
        | .ok a b => some (a, b)
        | _ => none)
    | none => none
  let df := dedupFetchEnv cfg tbl c cMid now r r.range parsed.isSome
  let rangeLive := parsed.isSome && !df.rangeDropped
  match df.out with
  | .direct a => (relay a r.method df.label, df.cache, df.log)
  | .notCacheable => ({ status := 502, label := .none, body := .proxyError }, df.cache, df.log)
  | .cached e upStatus =>
    match (if rangeLive then parsed else none) with
    | none => (fullFromCache e df.label upStatus r.method now, df.cache, df.log)
    | some (a, b) =>
      match Range.sliceSize a b e.o.size with
      | none =>
        if !cfg.retryInvalidRange then
          ({ status := 416, label := .none, body := .proxyError, unsatRange := some e.o.size }, df.cache, df.log)
        else
          -- retry without Range: a second dedupFetch (now coalescable: looks the entry up)
          let df2 := dedupFetch cfg tbl df.cache now r none false
          (match df2.out with
            | .cached e2 _ =>
              ({ status := 200, label := .none, body := if r.method = "HEAD" then .empty else .stored e2.o.ver 0 e2.o.size, hdrFrom := some e2.o },
               df2.cache, df.log ++ df2.log)
            | .direct a2 => ({ relay a2 r.method .none with label := .none, fwdStatus := none }, df2.cache, df.log ++ df2.log)
            | .notCacheable => ({ status := 502, label := .none, body := .proxyError }, df2.cache, df.log ++ df2.log))
      | some (st, en) =>
        if ifRangeMismatch r e then (fullFromCache e df.label upStatus r.method now, df.cache, df.log)
        else
          ({ status := 206, label := .none,
             body := if r.method = "HEAD" then .empty else .stored e.o.ver st.toNat (en - st + 1).toNat,
             hdrFrom := some e.o, contentRange := some (st.toNat, en.toNat, e.o.size) }, df.cache, df.log)

/-- `handleHTTP` for one request when the cache is not touched in the window. -/
def handle (cfg : Cfg) (tbl : Nat → Option ORes) (c : Cache) (now : Int) (r : Req) : Resp × Cache × List UpReq :=
  handleEnv cfg tbl c c now r

end Rv.Fetch
