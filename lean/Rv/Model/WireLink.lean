import Rv.Model.Tunnel
import Rv.Model.Wire
/-
  Rv.Model.WireLink — the link between the RECORD level (Rv.Model.Fetch /
  Rv.Model.Tunnel: what `handleHTTP` decides to answer) and the BYTE level
  (Rv.Model.Wire: what RawHTTPResponder + http.Response.Write put on the
  connection of a CONNECT tunnel).

  `toWire` says what a record-level response hands to the raw responder:

    status   the record's status
    head     the exchange answers a HEAD request
    cl       the Content-Length the responder ends up with
               * stored / origin body of declared length len: the
                 `Content-Length: len` field of `Rv.Tunnel.hdrOps`
                 (parseAndSetContentLength reads it back: `toWire_cl_hdrOps`)
               * proxyError: `WriteError` sets ContentLength = len(message)
                 directly, i.e. the number of bytes it then writes
               * empty: `WriteEmpty` sets Content-Length 0 and passes NoBody
    hdrs     every OTHER field of `hdrOps` (Response.Write excludes
             Content-Length from the header map: respExcludeHeader)
    body     the bytes the body source yields (a parameter: the record only
             knows where they come from), `fails`: the source ends in an error

  `bytesMatch` is the side condition that ties those bytes to the record.

  The order of `hdrs` is that of `hdrOps` (resp. of the responder's header map
  for `ofTunnel`); Go writes the map sorted by name.  No statement of
  Rv.Lemmas.Wire depends on the order of the fields.
-/
namespace Rv.WireLink
open Rv Rv.Fetch Rv.Headers

/-- the Content-Length the raw responder ends up with. -/
def clOf (b : Body) (bytes : Str) : Option Nat :=
  match b with
  | .stored _ _ len | .origin _ _ len => some len
  | .proxyError => some bytes.length
  | .empty => some 0

/-- a header map without its Content-Length field(s). -/
def otherHdrs (h : Hdr) : List (Str × Str) := h.filter (fun nv => nv.1 != Rv.Wire.nameCL)

/-- what a record-level response hands to the raw responder. -/
def toWire (isHead : Bool) (r : Fetch.Resp) (bytes : Str) (fails : Bool) : Rv.Wire.Resp :=
  { status := r.status, head := isHead, cl := clOf r.body bytes,
    hdrs := otherHdrs (Rv.Tunnel.hdrOps r), body := bytes, fails := fails }

/-- one exchange as a triple: HEAD or not, the record, the bytes of a transfer
    that completes. -/
def ofTriple (t : Bool × Fetch.Resp × Str) : Rv.Wire.Resp := toWire t.1 t.2.1 t.2.2 false

/-- the same from what `Rv.Tunnel.respond` records for one exchange (status,
    the responder's header map, the body source). -/
def ofTunnel (isHead : Bool) (w : Rv.Tunnel.Wire) (bytes : Str) (fails : Bool) : Rv.Wire.Resp :=
  { status := w.status, head := isHead, cl := clOf w.body bytes,
    hdrs := otherHdrs w.headers, body := bytes, fails := fails }

/-- the bytes a body source yields, against what the record says about it: a
    stored / relayed body of declared length `len` yields exactly `len` bytes
    when the transfer completes and at most `len` when it is cut; an empty
    body yields nothing (http.NoBody); the proxy's own error text is whatever
    it is (its Content-Length is computed from it). -/
def bodyMatch (b : Body) (bytes : Str) (fails : Bool) : Prop :=
  match b with
  | .stored _ _ len | .origin _ _ len => if fails then bytes.length ≤ len else bytes.length = len
  | .empty => bytes = []
  | .proxyError => True

instance (b : Body) (bytes : Str) (fails : Bool) : Decidable (bodyMatch b bytes fails) :=
  match b with
  | .stored _ _ len => (inferInstance : Decidable (if fails then bytes.length ≤ len else bytes.length = len))
  | .origin _ _ len => (inferInstance : Decidable (if fails then bytes.length ≤ len else bytes.length = len))
  | .empty => (inferInstance : Decidable (bytes = []))
  | .proxyError => isTrue trivial

/-- `bodyMatch` for a response record. -/
def bytesMatch (r : Fetch.Resp) (bytes : Str) (fails : Bool := false) : Prop := bodyMatch r.body bytes fails

instance (r : Fetch.Resp) (bytes : Str) (fails : Bool) : Decidable (bytesMatch r bytes fails) :=
  (inferInstance : Decidable (bodyMatch r.body bytes fails))

/-- the length a record declares for its body (`none`: the proxy's own text,
    whose length is not part of the record). -/
def declaredLen : Body → Option Nat
  | .stored _ _ len | .origin _ _ len => some len
  | .empty => some 0
  | .proxyError => none

/-- a value that `Header.Write` leaves unchanged: no CR / LF (Go replaces them
    by spaces) and no white space at either end (Go trims). -/
def valueClean (v : Str) : Prop := (∀ c ∈ v, c ≠ '\r' ∧ c ≠ '\n') ∧ Rv.Wire.trimOWS v = v

/-- the entity tag the response delivers is such a value. -/
def etagClean (r : Fetch.Resp) : Prop := ∀ o, r.hdrFrom = some o → valueClean o.etag.toList

/-- a status that does not allow a body (1xx / 204 / 304) comes with a body of
    declared length 0.  This excludes exactly the record-level responses that
    are not delimitable on the wire: see `Rv.Lemmas.WireLink.toWire_delimited_iff`
    and the finding `relay_1xx_with_body`. -/
def noBodyOK (r : Fetch.Resp) : Prop := Rv.Wire.noBodyStatus r.status = true → declaredLen r.body = some 0

/-- the origin never sends a body on a status below 200 (Go's client never
    surfaces a 1xx as the final response; a 101 has no body of its own).  For
    204 / 304 nothing needs to be assumed: `relay` gives them an empty body.
    Without this `handle` produces a response that is NOT delimitable:
    `Rv.Lemmas.WireLink.relay_1xx_with_body`. -/
def originOK (tbl : Nat → Option ORes) : Prop := ∀ n o, tbl n = some o → o.status < 200 → o.size = 0

/-- the entity tags of the origin's records are clean header values. -/
def tblClean (tbl : Nat → Option ORes) : Prop := ∀ n o, tbl n = some o → valueClean o.etag.toList

/-- the entity tags of the stored entries are clean header values. -/
def cacheClean (c : Cache) : Prop := ∀ e ∈ c, valueClean e.o.etag.toList

/-- the response records of `Rv.Tunnel.serve`, in order (the loop of
    `Rv.Tunnel.serve` without the responder). -/
def resps (cfg : Cfg) (tbl : Nat → Option ORes) : Cache → Int → List Req → List Fetch.Resp
  | _, _, [] => []
  | c, now, r :: rest => (handle cfg tbl c now r).1 :: resps cfg tbl (handle cfg tbl c now r).2.1 (now + 1) rest

/-- the byte-level responses of one tunnel: request i (HEAD or not), what
    `Rv.Tunnel.serve` recorded for it, the bytes its body source yielded.
    Stops at the shortest list. -/
def tunnelResps : List Req → List Rv.Tunnel.Wire → List Str → List Rv.Wire.Resp
  | q :: qs, w :: ws, b :: bs => ofTunnel (q.method == "HEAD") w b false :: tunnelResps qs ws bs
  | _, _, _ => []

/-- every body source yields what its record says. -/
def allMatch : List Rv.Tunnel.Wire → List Str → Prop
  | w :: ws, b :: bs => bodyMatch w.body b false ∧ allMatch ws bs
  | [], [] => True
  | _, _ => False

def allMatchDec : (ws : List Rv.Tunnel.Wire) → (bs : List Str) → Decidable (allMatch ws bs)
  | [], [] => isTrue trivial
  | [], _ :: _ => isFalse (fun h => h)
  | _ :: _, [] => isFalse (fun h => h)
  | w :: ws, b :: bs =>
    match (inferInstance : Decidable (bodyMatch w.body b false)), allMatchDec ws bs with
    | isTrue h1, isTrue h2 => isTrue ⟨h1, h2⟩
    | isFalse h1, _ => isFalse (fun h => h1 h.1)
    | _, isFalse h2 => isFalse (fun h => h2 h.2)

instance (ws : List Rv.Tunnel.Wire) (bs : List Str) : Decidable (allMatch ws bs) := allMatchDec ws bs

/-- the byte stream of one tunnel. -/
def tunnelBytes (cfg : Cfg) (tbl : Nat → Option ORes) (c : Cache) (now : Int) (reqs : List Req) (bs : List Str) : Str :=
  Rv.Wire.serve (tunnelResps reqs (Rv.Tunnel.serve false cfg tbl [] c now reqs) bs)

end Rv.WireLink
