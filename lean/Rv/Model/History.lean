import Rv.Model.Fetch
/-
  Rv.Model.History — whole histories of the proxy (C01, C03, C04, C06 quantify
  "for all histories interleaving client requests, lifetime expiry and origin
  content / validator changes"): the single-request machine `Rv.Fetch.handleEnv`
  iterated over a list of events, with time passing, the origin's content
  changing and the environment (eviction, cleanup, operator, other requests)
  removing entries — also in the middle of an upstream exchange.
-/
namespace Rv.History
open Rv Rv.Fetch

inductive HOp where
  | request (r : Req) (dropMid : Bool)     -- a client request; `dropMid`: the entry of its key vanishes while the origin answers
  | elapse (ms : Nat)                       -- time passes
  | setOrigin (res : Nat) (o : ORes)        -- the origin's record of a resource changes (content, validators, policy)
  | removeOrigin (res : Nat)                -- the origin stops knowing the resource
  | dropEntry (res : Nat) (query : String)  -- the environment removes a stored entry
  deriving Repr, DecidableEq

structure World where
  tbl : List (Nat × ORes)
  cache : Cache
  now : Int
  /-- every record the origin has ever had, per resource (what a served body may legitimately be) -/
  produced : List (Nat × ORes)
  deriving Repr, DecidableEq

def tblFn (t : List (Nat × ORes)) : Nat → Option ORes := fun r => (t.find? (·.1 = r)).map (·.2)

def init : World := { tbl := [], cache := [], now := 0, produced := [] }

/-- one event; a request also yields the response and what the origin saw. -/
def step (cfg : Cfg) (w : World) : HOp → World × Option (Req × Resp × List UpReq)
  | .request r dropMid =>
    let cMid := if dropMid then erase w.cache r.res r.query else w.cache
    let out := handleEnv cfg (tblFn w.tbl) w.cache cMid w.now r
    ({ w with cache := out.2.1 }, some (r, out.1, out.2.2))
  | .elapse ms => ({ w with now := w.now + ms }, none)
  | .setOrigin res o => ({ w with tbl := (res, o) :: w.tbl.filter (·.1 ≠ res), produced := (res, o) :: w.produced }, none)
  | .removeOrigin res => ({ w with tbl := w.tbl.filter (·.1 ≠ res) }, none)
  | .dropEntry res q => ({ w with cache := erase w.cache res q }, none)

/-- run a history; the exchanges in order. -/
def run (cfg : Cfg) : List HOp → World → World × List (Req × Resp × List UpReq)
  | [], w => (w, [])
  | op :: rest, w =>
    let (w1, x) := step cfg w op
    let (w2, xs) := run cfg rest w1
    (w2, match x with | some e => e :: xs | none => xs)

/-- the version a response body carries, if it carries origin bytes. -/
def bodyVersion : Body → Option Nat
  | .origin v _ _ | .stored v _ _ => some v
  | _ => none

end Rv.History
