/-
  Rv.Model.Flight — request coalescing in proxy/fetcher.go dedupFetch (after the
  fix commits): singleflight.Group.Do keyed by the cache key, the leader's
  getFromCacheOrFetch, and what every caller does with the shared result
  (re-open its own entry, or fetch on its own when the result was not cacheable
  or the entry has vanished), as a transition system over any number of clients
  of ONE key. The environment may, at any moment, make a client disconnect or
  remove the entry (eviction / cleanup / delete).

  `singleflight.Group.Do` semantics (golang.org/x/sync, trusted): callers that
  arrive while a call for the key is in flight wait for it and receive its
  result; `shared` is reported as true to ALL of them, the leader included, when
  at least one caller joined.
-/
namespace Rv.Flight

/-- what the origin answers for this key during the scenario. -/
inductive OriginKind where
  | cacheable        -- a storable 200
  | uncacheable      -- a 200 the proxy must not store (or a non-200): relayed only
  | storeFails       -- a storable 200 that the cache refuses (full, write error, empty body)
  deriving Repr, DecidableEq

/-- result of the in-flight call. -/
inductive Result where
  | cached (handle : Nat) (ver : Nat)   -- fetchTypeCached: the leader's data handle and the stored version
  | notCacheable               -- ErrNotCacheable
  deriving Repr, DecidableEq

/-- program counter of one client request. -/
inductive Pc where
  | idle                                  -- not arrived yet
  | waiting                               -- inside group.Do (leader or joined)
  | returned (r : Result) (shared : Bool) -- group.Do returned, result not yet acted upon
  | responded (ver : Nat) (handle : Nat)  -- complete 200 with body version `ver`, read through `handle`
  | gone                                  -- the client hung up (needs no response)
  deriving Repr, DecidableEq

structure Call where
  leader : Nat
  joined : List Nat            -- the other callers waiting for this call
  fetched : Bool               -- the leader's lookup / origin exchange has happened
  result : Option Result
  deriving Repr, DecidableEq

structure St where
  pcs : List (Nat × Pc)        -- per client
  call : Option Call           -- the in-flight singleflight call, if any
  entry : Option Nat           -- version currently stored under the key (fresh)
  staleEntry : Bool            -- the stored entry is stale (needs revalidation)
  originVer : Nat              -- version the origin serves
  kind : OriginKind
  originLog : Nat              -- requests the origin has received
  nextHandle : Nat
  detached : Bool              -- the shared fetch does not depend on the leader's connection (extracted fact)
  failed : List Nat            -- clients that were answered with an error (502)
  deriving Repr, DecidableEq

def pcOf (st : St) (c : Nat) : Pc := ((st.pcs.find? (·.1 = c)).map (·.2)).getD .idle
def setPc (st : St) (c : Nat) (p : Pc) : St := { st with pcs := (c, p) :: st.pcs.filter (·.1 ≠ c) }

inductive Step where
  | arrive (c : Nat)
  | leaderFetch                -- the leader's getFromCacheOrFetch runs to completion
  | publish                    -- group.Do returns to every caller of the call
  | act (c : Nat)              -- caller c acts on the returned result
  | disconnect (c : Nat)
  | evict                      -- the entry is removed by the environment
  deriving Repr, DecidableEq

def freshHandle (st : St) : St × Nat := ({ st with nextHandle := st.nextHandle + 1 }, st.nextHandle)

/-- a caller fetches directly from the origin on its own (fetchDirectlyFromUpstream). -/
def ownFetch (st : St) (c : Nat) : St :=
  let (st1, h) := freshHandle st
  setPc { st1 with originLog := st1.originLog + 1 } c (.responded st.originVer h)

def step (st : St) : Step → St
  | .arrive c =>
    if pcOf st c ≠ .idle then st
    else match st.call with
      | some call =>
        if call.result.isNone then setPc { st with call := some { call with joined := call.joined ++ [c] } } c .waiting
        else st          -- Do has completed for that call; a new call can only start after `publish`
      | none => setPc { st with call := some { leader := c, joined := [], fetched := false, result := none } } c .waiting
  | .leaderFetch =>
    match st.call with
    | some call =>
      if call.fetched then st
      else if !st.detached && pcOf st call.leader = .gone then
        -- the shared upstream request carried the leader's context: cancelled with it
        { st with call := some { call with fetched := true, result := none } }
      else
        match st.entry, st.staleEntry with
        | some v, false =>
          let (st1, h) := freshHandle st
          { st1 with call := some { call with fetched := true, result := some (.cached h v) } }    -- hit
        | _, _ =>
          -- miss or stale: one origin request (conditional when stale)
          let st1 := { st with originLog := st.originLog + 1 }
          match st.kind with
          | .cacheable =>
            let (st2, h) := freshHandle st1
            { st2 with entry := some st.originVer, staleEntry := false,
                       call := some { call with fetched := true, result := some (.cached h st.originVer) } }
          | _ => { st1 with call := some { call with fetched := true, result := some .notCacheable } }
    | none => st
  | .publish =>
    match st.call with
    | some call =>
      if !call.fetched then st
      else
        let shared := !call.joined.isEmpty
        let callers := call.leader :: call.joined
        let st1 := callers.foldl (fun s c =>
          match pcOf s c with
          | .waiting =>
            (match call.result with
              | some r => setPc s c (.returned r shared)
              | none => { setPc s c .gone with failed := c :: s.failed })    -- the call failed: 502 for every caller
          | _ => s) st
        { st1 with call := none }
    | none => st
  | .act c =>
    match pcOf st c with
    | .returned .notCacheable _ => ownFetch st c
    | .returned (.cached h v) false =>
      -- sole caller: serves the entry through the handle it got (pinned to that version, C01)
      setPc st c (.responded v h)
    | .returned (.cached _ _) true =>
      -- shared: close the shared handle, re-open an own one; fall back to an own fetch if the entry vanished
      (match st.entry with
        | some v => let (st1, h) := freshHandle st; setPc st1 c (.responded v h)
        | none => ownFetch st c)
    | _ => st
  | .disconnect c =>
    match pcOf st c with
    | .responded _ _ => st
    | _ => setPc st c .gone
  | .evict => { st with entry := none, staleEntry := false }

def run (steps : List Step) (st : St) : St := steps.foldl step st

def init (n : Nat) (entry : Option Nat) (stale : Bool) (originVer : Nat) (kind : OriginKind) (detached : Bool) : St :=
  { pcs := (List.range n).map (fun c => (c, .idle)), call := none, entry := entry, staleEntry := stale,
    originVer := originVer, kind := kind, originLog := 0, nextHandle := 0, detached := detached, failed := [] }

end Rv.Flight
