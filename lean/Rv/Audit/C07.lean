import Rv.Props.C07
#print axioms Rv.Props.C07.parse_total
#print axioms Rv.Props.C07.parse_in_int64
#print axioms Rv.Props.C07.slice_inside
#print axioms Rv.Props.C07.outcome_total
#print axioms Rv.Props.C07.slice_is_requested
#print axioms Rv.Props.C07.requested_is_served
#print axioms Rv.Props.C07.unsatisfiable_refused
