import Rv.Props.C07
import Rv.Props.C09
import Rv.Props.SrcRange
import Rv.Props.SrcRangeParse
import Rv.Props.SrcIfRange
import Rv.Props.SrcRangeString
#print axioms Rv.Props.C07.parse_total
#print axioms Rv.Props.C07.parse_in_int64
#print axioms Rv.Props.C07.slice_inside
#print axioms Rv.Props.C07.outcome_total
#print axioms Rv.Props.C07.slice_is_requested
#print axioms Rv.Props.C07.requested_is_served
#print axioms Rv.Props.C07.unsatisfiable_refused
#print axioms Rv.Props.C09.never_gateway_error
#print axioms Rv.Props.C09.status_comes_from_origin
#print axioms Rv.Props.C09.empty_body_still_served
#print axioms Rv.Props.C09.served_206_exact
#print axioms Rv.Props.C09.stored_body_paired
#print axioms Rv.Props.C09.if_range_mismatch_full
#print axioms Rv.Props.C09.status_valid
#print axioms Rv.Props.C09.env_agrees_when_unchanged
#print axioms Rv.Props.C09.status_comes_from_origin_env
#print axioms Rv.Props.C09.gateway_error_is_the_origins_env
#print axioms Rv.Props.C09.never_gateway_error_env
#print axioms Rv.Props.C09.never_bad_gateway_env
#print axioms Rv.Props.C09.vanished_entry_falls_back_env
#print axioms Rv.Props.C09.vanished_entry_second_request_unconditional
#print axioms Rv.Props.SrcRange.validateRange_eq
#print axioms Rv.Props.SrcRange.sliceSize_eq
#print axioms Rv.Props.SrcRange.sliceSize_total
#print axioms Rv.Props.SrcRangeParse.loop_good
#print axioms Rv.Props.SrcRangeParse.parseRangeNumber_eq_bytes
#print axioms Rv.Props.SrcRangeParse.parseRangeNumber_eq
#print axioms Rv.Props.SrcRangeParse.parseRangeHeader_eq_bytes
#print axioms Rv.Props.SrcRangeParse.parseRangeHeader_eq
#print axioms Rv.Props.SrcRangeParse.parseRangeHeader_total
#print axioms Rv.Props.SrcRangeParse.parseRangeHeader_never_panics
#print axioms Rv.Props.SrcIfRange.ifRangeDecision_total
#print axioms Rv.Props.SrcIfRange.ifRangeDecision_core
#print axioms Rv.Props.SrcIfRange.ifRangeDecision_eq
#print axioms Rv.Props.SrcRangeString.l_suffix
#print axioms Rv.Props.SrcRangeString.l_bytes
#print axioms Rv.Props.SrcRangeString.rangeHeaderString_eq
#print axioms Rv.Props.SrcRangeString.rangeHeaderString_total
#print axioms Rv.Props.SrcRangeString.intToDec_natCast
#print axioms Rv.Props.SrcRangeString.rangeString_suffix
#print axioms Rv.Props.SrcRangeString.rangeString_from
#print axioms Rv.Props.SrcRangeString.rangeString_fromTo
