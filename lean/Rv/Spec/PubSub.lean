import Rv.Model.Event
/-
  Rv.Spec.PubSub — the reference: the live subscriptions after a history are
  those subscribed and not unsubscribed since, identified by the order of their
  `subscribe` operation (the k-th subscribe gets id k).
-/
namespace Rv.Spec.PubSub
open Rv.Event

/-- live (id, listener) pairs after a history, computed without any list
    surgery: id k is live iff the k-th subscribe happened and no later
    `unsubscribe k`. -/
def live : List Op → Nat → List (Nat × Nat) → List (Nat × Nat)
  | [], _, acc => acc
  | .subscribe l :: rest, n, acc => live rest (n + 1) (acc ++ [(n, l)])
  | .unsubscribe id :: rest, n, acc => live rest n (acc.filter (fun x => x.1 ≠ id))
  | _ :: rest, n, acc => live rest n acc

/-- the value of the last `fire`, if any. -/
def lastFired : List Op → Option Int
  | [] => none
  | op :: rest => match lastFired rest with
    | some v => some v
    | none => match op with
      | .fire v => some v
      | _ => none

end Rv.Spec.PubSub
