import Rv.Basic
/-
  Rv.Spec.Range — RFC 9110 §14.1.2 single byte-range, written independently of
  the implementation's parser: a recogniser for

      bytes=<digits>-<digits> | bytes=<digits>- | bytes=-<digits>

  (no white space, nothing after the spec) with unbounded natural numbers, and
  `resolve`, the byte interval such a spec denotes on a representation of
  `size` bytes *when the proxy serves it at all* (in range, first ≤ last).
-/
namespace Rv.Spec.Range
open Rv

inductive RangeSpec where
  | fromTo (a b : Nat)
  | from_ (a : Nat)
  | suffix (n : Nat)
  deriving Repr, DecidableEq

/-- nonempty all-digit string ↦ its value. -/
def number (ds : Str) : Option Nat :=
  if ds ≠ [] ∧ allDigits ds then some (decVal ds) else none

def prefixLit : Str := ['b', 'y', 't', 'e', 's', '=']

def wellFormedSingle (x : Str) : Option RangeSpec :=
  match cutPrefix x prefixLit with
  | none => none
  | some rest =>
    match cutAt '-' rest with
    | none => none
    | some (a, b) =>
      if a = [] then
        match number b with
        | some n => some (.suffix n)
        | none => none
      else
        match number a with
        | none => none
        | some av =>
          if b = [] then some (.from_ av)
          else match number b with
            | some bv => some (.fromTo av bv)
            | none => none

/-- the interval denoted, if it lies inside a representation of `size` bytes. -/
def resolve (sp : RangeSpec) (size : Nat) : Option (Nat × Nat) :=
  match sp with
  | .fromTo a b => if a ≤ b ∧ b < size then some (a, b) else none
  | .from_ a => if a < size then some (a, size - 1) else none
  | .suffix n => if 0 < n ∧ n ≤ size then some (size - n, size - 1) else none

end Rv.Spec.Range
