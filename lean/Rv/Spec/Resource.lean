import Rv.Basic
import Rv.Model.Key
/-
  Rv.Spec.Resource — C02's notion of "the same resource".
-/
namespace Rv.Spec.Resource
open Rv

structure Req where
  method : Str
  host : Str
  path : Str      -- decoded URL path as net/http hands it to the handler
  query : Str     -- raw query
  deriving Repr, DecidableEq

/-- same method, same host case-insensitively, same path up to dot-segments
    and duplicate slashes (trailing slash significant), same query. -/
def sameResource (a b : Req) : Prop :=
  a.method = b.method ∧ toLower a.host = toLower b.host ∧
  Rv.Key.normPath a.path = Rv.Key.normPath b.path ∧ a.query = b.query

instance (a b : Req) : Decidable (sameResource a b) := by
  unfold sameResource; exact inferInstance

end Rv.Spec.Resource
