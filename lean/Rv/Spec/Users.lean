import Rv.Model.Users
import Rv.Spec.Session
/-
  Rv.Spec.Users — C20's reference notion of "the password that logs user u in",
  computed from the history alone (no session table, no user table): it is the
  `new` of the last change-password request that was made with the cookie of a
  session of u that is live in the session reference (Rv.Spec.Session), with
  both fields non-empty and `cur` equal to the password accepted last before it
  — or the provisioned password if there has been no such request.  The
  provisioned table `tbl0` (names and initial passwords) is a parameter.
-/
namespace Rv.Spec.Users
open Rv.Auth Rv.Users Rv.Spec.Session

/-- abstract state: the session reference, who each issued session id was issued
    to, and per user id the password accepted last. -/
structure Ref where
  abs : Abs
  owner : Nat → Option Nat
  pw : Nat → Option Pw

def Ref.init (tbl0 : Table) : Ref :=
  { abs := Abs.init, owner := fun _ => none, pw := fun u => pwOf tbl0 u }

/-- is the cookie's session live in the session reference? -/
def liveCk (a : Abs) (ck : Cookie) : Bool :=
  match ck with
  | some sid => a.live sid
  | none => false

/-- the user of the cookie's session, if it is live in the session reference. -/
def Ref.sessionUser (r : Ref) (ck : Cookie) : Option Nat :=
  match ck with
  | some sid => if r.abs.live sid then r.owner sid else none
  | none => none

/-- the credentials name a provisioned user (any spelling) and the password
    accepted last for that user. -/
def Ref.credOk (tbl0 : Table) (r : Ref) (name : String) (pw : Pw) : Bool :=
  match idOf tbl0 name with
  | some u => decide (r.pw u = some pw)
  | none => false

/-- a change-password request is accepted for user `u`. -/
def Ref.accepts (r : Ref) (ck : Cookie) (cur new : Pw) (u : Nat) : Bool :=
  decide (r.sessionUser ck = some u) && decide (cur ≠ "") && decide (new ≠ "") && decide (r.pw u = some cur)

/-- what the operation is to the session reference. -/
def Ref.authOp (tbl0 : Table) (r : Ref) : UOp → Op
  | .login ck name pw => .login ck (idOf tbl0 name).isSome (r.credOk tbl0 name pw) ((idOf tbl0 name).getD 0)
  | .changePassword ck _ _ => .request true "PATCH" "" "" ck
  | .logout ck => .logout ck
  | .request ra m o si ck => .request ra m o si ck
  | .shift d => .shift d
  | .gc => .gc

def Ref.step (c : Cfg) (tbl0 : Table) (r : Ref) (op : UOp) : Ref :=
  { abs := Abs.step c r.abs (r.authOp tbl0 op),
    owner := match op with
      | .login ck name pw =>
        if !(liveCk r.abs ck) && r.credOk tbl0 name pw then
          fun k => if k = r.abs.nextSid then idOf tbl0 name else r.owner k
        else r.owner
      | _ => r.owner,
    pw := match op with
      | .changePassword ck cur new => fun v => if r.accepts ck cur new v then some new else r.pw v
      | _ => r.pw }

def Ref.run (c : Cfg) (tbl0 : Table) (ops : List UOp) (r : Ref) : Ref := ops.foldl (Ref.step c tbl0) r

/-- the password accepted last for user `u` after the history `ops`. -/
def lastAccepted (c : Cfg) (tbl0 : Table) (ops : List UOp) (u : Nat) : Option Pw :=
  (Ref.run c tbl0 ops (Ref.init tbl0)).pw u

/-- was the change-password request `(ck, cur, new)` arriving after the history
    `ops` accepted for user `u`, according to the reference? -/
def acceptedAfter (c : Cfg) (tbl0 : Table) (ops : List UOp) (ck : Cookie) (cur new : Pw) (u : Nat) : Bool :=
  (Ref.run c tbl0 ops (Ref.init tbl0)).accepts ck cur new u

end Rv.Spec.Users
