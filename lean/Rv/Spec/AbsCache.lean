import Rv.Model.Store
/-
  Rv.Spec.AbsCache — what C12 calls "what is actually stored": the accounting
  invariant of a quiescent cache state.
-/
namespace Rv.Spec.AbsCache
open Rv.Store

def KeysDistinct (es : List Entry) : Prop := es.Pairwise (fun a b => a.key ≠ b.key)
def DirDistinct (d : List DirEnt) : Prop := d.Pairwise (fun a b => a.key ≠ b.key)

/-- reported size = bytes of the retrievable entries; reported count = their
    number; (file backend) the directory holds exactly one file per entry, with
    the entry's body and length; (memory backend) no files. -/
structure Inv (st : St) : Prop where
  keys : KeysDistinct st.entries
  bytes : st.byteSize = totalSize st.entries
  mbytes : st.mBytes = st.byteSize
  mentries : st.mEntries = st.entries.length
  dirMem : st.backend = .mem → st.dir = []
  dirKeys : DirDistinct st.dir
  dirFile : st.backend = .file → ∀ k,
    (dirLookup st.dir k).map (fun f => (f.ver, f.size)) = (lookup st.entries k).map (fun e => (e.ver, e.size))

end Rv.Spec.AbsCache
