import Rv.Basic
import Rv.Model.CacheControl
/-
  Rv.Spec.Freshness — what C03/C04 say about origin cache directives, stated
  over the *tokens* of the Cache-Control field (all lines, comma separated,
  trimmed, compared case-insensitively) — no parser state, no loop.
-/
namespace Rv.Spec.Freshness
open Rv Rv.CacheControl

/-- the directive tokens of all `Cache-Control` lines. -/
def tokens (lines : List Str) : List Str :=
  lines.flatMap (fun l => (splitOn ',' l).map (fun r => toLower (trimSpace r)))

def isForbid (t : Str) : Bool :=
  t = s "no-store" || t = s "no-cache" || t = s "private"

/-- `none`: not a max-age token; `some none`: max-age with an invalid number;
    `some (some v)`: max-age=v. -/
def maxAgeOf (t : Str) : Option (Option Int) :=
  match cutPrefix t (s "max-age=") with
  | none => none
  | some v => some (parseInt64 v)

/-- the origin marked the response as not to be stored / reused. -/
def forbids (ts : List Str) : Bool :=
  ts.any (fun t => isForbid t || (match maxAgeOf t with
    | some none => true
    | some (some v) => decide (v < 1)
    | none => false))

/-- the values of the well-formed positive max-age tokens, in order. -/
def positiveMaxAges (ts : List Str) : List Int :=
  ts.filterMap (fun t => match maxAgeOf t with
    | some (some v) => if v ≥ 1 then some v else none
    | _ => none)

/-- the freshness lifetime rule of C03 as an instant: force-default > max-age >
    Expires (unparseable = already expired) > default. -/
def expiryInstant (lines : List Str) (e : ExpiresHdr) (force : Bool) (dflt now : Int) : Int :=
  if force then now + dflt
  else match (positiveMaxAges (tokens lines)).getLast? with
    | some v => now + (min v maxSeconds) * second
    | none => match e with
      | .at t => t
      | .bad => zeroTime
      | .absent => now + dflt

end Rv.Spec.Freshness
