import Rv.Model.Auth
/-
  Rv.Spec.Session — C20's reference notion of a live session, computed from
  the history alone (no session table): a session exists from the successful
  login that issued it; every successful authenticated use within `threshold` of
  its expiry renews it for `lifetime`; it ends at logout or when the clock
  reaches its expiry — and once ended it never comes back.
-/
namespace Rv.Spec.Session
open Rv.Auth

/-- abstract state: the current instant and, per issued session id, its expiry
    (`none` = ended or never issued). -/
structure Abs where
  now : Int
  nextSid : Nat
  expiry : Nat → Option Int

def Abs.init : Abs := { now := 0, nextSid := 0, expiry := fun _ => none }

/-- is `sid` live at the current instant? -/
def Abs.live (a : Abs) (sid : Nat) : Bool :=
  match a.expiry sid with
  | some e => decide (e > a.now)
  | none => false

/-- a use of the cookie by any request (guarded or not, login included): an
    ended session is forgotten, a live one close to expiry is renewed. -/
def Abs.touch (c : Cfg) (a : Abs) (ck : Cookie) : Abs :=
  match ck with
  | none => a
  | some sid =>
    match a.expiry sid with
    | none => a
    | some e =>
      if ¬ (e > a.now) then { a with expiry := fun k => if k = sid then none else a.expiry k }
      else if e - a.now ≤ c.threshold then { a with expiry := fun k => if k = sid then some (a.now + c.lifetime) else a.expiry k }
      else a

def Abs.step (c : Cfg) (a : Abs) : Op → Abs
  | .login ck ue v _ =>
    let a1 := a.touch c ck
    let liveCk := match ck with | some sid => a.live sid | none => false
    if liveCk then a1
    else if ue && v then { a1 with nextSid := a1.nextSid + 1,
                                   expiry := fun k => if k = a1.nextSid then some (a1.now + c.lifetime) else a1.expiry k }
    else a1
  | .logout ck =>
    let a1 := a.touch c ck
    match ck with
    | some sid => if a.live sid then { a1 with expiry := fun k => if k = sid then none else a1.expiry k } else a1
    | none => a1
  | .request _ m o s ck => if hardenAllows m o s then a.touch c ck else a
  | .shift d => { a with now := a.now + d }
  | .gc => a

def Abs.run (c : Cfg) (ops : List Op) (a : Abs) : Abs := ops.foldl (Abs.step c) a

end Rv.Spec.Session
