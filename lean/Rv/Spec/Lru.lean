import Rv.Model.Store
/-
  Rv.Spec.Lru — C13's eviction contract, independent of the loop: the victims
  are the first entries of a priority-descending order of the candidates (skipped
  ones aside), the loop stops at the first moment the size is at or below 80 % of
  the limit, and it does not remove one entry more than needed.
-/
namespace Rv.Spec.Lru
open Rv.Store

/-- `l` is ordered by descending eviction priority at instant `now`. -/
def Desc (now : Int) : List Entry → Prop
  | [] => True
  | [_] => True
  | a :: b :: rest => priority now a ≥ priority now b ∧ Desc now (b :: rest)

/-- sizes removed by evicting the keys `ks` from `es`. -/
def freed (es : List Entry) (ks : List Nat) : Int :=
  totalSize (es.filter (fun e => ks.contains e.key))

end Rv.Spec.Lru
