import Rv.Model.Flight
import Rv.Generated.Shapes
/-
  Rv.Oracle.Flight — one `fl run` line = one forced coalescing schedule on the
  real proxy. The model outcome is computed from the canonical schedule
  (arrivals, hang-ups, leader fetch, publish, optional eviction, every caller
  acts); Props/C05 proves that every other interleaving of the same scenario has
  the same outcome.
-/
namespace Rv.Oracle.Flight
open Rv.Flight

def nat (x : String) : Nat := x.toNat?.getD 0

def between (x a b : String) : String :=
  match x.splitOn a with
  | _ :: r :: _ => (r.splitOn b).headD ""
  | _ => ""

def stepRun (transport ns pre kind disc ev lates obs : String) : String × String :=
    let n := nat ns
    let late := nat lates
    let k : OriginKind := if kind = "uncacheable" then .uncacheable else if kind = "emptyfile" then .storeFails else .cacheable
    let size := if kind = "emptyfile" then 0 else 300
    let entry : Option Nat := if pre = "cold" then none else some 1
    let detached := Rv.Generated.upstreamCtx = "detached"
    let gone : List Nat :=
      if disc = "leader" then [0]
      else if disc.startsWith "f" then [nat (disc.drop 1).toString]
      else if disc = "allbutlast" then List.range (n - 1)
      else []
    let sched : List Step :=
      -- on a tunnel the proxy does not learn that a client hung up (requests read from the tunnel carry no
      -- connection-bound context): the handler of a gone client runs to the end, its answer is simply lost
      (List.range n).map .arrive ++ (if transport = "tunnel" then [] else gone.map .disconnect) ++
      -- late clients arrive after the hang-ups while the shared fetch is still in flight
      ((List.range late).map (fun i => Step.arrive (n + i))) ++ [.leaderFetch, .publish] ++
      (if ev = "1" then [.evict] else []) ++ (List.range (n + late)).map .act
    let st := run sched (init (n + late) entry (pre = "stale") 1 k detached)
    let clients := (List.range (n + late)).map (fun c => if gone.contains c then "gone" else match pcOf st c with
      | .responded v _ => s!"200:v{v}:{size}:ok"
      | .gone => if gone.contains c then "gone" else "502"
      | _ => "stuck")
    let m := s!"origin={st.originLog} clients=[{" ".intercalate clients}]"
    -- C05 predicates on the implementation's observation
    let implClients := (between obs "clients=[" "]").splitOn " "
    let implOrigin := nat (between (obs ++ " ") "origin=" " ")
    let v :=
      if obs.startsWith "panic" then "bad:panic"
      else if (obs.splitOn "setup-incomplete").length > 1 then "ok"      -- the forced schedule was not established: not judged
      else if implClients.any (fun c => c = "HANG") then "bad:client-left-waiting"
      else if implClients.any (fun c => c ≠ "gone" && c ≠ s!"200:v1:{size}:ok") then "bad:client-without-complete-correct-answer"
      else if k = .cacheable && ev ≠ "1" && implOrigin > (if pre = "fresh" then 0 else 1) then "bad:more-than-one-origin-fetch-for-coalesced-requests"
      else "ok"
    (m, v)

def step (fs : List String) (obs : String) : String × String :=
  match fs with
  | ["fl", "run", _backend, transport, ns, pre, kind, disc, ev] => stepRun transport ns pre kind disc ev "0" obs
  | ["fl", "run", _backend, transport, ns, pre, kind, disc, ev, late] => stepRun transport ns pre kind disc ev late obs
  | _ => ("bad-op", "bad:bad-op")

end Rv.Oracle.Flight
