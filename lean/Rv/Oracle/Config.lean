import Rv.Model.Config
import Rv.Model.ByteSize
/-
  Rv.Oracle.Config — replays `config` op lines through Rv.Model.Config. JSON
  values arrive as tokens (s:<hex> n:<int> f:<float> b:0/1 null o); decoding a
  token into a setting's type follows encoding/json plus the three custom
  unmarshallers (Duration via time.ParseDuration, ByteSize via Rv.Model.ByteSize,
  slog.Level), restricted to the forms the generator produces.
-/
namespace Rv.Oracle.Config
open Rv Rv.Config

def unhexS (x : String) : Str := if x = "-" then [] else (unhex x.toList).getD []
def hexS (x : Str) : String := if x = [] then "-" else String.ofList (hex x)

def schema : List (String × String × Bool) := [
  ("proxy.listen", "str", true), ("proxy.ca_cert", "str", true), ("proxy.ca_key", "str", true),
  ("proxy.upstream_default_https", "bool", false), ("proxy.retry_on_range_416", "bool", false),
  ("proxy.retry_on_invalid_range", "bool", false), ("proxy.cache_policy.ignore_cache_control", "bool", false),
  ("proxy.cache_policy.default_max_age", "dur", false), ("proxy.cache_policy.force_default_max_age", "bool", false),
  ("webserver.listen", "str", true), ("webserver.dashboard_disabled", "bool", true), ("webserver.api_disabled", "bool", true),
  ("cache.max_cache_size", "size", false), ("cache.type", "str", true), ("cache.cleanup_interval", "dur", false),
  ("cache.lock_shards", "int", true), ("cache.file.dir", "str", true), ("cache.memory.memory_budget_percent", "int", false),
  ("logging.level", "level", false), ("logging.file", "str", false), ("logging.max_size", "size", false),
  ("logging.max_backups", "int", false), ("logging.compress", "bool", false), ("logging.to_stdout", "bool", false)]

def defaults : Cfg :=
  let d (n : String) : Val :=
    if n = "proxy.listen" then .str ":9999" else if n = "proxy.ca_cert" then .str "ssl/ca.crt" else if n = "proxy.ca_key" then .str "ssl/ca.key"
    else if n = "proxy.upstream_default_https" then .bool true else if n = "proxy.retry_on_range_416" then .bool true
    else if n = "proxy.retry_on_invalid_range" then .bool false else if n = "proxy.cache_policy.ignore_cache_control" then .bool true
    else if n = "proxy.cache_policy.default_max_age" then .dur 3600000000000 else if n = "proxy.cache_policy.force_default_max_age" then .bool true
    else if n = "webserver.listen" then .str "localhost:8080" else if n = "webserver.dashboard_disabled" then .bool false
    else if n = "webserver.api_disabled" then .bool false else if n = "cache.max_cache_size" then .size 10737418240
    else if n = "cache.type" then .str "memory" else if n = "cache.cleanup_interval" then .dur 5400000000000
    else if n = "cache.lock_shards" then .int 1024 else if n = "cache.file.dir" then .str "var/cache/"
    else if n = "cache.memory.memory_budget_percent" then .int 75 else if n = "logging.level" then .level 0
    else if n = "logging.file" then .str "var/proxy.log" else if n = "logging.max_size" then .size 524288000
    else if n = "logging.max_backups" then .int 3 else if n = "logging.compress" then .bool true else .bool false
  schema.map (fun s => { name := s.1, base := d s.1, override := none, restart := s.2.2 })

/-- `time.ParseDuration` for `[-+]?(<digits><unit>)+` with units ns us ms s m h. -/
def unitNs (u : Str) : Option Int :=
  if u = s "ns" then some 1 else if u = s "us" then some 1000 else if u = s "ms" then some 1000000
  else if u = s "s" then some 1000000000 else if u = s "m" then some 60000000000 else if u = s "h" then some 3600000000000 else none

partial def durLoop (x : Str) (acc : Int) : Option Int :=
  if x = [] then some acc
  else
    let ds := x.takeWhile isDigit
    let rest := x.dropWhile isDigit
    let us := rest.takeWhile (fun c => !isDigit c)
    let rest2 := rest.dropWhile (fun c => !isDigit c)
    if ds = [] then none
    else match unitNs us with
      | none => none
      | some m => durLoop rest2 (acc + (decVal ds : Int) * m)

def parseDuration (x : Str) : Option Int :=
  match x with
  | [] => none
  | '-' :: r => (if r = [] then none else (durLoop r 0).map (fun v => -v))
  | '+' :: r => (if r = [] then none else durLoop r 0)
  | ['0'] => some 0
  | r => durLoop r 0

def parseLevel (x : Str) : Option Int :=
  let u := x.map (fun c => if 'a' ≤ c && c ≤ 'z' then Char.ofNat (c.toNat - 32) else c)
  let (name, off) := match cutAt '+' u with
    | some (a, b) => (a, if allDigits b && b ≠ [] then some (decVal b : Int) else none)
    | none => (u, some 0)
  let base : Option Int := if name = s "DEBUG" then some (-4) else if name = s "INFO" then some 0 else if name = s "WARN" then some 4 else if name = s "ERROR" then some 8 else none
  match base, off with
  | some b, some o => some (b + o)
  | _, _ => none

/-- decode one JSON token into a value of the given type; `none` = ill-typed. -/
def decode (ty tok : String) : Option Val :=
  let isS := tok.startsWith "s:"
  let sv : Str := unhexS (tok.drop 2).toString
  if ty = "str" then (if isS then some (.str (String.ofList sv)) else if tok = "null" then some (.str "") else none)
  else if ty = "bool" then (if tok = "b:1" then some (.bool true) else if tok = "b:0" then some (.bool false) else if tok = "null" then some (.bool false) else none)
  else if ty = "int" then (if tok.startsWith "n:" then (tok.drop 2).toString.toInt?.map Val.int else if tok = "null" then some (.int 0) else none)
  else if ty = "dur" then (if isS then (parseDuration sv).map Val.dur else none)
  else if ty = "size" then (if isS then (match ByteSize.parse sv with | .ok v => some (.size v) | .err _ => none) else none)
  else if ty = "level" then (if isS then (parseLevel sv).map Val.level else none)
  else none

def typeOf (name : String) : Option String := (schema.find? (·.1 = name)).map (·.2.1)

/-- one `path=token` pair of the document ↦ an Entry. A path below a leaf means
    the leaf was given a JSON object (ill-typed); a section given a scalar is
    silently ignored by the walk. -/
def entryOf (cfg : Cfg) (pair : String) : Entry :=
  match pair.splitOn "=" with
  | [path, tok] =>
    match typeOf path with
    | some ty =>
      -- `cur`: the client posts the setting back with the value the server reported (its configured value)
      if tok = "cur" then (match baseOf cfg path with | some v => .set path v | none => .unknown path)
      else (match decode ty tok with
        | some v => .set path v
        | none => .illTyped path)
    | none =>
      -- is a proper prefix a leaf?
      let segs := path.splitOn "."
      let prefixes := (List.range segs.length).map (fun n => ".".intercalate (segs.take n))
      match prefixes.find? (fun p => (typeOf p).isSome) with
      | some p => .illTyped p
      | none => .unknown path
  | _ => .unknown pair

def renderVal : Val → String
  | .str x => "s:" ++ hexS x.toList
  | .bool b => if b then "b:1" else "b:0"
  | .int i => s!"n:{i}"
  | .dur d => s!"d:{d}"
  | .size z => s!"z:{z}"
  | .level l => s!"l:{l}"

def parseTokVal (tok : String) : Val :=
  let body := (tok.drop 2).toString
  if tok.startsWith "s:" then .str (String.ofList (unhexS body))
  else if tok = "b:1" then .bool true else if tok = "b:0" then .bool false
  else if tok.startsWith "n:" then .int (body.toInt?.getD 0)
  else if tok.startsWith "d:" then .dur (body.toInt?.getD 0)
  else if tok.startsWith "z:" then .size (body.toInt?.getD 0)
  else .level (body.toInt?.getD 0)

def reads (cfg : Cfg) : String := ",".intercalate (cfg.map (fun c => c.name ++ "=" ++ renderVal c.read))
def fileReads (f : File) : String := ",".intercalate (f.map (fun p => p.1 ++ "=" ++ renderVal p.2))

def stateStr (st : State) : String :=
  s!"restart={if st.restartNeeded then 1 else 0} reads={reads st.cfg} file={fileReads st.file}"

def notesStr (ns : List Note) : String :=
  " ".intercalate ((ns.map (fun n => n.1 ++ "=" ++ renderVal n.2)).toArray.qsort (· < ·)).toList

def between (x a b : String) : String :=
  match x.splitOn a with
  | _ :: r :: _ => (r.splitOn b).headD ""
  | _ => ""

/-- does the comma-separated list `l` contain the item `x`? -/
def has (l x : String) : Bool := (("," ++ l ++ ",").splitOn ("," ++ x ++ ",")).length > 1

structure CfState where
  st : State := { cfg := defaults, file := serialize defaults, restartNeeded := false }

def step (cs : CfState) (fs : List String) (obs : String) : CfState × String × String :=
  match fs with
  | ["cf", "reset"] =>
    let st : State := { cfg := defaults, file := serialize defaults, restartNeeded := false }
    ({ st := st }, "ok " ++ stateStr st, "ok")
  | ["cf", "loadfile", kind, arg] =>
    -- a configuration file is accepted only if the proxy can run under it: every setting present, no unknown key, and the
    -- values pass verify(); anything else is refused (and replaced by the defaults)
    let okValue := kind = "ok" || (kind = "bad" && arg = "cache.lock_shards=7")
    let want := if okValue then "accepted" else "rejected"
    (cs, want, if obs = want then "ok"
      else if obs.startsWith "accepted" then "bad:unworkable-configuration-file-accepted"
      else if obs = "rejected" then "bad:workable-configuration-file-rejected"
      else "bad:" ++ obs)
  | ["cf", "overwrite", name, tok] =>
    let v := parseTokVal tok
    let (st', notes) := overwrite cs.st name v
    -- an override equal to the value already in effect changes nothing a listener could follow: announcing it or
    -- not are both fine (the model announces; the implementation's choice is taken over)
    let same := readOf cs.st.cfg name = some v
    let implNotes := between obs "notes=[" "]"
    let shown := if same && implNotes = "" then "" else notesStr notes
    ({ st := st' }, s!"notes=[{shown}] {stateStr st'}", "ok")
  | ["cf", "update", pairs, lim] =>
    let doc := if pairs = "-" then [] else (pairs.splitOn ",").map (entryOf cs.st.cfg)
    let (st', status, notes) := update cs.st doc (lim = "0")
    let res := match status with | .failed => "failed" | .success => "success" | .restartRequired => "restart"
    let m := s!"{res} notes=[{notesStr notes}] {stateStr st'}"
    -- C18 / C17 predicates on the implementation's observation
    let before := stateStr cs.st
    let implFailed := obs.startsWith "failed"
    let implState := "restart=" ++ between (obs ++ "\n") " restart=" "\n"
    let implNotes := between obs "notes=[" "]"
    let fileI := between (obs ++ "\n") " file=" "\n"
    let readsI := between obs " reads=" " file="
    let overridden := cs.st.cfg.filter (fun c => c.override.isSome)
    let v :=
      if obs.startsWith "panic" then "bad:panic"
      else if implFailed && implState ≠ before then "bad:rejected-update-changed-settings-or-file"
      else if implFailed && implNotes ≠ "" then "bad:rejected-update-was-announced-to-listeners"
      else if !implFailed && (fileI.startsWith "undecodable" || fileI = "nofile") then "bad:accepted-update-left-unloadable-file"
      else if overridden.any (fun c => !(("," ++ readsI ++ ",").splitOn ("," ++ c.name ++ "=" ++ renderVal c.read ++ ",")).length > 1) then "bad:command-line-override-lost"
      else if overridden.any (fun c => c.override ≠ some c.base && (match st'.cfg.find? (·.name = c.name) with | some c' => c'.override ≠ some c'.base | none => false) &&
          (("," ++ fileI ++ ",").splitOn ("," ++ c.name ++ "=" ++ renderVal c.read ++ ",")).length > 1 && implFailed = false && (doc.all (fun e => match e with | .set n _ => n ≠ c.name | _ => true))) then "bad:command-line-override-written-to-file"
      else if !implFailed && status = .failed then "bad:unworkable-or-invalid-update-accepted"
      -- C19: every listener of a setting whose effective value an accepted update changed is told the new value
      else if !implFailed && status ≠ .failed && (notes.any (fun n => !(has (implNotes.replace " " ",") (n.1 ++ "=" ++ renderVal n.2)))) then "bad:accepted-change-not-announced-to-its-listeners"
      else if !implFailed && cs.st.cfg.any (fun c => (doc.all (fun e => match e with | .set n _ => n ≠ c.name | _ => true)) &&
          (!(has readsI (c.name ++ "=" ++ renderVal c.read)) || !(has fileI (c.name ++ "=" ++ renderVal c.base)))) then "bad:accepted-update-changed-a-setting-it-did-not-address"
      else if !implFailed && doc.any (fun e => match e with | .set n v => known cs.st.cfg n && !(has fileI (n ++ "=" ++ renderVal v)) | _ => false) then "bad:accepted-update-is-not-what-the-next-start-loads"
      else "ok"
    ({ st := st' }, m, v)
  | ["cf", "trywork"] =>
    let m := if verify cs.st.cfg then "works" else "not-accepted"
    (cs, m, if obs.startsWith "PANIC" then "bad:accepted-configuration-is-not-workable" else "ok")
  | _ => (cs, "bad-op", "bad:bad-op")

end Rv.Oracle.Config
