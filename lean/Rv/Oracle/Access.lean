import Rv.Model.Access
/-
  Rv.Oracle.Access — C15. `ac site` lines carry the access contexts computed by
  Rv.Access.collect from the regenerated lock programs (GenAccessPairs.lean);
  `ac pair` lines are the conflicting pairs, judged with the lock-set rule
  `protectedPair` (Props/C15 shows a protected pair is ordered by
  happens-before in every execution); `ac race` lines are data races the Go race
  detector reported on the real code, looked up among the sites by source
  position: a race on a pair the model calls protected, or at a location the
  model does not know, breaks the correspondence.
-/
namespace Rv.Oracle.Access
open Rv.Locks Rv.Access

structure AState where
  sites : List Acc := []

def parseHeld (s : String) : List Held :=
  if s = "-" then [] else (s.splitOn ",").map (fun x =>
    match x.splitOn ":" with
    | [c, m] => { cls := c, shared := decide (m = "r") }
    | _ => { cls := x, shared := false })

/-- the per-key operations of the two backends (and the janitor's per-key callbacks), by name. -/
def perKeyIndexSite (loc fn : String) : Bool :=
  (loc = "MemoryCache.entries" || loc = "FileCache.entriesMetadata") &&
  ["Cache.Get", "Cache.GetMetadata", "Cache.UpdateMetadata", "Cache.Delete", "Cache.Cache", "Cache.cacheInternal",
   "Cache.deleteInternal", "Cache.ensureRemove", "cacheFns.removeEntry", "cacheFns.peekMetadata"].any (fun sfx => fn.endsWith sfx)

def pairName (a b : String) : String := if a ≤ b then a ++ "~" ++ b else b ++ "~" ++ a

def step (st : AState) (fs : List String) (_obs : String) : AState × String × String :=
  match fs with
  | ["ac", "reset"] => ({}, "ok", "ok")
  | ["ac", "site", loc, kind, fn, src, held] =>
    let h := parseHeld held
    -- C01 / C12 / C13: the sequential store model treats the operations on one key as atomic. That is
    -- justified only if every per-key operation touches the key's index entry while it holds the key's
    -- shard lock exclusively (then two operations on one key never overlap).
    let v := if perKeyIndexSite loc fn && !(h.any (fun x => x.cls = "shard" && !x.shared))
      then s!"bad:index-entry-used-outside-the-keys-shard-lock:{fn}" else "ok"
    ({ sites := { loc := loc, kind := kind, fn := fn, src := src, held := h } :: st.sites }, "site", v)
  | ["ac", "pair", loc, k1, f1, s1, h1, k2, f2, s2, h2] =>
    let a : Acc := { loc := loc, kind := k1, fn := f1, src := s1, held := parseHeld h1 }
    let b : Acc := { loc := loc, kind := k2, fn := f2, src := s2, held := parseHeld h2 }
    (st, "extracted", if !conflicting a b || protectedPair a b then "ok" else s!"bad:unsynchronised:{loc}:{pairName f1 f2}")
  | ["ac", "race", srcA, fnA, srcB, fnB] =>
    let sa := st.sites.filter (·.src = srcA)
    let sb := st.sites.filter (·.src = srcB)
    let pairs : List (Acc × Acc) := sa.foldl (fun acc a => acc ++ (sb.filter (fun b => conflicting a b)).map (fun b => (a, b))) []
    match pairs.find? (fun p => !protectedPair p.1 p.2) with
    | some p => (st, "observed", s!"bad:unsynchronised:{p.1.loc}:{pairName p.1.fn p.2.fn}")
    | none =>
      match pairs.head? with
      | some p => (st, "observed", s!"bad:race-observed-on-a-pair-the-lock-set-model-calls-protected:{p.1.loc}:{pairName p.1.fn p.2.fn}")
      | none => (st, "observed", s!"bad:race-observed-at-a-location-the-model-does-not-cover:{pairName fnA fnB}")
  | ["ac", "fatal", kind, _src, fn] =>
    -- the Go runtime aborted the process (e.g. "concurrent map iteration and map write")
    (st, "observed", s!"bad:runtime-abort:{kind}:{fn}")
  | _ => (st, "bad-op", "bad:bad-op")

end Rv.Oracle.Access
