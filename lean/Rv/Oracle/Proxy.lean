import Rv.Model.Fetch
import Rv.Model.History
import Rv.Model.Headers
import Rv.Generated.Consts
/-
  Rv.Oracle.Proxy — replays `proxytrace` op lines through Rv.Model.Fetch and
  evaluates the request-level predicates of C01/C03/C04/C06/C07/C08/C09/C10/C16
  on the implementation's observation.
-/
namespace Rv.Oracle.Proxy
open Rv Rv.Fetch

structure PState where
  cfg : Cfg := { ignoreCC := false, forceDefault := false, defaultMaxAge := 0, retryInvalidRange := false, retry416 := true, fileBackend := false }
  tbl : List (Nat × ORes) := []
  cache : Cache := []
  now : Int := 1000000
  tunnel : Bool := false
  /-- origin versions ever served per resource with their sizes: what a body may legitimately be -/
  served : List (Nat × Nat × Nat) := []
  /-- resources whose next upstream exchange finds the entry deleted in mid-flight (harness op `arm`) -/
  armed : List Nat := []
  /-- (resource, query) whose stored entry was last renewed by a 304 -/
  renewed : List (Nat × String) := []
  /-- the trace runs with a tiny cache limit / one shard: which stores succeed and what is evicted is the
      environment's choice (C09's theorems hold for EVERY cache state at lookup and in mid-flight); only the
      cache-independent predicates are judged and the model's cache is not compared -/
  pressure : Bool := false
  cutNext : Option Nat := none   -- resource whose next exchange cannot be completed (both origin transfers are cut)
  cutLeft : Nat := 0             -- upstream GETs the armed cut will still hit

def nat (x : String) : Nat := x.toNat?.getD 0
def int (x : String) : Int := x.toInt?.getD 0
def unhexS (x : String) : Str := if x = "-" then [] else (unhex x.toList).getD []
def hexS (x : Str) : String := if x = [] then "-" else String.ofList (hex x)
def strHex (x : String) : String := hexS x.toList

def between (x a b : String) : String :=
  match x.splitOn a with
  | _ :: r :: _ => (r.splitOn b).headD ""
  | _ => ""

def tblFn (t : List (Nat × ORes)) : Nat → Option ORes := fun r => (t.find? (·.1 = r)).map (·.2)

def parseORes (fields : String) : ORes :=
  (fields.splitOn ";").foldl (fun (o : ORes) kv =>
    match kv.splitOn "=" with
    | [k, v] =>
      if k = "status" then { o with status := nat v }
      else if k = "ver" then { o with ver := nat v }
      else if k = "size" then { o with size := nat v }
      else if k = "etag" then { o with etag := String.ofList (unhexS v) }
      else if k = "lm" then
        (if v.startsWith "x" then { o with lm := .bad (String.ofList (unhexS (v.drop 1).toString)) } else { o with lm := .at (int ((v.splitOn "@").headD v)) })   -- "@850" / "@asc": same instant, obsolete date form
      else if k = "cc" then { o with cc := (v.splitOn "|").map unhexS }
      else if k = "expires" then
        (if v = "bad" then { o with expires := .bad }
         else if v.startsWith "at:" then { o with expires := .at (int (v.drop 3).toString * 1000 - 500) } else o)
      else if k = "mode" then { o with rangeMode := v }
      else if k = "cond" then { o with cond := decide (v = "1") }
      else if k = "age" then { o with age := some (nat v) }
      else if k = "hdrset" then { o with hdrset := nat v }
      else o
    | _ => o)
    { status := 200, ver := 0, size := 0, etag := "", lm := .none, cc := [], expires := .absent, rangeMode := "ignore",
      cond := true, age := none, hdrset := 0 }

/-- the extra end-to-end / hop-by-hop headers of the harness origin, by id. -/
def hdrSet (n : Nat) : Headers.Hdr :=
  let mk (l : List (String × String)) : Headers.Hdr := l.map (fun p => (p.1.toList, p.2.toList))
  match n % 7 with
  | 6 => mk [("Connection", "keep-alive"), ("Connection", "X-Hop3"), ("X-Hop3", "t"), ("X-Keep", "3")]
  | 1 => mk [("Set-Cookie", "a=1"), ("Set-Cookie", "b=2"), ("Vary", "Accept"), ("Vary", "Accept-Encoding")]
  | 2 => mk [("Connection", "close, X-Hop"), ("X-Hop", "secret"), ("X-Keep", "1"), ("Keep-Alive", "timeout=5")]
  | 3 => mk [("Link", "<a>; rel=next"), ("Link", "<b>; rel=prev"), ("X-Lower-Case", "v"), ("Warning", "199 - w1"), ("Warning", "199 - w2")]
  | 4 => mk [("Content-Type", "application/x-rv"), ("Proxy-Authenticate", "Basic"), ("Trailer", "X-T"), ("Upgrade", "h2c")]
  | 5 => mk [("Connection", "X-Hop2, keep-alive"), ("X-Hop2", "s"), ("X-Keep", "2")]
  | _ => []

def observedNames : List String :=
  ["Set-Cookie", "Vary", "Link", "Warning", "X-Keep", "X-Hop", "X-Hop2", "X-Hop3", "X-Lower-Case", "Keep-Alive", "Proxy-Authenticate", "Trailer",
   "Upgrade", "Content-Type", "Location", "Via"]

def hopList : List Str := Rv.Generated.hopHeaders.map String.toList

/-- the list as `http.Header.Del` sees it: `Del` canonicalises the name it is given, so the literal "TE" removes the
    field stored under "Te" (`Rv.Props.SrcHop.model_keeps_Te` shows what goes wrong without this). -/
def hopCanon : List Str := hopList.map Headers.canonKey

def renderH (h : Headers.Hdr) : String :=
  ",".intercalate (observedNames.filterMap (fun n =>
    match Headers.values h n.toList with
    | [] => none
    | vs => some (n ++ "=" ++ hexS (Str.intercalate [Char.ofNat 31] vs))))
where
  Str.intercalate (sep : Str) : List Str → Str
    | [] => []
    | [a] => a
    | a :: rest => a ++ sep ++ Str.intercalate sep rest

def labelName : Label → String
  | .none => "-" | .hit => "HIT" | .miss => "MISS" | .revalidated => "REVALIDATED"

def cacheStatus (r : Resp) : String :=
  match r.label with
  | .none => "-"
  | .hit => strHex "reservoir; hit"
  | .revalidated => strHex s!"reservoir; hit; detail=\"revalidated\"; fwd=stale; fwd-status={r.fwdStatus.getD 0}"
  | .miss => strHex (s!"reservoir; miss; fwd-status={r.fwdStatus.getD 0}" ++ (if r.storedFlag then "; stored" else ""))

def bodyDesc : Body → String
  | .empty => "len0"
  | .proxyError => "proxy-page"
  | .origin v st len | .stored v st len => if len = 0 then "len0" else s!"v{v}:{st}:{len}:ok"

def bodyLen : Body → Option Nat
  | .empty => some 0
  | .proxyError => none
  | .origin _ _ len | .stored _ _ len => some len

def lmSym : LM → String
  | .none => "-" | .bad raw => strHex raw | .at n => s!"at:{n}"

def render (tunnel : Bool) (res : Nat) (method : String) (r : Resp) (log : List UpReq) (reqX : String) (reqBody : Nat) : String :=
  let isProxyPage := r.body = .proxyError
  let o := r.hdrFrom
  let age : String := match r.age with
    | some a => toString a
    | none => (match o with | some x => (match x.age with | some a => toString a | none => "-") | none => "-")
  let cl : String :=
    if method = "HEAD" || isProxyPage || bodyLen r.body = some 0 then "*"
    else match r.body with
      | .origin _ _ len | .stored _ _ len => toString len
      | _ => (match o with | some x => toString x.size | none => "-")
  let cr : String := match r.contentRange, r.unsatRange with
    | some (a, b, n), _ => s!"bytes_{a}-{b}/{n}"
    | none, some n => s!"bytes_*/{n}"
    | none, none => "-"
  let etag := match o with | some x => (if x.etag = "" then "-" else strHex x.etag) | none => "-"
  let lm := match o with | some x => lmSym x.lm | none => "-"
  let ar := if r.label ≠ .none || (r.status = 206 && (match r.body with | .stored _ _ _ | .empty => r.contentRange.isSome | _ => false))
              || (r.status = 416 && isProxyPage) then "bytes" else "-"
  let baseH : Headers.Hdr := match o with
    | some x =>
      let hs := hdrSet x.hdrset
      let withCT := if (Headers.values hs "Content-Type".toList).isEmpty then hs ++ [("Content-Type".toList, "application/x-rv".toList)] else hs
      let withLoc := if x.status = 301 || x.status = 302 then withCT ++ [("Location".toList, s!"/r{res}?moved".toList)] else withCT
      -- net/http's client deletes a response's whole Connection header when it contains the token "close"
      -- (transfer.go shouldClose), so the proxy never sees the other names it nominates
      -- on a tunnel the proxy forwards with `req.Close = true`; the harness origin (net/http server) then
      -- answers `Connection: close` INSTEAD of a handler-set Connection header that lacks the token close:
      -- in both situations the nominations never reach the proxy
      let seen := if (Headers.connTokens withLoc).contains "Close".toList || tunnel then Headers.del withLoc Headers.connectionLit else withLoc
      Headers.setHeaders [] (Headers.removeHopByHop hopCanon seen)
    | none => if isProxyPage then [("Content-Type".toList, "text/plain; charset=utf-8".toList)] else []
  let h := if r.label ≠ .none then Headers.add baseH "Via".toList "HTTP/1.1 reservoir".toList else baseH
  let up := " ; ".intercalate (log.map (fun u =>
    let ims := match u.ims with | some t => s!"at:{t}" | none => "-"
    s!"{u.method} r{u.res} inm={if u.inm = "" then "-" else strHex u.inm} ims={ims} im=- ius=- range={match u.range with | some x => hexS x | none => "-"} ifrange=IFR hop=[] x={reqX} q={if u.query = "" then "-" else strHex u.query} body={reqBody}"))
  s!"st={r.status} xc={labelName r.label} cs={cacheStatus r} age={age} body={bodyDesc r.body} cl={cl} cr={cr} etag={etag} lm={lm} ar={ar} h={renderH h} up=[{up}]"

/-- request-level property predicates on the IMPLEMENTATION's observation. -/
def verdict (ps : PState) (tblNow : Nat → Option ORes) (r : Req) (entryBefore : Option CEntry) (obs : String) (served : List (Nat × Nat × Nat)) : String :=
  let st := nat (between obs "st=" " ")
  let xc := between obs "xc=" " "
  let body := between obs "body=" " "
  let up := between obs "up=[" "]"
  let upEntries := if up = "" then [] else up.splitOn " ; "
  if obs.startsWith "panic" then "bad:panic"
  else if obs.startsWith "NORESPONSE" then "bad:request-left-without-response"
  else if obs.startsWith "HANG" then "bad:request-does-not-complete"
  else if (body.splitOn "CORRUPT").length > 1 then "bad:body-bytes-differ-from-origin-body"
  else if (obs.splitOn "bodyerr=").length > 1 then "bad:body-truncated-or-connection-dropped"
  -- C06: no client conditional reaches the origin; what is sent comes from the stored validators
  else if upEntries.any (fun e => between (e ++ " ") "im=" " " ≠ "-" || between (e ++ " ") "ius=" " " ≠ "-") then "bad:client-conditional-forwarded"
  else if upEntries.any (fun e =>
      let inm := between (e ++ " ") "inm=" " "
      let ims := between (e ++ " ") "ims=" " "
      match entryBefore with
      | some en => (inm ≠ "-" && inm ≠ strHex en.o.etag) || (ims ≠ "-" && ims ≠ lmSym en.o.lm)
      | none => inm ≠ "-" || ims ≠ "-") then "bad:client-conditional-forwarded"
  -- C06: a 304 answers the proxy's OWN conditional (built from the stored validators): it keeps the stored body in service or
  -- is followed by an unconditional fetch; it is never what the client receives (client conditionals are not forwarded, so no
  -- 304 the origin gives to a conditional request is an answer to the client's question)
  else if st = 304 && (match upEntries.getLast? with
      | some e => between (e ++ " ") "inm=" " " ≠ "-" || between (e ++ " ") "ims=" " " ≠ "-"
      | none => false) then "bad:not-modified-for-the-stored-validators-relayed-to-the-client"
  -- C08: hop-by-hop request headers never reach the origin
  else if upEntries.any (fun e => between e "hop=[" "]" ≠ "") then "bad:hop-by-hop-header-forwarded"
  -- C03: HIT means no origin contact, and only while fresh
  else if xc = "HIT" && !upEntries.isEmpty then "bad:hit-label-although-origin-contacted"
  else if xc = "HIT" && (match entryBefore with | some en => decide (en.expires + 700 < ps.now) | none => true) then "bad:served-from-store-after-lifetime-without-origin-contact"
  else if (xc = "MISS" || xc = "REVALIDATED") && upEntries.isEmpty then "bad:miss-label-without-origin-contact"
  -- C09/C16: a good origin answer is never turned into a proxy error
  else if (st = 502 || st = 500) && upEntries.length > 0 && (match tblNow r.res with | some o => o.status < 400 | none => false) then "bad:good-origin-answer-turned-into-error"
  -- C01/C07: a body served is a whole origin body of this resource, or exactly the announced slice of one
  else
    let parts := body.splitOn ":"
    match parts with
    | [v, stt, len, _] =>
      let ver := nat (v.drop 1).toString
      (match served.find? (fun x => x.1 = r.res && x.2.1 = ver) with
        | none => "bad:body-of-unknown-version-or-other-resource"
        | some (_, _, size) =>
          let start := nat stt
          let n := nat len
          let cr := between obs "cr=" " "
          if st = 206 then
            (if cr ≠ s!"bytes_{start}-{start + n - 1}/{size}" || start + n > size || n = 0 then "bad:206-content-range-does-not-match-body"
             else if between obs "cl=" " " ≠ toString n && between obs "cl=" " " ≠ "*" then "bad:206-content-length-does-not-match-slice" else "ok")
          else if start ≠ 0 || n ≠ size then "bad:body-truncated-or-extended"
          else if between obs "cl=" " " ≠ toString n && between obs "cl=" " " ≠ "*" && between obs "cl=" " " ≠ "-" then "bad:content-length-differs-from-body"
          else "ok")
    | _ => "ok"

def step (ps : PState) (fs : List String) (obs : String) : PState × String × String :=
  match fs with
  | ["px", "reset", backend, transport, ig, fo, dflt, retryInv, retry416, limit] =>
    let cfg : Cfg := { ignoreCC := decide (ig = "1"), forceDefault := decide (fo = "1"), defaultMaxAge := int dflt * 1000,
                       retryInvalidRange := decide (retryInv = "1"), retry416 := decide (retry416 = "1"), fileBackend := decide (backend = "file") }
    let ps' : PState := { cfg := cfg, tunnel := decide (transport = "tunnel"), pressure := (limit.splitOn "/").length > 1 }
    (ps', "ok", "ok")
  | ["px", "origin", id, fields] =>
    let o := parseORes fields
    ({ ps with tbl := (nat id, o) :: ps.tbl.filter (·.1 ≠ nat id), served := (nat id, o.ver, o.size) :: ps.served }, "ok", "ok")
  | ["px", "req", id, method, rng, _ifr, _cond, _hs, _q, _body] =>
    if ps.pressure then
      -- cache-independent judgement only
      let tf := tblFn ps.tbl
      let res := nat id
      let st := nat (between obs "st=" " ")
      let body := between obs "body=" " "
      let upI := between obs "up=[" "]"
      let ver := nat ((((body.splitOn ":").headD "").drop 1).toString)
      let v :=
        if obs.startsWith "panic" then "bad:panic"
        else if ps.cutNext = some res && obs.startsWith "NORESPONSE" then "ok"   -- connection cut before anything was flushed
        else if obs.startsWith "NORESPONSE" then "bad:request-left-without-response"
        else if obs.startsWith "HANG" then "bad:request-does-not-complete"
        else if (body.splitOn "CORRUPT").length > 1 then "bad:body-bytes-differ-from-origin-body"
        else if ps.cutNext = some res && (obs.splitOn "bodyerr=").length > 1 then "ok"   -- the incomplete transfer is signalled as such
        else if ps.cutNext = some res && (st = 502 || st = 500) then "ok"
        else if (obs.splitOn "bodyerr=").length > 1 then "bad:body-truncated-or-connection-dropped"
        else if (st = 502 || st = 500) && (match tf res with | some o => o.status < 400 | none => false) then "bad:good-origin-answer-turned-into-error"
        else if body.startsWith "v" && !(ps.served.any (fun x => x.1 = res && x.2.1 = ver)) then "bad:body-of-unknown-version-or-other-resource"
        else if st = 200 && method = "GET" && rng = "-" && body.startsWith "v" &&
            !(ps.served.any (fun x => x.1 = res && x.2.1 = ver && body = s!"v{ver}:0:{x.2.2}:ok")) then "bad:body-truncated-or-extended"
        else if upI = "" && (between obs "xc=" " ") ≠ "HIT" && st = 200 then "bad:miss-label-without-origin-contact"
        else "ok"
      -- the cut stays armed at the origin until two upstream GETs for the resource have consumed it (an exchange answered
      -- from the store consumes nothing)
      let nUp := if upI = "" then 0 else (upI.splitOn " ; ").length
      let left := if ps.cutNext = some res then ps.cutLeft - nUp else ps.cutLeft
      ({ ps with now := ps.now + 1, cutLeft := left, cutNext := if ps.cutNext = some res && left = 0 then none else ps.cutNext }, obs, v)
    else
    match fs with
    | ["px", "req", id, method, rng, ifr, _cond, hs, q, body] =>
    let now := ps.now + 1
    let tf := tblFn ps.tbl
    let res := nat id
    let (ifrE, ifrD, ifrSym) : Option String × Option Int × String :=
      if ifr = "-" || ifr = "empty" || ifr = "blank" then (none, none, "-")    -- an empty If-Range value is no condition
      else if ifr.startsWith "lm:" then
        (match tf res with
          | some o => (match o.lm with
              | .at l => (none, some (l + int (ifr.drop 3).toString), s!"at:{l + int (ifr.drop 3).toString}")
              | _ => (none, none, "-"))
          | none => (none, none, "-"))
      else if ifr.startsWith "dt:" then (none, some (int (ifr.drop 3).toString), s!"at:{int (ifr.drop 3).toString}")
      else (some (String.ofList (unhexS ifr)), none, ifr)
    let r : Req := { res := res, method := method, query := String.ofList (unhexS q), range := if rng = "-" then none else some (unhexS rng),
                     ifRangeEtag := ifrE, ifRangeDate := ifrD, hasBody := body ≠ "-" }
    let entryBefore := lookup ps.cache res r.query
    -- an armed resource: the environment deletes the entry of exactly this request's key while the
    -- origin answers (handleEnv with the mid-flight cache); the arm is spent by the first upstream contact
    let isArmed := ps.armed.contains res
    -- ONE step of the history machine (Rv.Model.History) whose invariants Rv.Props.History proves for all
    -- histories: the object compared with the implementation is the object the theorems are about
    let w : Rv.History.World := { tbl := ps.tbl, cache := ps.cache, now := now, produced := [] }
    let (w', ex) := Rv.History.step ps.cfg w (.request r (isArmed && method = "GET"))
    let (resp, cache', log) : Resp × Cache × List UpReq := match ex with
      | some (_, rp, lg) => (rp, w'.cache, lg)
      | none => ({ status := 0, label := .none, body := .empty }, w'.cache, [])
    let armed' := if isArmed && !log.isEmpty then ps.armed.filter (· ≠ res) else ps.armed
    let reqX := if hs = "1" then strHex "c1" else if hs = "2" then strHex "c2,c3" else if hs = "3" then strHex "c4" else "-"
    let reqBody := if body = "-" then 0 else (unhexS body).length
    let m := (render ps.tunnel res method resp log reqX reqBody).replace "ifrange=IFR" s!"ifrange={ifrSym}"
    -- the Age header counts whole seconds of REAL time since the entry was written; the model ticks 1 ms per
    -- request, so on a loaded machine the implementation may legitimately be up to 2 s ahead: not a difference
    let ageM := between m " age=" " "
    let ageI := between obs " age=" " "
    let m := match ageM.toNat?, ageI.toNat? with
      | some a, some b => if a < b && b ≤ a + 2 then m.replace s!" age={ageM} " s!" age={ageI} " else m
      | _, _ => m
    let v0 := verdict { ps with now := now } tf r entryBefore obs ps.served
    -- C03 / C06: a plain GET of an entry that is fresh (with margin) needs no origin contact; after a 304 the
    -- renewed lifetime counts from the revalidation; a HIT serves the stored version, never a replaced one
    let upI := between obs "up=[" "]"
    let v0 :=
      if v0 ≠ "ok" then v0
      else match entryBefore with
        | some en =>
          if method = "GET" && rng = "-" && !isArmed && upI ≠ "" && decide (now + 700 < en.expires) then
            (if ps.renewed.contains (res, r.query) then "bad:lifetime-not-renewed-by-the-default-after-304"
             else "bad:origin-contacted-although-stored-entry-is-fresh")
          else if between obs "xc=" " " = "HIT" && method = "GET" && (between obs "body=" " ").startsWith "v" && ((between obs "body=" " ").splitOn ":").head? ≠ some s!"v{en.o.ver}" then
            "bad:replaced-body-served-again"
          else "ok"
        | none => "ok"
    -- C06: a 200 answer to a revalidation replaces the entry (whatever its validators say)
    let v0 :=
      if v0 ≠ "ok" then v0
      else if between obs "xc=" " " = "REVALIDATED" && resp.label = .miss && resp.status = 200 then "bad:origin-200-on-revalidation-did-not-replace-the-entry"
      else v0
    -- C07: an If-Range that does not match the stored validator yields the full 200, never a part
    let v0 :=
      if v0 ≠ "ok" then v0
      else if between obs "st=" " " = "206" && resp.status = 200 && ifr ≠ "-" && rng ≠ "-" then "bad:if-range-mismatch-answered-with-a-part"
      else v0
    -- C04: exactly the storable responses are stored (the proxy says so itself in Cache-Status "; stored")
    let implStored := ((between obs "cs=" " ").splitOn "73746f726564").length > 1
    let v0 :=
      if v0 ≠ "ok" || !obs.startsWith "st=" then v0
      else if implStored && !resp.storedFlag then "bad:stored-although-origin-forbids"
      else if !implStored && resp.storedFlag then "bad:storable-response-not-stored"
      else v0
    -- C08 / C10: the end-to-end header fields delivered are exactly those of the origin answer this
    -- response was built from: nothing lost, nothing altered, nothing left over from an earlier exchange
    let hImpl := (between (obs ++ " ") " h=" " ").splitOn ","
    let hModel := (between (m ++ " ") " h=" " ").splitOn ","
    let stI := between obs "st=" " "
    let v1 :=
      if v0 ≠ "ok" then v0
      else if !obs.startsWith "st=" then "ok"
      else if hImpl.any (fun x => x.startsWith "X-Hop=") && hModel.any (fun x => x.startsWith "X-Hop=") then
        -- the faithful model (net/http drops "Connection: close, …" before the proxy sees it) predicts the same
        "bad:connection-nominated-header-forwarded-when-connection-also-says-close"
      else if hImpl.any (fun x => (x.startsWith "X-Hop=" || x.startsWith "X-Hop2=" || x.startsWith "X-Hop3=") && !hModel.contains x) then "bad:connection-nominated-header-forwarded"
      else if hImpl.any (fun x => x ≠ "" && !hModel.contains x && (hModel.any (fun y => (y.splitOn "=").head? = (x.splitOn "=").head?))) then "bad:end-to-end-header-altered"
      else if hImpl.any (fun x => x ≠ "" && !hModel.contains x) then "bad:header-not-sent-by-the-origin-for-this-exchange"
      else if hModel.any (fun y => y ≠ "" && !hImpl.contains y) then "bad:end-to-end-header-lost"
      else if (stI = "200") && between obs "cr=" " " ≠ "-" then "bad:content-range-on-a-200"
      else if stI ≠ between m "st=" " " && (between m "st=" " " ≠ "416") && (match tf res with | some o => toString o.status = between m "st=" " " | none => false) then "bad:origin-status-not-relayed"
      else "ok"
    let renewed' := if resp.label = .revalidated then (res, r.query) :: ps.renewed.filter (· ≠ (res, r.query))
      else if log.isEmpty then ps.renewed else ps.renewed.filter (· ≠ (res, r.query))
    ({ ps with cache := cache', now := now, armed := armed', renewed := renewed' }, m, v1)
    | _ => (ps, "bad-op", "bad:bad-op")
  | ["px", "setbudget", _pct] => ({ ps with pressure := true }, "budget-set", "ok")
  | ["px", "setpolicy", ig, fo, dflt] =>
    -- an accepted run-time change of the cache policy: the following exchanges are decided by the new values
    ({ ps with cfg := { ps.cfg with ignoreCC := ig = "1", forceDefault := fo = "1", defaultMaxAge := int dflt * 1000 } }, "policy-set", "ok")
  | ["px", "abort2", id, _k, _ch] =>
    -- BOTH transfers of the next exchange for this resource fail part-way: the client cannot be given the whole body.
    -- It must be able to tell: a cut connection (`bodyerr=`), or an error status - never a complete-looking short 200.
    ({ ps with pressure := true, cutNext := some (nat id), cutLeft := 2 }, "armed", "ok")
  | ["px", "abort", _id, _k] =>
    -- the next origin transfer for the resource fails part-way (full Content-Length, a prefix of the body, EOF):
    -- whether the partial write reached the store is the cache's business; from here on the trace is judged with the
    -- cache-independent predicates only (every 200 carries a COMPLETE body of a version the origin produced, never a
    -- stored truncation; no hang; no crash)
    ({ ps with pressure := true }, "armed", "ok")
  | ["px", "arm", id] => ({ ps with armed := nat id :: ps.armed.filter (· ≠ nat id) }, "armed", "ok")
  | ["px", "shift", ms] => ({ ps with now := ps.now + int ms }, "shifted", "ok")
  | ["px", "tunnelclose"] => (ps, "closed", "ok")
  | ["px", "snap"] =>
    if ps.pressure then (ps, obs, "ok") else
    let sizes := (((ps.cache.map (fun e => toString e.o.size)).toArray.qsort (· < ·)).toList)
    (ps, s!"entries={ps.cache.length} sizes=[{" ".intercalate sizes}] bs={(ps.cache.map (fun e => e.o.size)).foldl (· + ·) 0}", "ok")
  | _ => (ps, "bad-op", "bad:bad-op")

end Rv.Oracle.Proxy
