import Rv.Model.Event
import Rv.Model.Mailbox
import Rv.Spec.PubSub
/-
  Rv.Oracle.Event — replays `event` op lines through Rv.Model.Event and checks
  the C19 predicates against Spec.PubSub on the implementation's observation.
-/
namespace Rv.Oracle.Event
open Rv.Event

structure EState where
  st : State := init
  ops : List Op := []

def nat (x : String) : Nat := x.toNat?.getD 0

def render (st : State) (nListeners : Nat) : String :=
  let subs := " ".intercalate (listeners st |>.map toString)
  let pend := " ".intercalate (st.pending.map (fun p => s!"{p.1}:{p.2}"))
  let cells := " ".intercalate ((List.range nListeners).map (fun l => match st.cell l with
    | some v => s!"{l}:{v}"
    | none => s!"{l}:-"))
  s!"subs=[{subs}];pending=[{pend}];cells=[{cells}]"

def between (x a b : String) : String :=
  match x.splitOn a with
  | _ :: r :: _ => (r.splitOn b).headD ""
  | _ => ""

def nListeners : Nat := 4

def step (es : EState) (fs : List String) (obs : String) : EState × String × String :=
  match fs with
  | ["ev", "reset"] => ({}, render init nListeners, "ok")
  | ["ev", "loglevel", _lvl] =>
    -- C19: the logging component follows the most recent log level
    (es, "follows:latest", if obs = "follows:latest" then "ok" else if obs.startsWith "panic" then "bad:panic"
      else "bad:component-not-following-the-latest-setting")
  | ["ev", "retime", _backend, _wait, _new] =>
    -- C19 / C18: an accepted interval change (also one shorter than the time already waited) is followed, and survived
    (es, "follows:latest", if obs = "follows:latest" then "ok" else if obs.startsWith "panic" then "bad:panic"
      else "bad:cleanup-task-not-following-the-latest-interval")
  | ["ev", "shutdown", _backend, _order] =>
    -- C19: a component that has been shut down is not notified of any later change (and shutting it down returns)
    (es, "mailbox=0;parked=0",
      if obs = "mailbox=0;parked=0" then "ok"
      else if obs.startsWith "HANG" then "bad:operation-does-not-complete"
      else if obs.startsWith "panic" then "bad:panic"
      else "bad:shut-down-component-still-notified")
  | ["ev", "janitor", _backend, _a, _b] =>
    -- Props/C19 cleanup_task_follows_latest_interval: two delivered changes, the task busy in between
    let m := (Rv.Mailbox.run true [.deliver 1, .deliver 2, .drain, .drain] (Rv.Mailbox.init 0)).interval
    let mobs := if m = 2 then "follows:latest" else "follows:older"
    if obs.startsWith "setup-incomplete" || obs.startsWith "unclear" then (es, obs, "ok")
    else (es, mobs ++ ";cycles=" ++ between (obs ++ ";") "cycles=" ";",
          if obs.startsWith "follows:latest" then "ok" else if obs.startsWith "panic" then "bad:panic" else "bad:cleanup-task-not-following-the-latest-interval")
  | ["ev", opn, arg] =>
    let op : Option Op := match opn with
      | "subscribe" => some (.subscribe (nat arg))
      | "unsubscribe" => some (.unsubscribe (nat arg))
      | "fire" => some (.fire (arg.toInt?.getD 0))
      | "deliver" => some (.deliver (nat arg))
      | _ => none
    match op with
    | none => (es, "bad-op", "bad:bad-op")
    | some o =>
      let st' := Rv.Event.step es.st o
      let ops' := es.ops ++ [o]
      let mobs := render st' nListeners
      -- C19 predicates on the implementation's observation, against the reference set
      let live := (Rv.Spec.PubSub.live ops' 0 []).map (·.2)
      let liveS := " ".intercalate (live.map toString)
      let iSubs := between obs "subs=[" "]"
      let v :=
        if obs.startsWith "panic" then "bad:unsubscribe-panics"
        else if iSubs ≠ liveS then "bad:subscriber-set-differs-from-live-listeners"
        else match o with
          | .fire v =>
            -- the new deliveries are exactly one per live listener
            let want := es.st.pending ++ live.map (fun l => (l, v))
            let wantS := " ".intercalate (want.map (fun p => s!"{p.1}:{p.2}"))
            if between obs "pending=[" "]" ≠ wantS then "bad:notification-misrouted" else "ok"
          | _ =>
            -- quiescent: every live listener that has been notified holds the latest fired value
            if between obs "pending=[" "]" = "" then
              match Rv.Spec.PubSub.lastFired ops' with
              | some v =>
                let cells := (between obs "cells=[" "]").splitOn " "
                let stale := live.any (fun l => cells.any (fun c => c.startsWith s!"{l}:" && c ≠ s!"{l}:{v}" && c ≠ s!"{l}:-"))
                if stale then
                  -- the faithful model (unordered deliveries) predicts the same outcome: the known ordering defect
                  (if mobs = obs then "bad:component-on-older-value-after-reordered-deliveries" else "bad:component-on-older-value")
                else "ok"
              | none => "ok"
            else "ok"
      ({ st := st', ops := ops' }, mobs, v)
  | _ => (es, "bad-op", "bad:bad-op")

end Rv.Oracle.Event
