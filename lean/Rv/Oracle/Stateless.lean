import Rv.Model.Wire
import Rv.Model.Duration
import Rv.Basic
import Rv.Model.Range
import Rv.Spec.Range
import Rv.Model.ByteSize
import Rv.Model.CacheControl
import Rv.Spec.Freshness
import Rv.Model.Key
import Rv.Spec.Resource
import Rv.Model.Phc
/-
  Rv.Oracle — line-protocol driver.  One input line

      family \t arg … \t => \t implementation-observation

  produces one output line

      model-observation \t verdict

  where `verdict` is `ok` or `bad:<reason>`: the property predicate of
  Rv/Spec evaluated on the IMPLEMENTATION's observation (so a concrete failing
  input is recognised even when model and code agree with each other).
-/
namespace Rv.Oracle
open Rv

def field (x : String) : Str :=
  if x = "-" then [] else (unhex x.toList).getD ['?', 'b', 'a', 'd', 'h', 'e', 'x']

def parseObsSlice (obs : String) : Option (Int × Int) :=
  match obs.splitOn ":" with
  | ["slice", a, b] => match a.toInt?, b.toInt? with
    | some x, some y => some (x, y)
    | _, _ => none
  | _ => none

/-- C07 predicate on an observed outcome. -/
def rangeVerdict (x : Str) (size : Int) (obs : String) : String :=
  if obs = "panic" then "bad:panic"
  else match parseObsSlice obs with
    | some (a, b) =>
      if !(0 ≤ a && a ≤ b && b < size) then "bad:slice-outside"
      else match Spec.Range.wellFormedSingle x with
        | some sp =>
          if Spec.Range.resolve sp size.toNat = some (a.toNat, b.toNat) then "ok"
          else "bad:not-the-requested-range"
        | none => "ok"
    | none => if obs = "absent" || obs = "reject" then "ok" else "bad:unknown-observation"

def str (x : Str) : String := String.ofList x

def hexOut (x : Str) : String := if x = [] then "-" else str (hex x)

def decodeList (f : String) : List Str :=
  if f = "[]" then [] else (f.splitOn ";").map field

/-- C17 predicate on an observed `Parse` result: accepted ⇔ digits-plus-unit
    whose value fits, and then it means digits × unit. -/
def bsParseVerdict (x : Str) (obs : String) : String :=
  let shape : Option Nat :=
    match x.reverse with
    | [] => none
    | u :: dsr =>
      let ds := dsr.reverse
      match ByteSize.unitOf u with
      | some m => if ds ≠ [] && allDigits ds && decVal ds * m ≤ maxI64 then some (decVal ds * m) else none
      | none => none
  if obs = "panic" then "bad:panic"
  else match shape with
    | some v => if obs = s!"ok:{v}" then "ok" else "bad:valid-size-string-not-accepted-as-digits-times-unit"
    | none => if obs = "err" then "ok" else "bad:malformed-size-string-accepted"

def dirRender (store : Bool) (x now : Int) : String :=
  let e := if x = CacheControl.zeroTime then "zero" else s!"rel:{(x - now) / CacheControl.second}"
  s!"store={if store then 1 else 0};exp={e}"

def dirNow : Int := 1700000000 * CacheControl.second

/-- C03/C04 predicate on the observed decision, straight from Spec.Freshness
    (only the clauses the properties state; everything else is "ok"). -/
def dirVerdict (lines : List Str) (e : CacheControl.ExpiresHdr) (ignore force : Bool) (dflt : Int) (obs : String) : String :=
  let ts := Spec.Freshness.tokens lines
  let stored := obs.startsWith "store=1"
  let now := dirNow
  if obs = "panic" then "bad:panic"
  else if obs = "unstable-clock" then "ok"
  else
    let pastOrBad := match e with
      | .bad => true
      | .at t => decide (t < now)
      | .absent => false
    let pos := Spec.Freshness.positiveMaxAges ts
    if stored && !ignore && Spec.Freshness.forbids ts then "bad:stored-although-origin-forbids"
    else if stored && !ignore && pos.isEmpty && pastOrBad then "bad:stored-although-expired"
    else if !stored && ignore then "bad:not-stored-although-directives-ignored"
    else if !stored && !Spec.Freshness.forbids ts && !pos.isEmpty then "bad:positive-max-age-not-stored"
    else if !stored && lines.isEmpty && !pastOrBad then "bad:plain-response-not-stored"
    else if stored && ts.all (fun t => Spec.Freshness.maxAgeOf t != some none) then
      let want := Spec.Freshness.expiryInstant lines e force dflt now
      if obs = dirRender true want now then "ok" else "bad:lifetime-rule"
    else "ok"

def reqOf (m h p q : String) : Spec.Resource.Req := ⟨field m, field h, field p, field q⟩

def stepFields (fs : List String) (obs : String) : String :=
  match fs with
  | ["bsparse", hx] =>
    let x := field hx
    (ByteSize.parse x).render ++ "\t" ++ bsParseVerdict x obs
  | ["bsround", n] =>
    let v := n.toNat?.getD 0
    let st := ByteSize.toStr v
    let m := hexOut st ++ "|" ++ (ByteSize.parse st).render
    -- predicate: whatever string the implementation printed reads back to v
    let verdict := match obs.splitOn "|" with
      | [_, r] => if r = s!"ok:{v}" then "ok" else "bad:size-does-not-read-back"
      | _ => "bad:size-does-not-read-back"
    m ++ "\t" ++ verdict
  | ["keycrowd", _g, _per] =>
    -- C02: the key is a function of the request (Rv.Key.keyString has no other argument): computed concurrently or alone, it is the same
    "all-keys-their-own\t" ++ (if obs = "all-keys-their-own" then "ok" else if obs = "panic" then "bad:panic" else "bad:distinct-resources-share-an-entry")
  | ["wire", st, hd, cl, fl, bodyHex] =>
    -- the framing decision, completion flag and bytes of RawHTTPResponder for one response
    let body := if bodyHex = "-" then [] else (unhex bodyHex.toList).getD []
    let clv : Option Nat := if cl = "-" then none else cl.toNat?
    let r : Wire.Resp := { status := st.toNat?.getD 0, head := (hd = "1" || hd = "3"), cl := clv, hdrs := [], body := body, fails := fl = "1" }
    let f := Wire.frame r
    let kind := if Wire.probeFails r then "none" else match Wire.framing r with
      | .noBody => "none" | .length n => s!"length:{n}" | .chunked => "chunked" | .untilClose => "close"
    let m := kind ++ " " ++ (if f.2 then "1" else "0") ++ " " ++ String.ofList (hex f.1)
    -- C10 predicate on the implementation's bytes: a write reported complete must be readable by a client as exactly
    -- one message with nothing left over (unless it is one of the two non-delimited shapes, which the generator flags)
    let v := if obs.startsWith "panic" then "bad:panic" else
      match obs.splitOn " " with
      | [_, c, hx] =>
        let bytes := (unhex hx.toList).getD []
        if c = "1" && Wire.delimited r then
          (match Wire.readOne r.head (bytes ++ "NEXT".toList) with
           | some (_, rest) => if rest = "NEXT".toList then "ok" else "bad:complete-response-not-self-delimiting"
           | none => "bad:complete-response-not-self-delimiting")
        else "ok"
      | _ => "bad:wire-observation"
    m ++ "\t" ++ v
  | ["dur", n] =>
    -- the implementation's observation: hex of the JSON text it saved | what it read back
    let d := n.toInt?.getD 0
    let st := Duration.durString d
    let m := hexOut st ++ "|" ++ (match Duration.parseDuration st with | some v => s!"ok:{v}" | none => "err")
    let verdict := match obs.splitOn "|" with
      | [_, r] => if r = s!"ok:{d}" then "ok" else "bad:duration-does-not-read-back"
      | _ => "bad:duration-does-not-read-back"
    m ++ "\t" ++ verdict
  | ["pdur", hx] =>
    let x := field hx
    (match Duration.parseDuration x with | some v => s!"ok:{v}" | none => "err") ++ "\t" ++ (if obs = "panic" then "bad:panic" else "ok")
  | ["lvl", n] =>
    let l := n.toInt?.getD 0
    let st := Duration.levelString l
    let m := hexOut st ++ "|" ++ (match Duration.parseLevel st with | some v => s!"ok:{v}" | none => "err")
    let verdict := match obs.splitOn "|" with
      | [_, r] => if r = s!"ok:{l}" then "ok" else "bad:log-level-does-not-read-back"
      | _ => "bad:log-level-does-not-read-back"
    m ++ "\t" ++ verdict
  | ["plvl", hx] =>
    let x := field hx
    (match Duration.parseLevel x with | some v => s!"ok:{v}" | none => "err") ++ "\t" ++ (if obs = "panic" then "bad:panic" else "ok")
  | ["dir", lines, ek, off, ig, fo, dflt] =>
    let ls := decodeList lines
    let now := dirNow
    let e : CacheControl.ExpiresHdr :=
      if ek = "absent" then .absent
      else if ek = "at" then .at (now + (off.toInt?.getD 0) * CacheControl.second)
      else .bad
    let ignore := ig = "1"
    let force := fo = "1"
    let d := (dflt.toInt?.getD 0) * CacheControl.second
    let dv := CacheControl.parseDirectives ls e false
    let store := CacheControl.shouldCache dv ignore now
    let x := CacheControl.expiresOrDefault dv force d now
    dirRender store x now ++ "\t" ++ dirVerdict ls e ignore force d obs
  | ["key", tls, m, h, p, q] =>
    let sc := if tls = "1" then s "https" else s "http"
    hexOut (Key.keyString sc (field m) (field h) (field p) (field q)) ++ "\t" ++ (if obs = "panic" then "bad:panic" else "ok")
  | ["keypair", tls, m1, h1, p1, q1, m2, h2, p2, q2] =>
    let sc := if tls = "1" then s "https" else s "http"
    let a := reqOf m1 h1 p1 q1
    let b := reqOf m2 h2 p2 q2
    let same := Key.keyString sc a.method a.host a.path a.query = Key.keyString sc b.method b.host b.path b.query
    let spec := decide (Spec.Resource.sameResource a b)
    let verdict :=
      if obs = "same" && !spec then "bad:distinct-resources-share-an-entry"
      else if obs = "diff" && spec then "bad:same-resource-does-not-share"
      else if obs = "panic" then "bad:panic" else "ok"
    (if same then "same" else "diff") ++ "\t" ++ verdict
  | ["clean", p] => hexOut (Key.clean (field p)) ++ "\tok"
  | ["phc", hx] =>
    let m := match Phc.parsePHC (field hx) with
      | .panic => "panic"
      | .err => "err"
      | .ok p => "ok:" ++ hexOut (Phc.render p)
    m ++ "\t" ++ (if obs = "panic" then "bad:panic" else "ok")
  | ["range", hx, size] =>
    let x := field hx
    let sz := size.toInt?.getD 0
    (Range.outcome x sz).render ++ "\t" ++ rangeVerdict x sz obs
  | _ => "bad-op\tbad:bad-op"


end Rv.Oracle
