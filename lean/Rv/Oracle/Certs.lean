import Rv.Model.Certs
/-
  Rv.Oracle.Certs — replays `certs` op lines through Rv.Model.Certs and checks
  the C11 predicates on the implementation's observation (chain / host / key
  verification by the real crypto/x509 is part of that observation).
-/
namespace Rv.Oracle.Certs
open Rv Rv.Certs

structure CState where
  st : St := init
  last : List (Str × Nat) := []     -- host ↦ id of the certificate most recently returned

def unhexS (x : String) : Str := if x = "-" then [] else (unhex x.toList).getD []
def hexS (x : Str) : String := if x = [] then "-" else String.ofList (hex x)

def between (x a b : String) : String :=
  match x.splitOn a with
  | _ :: r :: _ => (r.splitOn b).headD ""
  | _ => ""

def step (cs : CState) (fs : List String) (obs : String) : CState × String × String :=
  if obs.startsWith "HANG" then (cs, "completes", "bad:tunnel-never-given-a-certificate") else
  match fs with
  | ["ce", "reset"] => ({}, "ok", "ok")
  | ["ce", "split", hp] =>
    let m := match splitHostPort (unhexS hp) with
      | .err => "err"
      | .ok h p => s!"ok host={hexS h} port={hexS p} isip={between (obs ++ " ") "isip=" " "}"
    (cs, m, "ok")
  | ["ce", "get", tg, isip] =>
    let target := unhexS tg
    let isIP : Str → Bool := fun _ => isip = "1"
    let (st', r) := get cs.st target isIP
    match r with
    | .err => ({ cs with st := st' }, "err", if obs = "err" then "ok" else if obs.startsWith "panic" then "bad:panic" else "ok")
    | .ok c =>
      let reuse := (cs.last.find? (·.1 = c.host)).map (·.2) = some c.id
      let san := (if c.sanIsIP then "ip:" else "dns:") ++ hexS c.host
      let m := s!"ok reuse={if reuse then 1 else 0} san={san} verify=ok key=ok validnow=1 hours=240"
      -- C11 on the implementation's certificate
      let v :=
        if obs.startsWith "panic" then "bad:panic"
        else if obs = "err" then "bad:no-certificate-for-a-valid-target"
        else if between (obs ++ " ") "verify=" " " = "chainfail" then "bad:certificate-does-not-chain-to-the-ca-or-is-outside-validity"
        else if between (obs ++ " ") "verify=" " " = "hostfail" then "bad:certificate-does-not-name-the-host"
        else if between (obs ++ " ") "key=" " " ≠ "ok" then "bad:certificate-does-not-match-its-private-key"
        else if between (obs ++ " ") "validnow=" " " ≠ "1" then "bad:certificate-outside-validity-period"
        else if between (obs ++ " ") "san=" " " ≠ san then "bad:certificate-names-a-different-host-or-san-kind"
        else if reuse && between (obs ++ " ") "reuse=" " " = "0" then "bad:valid-certificate-not-reused"
        else if !reuse && between (obs ++ " ") "reuse=" " " = "1" then "bad:expired-certificate-served-again"
        else "ok"
      ({ st := st', last := (c.host, c.id) :: cs.last.filter (·.1 ≠ c.host) }, m, v)
  | ["ce", "expire", h] =>
    let host := unhexS h
    match lookup cs.st host with
    | none => (cs, "nocert", "ok")
    | some c =>
      -- the hook moves NotAfter into the past: same as advancing the clock beyond it for this entry
      let c' := { c with notAfter := cs.st.now - 60000 }
      ({ cs with st := { cs.st with cache := cs.st.cache.map (fun x => if x.host = host then c' else x) } }, "expired", "ok")
  | ["ce", "burst", _kind, k, _seq] =>
    -- k first requests for k different hosts at once: Props/C11 (issue is a function of the target alone; the
    -- cache is keyed by host) gives every caller a valid certificate for ITS host in every interleaving
    (cs, s!"allvalid=1 n={k}",
      if obs.startsWith "panic" then "bad:panic"
      else if obs.startsWith "allvalid=1" then "ok" else "bad:concurrent-caller-without-valid-certificate")
  | ["ce", "concurrent", tg, _k, isip] =>
    let target := unhexS tg
    match splitHostPort target with
    | .err => (cs, "allvalid=0 settled=0 cachedforhost=0 distinct<=k=true",
        if obs.startsWith "allvalid=0" then "ok" else "bad:certificate-for-a-malformed-target")
    | .ok host _ =>
      -- whatever the interleaving, afterwards exactly one certificate is cached and it is what later calls reuse
      let (st', r) := get cs.st target (fun _ => isip = "1")
      let id := match r with | .ok c => c.id | .err => 0
      let v := if obs.startsWith "panic" then "bad:panic"
        else if !obs.startsWith "allvalid=1" then "bad:concurrent-caller-without-valid-certificate"
        else if between (obs ++ " ") "cachedforhost=" " " ≠ "1" then "bad:certificate-cache-not-settled-after-concurrent-issue"
        else if between (obs ++ " ") "settled=" " " ≠ "1" then "bad:certificate-cache-not-settled-after-concurrent-issue" else "ok"
      ({ st := st', last := (host, id) :: cs.last.filter (·.1 ≠ host) }, "allvalid=1 settled=1 cachedforhost=1 distinct<=k=true", v)
  | _ => (cs, "bad-op", "bad:bad-op")

end Rv.Oracle.Certs
