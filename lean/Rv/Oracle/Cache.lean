import Rv.Model.Store
import Rv.Spec.Lru
/-
  Rv.Oracle.Cache — replays `cachetrace` op lines through Rv.Model.Store and
  evaluates the C01 / C12 / C13 predicates on the implementation's observation.
-/
namespace Rv.Oracle.Cache
open Rv.Store

structure CState where
  st : St := init .mem 0 0 []
  desync : Bool := false      -- timing made this trace ambiguous: echo the implementation from here on

def nat (x : String) : Nat := x.toNat?.getD 0
def int (x : String) : Int := x.toInt?.getD 0

def resName : Res → String
  | .ok => "ok" | .notFound => "notfound" | .memExceeded => "memexceeded" | .srcErr => "srcerr"
  | .createErr => "createerr" | .writeErr => "writeerr" | .emptyErr => "emptyerr" | .readErr => "readerr"

def renderPairs (ps : List (Nat × Nat)) : String :=
  let strs := ps.map (fun p => s!"{p.1}:{p.2}")
  " ".intercalate (strs.toArray.qsort (· < ·)).toList

def snap (st : St) : String :=
  let ent := renderPairs (st.entries.map (fun e => (e.key, e.size)))
  let files := renderPairs (st.dir.map (fun d => (d.key, d.size)))
  s!"bs={st.byteSize},mb={st.mBytes},me={st.mEntries},ent=[{ent}],files=[{files}]"

/-! parsing the implementation's snapshot -/

structure ISnap where
  bs : Int
  mb : Int
  me : Int
  ent : List (Nat × Nat)
  files : List (String × Nat)

def parsePairs (x : String) : List (String × Nat) :=
  if x = "" then [] else (x.splitOn " ").map (fun p => match p.splitOn ":" with
    | [k, v] => (k, nat v)
    | _ => ("?", 0))

def between (x a b : String) : String :=
  match x.splitOn a with
  | _ :: r :: _ => (r.splitOn b).headD ""
  | _ => ""

def parseSnap (x : String) : Option ISnap :=
  if !(x.startsWith "bs=") then none
  else
    some { bs := int (between x "bs=" ","), mb := int (between x "mb=" ","), me := int (between x "me=" ","),
           ent := (parsePairs (between x "ent=[" "]")).map (fun p => (nat p.1, p.2)),
           files := parsePairs (between x "files=[" "]") }

/-- C12 on an implementation snapshot. -/
def c12Verdict (b : Backend) (s : ISnap) : String :=
  let total : Int := (s.ent.map (fun p => (p.2 : Int))).sum
  if s.bs ≠ total then "bad:size-counter-differs-from-stored-bytes"
  else if s.mb ≠ s.bs then "bad:size-metric-differs-from-counter"
  else if s.me ≠ s.ent.length then "bad:entry-count-differs-from-entries"
  else if s.bs < 0 || s.me < 0 then "bad:negative-counter"
  else match b with
    | .mem => "ok"
    | .file =>
      let fs := (s.files.map (fun p => s!"{p.1}:{p.2}")).toArray.qsort (· < ·)
      let es := (s.ent.map (fun p => s!"{p.1}:{p.2}")).toArray.qsort (· < ·)
      if fs.toList = es.toList then "ok" else "bad:cache-directory-differs-from-entries"

/-- are two candidate priorities closer than the timing noise allows? -/
def hasTies (st : St) (es : List Entry) : Bool :=
  let ps := es.map (priority st.now)
  ps.any (fun p => (ps.filter (fun q => (p - q).natAbs < 20)).length > 1)

/-- C13 eviction predicate: the implementation removed `removed` (a set) from
    pre-state `st` under `skip` aiming at `limit`. -/
def lruVerdict (st : St) (limit : Int) (skip : Nat → Bool) (triggered : Bool) (removed : List Nat) (postBs : Int) : String :=
  if !triggered then (if removed.isEmpty then "ok" else "bad:eviction-below-the-limit")
  else
    let cands := (sortDesc st.now st.entries).filter (fun e => !skip e.key)
    if hasTies st cands then "ok"
    else
      let n := removed.length
      let pre := cands.take n
      if !(pre.all (fun e => removed.contains e.key)) then "bad:eviction-not-least-recently-used-first"
      else
        let tgt := target limit
        let freedBefore (m : Nat) : Int := ((cands.take m).map (fun e => (e.size : Int))).sum
        if n > 0 && !(st.byteSize - freedBefore (n - 1) > tgt) then "bad:eviction-continued-below-target"
        else if st.byteSize - freedBefore n > tgt && n < cands.length then "bad:eviction-stopped-above-target"
        else if postBs < 0 then "bad:negative-counter" else "ok"

def keysOf (s : ISnap) : List Nat := s.ent.map (·.1)

def parseMid (x : String) : List MidOp :=
  if x = "-" then [] else (x.splitOn ";").filterMap (fun m => match m.splitOn ":" with
    | ["store", k, ver, size, ttl] => some (.store (nat k) (nat ver) (nat size) (int ttl) .none)
    | ["update", k, ttl] => some (.update (nat k) (int ttl))
    | ["delete", k] => some (.delete (nat k))
    | ["get", k] => some (.get (nat k))
    | _ => none)

def parseFault (f : String) (size : Nat) : Fault :=
  if f.startsWith "src:" then .srcErr
  else if f.startsWith "write:" then (if size > nat (f.drop 6).toString then .srcErr else .none)
  else if f = "create" then .createErr
  else if f = "rename" then .renameErr
  else .none

def parseReads (x : String) : List (Nat × Nat) :=
  if x = "-" then [] else (x.splitOn ",").map (fun r => match r.splitOn ":" with
    | [h, n] => (nat h, nat n)
    | _ => (0, 0))

def doReads (st : St) (rs : List (Nat × Nat)) : St × List String :=
  rs.foldl (fun (acc : St × List String) r =>
    let (st', res) := read acc.1 r.1 r.2
    (st', acc.2 ++ [match res with
      | some (_, _, len) => s!"{len}:ok"
      | none => "nohandle"])) (st, [])

def splitBar (obs : String) : String × String :=
  match obs.splitOn "|" with
  | [a, b] => (a, b)
  | _ => (obs, "")

/-- one `ct` line: new state, model observation, verdict on the impl observation. -/
def step (cs : CState) (fs : List String) (obs : String) : CState × String × String :=
  match fs with
  | ["ct", "reset", backend, limit, pct, _shards, _nkeys] =>
    let b := if backend = "file" then Backend.file else Backend.mem
    let shards := match obs.splitOn "=" with
      | [_, l] => (l.splitOn ",").map nat
      | _ => []
    let cap : Int := if pct = "0" then 0 else 1152921504606846976
    ({ st := init b (int limit) cap shards, desync := false }, obs, "ok")
  | "ct" :: op :: args =>
    let (ires, isnapS) := splitBar obs
    if obs.startsWith "HANG" then (cs, "completes", "bad:operation-does-not-complete")
    else if cs.desync || isnapS = "slow" then ({ cs with desync := true }, obs, "ok")
    else
      let st := cs.st
      let isnap := parseSnap isnapS
      -- run the model
      let (st', mres, extra) : St × String × (Unit → String) :=
        match op, args with
        | "store", [k, ver, size, ttl, fault, reads] =>
          let (st1, robs) := doReads st (parseReads reads)
          -- the harness can only inject a rename failure while the key has no entry
          let flt := match parseFault fault (nat size) with
            | .renameErr => if st1.entries.any (fun e => e.key = nat k) then Fault.none else Fault.renameErr
            | f => f
          let r := store st1 (nat k) (nat ver) (nat size) (st1.now + int ttl) flt
          let base := resName r.2.1 ++ (if robs.isEmpty then "" else ";r=" ++ ",".intercalate robs)
          (r.1, base, fun _ =>
            match isnap with
            | none => "bad:no-snapshot"
            | some s =>
              let lim := match st.backend with | .mem => min st.limit st.memCap | .file => st.limit
              let skip : Nat → Bool := match st.backend with
                | .mem => fun k' => shardOf st k' = shardOf st (nat k)
                | .file => fun _ => false
              let removed := (st.entries.map (·.key)).filter (fun k' => !(keysOf s).contains k' && k' ≠ nat k)
              -- file backend: the stored key itself may be evicted just before it is rewritten, which the
              -- snapshot cannot show; the model/implementation comparison still covers that case
              let selfEvictable := st.backend = .file && st.entries.any (fun e => e.key = nat k)
              if selfEvictable then "ok"
              else lruVerdict st lim skip (decide (st.byteSize ≥ lim)) removed s.bs)
        | "get", [k] =>
          let r := get st (nat k)
          let m := match r.2.res with
            | .ok => s!"ok ver={r.2.ver} size={r.2.size} stale={if r.2.stale then 1 else 0} h={r.2.handle}"
            | e => resName e
          (r.1, m, fun _ =>
            -- C01: the version handed out is never older than the one the model proves current
            match lookup st.entries (nat k) with
            | some e =>
              let iv := nat (between (ires ++ " ") "ver=" " ")
              if ires.startsWith "ok" && iv < e.ver then "bad:replaced-body-served" else "ok"
            | none => if ires.startsWith "ok" then "bad:removed-entry-served" else "ok")
        | "getmeta", [k] =>
          let r := getMeta st (nat k)
          let m := match r.2.res with
            | .ok => s!"ok ver={r.2.ver} size={r.2.size} stale={if r.2.stale then 1 else 0}"
            | e => resName e
          (r.1, m, fun _ => "ok")
        | "update", [k, ttl] =>
          let r := update st (nat k) (st.now + int ttl)
          (r.1, resName r.2, fun _ => "ok")
        | "delete", [k] =>
          let r := delete st (nat k)
          (r.1, resName r.2, fun _ => "ok")
        | "read", [h, n] =>
          let r := read st (nat h) (nat n)
          (r.1, match r.2 with
            | some (_, _, len) => s!"r={len}:ok"
            | none => "r=nohandle", fun _ => "ok")
        | "close", [h] => (close st (nat h), "closed", fun _ => "ok")
        | "clean", [mid] =>
          let scanned := expiredKeys st
          let st1 := (parseMid mid).foldl midStep st
          let r := cleanRemove st1 scanned
          (r.1, "cleaned", fun _ =>
            match isnap with
            | none => "bad:no-snapshot"
            | some s =>
              let post := keysOf s
              let wrongRemoved := st1.entries.filter (fun e => !post.contains e.key && !(decide (e.expires + 30 < st1.now)))
              let survivors := st1.entries.filter (fun e => post.contains e.key && scanned.contains e.key && decide (e.expires + 30 < st1.now))
              if !wrongRemoved.isEmpty then "bad:fresh-entry-removed-by-cleanup"
              else if !survivors.isEmpty then "bad:expired-entry-survives-cleanup" else "ok")
        | "evict", [limit] =>
          let r := evict st (int limit) (fun _ => false)
          (r.1, "evicted", fun _ =>
            match isnap with
            | none => "bad:no-snapshot"
            | some s =>
              let removed := (st.entries.map (·.key)).filter (fun k' => !(keysOf s).contains k')
              lruVerdict st (int limit) (fun _ => false) true removed s.bs)
        | "evict", [limit, mid] =>
          -- the scan (candidates in eviction order) happens first; then other goroutines' operations; then the
          -- removal loop, which re-reads the live size before every candidate
          let cands := sortDesc st.now st.entries
          let st1 := (parseMid mid).foldl midStep st
          let r := evictLoop (target (int limit)) (fun _ => false) cands st1 []
          let st2 : St := { r.1 with mBytes := r.1.byteSize }
          (st2, "evicted", fun _ =>
            match isnap with
            | none => "bad:no-snapshot"
            | some s =>
              if s.bs < st2.byteSize then "bad:eviction-went-on-after-the-target-was-reached"
              else if s.bs > st2.byteSize then "bad:eviction-stopped-above-target" else "ok")
        | "ensure", [] =>
          let r := ensure st
          (r.1, "ensured", fun _ =>
            match isnap with
            | none => "bad:no-snapshot"
            | some s =>
              let removed := (st.entries.map (·.key)).filter (fun k' => !(keysOf s).contains k')
              lruVerdict st st.cfgLimit (fun _ => false) (decide (st.byteSize ≥ st.cfgLimit)) removed s.bs)
        | "shift", [d] => (shift st (nat d), "shifted", fun _ => "ok")
        | "setlimit", [n] => (setLimit st (int n), "limit-set", fun _ =>
            if ires = "limit-not-followed" then "bad:limit-change-not-followed" else "ok")
        | "setbudget", [_pct] => (st, "budget-set", fun _ => if ires = "budget-not-followed" then "bad:limit-change-not-followed" else "ok")
        | "reopen", _ => (reopen st, "reopened", fun _ => "ok")   -- also `reopen litter`: a restart over a dirty directory starts empty
        | _, _ => (st, "bad-op", fun _ => "bad:bad-op")
      -- timing ambiguity: an eviction decided between candidates closer than the clock noise
      let ambiguous := (op = "evict" || op = "ensure" || op = "store") &&
        hasTies st st.entries &&
        (match isnap with | some s => (renderPairs (s.ent)) ≠ renderPairs (st'.entries.map (fun e => (e.key, e.size))) | none => false)
      -- … or a store made by another goroutine inside the window of a cleanup / eviction found the cache at its limit
      -- and evicted on its own: the entries written microseconds apart in that window have equal access times on the
      -- real clock, so WHICH of them that eviction removed is not determined
      let windowEvicted : Bool :=
        if op = "clean" || op = "evict" then
          match args.getLast? with
          | some mid =>
            ((parseMid mid).foldl (fun (acc : St × Bool) m =>
              let trig := match m with | MidOp.store _ _ _ _ _ => decide (acc.1.byteSize ≥ acc.1.limit) | _ => false
              (midStep acc.1 m, acc.2 || trig)) (st, false)).2
          | none => false
        else false
      let ambiguous := ambiguous || (windowEvicted &&
        (match isnap with | some s => (renderPairs (s.ent)) ≠ renderPairs (st'.entries.map (fun e => (e.key, e.size))) | none => false))
      if ambiguous then ({ st := st', desync := true }, obs, "ok")
      else
        let mobs := mres ++ "|" ++ snap st'
        -- verdicts on the implementation's observation
        let v1 := if ires.startsWith "panic" then "bad:panic"
          else if (ires.splitOn "CORRUPT").length > 1 || (ires.splitOn "BEYOND-LENGTH").length > 1 then "bad:torn-or-truncated-read"
          else if (ires.splitOn "BADMETA").length > 1 then "bad:metadata-mispaired-with-body"
          else "ok"
        let v2 := match isnap with
          | some s => c12Verdict st.backend s
          | none => "bad:no-snapshot"
        let v3 := extra ()
        let v := if v1 ≠ "ok" then v1 else if v2 ≠ "ok" then v2 else v3
        ({ cs with st := st' }, mobs, v)
  | _ => (cs, "bad-op", "bad:bad-op")

end Rv.Oracle.Cache
