import Rv.Model.Auth
import Rv.Spec.Session
import Rv.Generated.Routes
/-
  Rv.Oracle.Auth — replays `auth` op lines through Rv.Model.Auth, with the
  route flags taken from the extracted route table, and checks the C20
  predicates against the history-only reference Rv.Spec.Session.
-/
namespace Rv.Oracle.Auth
open Rv.Auth

structure AState where
  cfg : Cfg := { lifetime := 3600000, threshold := 600000 }
  st : St := init
  abs : Rv.Spec.Session.Abs := Rv.Spec.Session.Abs.init
  issued : Nat := 0           -- number of cookies the harness has received (s0, s1, …)
  pws : List (Nat × String) := [(1, "pw-alice"), (2, "pw-bob")]   -- the password whose stored hash verifies, per user

def nat (x : String) : Nat := x.toNat?.getD 0

def between (x a b : String) : String :=
  match x.splitOn a with
  | _ :: r :: _ => (r.splitOn b).headD ""
  | _ => ""

/-- cookie reference of the op line ↦ model cookie. `s<k>` beyond the issued ones
    and `random` are values no login ever returned. -/
def cookie (as : AState) (ref : String) : Cookie :=
  if ref = "none" then none
  else if ref = "random" then some 1000000
  else if ref.startsWith "s" then
    let k := nat (ref.drop 1).toString
    if k < as.issued then some k else some (2000000 + k)
  else none

/-- the registered pattern for METHOD path, from the extracted table (`/api` prefix). -/
def routeFlag (method path : String) : Option Bool :=
  -- net/http: a pattern registered for GET also matches HEAD
  let m := if method = "HEAD" then "GET" else method
  match Rv.Generated.routes.find? (fun r => "/api" ++ r.path = path && r.method = m) with
  | some r => r.requiresAuth
  | none => none

def userId (u : String) : Nat := if u.toLower = "alice" then 1 else if u.toLower = "bob" then 2 else 0
def userExists (u : String) : Bool := u.toLower = "alice" || u.toLower = "bob"
/-- user names are compared case-insensitively (the users table declares `username … COLLATE NOCASE`);
    the password is what it is, byte for byte. -/
def pwOkIn (pws : List (Nat × String)) (u p : String) : Bool :=
  match pws.find? (·.1 = userId u) with
  | some x => userExists u && x.2 = p
  | none => false

def outName : Outcome → String
  | .unauthorized => "401" | .forbidden => "403" | .reached _ => "reached"

partial def step (as : AState) (fs : List String) (obs : String) : AState × String × String :=
  let tail (st : St) := s!";sessions={st.sessions.length}"
  match fs with
  | ["au", "reset"] =>
    let lt := (between (obs ++ ";") "lifetime=" ";").toInt?.getD 3600000
    let th := (between (obs ++ ";") "threshold=" ";").toInt?.getD 600000
    ({ cfg := { lifetime := lt, threshold := th } }, obs, if lt > 0 && th ≥ 0 then "ok" else "bad:session-constants")
  | ["au", "login", u, p, ref] =>
    let pwOk := pwOkIn as.pws
    let ck := cookie as ref
    let op := Op.login ck (userExists u) (pwOk u p) (userId u)
    let r := login as.cfg as.st ck (userExists u) (pwOk u p) (userId u)
    let abs' := Rv.Spec.Session.Abs.step as.cfg as.abs op
    let (m, issued') := match r.2 with
      | .created _ => (s!"created:{as.issued}", as.issued + 1)
      | .already => ("already", as.issued)
      | .invalid => ("invalid", as.issued)
    -- C20: a session is issued only for an existing user with the verifying password
    let v := if obs.startsWith "created" && !(userExists u && pwOk u p) then "bad:session-without-valid-credentials"
      else if obs.startsWith "panic" then "bad:panic" else "ok"
    ({ as with st := r.1, abs := abs', issued := issued' }, m ++ tail r.1, v)
  | ["au", "chpw", ref, cur, new] =>
    -- PATCH /api/auth/change-password: a guarded route; the password of the SESSION's user changes iff `cur` is the
    -- password whose stored hash verifies (and neither field is empty)
    let ck := cookie as ref
    let liveBefore := match ck with | some sid => as.abs.live sid | none => false
    let r := request as.cfg as.st true "PATCH" "" "" ck
    let abs' := Rv.Spec.Session.Abs.step as.cfg as.abs (.request true "PATCH" "" "" ck)
    let user : Nat := match ck with
      | some sid => (match find as.st sid with | some s => s.user | none => 0)
      | none => 0
    let reached := match r.2 with | .reached _ => true | _ => false
    let curOk := reached && cur ≠ "" && new ≠ "" && (as.pws.find? (·.1 = user)).map (·.2) = some cur
    let pws' := if curOk then as.pws.map (fun x => if x.1 = user then (x.1, new) else x) else as.pws
    let m := if !reached then outName r.2 else if curOk then "changed" else "refused"
    let v := if obs.startsWith "changed" && !curOk then "bad:password-changed-without-the-current-password"
      else if obs.startsWith "changed" && !liveBefore then "bad:guarded-route-served-without-live-session"
      else if obs.startsWith "panic" then "bad:panic" else "ok"
    ({ as with st := r.1, abs := abs', pws := pws' }, m ++ tail r.1, v)
  | ["au", "logout", ref] =>
    let ck := cookie as ref
    let liveBefore := match ck with | some sid => as.abs.live sid | none => false
    let r := logout as.cfg as.st ck
    let abs' := Rv.Spec.Session.Abs.step as.cfg as.abs (.logout ck)
    let v := if obs.startsWith "reached" && !liveBefore then "bad:guarded-route-served-without-live-session"
      else if obs.startsWith "401" && liveBefore then "bad:live-session-refused"
      -- a successful logout ends the session: the store no longer holds it
      else if liveBefore && !obs.startsWith "401" && (obs.splitOn ";sessions=").getLast? ≠ ((tail r.1).splitOn ";sessions=").getLast? then "bad:logout-left-the-session-alive"
      else "ok"
    ({ as with st := r.1, abs := abs' }, outName r.2 ++ tail r.1, v)
  | ["au", "req", "POST", "/api/auth/logout", ref, "-", "-"] => step as ["au", "logout", ref] obs
  | ["au", "req", method, path, ref, origin, site] =>
    let ck := cookie as ref
    let og := if origin = "-" then "" else origin
    let si := if site = "-" then "" else site
    match routeFlag method path with
    | none =>
      -- not a registered (method, path): the mux answers 404/405 unless Harden refuses first
      if !hardenAllows method og si then (as, "403" ++ tail as.st, if obs.startsWith "403" then "ok" else "bad:cross-site-request-not-refused")
      else (as, "nomatch" ++ tail as.st, if obs.startsWith "reached" then "bad:unregistered-route-served" else "ok")
    | some flag =>
      let liveBefore := match ck with | some sid => as.abs.live sid | none => false
      let r := request as.cfg as.st flag method og si ck
      let abs' := Rv.Spec.Session.Abs.step as.cfg as.abs (.request flag method og si ck)
      let crossSite := (og ≠ "" && si ≠ "" && si ≠ "same-origin" && si ≠ "same-site") || (method = "OPTIONS" && og ≠ "")
      let isLogin := path = "/api/auth/login" && method = "POST"
      let v :=
        if crossSite && !obs.startsWith "403" then "bad:cross-site-request-not-refused"
        else if !crossSite && !isLogin && obs.startsWith "reached" && !liveBefore then "bad:guarded-route-served-without-live-session"
        else if !crossSite && obs.startsWith "401" && liveBefore then "bad:live-session-refused"
        else "ok"
      ({ as with st := r.1, abs := abs' }, outName r.2 ++ tail r.1, v)
  | ["au", "shift", d] =>
    let st' := Rv.Auth.step as.cfg as.st (.shift (nat d))
    ({ as with st := st', abs := Rv.Spec.Session.Abs.step as.cfg as.abs (.shift (nat d)) }, "shifted" ++ tail st', "ok")
  | ["au", "gc"] =>
    let st' := gc as.st
    ({ as with st := st' }, "gc" ++ tail st', "ok")
  | _ => (as, "bad-op", "bad:bad-op")

end Rv.Oracle.Auth
