import Rv.Basic
import Rv.Model.Range
import Rv.Spec.Range
/-
  Rv.Oracle — line-protocol driver.  One input line

      family \t arg … \t => \t implementation-observation

  produces one output line

      model-observation \t verdict

  where `verdict` is `ok` or `bad:<reason>`: the property predicate of
  Rv/Spec evaluated on the IMPLEMENTATION's observation (so a concrete failing
  input is recognised even when model and code agree with each other).
-/
namespace Rv.Oracle
open Rv

def field (x : String) : Str :=
  if x = "-" then [] else (unhex x.toList).getD ['?', 'b', 'a', 'd', 'h', 'e', 'x']

def parseObsSlice (obs : String) : Option (Int × Int) :=
  match obs.splitOn ":" with
  | ["slice", a, b] => match a.toInt?, b.toInt? with
    | some x, some y => some (x, y)
    | _, _ => none
  | _ => none

/-- C07 predicate on an observed outcome. -/
def rangeVerdict (x : Str) (size : Int) (obs : String) : String :=
  if obs = "panic" then "bad:panic"
  else match parseObsSlice obs with
    | some (a, b) =>
      if !(0 ≤ a && a ≤ b && b < size) then "bad:slice-outside"
      else match Spec.Range.wellFormedSingle x with
        | some sp =>
          if Spec.Range.resolve sp size.toNat = some (a.toNat, b.toNat) then "ok"
          else "bad:not-the-requested-range"
        | none => "ok"
    | none => if obs = "absent" || obs = "reject" then "ok" else "bad:unknown-observation"

def stepFields (fs : List String) (obs : String) : String :=
  match fs with
  | ["range", hx, size] =>
    let x := field hx
    let sz := size.toInt?.getD 0
    (Range.outcome x sz).render ++ "\t" ++ rangeVerdict x sz obs
  | _ => "bad-op\tbad:bad-op"

def splitArrow : List String → List String → (List String × String)
  | [], acc => (acc.reverse, "")
  | "=>" :: rest, acc => (acc.reverse, "\t".intercalate rest)
  | f :: rest, acc => splitArrow rest (f :: acc)

def step (line : String) : String :=
  let (fs, obs) := splitArrow (line.splitOn "\t") []
  stepFields fs obs

end Rv.Oracle
