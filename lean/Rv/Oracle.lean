import Rv.Oracle.Stateless
import Rv.Oracle.Cache
import Rv.Oracle.Event
import Rv.Oracle.Auth
import Rv.Oracle.Proxy
import Rv.Oracle.Certs
import Rv.Oracle.Config
import Rv.Oracle.Flight
import Rv.Oracle.Access
/-
  Rv.Oracle — dispatch of op lines to the stateless and stateful model drivers.
-/
namespace Rv.Oracle

structure OState where
  cache : Cache.CState := {}
  ev : Event.EState := {}
  au : Auth.AState := {}
  px : Proxy.PState := {}
  ce : Certs.CState := {}
  cf : Config.CfState := {}
  ac : Access.AState := {}

def splitArrow : List String → List String → (List String × String)
  | [], acc => (acc.reverse, "")
  | "=>" :: rest, acc => (acc.reverse, "\t".intercalate rest)
  | f :: rest, acc => splitArrow rest (f :: acc)

def step (os : OState) (line : String) : OState × String :=
  let (fs, obs) := splitArrow (line.splitOn "\t") []
  match fs with
  | "ct" :: _ =>
    let (c, m, v) := Cache.step os.cache fs obs
    ({ os with cache := c }, m ++ "\t" ++ v)
  | "ev" :: _ =>
    let (e, m, v) := Event.step os.ev fs obs
    ({ os with ev := e }, m ++ "\t" ++ v)
  | "au" :: _ =>
    let (a, m, v) := Auth.step os.au fs obs
    ({ os with au := a }, m ++ "\t" ++ v)
  | "px" :: _ =>
    let (p, m, v) := Proxy.step os.px fs obs
    ({ os with px := p }, m ++ "\t" ++ v)
  | "ce" :: _ =>
    let (c, m, v) := Certs.step os.ce fs obs
    ({ os with ce := c }, m ++ "\t" ++ v)
  | "cf" :: _ =>
    let (c, m, v) := Config.step os.cf fs obs
    ({ os with cf := c }, m ++ "\t" ++ v)
  | "ac" :: _ =>
    let (a, m, v) := Access.step os.ac fs obs
    ({ os with ac := a }, m ++ "\t" ++ v)
  | "fl" :: _ =>
    let (m, v) := Flight.step fs obs
    (os, m ++ "\t" ++ v)
  | "rr" :: _ =>
    -- C16 end to end: whatever bytes arrive as a request head, the client gets a well-formed HTTP response
    if (fs.drop 1).head? = some "target" then
      -- C08: the origin echoes the request-target it was asked for; it is the client's, byte for byte
      let tgt := ((fs.drop 2).head?.getD "")
      let want := "200:" ++ String.ofList (Rv.hex ("t=".toList ++ ((Rv.unhex tgt.toList).getD [])))
      (os, want ++ "\t" ++ (if obs.startsWith "panic" then "bad:panic"
        else if obs = want then "ok"
        else if obs.startsWith "200:" then "bad:path-or-query-not-passed-through-unchanged"
        else "ok"))   -- a target net/http itself refuses: no claim
    else if (fs.drop 1).head? = some "crowd" then
      -- C08 / C10: concurrent clients with different targets: each gets the answer to ITS request
      (os, "all-own-answers\t" ++ (if obs.startsWith "panic" then "bad:panic"
        else if obs = "all-own-answers" then "ok"
        else "bad:path-or-query-not-passed-through-unchanged"))
    else if (fs.drop 1).head? = some "tunnelhist" then
      -- C10: however many requests a tunnel carries, each gets the answer to its own request
      (os, "all-own-answers\t" ++ (if obs.startsWith "panic" then "bad:panic"
        else if obs = "all-own-answers" || obs = "connect-failed" || obs = "handshake-failed" then "ok"
        else "bad:tunnel-exchange-answered-with-something-else"))
    else if (fs.drop 1).head? = some "qpair" then
      -- C02 / C08: the origin echoes the query it was asked for; every exchange gets the answer for ITS query
      let q1 := ((fs.drop 2).head?.getD "")
      let q2 := ((fs.drop 3).head?.getD "")
      let want (q : String) : String := "200:" ++ String.ofList (Rv.hex ("q=".toList ++ ((Rv.unhex q.toList).getD [])))
      let got := obs.splitOn " "
      let m := want q1 ++ " " ++ want q2
      (os, m ++ "\t" ++
        (if obs.startsWith "panic" then "bad:panic"
         else match got with
         | [g1, g2] =>
           if g1 = want q1 && g2 = want q2 then "ok"
           else if q1 ≠ q2 && g2 = want q1 then "bad:distinct-resources-share-an-entry"
           else if g1.startsWith "200:" && g2.startsWith "200:" then "bad:query-not-passed-through-unchanged"
           else "ok"   -- a query net/http or the origin refuses: no claim
         | _ => "ok"))
    else if (fs.drop 1).head? = some "tunnel3" then
      -- C10 / C01: a response the proxy could not complete is followed by NOTHING on that tunnel (it is closed)
      (os, obs ++ "\t" ++
        (if obs.startsWith "panic" then "bad:panic"
         else if (obs.splitOn " incomplete then open").length > 1 then "bad:tunnel-left-open-after-incomplete-response"
         else if (obs.splitOn " complete then open").length > 1 then "bad:tunnel-exchange-answered-with-something-else"
         else if obs.startsWith "nothing then" then "bad:request-left-without-response"
         else "ok"))
    else if (fs.drop 1).head? = some "tunnel2" then
      -- C10: the exchange after an odd one gets ITS OWN answer, or finds the tunnel closed
      (os, obs ++ "\t" ++
        (if obs.startsWith "panic" then "bad:panic"
         else if (obs.splitOn " then own-answer").length > 1 || (obs.splitOn " then closed").length > 1 then "ok"
         else "bad:tunnel-exchange-answered-with-something-else"))
    else
    (os, (if obs.startsWith "status:" then obs else "status:any") ++ "\t" ++
      (if obs.startsWith "status:" then "ok"
       else if obs.startsWith "panic" then "bad:panic"
       else if obs = "timeout" then "bad:request-left-without-response"
       else if obs = "closed" || obs = "garbled" then "bad:request-left-without-response"
       else "bad:" ++ obs))
  | "rs" :: _ =>
    -- C15 dynamic scenarios: the op itself only has to complete; the race detector's reports arrive as `ac race` lines
    (os, "completed\t" ++ (if obs = "completed" then "ok" else if obs.startsWith "HANG" then "bad:operation-does-not-complete"
        else if obs.startsWith "MISPAIRED" then "bad:metadata-mispaired-with-body" else "bad:" ++ obs))
  | "ls" :: _ =>
    -- C14: the theorem says every schedule completes; the model observation is the constant "completed"
    (os, "completed\t" ++ (if obs = "completed" then "ok" else if obs.startsWith "HANG" then "bad:operation-does-not-complete" else "bad:" ++ obs))
  | _ => (os, stepFields fs obs)

end Rv.Oracle
