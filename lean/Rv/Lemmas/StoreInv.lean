import Rv.Model.Store
import Rv.Spec.AbsCache
/-
  Rv.Lemmas.StoreInv — helper lemmas and proofs for Props/C12 and Props/C01
  (the accounting invariant `Inv` of the store model, and the handle / lookup
  facts).  Core Lean only.
-/
namespace Rv.Lemmas.StoreInv
open Rv.Store Rv.Spec.AbsCache

/-! ### generic `find?` / `filter` facts for lists keyed by a `Nat` -/

section Generic
variable {α : Type} (f : α → Nat)

theorem find_filter_self (l : List α) (k : Nat) :
    (l.filter (fun x => decide (f x ≠ k))).find? (fun x => decide (f x = k)) = none := by
  rw [List.find?_eq_none]
  intro x hx
  have := (List.mem_filter.1 hx).2
  simpa using this

theorem find_filter_ne (l : List α) {k k' : Nat} (h : k' ≠ k) :
    (l.filter (fun x => decide (f x ≠ k))).find? (fun x => decide (f x = k')) =
      l.find? (fun x => decide (f x = k')) := by
  induction l with
  | nil => rfl
  | cons a t ih =>
    by_cases h1 : f a = k
    · have h2 : f a ≠ k' := fun e => h (e.symm.trans h1)
      rw [List.filter_cons_of_neg (by simpa using h1), List.find?_cons_of_neg (by simpa using h2)]
      exact ih
    · rw [List.filter_cons_of_pos (by simpa using h1)]
      by_cases h2 : f a = k'
      · rw [List.find?_cons_of_pos (by simpa using h2), List.find?_cons_of_pos (by simpa using h2)]
      · rw [List.find?_cons_of_neg (by simpa using h2), List.find?_cons_of_neg (by simpa using h2)]
        exact ih

theorem filter_of_find_none (l : List α) {k : Nat}
    (h : l.find? (fun x => decide (f x = k)) = none) :
    l.filter (fun x => decide (f x ≠ k)) = l := by
  rw [List.filter_eq_self]
  intro a ha
  have := List.find?_eq_none.1 h a ha
  simpa using this

theorem pairwise_filter_key (l : List α) (k : Nat)
    (h : l.Pairwise (fun a b => f a ≠ f b)) :
    (l.filter (fun x => decide (f x ≠ k))).Pairwise (fun a b => f a ≠ f b) :=
  h.filter _

theorem pairwise_cons_filter (l : List α) (a : α)
    (h : l.Pairwise (fun a b => f a ≠ f b)) :
    (a :: l.filter (fun x => decide (f x ≠ f a))).Pairwise (fun a b => f a ≠ f b) := by
  rw [List.pairwise_cons]
  refine ⟨?_, h.filter _⟩
  intro b hb
  have := (List.mem_filter.1 hb).2
  have hne : f b ≠ f a := by simpa using this
  exact fun e => hne e.symm

/-- with distinct keys, two members with the same key are equal. -/
theorem eq_of_mem_of_key_eq {l : List α} (h : l.Pairwise (fun a b => f a ≠ f b))
    {a b : α} (ha : a ∈ l) (hb : b ∈ l) (e : f a = f b) : a = b := by
  induction l with
  | nil => cases ha
  | cons x t ih =>
    rw [List.pairwise_cons] at h
    rcases List.mem_cons.1 ha with rfl | ha'
    · rcases List.mem_cons.1 hb with rfl | hb'
      · rfl
      · exact absurd e (h.1 b hb')
    · rcases List.mem_cons.1 hb with rfl | hb'
      · exact absurd e.symm (h.1 a ha')
      · exact ih h.2 ha' hb'

end Generic

/-! ### `lookup` / `erase` -/

theorem lookup_erase_self (es : List Entry) (k : Nat) : lookup (erase es k) k = none :=
  find_filter_self (fun e : Entry => e.key) es k

theorem lookup_erase_ne (es : List Entry) {k k' : Nat} (h : k' ≠ k) :
    lookup (erase es k) k' = lookup es k' :=
  find_filter_ne (fun e : Entry => e.key) es h

theorem erase_of_lookup_none {es : List Entry} {k : Nat} (h : lookup es k = none) :
    erase es k = es :=
  filter_of_find_none (fun e : Entry => e.key) es h

theorem keysDistinct_erase {es : List Entry} (k : Nat) (h : KeysDistinct es) :
    KeysDistinct (erase es k) :=
  pairwise_filter_key (fun e : Entry => e.key) es k h

theorem keysDistinct_cons_erase {es : List Entry} (e : Entry) (h : KeysDistinct es) :
    KeysDistinct (e :: erase es e.key) :=
  pairwise_cons_filter (fun e : Entry => e.key) es e h

theorem lookup_cons_self (e : Entry) (es : List Entry) : lookup (e :: es) e.key = some e := by
  simp [lookup]

theorem lookup_cons_ne (e : Entry) (es : List Entry) {k : Nat} (h : e.key ≠ k) :
    lookup (e :: es) k = lookup es k := by
  simp [lookup, h]

theorem lookup_mem {es : List Entry} {k : Nat} {e : Entry} (h : lookup es k = some e) :
    e ∈ es ∧ e.key = k := by
  refine ⟨List.mem_of_find?_eq_some h, ?_⟩
  have := List.find?_some h
  simpa using this

theorem dirLookup_erase_self (d : List DirEnt) (k : Nat) : dirLookup (dirErase d k) k = none :=
  find_filter_self (fun e : DirEnt => e.key) d k

theorem dirLookup_erase_ne (d : List DirEnt) {k k' : Nat} (h : k' ≠ k) :
    dirLookup (dirErase d k) k' = dirLookup d k' :=
  find_filter_ne (fun e : DirEnt => e.key) d h

theorem dirErase_of_lookup_none {d : List DirEnt} {k : Nat} (h : dirLookup d k = none) :
    dirErase d k = d :=
  filter_of_find_none (fun e : DirEnt => e.key) d h

theorem dirDistinct_erase {d : List DirEnt} (k : Nat) (h : DirDistinct d) :
    DirDistinct (dirErase d k) :=
  pairwise_filter_key (fun e : DirEnt => e.key) d k h

theorem dirDistinct_cons_erase {d : List DirEnt} (e : DirEnt) (h : DirDistinct d) :
    DirDistinct (e :: dirErase d e.key) :=
  pairwise_cons_filter (fun e : DirEnt => e.key) d e h

theorem dirLookup_cons_self (e : DirEnt) (d : List DirEnt) : dirLookup (e :: d) e.key = some e := by
  simp [dirLookup]

theorem dirLookup_cons_ne (e : DirEnt) (d : List DirEnt) {k : Nat} (h : e.key ≠ k) :
    dirLookup (e :: d) k = dirLookup d k := by
  simp [dirLookup, h]

/-! ### `totalSize` -/

theorem totalSize_nil : totalSize [] = 0 := rfl

theorem totalSize_cons (e : Entry) (es : List Entry) :
    totalSize (e :: es) = (e.size : Int) + totalSize es := by
  simp [totalSize]

theorem totalSize_nonneg (es : List Entry) : 0 ≤ totalSize es := by
  induction es with
  | nil => exact Int.le_refl 0
  | cons e t ih => rw [totalSize_cons]; omega

/-- with distinct keys, erasing a present key removes exactly that entry. -/
theorem erase_some {es : List Entry} {k : Nat} {e : Entry} (hd : KeysDistinct es)
    (h : lookup es k = some e) :
    totalSize (erase es k) = totalSize es - e.size ∧ (erase es k).length + 1 = es.length := by
  induction es with
  | nil => cases h
  | cons a t ih =>
    have hd' := List.pairwise_cons.1 hd
    by_cases ha : a.key = k
    · have hae : a = e := by
        have : lookup (a :: t) k = some a := by subst ha; exact lookup_cons_self a t
        rw [this] at h; exact Option.some.inj h
      subst hae
      have hnone : lookup t k = none := by
        simp only [lookup]
        rw [List.find?_eq_none]
        intro x hx
        have := hd'.1 x hx
        rw [ha] at this
        simpa using fun e' => this e'.symm
      have : erase (a :: t) k = t := by
        have h1 : erase (a :: t) k = erase t k := by simp [erase, ha]
        rw [h1, erase_of_lookup_none hnone]
      rw [this, totalSize_cons]
      exact ⟨by omega, rfl⟩
    · have h1 : erase (a :: t) k = a :: erase t k := by simp [erase, ha]
      rw [lookup_cons_ne a t ha] at h
      have := ih hd'.2 h
      rw [h1, totalSize_cons, totalSize_cons, List.length_cons, List.length_cons]
      exact ⟨by omega, by omega⟩

/-! ### the invariant: initial state and the removal primitives -/

theorem init_inv (b : Backend) (limit cap : Int) (shards : List Nat) :
    Inv (init b limit cap shards) :=
  ⟨List.Pairwise.nil, rfl, rfl, rfl, fun _ => rfl, List.Pairwise.nil, fun _ _ => rfl⟩

/-- `Inv` only looks at the accounting fields. -/
theorem inv_congr {st st' : St} (h : Inv st) (hb : st'.backend = st.backend)
    (he : st'.entries = st.entries) (hd : st'.dir = st.dir) (hs : st'.byteSize = st.byteSize)
    (hm : st'.mBytes = st.mBytes) (hn : st'.mEntries = st.mEntries) : Inv st' := by
  refine ⟨?_, ?_, ?_, ?_, ?_, ?_, ?_⟩
  · rw [he]; exact h.keys
  · rw [he, hs]; exact h.bytes
  · rw [hm, hs]; exact h.mbytes
  · rw [hn, he]; exact h.mentries
  · rw [hb, hd]; exact h.dirMem
  · rw [hd]; exact h.dirKeys
  · rw [hb, hd, he]; exact h.dirFile

theorem memRemove_preserves (st : St) (k : Nat) (hb : st.backend = .mem) (h : Inv st) :
    Inv (memRemove st k).1 := by
  unfold memRemove
  split
  · exact h
  · next e he =>
    have hs := erase_some h.keys he
    refine ⟨keysDistinct_erase k h.keys, ?_, ?_, ?_, h.dirMem, h.dirKeys, ?_⟩
    · show st.byteSize - e.size = totalSize (erase st.entries k)
      rw [hs.1, h.bytes]
    · show st.mBytes - e.size = st.byteSize - e.size
      rw [h.mbytes]
    · show st.mEntries - 1 = ((erase st.entries k).length : Int)
      have := h.mentries
      omega
    · intro hf
      have hf' : st.backend = .file := hf
      rw [hb] at hf'
      cases hf'

theorem fileRemove_preserves (st : St) (k : Nat) (hb : st.backend = .file) (h : Inv st) :
    Inv (fileRemove st k).1 := by
  have hk := h.dirFile hb k
  unfold fileRemove
  cases hd : dirLookup st.dir k with
  | none =>
    rw [hd] at hk
    have hn : lookup st.entries k = none := by
      cases hl : lookup st.entries k with
      | none => rfl
      | some e => rw [hl] at hk; cases hk
    show Inv { st with entries := erase st.entries k }
    rw [erase_of_lookup_none hn]
    exact h
  | some f =>
    rw [hd] at hk
    cases hl : lookup st.entries k with
    | none => rw [hl] at hk; cases hk
    | some e =>
      rw [hl] at hk
      have hfe : f.size = e.size := by
        have := Option.some.inj hk
        exact (Prod.mk.inj this).2
      have hs := erase_some h.keys hl
      refine ⟨keysDistinct_erase k h.keys, ?_, ?_, ?_, ?_, dirDistinct_erase k h.dirKeys, ?_⟩
      · show st.byteSize - f.size = totalSize (erase st.entries k)
        rw [hs.1, h.bytes, hfe]
      · show st.mBytes - f.size = st.byteSize - f.size
        rw [h.mbytes]
      · show st.mEntries - 1 = ((erase st.entries k).length : Int)
        have := h.mentries
        omega
      · intro hm
        have hm' : st.backend = .mem := hm
        rw [hb] at hm'
        cases hm'
      · intro _ k'
        show (dirLookup (dirErase st.dir k) k').map _ = (lookup (erase st.entries k) k').map _
        by_cases hne : k' = k
        · subst hne
          rw [dirLookup_erase_self, lookup_erase_self]
          rfl
        · rw [dirLookup_erase_ne _ hne, lookup_erase_ne _ hne]
          exact h.dirFile hb k'

/-- removing an entry (either backend) preserves the accounting invariant. -/
theorem removeEntry_preserves (st : St) (k : Nat) (h : Inv st) : Inv (removeEntry st k).1 := by
  unfold removeEntry
  split
  · next hb => exact memRemove_preserves st k hb h
  · next hb => exact fileRemove_preserves st k hb h

/-! ### what a removal does to `entries`, `dir`, `byteSize` -/

/-- size of the entry stored under `k`, `0` when there is none. -/
def entrySize (es : List Entry) (k : Nat) : Int :=
  match lookup es k with
  | some e => (e.size : Int)
  | none => 0

theorem removeEntry_backend (st : St) (k : Nat) : (removeEntry st k).1.backend = st.backend := by
  unfold removeEntry memRemove fileRemove
  split
  · split <;> rfl
  · split <;> rfl

/-- `removeEntry` always leaves exactly `erase st.entries k` (no invariant needed). -/
theorem removeEntry_entries' (st : St) (k : Nat) : (removeEntry st k).1.entries = erase st.entries k := by
  unfold removeEntry memRemove fileRemove
  split
  · split
    · next hl => exact (erase_of_lookup_none hl).symm
    · rfl
  · split <;> rfl

/-- the form requested for the eviction proofs. -/
theorem removeEntry_entries (st : St) (k : Nat) (_ : Inv st) :
    (removeEntry st k).1.entries = erase st.entries k :=
  removeEntry_entries' st k

/-- in a state satisfying the invariant the directory loses exactly the file of `k`
    (memory backend: `dir = []` before and after). -/
theorem removeEntry_dir (st : St) (k : Nat) (h : Inv st) :
    (removeEntry st k).1.dir = dirErase st.dir k := by
  unfold removeEntry memRemove fileRemove
  split
  · next hb =>
    have hd : st.dir = [] := h.dirMem hb
    split
    · rw [hd]; rfl
    · show st.dir = dirErase st.dir k
      rw [hd]; rfl
  · split
    · next hl => exact (dirErase_of_lookup_none hl).symm
    · rfl

/-- the size counter drops by exactly the size of the removed entry. -/
theorem removeEntry_byteSize (st : St) (k : Nat) (h : Inv st) :
    (removeEntry st k).1.byteSize = st.byteSize - entrySize st.entries k := by
  have h' := removeEntry_preserves st k h
  rw [h'.bytes, removeEntry_entries' st k, h.bytes]
  unfold entrySize
  cases hl : lookup st.entries k with
  | none =>
    rw [erase_of_lookup_none hl]
    show totalSize st.entries = totalSize st.entries - 0
    omega
  | some e => exact (erase_some h.keys hl).1

/-- the entry counter drops by one iff the key was present. -/
theorem removeEntry_mEntries (st : St) (k : Nat) (h : Inv st) :
    (removeEntry st k).1.mEntries = st.mEntries - (if (lookup st.entries k).isSome then 1 else 0) := by
  have h' := removeEntry_preserves st k h
  rw [h'.mentries, removeEntry_entries' st k, h.mentries]
  cases hl : lookup st.entries k with
  | none =>
    rw [erase_of_lookup_none hl]
    simp
  | some e =>
    have := (erase_some h.keys hl).2
    simp only [Option.isSome_some, if_true]
    omega

/-! ### `publish` -/

theorem publish_entries (st : St) (e : Entry) :
    (publish st e).entries = e :: erase st.entries e.key := by
  unfold publish
  split <;> rfl

theorem publish_dir (st : St) (e : Entry) : (publish st e).dir = st.dir := by
  unfold publish
  split <;> rfl

theorem publish_backend (st : St) (e : Entry) : (publish st e).backend = st.backend := by
  unfold publish
  split <;> rfl

/-- `publish` restores the invariant whenever the counters were exact for the
    old map and the directory already describes the NEW map. -/
theorem publish_inv (st : St) (e : Entry)
    (hk : KeysDistinct st.entries) (hby : st.byteSize = totalSize st.entries)
    (hmb : st.mBytes = st.byteSize) (hme : st.mEntries = st.entries.length)
    (hdm : st.backend = .mem → st.dir = []) (hdk : DirDistinct st.dir)
    (hdf : st.backend = .file → ∀ k', (dirLookup st.dir k').map (fun f => (f.ver, f.size)) =
        (lookup (e :: erase st.entries e.key) k').map (fun x => (x.ver, x.size))) :
    Inv (publish st e) := by
  unfold publish
  cases hl : lookup st.entries e.key with
  | none =>
    have he := erase_of_lookup_none hl
    refine ⟨keysDistinct_cons_erase e hk, ?_, ?_, ?_, hdm, hdk, hdf⟩
    · show st.byteSize + e.size = totalSize (e :: erase st.entries e.key)
      rw [totalSize_cons, he, hby]
      omega
    · show st.mBytes + e.size = st.byteSize + e.size
      rw [hmb]
    · show st.mEntries + 1 = ((e :: erase st.entries e.key).length : Int)
      rw [he, List.length_cons, hme]
      omega
  | some old =>
    have hs := erase_some hk hl
    refine ⟨keysDistinct_cons_erase e hk, ?_, ?_, ?_, hdm, hdk, hdf⟩
    · show st.byteSize - old.size + e.size = totalSize (e :: erase st.entries e.key)
      rw [totalSize_cons, hs.1, hby]
      omega
    · show st.mBytes - old.size + e.size = st.byteSize - old.size + e.size
      rw [hmb]
    · show st.mEntries - 1 + 1 = ((e :: erase st.entries e.key).length : Int)
      rw [List.length_cons, hme]
      have := hs.2
      omega

/-- memory backend: publishing any entry preserves the invariant. -/
theorem publish_preserves (st : St) (e : Entry) (hb : st.backend = .mem) (h : Inv st) :
    Inv (publish st e) :=
  publish_inv st e h.keys h.bytes h.mbytes h.mentries h.dirMem h.dirKeys
    (fun hf => by rw [hb] at hf; cases hf)

/-- file backend: the rename into place followed by `publish` of the matching
    metadata preserves the invariant. -/
theorem filePublish_preserves (st : St) (e : Entry) (hb : st.backend = .file) (h : Inv st) :
    Inv (publish { st with dir := { key := e.key, ver := e.ver, size := e.size } :: dirErase st.dir e.key } e) := by
  refine publish_inv _ e h.keys h.bytes h.mbytes h.mentries ?_ ?_ ?_
  · intro hm
    have hm' : st.backend = .mem := hm
    rw [hb] at hm'
    cases hm'
  · exact dirDistinct_cons_erase { key := e.key, ver := e.ver, size := e.size } h.dirKeys
  · intro _ k'
    show (dirLookup ({ key := e.key, ver := e.ver, size := e.size } :: dirErase st.dir e.key) k').map _ =
      (lookup (e :: erase st.entries e.key) k').map _
    by_cases hne : k' = e.key
    · subst hne
      have h1 : dirLookup ({ key := e.key, ver := e.ver, size := e.size } :: dirErase st.dir e.key) e.key
          = some { key := e.key, ver := e.ver, size := e.size } :=
        dirLookup_cons_self { key := e.key, ver := e.ver, size := e.size } _
      rw [h1, lookup_cons_self]
      rfl
    · have h1 : dirLookup ({ key := e.key, ver := e.ver, size := e.size } :: dirErase st.dir e.key) k'
          = dirLookup (dirErase st.dir e.key) k' :=
        dirLookup_cons_ne { key := e.key, ver := e.ver, size := e.size } _ (fun e' => hne e'.symm)
      rw [h1, lookup_cons_ne e _ (fun e' => hne e'.symm), dirLookup_erase_ne _ hne, lookup_erase_ne _ hne]
      exact h.dirFile hb k'

/-! ### `touch` (metadata modifiers that keep key, version and size) -/

/-- a modifier that leaves key, version and size alone. -/
def KVS (g : Entry → Entry) : Prop :=
  ∀ e, (g e).key = e.key ∧ (g e).ver = e.ver ∧ (g e).size = e.size

theorem kvs_ite (k : Nat) {f : Entry → Entry} (hf : KVS f) :
    KVS (fun e => if e.key = k then f e else e) := by
  intro e
  by_cases h : e.key = k
  · show (if e.key = k then f e else e).key = e.key ∧ (if e.key = k then f e else e).ver = e.ver ∧
      (if e.key = k then f e else e).size = e.size
    rw [if_pos h]; exact hf e
  · show (if e.key = k then f e else e).key = e.key ∧ (if e.key = k then f e else e).ver = e.ver ∧
      (if e.key = k then f e else e).size = e.size
    rw [if_neg h]; exact ⟨rfl, rfl, rfl⟩

theorem keysDistinct_map {g : Entry → Entry} (hg : KVS g) {es : List Entry} (h : KeysDistinct es) :
    KeysDistinct (es.map g) := by
  unfold KeysDistinct
  rw [List.pairwise_map]
  exact h.imp (fun {a b} hab => by rw [(hg a).1, (hg b).1]; exact hab)

theorem totalSize_map {g : Entry → Entry} (hg : KVS g) (es : List Entry) :
    totalSize (es.map g) = totalSize es := by
  induction es with
  | nil => rfl
  | cons a t ih => rw [List.map_cons, totalSize_cons, totalSize_cons, ih, (hg a).2.2]

theorem lookup_map {g : Entry → Entry} (hg : KVS g) (es : List Entry) (k : Nat) :
    lookup (es.map g) k = (lookup es k).map g := by
  induction es with
  | nil => rfl
  | cons a t ih =>
    show List.find? _ (g a :: t.map g) = Option.map g (List.find? _ (a :: t))
    by_cases ha : a.key = k
    · have hga : (g a).key = k := by rw [(hg a).1]; exact ha
      rw [List.find?_cons_of_pos (by simpa using hga), List.find?_cons_of_pos (by simpa using ha)]
      rfl
    · have hga : (g a).key ≠ k := by rw [(hg a).1]; exact ha
      rw [List.find?_cons_of_neg (by simpa using hga), List.find?_cons_of_neg (by simpa using ha)]
      exact ih

theorem lookup_map_vs {g : Entry → Entry} (hg : KVS g) (es : List Entry) (k : Nat) :
    (lookup (es.map g) k).map (fun e => (e.ver, e.size)) =
      (lookup es k).map (fun e => (e.ver, e.size)) := by
  rw [lookup_map hg]
  cases lookup es k with
  | none => rfl
  | some e => show some ((g e).ver, (g e).size) = some (e.ver, e.size); rw [(hg e).2.1, (hg e).2.2]

theorem touch_preserves (st : St) (k : Nat) {f : Entry → Entry} (hf : KVS f) (h : Inv st) :
    Inv (touch st k f) := by
  have hg := kvs_ite k hf
  refine ⟨keysDistinct_map hg h.keys, ?_, h.mbytes, ?_, h.dirMem, h.dirKeys, ?_⟩
  · show st.byteSize = totalSize (st.entries.map _)
    rw [totalSize_map hg]; exact h.bytes
  · show st.mEntries = ((st.entries.map _).length : Int)
    rw [List.length_map]; exact h.mentries
  · intro hb k'
    show (dirLookup st.dir k').map _ = (lookup (st.entries.map _) k').map _
    rw [lookup_map_vs hg]
    exact h.dirFile hb k'

theorem kvs_lastAccess (t : Int) : KVS (fun x => { x with lastAccess := t }) :=
  fun _ => ⟨rfl, rfl, rfl⟩

theorem kvs_expires (x t : Int) : KVS (fun y => { y with expires := x, lastAccess := t }) :=
  fun _ => ⟨rfl, rfl, rfl⟩

/-! ### operations that only touch handles, the clock or the limits -/

theorem openHandle_preserves (st : St) (ver size : Nat) (h : Inv st) :
    Inv (openHandle st ver size).1 :=
  inv_congr h rfl rfl rfl rfl rfl rfl

theorem read_preserves (st : St) (hd n : Nat) (h : Inv st) : Inv (read st hd n).1 := by
  unfold Store.read
  split
  · exact h
  · exact inv_congr h rfl rfl rfl rfl rfl rfl

theorem close_preserves (st : St) (hd : Nat) (h : Inv st) : Inv (close st hd) :=
  inv_congr h rfl rfl rfl rfl rfl rfl

theorem shift_preserves (st : St) (d : Int) (h : Inv st) : Inv (shift st d) :=
  inv_congr h rfl rfl rfl rfl rfl rfl

theorem setLimit_preserves (st : St) (n : Int) (h : Inv st) : Inv (setLimit st n) :=
  inv_congr h rfl rfl rfl rfl rfl rfl

theorem reopen_inv (st : St) : Inv (reopen st) := init_inv _ _ _ _

/-- re-synchronising the metric with the counter (end of `evict` / cleanup). -/
theorem syncMBytes_preserves (st : St) (h : Inv st) : Inv { st with mBytes := st.byteSize } :=
  ⟨h.keys, h.bytes, rfl, h.mentries, h.dirMem, h.dirKeys, h.dirFile⟩

/-! ### get / getMeta / update / delete -/

theorem get_preserves (st : St) (k : Nat) (h : Inv st) : Inv (get st k).1 := by
  unfold Store.get
  split
  · exact h
  · split
    · exact openHandle_preserves _ _ _ (touch_preserves st k (kvs_lastAccess _) h)
    · split
      · exact h
      · exact openHandle_preserves _ _ _ (touch_preserves st k (kvs_lastAccess _) h)

theorem getMeta_preserves (st : St) (k : Nat) (h : Inv st) : Inv (getMeta st k).1 := by
  unfold getMeta
  split
  · exact h
  · exact touch_preserves st k (kvs_lastAccess _) h

theorem update_preserves (st : St) (k : Nat) (x : Int) (h : Inv st) : Inv (update st k x).1 := by
  unfold update
  split
  · exact h
  · exact touch_preserves st k (kvs_expires _ _) h

theorem delete_preserves (st : St) (k : Nat) (h : Inv st) : Inv (delete st k).1 :=
  removeEntry_preserves st k h

/-! ### eviction -/

theorem evictLoop_preserves (tgt : Int) (skip : Nat → Bool) :
    ∀ (cs : List Entry) (st : St) (acc : List Nat), Inv st → Inv (evictLoop tgt skip cs st acc).1
  | [], _, _, h => h
  | c :: cs, st, acc, h => by
    unfold evictLoop
    split
    · exact h
    · split
      · exact evictLoop_preserves tgt skip cs st acc h
      · exact evictLoop_preserves tgt skip cs _ _ (removeEntry_preserves st c.key h)

theorem evict_fst (st : St) (limit : Int) (skip : Nat → Bool) :
    (evict st limit skip).1 =
      { (evictLoop (target limit) skip (sortDesc st.now st.entries) st []).1 with
        mBytes := (evictLoop (target limit) skip (sortDesc st.now st.entries) st []).1.byteSize } := rfl

theorem evict_snd (st : St) (limit : Int) (skip : Nat → Bool) :
    (evict st limit skip).2 = (evictLoop (target limit) skip (sortDesc st.now st.entries) st []).2 := rfl

/-- an eviction pass (any limit, any set of unlockable shards) preserves the invariant. -/
theorem evict_preserves (st : St) (limit : Int) (skip : Nat → Bool) (h : Inv st) :
    Inv (evict st limit skip).1 := by
  rw [evict_fst]
  exact syncMBytes_preserves _ (evictLoop_preserves _ _ _ _ _ h)

theorem ensure_preserves (st : St) (h : Inv st) : Inv (ensure st).1 := by
  unfold ensure
  split
  · exact h
  · exact evict_preserves _ _ _ h

/-! ### store -/

/-- the eviction prefix of `memStore`. -/
def memPre (st : St) (k : Nat) : St × List Nat :=
  if st.byteSize ≥ min st.limit st.memCap then
    evict st (min st.limit st.memCap) (fun k' => shardOf st k' = shardOf st k)
  else (st, [])

/-- the eviction prefix of `fileStore`. -/
def filePre (st : St) : St × List Nat :=
  if st.byteSize ≥ st.limit then evict st st.limit (fun _ => false) else (st, [])

theorem memStore_eq (st : St) (k ver size : Nat) (expires : Int) (f : Fault) :
    memStore st k ver size expires f =
      if (memPre st k).1.byteSize ≥ min st.limit st.memCap then
        ((memPre st k).1, .memExceeded, (memPre st k).2)
      else match f with
        | .srcErr => ((memPre st k).1, .srcErr, (memPre st k).2)
        | _ => (publish (memPre st k).1 (newEntry (memPre st k).1 k ver size expires), .ok,
                (memPre st k).2) := rfl

theorem fileStore_eq (st : St) (k ver size : Nat) (expires : Int) (f : Fault) :
    fileStore st k ver size expires f =
      match f with
      | .createErr => ((filePre st).1, .createErr, (filePre st).2)
      | .srcErr => ((filePre st).1, .writeErr, (filePre st).2)
      | .renameErr =>
        if size = 0 then ((filePre st).1, .emptyErr, (filePre st).2)
        else ((filePre st).1, .writeErr, (filePre st).2)
      | .none =>
        if size = 0 then ((filePre st).1, .emptyErr, (filePre st).2)
        else
          (publish { (filePre st).1 with
                dir := { key := k, ver := ver, size := size } :: dirErase (filePre st).1.dir k }
              (newEntry { (filePre st).1 with
                dir := { key := k, ver := ver, size := size } :: dirErase (filePre st).1.dir k }
                k ver size expires),
            .ok, (filePre st).2) := rfl

theorem memPre_preserves (st : St) (k : Nat) (h : Inv st) : Inv (memPre st k).1 := by
  unfold memPre
  split
  · exact evict_preserves _ _ _ h
  · exact h

theorem filePre_preserves (st : St) (h : Inv st) : Inv (filePre st).1 := by
  unfold filePre
  split
  · exact evict_preserves _ _ _ h
  · exact h

theorem evictLoop_backend (tgt : Int) (skip : Nat → Bool) :
    ∀ (cs : List Entry) (st : St) (acc : List Nat),
      (evictLoop tgt skip cs st acc).1.backend = st.backend
  | [], _, _ => rfl
  | c :: cs, st, acc => by
    unfold evictLoop
    split
    · rfl
    · split
      · exact evictLoop_backend tgt skip cs st acc
      · rw [evictLoop_backend tgt skip cs _ _, removeEntry_backend]

theorem evict_backend (st : St) (limit : Int) (skip : Nat → Bool) :
    (evict st limit skip).1.backend = st.backend := by
  rw [evict_fst]
  exact evictLoop_backend _ _ _ _ _

theorem memPre_backend (st : St) (k : Nat) : (memPre st k).1.backend = st.backend := by
  unfold memPre
  split
  · exact evict_backend _ _ _
  · rfl

theorem filePre_backend (st : St) : (filePre st).1.backend = st.backend := by
  unfold filePre
  split
  · exact evict_backend _ _ _
  · rfl

theorem memStore_preserves (st : St) (k ver size : Nat) (expires : Int) (f : Fault)
    (hb : st.backend = .mem) (h : Inv st) : Inv (memStore st k ver size expires f).1 := by
  have h1 := memPre_preserves st k h
  have hb1 : (memPre st k).1.backend = .mem := by rw [memPre_backend, hb]
  rw [memStore_eq]
  split
  · exact h1
  · split
    · exact h1
    · exact publish_preserves _ _ hb1 h1

theorem fileStore_preserves (st : St) (k ver size : Nat) (expires : Int) (f : Fault)
    (hb : st.backend = .file) (h : Inv st) : Inv (fileStore st k ver size expires f).1 := by
  have h1 := filePre_preserves st h
  have hb1 : (filePre st).1.backend = .file := by rw [filePre_backend, hb]
  rw [fileStore_eq]
  split
  · exact h1
  · exact h1
  · split <;> exact h1
  · split
    · exact h1
    · exact filePublish_preserves (filePre st).1
        (newEntry { (filePre st).1 with
                dir := { key := k, ver := ver, size := size } :: dirErase (filePre st).1.dir k }
                k ver size expires) hb1 h1

/-- a store (successful, refused or failed at any point) preserves the invariant. -/
theorem store_preserves (st : St) (k ver size : Nat) (expires : Int) (f : Fault) (h : Inv st) :
    Inv (store st k ver size expires f).1 := by
  unfold store
  split
  · next hb => exact memStore_preserves st k ver size expires f hb h
  · next hb => exact fileStore_preserves st k ver size expires f hb h

/-! ### cleanup -/

theorem cleanLoop_preserves :
    ∀ (ks : List Nat) (st : St) (acc : List Nat), Inv st → Inv (cleanLoop ks st acc).1
  | [], _, _, h => h
  | k :: ks, st, acc, h => by
    unfold cleanLoop
    split
    · exact cleanLoop_preserves ks st acc h
    · split
      · exact cleanLoop_preserves ks _ _ (removeEntry_preserves st k h)
      · exact cleanLoop_preserves ks st acc h

theorem cleanRemove_fst (st : St) (scanned : List Nat) :
    (cleanRemove st scanned).1 =
      { (cleanLoop scanned st []).1 with mBytes := (cleanLoop scanned st []).1.byteSize } := rfl

theorem cleanRemove_preserves (st : St) (scanned : List Nat) (h : Inv st) :
    Inv (cleanRemove st scanned).1 := by
  rw [cleanRemove_fst]
  exact syncMBytes_preserves _ (cleanLoop_preserves _ _ _ h)

/-- one client operation inside the janitor's scan/removal window. -/
theorem midStep_preserves (st : St) (op : MidOp) (h : Inv st) : Inv (midStep st op) := by
  cases op with
  | store k ver size ttl f => exact store_preserves st k ver size _ f h
  | update k ttl => exact update_preserves st k _ h
  | delete k => exact delete_preserves st k h
  | get k => exact get_preserves st k h

theorem foldl_midStep_preserves : ∀ (mid : List MidOp) (st : St), Inv st → Inv (mid.foldl midStep st)
  | [], _, h => h
  | m :: ms, st, h => foldl_midStep_preserves ms _ (midStep_preserves st m h)

/-! ### C12 -/

theorem step_preserves (st : St) (op : Op) (h : Inv st) : Inv (step st op) := by
  cases op with
  | store k ver size ttl f => exact store_preserves st k ver size _ f h
  | get k => exact get_preserves st k h
  | getMeta k => exact getMeta_preserves st k h
  | update k ttl => exact update_preserves st k _ h
  | delete k => exact delete_preserves st k h
  | read hd n => exact read_preserves st hd n h
  | close hd => exact close_preserves st hd h
  | clean mid => exact cleanRemove_preserves _ _ (foldl_midStep_preserves mid st h)
  | evict limit => exact evict_preserves st limit _ h
  | ensure => exact ensure_preserves st h
  | shift d => exact shift_preserves st d h
  | setLimit n => exact setLimit_preserves st n h
  | reopen => exact reopen_inv st

theorem run_preserves : ∀ (ops : List Op) (st : St), Inv st → Inv (run ops st)
  | [], _, h => h
  | op :: ops, st, h => run_preserves ops _ (step_preserves st op h)

theorem counters_exact (b : Backend) (limit cap : Int) (shards : List Nat) (ops : List Op) :
    Inv (run ops (init b limit cap shards)) :=
  run_preserves ops _ (init_inv b limit cap shards)

theorem inv_nonneg {st : St} (h : Inv st) : 0 ≤ st.byteSize ∧ 0 ≤ st.mBytes ∧ 0 ≤ st.mEntries := by
  have h0 := totalSize_nonneg st.entries
  have h1 := h.bytes
  have h2 := h.mbytes
  have h3 := h.mentries
  refine ⟨?_, ?_, ?_⟩ <;> omega

theorem counters_nonneg (b : Backend) (limit cap : Int) (shards : List Nat) (ops : List Op) :
    let st := run ops (init b limit cap shards)
    0 ≤ st.byteSize ∧ 0 ≤ st.mBytes ∧ 0 ≤ st.mEntries :=
  inv_nonneg (counters_exact b limit cap shards ops)

/-! ### what an eviction removes; failed stores -/

theorem filter_not_contains_nil {α : Type} (f : α → Nat) (l : List α) :
    l.filter (fun x => !([] : List Nat).contains (f x)) = l := by
  rw [List.filter_eq_self]
  intro a _
  rfl

theorem filter_erase_contains {α : Type} (f : α → Nat) (l : List α) (k : Nat) (ks : List Nat) :
    (l.filter (fun x => decide (f x ≠ k))).filter (fun x => !ks.contains (f x)) =
      l.filter (fun x => !(k :: ks).contains (f x)) := by
  rw [List.filter_filter]
  apply List.filter_congr
  intro x _
  by_cases h : f x = k
  · simp [h]
  · simp [h]

/-- the eviction loop removes exactly the keys it reports (appended to `acc`),
    from the map and from the directory. -/
theorem evictLoop_removed (tgt : Int) (skip : Nat → Bool) :
    ∀ (cs : List Entry) (st : St) (acc : List Nat), Inv st →
      ∃ ks, (evictLoop tgt skip cs st acc).2 = acc.reverse ++ ks ∧
        (evictLoop tgt skip cs st acc).1.entries = st.entries.filter (fun e => !ks.contains e.key) ∧
        (evictLoop tgt skip cs st acc).1.dir = st.dir.filter (fun d => !ks.contains d.key)
  | [], st, acc, _ =>
    ⟨[], (List.append_nil _).symm, (filter_not_contains_nil (fun e : Entry => e.key) _).symm,
      (filter_not_contains_nil (fun d : DirEnt => d.key) _).symm⟩
  | c :: cs, st, acc, h => by
    unfold evictLoop
    split
    · exact ⟨[], (List.append_nil _).symm, (filter_not_contains_nil (fun e : Entry => e.key) _).symm,
        (filter_not_contains_nil (fun d : DirEnt => d.key) _).symm⟩
    · split
      · exact evictLoop_removed tgt skip cs st acc h
      · obtain ⟨ks, h1, h2, h3⟩ :=
          evictLoop_removed tgt skip cs _ (c.key :: acc) (removeEntry_preserves st c.key h)
        refine ⟨c.key :: ks, ?_, ?_, ?_⟩
        · rw [h1, List.reverse_cons, List.append_assoc]; rfl
        · rw [h2, removeEntry_entries' st c.key]
          exact filter_erase_contains (fun e : Entry => e.key) st.entries c.key ks
        · rw [h3, removeEntry_dir st c.key h]
          exact filter_erase_contains (fun d : DirEnt => d.key) st.dir c.key ks

/-- an eviction pass removes exactly the keys it reports. -/
theorem evict_removed (st : St) (limit : Int) (skip : Nat → Bool) (h : Inv st) :
    (evict st limit skip).1.entries =
        st.entries.filter (fun e => !(evict st limit skip).2.contains e.key) ∧
      (evict st limit skip).1.dir = st.dir.filter (fun d => !(evict st limit skip).2.contains d.key) := by
  obtain ⟨ks, h1, h2, h3⟩ :=
    evictLoop_removed (target limit) skip (sortDesc st.now st.entries) st [] h
  rw [evict_snd, h1]
  exact ⟨h2, h3⟩

theorem memPre_removed (st : St) (k : Nat) (h : Inv st) :
    (memPre st k).1.entries = st.entries.filter (fun e => !(memPre st k).2.contains e.key) ∧
      (memPre st k).1.dir = st.dir.filter (fun d => !(memPre st k).2.contains d.key) := by
  unfold memPre
  split
  · exact evict_removed _ _ _ h
  · exact ⟨(filter_not_contains_nil (fun e : Entry => e.key) _).symm,
      (filter_not_contains_nil (fun d : DirEnt => d.key) _).symm⟩

theorem filePre_removed (st : St) (h : Inv st) :
    (filePre st).1.entries = st.entries.filter (fun e => !(filePre st).2.contains e.key) ∧
      (filePre st).1.dir = st.dir.filter (fun d => !(filePre st).2.contains d.key) := by
  unfold filePre
  split
  · exact evict_removed _ _ _ h
  · exact ⟨(filter_not_contains_nil (fun e : Entry => e.key) _).symm,
      (filter_not_contains_nil (fun d : DirEnt => d.key) _).symm⟩

theorem memStore_failed (st : St) (k ver size : Nat) (exp : Int) (f : Fault)
    (hres : (memStore st k ver size exp f).2.1 ≠ .ok) :
    (memStore st k ver size exp f).1 = (memPre st k).1 ∧
      (memStore st k ver size exp f).2.2 = (memPre st k).2 := by
  rw [memStore_eq] at hres ⊢
  by_cases hc : (memPre st k).1.byteSize ≥ min st.limit st.memCap
  · rw [if_pos hc]; exact ⟨rfl, rfl⟩
  · rw [if_neg hc] at hres ⊢
    cases f with
    | srcErr => exact ⟨rfl, rfl⟩
    | none => exact absurd rfl hres
    | createErr => exact absurd rfl hres
    | renameErr => exact absurd rfl hres

theorem fileStore_failed (st : St) (k ver size : Nat) (exp : Int) (f : Fault)
    (hres : (fileStore st k ver size exp f).2.1 ≠ .ok) :
    (fileStore st k ver size exp f).1 = (filePre st).1 ∧
      (fileStore st k ver size exp f).2.2 = (filePre st).2 := by
  rw [fileStore_eq] at hres ⊢
  cases f with
  | createErr => exact ⟨rfl, rfl⟩
  | srcErr => exact ⟨rfl, rfl⟩
  | renameErr =>
    cases size with
    | zero => exact ⟨rfl, rfl⟩
    | succ n => exact ⟨rfl, rfl⟩
  | none =>
    cases size with
    | zero => exact ⟨rfl, rfl⟩
    | succ n => exact absurd rfl hres

theorem failed_store_invisible (st : St) (k ver size : Nat) (exp : Int) (f : Fault) (h : Inv st)
    (hres : (store st k ver size exp f).2.1 ≠ .ok) :
    let r := store st k ver size exp f
    r.1.entries = st.entries.filter (fun e => !r.2.2.contains e.key) ∧
    r.1.dir = st.dir.filter (fun d => !r.2.2.contains d.key) := by
  show (store st k ver size exp f).1.entries =
      st.entries.filter (fun e => !(store st k ver size exp f).2.2.contains e.key) ∧
    (store st k ver size exp f).1.dir =
      st.dir.filter (fun d => !(store st k ver size exp f).2.2.contains d.key)
  unfold store at hres ⊢
  cases hb : st.backend with
  | mem =>
    rw [hb] at hres
    obtain ⟨h1, h2⟩ := memStore_failed st k ver size exp f hres
    show (memStore st k ver size exp f).1.entries = _ ∧ (memStore st k ver size exp f).1.dir = _
    rw [h1]
    show _ = st.entries.filter (fun e => !(memStore st k ver size exp f).2.2.contains e.key) ∧
      _ = st.dir.filter (fun d => !(memStore st k ver size exp f).2.2.contains d.key)
    rw [h2]
    exact memPre_removed st k h
  | file =>
    rw [hb] at hres
    obtain ⟨h1, h2⟩ := fileStore_failed st k ver size exp f hres
    show (fileStore st k ver size exp f).1.entries = _ ∧ (fileStore st k ver size exp f).1.dir = _
    rw [h1]
    show _ = st.entries.filter (fun e => !(fileStore st k ver size exp f).2.2.contains e.key) ∧
      _ = st.dir.filter (fun d => !(fileStore st k ver size exp f).2.2.contains d.key)
    rw [h2]
    exact filePre_removed st h

/-! ### `get`: the four outcomes -/

theorem get_of_none {st : St} {k : Nat} (hl : lookup st.entries k = none) :
    get st k = (st, { res := .notFound }) := by
  unfold Store.get
  rw [hl]

theorem get_of_mem {st : St} {k : Nat} {e : Entry} (hl : lookup st.entries k = some e)
    (hb : st.backend = .mem) :
    get st k = ((openHandle (touch st k (fun x => { x with lastAccess := st.now })) e.ver e.size).1,
      { res := .ok, ver := e.ver, size := e.size, stale := decide (e.expires < st.now),
        handle := st.nextHandle }) := by
  unfold Store.get
  rw [hl]
  dsimp only
  rw [hb]
  rfl

theorem get_of_file_none {st : St} {k : Nat} {e : Entry} (hl : lookup st.entries k = some e)
    (hb : st.backend = .file) (hd : dirLookup st.dir k = none) :
    get st k = (st, { res := .readErr }) := by
  unfold Store.get
  rw [hl]
  dsimp only
  rw [hb]
  dsimp only
  rw [hd]

theorem get_of_file_some {st : St} {k : Nat} {e : Entry} {f : DirEnt}
    (hl : lookup st.entries k = some e) (hb : st.backend = .file) (hd : dirLookup st.dir k = some f) :
    get st k = ((openHandle (touch st k (fun x => { x with lastAccess := st.now })) f.ver f.size).1,
      { res := .ok, ver := e.ver, size := e.size, stale := decide (e.expires < st.now),
        handle := st.nextHandle }) := by
  unfold Store.get
  rw [hl]
  dsimp only
  rw [hb]
  dsimp only
  rw [hd]
  rfl

/-! ### C01: get / store / delete -/

theorem get_matches_entry (st : St) (k : Nat) (h : Inv st) (hok : (get st k).2.res = .ok) :
    ∃ e ∈ st.entries, e.key = k ∧ (get st k).2.ver = e.ver ∧ (get st k).2.size = e.size ∧
      ∃ hd ∈ (get st k).1.handles, hd.id = (get st k).2.handle ∧ hd.ver = e.ver ∧
        hd.size = e.size ∧ hd.pos = 0 := by
  cases hl : lookup st.entries k with
  | none => rw [get_of_none hl] at hok; cases hok
  | some e =>
    have hm := lookup_mem hl
    cases hb : st.backend with
    | mem =>
      rw [get_of_mem hl hb]
      exact ⟨e, hm.1, hm.2, rfl, rfl, _, List.mem_cons_self, rfl, rfl, rfl, rfl⟩
    | file =>
      have hk := h.dirFile hb k
      rw [hl] at hk
      cases hd : dirLookup st.dir k with
      | none => rw [get_of_file_none hl hb hd] at hok; cases hok
      | some f =>
        rw [hd] at hk
        have hfe := Prod.mk.inj (Option.some.inj hk)
        rw [get_of_file_some hl hb hd]
        exact ⟨e, hm.1, hm.2, rfl, rfl, _, List.mem_cons_self, rfl, hfe.1, hfe.2, rfl⟩

/-- a `Get` of a key whose metadata is `e` (and, on the file backend, whose file
    exists) succeeds and reports `e`. -/
theorem get_ok_of {st : St} {k : Nat} {e : Entry} (hl : lookup st.entries k = some e)
    (hd : st.backend = .file → ∃ f, dirLookup st.dir k = some f) :
    (get st k).2.res = .ok ∧ (get st k).2.ver = e.ver ∧ (get st k).2.size = e.size := by
  cases hb : st.backend with
  | mem => rw [get_of_mem hl hb]; exact ⟨rfl, rfl, rfl⟩
  | file =>
    obtain ⟨f, hf⟩ := hd hb
    rw [get_of_file_some hl hb hf]; exact ⟨rfl, rfl, rfl⟩

theorem get_after_store (st : St) (k ver size : Nat) (exp : Int) (_h : Inv st)
    (hok : (store st k ver size exp .none).2.1 = .ok) :
    let st' := (store st k ver size exp .none).1
    (get st' k).2.res = .ok ∧ (get st' k).2.ver = ver ∧ (get st' k).2.size = size := by
  show (get (store st k ver size exp .none).1 k).2.res = .ok ∧
    (get (store st k ver size exp .none).1 k).2.ver = ver ∧
    (get (store st k ver size exp .none).1 k).2.size = size
  unfold store at hok ⊢
  cases hb : st.backend with
  | mem =>
    rw [hb] at hok
    show (get (memStore st k ver size exp .none).1 k).2.res = .ok ∧
      (get (memStore st k ver size exp .none).1 k).2.ver = ver ∧
      (get (memStore st k ver size exp .none).1 k).2.size = size
    rw [memStore_eq] at hok ⊢
    by_cases hc : (memPre st k).1.byteSize ≥ min st.limit st.memCap
    · rw [if_pos hc] at hok; cases hok
    · rw [if_neg hc]
      have hl : lookup (publish (memPre st k).1 (newEntry (memPre st k).1 k ver size exp)).entries k
          = some (newEntry (memPre st k).1 k ver size exp) := by
        rw [publish_entries]
        exact lookup_cons_self (newEntry (memPre st k).1 k ver size exp) _
      refine get_ok_of hl ?_
      intro hf
      rw [publish_backend, memPre_backend, hb] at hf
      cases hf
  | file =>
    rw [hb] at hok
    show (get (fileStore st k ver size exp .none).1 k).2.res = .ok ∧
      (get (fileStore st k ver size exp .none).1 k).2.ver = ver ∧
      (get (fileStore st k ver size exp .none).1 k).2.size = size
    rw [fileStore_eq] at hok ⊢
    cases size with
    | zero => cases hok
    | succ n =>
      have hl : lookup (publish { (filePre st).1 with
                dir := { key := k, ver := ver, size := n + 1 } :: dirErase (filePre st).1.dir k }
              (newEntry { (filePre st).1 with
                dir := { key := k, ver := ver, size := n + 1 } :: dirErase (filePre st).1.dir k }
                k ver (n + 1) exp)).entries k
          = some (newEntry { (filePre st).1 with
                dir := { key := k, ver := ver, size := n + 1 } :: dirErase (filePre st).1.dir k }
                k ver (n + 1) exp) := by
        rw [publish_entries]
        exact lookup_cons_self (newEntry _ k ver (n + 1) exp) _
      refine get_ok_of hl ?_
      intro _
      rw [publish_dir]
      exact ⟨_, dirLookup_cons_self { key := k, ver := ver, size := n + 1 } _⟩

theorem get_after_delete (st : St) (k : Nat) (_h : Inv st) :
    (get (delete st k).1 k).2.res = .notFound := by
  have hl : lookup (delete st k).1.entries k = none := by
    show lookup (removeEntry st k).1.entries k = none
    rw [removeEntry_entries', lookup_erase_self]
  rw [get_of_none hl]

/-! ### C01: other keys -/

theorem evictLoop_acc_mem (tgt : Int) (skip : Nat → Bool) :
    ∀ (cs : List Entry) (st : St) (acc : List Nat) (x : Nat), x ∈ acc →
      x ∈ (evictLoop tgt skip cs st acc).2
  | [], _, _, _, hx => List.mem_reverse.2 hx
  | c :: cs, st, acc, x, hx => by
    unfold evictLoop
    split
    · exact List.mem_reverse.2 hx
    · split
      · exact evictLoop_acc_mem tgt skip cs st acc x hx
      · exact evictLoop_acc_mem tgt skip cs _ _ x (List.mem_cons_of_mem _ hx)

theorem evictLoop_lookup (tgt : Int) (skip : Nat → Bool) (k' : Nat) :
    ∀ (cs : List Entry) (st : St) (acc : List Nat), k' ∉ (evictLoop tgt skip cs st acc).2 →
      lookup (evictLoop tgt skip cs st acc).1.entries k' = lookup st.entries k'
  | [], _, _, _ => rfl
  | c :: cs, st, acc, hk => by
    unfold evictLoop at hk ⊢
    split
    · rfl
    · next hgt =>
      rw [if_neg hgt] at hk
      split
      · next hs =>
        rw [if_pos hs] at hk
        exact evictLoop_lookup tgt skip k' cs st acc hk
      · next hs =>
        rw [if_neg hs] at hk
        have hne : k' ≠ c.key := by
          intro e
          exact hk (evictLoop_acc_mem tgt skip cs _ _ k' (by rw [e]; exact List.mem_cons_self))
        rw [evictLoop_lookup tgt skip k' cs _ _ hk, removeEntry_entries', lookup_erase_ne _ hne]

theorem evict_lookup (st : St) (limit : Int) (skip : Nat → Bool) (k' : Nat)
    (hk : k' ∉ (evict st limit skip).2) :
    lookup (evict st limit skip).1.entries k' = lookup st.entries k' := by
  rw [evict_snd] at hk
  rw [evict_fst]
  exact evictLoop_lookup _ _ k' _ _ _ hk

theorem memPre_lookup (st : St) (k k' : Nat) (hk : k' ∉ (memPre st k).2) :
    lookup (memPre st k).1.entries k' = lookup st.entries k' := by
  unfold memPre at hk ⊢
  split
  · next hc => rw [if_pos hc] at hk; exact evict_lookup _ _ _ k' hk
  · rfl

theorem filePre_lookup (st : St) (k' : Nat) (hk : k' ∉ (filePre st).2) :
    lookup (filePre st).1.entries k' = lookup st.entries k' := by
  unfold filePre at hk ⊢
  split
  · next hc => rw [if_pos hc] at hk; exact evict_lookup _ _ _ k' hk
  · rfl

theorem publish_lookup_ne (st : St) (e : Entry) {k' : Nat} (hne : k' ≠ e.key) :
    lookup (publish st e).entries k' = lookup st.entries k' := by
  rw [publish_entries, lookup_cons_ne e _ (fun e' => hne e'.symm), lookup_erase_ne _ hne]

theorem memStore_other (st : St) (k k' ver size : Nat) (exp : Int) (f : Fault) (hne : k' ≠ k) :
    lookup (memStore st k ver size exp f).1.entries k' = lookup (memPre st k).1.entries k' ∧
      (memStore st k ver size exp f).2.2 = (memPre st k).2 := by
  rw [memStore_eq]
  by_cases hc : (memPre st k).1.byteSize ≥ min st.limit st.memCap
  · rw [if_pos hc]; exact ⟨rfl, rfl⟩
  · rw [if_neg hc]
    cases f with
    | srcErr => exact ⟨rfl, rfl⟩
    | none => exact ⟨publish_lookup_ne _ (newEntry (memPre st k).1 k ver size exp) hne, rfl⟩
    | createErr => exact ⟨publish_lookup_ne _ (newEntry (memPre st k).1 k ver size exp) hne, rfl⟩
    | renameErr => exact ⟨publish_lookup_ne _ (newEntry (memPre st k).1 k ver size exp) hne, rfl⟩

theorem fileStore_other (st : St) (k k' ver size : Nat) (exp : Int) (f : Fault) (hne : k' ≠ k) :
    lookup (fileStore st k ver size exp f).1.entries k' = lookup (filePre st).1.entries k' ∧
      (fileStore st k ver size exp f).2.2 = (filePre st).2 := by
  rw [fileStore_eq]
  cases f with
  | createErr => exact ⟨rfl, rfl⟩
  | srcErr => exact ⟨rfl, rfl⟩
  | renameErr =>
    cases size with
    | zero => exact ⟨rfl, rfl⟩
    | succ n => exact ⟨rfl, rfl⟩
  | none =>
    cases size with
    | zero => exact ⟨rfl, rfl⟩
    | succ n =>
      exact ⟨publish_lookup_ne _ (newEntry { (filePre st).1 with
                dir := { key := k, ver := ver, size := n + 1 } :: dirErase (filePre st).1.dir k }
                k ver (n + 1) exp) hne, rfl⟩

theorem store_other_keys_untouched (st : St) (k k' ver size : Nat) (exp : Int) (f : Fault)
    (hne : k' ≠ k) (hev : k' ∉ (store st k ver size exp f).2.2) :
    lookup (store st k ver size exp f).1.entries k' = lookup st.entries k' := by
  unfold store at hev ⊢
  cases hb : st.backend with
  | mem =>
    rw [hb] at hev
    obtain ⟨h1, h2⟩ := memStore_other st k k' ver size exp f hne
    have hev' : k' ∉ (memStore st k ver size exp f).2.2 := hev
    rw [h2] at hev'
    show lookup (memStore st k ver size exp f).1.entries k' = _
    rw [h1, memPre_lookup st k k' hev']
  | file =>
    rw [hb] at hev
    obtain ⟨h1, h2⟩ := fileStore_other st k k' ver size exp f hne
    have hev' : k' ∉ (fileStore st k ver size exp f).2.2 := hev
    rw [h2] at hev'
    show lookup (fileStore st k ver size exp f).1.entries k' = _
    rw [h1, filePre_lookup st k' hev']

/-! ### handles: which operations leave them alone -/

/-- `st'` has the same handle table as `st`. -/
def SameH (st st' : St) : Prop := st'.handles = st.handles ∧ st'.nextHandle = st.nextHandle

theorem SameH.refl (st : St) : SameH st st := ⟨rfl, rfl⟩

theorem SameH.trans {a b c : St} (h1 : SameH a b) (h2 : SameH b c) : SameH a c :=
  ⟨h2.1.trans h1.1, h2.2.trans h1.2⟩

theorem removeEntry_sameH (st : St) (k : Nat) : SameH st (removeEntry st k).1 := by
  unfold removeEntry memRemove fileRemove
  split
  · split <;> exact ⟨rfl, rfl⟩
  · split <;> exact ⟨rfl, rfl⟩

theorem evictLoop_sameH (tgt : Int) (skip : Nat → Bool) :
    ∀ (cs : List Entry) (st : St) (acc : List Nat), SameH st (evictLoop tgt skip cs st acc).1
  | [], st, _ => SameH.refl st
  | c :: cs, st, acc => by
    unfold evictLoop
    split
    · exact SameH.refl st
    · split
      · exact evictLoop_sameH tgt skip cs st acc
      · exact (removeEntry_sameH st c.key).trans (evictLoop_sameH tgt skip cs _ _)

theorem evict_sameH (st : St) (limit : Int) (skip : Nat → Bool) : SameH st (evict st limit skip).1 := by
  rw [evict_fst]
  have h := evictLoop_sameH (target limit) skip (sortDesc st.now st.entries) st []
  exact ⟨h.1, h.2⟩

theorem ensure_sameH (st : St) : SameH st (ensure st).1 := by
  unfold ensure
  split
  · exact SameH.refl st
  · exact evict_sameH _ _ _

theorem publish_sameH (st : St) (e : Entry) : SameH st (publish st e) := by
  unfold publish
  split <;> exact ⟨rfl, rfl⟩

theorem memPre_sameH (st : St) (k : Nat) : SameH st (memPre st k).1 := by
  unfold memPre
  split
  · exact evict_sameH _ _ _
  · exact SameH.refl st

theorem filePre_sameH (st : St) : SameH st (filePre st).1 := by
  unfold filePre
  split
  · exact evict_sameH _ _ _
  · exact SameH.refl st

theorem memStore_sameH (st : St) (k ver size : Nat) (exp : Int) (f : Fault) :
    SameH st (memStore st k ver size exp f).1 := by
  rw [memStore_eq]
  split
  · exact memPre_sameH st k
  · split
    · exact memPre_sameH st k
    · exact (memPre_sameH st k).trans (publish_sameH _ _)

theorem fileStore_sameH (st : St) (k ver size : Nat) (exp : Int) (f : Fault) :
    SameH st (fileStore st k ver size exp f).1 := by
  have h1 := filePre_sameH st
  rw [fileStore_eq]
  split
  · exact h1
  · exact h1
  · split <;> exact h1
  · split
    · exact h1
    · have h2 : SameH st { (filePre st).1 with
          dir := { key := k, ver := ver, size := size } :: dirErase (filePre st).1.dir k } :=
        ⟨h1.1, h1.2⟩
      exact h2.trans (publish_sameH _ _)

theorem store_sameH (st : St) (k ver size : Nat) (exp : Int) (f : Fault) :
    SameH st (store st k ver size exp f).1 := by
  unfold store
  split
  · exact memStore_sameH st k ver size exp f
  · exact fileStore_sameH st k ver size exp f

theorem touch_sameH (st : St) (k : Nat) (f : Entry → Entry) : SameH st (touch st k f) := ⟨rfl, rfl⟩

theorem getMeta_sameH (st : St) (k : Nat) : SameH st (getMeta st k).1 := by
  unfold getMeta
  split <;> exact ⟨rfl, rfl⟩

theorem update_sameH (st : St) (k : Nat) (x : Int) : SameH st (update st k x).1 := by
  unfold update
  split <;> exact ⟨rfl, rfl⟩

theorem delete_sameH (st : St) (k : Nat) : SameH st (delete st k).1 := removeEntry_sameH st k

theorem cleanLoop_sameH :
    ∀ (ks : List Nat) (st : St) (acc : List Nat), SameH st (cleanLoop ks st acc).1
  | [], st, _ => SameH.refl st
  | k :: ks, st, acc => by
    unfold cleanLoop
    split
    · exact cleanLoop_sameH ks st acc
    · split
      · exact (removeEntry_sameH st k).trans (cleanLoop_sameH ks _ _)
      · exact cleanLoop_sameH ks st acc

theorem cleanRemove_sameH (st : St) (scanned : List Nat) : SameH st (cleanRemove st scanned).1 := by
  rw [cleanRemove_fst]
  have h := cleanLoop_sameH scanned st []
  exact ⟨h.1, h.2⟩

/-- `Get` either leaves the state alone or opens one fresh handle on the touched state. -/
theorem get_state_cases (st : St) (k : Nat) :
    (get st k).1 = st ∨
      ∃ ver size, (get st k).1 =
        (openHandle (touch st k (fun x => { x with lastAccess := st.now })) ver size).1 := by
  cases hl : lookup st.entries k with
  | none => rw [get_of_none hl]; exact Or.inl rfl
  | some e =>
    cases hb : st.backend with
    | mem => rw [get_of_mem hl hb]; exact Or.inr ⟨_, _, rfl⟩
    | file =>
      cases hd : dirLookup st.dir k with
      | none => rw [get_of_file_none hl hb hd]; exact Or.inl rfl
      | some f => rw [get_of_file_some hl hb hd]; exact Or.inr ⟨_, _, rfl⟩

/-! ### handles: pinning -/

/-- handle ids are below the allocation counter and pairwise distinct. -/
def HGood (st : St) : Prop :=
  (∀ x ∈ st.handles, x.id < st.nextHandle) ∧ st.handles.Pairwise (fun a b => a.id ≠ b.id)

/-- the handle `hd` is still open, on the same body, at a position between its
    old one and the length. -/
def Pinned (hd : Handle) (st : St) : Prop :=
  ∃ hd' ∈ st.handles, hd'.id = hd.id ∧ hd'.ver = hd.ver ∧ hd'.size = hd.size ∧
    hd.pos ≤ hd'.pos ∧ hd'.pos ≤ hd.size

def Pin (hd : Handle) (st : St) : Prop := HGood st ∧ Pinned hd st

theorem Pin.sameH {hd : Handle} {st st' : St} (hs : SameH st st') (h : Pin hd st) : Pin hd st' := by
  unfold Pin HGood Pinned at *
  rw [hs.1, hs.2]
  exact h

theorem Pin_open {hd : Handle} (st : St) (ver size : Nat) (h : Pin hd st) :
    Pin hd (openHandle st ver size).1 := by
  obtain ⟨⟨hfresh, huniq⟩, hd', hmem, hrest⟩ := h
  refine ⟨⟨?_, ?_⟩, hd', List.mem_cons_of_mem _ hmem, hrest⟩
  · intro x hx
    show x.id < st.nextHandle + 1
    rcases List.mem_cons.1 hx with rfl | hx'
    · exact Nat.lt_succ_self _
    · exact Nat.lt_succ_of_lt (hfresh x hx')
  · show List.Pairwise _ (_ :: st.handles)
    rw [List.pairwise_cons]
    refine ⟨?_, huniq⟩
    intro b hb
    have := hfresh b hb
    show st.nextHandle ≠ b.id
    omega

theorem Pin_get {hd : Handle} (st : St) (k : Nat) (h : Pin hd st) : Pin hd (get st k).1 := by
  rcases get_state_cases st k with e | ⟨ver, size, e⟩
  · rw [e]; exact h
  · rw [e]; exact Pin_open _ _ _ (h.sameH (touch_sameH st k _))

/-- what `read` does to one handle. -/
def bump (h len : Nat) (x : Handle) : Handle :=
  if x.id = h then { x with pos := x.pos + len } else x

theorem bump_of_eq {h len : Nat} {x : Handle} (e : x.id = h) :
    bump h len x = { x with pos := x.pos + len } := by
  unfold bump; rw [if_pos e]

theorem bump_of_ne {h len : Nat} {x : Handle} (e : x.id ≠ h) : bump h len x = x := by
  unfold bump; rw [if_neg e]

theorem bump_id (h len : Nat) (x : Handle) : (bump h len x).id = x.id := by
  by_cases e : x.id = h
  · rw [bump_of_eq e]
  · rw [bump_of_ne e]

theorem bump_ver (h len : Nat) (x : Handle) : (bump h len x).ver = x.ver := by
  by_cases e : x.id = h
  · rw [bump_of_eq e]
  · rw [bump_of_ne e]

theorem bump_size (h len : Nat) (x : Handle) : (bump h len x).size = x.size := by
  by_cases e : x.id = h
  · rw [bump_of_eq e]
  · rw [bump_of_ne e]

theorem Pin_read {hd : Handle} (st : St) (h n : Nat) (hp : Pin hd st) : Pin hd (read st h n).1 := by
  unfold Store.read
  cases hf : st.handles.find? (·.id = h) with
  | none => exact hp
  | some h0 =>
    obtain ⟨⟨hfresh, huniq⟩, hd', hmem, hid, hver, hsize, hlo, hhi⟩ := hp
    have h0mem : h0 ∈ st.handles := List.mem_of_find?_eq_some hf
    have h0id : h0.id = h := by simpa using List.find?_some hf
    show Pin hd { st with handles := st.handles.map (bump h (min n (h0.size - h0.pos))) }
    refine ⟨⟨?_, ?_⟩, bump h (min n (h0.size - h0.pos)) hd', List.mem_map.2 ⟨hd', hmem, rfl⟩, ?_⟩
    · intro x hx
      obtain ⟨y, hy, rfl⟩ := List.mem_map.1 hx
      rw [bump_id]
      exact hfresh y hy
    · show List.Pairwise _ (st.handles.map _)
      rw [List.pairwise_map]
      exact huniq.imp (fun {a b} hab => by rw [bump_id, bump_id]; exact hab)
    · rw [bump_id, bump_ver, bump_size]
      refine ⟨hid, hver, hsize, ?_⟩
      by_cases e : hd'.id = h
      · have heq : h0 = hd' :=
          eq_of_mem_of_key_eq (fun x : Handle => x.id) huniq h0mem hmem (h0id.trans e.symm)
        subst heq
        rw [bump_of_eq e]
        show hd.pos ≤ h0.pos + min n (h0.size - h0.pos) ∧ h0.pos + min n (h0.size - h0.pos) ≤ hd.size
        omega
      · rw [bump_of_ne e]
        exact ⟨hlo, hhi⟩

theorem Pin_close {hd : Handle} (st : St) (h : Nat) (hne : h ≠ hd.id) (hp : Pin hd st) :
    Pin hd (close st h) := by
  obtain ⟨⟨hfresh, huniq⟩, hd', hmem, hid, hrest⟩ := hp
  refine ⟨⟨?_, huniq.filter _⟩, hd', ?_, hid, hrest⟩
  · intro x hx
    exact hfresh x (List.mem_filter.1 hx).1
  · show hd' ∈ st.handles.filter _
    refine List.mem_filter.2 ⟨hmem, ?_⟩
    have : hd'.id ≠ h := by rw [hid]; exact fun e => hne e.symm
    simpa using this

theorem Pin_midStep {hd : Handle} (st : St) (op : MidOp) (hp : Pin hd st) : Pin hd (midStep st op) := by
  cases op with
  | store k ver size ttl f => exact hp.sameH (store_sameH st k ver size _ f)
  | update k ttl => exact hp.sameH (update_sameH st k _)
  | delete k => exact hp.sameH (delete_sameH st k)
  | get k => exact Pin_get st k hp

theorem Pin_foldl_midStep {hd : Handle} :
    ∀ (mid : List MidOp) (st : St), Pin hd st → Pin hd (mid.foldl midStep st)
  | [], _, h => h
  | m :: ms, st, h => Pin_foldl_midStep ms _ (Pin_midStep st m h)

theorem Pin_step {hd : Handle} (st : St) (op : Op) (hc : op ≠ .close hd.id) (hr : op ≠ .reopen)
    (hp : Pin hd st) : Pin hd (step st op) := by
  cases op with
  | store k ver size ttl f => exact hp.sameH (store_sameH st k ver size _ f)
  | get k => exact Pin_get st k hp
  | getMeta k => exact hp.sameH (getMeta_sameH st k)
  | update k ttl => exact hp.sameH (update_sameH st k _)
  | delete k => exact hp.sameH (delete_sameH st k)
  | read h n => exact Pin_read st h n hp
  | close h => exact Pin_close st h (fun e => hc (by rw [e])) hp
  | clean mid => exact (Pin_foldl_midStep mid st hp).sameH (cleanRemove_sameH _ _)
  | evict limit => exact hp.sameH (evict_sameH st limit _)
  | ensure => exact hp.sameH (ensure_sameH st)
  | shift d => exact hp.sameH ⟨rfl, rfl⟩
  | setLimit n => exact hp.sameH ⟨rfl, rfl⟩
  | reopen => exact absurd rfl hr

theorem Pin_run {hd : Handle} :
    ∀ (ops : List Op) (st : St), (∀ op ∈ ops, op ≠ .close hd.id ∧ op ≠ .reopen) → Pin hd st →
      Pin hd (run ops st)
  | [], _, _, h => h
  | op :: ops, st, hnc, h =>
    Pin_run ops _ (fun o ho => hnc o (List.mem_cons_of_mem _ ho))
      (Pin_step st op (hnc op List.mem_cons_self).1 (hnc op List.mem_cons_self).2 h)

theorem handle_pinned (st : St) (hd : Handle) (ops : List Op) (hin : hd ∈ st.handles)
    (hpos : hd.pos ≤ hd.size)
    (hfresh : ∀ x ∈ st.handles, x.id < st.nextHandle)
    (huniq : st.handles.Pairwise (fun a b => a.id ≠ b.id))
    (hnc : ∀ op ∈ ops, op ≠ .close hd.id ∧ op ≠ .reopen) :
    ∃ hd' ∈ (run ops st).handles, hd'.id = hd.id ∧ hd'.ver = hd.ver ∧ hd'.size = hd.size ∧
      hd.pos ≤ hd'.pos ∧ hd'.pos ≤ hd.size :=
  (Pin_run ops st hnc ⟨⟨hfresh, huniq⟩, hd, hin, rfl, rfl, rfl, Nat.le_refl _, hpos⟩).2

theorem read_is_next_slice (st : St) (h n : Nat) (hd : Handle)
    (hin : st.handles.find? (·.id = h) = some hd) (hpos : hd.pos ≤ hd.size) :
    (read st h n).2 = some (hd.ver, hd.pos, min n (hd.size - hd.pos)) ∧
    hd.pos + min n (hd.size - hd.pos) ≤ hd.size := by
  unfold Store.read
  rw [hin]
  exact ⟨rfl, by omega⟩

end Rv.Lemmas.StoreInv
