import Rv.Model.Locks
/-
  Rv.Lemmas.Locks — soundness of the static lock-discipline checker
  (`absRun` / `bodyOk` / `postFix`) for the path semantics `Exec`, and the
  state-level "rank discipline ⇒ no deadlocked set" argument.
-/
namespace Rv.Lemmas.Locks
open Rv.Locks

/-! ### `DiscPath` algebra -/

theorem discPath_nil : DiscPath [] := by
  intro e he; cases he

theorem discPath_single {e : Ev} (h : evOk e = true) : DiscPath [e] := by
  intro e' he
  cases he with
  | head => exact h
  | tail _ h' => cases h'

theorem discPath_append {a b : List Ev} (h1 : DiscPath a) (h2 : DiscPath b) : DiscPath (a ++ b) := by
  intro e he
  rcases List.mem_append.1 he with h | h
  · exact h1 e h
  · exact h2 e h

/-- the events of the deferred releases are releases. -/
theorem runDeferred_disc : ∀ (ds held h2 : List Held) (evs : List Ev),
    runDeferred held ds = some (h2, evs) → DiscPath evs := by
  intro ds
  induction ds with
  | nil =>
    intro held h2 evs h
    simp only [runDeferred, Option.some.injEq, Prod.mk.injEq] at h
    rw [← h.2]; exact discPath_nil
  | cons d ds ih =>
    intro held h2 evs h
    simp only [runDeferred] at h
    split at h
    · cases h
    · rename_i held' _
      split at h
      · cases h
      · rename_i h3 evs' hrd
        simp only [Option.some.injEq, Prod.mk.injEq] at h
        rw [← h.2]
        exact discPath_append (a := [_]) (discPath_single rfl) (ih _ _ _ hrd)

/-! ### tables -/

/-- a `true` claim of a post-fixpoint table is justified by `bodyOk`. -/
theorem bodyOk_of_postFix (facts : Facts) (l : List (String × List Held × Bool))
    (hpf : postFix facts l = true) (f : String) (held : List Held)
    (hT : ofList l f held = true) : bodyOk facts (ofList l) f held = true := by
  unfold ofList at hT
  split at hT
  · rename_i e hfind
    have hmem : e ∈ l := List.mem_of_find?_eq_some hfind
    have hp := List.find?_some hfind
    simp only [Bool.and_eq_true, decide_eq_true_eq] at hp
    unfold postFix at hpf
    have := List.all_eq_true.1 hpf e hmem
    rw [hT, hp.1, hp.2] at this
    simpa using this
  · cases hT

/-! ### `bindOuts` -/

/-- the folding step of `bindOuts`. -/
def step (f : TS → Outs) (keep : Exit → Bool) : Outs → TS × Exit → Outs :=
  fun (acc : Outs) (p : TS × Exit) =>
    match acc with
    | none => none
    | some l =>
      if keep p.2 then (match f p.1 with
        | none => none
        | some l2 => some (l ++ l2))
      else some (l ++ [p])

theorem bindOuts_eq (outs : List (TS × Exit)) (f : TS → Outs) (keep : Exit → Bool) :
    bindOuts (some outs) f keep = outs.foldl (step f keep) (some []) := rfl

theorem foldl_step_none (f : TS → Outs) (keep : Exit → Bool) :
    ∀ outs : List (TS × Exit), outs.foldl (step f keep) none = none := by
  intro outs
  induction outs with
  | nil => rfl
  | cons p ps ih => simpa [List.foldl, step] using ih

theorem foldl_step_some (f : TS → Outs) (keep : Exit → Bool) :
    ∀ (outs : List (TS × Exit)) (l0 res : List (TS × Exit)),
      outs.foldl (step f keep) (some l0) = some res →
      (∀ q ∈ l0, q ∈ res) ∧
      ∀ p ∈ outs, (keep p.2 = true → ∃ l2, f p.1 = some l2 ∧ ∀ q ∈ l2, q ∈ res) ∧
                  (keep p.2 = false → p ∈ res) := by
  intro outs
  induction outs with
  | nil =>
    intro l0 res h
    simp only [List.foldl, Option.some.injEq] at h
    subst h
    exact ⟨fun q hq => hq, fun p hp => by cases hp⟩
  | cons p ps ih =>
    intro l0 res h
    simp only [List.foldl] at h
    cases hk : keep p.2 with
    | true =>
      cases hf : f p.1 with
      | none =>
        have : step f keep (some l0) p = none := by simp [step, hk, hf]
        rw [this, foldl_step_none] at h
        cases h
      | some l2 =>
        have : step f keep (some l0) p = some (l0 ++ l2) := by simp [step, hk, hf]
        rw [this] at h
        have ⟨h0, hrest⟩ := ih _ _ h
        refine ⟨fun q hq => h0 q (List.mem_append_left _ hq), ?_⟩
        intro p' hp'
        rcases List.mem_cons.1 hp' with rfl | hp'
        · refine ⟨fun _ => ⟨l2, hf, fun q hq => h0 q (List.mem_append_right _ hq)⟩, ?_⟩
          intro hk'; rw [hk] at hk'; cases hk'
        · exact hrest p' hp'
    | false =>
      have : step f keep (some l0) p = some (l0 ++ [p]) := by simp [step, hk]
      rw [this] at h
      have ⟨h0, hrest⟩ := ih _ _ h
      refine ⟨fun q hq => h0 q (List.mem_append_left _ hq), ?_⟩
      intro p' hp'
      rcases List.mem_cons.1 hp' with rfl | hp'
      · refine ⟨?_, fun _ => h0 _ (List.mem_append_right _ (List.mem_singleton.2 rfl))⟩
        intro hk'; rw [hk] at hk'; cases hk'
      · exact hrest p' hp'

theorem bindOuts_some {o : Outs} {f : TS → Outs} {keep : Exit → Bool} {res : List (TS × Exit)}
    (h : bindOuts o f keep = some res) :
    ∃ outs, o = some outs ∧
      ∀ p ∈ outs, (keep p.2 = true → ∃ l2, f p.1 = some l2 ∧ ∀ q ∈ l2, q ∈ res) ∧
                  (keep p.2 = false → p ∈ res) := by
  cases o with
  | none => simp [bindOuts] at h
  | some outs =>
    rw [bindOuts_eq] at h
    exact ⟨outs, rfl, (foldl_step_some f keep outs [] res h).2⟩

/-! ### soundness of `absRun` for `Exec` -/

/-- the generalised invariant: whatever `Exec` can do from `ts`, `absRun`
    (relative to a post-fixpoint table) has foreseen, and the events are
    disciplined. -/
theorem absRun_sound (facts : Facts) (l : List (String × List Held × Bool))
    (hpf : postFix facts l = true)
    {c : String} {p : Prog} {ts : TS} {evs : List Ev} {ts' : TS} {ex : Exit}
    (hex : Exec facts c p ts evs ts' ex) :
    ∀ outs, absRun facts (ofList l) c p ts = some outs → DiscPath evs ∧ (ts', ex) ∈ outs := by
  induction hex with
  | skip =>
    intro outs h
    simp only [absRun, Option.some.injEq] at h
    subst h
    exact ⟨discPath_nil, List.mem_singleton.2 rfl⟩
  | lock =>
    intro outs h
    simp only [absRun] at h
    split at h
    · rename_i hok
      simp only [Option.some.injEq] at h
      subst h
      exact ⟨discPath_single hok, List.mem_singleton.2 rfl⟩
    · cases h
  | rlock =>
    intro outs h
    simp only [absRun] at h
    split at h
    · rename_i hok
      simp only [Option.some.injEq] at h
      subst h
      exact ⟨discPath_single hok, List.mem_singleton.2 rfl⟩
    · cases h
  | tryAcq =>
    intro outs h
    simp only [absRun] at h
    split at h
    · rename_i hok
      simp only [Option.some.injEq] at h
      subst h
      exact ⟨discPath_single hok, List.mem_singleton.2 rfl⟩
    · cases h
  | unlock hrm =>
    intro outs h
    simp only [absRun, hrm, Option.map_some, Option.some.injEq] at h
    subst h
    exact ⟨discPath_single rfl, List.mem_singleton.2 rfl⟩
  | runlock hrm =>
    intro outs h
    simp only [absRun, hrm, Option.map_some, Option.some.injEq] at h
    subst h
    exact ⟨discPath_single rfl, List.mem_singleton.2 rfl⟩
  | deferUnlock =>
    intro outs h
    simp only [absRun, Option.some.injEq] at h
    subst h
    exact ⟨discPath_nil, List.mem_singleton.2 rfl⟩
  | deferRUnlock =>
    intro outs h
    simp only [absRun, Option.some.injEq] at h
    subst h
    exact ⟨discPath_nil, List.mem_singleton.2 rfl⟩
  | callLeaf hres =>
    intro outs h
    simp only [absRun, hres, Option.some.injEq] at h
    subst h
    exact ⟨discPath_nil, List.mem_singleton.2 rfl⟩
  | callIo hres =>
    intro outs h
    simp only [absRun, hres] at h
    split at h
    · rename_i hok
      simp only [Option.some.injEq] at h
      subst h
      exact ⟨discPath_single hok, List.mem_singleton.2 rfl⟩
    · cases h
  | callCallback hres =>
    intro outs h
    simp only [absRun, hres] at h
    split at h
    · rename_i hok
      simp only [Option.some.injEq] at h
      subst h
      exact ⟨discPath_single hok, List.mem_singleton.2 rfl⟩
    · cases h
  | callFn hres hmem hlk hsub hexit hrd ih =>
    intro outs h
    simp only [absRun, hres] at h
    split at h
    · rename_i hall
      simp only [Option.some.injEq] at h
      subst h
      have hf := List.all_eq_true.1 hall _ hmem
      simp only [Bool.and_eq_true] at hf
      have hbody := bodyOk_of_postFix facts l hpf _ _ hf.2
      unfold bodyOk at hbody
      rw [hlk] at hbody
      simp only at hbody
      split at hbody
      · cases hbody
      · rename_i outs' habs
        have ⟨hdisc, hin⟩ := ih outs' habs
        have hp := List.all_eq_true.1 hbody _ hin
        simp only [Bool.and_eq_true] at hp
        have hp2 := hp.2
        rw [hrd] at hp2
        simp only [decide_eq_true_eq] at hp2
        subst hp2
        exact ⟨discPath_append hdisc (runDeferred_disc _ _ _ _ hrd), List.mem_singleton.2 rfl⟩
    · cases h
  | chanSend =>
    intro outs h
    simp only [absRun] at h
    split at h
    · rename_i hok
      simp only [Option.some.injEq] at h
      subst h
      exact ⟨discPath_single hok, List.mem_singleton.2 rfl⟩
    · cases h
  | chanRecv =>
    intro outs h
    simp only [absRun] at h
    split at h
    · rename_i hok
      simp only [Option.some.injEq] at h
      subst h
      exact ⟨discPath_single hok, List.mem_singleton.2 rfl⟩
    · cases h
  | chanClose =>
    intro outs h
    simp only [absRun, Option.some.injEq] at h
    subst h
    exact ⟨discPath_nil, List.mem_singleton.2 rfl⟩
  | go =>
    intro outs h
    simp only [absRun, Option.some.injEq] at h
    subst h
    exact ⟨discPath_nil, List.mem_singleton.2 rfl⟩
  | access =>
    intro outs h
    simp only [absRun, Option.some.injEq] at h
    subst h
    exact ⟨discPath_nil, List.mem_singleton.2 rfl⟩
  | seqNormal _ _ iha ihb =>
    intro outs h
    simp only [absRun] at h
    have ⟨outsA, hA, hall⟩ := bindOuts_some h
    have ⟨hd1, hin1⟩ := iha outsA hA
    have ⟨l2, hB, hsub⟩ := (hall _ hin1).1 (by simp)
    have ⟨hd2, hin2⟩ := ihb l2 hB
    exact ⟨discPath_append hd1 hd2, hsub _ hin2⟩
  | seqExit _ hne iha =>
    intro outs h
    simp only [absRun] at h
    have ⟨outsA, hA, hall⟩ := bindOuts_some h
    have ⟨hd1, hin1⟩ := iha outsA hA
    exact ⟨hd1, (hall _ hin1).2 (by simpa using hne)⟩
  | altL _ iha =>
    intro outs h
    simp only [absRun] at h
    split at h
    · rename_i x y hx hy
      simp only [Option.some.injEq] at h
      subst h
      have ⟨hd, hin⟩ := iha x hx
      exact ⟨hd, List.mem_append_left _ hin⟩
    · cases h
  | altR _ ihb =>
    intro outs h
    simp only [absRun] at h
    split at h
    · rename_i x y hx hy
      simp only [Option.some.injEq] at h
      subst h
      have ⟨hd, hin⟩ := ihb y hy
      exact ⟨hd, List.mem_append_right _ hin⟩
    · cases h
  | loopDone =>
    intro outs h
    simp only [absRun] at h
    split at h
    · cases h
    · split at h
      · simp only [Option.some.injEq] at h
        subst h
        exact ⟨discPath_nil, List.mem_cons_self⟩
      · cases h
  | loopIter _ hexit _ ihb ihl =>
    intro outs h
    have h' := h
    simp only [absRun] at h'
    split at h'
    · cases h'
    · rename_i outsB hB
      split at h'
      · rename_i hneut
        have ⟨hd1, hin1⟩ := ihb outsB hB
        have hn := List.all_eq_true.1 hneut _ hin1
        simp only [Bool.or_eq_true, decide_eq_true_eq] at hn
        have hts : _ = _ := hn hexit
        subst hts
        have ⟨hd2, hin2⟩ := ihl outs h
        exact ⟨discPath_append hd1 hd2, hin2⟩
      · cases h'
  | loopBrk _ ihb =>
    intro outs h
    simp only [absRun] at h
    split at h
    · cases h
    · rename_i outsB hB
      split at h
      · simp only [Option.some.injEq] at h
        subst h
        have ⟨hd1, hin1⟩ := ihb outsB hB
        refine ⟨hd1, List.mem_cons_of_mem _ (List.mem_filterMap.2 ⟨_, hin1, rfl⟩)⟩
      · cases h
  | loopRet _ ihb =>
    intro outs h
    simp only [absRun] at h
    split at h
    · cases h
    · rename_i outsB hB
      split at h
      · simp only [Option.some.injEq] at h
        subst h
        have ⟨hd1, hin1⟩ := ihb outsB hB
        refine ⟨hd1, List.mem_cons_of_mem _ (List.mem_filterMap.2 ⟨_, hin1, rfl⟩)⟩
      · cases h
  | catchBrk _ ihp =>
    intro outs h
    simp only [absRun] at h
    cases hP : absRun facts (ofList l) _ _ _ with
    | none => rw [hP] at h; cases h
    | some outsP =>
      rw [hP] at h
      simp only [Option.map_some, Option.some.injEq] at h
      subst h
      have ⟨hd, hin⟩ := ihp outsP hP
      exact ⟨hd, List.mem_map.2 ⟨_, hin, rfl⟩⟩
  | ret =>
    intro outs h
    simp only [absRun, Option.some.injEq] at h
    subst h
    exact ⟨discPath_nil, List.mem_singleton.2 rfl⟩
  | brk =>
    intro outs h
    simp only [absRun, Option.some.injEq] at h
    subst h
    exact ⟨discPath_nil, List.mem_singleton.2 rfl⟩
  | cont =>
    intro outs h
    simp only [absRun, Option.some.injEq] at h
    subst h
    exact ⟨discPath_nil, List.mem_singleton.2 rfl⟩

/-- soundness of the static check for the path semantics. -/
theorem check_sound (facts : Facts) (l : List (String × List Held × Bool))
    (hpf : postFix facts l = true) (f : String) (held : List Held) (body : Prog)
    (hT : ofList l f held = true) (hb : lookupFn facts f = some body)
    (evs : List Ev) (ts' : TS) (ex : Exit)
    (hex : Exec facts f body { held := held, deferred := [] } evs ts' ex) :
    DiscPath evs ∧ (ex = .normal ∨ ex = .ret) ∧
      ∃ devs, runDeferred ts'.held ts'.deferred = some (held, devs) := by
  have hbody := bodyOk_of_postFix facts l hpf f held hT
  unfold bodyOk at hbody
  rw [hb] at hbody
  simp only at hbody
  split at hbody
  · cases hbody
  · rename_i outs habs
    have ⟨hdisc, hin⟩ := absRun_sound facts l hpf hex outs habs
    have hp := List.all_eq_true.1 hbody _ hin
    simp only [Bool.and_eq_true, Bool.or_eq_true, decide_eq_true_eq] at hp
    refine ⟨hdisc, hp.1, ?_⟩
    have hp2 := hp.2
    split at hp2
    · rename_i h devs hrd
      simp only [decide_eq_true_eq] at hp2
      subst hp2
      exact ⟨devs, hrd⟩
    · cases hp2

/-- every path of every accepted entry point is disciplined and lock-neutral. -/
theorem extracted_paths_disciplined (facts : Facts) (l : List (String × List Held × Bool))
    (hpf : postFix facts l = true) (eps : List String)
    (heps : eps.all (fun f => ofList l f []) = true)
    (f : String) (hf : f ∈ eps) (body : Prog)
    (hb : lookupFn facts f = some body) (evs : List Ev) (ts' : TS) (ex : Exit)
    (hex : Exec facts f body { held := [], deferred := [] } evs ts' ex) :
    DiscPath evs ∧ ∃ devs, runDeferred ts'.held ts'.deferred = some ([], devs) := by
  have hT : ofList l f [] = true := List.all_eq_true.1 heps f hf
  have h := check_sound facts l hpf f [] body hT hb evs ts' ex hex
  exact ⟨h.1, h.2.2⟩

/-! ### no deadlock -/

/-- a non-empty list has an element maximising a `Nat`-valued measure. -/
theorem exists_max {α : Type} (m : α → Nat) : ∀ (S : List α), S ≠ [] →
    ∃ t ∈ S, ∀ t' ∈ S, m t' ≤ m t := by
  intro S
  induction S with
  | nil => intro h; exact absurd rfl h
  | cons a as ih =>
    intro _
    cases as with
    | nil =>
      refine ⟨a, List.mem_singleton.2 rfl, ?_⟩
      intro t' ht'
      rw [List.mem_singleton.1 ht']
      exact Nat.le_refl _
    | cons b bs =>
      have ⟨t, ht, hmax⟩ := ih (by simp)
      by_cases hle : m a ≤ m t
      · refine ⟨t, List.mem_cons_of_mem _ ht, ?_⟩
        intro t' ht'
        rcases List.mem_cons.1 ht' with rfl | ht'
        · exact hle
        · exact hmax t' ht'
      · refine ⟨a, List.mem_cons_self, ?_⟩
        intro t' ht'
        rcases List.mem_cons.1 ht' with rfl | ht'
        · exact Nat.le_refl _
        · exact Nat.le_trans (hmax t' ht') (Nat.le_of_lt (Nat.lt_of_not_le hle))

/-- the rank of the lock a thread waits for (0 if none). -/
def waitRank {Thread : Type} (s : Sys Thread) (t : Thread) : Nat :=
  match s.waits t with
  | some l => (rank l.cls).getD 0
  | none => 0

/-- rank discipline ⇒ no deadlocked set. -/
theorem no_deadlock {Thread : Type} (s : Sys Thread) (hd : s.Disciplined) (S : List Thread) :
    ¬ s.Deadlocked S := by
  intro ⟨hne, hdl⟩
  have ⟨t, htS, hmax⟩ := exists_max (waitRank s) S hne
  have ⟨lk, hw, t', ht'S, hheld⟩ := hdl t htS
  have ⟨lk', hw', _⟩ := hdl t' ht'S
  have ⟨r, hr, _⟩ := hd t lk hw
  have ⟨r', hr', hlt⟩ := hd t' lk' hw'
  have ⟨rh, hrh, hlt'⟩ := hlt lk hheld
  have e1 : waitRank s t = r := by simp [waitRank, hw, hr]
  have e2 : waitRank s t' = r' := by simp [waitRank, hw', hr']
  have hle := hmax t' ht'S
  rw [e1, e2] at hle
  rw [hr] at hrh
  cases hrh
  exact absurd hlt' (Nat.not_lt.2 hle)

/-- progress form of `no_deadlock`. -/
theorem some_thread_can_move {Thread : Type} (s : Sys Thread) (hd : s.Disciplined) (S : List Thread)
    (hne : S ≠ []) (hblocked : ∀ t ∈ S, (s.waits t).isSome) :
    ∃ t ∈ S, ∃ l, s.waits t = some l ∧ ∀ t' ∈ S, l ∉ s.holds t' := by
  apply Classical.byContradiction
  intro hno
  apply no_deadlock s hd S
  refine ⟨hne, ?_⟩
  intro t ht
  have hb := hblocked t ht
  cases hw : s.waits t with
  | none => rw [hw] at hb; cases hb
  | some lk =>
    refine ⟨lk, rfl, ?_⟩
    apply Classical.byContradiction
    intro hnone
    apply hno
    refine ⟨t, ht, lk, hw, ?_⟩
    intro t' ht' hin
    exact hnone ⟨t', ht', hin⟩

end Rv.Lemmas.Locks
