import Rv.Model.CacheControl
import Rv.Spec.Freshness
/-
  Rv.Lemmas.CacheControl — helper lemmas and proofs for Props/C04a.

  Plan: `splitOn ',' (joinComma ls)` is the concatenation of the per-line
  splits, so the directive loop of the model runs over exactly the tokens of
  the specification.  One loop iteration is characterised by `maxAgeOf` /
  `isForbid` of the token (`tokStep_eq`), the whole loop by `forbids` and
  `positiveMaxAges` (`tokLoop_valid`, `tokLoop_some`).  The decision functions
  are then plain case analyses.
-/
namespace Rv.Lemmas.CacheControl
open Rv Rv.CacheControl Rv.Spec.Freshness

/-! ### splitOn / joinComma -/

theorem splitOn_ne_nil (sep : Char) : ∀ x : Str, splitOn sep x ≠ []
  | [] => by simp [splitOn]
  | c :: cs => by
      simp only [splitOn]
      split
      · simp
      · split <;> simp

theorem splitOn_append (sep : Char) (b : Str) :
    ∀ a : Str, splitOn sep (a ++ sep :: b) = splitOn sep a ++ splitOn sep b
  | [] => by simp [splitOn]
  | c :: a => by
      have ih := splitOn_append sep b a
      by_cases hc : c = sep
      · simp [splitOn, hc, ← ih]
      · simp only [List.cons_append, splitOn, hc, if_false, ih]
        cases hs : splitOn sep a with
        | nil => exact absurd hs (splitOn_ne_nil sep a)
        | cons h t => simp

theorem splitOn_joinComma :
    ∀ ls : List Str, ls ≠ [] → splitOn ',' (joinComma ls) = ls.flatMap (splitOn ',')
  | [], h => absurd rfl h
  | [a], _ => by simp [joinComma]
  | a :: b :: rest, _ => by
      have ih := splitOn_joinComma (b :: rest) (by simp)
      simp only [joinComma, splitOn_append, ih, List.flatMap_cons]

/-! ### the loop over normalised tokens -/

/-- the clamp of `ccStep`. -/
def clamp (v : Int) : Int := if v > maxSeconds then maxSeconds else v

theorem clamp_eq_min (v : Int) : clamp v = min v maxSeconds := by
  unfold clamp; omega

/-- `ccStep` on an already normalised directive. -/
def tokStep (cc : CC) (d : Str) : Option CC :=
  if d = noCacheLit || d = noStoreLit || d = privateLit then some { cc with noCache := true }
  else match cutPrefix d maxAgeLit with
    | none => some cc
    | some after =>
      match parseInt64 after with
      | none => none
      | some v =>
        if v < 1 then some { cc with noCache := true }
        else some { cc with maxAge := clamp v * second }

def tokLoop : List Str → CC → Option CC
  | [], cc => some cc
  | d :: ds, cc => match tokStep cc d with
    | none => none
    | some cc' => tokLoop ds cc'

theorem ccStep_eq (cc : CC) (raw : Str) : ccStep cc raw = tokStep cc (toLower (trimSpace raw)) := rfl

theorem ccLoop_eq : ∀ (raws : List Str) (cc : CC),
    ccLoop raws cc = tokLoop (raws.map (fun r => toLower (trimSpace r))) cc
  | [], cc => rfl
  | r :: rs, cc => by
      simp only [ccLoop, List.map_cons, tokLoop, ccStep_eq]
      cases tokStep cc (toLower (trimSpace r)) with
      | none => rfl
      | some cc' => exact ccLoop_eq rs cc'

def cc0 : CC := { noCache := false, maxAge := 0 }
def badCC : CC := { noCache := true, maxAge := 0 }

theorem tokens_eq (lines : List Str) :
    tokens lines = (lines.flatMap (splitOn ',')).map (fun r => toLower (trimSpace r)) := by
  simp [tokens, List.map_flatMap]

theorem parseCacheControl_join (ls : List Str) (h : ls ≠ []) :
    parseCacheControl (joinComma ls) = tokLoop (tokens ls) cc0 := by
  simp only [parseCacheControl, splitOn_joinComma ls h, ccLoop_eq, tokens_eq]
  rfl

/-! ### one token -/

theorem lit_iff (t : Str) :
    ((decide (t = noCacheLit) || decide (t = noStoreLit) || decide (t = privateLit)) = true) ↔
      isForbid t = true := by
  simp only [isForbid, Bool.or_eq_true, decide_eq_true_eq]
  constructor
  · rintro ((h | h) | h) <;> subst h <;> simp [noCacheLit, noStoreLit, privateLit]
  · rintro ((h | h) | h) <;> subst h <;> simp [noCacheLit, noStoreLit, privateLit]

theorem maxAgeOf_of_isForbid {t : Str} (h : isForbid t = true) : maxAgeOf t = none := by
  simp only [isForbid, Bool.or_eq_true, decide_eq_true_eq] at h
  rcases h with (h | h) | h <;> subst h <;> decide

theorem tokStep_eq (cc : CC) (t : Str) :
    tokStep cc t =
      match maxAgeOf t with
      | some none => none
      | some (some v) =>
          if v < 1 then some { cc with noCache := true }
          else some { cc with maxAge := clamp v * second }
      | none => if isForbid t then some { cc with noCache := true } else some cc := by
  by_cases hf : isForbid t = true
  · have hm := maxAgeOf_of_isForbid hf
    simp only [tokStep, if_pos ((lit_iff t).2 hf), hm, hf, if_true]
  · simp only [tokStep, if_neg (mt (lit_iff t).1 hf), maxAgeOf, maxAgeLit]
    cases cutPrefix t (s "max-age=") with
    | none => simp [hf]
    | some after =>
        dsimp only
        cases parseInt64 after <;> rfl

/-! ### token classes and the spec functions -/

def fb (t : Str) : Bool :=
  isForbid t || (match maxAgeOf t with
    | some none => true
    | some (some v) => decide (v < 1)
    | none => false)

theorem forbids_cons (t : Str) (ts : List Str) : forbids (t :: ts) = (fb t || forbids ts) := by
  rfl

theorem forbids_nil : forbids [] = false := rfl

def pm (t : Str) : Option Int :=
  match maxAgeOf t with
  | some (some v) => if v ≥ 1 then some v else none
  | _ => none

theorem positiveMaxAges_eq (ts : List Str) : positiveMaxAges ts = ts.filterMap pm := rfl

theorem pm_ge_one {t : Str} {v : Int} (h : pm t = some v) : 1 ≤ v := by
  unfold pm at h
  split at h
  · split at h
    · simp at h; omega
    · simp at h
  · simp at h

theorem positiveMaxAges_ge_one {ts : List Str} {v : Int} (h : v ∈ positiveMaxAges ts) : 1 ≤ v := by
  rw [positiveMaxAges_eq, List.mem_filterMap] at h
  obtain ⟨t, _, ht⟩ := h
  exact pm_ge_one ht

/-- the nanosecond max-age after running over tokens with positive max-ages `vs`. -/
def ageFold (vs : List Int) (a : Int) : Int := vs.foldl (fun _ v => clamp v * second) a

theorem ageFold_eq : ∀ (vs : List Int) (a : Int),
    ageFold vs a = match vs.getLast? with
      | some v => min v maxSeconds * second
      | none => a
  | [], a => rfl
  | [v], a => by simp [ageFold, clamp_eq_min]
  | v :: w :: vs, a => by
      have ih := ageFold_eq (w :: vs) (clamp v * second)
      simp only [ageFold, List.foldl_cons] at ih ⊢
      rw [ih, List.getLast?_cons_cons]
      simp [List.getLast?_cons]

/-! ### the whole loop -/

theorem tokLoop_valid : ∀ (ts : List Str) (cc : CC),
    (∀ t ∈ ts, maxAgeOf t ≠ some none) →
    tokLoop ts cc = some { noCache := cc.noCache || forbids ts,
                           maxAge := ageFold (positiveMaxAges ts) cc.maxAge }
  | [], cc, _ => by simp [tokLoop, forbids_nil, positiveMaxAges, ageFold]
  | t :: ts, cc, hv => by
      have ht := hv t (by simp)
      have hts : ∀ t ∈ ts, maxAgeOf t ≠ some none := fun u hu => hv u (by simp [hu])
      simp only [tokLoop, tokStep_eq, forbids_cons, positiveMaxAges_eq, List.filterMap_cons]
      cases hm : maxAgeOf t with
      | none =>
          by_cases hf : isForbid t = true
          · simp [hf, tokLoop_valid ts _ hts, fb, pm, hm, positiveMaxAges_eq]
          · simp [hf, tokLoop_valid ts _ hts, fb, pm, hm, positiveMaxAges_eq]
      | some o =>
          cases o with
          | none => exact absurd hm ht
          | some v =>
              have hnf : isForbid t = false := by
                cases hf : isForbid t with
                | false => rfl
                | true =>
                    have := maxAgeOf_of_isForbid hf
                    rw [hm] at this; cases this
              by_cases hlt : v < 1
              · have hge : ¬ v ≥ 1 := by omega
                simp [hlt, hge, tokLoop_valid ts _ hts, fb, pm, hm, positiveMaxAges_eq]
              · have hge : v ≥ 1 := by omega
                simp [hlt, hge, hnf, tokLoop_valid ts _ hts, fb, pm, hm, positiveMaxAges_eq, ageFold]

theorem tokStep_some {cc cc' : CC} {t : Str} (h : tokStep cc t = some cc') :
    maxAgeOf t ≠ some none := by
  intro hm
  rw [tokStep_eq, hm] at h
  simp at h

theorem tokLoop_some : ∀ (ts : List Str) (cc cc' : CC),
    tokLoop ts cc = some cc' → ∀ t ∈ ts, maxAgeOf t ≠ some none
  | [], _, _, _ => by simp
  | t :: ts, cc, cc', h => by
      simp only [tokLoop] at h
      cases hs : tokStep cc t with
      | none => rw [hs] at h; simp at h
      | some cc1 =>
          rw [hs] at h
          intro u hu
          rcases List.mem_cons.1 hu with rfl | hu
          · exact tokStep_some hs
          · exact tokLoop_some ts cc1 cc' h u hu

theorem forbids_of_invalid {ts : List Str} (h : ¬ ∀ t ∈ ts, maxAgeOf t ≠ some none) :
    forbids ts = true := by
  simp only [ne_eq, Classical.not_forall, Classical.not_not] at h
  obtain ⟨t, ht, hm⟩ := h
  simp only [forbids, List.any_eq_true]
  exact ⟨t, ht, by simp [hm]⟩

/-! ### parseDirectives -/

/-- the max-age (ns) the spec assigns to a token list. -/
def ageOf (ts : List Str) : Int := ageFold (positiveMaxAges ts) 0

theorem ageOf_pos {ts : List Str} (h : positiveMaxAges ts ≠ []) : 1 ≤ ageOf ts := by
  unfold ageOf
  rw [ageFold_eq]
  cases hl : (positiveMaxAges ts).getLast? with
  | none => exact absurd (List.getLast?_eq_none_iff.1 hl) h
  | some v =>
      have := positiveMaxAges_ge_one (List.mem_of_getLast? hl)
      simp only [maxSeconds, second]
      omega

theorem ageOf_zero {ts : List Str} (h : positiveMaxAges ts = []) : ageOf ts = 0 := by
  simp [ageOf, h, ageFold]

theorem ageOf_bounds (ts : List Str) : 0 ≤ ageOf ts ∧ ageOf ts ≤ 9223372036854775807 := by
  unfold ageOf
  rw [ageFold_eq]
  cases hl : (positiveMaxAges ts).getLast? with
  | none => simp
  | some v =>
      have := positiveMaxAges_ge_one (List.mem_of_getLast? hl)
      simp only [maxSeconds, second]
      omega

theorem parseDirectives_nil (e : ExpiresHdr) (r : Bool) : (parseDirectives [] e r).cc = none := rfl

theorem parseDirectives_expires (ls : List Str) (e : ExpiresHdr) (r : Bool) :
    (parseDirectives ls e r).expires = match e with
      | .absent => none
      | .bad => some zeroTime
      | .at t => some t := rfl

theorem parseDirectives_range (ls : List Str) (e : ExpiresHdr) (r : Bool) :
    (parseDirectives ls e r).range = r := rfl

theorem parseDirectives_cc_valid (ls : List Str) (e : ExpiresHdr) (r : Bool) (h : ls ≠ [])
    (hv : ∀ t ∈ tokens ls, maxAgeOf t ≠ some none) :
    (parseDirectives ls e r).cc =
      some { noCache := forbids (tokens ls), maxAge := ageOf (tokens ls) } := by
  cases ls with
  | nil => exact absurd rfl h
  | cons l ls =>
      simp only [parseDirectives, parseCacheControl_join (l :: ls) h, tokLoop_valid _ cc0 hv]
      simp [cc0, ageOf]

theorem parseDirectives_cc_invalid (ls : List Str) (e : ExpiresHdr) (r : Bool) (h : ls ≠ [])
    (hv : ¬ ∀ t ∈ tokens ls, maxAgeOf t ≠ some none) :
    (parseDirectives ls e r).cc = some badCC := by
  cases ls with
  | nil => exact absurd rfl h
  | cons l ls =>
      simp only [parseDirectives, parseCacheControl_join (l :: ls) h]
      cases hl : tokLoop (tokens (l :: ls)) cc0 with
      | none => rfl
      | some cc => exact absurd (tokLoop_some _ _ _ hl) hv

theorem tokens_nil : tokens [] = [] := rfl

/-! ### the statements of Props/C04a -/

/-- `0 ≤ now` is needed: without it `lines = []`, `e = .bad`, `now = zeroTime`
    is a counterexample (`shouldCache (parseDirectives [] .bad false) false zeroTime = true`
    by `decide`), because the model tests `zeroTime < now`. -/
theorem stored_only_if (lines : List Str) (e : ExpiresHdr) (range : Bool) (now : Int)
    (hn : 0 ≤ now) (h : shouldCache (parseDirectives lines e range) false now = true) :
    forbids (tokens lines) = false ∧
    (lines ≠ [] → positiveMaxAges (tokens lines) ≠ []) ∧
    (positiveMaxAges (tokens lines) = [] → e ≠ .bad ∧ ∀ t, e = .at t → ¬ t < now) := by
  by_cases hl : lines = []
  · subst hl
    refine ⟨rfl, fun h' => absurd rfl h', fun _ => ?_⟩
    cases e with
    | absent => simp
    | bad =>
        have hz : zeroTime < now := by unfold zeroTime second; omega
        simp [shouldCache, parseDirectives, hz] at h
    | «at» t =>
        refine ⟨by simp, fun u hu => ?_⟩
        cases hu
        intro hlt
        simp [shouldCache, parseDirectives, hlt] at h
  · by_cases hv : ∀ t ∈ tokens lines, maxAgeOf t ≠ some none
    · have hcc := parseDirectives_cc_valid lines e range hl hv
      have hblock : (forbids (tokens lines) || decide (ageOf (tokens lines) < 1)) = false := by
        cases hb : (forbids (tokens lines) || decide (ageOf (tokens lines) < 1)) with
        | false => rfl
        | true => simp [shouldCache, hcc, hb] at h
      simp only [Bool.or_eq_false_iff, decide_eq_false_iff_not] at hblock
      have hpos : positiveMaxAges (tokens lines) ≠ [] := by
        intro h0
        have := ageOf_zero h0
        omega
      exact ⟨hblock.1, fun _ => hpos, fun h0 => absurd h0 hpos⟩
    · have hcc := parseDirectives_cc_invalid lines e range hl hv
      simp [shouldCache, hcc, badCC] at h

theorem stored_if_max_age (lines : List Str) (e : ExpiresHdr) (now : Int)
    (hf : forbids (tokens lines) = false) (hp : positiveMaxAges (tokens lines) ≠ []) :
    shouldCache (parseDirectives lines e false) false now = true := by
  have hl : lines ≠ [] := by
    intro h; subst h; exact hp rfl
  have hv : ∀ t ∈ tokens lines, maxAgeOf t ≠ some none := by
    apply Classical.byContradiction
    intro hv
    have := forbids_of_invalid hv
    simp [hf] at this
  have hcc := parseDirectives_cc_valid lines e false hl hv
  have hage := ageOf_pos hp
  have h1 : ¬ ageOf (tokens lines) < 1 := by omega
  have h2 : ageOf (tokens lines) > 0 := by omega
  simp [shouldCache, hcc, hf, h1, h2, parseDirectives_range]
  cases (parseDirectives lines e false).expires <;> rfl

theorem stored_if_plain (e : ExpiresHdr) (now : Int)
    (he : e = .absent ∨ ∃ t, e = .at t ∧ now ≤ t) :
    shouldCache (parseDirectives [] e false) false now = true := by
  rcases he with rfl | ⟨t, rfl, ht⟩
  · simp [shouldCache, parseDirectives]
  · have : ¬ t < now := by omega
    simp [shouldCache, parseDirectives, this]

theorem ignore_stores_all (lines : List Str) (e : ExpiresHdr) (now : Int) :
    shouldCache (parseDirectives lines e false) true now = true := by
  simp only [shouldCache, parseDirectives_range]
  cases (parseDirectives lines e false).cc <;>
    cases (parseDirectives lines e false).expires <;> simp

theorem lifetime_rule (lines : List Str) (e : ExpiresHdr) (range force : Bool) (dflt now : Int)
    (hv : ∀ t ∈ tokens lines, maxAgeOf t ≠ some none) :
    expiresOrDefault (parseDirectives lines e range) force dflt now =
      expiryInstant lines e force dflt now := by
  cases force with
  | true => simp [expiresOrDefault, expiryInstant]
  | false =>
      by_cases hl : lines = []
      · subst hl
        cases e <;> simp [expiresOrDefault, expiryInstant, parseDirectives, tokens_nil, positiveMaxAges]
      · have hcc := parseDirectives_cc_valid lines e range hl hv
        simp only [expiresOrDefault, expiryInstant, hcc, parseDirectives_expires]
        by_cases hp : positiveMaxAges (tokens lines) = []
        · have h0 := ageOf_zero hp
          cases e <;> simp [h0, hp]
        · have h1 := ageOf_pos hp
          have h2 : ageOf (tokens lines) > 0 := by omega
          have h3 : ageOf (tokens lines) =
              match (positiveMaxAges (tokens lines)).getLast? with
              | some v => min v maxSeconds * second
              | none => 0 := by
            unfold ageOf; rw [ageFold_eq]
          cases hg : (positiveMaxAges (tokens lines)).getLast? with
          | none => exact absurd (List.getLast?_eq_none_iff.1 hg) hp
          | some v =>
              rw [hg] at h3
              dsimp only at h3
              rw [h3] at h2
              simp [h2, h3]

/-- loop invariant for the int64 range of `maxAge`. -/
theorem tokStep_bounds {cc cc' : CC} {t : Str}
    (hb : 0 ≤ cc.maxAge ∧ cc.maxAge ≤ 9223372036854775807) (h : tokStep cc t = some cc') :
    0 ≤ cc'.maxAge ∧ cc'.maxAge ≤ 9223372036854775807 := by
  rw [tokStep_eq] at h
  split at h
  · simp at h
  · rename_i v _
    split at h
    · simp only [Option.some.injEq] at h; subst h; exact hb
    · simp only [Option.some.injEq] at h; subst h
      rw [clamp_eq_min]
      simp only [maxSeconds, second]
      omega
  · split at h <;> (simp only [Option.some.injEq] at h; subst h; exact hb)

theorem tokLoop_bounds : ∀ (ts : List Str) (cc cc' : CC),
    (0 ≤ cc.maxAge ∧ cc.maxAge ≤ 9223372036854775807) → tokLoop ts cc = some cc' →
    0 ≤ cc'.maxAge ∧ cc'.maxAge ≤ 9223372036854775807
  | [], cc, cc', hb, h => by
      simp only [tokLoop, Option.some.injEq] at h; subst h; exact hb
  | t :: ts, cc, cc', hb, h => by
      simp only [tokLoop] at h
      cases hs : tokStep cc t with
      | none => rw [hs] at h; simp at h
      | some cc1 =>
          rw [hs] at h
          exact tokLoop_bounds ts cc1 cc' (tokStep_bounds hb hs) h

theorem max_age_in_int64 (h : Str) (cc : CC) (hp : parseCacheControl h = some cc) :
    0 ≤ cc.maxAge ∧ cc.maxAge ≤ 9223372036854775807 := by
  simp only [parseCacheControl, ccLoop_eq] at hp
  exact tokLoop_bounds _ _ cc (by simp) hp

end Rv.Lemmas.CacheControl
