import Rv.Model.Range
import Rv.Spec.Range
/-
  Rv.Lemmas.Range — helper lemmas and proofs for Props/C07.
-/
namespace Rv.Lemmas.Range
open Rv Rv.Range Rv.Spec.Range

/-! ### characters -/

theorem isDigit_bounds {c : Char} (h : isDigit c = true) : 48 ≤ c.toNat ∧ c.toNat ≤ 57 := by
  simp only [isDigit, Bool.and_eq_true, decide_eq_true_eq] at h
  obtain ⟨h1, h2⟩ := h
  rw [Char.le_def] at h1 h2
  simp only [UInt32.le_iff_toNat_le] at h1 h2
  have e1 : '0'.val.toNat = 48 := by decide
  have e2 : '9'.val.toNat = 57 := by decide
  have e3 : c.toNat = c.val.toNat := rfl
  omega

theorem digit_ne_dash {c : Char} (h : isDigit c = true) : c ≠ '-' := by
  intro hc; subst hc; revert h; decide

theorem digit_ne_space {c : Char} (h : isDigit c = true) : c ≠ ' ' := by
  intro hc; subst hc; revert h; decide

theorem digit_ne_tab {c : Char} (h : isDigit c = true) : c ≠ '\t' := by
  intro hc; subst hc; revert h; decide

theorem digitVal_le {c : Char} (h : isDigit c = true) : digitVal c ≤ 9 := by
  have := isDigit_bounds h
  unfold digitVal; omega

/-! ### strings -/

theorem cutPrefix_eq : ∀ (p x r : Str), cutPrefix x p = some r → x = p ++ r
  | [], x, r, h => by simp [cutPrefix] at h; simp [h]
  | p :: ps, [], r, h => by simp [cutPrefix] at h
  | p :: ps, c :: cs, r, h => by
      simp only [cutPrefix] at h
      split at h
      · rename_i hc; subst hc; simp [cutPrefix_eq ps cs r h]
      · simp at h

theorem cutAt_eq (sep : Char) : ∀ (x a b : Str), cutAt sep x = some (a, b) → x = a ++ sep :: b
  | [], a, b, h => by simp [cutAt] at h
  | c :: cs, a, b, h => by
      simp only [cutAt] at h
      split at h
      · rename_i hc; subst hc
        simp only [Option.some.injEq, Prod.mk.injEq] at h
        obtain ⟨rfl, rfl⟩ := h; simp
      · split at h
        · simp at h
        · rename_i a' b' heq
          simp only [Option.some.injEq, Prod.mk.injEq] at h
          obtain ⟨rfl, rfl⟩ := h
          simp [cutAt_eq sep cs a' b' heq]

theorem cutAt_bytes (rest : Str) : cutAt '=' (prefixLit ++ rest) = some (bytesLit, rest) := by
  simp [prefixLit, bytesLit, cutAt]

theorem getElem?_mid (a : Str) (c : Char) (b : Str) : (a ++ c :: b)[a.length]? = some c := by
  simp

theorem drop_mid (a : Str) (c : Char) (b : Str) : (a ++ c :: b).drop (a.length + 1) = b := by
  induction a with
  | nil => simp
  | cons x xs ih => simp

/-! ### the number loop -/

/-- Horner evaluation with an explicit accumulator. -/
def val (num : Nat) (ds : Str) : Nat := ds.foldl (fun a c => a * 10 + digitVal c) num

theorem val_nil (num : Nat) : val num [] = num := by simp [val]
theorem val_cons (num : Nat) (c : Char) (cs : Str) :
    val num (c :: cs) = val (num * 10 + digitVal c) cs := by simp [val]
theorem decVal_eq (ds : Str) : decVal ds = val 0 ds := by simp [val, decVal]

theorem val_ge : ∀ (ds : Str) (num : Nat), num ≤ val num ds
  | [], num => by simp [val_nil]
  | c :: cs, num => by
      rw [val_cons]; have := val_ge cs (num * 10 + digitVal c); omega

theorem numLoop_le : ∀ (x : Str) (i num index n idx : Nat),
    num ≤ maxI64 → numLoop x i num index = .ok n idx → n ≤ maxI64
  | [], i, num, index, n, idx, hn, h => by
      simp only [numLoop, NumRes.ok.injEq] at h; omega
  | c :: cs, i, num, index, n, idx, hn, h => by
      simp only [numLoop] at h
      split at h
      · exact numLoop_le cs _ _ _ n idx hn h
      · split at h
        · split at h
          · simp at h
          · simp only [NumRes.ok.injEq] at h; omega
        · split at h
          · simp at h
          · rename_i hdig hle
            have hc : isDigit c = true := by simpa using hdig
            have h9 := digitVal_le hc
            refine numLoop_le cs _ _ _ n idx ?_ h
            simp only [maxI64] at hle ⊢; omega

theorem numLoop_digits (rest : Str) (hrest : rest = [] ∨ ∃ r, rest = '-' :: r) :
    ∀ (ds : Str) (i num index : Nat), allDigits ds = true → (i ≠ 0 ∨ ds ≠ []) → num ≤ maxI64 →
      numLoop (ds ++ rest) i num index =
        if val num ds ≤ maxI64 then .ok (val num ds) (index + ds.length) else .fail
  | [], i, num, index, _, hi, hn => by
      have hi : i ≠ 0 := by simpa using hi
      rcases hrest with rfl | ⟨r, rfl⟩
      · simp [numLoop, val_nil, hn]
      · simp [numLoop, val_nil, hn, hi, isDigit]
  | c :: cs, i, num, index, hd, _, hn => by
      simp only [allDigits, List.all_cons, Bool.and_eq_true] at hd
      obtain ⟨hc, hcs⟩ := hd
      have h9 := digitVal_le hc
      simp only [List.cons_append, numLoop, digit_ne_space hc, digit_ne_tab hc, hc, val_cons]
      simp only [decide_false, Bool.or_self, Bool.false_eq_true, if_false, Bool.not_true]
      split
      · rename_i hgt
        have := val_ge cs (num * 10 + digitVal c)
        have : ¬ val (num * 10 + digitVal c) cs ≤ maxI64 := by
          simp only [maxI64] at hgt ⊢; omega
        simp [this]
      · rename_i hle
        have hn' : num * 10 + digitVal c ≤ maxI64 := by
          simp only [maxI64] at hle ⊢; omega
        rw [numLoop_digits rest hrest cs (i + 1) _ (index + 1) hcs (Or.inl (by omega)) hn']
        simp [Nat.add_assoc, Nat.add_comm 1]

theorem parseRangeNumber_digits (rest : Str) (hrest : rest = [] ∨ ∃ r, rest = '-' :: r)
    (ds : Str) (hne : ds ≠ []) (hd : allDigits ds = true) :
    parseRangeNumber (ds ++ rest) =
      if decVal ds ≤ maxI64 then .ok (decVal ds) ds.length else .fail := by
  cases ds with
  | nil => exact absurd rfl hne
  | cons c cs =>
    have hc : isDigit c = true := by
      simp only [allDigits, List.all_cons, Bool.and_eq_true] at hd; exact hd.1
    have := numLoop_digits rest hrest (c :: cs) 0 0 0 hd (Or.inr hne) (by simp [maxI64])
    simp only [List.cons_append] at this
    simp only [parseRangeNumber, List.cons_append, digit_ne_dash hc, if_false, this, decVal_eq]
    simp


theorem parse_suffix_wf (b : Str) (hne : b ≠ []) (hd : allDigits b = true) :
    parseRangeHeader (prefixLit ++ '-' :: b) =
      if decVal b ≤ maxI64 then .ok (-1) (decVal b) else .err .value := by
  have hnum := parseRangeNumber_digits [] (Or.inl rfl) b hne hd
  simp only [List.append_nil] at hnum
  simp only [parseRangeHeader, cutAt_bytes]
  simp [hnum]
  by_cases hle : decVal b ≤ maxI64 <;> simp [hle]

theorem parse_from_wf (a : Str) (hne : a ≠ []) (hd : allDigits a = true) :
    parseRangeHeader (prefixLit ++ (a ++ ['-'])) =
      if decVal a ≤ maxI64 then .ok (decVal a) (-1) else .err .value := by
  have hnum := parseRangeNumber_digits ['-'] (Or.inr ⟨[], rfl⟩) a hne hd
  cases a with
  | nil => exact absurd rfl hne
  | cons c cs =>
    have hc : isDigit c = true := by
      simp only [allDigits, List.all_cons, Bool.and_eq_true] at hd; exact hd.1
    have hmid := getElem?_mid (c :: cs) '-' []
    simp only [parseRangeHeader, cutAt_bytes]
    simp only [hnum]
    by_cases hle : decVal (c :: cs) ≤ maxI64 <;> simp [hle, digit_ne_dash hc]

theorem parse_fromTo_wf (a b : Str) (hne : a ≠ []) (hd : allDigits a = true)
    (hneb : b ≠ []) (hdb : allDigits b = true) :
    parseRangeHeader (prefixLit ++ (a ++ '-' :: b)) =
      if decVal a ≤ maxI64 then
        (if decVal b ≤ maxI64 then .ok (decVal a) (decVal b) else .err .value)
      else .err .value := by
  have hnum := parseRangeNumber_digits ('-' :: b) (Or.inr ⟨b, rfl⟩) a hne hd
  have hnumb := parseRangeNumber_digits [] (Or.inl rfl) b hneb hdb
  simp only [List.append_nil] at hnumb
  cases a with
  | nil => exact absurd rfl hne
  | cons c cs =>
    have hc : isDigit c = true := by
      simp only [allDigits, List.all_cons, Bool.and_eq_true] at hd; exact hd.1
    have hmid := getElem?_mid (c :: cs) '-' b
    have hdrop := drop_mid (c :: cs) '-' b
    simp only [parseRangeHeader, cutAt_bytes]
    simp only [hnum]
    by_cases hle : decVal (c :: cs) ≤ maxI64 <;> simp [hle, digit_ne_dash hc]
    rw [if_neg (by omega), if_neg hneb, hnumb]
    have harith : ¬ (List.length b + (cs.length + 1 + 1) < cs.length + (List.length b + 1) + 1) := by
      omega
    by_cases hb : decVal b ≤ maxI64 <;> simp [hb, harith]


theorem parseRangeNumber_le (x : Str) (n idx : Nat) (h : parseRangeNumber x = .ok n idx) :
    n ≤ maxI64 := by
  unfold parseRangeNumber at h
  split at h
  · simp at h
  · split at h
    · simp at h
    · exact numLoop_le _ 0 0 0 n idx (by simp [maxI64]) h

/-! ### C07 lemmas: totality and bounds -/

theorem guard_ne_none (l : Str) (k : Nat) :
    (if decide (k < l.length) = true then l[k]? else some 'x') ≠ none := by
  split
  · rename_i h
    have h : k < l.length := by simpa using h
    simp [List.getElem?_eq_getElem h]
  · simp

theorem getElem?_ne_none_of_lt (l : Str) (k : Nat) (h : k < l.length) : l[k]? ≠ none := by
  simp [List.getElem?_eq_getElem h]

theorem parse_ne_panic (x : Str) : parseRangeHeader x ≠ .panic := by
  unfold parseRangeHeader
  repeat' split
  all_goals try (intro h; cases h; done)
  · rename_i hne _ heq
    exact False.elim <| getElem?_ne_none_of_lt _ 0 (List.length_pos_iff.mpr hne) heq
  · dsimp only
    split
    · rename_i h; exact absurd h (guard_ne_none _ _)
    · repeat' split
      all_goals (intro h; cases h)
  · rename_i hlt _ heq
    exact False.elim <| getElem?_ne_none_of_lt _ _ (by omega) heq
  · dsimp only
    split
    · rename_i h; exact absurd h (guard_ne_none _ _)
    · repeat' split
      all_goals (intro h; cases h)


theorem parse_bounds (x : Str) (st en : Int) (h : parseRangeHeader x = .ok st en) :
    -1 ≤ st ∧ st ≤ maxI64 ∧ -1 ≤ en ∧ en ≤ maxI64 := by
  unfold parseRangeHeader at h
  repeat' split at h
  all_goals try (cases h; done)
  all_goals try dsimp only at h
  all_goals repeat' split at h
  all_goals try (cases h; done)
  all_goals grind [→ parseRangeNumber_le]


/-! ### slices -/

theorem validateRange_iff (st en size : Int) :
    validateRange st en size = true ↔ 0 ≤ st ∧ 0 ≤ en ∧ st < size ∧ en < size ∧ st ≤ en := by
  simp [validateRange]; omega

/-- `sliceSize` in closed form. -/
theorem sliceSize_eq (start end_ size : Int) :
    sliceSize start end_ size =
      if end_ = -1 ∧ start = -1 then none
      else if start = -1 then
        (if validateRange (size - end_) (size - 1) size then some (size - end_, size - 1) else none)
      else if end_ ≠ -1 then
        (if validateRange start end_ size then some (start, end_) else none)
      else
        (if validateRange start (size - 1) size then some (start, size - 1) else none) := by
  unfold sliceSize
  by_cases h0 : end_ = -1 ∧ start = -1
  · simp only [h0, and_self, if_true]
  · simp only [h0, if_false]
    by_cases h1 : start = -1
    · simp only [h1, if_true]
    · simp only [h1, if_false]
      by_cases h2 : end_ ≠ -1
      · rw [if_pos h2, if_pos h2]
      · rw [if_neg h2, if_neg h2]

theorem sliceSize_inside (st en size a b : Int) (h : sliceSize st en size = some (a, b)) :
    0 ≤ a ∧ a ≤ b ∧ b < size := by
  rw [sliceSize_eq] at h
  repeat' split at h
  all_goals try (cases h; done)
  all_goals
    simp only [Option.some.injEq, Prod.mk.injEq] at h
    obtain ⟨rfl, rfl⟩ := h
    rename_i hv
    rw [validateRange_iff] at hv
    omega

theorem slice_inside (x : Str) (size a b : Int) (h : outcome x size = .slice a b) :
    0 ≤ a ∧ a ≤ b ∧ b < size := by
  unfold outcome at h
  split at h
  · cases h
  · cases h
  · split at h
    · cases h
    · rename_i a' b' heq
      cases h
      exact sliceSize_inside _ _ _ _ _ heq

theorem outcome_ne_panic (x : Str) (size : Int) : outcome x size ≠ .panic := by
  unfold outcome
  split
  · rename_i h; exact absurd h (parse_ne_panic x)
  · intro h; cases h
  · split <;> (intro h; cases h)


/-! ### well-formed inputs -/

/-- what the parser returns on a well-formed single range. -/
def expected : RangeSpec → ParseRes
  | .suffix n => if n ≤ maxI64 then .ok (-1) n else .err .value
  | .from_ a => if a ≤ maxI64 then .ok a (-1) else .err .value
  | .fromTo a b =>
    if a ≤ maxI64 then (if b ≤ maxI64 then .ok a b else .err .value) else .err .value

theorem number_some (ds : Str) (n : Nat) (h : number ds = some n) :
    ds ≠ [] ∧ allDigits ds = true ∧ decVal ds = n := by
  unfold number at h
  split at h
  · rename_i hc; simp only [Option.some.injEq] at h; exact ⟨hc.1, hc.2, h⟩
  · cases h

theorem parse_wf (x : Str) (sp : RangeSpec) (hw : wellFormedSingle x = some sp) :
    parseRangeHeader x = expected sp := by
  unfold wellFormedSingle at hw
  split at hw
  · cases hw
  · rename_i rest hpre
    have hx := cutPrefix_eq _ _ _ hpre
    subst hx
    split at hw
    · cases hw
    · rename_i a b hcut
      have hrest := cutAt_eq _ _ _ _ hcut
      subst hrest
      split at hw
      · rename_i ha; subst ha
        split at hw
        · rename_i n hn
          obtain ⟨h1, h2, h3⟩ := number_some _ _ hn
          cases hw; subst h3
          simpa [expected] using parse_suffix_wf b h1 h2
        · cases hw
      · split at hw
        · cases hw
        · rename_i av hav
          obtain ⟨h1, h2, h3⟩ := number_some _ _ hav
          subst h3
          split at hw
          · rename_i hb; subst hb
            cases hw
            simpa [expected] using parse_from_wf a h1 h2
          · split at hw
            · rename_i bv hbv
              obtain ⟨g1, g2, g3⟩ := number_some _ _ hbv
              cases hw; subst g3
              simpa [expected] using parse_fromTo_wf a b h1 h2 g1 g2
            · cases hw


theorem sliceSize_suffix (n size : Nat) :
    sliceSize (-1) n size =
      if 0 < n ∧ n ≤ size then some ((size : Int) - n, (size : Int) - 1) else none := by
  rw [sliceSize_eq]
  have h0 : ¬ ((n : Int) = -1 ∧ (-1 : Int) = -1) := by omega
  rw [if_neg h0, if_pos rfl]
  by_cases h : 0 < n ∧ n ≤ size
  · have hv : validateRange ((size : Int) - n) ((size : Int) - 1) size = true := by
      rw [validateRange_iff]; omega
    rw [if_pos hv, if_pos h]
  · have hv : ¬ validateRange ((size : Int) - n) ((size : Int) - 1) size = true := by
      rw [validateRange_iff]; omega
    rw [if_neg hv, if_neg h]

theorem sliceSize_from (a size : Nat) :
    sliceSize a (-1) size = if a < size then some ((a : Int), (size : Int) - 1) else none := by
  rw [sliceSize_eq]
  have h0 : ¬ ((-1 : Int) = -1 ∧ (a : Int) = -1) := by omega
  have h1 : ¬ ((a : Int) = -1) := by omega
  have h2 : ¬ ((-1 : Int) ≠ -1) := by omega
  rw [if_neg h0, if_neg h1, if_neg h2]
  by_cases h : a < size
  · have hv : validateRange (a : Int) ((size : Int) - 1) size = true := by
      rw [validateRange_iff]; omega
    rw [if_pos hv, if_pos h]
  · have hv : ¬ validateRange (a : Int) ((size : Int) - 1) size = true := by
      rw [validateRange_iff]; omega
    rw [if_neg hv, if_neg h]

theorem sliceSize_fromTo (a b size : Nat) :
    sliceSize a b size = if a ≤ b ∧ b < size then some ((a : Int), (b : Int)) else none := by
  rw [sliceSize_eq]
  have h0 : ¬ ((b : Int) = -1 ∧ (a : Int) = -1) := by omega
  have h1 : ¬ ((a : Int) = -1) := by omega
  have h2 : ((b : Int) ≠ -1) := by omega
  rw [if_neg h0, if_neg h1, if_pos h2]
  by_cases h : a ≤ b ∧ b < size
  · have hv : validateRange (a : Int) (b : Int) size = true := by
      rw [validateRange_iff]; omega
    rw [if_pos hv, if_pos h]
  · have hv : ¬ validateRange (a : Int) (b : Int) size = true := by
      rw [validateRange_iff]; omega
    rw [if_neg hv, if_neg h]

/-- the outcome on a well-formed single range, in closed form. -/
def expectedOutcome (sp : RangeSpec) (size : Nat) : Outcome :=
  match sp with
  | .suffix n =>
    if n ≤ maxI64 then
      (if 0 < n ∧ n ≤ size then .slice ((size : Int) - n) ((size : Int) - 1) else .reject)
    else .absent
  | .from_ a =>
    if a ≤ maxI64 then (if a < size then .slice a ((size : Int) - 1) else .reject) else .absent
  | .fromTo a b =>
    if a ≤ maxI64 ∧ b ≤ maxI64 then (if a ≤ b ∧ b < size then .slice a b else .reject)
    else .absent

theorem outcome_wf (x : Str) (sp : RangeSpec) (size : Nat)
    (hw : wellFormedSingle x = some sp) : outcome x size = expectedOutcome sp size := by
  unfold outcome
  rw [parse_wf x sp hw]
  cases sp with
  | suffix n =>
    simp only [expected, expectedOutcome]
    by_cases h : n ≤ maxI64
    · simp only [h, if_true, sliceSize_suffix]
      by_cases h' : 0 < n ∧ n ≤ size
      · rw [if_pos h', if_pos h']
      · rw [if_neg h', if_neg h']
    · simp only [h, if_false]
  | from_ a =>
    simp only [expected, expectedOutcome]
    by_cases h : a ≤ maxI64
    · simp only [h, if_true, sliceSize_from]
      by_cases h' : a < size
      · rw [if_pos h', if_pos h']
      · rw [if_neg h', if_neg h']
    · simp only [h, if_false]
  | fromTo a b =>
    simp only [expected, expectedOutcome]
    by_cases h : a ≤ maxI64
    · by_cases hb : b ≤ maxI64
      · simp only [h, hb, and_self, if_true, sliceSize_fromTo]
        by_cases h' : a ≤ b ∧ b < size
        · rw [if_pos h', if_pos h']
        · rw [if_neg h', if_neg h']
      · simp only [h, hb, and_false, if_true, if_false]
    · simp only [h, false_and, if_false]


/-! ### C07 lemmas: agreement with the specification -/

theorem slice_is_requested (x : Str) (sp : RangeSpec) (size : Nat) (a b : Int)
    (hw : wellFormedSingle x = some sp) (h : outcome x size = .slice a b) :
    resolve sp size = some (a.toNat, b.toNat) ∧ 0 ≤ a ∧ 0 ≤ b := by
  rw [outcome_wf x sp size hw] at h
  cases sp with
  | suffix n =>
    simp only [expectedOutcome] at h
    repeat' split at h
    all_goals try (cases h; done)
    rename_i h1 h2
    simp only [Outcome.slice.injEq] at h
    obtain ⟨rfl, rfl⟩ := h
    simp only [resolve, if_pos h2, Option.some.injEq, Prod.mk.injEq]
    omega
  | from_ a' =>
    simp only [expectedOutcome] at h
    repeat' split at h
    all_goals try (cases h; done)
    rename_i h1 h2
    simp only [Outcome.slice.injEq] at h
    obtain ⟨rfl, rfl⟩ := h
    simp only [resolve, if_pos h2, Option.some.injEq, Prod.mk.injEq]
    omega
  | fromTo a' b' =>
    simp only [expectedOutcome] at h
    repeat' split at h
    all_goals try (cases h; done)
    rename_i h1 h2
    simp only [Outcome.slice.injEq] at h
    obtain ⟨rfl, rfl⟩ := h
    simp only [resolve, if_pos h2, Option.some.injEq, Prod.mk.injEq]
    omega

theorem requested_is_served (x : Str) (sp : RangeSpec) (size a b : Nat)
    (hw : wellFormedSingle x = some sp) (hs : size ≤ maxI64)
    (hr : resolve sp size = some (a, b)) :
    outcome x size = .slice a b := by
  rw [outcome_wf x sp size hw]
  cases sp with
  | suffix n =>
    simp only [resolve] at hr
    split at hr
    · rename_i hc
      simp only [Option.some.injEq, Prod.mk.injEq] at hr
      obtain ⟨rfl, rfl⟩ := hr
      have hn : n ≤ maxI64 := by omega
      simp only [expectedOutcome, if_pos hn, if_pos hc, Outcome.slice.injEq]
      omega
    · cases hr
  | from_ a' =>
    simp only [resolve] at hr
    split at hr
    · rename_i hc
      simp only [Option.some.injEq, Prod.mk.injEq] at hr
      obtain ⟨rfl, rfl⟩ := hr
      have hn : a' ≤ maxI64 := by omega
      simp only [expectedOutcome, if_pos hn, if_pos hc, Outcome.slice.injEq, true_and]
      omega
    · cases hr
  | fromTo a' b' =>
    simp only [resolve] at hr
    split at hr
    · rename_i hc
      simp only [Option.some.injEq, Prod.mk.injEq] at hr
      obtain ⟨rfl, rfl⟩ := hr
      have hn : a' ≤ maxI64 ∧ b' ≤ maxI64 := by omega
      simp only [expectedOutcome, if_pos hn, if_pos hc]
    · cases hr

theorem unsatisfiable_refused (x : Str) (sp : RangeSpec) (size : Nat)
    (hw : wellFormedSingle x = some sp) (hr : resolve sp size = none) :
    outcome x size = .reject ∨ outcome x size = .absent := by
  rw [outcome_wf x sp size hw]
  cases sp with
  | suffix n =>
    simp only [resolve] at hr
    split at hr
    · cases hr
    · rename_i hc
      simp only [expectedOutcome, if_neg hc]
      split <;> simp
  | from_ a' =>
    simp only [resolve] at hr
    split at hr
    · cases hr
    · rename_i hc
      simp only [expectedOutcome, if_neg hc]
      split <;> simp
  | fromTo a' b' =>
    simp only [resolve] at hr
    split at hr
    · cases hr
    · rename_i hc
      simp only [expectedOutcome, if_neg hc]
      split <;> simp

end Rv.Lemmas.Range
