import Rv.Model.Race
/-
  Rv.Lemmas.Race — the lock-set argument for Rv.Model.Race (C15).

  Layout:
    * `st tr p`: the holdings just before position `p`; one step of it is `apply`;
    * `Inv`: two DISTINCT holdings of one lock are both shared; kept by every
      allowed event, hence true of every prefix of a well-formed trace. The
      invariant talks about membership only, so a goroutine holding one lock
      twice in shared mode (RLock twice) needs no special treatment;
    * two discrete "crossing" lemmas on `Nat → Bool`;
    * `lockset_orders`: the release/acquire chain between two lock-protected
      events of different goroutines;
    * `hb_needs_release` / `hb_needs_acquire`: what any happens-before path
      between different goroutines must contain — used to PROVE races.
-/
namespace Rv.Lemmas.Race
open Rv.Race

/-! ### the holdings before a position -/

/-- the holdings just before position `p`. -/
def st (tr : Trace) (p : Nat) : List Hold := holds (tr.take p)

theorem st_zero (tr : Trace) : st tr 0 = [] := by simp [st, holds]

theorem st_succ (tr : Trace) (p : Nat) (e : Event) (h : tr[p]? = some e) :
    st tr (p + 1) = apply (st tr p) e := by
  unfold st holds
  rw [List.take_add_one, h]
  simp [List.foldl_append]

theorem st_succ_none (tr : Trace) (p : Nat) (h : tr[p]? = none) : st tr (p + 1) = st tr p := by
  unfold st holds
  rw [List.take_add_one, h]
  simp

theorem holdsAt_iff (tr : Trace) (q t l : Nat) (s : Bool) :
    holdsAt tr q t l s = true ↔ ({ tid := t, l := l, shared := s } : Hold) ∈ st tr q := by
  simp [holdsAt, st]

theorem holdsAt_zero (tr : Trace) (t l : Nat) (s : Bool) : holdsAt tr 0 t l s = false := by
  simp [holdsAt, holds]

theorem removeFirst_eq_erase (h : Hold) (hs : List Hold) : removeFirst h hs = hs.erase h := by
  induction hs with
  | nil => rfl
  | cons x xs ih => simp [removeFirst, List.erase_cons, ih]

/-! ### well-formedness, pointwise -/

theorem wf_allowed_aux : ∀ (tr : Trace) (hs : List Hold) (p : Nat) (e : Event),
    WF tr hs = true → tr[p]? = some e → allowed ((tr.take p).foldl apply hs) e = true
  | [], _, _, _, _, h => by simp at h
  | x :: rest, hs, 0, e, hw, h => by
      simp at h; subst h
      simp [WF] at hw
      simpa using hw.1
  | x :: rest, hs, p + 1, e, hw, h => by
      simp [WF] at hw
      simp at h
      simpa using wf_allowed_aux rest (apply hs x) p e hw.2 h

/-- in a well-formed trace every event is allowed in the state before it. -/
theorem wf_allowed (tr : Trace) (hwf : wellFormed tr = true) (p : Nat) (e : Event)
    (h : tr[p]? = some e) : allowed (st tr p) e = true :=
  wf_allowed_aux tr [] p e hwf h

/-! ### the invariant the mutexes enforce -/

/-- two distinct holdings of one lock are both in shared mode. -/
def Inv (hs : List Hold) : Prop :=
  ∀ h1 h2, h1 ∈ hs → h2 ∈ hs → h1 ≠ h2 → h1.l = h2.l → h1.shared = true ∧ h2.shared = true

theorem inv_nil : Inv [] := by
  intro h1 h2 m1; simp at m1

theorem inv_apply (hs : List Hold) (e : Event) (hi : Inv hs) (ha : allowed hs e = true) :
    Inv (apply hs e) := by
  obtain ⟨t, ev⟩ := e
  cases ev with
  | acq l s =>
    intro h1 h2 m1 m2 ne hl
    simp only [apply, List.mem_cons] at m1 m2
    rcases m1 with rfl | m1 <;> rcases m2 with rfl | m2
    · exact absurd rfl ne
    · cases s with
      | false =>
        simp only [allowed, List.all_eq_true] at ha
        have := ha h2 m2
        simp at this
        exact absurd hl.symm this
      | true =>
        simp only [allowed, List.all_eq_true] at ha
        have := ha h2 m2
        simp at this
        rcases this with hn | hsd
        · exact absurd hl.symm hn
        · exact ⟨rfl, hsd⟩
    · cases s with
      | false =>
        simp only [allowed, List.all_eq_true] at ha
        have := ha h1 m1
        simp at this
        exact absurd hl this
      | true =>
        simp only [allowed, List.all_eq_true] at ha
        have := ha h1 m1
        simp at this
        rcases this with hn | hsd
        · exact absurd hl hn
        · exact ⟨hsd, rfl⟩
    · exact hi h1 h2 m1 m2 ne hl
  | rel l s =>
    intro h1 h2 m1 m2 ne hl
    simp only [apply, removeFirst_eq_erase] at m1 m2
    exact hi h1 h2 (List.mem_of_mem_erase m1) (List.mem_of_mem_erase m2) ne hl
  | access loc w => exact hi
  | other => exact hi

/-- every prefix of a well-formed trace satisfies the invariant. -/
theorem inv_st (tr : Trace) (hwf : wellFormed tr = true) : ∀ p, Inv (st tr p)
  | 0 => by rw [st_zero]; exact inv_nil
  | p + 1 => by
    cases h : tr[p]? with
    | none => rw [st_succ_none tr p h]; exact inv_st tr hwf p
    | some e =>
      rw [st_succ tr p e h]
      exact inv_apply _ e (inv_st tr hwf p) (wf_allowed tr hwf p e h)

/-! ### how a holding appears and disappears -/

/-- a holding that appears was just acquired, by that goroutine, in that mode. -/
theorem mem_apply_new (hs : List Hold) (e : Event) (h : Hold)
    (hin : h ∈ apply hs e) (hout : h ∉ hs) : e.tid = h.tid ∧ e.ev = .acq h.l h.shared := by
  obtain ⟨t, ev⟩ := e
  cases ev with
  | acq l s =>
    simp only [apply, List.mem_cons] at hin
    rcases hin with rfl | hin
    · exact ⟨rfl, rfl⟩
    · exact absurd hin hout
  | rel l s =>
    simp only [apply, removeFirst_eq_erase] at hin
    exact absurd (List.mem_of_mem_erase hin) hout
  | access loc w => exact absurd hin hout
  | other => exact absurd hin hout

/-- a holding that disappears was just released, by that goroutine, in that mode. -/
theorem mem_apply_lost (hs : List Hold) (e : Event) (h : Hold)
    (hin : h ∈ hs) (hout : h ∉ apply hs e) : e.tid = h.tid ∧ e.ev = .rel h.l h.shared := by
  obtain ⟨t, ev⟩ := e
  cases ev with
  | acq l s =>
    exact absurd (List.mem_cons_of_mem _ hin) hout
  | rel l s =>
    simp only [apply, removeFirst_eq_erase] at hout
    by_cases heq : h = { tid := t, l := l, shared := s }
    · subst heq; exact ⟨rfl, rfl⟩
    · exact absurd ((List.mem_erase_of_ne heq).2 hin) hout
  | access loc w => exact absurd hin hout
  | other => exact absurd hin hout

/-! ### discrete crossings -/

/-- `P` is false at 0 and true at `j`: the last position before `j` where it is false. -/
theorem last_false (P : Nat → Bool) (h0 : P 0 = false) :
    ∀ j, P j = true → ∃ p, p < j ∧ P p = false ∧ ∀ q, p < q → q ≤ j → P q = true
  | 0, hj => by rw [h0] at hj; cases hj
  | j + 1, hj => by
    cases hp : P j with
    | false =>
      refine ⟨j, Nat.lt_succ_self j, hp, ?_⟩
      intro q h1 h2
      have : q = j + 1 := by omega
      subst this; exact hj
    | true =>
      obtain ⟨p, hlt, hf, hall⟩ := last_false P h0 j hp
      refine ⟨p, by omega, hf, ?_⟩
      intro q h1 h2
      by_cases hq : q = j + 1
      · subst hq; exact hj
      · exact hall q h1 (by omega)

/-- `P` is true at `i` and false at a later `p`: a step in between where it drops. -/
theorem first_drop (P : Nat → Bool) (i : Nat) (hi : P i = true) :
    ∀ p, i < p → P p = false → ∃ m, i ≤ m ∧ m < p ∧ P m = true ∧ P (m + 1) = false
  | 0, h, _ => by omega
  | p + 1, h, hp => by
    cases hq : P p with
    | true => exact ⟨p, by omega, by omega, hq, hp⟩
    | false =>
      have hne : i ≠ p := by
        intro heq; subst heq; rw [hi] at hq; cases hq
      obtain ⟨m, h1, h2, h3, h4⟩ := first_drop P i hi p (by omega) hq
      exact ⟨m, h1, by omega, h3, h4⟩

/-! ### happens-before: basic facts -/

theorem hb_lt {tr : Trace} {i j : Nat} (h : HB tr i j) : i < j := by
  induction h with
  | po i j a b hij _ _ _ => exact hij
  | sync i j a b l s1 s2 hij _ _ _ _ _ => exact hij
  | trans i j k _ _ ih1 ih2 => omega

theorem getElem?_of_lt_some {tr : Trace} {i j : Nat} {b : Event} (hij : i ≤ j)
    (hb : tr[j]? = some b) : ∃ c, tr[i]? = some c := by
  have hj : j < tr.length := by
    rcases Nat.lt_or_ge j tr.length with h | h
    · exact h
    · rw [List.getElem?_eq_none h] at hb; cases hb
  exact ⟨tr[i]'(by omega), List.getElem?_eq_getElem (by omega)⟩

/-! ### the lock-set argument -/

/-- Two events of different goroutines, each made while its goroutine holds the
    same lock instance, not both in shared mode: the earlier happens before the
    later. -/
theorem lockset_orders (tr : Trace) (hwf : wellFormed tr = true) (i j : Nat) (a b : Event) (l : Nat)
    (s1 s2 : Bool) (hij : i < j) (ha : tr[i]? = some a) (hb : tr[j]? = some b) (hne : a.tid ≠ b.tid)
    (h1 : holdsAt tr i a.tid l s1 = true) (h2 : holdsAt tr j b.tid l s2 = true)
    (hx : ¬ (s1 = true ∧ s2 = true)) : HB tr i j := by
  -- the acquisition p < j by b's goroutine of the holding it still has at j
  obtain ⟨p, hpj, hpf, hpall⟩ :=
    last_false (fun q => holdsAt tr q b.tid l s2) (holdsAt_zero tr b.tid l s2) j h2
  obtain ⟨ep, hep⟩ := getElem?_of_lt_some (Nat.le_of_lt hpj) hb
  have hp1 : holdsAt tr (p + 1) b.tid l s2 = true := hpall (p + 1) (Nat.lt_succ_self p) hpj
  have hpf' : ({ tid := b.tid, l := l, shared := s2 } : Hold) ∉ st tr p := by
    intro hm; rw [(holdsAt_iff tr p b.tid l s2).2 hm] at hpf; cases hpf
  have hp1' := (holdsAt_iff tr (p + 1) b.tid l s2).1 hp1
  rw [st_succ tr p ep hep] at hp1'
  obtain ⟨hept, hepe⟩ := mem_apply_new _ ep _ hp1' hpf'
  simp only at hept hepe
  -- it comes after i: before i the two holdings would coexist at i
  have hip : i < p := by
    rcases Nat.lt_trichotomy p i with hlt | heq | hgt
    · have hbi : holdsAt tr i b.tid l s2 = true := hpall i hlt (Nat.le_of_lt hij)
      have hI := inv_st tr hwf i _ _ ((holdsAt_iff tr i a.tid l s1).1 h1)
        ((holdsAt_iff tr i b.tid l s2).1 hbi)
        (by intro he; exact hne (congrArg Hold.tid he)) rfl
      exact absurd hI hx
    · subst heq
      rw [ha] at hep; cases hep
      exact absurd hept hne
    · exact hgt
  -- the acquisition was allowed, so a's goroutine no longer had its holding
  have hal := wf_allowed tr hwf p ep hep
  have hap : holdsAt tr p a.tid l s1 = false := by
    cases hh : holdsAt tr p a.tid l s1 with
    | false => rfl
    | true =>
      have hm := (holdsAt_iff tr p a.tid l s1).1 hh
      cases s2 with
      | false =>
        simp only [allowed, hepe, List.all_eq_true] at hal
        have := hal _ hm
        simp at this
      | true =>
        simp only [allowed, hepe, List.all_eq_true] at hal
        have := hal _ hm
        simp at this
        exact absurd ⟨this, rfl⟩ hx
  -- so it released it at some m, i ≤ m < p
  obtain ⟨m, him, hmp, hm1, hm2⟩ :=
    first_drop (fun q => holdsAt tr q a.tid l s1) i h1 p hip hap
  obtain ⟨em, hem⟩ := getElem?_of_lt_some (Nat.le_of_lt hmp) hep
  have hm1' := (holdsAt_iff tr m a.tid l s1).1 hm1
  have hm2' : ({ tid := a.tid, l := l, shared := s1 } : Hold) ∉ st tr (m + 1) := by
    intro hmem
    have hc : holdsAt tr (m + 1) a.tid l s1 = true := (holdsAt_iff tr (m + 1) a.tid l s1).2 hmem
    have hm2'' : holdsAt tr (m + 1) a.tid l s1 = false := hm2
    rw [hc] at hm2''; cases hm2''
  rw [st_succ tr m em hem] at hm2'
  obtain ⟨hemt, heme⟩ := mem_apply_lost _ em _ hm1' hm2'
  simp only at hemt heme
  -- i ≤po m <sync p <po j
  have hmp' : HB tr m p := HB.sync m p em ep l s1 s2 hmp hem hep heme hepe hx
  have hpj' : HB tr p j := HB.po p j ep b hpj hep hb hept
  have hmj : HB tr m j := HB.trans m p j hmp' hpj'
  rcases Nat.lt_or_ge i m with hlt | hge
  · exact HB.trans i m j (HB.po i m a em hlt ha hem hemt.symm) hmj
  · have : i = m := by omega
    subst this; exact hmj

/-- conflicting accesses made under a common lock, not both in shared mode, do not race. -/
theorem common_lock_no_race (tr : Trace) (hwf : wellFormed tr = true) (i j : Nat) (a b : Event) (l : Nat)
    (s1 s2 : Bool) (hij : i < j) (ha : tr[i]? = some a) (hb : tr[j]? = some b) (hne : a.tid ≠ b.tid)
    (h1 : holdsAt tr i a.tid l s1 = true) (h2 : holdsAt tr j b.tid l s2 = true)
    (hx : ¬ (s1 = true ∧ s2 = true)) : ¬ Race tr i j := by
  rintro ⟨a', b', loc, w1, w2, _, ha', hb', _, _, _, _, hnhb⟩
  exact hnhb (lockset_orders tr hwf i j a b l s1 s2 hij ha hb hne h1 h2 hx)

/-- the consistent-locking discipline: every access of a location holds that
    location's guard lock, writes exclusively — then no two accesses race. -/
theorem guarded_locations_race_free (tr : Trace) (hwf : wellFormed tr = true) (guard : Nat → Nat)
    (hg : ∀ i a loc w, tr[i]? = some a → a.ev = .access loc w →
      (holdsAt tr i a.tid (guard loc) false = true ∨
        (w = false ∧ holdsAt tr i a.tid (guard loc) true = true))) :
    ∀ i j, ¬ Race tr i j := by
  rintro i j ⟨a, b, loc, w1, w2, hij, ha, hb, hne, hea, heb, hw, hnhb⟩
  apply hnhb
  rcases hg i a loc w1 ha hea with g1 | ⟨hw1, g1⟩
  · rcases hg j b loc w2 hb heb with g2 | ⟨_, g2⟩
    · exact lockset_orders tr hwf i j a b (guard loc) false false hij ha hb hne g1 g2 (by simp)
    · exact lockset_orders tr hwf i j a b (guard loc) false true hij ha hb hne g1 g2 (by simp)
  · rcases hg j b loc w2 hb heb with g2 | ⟨hw2, g2⟩
    · exact lockset_orders tr hwf i j a b (guard loc) true false hij ha hb hne g1 g2 (by simp)
    · subst hw1; subst hw2; simp at hw

/-! ### what a happens-before path between two goroutines must contain -/

/-- a happens-before path leaving goroutine `a.tid` contains a release by that goroutine. -/
theorem hb_needs_release {tr : Trace} {i j : Nat} (h : HB tr i j) :
    ∀ a b, tr[i]? = some a → tr[j]? = some b → a.tid ≠ b.tid →
      ∃ m e l s, i ≤ m ∧ m < j ∧ tr[m]? = some e ∧ e.tid = a.tid ∧ e.ev = .rel l s := by
  induction h with
  | po i j a' b' hij ha' hb' ht =>
    intro a b ha hb hne
    rw [ha] at ha'; rw [hb] at hb'; cases ha'; cases hb'
    exact absurd ht hne
  | sync i j a' b' l s1 s2 hij ha' hb' hr hq hx =>
    intro a b ha hb hne
    rw [ha] at ha'; cases ha'
    exact ⟨i, _, l, s1, Nat.le_refl i, hij, ha, rfl, hr⟩
  | trans i j k hij hjk ih1 ih2 =>
    intro a b ha hb hne
    have l1 := hb_lt hij
    have l2 := hb_lt hjk
    obtain ⟨c, hc⟩ := getElem?_of_lt_some (Nat.le_of_lt l2) hb
    by_cases hac : a.tid = c.tid
    · obtain ⟨m, e, l, s, h1, h2, h3, h4, h5⟩ := ih2 c b hc hb (by rw [← hac]; exact hne)
      exact ⟨m, e, l, s, by omega, h2, h3, by rw [h4, hac], h5⟩
    · obtain ⟨m, e, l, s, h1, h2, h3, h4, h5⟩ := ih1 a c ha hc hac
      exact ⟨m, e, l, s, h1, by omega, h3, h4, h5⟩

/-- a happens-before path entering goroutine `b.tid` contains an acquisition by that goroutine. -/
theorem hb_needs_acquire {tr : Trace} {i j : Nat} (h : HB tr i j) :
    ∀ a b, tr[i]? = some a → tr[j]? = some b → a.tid ≠ b.tid →
      ∃ n e l s, i < n ∧ n ≤ j ∧ tr[n]? = some e ∧ e.tid = b.tid ∧ e.ev = .acq l s := by
  induction h with
  | po i j a' b' hij ha' hb' ht =>
    intro a b ha hb hne
    rw [ha] at ha'; rw [hb] at hb'; cases ha'; cases hb'
    exact absurd ht hne
  | sync i j a' b' l s1 s2 hij ha' hb' hr hq hx =>
    intro a b ha hb hne
    rw [hb] at hb'; cases hb'
    exact ⟨j, _, l, s2, hij, Nat.le_refl j, hb, rfl, hq⟩
  | trans i j k hij hjk ih1 ih2 =>
    intro a b ha hb hne
    have l1 := hb_lt hij
    have l2 := hb_lt hjk
    obtain ⟨c, hc⟩ := getElem?_of_lt_some (Nat.le_of_lt l2) hb
    by_cases hcb : c.tid = b.tid
    · obtain ⟨n, e, l, s, h1, h2, h3, h4, h5⟩ := ih1 a c ha hc (by rw [hcb]; exact hne)
      exact ⟨n, e, l, s, h1, by omega, h3, by rw [h4, hcb], h5⟩
    · obtain ⟨n, e, l, s, h1, h2, h3, h4, h5⟩ := ih2 c b hc hb hcb
      exact ⟨n, e, l, s, by omega, h2, h3, h4, h5⟩

end Rv.Lemmas.Race
