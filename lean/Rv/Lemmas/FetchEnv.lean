import Rv.Model.Fetch
import Rv.Lemmas.FetchB
/-
  Rv.Lemmas.FetchEnv — lemmas about `Rv.Fetch.dedupFetchEnv` / `handleEnv`: the
  request state machine with the window between the cache lookup (`c`) and the
  processing of the origin's answer (`cMid`) made explicit.  Core Lean only.

  Everything here holds for EVERY `cMid`: nothing is assumed about what
  eviction, cleanup, deletes or other requests did to the store while the
  origin was answering.

  Plan: `dedupFetchEnv` in normal form (`dedupFetchEnv_shape`: the uncoalesced
  branch is `dedupFetch` on `cMid`; the coalesced branches are
  `FetchB.afterFetch` of one `fetchUpstream` on `cMid`), the facts the
  properties need (`dfEnv_facts`), `handleEnv` as `FetchB.handleAux`
  (`handleEnv_eq`), a status table for `handleAux`, then the C09 properties.
-/
namespace Rv.Lemmas.FetchEnv
open Rv Rv.Fetch
open Rv.Lemmas.FetchB

/-! ### `dedupFetchEnv` -/

theorem dedupFetch_eq_env (cfg : Cfg) (tbl : Nat → Option ORes) (c : Cache) (now : Int) (r : Req)
    (range : Option Str) (rp : Bool) :
    dedupFetch cfg tbl c now r range rp = dedupFetchEnv cfg tbl c c now r range rp := rfl

/-- the four branches of `dedupFetchEnv`. Only the lookup looks at `c`; every
    upstream exchange is processed against `cMid`. -/
theorem dedupFetchEnv_shape (cfg : Cfg) (tbl : Nat → Option ORes) (c cMid : Cache) (now : Int) (r : Req)
    (range : Option Str) (rp : Bool) :
    -- uncoalesced: no lookup at all, so only `cMid` matters
    ((rp = true ∨ r.method ≠ "GET") ∧
      dedupFetchEnv cfg tbl c cMid now r range rp = dedupFetch cfg tbl cMid now r range rp) ∨
    -- no entry at lookup time
    (rp = false ∧ r.method = "GET" ∧ lookup c r.res r.query = none ∧
      dedupFetchEnv cfg tbl c cMid now r range rp =
        afterFetch tbl r range .miss (fetchUpstream cfg tbl cMid now (upReq r range) false)) ∨
    -- fresh entry: no upstream exchange, no window
    (∃ e, rp = false ∧ r.method = "GET" ∧ lookup c r.res r.query = some e ∧ ¬ e.expires < now ∧
      dedupFetchEnv cfg tbl c cMid now r range rp =
        { out := .cached e 0, label := .hit, cache := c, log := [], rangeDropped := false }) ∨
    -- stale entry: revalidation with the validators stored in `c`, answer processed against `cMid`
    (∃ e, rp = false ∧ r.method = "GET" ∧ lookup c r.res r.query = some e ∧ e.expires < now ∧
      dedupFetchEnv cfg tbl c cMid now r range rp =
        afterFetch tbl r range .revalidated (fetchUpstream cfg tbl cMid now (condReq r range e) false)) := by
  by_cases h1 : rp = true ∨ r.method ≠ "GET"
  · refine Or.inl ⟨h1, ?_⟩
    have hc : (rp || decide (r.method ≠ "GET")) = true := by
      rcases h1 with h | h <;> simp [h]
    unfold dedupFetch dedupFetchEnv
    simp only [hc, if_true]
  · have hrp : rp = false := by cases rp <;> simp_all
    have hm : r.method = "GET" := by
      by_cases hm : r.method = "GET"
      · exact hm
      · exact absurd (Or.inr hm) h1
    have hc : (rp || decide (r.method ≠ "GET")) = false := by simp [hrp, hm]
    subst hrp
    refine Or.inr ?_
    unfold dedupFetchEnv
    simp only [hc, Bool.false_eq_true, if_false]
    cases hl : lookup c r.res r.query with
    | none => exact Or.inl ⟨trivial, hm, rfl, rfl⟩
    | some e =>
      refine Or.inr ?_
      by_cases hs : e.expires < now
      · refine Or.inr ⟨e, trivial, hm, rfl, hs, ?_⟩
        simp only [hs, not_true, if_false]
        rfl
      · exact Or.inl ⟨e, trivial, hm, rfl, hs, by simp only [hs, not_false_eq_true, if_true]⟩

/-- what the properties need to know about a coalesced fetch after its
    `fetchUpstream` (on whatever cache `cm` the answer met). -/
theorem afterFetch_facts (cfg : Cfg) (tbl : Nat → Option ORes) (cm : Cache) (now : Int) (r : Req)
    (range : Option Str) (label : Label) (u : UpReq) (hres : u.res = r.res) (hq : u.query = r.query) :
    (afterFetch tbl r range label (fetchUpstream cfg tbl cm now u false)).out ≠ .notCacheable ∧
    (∀ a, (afterFetch tbl r range label (fetchUpstream cfg tbl cm now u false)).out = .direct a →
      ∃ x ∈ (afterFetch tbl r range label (fetchUpstream cfg tbl cm now u false)).log, a = originAnswer tbl x) ∧
    (∀ e st, (afterFetch tbl r range label (fetchUpstream cfg tbl cm now u false)).out = .cached e st →
      e ∈ (afterFetch tbl r range label (fetchUpstream cfg tbl cm now u false)).cache ∧
      e.res = r.res ∧ e.query = r.query) := by
  obtain ⟨_, _, _, _, hca⟩ := fu_facts cfg tbl cm now u false
  rcases afterFetch_cases tbl r range label (fetchUpstream cfg tbl cm now u false) with
    ⟨e, st, hfo, heq⟩ | ⟨_, heq⟩
  · rw [heq]
    refine ⟨by simp, by simp, ?_⟩
    intro e1 st1 ha
    simp only [Fetched.cached.injEq] at ha
    obtain ⟨rfl, rfl⟩ := ha
    obtain ⟨h1, h2, h3, _⟩ := hca _ _ hfo
    exact ⟨h1, h2.trans hres, h3.trans hq⟩
  · rw [heq]
    refine ⟨by simp [directFallback], ?_, ?_⟩
    · intro a ha
      simp only [directFallback, Fetched.direct.injEq] at ha
      exact ⟨_, by simp [directFallback], ha.symm⟩
    · intro e st ha
      simp [directFallback] at ha

/-- `FetchB.df_facts` for every mid-flight cache: the fetch never ends in
    `.notCacheable` (every cache-side failure fell back to a direct fetch), a
    relayed answer is the origin's answer to a logged request, an entry handed
    up is in the resulting store under the request's key. -/
theorem dfEnv_facts (cfg : Cfg) (tbl : Nat → Option ORes) (c cMid : Cache) (now : Int) (r : Req)
    (range : Option Str) (rp : Bool) :
    (dedupFetchEnv cfg tbl c cMid now r range rp).out ≠ .notCacheable ∧
    (∀ a, (dedupFetchEnv cfg tbl c cMid now r range rp).out = .direct a →
      ∃ x ∈ (dedupFetchEnv cfg tbl c cMid now r range rp).log, a = originAnswer tbl x) ∧
    (∀ e st, (dedupFetchEnv cfg tbl c cMid now r range rp).out = .cached e st →
      e ∈ (dedupFetchEnv cfg tbl c cMid now r range rp).cache ∧ e.res = r.res ∧ e.query = r.query) := by
  rcases dedupFetchEnv_shape cfg tbl c cMid now r range rp with
    ⟨_, heq⟩ | ⟨_, _, _, heq⟩ | ⟨e, _, _, hl, _, heq⟩ | ⟨e, _, _, _, _, heq⟩
  · rw [heq]
    obtain ⟨h1, h2, h3, _⟩ := df_facts cfg tbl cMid now r range rp
    exact ⟨h1, h2, h3⟩
  · rw [heq]
    exact afterFetch_facts cfg tbl cMid now r range .miss (upReq r range) rfl rfl
  · rw [heq]
    refine ⟨by simp, by simp, ?_⟩
    intro e1 st1 ha
    simp only [Fetched.cached.injEq] at ha
    obtain ⟨rfl, rfl⟩ := ha
    exact lookup_some hl
  · rw [heq]
    exact afterFetch_facts cfg tbl cMid now r range .revalidated (condReq r range e) rfl rfl

/-! ### `handleEnv` -/

/-- the first `dedupFetch` of `handleEnv`. -/
def df1Env (cfg : Cfg) (tbl : Nat → Option ORes) (c cMid : Cache) (now : Int) (r : Req) : DF :=
  dedupFetchEnv cfg tbl c cMid now r r.range (parsedOf r).isSome

/-- the second one (retry without Range), on the store the first one left. -/
def df2Env (cfg : Cfg) (tbl : Nat → Option ORes) (c cMid : Cache) (now : Int) (r : Req) : DF :=
  dedupFetch cfg tbl (df1Env cfg tbl c cMid now r).cache now r none false

theorem handleEnv_eq (cfg : Cfg) (tbl : Nat → Option ORes) (c cMid : Cache) (now : Int) (r : Req) :
    handleEnv cfg tbl c cMid now r =
      handleAux cfg now r (parsedOf r) (df1Env cfg tbl c cMid now r) (df2Env cfg tbl c cMid now r) := rfl

theorem env_agrees_when_unchanged (cfg : Cfg) (tbl : Nat → Option ORes) (c : Cache) (now : Int) (r : Req) :
    handleEnv cfg tbl c c now r = handle cfg tbl c now r := rfl

/-- where the status of `handleAux` comes from, given that neither fetch ended
    in `.notCacheable`: one of the proxy's deliberate 200 / 206 / 416, or the
    status of the answer the first (resp. the retry) fetch relays. -/
theorem handleAux_status (cfg : Cfg) (now : Int) (r : Req) (p : Option (Int × Int)) (d d2 : DF)
    (hn1 : d.out ≠ .notCacheable) (hn2 : d2.out ≠ .notCacheable) :
    (handleAux cfg now r p d d2).1.status = 200 ∨ (handleAux cfg now r p d d2).1.status = 206 ∨
    ((handleAux cfg now r p d d2).1.status = 416 ∧ cfg.retryInvalidRange = false) ∨
    (∃ a, d.out = .direct a ∧ (handleAux cfg now r p d d2).1.status = ansStatus a ∧
      (handleAux cfg now r p d d2).2.2 = d.log) ∨
    (∃ a, d2.out = .direct a ∧ (handleAux cfg now r p d d2).1.status = ansStatus a ∧
      (handleAux cfg now r p d d2).2.2 = d.log ++ d2.log) := by
  rcases d with ⟨out, label, cache, log, rd⟩
  cases out with
  | notCacheable => exact absurd rfl hn1
  | direct a => exact Or.inr (Or.inr (Or.inr (Or.inl ⟨a, rfl, rfl, rfl⟩)))
  | cached e st =>
    cases p with
    | none => exact Or.inl rfl
    | some ab =>
      obtain ⟨a, b⟩ := ab
      cases rd with
      | true => exact Or.inl rfl
      | false =>
        cases hss : Range.sliceSize a b e.o.size with
        | none =>
          cases hri : cfg.retryInvalidRange with
          | false => exact Or.inr (Or.inr (Or.inl ⟨by simp [handleAux, hss, hri, resp416], rfl⟩))
          | true =>
            rcases d2 with ⟨out2, l2, c2, log2, rd2⟩
            cases out2 with
            | notCacheable => exact absurd rfl hn2
            | cached e2 st2 => exact Or.inl (by simp [handleAux, hss, hri, respRetry200])
            | direct a2 =>
              refine Or.inr (Or.inr (Or.inr (Or.inr ⟨a2, rfl, ?_, ?_⟩)))
              · simp [handleAux, hss, hri, respRetryRelay, relay]
              · simp [handleAux, hss, hri]
        | some se =>
          obtain ⟨s, en⟩ := se
          by_cases hm : ifRangeMismatch r e = true
          · refine Or.inl ?_
            simp [handleAux, hss, hm]
            rfl
          · exact Or.inr (Or.inl (by simp [handleAux, hss, hm, resp206]))

/-! ### C09 for every mid-flight cache -/

/-- the status delivered is an origin answer's status for a request in the log,
    or one of the proxy's own deliberate 200 / 206 / 416 — whatever happened to
    the store in the window. -/
theorem status_comes_from_origin_env (cfg : Cfg) (tbl : Nat → Option ORes) (c cMid : Cache) (now : Int) (r : Req) :
    (∃ u ∈ (handleEnv cfg tbl c cMid now r).2.2,
        (handleEnv cfg tbl c cMid now r).1.status = ansStatus (originAnswer tbl u)) ∨
    (handleEnv cfg tbl c cMid now r).1.status = 200 ∨ (handleEnv cfg tbl c cMid now r).1.status = 206 ∨
    ((handleEnv cfg tbl c cMid now r).1.status = 416 ∧ cfg.retryInvalidRange = false) := by
  have f1 := dfEnv_facts cfg tbl c cMid now r r.range (parsedOf r).isSome
  have f2 := df_facts cfg tbl (df1Env cfg tbl c cMid now r).cache now r none false
  rw [handleEnv_eq]
  rcases handleAux_status cfg now r (parsedOf r) (df1Env cfg tbl c cMid now r) (df2Env cfg tbl c cMid now r)
      f1.1 f2.1 with h | h | h | ⟨a, ho, hs, hl⟩ | ⟨a, ho, hs, hl⟩
  · exact Or.inr (Or.inl h)
  · exact Or.inr (Or.inr (Or.inl h))
  · exact Or.inr (Or.inr (Or.inr h))
  · obtain ⟨x, hx, rfl⟩ := f1.2.1 a ho
    exact Or.inl ⟨x, by rw [hl]; exact hx, hs⟩
  · obtain ⟨x, hx, rfl⟩ := f2.2.1 a ho
    exact Or.inl ⟨x, by rw [hl]; exact List.mem_append_right _ hx, hs⟩

/-- a 502 (or 500) the client sees is the origin's own, relayed: it is the
    status of the origin's answer to one of the logged upstream requests. -/
theorem gateway_error_is_the_origins_env (cfg : Cfg) (tbl : Nat → Option ORes) (c cMid : Cache) (now : Int) (r : Req)
    (k : Nat) (hk : k = 502 ∨ k = 500) (h : (handleEnv cfg tbl c cMid now r).1.status = k) :
    ∃ u ∈ (handleEnv cfg tbl c cMid now r).2.2, ansStatus (originAnswer tbl u) = k := by
  rcases status_comes_from_origin_env cfg tbl c cMid now r with ⟨u, hu, hs⟩ | h2 | h2 | ⟨h2, _⟩
  · exact ⟨u, hu, hs.symm.trans h⟩
  · rw [h2] at h; rcases hk with rfl | rfl <;> cases h
  · rw [h2] at h; rcases hk with rfl | rfl <;> cases h
  · rw [h2] at h; rcases hk with rfl | rfl <;> cases h

/-- `FetchB.never_gateway_error` for every mid-flight cache. -/
theorem never_gateway_error_env (cfg : Cfg) (tbl : Nat → Option ORes) (c cMid : Cache) (now : Int) (r : Req) :
    (handleEnv cfg tbl c cMid now r).1.status ≠ 502 ∧ (handleEnv cfg tbl c cMid now r).1.status ≠ 500
      ∨ ∃ u, (ansStatus (originAnswer tbl u) = 502 ∨ ansStatus (originAnswer tbl u) = 500) := by
  by_cases h1 : (handleEnv cfg tbl c cMid now r).1.status = 502
  · obtain ⟨u, _, hu⟩ := gateway_error_is_the_origins_env cfg tbl c cMid now r 502 (Or.inl rfl) h1
    exact Or.inr ⟨u, Or.inl hu⟩
  · by_cases h2 : (handleEnv cfg tbl c cMid now r).1.status = 500
    · obtain ⟨u, _, hu⟩ := gateway_error_is_the_origins_env cfg tbl c cMid now r 500 (Or.inr rfl) h2
      exact Or.inr ⟨u, Or.inr hu⟩
    · exact Or.inl ⟨h1, h2⟩

/-- the scripted origin answers with a record's own status, or 304 / 206 / 416 /
    404. -/
theorem originAnswer_status (tbl : Nat → Option ORes) (u : UpReq) :
    (∃ o, tbl u.res = some o ∧ ansStatus (originAnswer tbl u) = o.status) ∨
    ansStatus (originAnswer tbl u) = 304 ∨ ansStatus (originAnswer tbl u) = 206 ∨
    ansStatus (originAnswer tbl u) = 416 ∨ ansStatus (originAnswer tbl u) = 404 := by
  unfold originAnswer
  cases ht : tbl u.res with
  | none => simp [ansStatus]
  | some o =>
    simp only
    repeat' split
    all_goals simp [ansStatus]

/-- an origin none of whose resources answers 502: the client never sees a 502,
    for every lookup-time cache and every mid-flight cache. -/
theorem never_bad_gateway_env (cfg : Cfg) (tbl : Nat → Option ORes) (c cMid : Cache) (now : Int) (r : Req)
    (ho : ∀ k o, tbl k = some o → o.status ≠ 502) :
    (handleEnv cfg tbl c cMid now r).1.status ≠ 502 := by
  intro h
  obtain ⟨u, _, hu⟩ := gateway_error_is_the_origins_env cfg tbl c cMid now r 502 (Or.inl rfl) h
  rcases originAnswer_status tbl u with ⟨o, ht, hs⟩ | hs | hs | hs | hs
  · exact ho _ o ht (hs.symm.trans hu)
  all_goals (rw [hs] at hu; cases hu)

/-! ### the entry vanished while the origin was answering 304 -/

theorem dedupFetchEnv_stale (cfg : Cfg) (tbl : Nat → Option ORes) (c cMid : Cache) (now : Int) (r : Req)
    (range : Option Str) (e : CEntry)
    (hm : r.method = "GET") (he : lookup c r.res r.query = some e) (hs : e.expires < now) :
    dedupFetchEnv cfg tbl c cMid now r range false =
      afterFetch tbl r range .revalidated (fetchUpstream cfg tbl cMid now (condReq r range e) false) := by
  rcases dedupFetchEnv_shape cfg tbl c cMid now r range false with
    ⟨h | h, _⟩ | ⟨_, _, hl, _⟩ | ⟨e', _, _, hl, hf, _⟩ | ⟨e', _, _, hl, _, heq⟩
  · cases h
  · exact absurd hm h
  · rw [he] at hl; cases hl
  · rw [he] at hl; cases hl; exact absurd hs hf
  · rw [he] at hl; cases hl; exact heq

theorem handleEnv_stale (cfg : Cfg) (tbl : Nat → Option ORes) (c cMid : Cache) (now : Int) (r : Req) (e : CEntry)
    (hm : r.method = "GET") (hr : r.range = none) (he : lookup c r.res r.query = some e) (hs : e.expires < now) :
    handleEnv cfg tbl c cMid now r =
      plainStep tbl now r .revalidated (fetchUpstream cfg tbl cMid now (condReq r none e) false) := by
  have h1 : df1Env cfg tbl c cMid now r =
      afterFetch tbl r none .revalidated (fetchUpstream cfg tbl cMid now (condReq r none e) false) := by
    unfold df1Env
    rw [parsedOf_none_range hr, hr]
    exact dedupFetchEnv_stale cfg tbl c cMid now r none e hm he hs
  rw [handleEnv_eq, parsedOf_none_range hr, h1, handleAux_plain]

/-- C09, the window made explicit: the lookup found a stale entry, the origin
    answered 304 to the conditional request, and by then the entry was gone
    (`handleUpstream304`: `UpdateMetadata` / `Get` fail → `ErrNotCacheable`).
    The client gets the origin's answer to a second, UNCONDITIONAL request; the
    store is left as it was found. -/
theorem vanished_entry_falls_back_env (cfg : Cfg) (tbl : Nat → Option ORes) (c cMid : Cache) (now : Int) (r : Req)
    (e : CEntry) (o' : ORes)
    (hm : r.method = "GET") (hr : r.range = none) (he : lookup c r.res r.query = some e) (hs : e.expires < now)
    (ha : originAnswer tbl { res := r.res, method := "GET", query := r.query, inm := e.o.etag, ims := lmOf e, range := none } = .notModified o')
    (hv : lookup cMid r.res r.query = none) :
    handleEnv cfg tbl c cMid now r =
      (relay (originAnswer tbl (upReq r none)) r.method .miss, cMid,
        [{ res := r.res, method := "GET", query := r.query, inm := e.o.etag, ims := lmOf e, range := none }, upReq r none]) := by
  rw [← condReq_get r e hm] at ha ⊢
  have hv' : lookup cMid (condReq r none e).res (condReq r none e).query = none := hv
  have hoa : onAnswer cfg cMid now (condReq r none e) (.notModified o') = (.notCacheable, cMid) := by
    simp only [onAnswer, hv']
  rw [handleEnv_stale cfg tbl c cMid now r e hm hr he hs, fetchUpstream_notModified cfg tbl cMid now _ _ o' ha, hoa]
  rfl

end Rv.Lemmas.FetchEnv
