import Rv.Model.Store
import Rv.Spec.AbsCache
import Rv.Spec.Lru
import Rv.Lemmas.StoreInv
/-
  Rv.Lemmas.StoreEvict — helper lemmas and proofs for Props/C13 (eviction order,
  eviction target, cleanup).  Core Lean only.
-/
namespace Rv.Lemmas.StoreEvict
open Rv.Store Rv.Spec.AbsCache Rv.Spec.Lru

/-! ### lists of entries -/

theorem totalSize_nil : totalSize [] = 0 := rfl

theorem totalSize_cons (e : Entry) (es : List Entry) :
    totalSize (e :: es) = (e.size : Int) + totalSize es := by
  simp only [totalSize, List.map_cons, List.sum_cons]

theorem filter_true' {α : Type} (l : List α) : l.filter (fun _ => true) = l :=
  List.filter_eq_self.2 (fun _ _ => rfl)

theorem lookup_nil (k : Nat) : lookup [] k = none := rfl

theorem lookup_cons (x : Entry) (xs : List Entry) (k : Nat) :
    lookup (x :: xs) k = if x.key = k then some x else lookup xs k := by
  simp only [lookup, List.find?_cons]
  by_cases h : x.key = k <;> simp [h]

theorem erase_nil (k : Nat) : erase [] k = [] := rfl

theorem erase_cons (x : Entry) (xs : List Entry) (k : Nat) :
    erase (x :: xs) k = if x.key = k then erase xs k else x :: erase xs k := by
  simp only [erase, List.filter_cons]
  by_cases h : x.key = k <;> simp [h]

theorem dirLookup_cons (x : DirEnt) (xs : List DirEnt) (k : Nat) :
    dirLookup (x :: xs) k = if x.key = k then some x else dirLookup xs k := by
  simp only [dirLookup, List.find?_cons]
  by_cases h : x.key = k <;> simp [h]

theorem dirErase_cons (x : DirEnt) (xs : List DirEnt) (k : Nat) :
    dirErase (x :: xs) k = if x.key = k then dirErase xs k else x :: dirErase xs k := by
  simp only [dirErase, List.filter_cons]
  by_cases h : x.key = k <;> simp [h]

theorem lookup_some_mem {es : List Entry} {k : Nat} {e : Entry} (h : lookup es k = some e) :
    e ∈ es ∧ e.key = k := by
  induction es with
  | nil => simp [lookup_nil] at h
  | cons x xs ih =>
    rw [lookup_cons] at h
    by_cases hx : x.key = k
    · rw [if_pos hx] at h
      cases h
      exact ⟨List.mem_cons_self, hx⟩
    · rw [if_neg hx] at h
      exact ⟨List.mem_cons_of_mem _ (ih h).1, (ih h).2⟩

theorem lookup_none_iff {es : List Entry} {k : Nat} :
    lookup es k = none ↔ ∀ e ∈ es, e.key ≠ k := by
  induction es with
  | nil => simp [lookup_nil]
  | cons x xs ih =>
    rw [lookup_cons]
    by_cases hx : x.key = k
    · simp [hx]
    · simp [hx, ih]

theorem erase_of_lookup_none {es : List Entry} {k : Nat} (h : lookup es k = none) :
    erase es k = es := by
  rw [erase, List.filter_eq_self]
  intro a ha
  simpa using lookup_none_iff.1 h a ha

/-- with distinct keys, the entry found under a key is the only one with that key. -/
theorem lookup_unique {es : List Entry} (hd : KeysDistinct es) {k : Nat} {e e' : Entry}
    (h : lookup es k = some e) (hm : e' ∈ es) (hk : e'.key = k) : e' = e := by
  induction es with
  | nil => cases hm
  | cons x xs ih =>
    rw [KeysDistinct, List.pairwise_cons] at hd
    rw [lookup_cons] at h
    by_cases hx : x.key = k
    · rw [if_pos hx] at h
      cases h
      rcases List.mem_cons.1 hm with rfl | hm'
      · rfl
      · exact absurd (hx.trans hk.symm) (hd.1 e' hm')
    · rw [if_neg hx] at h
      rcases List.mem_cons.1 hm with rfl | hm'
      · exact absurd hk hx
      · exact ih hd.2 h hm'

theorem lookup_erase (es : List Entry) (k k' : Nat) :
    lookup (erase es k) k' = if k' = k then none else lookup es k' := by
  induction es with
  | nil => simp [erase_nil, lookup_nil]
  | cons x xs ih =>
    rw [erase_cons]
    by_cases hx : x.key = k
    · rw [if_pos hx, ih, lookup_cons]
      by_cases hk : k' = k
      · simp [hk]
      · have : ¬ x.key = k' := fun e => hk (e.symm.trans hx)
        simp [hk, this]
    · rw [if_neg hx, lookup_cons, ih, lookup_cons]
      by_cases hk : k' = k
      · simp [hk, hx]
      · simp [hk]

theorem dirLookup_dirErase (d : List DirEnt) (k k' : Nat) :
    dirLookup (dirErase d k) k' = if k' = k then none else dirLookup d k' := by
  induction d with
  | nil => simp [dirErase, dirLookup]
  | cons x xs ih =>
    rw [dirErase_cons]
    by_cases hx : x.key = k
    · rw [if_pos hx, ih, dirLookup_cons]
      by_cases hk : k' = k
      · simp [hk]
      · have : ¬ x.key = k' := fun e => hk (e.symm.trans hx)
        simp [hk, this]
    · rw [if_neg hx, dirLookup_cons, ih, dirLookup_cons]
      by_cases hk : k' = k
      · simp [hk, hx]
      · simp [hk]

theorem keysDistinct_erase {es : List Entry} (h : KeysDistinct es) (k : Nat) :
    KeysDistinct (erase es k) :=
  List.Pairwise.filter _ h

theorem dirDistinct_dirErase {d : List DirEnt} (h : DirDistinct d) (k : Nat) :
    DirDistinct (dirErase d k) :=
  List.Pairwise.filter _ h

theorem totalSize_erase {es : List Entry} (hd : KeysDistinct es) {k : Nat} {e : Entry}
    (h : lookup es k = some e) : totalSize (erase es k) = totalSize es - e.size := by
  induction es with
  | nil => simp [lookup_nil] at h
  | cons x xs ih =>
    rw [KeysDistinct, List.pairwise_cons] at hd
    rw [lookup_cons] at h
    rw [erase_cons]
    by_cases hx : x.key = k
    · rw [if_pos hx] at h
      cases h
      rw [if_pos hx, totalSize_cons]
      have hn : lookup xs k = none :=
        lookup_none_iff.2 (fun a ha e => hd.1 a ha (hx.trans e.symm))
      rw [erase_of_lookup_none hn]
      omega
    · rw [if_neg hx] at h
      rw [if_neg hx, totalSize_cons, totalSize_cons, ih hd.2 h]
      omega

theorem length_erase {es : List Entry} (hd : KeysDistinct es) {k : Nat} {e : Entry}
    (h : lookup es k = some e) : ((erase es k).length : Int) = (es.length : Int) - 1 := by
  induction es with
  | nil => simp [lookup_nil] at h
  | cons x xs ih =>
    rw [KeysDistinct, List.pairwise_cons] at hd
    rw [lookup_cons] at h
    rw [erase_cons]
    by_cases hx : x.key = k
    · rw [if_pos hx] at h
      cases h
      rw [if_pos hx]
      have hn : lookup xs k = none :=
        lookup_none_iff.2 (fun a ha e => hd.1 a ha (hx.trans e.symm))
      rw [erase_of_lookup_none hn, List.length_cons]
      omega
    · rw [if_neg hx] at h
      rw [if_neg hx, List.length_cons, List.length_cons]
      have := ih hd.2 h
      omega

/-! ### `removeEntry` -/

theorem removeEntry_entries (st : St) (k : Nat) :
    (removeEntry st k).1.entries = erase st.entries k := by
  unfold removeEntry
  cases hb : st.backend with
  | mem =>
    simp only [memRemove]
    cases hl : lookup st.entries k with
    | none => exact (erase_of_lookup_none hl).symm
    | some e => rfl
  | file =>
    simp only [fileRemove]
    cases dirLookup st.dir k <;> rfl

theorem removeEntry_now (st : St) (k : Nat) : (removeEntry st k).1.now = st.now := by
  unfold removeEntry
  cases hb : st.backend with
  | mem =>
    simp only [memRemove]
    cases lookup st.entries k <;> rfl
  | file =>
    simp only [fileRemove]
    cases dirLookup st.dir k <;> rfl

theorem removeEntry_preserves {st : St} (h : Inv st) (k : Nat) : Inv (removeEntry st k).1 := by
  unfold removeEntry
  cases hb : st.backend with
  | mem =>
    simp only [memRemove]
    cases hl : lookup st.entries k with
    | none => exact h
    | some e =>
      exact {
        keys := keysDistinct_erase h.keys k
        bytes := by
          show st.byteSize - (e.size : Int) = totalSize (erase st.entries k)
          rw [totalSize_erase h.keys hl, h.bytes]
        mbytes := by
          show st.mBytes - (e.size : Int) = st.byteSize - (e.size : Int)
          rw [h.mbytes]
        mentries := by
          show st.mEntries - 1 = ((erase st.entries k).length : Int)
          rw [length_erase h.keys hl, h.mentries]
        dirMem := fun _ => h.dirMem hb
        dirKeys := h.dirKeys
        dirFile := fun hf => by
          have : st.backend = Backend.file := hf
          rw [hb] at this
          cases this }
  | file =>
    simp only [fileRemove]
    have hdf := h.dirFile hb k
    cases hdl : dirLookup st.dir k with
    | none =>
      rw [hdl] at hdf
      have hl : lookup st.entries k = none := by
        cases hl : lookup st.entries k with
        | none => rfl
        | some e => rw [hl] at hdf; cases hdf
      show Inv { st with entries := erase st.entries k }
      rw [erase_of_lookup_none hl]
      exact h
    | some f =>
      rw [hdl] at hdf
      cases hl : lookup st.entries k with
      | none => rw [hl] at hdf; cases hdf
      | some e =>
        rw [hl] at hdf
        simp only [Option.map_some, Option.some.injEq, Prod.mk.injEq] at hdf
        exact {
          keys := keysDistinct_erase h.keys k
          bytes := by
            show st.byteSize - (f.size : Int) = totalSize (erase st.entries k)
            rw [totalSize_erase h.keys hl, h.bytes, hdf.2]
          mbytes := by
            show st.mBytes - (f.size : Int) = st.byteSize - (f.size : Int)
            rw [h.mbytes]
          mentries := by
            show st.mEntries - 1 = ((erase st.entries k).length : Int)
            rw [length_erase h.keys hl, h.mentries]
          dirMem := fun hm => by
            have : st.backend = Backend.mem := hm
            rw [hb] at this
            cases this
          dirKeys := dirDistinct_dirErase h.dirKeys k
          dirFile := fun _ k' => by
            show (dirLookup (dirErase st.dir k) k').map _ = (lookup (erase st.entries k) k').map _
            rw [dirLookup_dirErase, lookup_erase]
            by_cases hk : k' = k
            · simp [hk]
            · simp only [if_neg hk]
              exact h.dirFile hb k' }

/-! ### trivial ones -/

theorem below_limit_no_eviction (st : St) (h : st.byteSize < st.cfgLimit) :
    ensure st = (st, []) := by
  simp only [ensure, if_pos h]

theorem store_below_limit_no_eviction (st : St) (k ver size : Nat) (exp : Int) (f : Fault)
    (h : st.byteSize < (match st.backend with | .mem => min st.limit st.memCap | .file => st.limit)) :
    (store st k ver size exp f).2.2 = [] := by
  unfold store
  cases hb : st.backend with
  | mem =>
    rw [hb] at h
    have h' : ¬ st.byteSize ≥ min st.limit st.memCap := Int.not_le.2 h
    simp only [memStore, if_neg h']
    cases f <;> rfl
  | file =>
    rw [hb] at h
    have h' : ¬ st.byteSize ≥ st.limit := Int.not_le.2 h
    simp only [fileStore, if_neg h']
    cases f <;> dsimp only <;> (try split) <;> rfl

theorem limit_change_governs (st : St) (n : Int) :
    (setLimit st n).cfgLimit = n ∧ (setLimit st n).limit = n ∧
    (ensure (setLimit st n) = (if st.byteSize < n then (setLimit st n, []) else evict (setLimit st n) n (fun _ => false))) :=
  ⟨rfl, rfl, rfl⟩

/-! ### the candidate order -/

theorem desc_cons (now : Int) (a : Entry) (l : List Entry) :
    Desc now (a :: l) ↔ (∀ b, l.head? = some b → priority now a ≥ priority now b) ∧ Desc now l := by
  cases l with
  | nil => simp [Desc]
  | cons b rest => simp [Desc]

theorem insertDesc_head (now : Int) (e : Entry) (l : List Entry) :
    (insertDesc now e l).head? = some e ∨ (insertDesc now e l).head? = l.head? := by
  cases l with
  | nil => exact Or.inl rfl
  | cons x xs =>
    simp only [insertDesc]
    split
    · exact Or.inr rfl
    · exact Or.inl rfl

theorem insertDesc_desc (now : Int) (e : Entry) (l : List Entry) (h : Desc now l) :
    Desc now (insertDesc now e l) := by
  induction l with
  | nil => exact True.intro
  | cons x xs ih =>
    simp only [insertDesc]
    rw [desc_cons] at h
    split
    next hge =>
      rw [desc_cons]
      refine ⟨?_, ih h.2⟩
      intro b hb
      rcases insertDesc_head now e xs with h1 | h1
      · rw [h1] at hb
        cases hb
        exact hge
      · rw [h1] at hb
        exact h.1 b hb
    next hlt =>
      rw [desc_cons]
      refine ⟨?_, (desc_cons now x xs).2 h⟩
      intro b hb
      cases hb
      have : priority now x < priority now e := Int.not_le.1 hlt
      exact Int.le_of_lt this

theorem insertDesc_perm (now : Int) (e : Entry) (l : List Entry) :
    (insertDesc now e l).Perm (e :: l) := by
  induction l with
  | nil => exact List.Perm.refl _
  | cons x xs ih =>
    simp only [insertDesc]
    split
    · exact ((List.Perm.cons x ih).trans (List.Perm.swap e x xs))
    · exact List.Perm.refl _

theorem candidates_sorted (now : Int) (es : List Entry) :
    Desc now (sortDesc now es) ∧ (sortDesc now es).Perm es := by
  induction es with
  | nil => exact ⟨True.intro, List.Perm.refl _⟩
  | cons x xs ih =>
    have e : sortDesc now (x :: xs) = insertDesc now x (sortDesc now xs) := rfl
    rw [e]
    exact ⟨insertDesc_desc now x _ ih.1, (insertDesc_perm now x _).trans (List.Perm.cons x ih.2)⟩

/-! ### the eviction loop without the accumulator -/

def loop (tgt : Int) (skip : Nat → Bool) : List Entry → St → St × List Nat
  | [], st => (st, [])
  | c :: cs, st =>
    if st.byteSize ≤ tgt then (st, [])
    else if skip c.key then loop tgt skip cs st
    else ((loop tgt skip cs (removeEntry st c.key).1).1,
          c.key :: (loop tgt skip cs (removeEntry st c.key).1).2)

theorem evictLoop_eq (tgt : Int) (skip : Nat → Bool) (cs : List Entry) (st : St) (acc : List Nat) :
    evictLoop tgt skip cs st acc = ((loop tgt skip cs st).1, acc.reverse ++ (loop tgt skip cs st).2) := by
  induction cs generalizing st acc with
  | nil => simp [evictLoop, loop]
  | cons c cs ih =>
    simp only [evictLoop, loop]
    by_cases h1 : st.byteSize ≤ tgt
    · simp [if_pos h1]
    · simp only [if_neg h1]
      by_cases h2 : skip c.key = true
      · simp only [if_pos h2]
        exact ih st acc
      · simp only [if_neg h2]
        rw [ih]
        simp

theorem evict_fst (st : St) (limit : Int) (skip : Nat → Bool) :
    (evict st limit skip).1 =
      { (loop (target limit) skip (sortDesc st.now st.entries) st).1 with
        mBytes := (loop (target limit) skip (sortDesc st.now st.entries) st).1.byteSize } := by
  simp only [evict, evictLoop_eq]

theorem evict_snd (st : St) (limit : Int) (skip : Nat → Bool) :
    (evict st limit skip).2 = (loop (target limit) skip (sortDesc st.now st.entries) st).2 := by
  simp only [evict, evictLoop_eq, List.reverse_nil, List.nil_append]

theorem loop_prefix (tgt : Int) (skip : Nat → Bool) (cs : List Entry) (st : St) :
    ∃ n, (loop tgt skip cs st).2 = ((cs.filter (fun e => !skip e.key)).take n).map (·.key) := by
  induction cs generalizing st with
  | nil => exact ⟨0, rfl⟩
  | cons c cs ih =>
    simp only [loop]
    by_cases h1 : st.byteSize ≤ tgt
    · exact ⟨0, by simp [if_pos h1]⟩
    · simp only [if_neg h1]
      by_cases h2 : skip c.key = true
      · simp only [if_pos h2]
        rcases ih st with ⟨n, hn⟩
        exact ⟨n, by rw [hn, List.filter_cons_of_neg (by simp [h2])]⟩
      · simp only [if_neg h2]
        rcases ih (removeEntry st c.key).1 with ⟨n, hn⟩
        refine ⟨n + 1, ?_⟩
        rw [hn, List.filter_cons_of_pos (by simp [h2])]
        rfl

theorem loop_inv (tgt : Int) (skip : Nat → Bool) (cs : List Entry) (st : St) (h : Inv st) :
    Inv (loop tgt skip cs st).1 := by
  induction cs generalizing st with
  | nil => exact h
  | cons c cs ih =>
    simp only [loop]
    by_cases h1 : st.byteSize ≤ tgt
    · simpa [if_pos h1] using h
    · simp only [if_neg h1]
      by_cases h2 : skip c.key = true
      · simp only [if_pos h2]
        exact ih st h
      · simp only [if_neg h2]
        exact ih _ (removeEntry_preserves h c.key)

theorem loop_entries (tgt : Int) (skip : Nat → Bool) (cs : List Entry) (st : St) :
    (loop tgt skip cs st).1.entries =
      st.entries.filter (fun e => !(loop tgt skip cs st).2.contains e.key) := by
  induction cs generalizing st with
  | nil => simp [loop, filter_true']
  | cons c cs ih =>
    simp only [loop]
    by_cases h1 : st.byteSize ≤ tgt
    · simp [if_pos h1, filter_true']
    · simp only [if_neg h1]
      by_cases h2 : skip c.key = true
      · simp only [if_pos h2]
        exact ih st
      · simp only [if_neg h2]
        rw [ih, removeEntry_entries, erase, List.filter_filter]
        apply List.filter_congr
        intro e _
        by_cases hk : e.key = c.key <;> simp [hk]

theorem loop_reaches (tgt : Int) (skip : Nat → Bool) (cs : List Entry) (st : St) :
    (loop tgt skip cs st).1.byteSize ≤ tgt ∨
      ∀ c ∈ cs, skip c.key = false → c.key ∈ (loop tgt skip cs st).2 := by
  induction cs generalizing st with
  | nil => exact Or.inr (fun c hc => nomatch hc)
  | cons c cs ih =>
    simp only [loop]
    by_cases h1 : st.byteSize ≤ tgt
    · simp only [if_pos h1]
      exact Or.inl h1
    · simp only [if_neg h1]
      by_cases h2 : skip c.key = true
      · simp only [if_pos h2]
        rcases ih st with h | h
        · exact Or.inl h
        · refine Or.inr ?_
          intro c' hc' hs
          rcases List.mem_cons.1 hc' with rfl | hc'
          · rw [h2] at hs; cases hs
          · exact h c' hc' hs
      · simp only [if_neg h2]
        rcases ih (removeEntry st c.key).1 with h | h
        · exact Or.inl h
        · refine Or.inr ?_
          intro c' hc' hs
          rcases List.mem_cons.1 hc' with rfl | hc'
          · exact List.mem_cons_self
          · exact List.mem_cons_of_mem _ (h c' hc' hs)

/-- just before the last removal, what is left is still above the target. -/
theorem loop_minimal (tgt : Int) (skip : Nat → Bool) (cs : List Entry) (st : St) (h : Inv st)
    (ks : List Nat) (k : Nat) (hk : (loop tgt skip cs st).2 = ks ++ [k]) :
    totalSize (st.entries.filter (fun e => !ks.contains e.key)) > tgt := by
  induction cs generalizing st ks with
  | nil =>
    simp only [loop] at hk
    cases ks <;> cases hk
  | cons c cs ih =>
    simp only [loop] at hk
    by_cases h1 : st.byteSize ≤ tgt
    · simp only [if_pos h1] at hk
      cases ks <;> cases hk
    · simp only [if_neg h1] at hk
      by_cases h2 : skip c.key = true
      · simp only [if_pos h2] at hk
        exact ih st h ks hk
      · simp only [if_neg h2] at hk
        cases ks with
        | nil =>
          have : st.entries.filter (fun e => !([] : List Nat).contains e.key) = st.entries := by
            rw [List.filter_eq_self]; intro a _; simp
          rw [this, ← h.bytes]
          exact Int.not_le.1 h1
        | cons k0 ks' =>
          simp only [List.cons_append, List.cons.injEq] at hk
          have := ih _ (removeEntry_preserves h c.key) ks' hk.2
          rw [removeEntry_entries, erase, List.filter_filter] at this
          have e : st.entries.filter (fun e => !(k0 :: ks').contains e.key) =
              st.entries.filter (fun a => (!ks'.contains a.key) && decide (a.key ≠ c.key)) := by
            apply List.filter_congr
            intro a _
            rw [← hk.1]
            by_cases hk : a.key = c.key <;> simp [hk]
          rw [e]
          exact this

theorem totalSize_filter_split (p : Entry → Bool) (es : List Entry) :
    totalSize (es.filter p) + totalSize (es.filter (fun e => !p e)) = totalSize es := by
  induction es with
  | nil => rfl
  | cons x xs ih =>
    by_cases hp : p x = true
    · rw [List.filter_cons_of_pos hp, List.filter_cons_of_neg (by simp [hp]),
        totalSize_cons, totalSize_cons]
      omega
    · rw [List.filter_cons_of_neg hp, List.filter_cons_of_pos (by simp [hp]),
        totalSize_cons, totalSize_cons]
      omega

/-! ### `evict` -/

theorem evict_victims_prefix (st : St) (limit : Int) (skip : Nat → Bool) (_h : Inv st) :
    ∃ n, (evict st limit skip).2 =
      (((sortDesc st.now st.entries).filter (fun e => !skip e.key)).take n).map (·.key) := by
  rw [evict_snd]
  exact loop_prefix _ _ _ _

theorem evict_preserves (st : St) (limit : Int) (skip : Nat → Bool) (h : Inv st) :
    Inv (evict st limit skip).1 := by
  rw [evict_fst]
  have hi := loop_inv (target limit) skip (sortDesc st.now st.entries) st h
  exact { keys := hi.keys, bytes := hi.bytes, mbytes := rfl, mentries := hi.mentries,
          dirMem := hi.dirMem, dirKeys := hi.dirKeys, dirFile := hi.dirFile }

theorem evict_removes_exactly (st : St) (limit : Int) (skip : Nat → Bool) (h : Inv st) :
    (evict st limit skip).1.entries = st.entries.filter (fun e => !(evict st limit skip).2.contains e.key) ∧
    Inv (evict st limit skip).1 := by
  refine ⟨?_, evict_preserves st limit skip h⟩
  rw [evict_snd, evict_fst]
  exact loop_entries _ _ _ _

theorem evict_reaches_target (st : St) (limit : Int) (skip : Nat → Bool) (_h : Inv st) :
    (evict st limit skip).1.byteSize ≤ target limit ∨
    ∀ e ∈ st.entries, skip e.key = false → e.key ∈ (evict st limit skip).2 := by
  rw [evict_snd, evict_fst]
  rcases loop_reaches (target limit) skip (sortDesc st.now st.entries) st with hl | hl
  · exact Or.inl hl
  · refine Or.inr ?_
    intro e he
    exact hl e ((candidates_sorted st.now st.entries).2.mem_iff.2 he)

theorem evict_minimal (st : St) (limit : Int) (skip : Nat → Bool) (h : Inv st)
    (ks : List Nat) (k : Nat) (hk : (evict st limit skip).2 = ks ++ [k]) :
    st.byteSize - freed st.entries ks > target limit := by
  rw [evict_snd] at hk
  have := loop_minimal _ _ _ st h ks k hk
  have hs := totalSize_filter_split (fun e => ks.contains e.key) st.entries
  rw [h.bytes]
  unfold freed
  omega

/-! ### the cleanup loop -/

theorem lookup_of_mem {es : List Entry} {e : Entry} (he : e ∈ es) :
    ∃ e', lookup es e.key = some e' := by
  cases hl : lookup es e.key with
  | none => exact absurd rfl (lookup_none_iff.1 hl e he)
  | some e' => exact ⟨e', rfl⟩

theorem cleanLoop_entries (ks : List Nat) (st : St) (acc : List Nat) (h : Inv st) :
    (cleanLoop ks st acc).1.entries =
      st.entries.filter (fun e => !(ks.contains e.key && decide (e.expires < st.now))) := by
  induction ks generalizing st acc with
  | nil => simp [cleanLoop, filter_true']
  | cons k ks ih =>
    simp only [cleanLoop]
    cases hl : lookup st.entries k with
    | none =>
      simp only []
      rw [ih st acc h]
      apply List.filter_congr
      intro e he
      have : e.key ≠ k := lookup_none_iff.1 hl e he
      simp [this]
    | some e0 =>
      simp only []
      by_cases hx : e0.expires < st.now
      · simp only [if_pos hx]
        rw [ih _ _ (removeEntry_preserves h k), removeEntry_entries, removeEntry_now, erase,
          List.filter_filter]
        apply List.filter_congr
        intro e he
        by_cases hk : e.key = k
        · have := lookup_unique h.keys hl he hk
          subst this
          simp [hk, hx]
        · simp [hk]
      · simp only [if_neg hx]
        rw [ih st acc h]
        apply List.filter_congr
        intro e he
        by_cases hk : e.key = k
        · have := lookup_unique h.keys hl he hk
          subst this
          simp [hk, hx]
        · simp [hk]

theorem cleanLoop_removed (ks : List Nat) (st : St) (acc : List Nat) (h : Inv st) (k' : Nat) :
    k' ∈ (cleanLoop ks st acc).2 ↔
      k' ∈ acc ∨ (k' ∈ ks ∧ ∃ e, lookup st.entries k' = some e ∧ e.expires < st.now) := by
  induction ks generalizing st acc with
  | nil => simp [cleanLoop]
  | cons k ks ih =>
    simp only [cleanLoop]
    cases hl : lookup st.entries k with
    | none =>
      simp only []
      rw [ih st acc h]
      by_cases hk : k' = k
      · subst hk
        simp [hl]
      · simp [hk]
    | some e0 =>
      simp only []
      by_cases hx : e0.expires < st.now
      · simp only [if_pos hx]
        rw [ih _ _ (removeEntry_preserves h k), removeEntry_entries, removeEntry_now, lookup_erase]
        by_cases hk : k' = k
        · subst hk
          simp [hl, hx]
        · simp [hk]
      · simp only [if_neg hx]
        rw [ih st acc h]
        by_cases hk : k' = k
        · subst hk
          simp [hl, hx]
        · simp [hk]

theorem cleanRemove_entries (st : St) (ks : List Nat) :
    (cleanRemove st ks).1.entries = (cleanLoop ks st []).1.entries := rfl

theorem cleanRemove_snd (st : St) (ks : List Nat) :
    (cleanRemove st ks).2 = (cleanLoop ks st []).2 := rfl

theorem mem_expiredKeys {st : St} {k : Nat} :
    k ∈ expiredKeys st ↔ ∃ e ∈ st.entries, e.expires < st.now ∧ e.key = k := by
  simp [expiredKeys, List.mem_map, List.mem_filter, and_assoc]

theorem cleanup_exact (st : St) (h : Inv st) :
    (clean st).1.entries = st.entries.filter (fun e => !decide (e.expires < st.now)) ∧
    (∀ k, k ∈ (clean st).2 ↔ k ∈ expiredKeys st) := by
  constructor
  · show (cleanRemove st (expiredKeys st)).1.entries = _
    rw [cleanRemove_entries, cleanLoop_entries _ _ _ h]
    apply List.filter_congr
    intro e he
    by_cases hx : e.expires < st.now
    · have : e.key ∈ expiredKeys st := mem_expiredKeys.2 ⟨e, he, hx, rfl⟩
      simp [hx, this]
    · simp [hx]
  · intro k
    show k ∈ (cleanRemove st (expiredKeys st)).2 ↔ _
    rw [cleanRemove_snd, cleanLoop_removed _ _ _ h]
    constructor
    · intro hk
      rcases hk with hk | hk
      · cases hk
      · exact hk.1
    · intro hk
      refine Or.inr ⟨hk, ?_⟩
      rcases mem_expiredKeys.1 hk with ⟨e, he, hx, rfl⟩
      rcases lookup_of_mem he with ⟨e', he'⟩
      have := lookup_unique h.keys he' he rfl
      subst this
      exact ⟨e, he', hx⟩

theorem foldl_midStep_preserves (hmid : ∀ (st : St) (op : MidOp), Inv st → Inv (midStep st op))
    (mid : List MidOp) (st : St) (h : Inv st) : Inv (mid.foldl midStep st) := by
  induction mid generalizing st with
  | nil => exact h
  | cons op ops ih => exact ih _ (hmid st op h)

/-- the removal loop on any consistent state `st1`, whatever keys were scanned. -/
theorem cleanRemove_window (st1 : St) (scanned : List Nat) (h1 : Inv st1) :
    (cleanRemove st1 scanned).1.entries =
      st1.entries.filter (fun e => !(decide (e.key ∈ scanned) && decide (e.expires < st1.now))) := by
  rw [cleanRemove_entries, cleanLoop_entries _ _ _ h1]
  apply List.filter_congr
  intro e _
  simp

theorem cleanup_window_keeps_fresh (st : St) (mid : List MidOp) (h : Inv st) :
    let st1 := mid.foldl midStep st
    (cleanRemove st1 (expiredKeys st)).1.entries =
      st1.entries.filter (fun e => !(decide (e.key ∈ expiredKeys st) && decide (e.expires < st1.now))) := by
  intro st1
  exact cleanRemove_window st1 (expiredKeys st)
    (foldl_midStep_preserves Rv.Lemmas.StoreInv.midStep_preserves mid st h)

/-! ### the eviction loop over a STALE candidate list (scan, window, removal loop)

  `cacheJanitor.evict` collects and sorts its candidates first; the removal loop
  runs afterwards and reads the live size before every candidate.  Everything
  below holds for ANY candidate list `cs` and ANY state `st1` the loop starts
  from; the `evict_window_*` theorems instantiate `cs` with the candidates
  scanned in `st` and `st1` with `mid.foldl midStep st`. -/

theorem evictLoop_nil_eq (tgt : Int) (skip : Nat → Bool) (cs : List Entry) (st : St) :
    evictLoop tgt skip cs st [] = loop tgt skip cs st := by
  rw [evictLoop_eq]
  simp

/-- at or below the target the loop does nothing, whoever brought the size there. -/
theorem loop_noop_at_target (tgt : Int) (skip : Nat → Bool) (cs : List Entry) (st : St)
    (h : st.byteSize ≤ tgt) : loop tgt skip cs st = (st, []) := by
  cases cs with
  | nil => rfl
  | cons c cs => simp only [loop, if_pos h]

/-- the state in which the loop decides about the removal that follows the
    removals `ks`: the removals so far applied in order (skipped candidates do
    not change the state). -/
def afterRemovals (st : St) (ks : List Nat) : St := ks.foldl (fun s k => (removeEntry s k).1) st

theorem afterRemovals_cons (st : St) (k : Nat) (ks : List Nat) :
    afterRemovals st (k :: ks) = afterRemovals (removeEntry st k).1 ks := rfl

/-- EVERY removal (not only the last one) is decided on a size still above the
    target: if `k` is removed after exactly the removals `ks`, the live size in
    that state exceeded the target.  No invariant is needed. -/
theorem loop_each_removal_above (tgt : Int) (skip : Nat → Bool) (cs : List Entry) (st : St)
    (ks : List Nat) (k : Nat) (rest : List Nat) (hk : (loop tgt skip cs st).2 = ks ++ k :: rest) :
    (afterRemovals st ks).byteSize > tgt := by
  induction cs generalizing st ks with
  | nil =>
    simp only [loop] at hk
    cases ks <;> cases hk
  | cons c cs ih =>
    simp only [loop] at hk
    by_cases h1 : st.byteSize ≤ tgt
    · simp only [if_pos h1] at hk
      cases ks <;> cases hk
    · simp only [if_neg h1] at hk
      by_cases h2 : skip c.key = true
      · simp only [if_pos h2] at hk
        exact ih st ks hk
      · simp only [if_neg h2] at hk
        cases ks with
        | nil => exact Int.not_le.1 h1
        | cons k0 ks' =>
          simp only [List.cons_append, List.cons.injEq] at hk
          rw [afterRemovals_cons, hk.1.symm]
          exact ih _ ks' hk.2

theorem afterRemovals_entries (st : St) (ks : List Nat) :
    (afterRemovals st ks).entries = st.entries.filter (fun e => !ks.contains e.key) := by
  induction ks generalizing st with
  | nil => simp [afterRemovals, filter_true']
  | cons k ks ih =>
    rw [afterRemovals_cons, ih, removeEntry_entries, erase, List.filter_filter]
    apply List.filter_congr
    intro e _
    by_cases hk : e.key = k <;> simp [hk]

theorem afterRemovals_preserves {st : St} (h : Inv st) (ks : List Nat) : Inv (afterRemovals st ks) := by
  induction ks generalizing st with
  | nil => exact h
  | cons k ks ih => exact ih (removeEntry_preserves h k)

/-- on a consistent state the size after the removals `ks` is the size before
    minus the sizes of the LIVE entries under those keys (a key that is no longer
    stored frees nothing, a key stored anew frees its new size). -/
theorem afterRemovals_byteSize {st : St} (h : Inv st) (ks : List Nat) :
    (afterRemovals st ks).byteSize = st.byteSize - freed st.entries ks := by
  rw [(afterRemovals_preserves h ks).bytes, afterRemovals_entries, h.bytes]
  have hs := totalSize_filter_split (fun e => ks.contains e.key) st.entries
  unfold freed
  omega

theorem loop_removed_subset (tgt : Int) (skip : Nat → Bool) (cs : List Entry) (st : St) :
    ∀ k ∈ (loop tgt skip cs st).2, ∃ c ∈ cs, c.key = k ∧ skip c.key = false := by
  intro k hk
  rcases loop_prefix tgt skip cs st with ⟨n, hn⟩
  rw [hn] at hk
  rcases List.mem_map.1 hk with ⟨c, hc, rfl⟩
  have hc' := List.mem_filter.1 (List.mem_of_mem_take hc)
  refine ⟨c, hc'.1, rfl, ?_⟩
  cases hs : skip c.key with
  | false => rfl
  | true => rw [hs] at hc'; exact absurd hc'.2 (by decide)

theorem mem_sortDesc_keys {now : Int} {es : List Entry} {k : Nat} :
    k ∈ (sortDesc now es).map (·.key) ↔ ∃ e ∈ es, e.key = k := by
  rw [List.mem_map]
  constructor
  · rintro ⟨e, he, hk⟩
    exact ⟨e, (candidates_sorted now es).2.mem_iff.1 he, hk⟩
  · rintro ⟨e, he, hk⟩
    exact ⟨e, (candidates_sorted now es).2.mem_iff.2 he, hk⟩

/-! ### `evict` with a window between the scan and the removal loop -/

/-- (W1) the size is at or below the target when the removal loop starts (for
    instance because another client deleted entries in the window): nothing is
    removed. -/
theorem evict_window_noop_at_target (st : St) (mid : List MidOp) (limit : Int) (skip : Nat → Bool)
    (_h : Inv st) (hle : (mid.foldl midStep st).byteSize ≤ target limit) :
    evictLoop (target limit) skip (sortDesc st.now st.entries) (mid.foldl midStep st) [] =
      (mid.foldl midStep st, []) := by
  rw [evictLoop_nil_eq]
  exact loop_noop_at_target _ _ _ _ hle

/-- (W2) the loop ends at or below the target, or it has tried every scanned
    entry whose lock it can take, and none of these keys is stored any more. -/
theorem evict_window_stops_or_exhausts (st : St) (mid : List MidOp) (limit : Int) (skip : Nat → Bool)
    (_h : Inv st) :
    let r := evictLoop (target limit) skip (sortDesc st.now st.entries) (mid.foldl midStep st) []
    r.1.byteSize ≤ target limit ∨
    ∀ c ∈ sortDesc st.now st.entries, skip c.key = false → c.key ∈ r.2 ∧ lookup r.1.entries c.key = none := by
  intro r
  have hr : r = loop (target limit) skip (sortDesc st.now st.entries) (mid.foldl midStep st) :=
    evictLoop_nil_eq _ _ _ _
  rw [hr]
  rcases loop_reaches (target limit) skip (sortDesc st.now st.entries) (mid.foldl midStep st) with hl | hl
  · exact Or.inl hl
  · refine Or.inr ?_
    intro c hc hs
    refine ⟨hl c hc hs, ?_⟩
    rw [lookup_none_iff, loop_entries]
    intro e he hk
    have := (List.mem_filter.1 he).2
    rw [hk] at this
    have hm : (loop (target limit) skip (sortDesc st.now st.entries) (mid.foldl midStep st)).2.contains c.key = true :=
      List.contains_iff_mem.2 (hl c hc hs)
    rw [hm] at this
    exact absurd this (by decide)

/-- (W3) no removal once the target is reached: whenever `k` is removed after
    the removals `ks`, the live size in that very state was above the target. -/
theorem evict_window_minimal (st : St) (mid : List MidOp) (limit : Int) (skip : Nat → Bool)
    (_h : Inv st) (ks : List Nat) (k : Nat) (rest : List Nat)
    (hk : (evictLoop (target limit) skip (sortDesc st.now st.entries) (mid.foldl midStep st) []).2 =
      ks ++ k :: rest) :
    (afterRemovals (mid.foldl midStep st) ks).byteSize > target limit := by
  rw [evictLoop_nil_eq] at hk
  exact loop_each_removal_above _ _ _ _ ks k rest hk

/-- (W3, in the form of `evict_minimal`) the size at the start of the removal
    loop minus what the earlier removals freed there was above the target. -/
theorem evict_window_minimal_freed (st : St) (mid : List MidOp) (limit : Int) (skip : Nat → Bool)
    (h : Inv st) (ks : List Nat) (k : Nat) (rest : List Nat)
    (hk : (evictLoop (target limit) skip (sortDesc st.now st.entries) (mid.foldl midStep st) []).2 =
      ks ++ k :: rest) :
    (mid.foldl midStep st).byteSize - freed (mid.foldl midStep st).entries ks > target limit := by
  have h1 : Inv (mid.foldl midStep st) :=
    foldl_midStep_preserves Rv.Lemmas.StoreInv.midStep_preserves mid st h
  rw [← afterRemovals_byteSize h1 ks]
  exact evict_window_minimal st mid limit skip h ks k rest hk

/-- (W4) only scanned keys whose lock can be taken are ever removed … -/
theorem evict_window_only_scanned (st : St) (mid : List MidOp) (limit : Int) (skip : Nat → Bool)
    (_h : Inv st) :
    ∀ k ∈ (evictLoop (target limit) skip (sortDesc st.now st.entries) (mid.foldl midStep st) []).2,
      k ∈ (sortDesc st.now st.entries).map (·.key) ∧ skip k = false := by
  intro k hk
  rw [evictLoop_nil_eq] at hk
  rcases loop_removed_subset _ _ _ _ k hk with ⟨c, hc, rfl, hs⟩
  exact ⟨List.mem_map.2 ⟨c, hc, rfl⟩, hs⟩

/-- … so whatever is stored when the loop starts under a key that was not stored
    at the scan (written in the window), or under a key whose lock is held,
    survives. -/
theorem evict_window_keeps_unscanned (st : St) (mid : List MidOp) (limit : Int) (skip : Nat → Bool)
    (h : Inv st) :
    ∀ e ∈ (mid.foldl midStep st).entries, ((∀ e0 ∈ st.entries, e0.key ≠ e.key) ∨ skip e.key = true) →
      e ∈ (evictLoop (target limit) skip (sortDesc st.now st.entries) (mid.foldl midStep st) []).1.entries := by
  intro e he hnew
  have hsc := evict_window_only_scanned st mid limit skip h e.key
  rw [evictLoop_nil_eq] at hsc ⊢
  rw [loop_entries, List.mem_filter]
  refine ⟨he, ?_⟩
  cases hc : (loop (target limit) skip (sortDesc st.now st.entries) (mid.foldl midStep st)).2.contains e.key with
  | false => rfl
  | true =>
    have := hsc (List.contains_iff_mem.1 hc)
    rcases hnew with hnew | hnew
    · rcases mem_sortDesc_keys.1 this.1 with ⟨e0, he0, hk0⟩
      exact absurd hk0 (hnew e0 he0)
    · rw [this.2] at hnew; cases hnew

/-- (W5) what is stored afterwards is what was stored when the loop started
    minus the removed keys, and the counters stay exact (so the final
    `BytesCached.Set(size)` changes nothing). -/
theorem evict_window_preserves (st : St) (mid : List MidOp) (limit : Int) (skip : Nat → Bool)
    (h : Inv st) :
    let r := evictLoop (target limit) skip (sortDesc st.now st.entries) (mid.foldl midStep st) []
    Inv r.1 ∧ { r.1 with mBytes := r.1.byteSize } = r.1 ∧
    r.1.entries = (mid.foldl midStep st).entries.filter (fun e => !r.2.contains e.key) := by
  intro r
  have hr : r = loop (target limit) skip (sortDesc st.now st.entries) (mid.foldl midStep st) :=
    evictLoop_nil_eq _ _ _ _
  have h1 : Inv (mid.foldl midStep st) :=
    foldl_midStep_preserves Rv.Lemmas.StoreInv.midStep_preserves mid st h
  have hi : Inv r.1 := by rw [hr]; exact loop_inv _ _ _ _ h1
  refine ⟨hi, ?_, ?_⟩
  · rw [← hi.mbytes]
  · rw [hr]; exact loop_entries _ _ _ _

end Rv.Lemmas.StoreEvict
