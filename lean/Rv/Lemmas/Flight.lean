import Rv.Model.Flight
/-
  Rv.Lemmas.Flight — helper lemmas and proofs for Props/C05.  Core Lean only.
-/
namespace Rv.Lemmas.Flight
open Rv.Flight

/-! ### schedules (identical copies of the definitions in `Rv.Props.C05`) -/

def arrivals (cs : List Nat) : List Step := cs.map .arrive

/-- steps that callers and clients take on their own: acting on the result, hanging up. -/
def CallerSteps (steps : List Step) : Prop := ∀ s ∈ steps, (∃ c, s = .act c) ∨ (∃ c, s = .disconnect c)
def Disconnects (steps : List Step) : Prop := ∀ s ∈ steps, ∃ c, s = .disconnect c

/-! ### `run` -/

theorem run_nil (st : St) : run [] st = st := rfl

theorem run_cons (s : Step) (l : List Step) (st : St) : run (s :: l) st = run l (step st s) := rfl

theorem run_append (a b : List Step) (st : St) : run (a ++ b) st = run b (run a st) := by
  simp only [run, List.foldl_append]

/-- an invariant of every step is an invariant of every run. -/
theorem run_inv {P : St → Prop} (hstep : ∀ st s, P st → P (step st s)) :
    ∀ (l : List Step) (st : St), P st → P (run l st)
  | [], _, h => h
  | s :: l, st, h => run_inv hstep l (step st s) (hstep st s h)

/-- an invariant of the steps of a restricted schedule. -/
theorem run_inv_of {P : St → Prop} {A : Step → Prop} (hstep : ∀ st s, A s → P st → P (step st s)) :
    ∀ (l : List Step) (st : St), (∀ s ∈ l, A s) → P st → P (run l st)
  | [], _, _, h => h
  | s :: l, st, hA, h =>
    run_inv_of hstep l (step st s) (fun x hx => hA x (List.mem_cons_of_mem _ hx))
      (hstep st s (hA s List.mem_cons_self) h)

/-! ### `pcOf` / `setPc` -/

theorem find_filter_ne (c c' : Nat) (h : c' ≠ c) :
    ∀ l : List (Nat × Pc), (l.filter (·.1 ≠ c)).find? (·.1 = c') = l.find? (·.1 = c')
  | [] => rfl
  | x :: l => by
    by_cases hx : x.1 = c
    · have hx' : ¬ x.1 = c' := fun e => h (e.symm.trans hx)
      rw [List.filter_cons_of_neg (by simp [hx]), List.find?_cons_of_neg (by simp [hx']),
        find_filter_ne c c' h l]
    · rw [List.filter_cons_of_pos (by simp [hx])]
      by_cases hx' : x.1 = c'
      · rw [List.find?_cons_of_pos (by simp [hx']), List.find?_cons_of_pos (by simp [hx'])]
      · rw [List.find?_cons_of_neg (by simp [hx']), List.find?_cons_of_neg (by simp [hx']),
          find_filter_ne c c' h l]

theorem pcOf_setPc (st : St) (c c' : Nat) (p : Pc) :
    pcOf (setPc st c p) c' = if c' = c then p else pcOf st c' := by
  unfold pcOf setPc
  by_cases h : c' = c
  · subst h
    rw [if_pos rfl, List.find?_cons_of_pos (by simp)]
    rfl
  · rw [if_neg h, List.find?_cons_of_neg (by simpa using fun e => h e.symm), find_filter_ne c c' h]

theorem pcOf_setPc_self (st : St) (c : Nat) (p : Pc) : pcOf (setPc st c p) c = p := by
  rw [pcOf_setPc, if_pos rfl]

theorem pcOf_setPc_ne (st : St) {c c' : Nat} (p : Pc) (h : c' ≠ c) :
    pcOf (setPc st c p) c' = pcOf st c' := by
  rw [pcOf_setPc, if_neg h]

@[simp] theorem setPc_call (st : St) (c : Nat) (p : Pc) : (setPc st c p).call = st.call := rfl
@[simp] theorem setPc_entry (st : St) (c : Nat) (p : Pc) : (setPc st c p).entry = st.entry := rfl
@[simp] theorem setPc_staleEntry (st : St) (c : Nat) (p : Pc) : (setPc st c p).staleEntry = st.staleEntry := rfl
@[simp] theorem setPc_originVer (st : St) (c : Nat) (p : Pc) : (setPc st c p).originVer = st.originVer := rfl
@[simp] theorem setPc_kind (st : St) (c : Nat) (p : Pc) : (setPc st c p).kind = st.kind := rfl
@[simp] theorem setPc_originLog (st : St) (c : Nat) (p : Pc) : (setPc st c p).originLog = st.originLog := rfl
@[simp] theorem setPc_nextHandle (st : St) (c : Nat) (p : Pc) : (setPc st c p).nextHandle = st.nextHandle := rfl
@[simp] theorem setPc_detached (st : St) (c : Nat) (p : Pc) : (setPc st c p).detached = st.detached := rfl
@[simp] theorem setPc_failed (st : St) (c : Nat) (p : Pc) : (setPc st c p).failed = st.failed := rfl

/-- `pcOf` only looks at `pcs`. -/
theorem pcOf_congr {st st' : St} (h : st'.pcs = st.pcs) (c : Nat) : pcOf st' c = pcOf st c := by
  unfold pcOf; rw [h]

theorem pcOf_init (n : Nat) (e : Option Nat) (s : Bool) (v : Nat) (k : OriginKind) (d : Bool) (c : Nat) :
    pcOf (init n e s v k d) c = .idle := by
  unfold pcOf init
  simp only
  cases hf : List.find? (fun x => decide (x.1 = c)) (List.map (fun c => (c, Pc.idle)) (List.range n)) with
  | none => rfl
  | some x =>
    have hm := List.mem_of_find?_eq_some hf
    rw [List.mem_map] at hm
    obtain ⟨a, _, ha⟩ := hm
    rw [← ha]; rfl

/-! ### `ownFetch` -/

theorem pcOf_ownFetch (st : St) (c c' : Nat) :
    pcOf (ownFetch st c) c' = if c' = c then .responded st.originVer st.nextHandle else pcOf st c' := by
  unfold ownFetch freshHandle
  simp only [pcOf_setPc]
  split
  · rfl
  · exact pcOf_congr rfl c'

@[simp] theorem ownFetch_call (st : St) (c : Nat) : (ownFetch st c).call = st.call := rfl
@[simp] theorem ownFetch_entry (st : St) (c : Nat) : (ownFetch st c).entry = st.entry := rfl
@[simp] theorem ownFetch_staleEntry (st : St) (c : Nat) : (ownFetch st c).staleEntry = st.staleEntry := rfl
@[simp] theorem ownFetch_originVer (st : St) (c : Nat) : (ownFetch st c).originVer = st.originVer := rfl
@[simp] theorem ownFetch_kind (st : St) (c : Nat) : (ownFetch st c).kind = st.kind := rfl
@[simp] theorem ownFetch_originLog (st : St) (c : Nat) : (ownFetch st c).originLog = st.originLog + 1 := rfl
@[simp] theorem ownFetch_nextHandle (st : St) (c : Nat) : (ownFetch st c).nextHandle = st.nextHandle + 1 := rfl
@[simp] theorem ownFetch_detached (st : St) (c : Nat) : (ownFetch st c).detached = st.detached := rfl
@[simp] theorem ownFetch_failed (st : St) (c : Nat) : (ownFetch st c).failed = st.failed := rfl

/-! ### `publish` -/

/-- what a waiting caller of the call becomes when the call returns. -/
def pubTgt (res : Option Result) (shared : Bool) : Pc :=
  match res with
  | some r => .returned r shared
  | none => .gone

def pubStep (res : Option Result) (shared : Bool) (s : St) (c : Nat) : St :=
  match pcOf s c with
  | .waiting =>
    (match res with
      | some r => setPc s c (.returned r shared)
      | none => { setPc s c .gone with failed := c :: s.failed })
  | _ => s

theorem step_publish (st : St) :
    step st .publish =
      match st.call with
      | some call =>
        if !call.fetched then st
        else { List.foldl (pubStep call.result (!call.joined.isEmpty)) st (call.leader :: call.joined) with call := none }
      | none => st := rfl

theorem pubTgt_ne_waiting (res : Option Result) (sh : Bool) : pubTgt res sh ≠ .waiting := by
  unfold pubTgt; split <;> exact fun h => nomatch h

theorem pcOf_pubStep (res : Option Result) (sh : Bool) (s : St) (a c : Nat) :
    pcOf (pubStep res sh s a) c = if c = a ∧ pcOf s a = .waiting then pubTgt res sh else pcOf s c := by
  unfold pubStep
  split
  · rename_i hw
    cases res with
    | some r =>
      simp only [pcOf_setPc, pubTgt, hw, and_true]
    | none =>
      simp only [pubTgt, hw, and_true]
      rw [← pcOf_setPc s a c .gone]
      exact pcOf_congr rfl c
  · rename_i hw
    rw [if_neg (fun h => hw h.2)]

theorem pcOf_pubFold (res : Option Result) (sh : Bool) (c : Nat) :
    ∀ (l : List Nat) (s : St),
      pcOf (List.foldl (pubStep res sh) s l) c =
        if c ∈ l ∧ pcOf s c = .waiting then pubTgt res sh else pcOf s c
  | [], s => by simp
  | a :: l, s => by
    rw [List.foldl_cons, pcOf_pubFold res sh c l, pcOf_pubStep]
    have hne := pubTgt_ne_waiting res sh
    by_cases hca : c = a
    · subst hca
      by_cases hw : pcOf s c = .waiting
      · simp [hw, hne]
      · simp [hw]
    · simp [hca]

/-- every field that `pubStep` leaves alone is left alone by the whole fold. -/
theorem pubFold_field {α : Type} (F : St → α) (res : Option Result) (sh : Bool)
    (hF : ∀ s c, F (pubStep res sh s c) = F s) :
    ∀ (l : List Nat) (s : St), F (List.foldl (pubStep res sh) s l) = F s
  | [], _ => rfl
  | a :: l, s => by rw [List.foldl_cons, pubFold_field F res sh hF l, hF]

theorem pubStep_field {α : Type} (F : St → α) (res : Option Result) (sh : Bool)
    (h1 : ∀ s c p, F (setPc s c p) = F s)
    (h2 : ∀ s (l : List Nat), F { s with failed := l } = F s) (s : St) (c : Nat) :
    F (pubStep res sh s c) = F s := by
  unfold pubStep
  split
  · cases res with
    | some r => exact h1 _ _ _
    | none => exact (h2 _ _).trans (h1 _ _ _)
  · rfl

theorem pubStep_failed_some (r : Result) (sh : Bool) (s : St) (c : Nat) :
    (pubStep (some r) sh s c).failed = s.failed := by
  unfold pubStep
  split <;> rfl


/-! ### invariant A: nobody fails, every version is one the origin produced -/

def Good (v : Nat) (e0 : Option Nat) (x : Nat) : Prop := x = v ∨ e0 = some x

/-- the body version a client holds or is about to be served. -/
def verOf : Pc → Option Nat
  | .returned (.cached _ x) _ => some x
  | .responded x _ => some x
  | _ => none

def GoodPc (v : Nat) (e0 : Option Nat) (p : Pc) : Prop := ∀ x, verOf p = some x → Good v e0 x

structure InvA (v : Nat) (e0 : Option Nat) (st : St) : Prop where
  det : st.detached = true
  ov : st.originVer = v
  failed : st.failed = []
  res : ∀ call, st.call = some call → call.fetched = true → call.result ≠ none
  gEntry : ∀ x, st.entry = some x → Good v e0 x
  gCall : ∀ call h x, st.call = some call → call.result = some (.cached h x) → Good v e0 x
  gPc : ∀ c, GoodPc v e0 (pcOf st c)

theorem goodPc_of_verOf_none {v : Nat} {e0 : Option Nat} {p : Pc} (h : verOf p = none) : GoodPc v e0 p := by
  intro x hx; rw [h] at hx; exact nomatch hx

theorem goodPc_setPc {v : Nat} {e0 : Option Nat} {st : St} (h : ∀ c, GoodPc v e0 (pcOf st c))
    (c : Nat) {p : Pc} (hp : GoodPc v e0 p) : ∀ c', GoodPc v e0 (pcOf (setPc st c p) c') := by
  intro c'
  rw [pcOf_setPc]
  split
  · exact hp
  · exact h c'

theorem invA_setPc {v : Nat} {e0 : Option Nat} {st : St} (h : InvA v e0 st) (c : Nat) {p : Pc}
    (hp : GoodPc v e0 p) : InvA v e0 (setPc st c p) :=
  ⟨h.det, h.ov, h.failed, h.res, h.gEntry, h.gCall, goodPc_setPc h.gPc c hp⟩

theorem invA_init (n : Nat) (e0 : Option Nat) (s : Bool) (v : Nat) (k : OriginKind) :
    InvA v e0 (init n e0 s v k true) := by
  refine ⟨rfl, rfl, rfl, ?_, ?_, ?_, ?_⟩
  · intro call hc; exact nomatch hc
  · intro x hx; exact Or.inr hx
  · intro call h x hc; exact nomatch hc
  · intro c; rw [pcOf_init]; exact goodPc_of_verOf_none rfl

theorem invA_arrive {v : Nat} {e0 : Option Nat} {st : St} (h : InvA v e0 st) (c : Nat) :
    InvA v e0 (step st (.arrive c)) := by
  simp only [step]
  split
  · exact h
  · split
    · rename_i call hc
      split
      · apply invA_setPc _ c (goodPc_of_verOf_none rfl)
        refine ⟨h.det, h.ov, h.failed, ?_, h.gEntry, ?_, h.gPc⟩
        · intro call' hc' hf
          simp only [Option.some.injEq] at hc'
          subst hc'
          exact h.res call hc hf
        · intro call' hh x hc' hr
          simp only [Option.some.injEq] at hc'
          subst hc'
          exact h.gCall call hh x hc hr
      · exact h
    · apply invA_setPc _ c (goodPc_of_verOf_none rfl)
      refine ⟨h.det, h.ov, h.failed, ?_, h.gEntry, ?_, h.gPc⟩
      · intro call' hc' hf
        simp only [Option.some.injEq] at hc'
        subst hc'
        exact nomatch hf
      · intro call' hh x hc' hr
        simp only [Option.some.injEq] at hc'
        subst hc'
        exact nomatch hr

theorem invA_leaderFetch {v : Nat} {e0 : Option Nat} {st : St} (h : InvA v e0 st) :
    InvA v e0 (step st .leaderFetch) := by
  simp only [step, h.det, Bool.not_true, Bool.false_and, Bool.false_eq_true, if_false]
  split
  · rename_i call hc
    split
    · exact h
    · split
      · rename_i x hx hs
        simp only [freshHandle]
        refine ⟨h.det, h.ov, h.failed, ?_, h.gEntry, ?_, h.gPc⟩
        · intro call' hc' _
          simp only [Option.some.injEq] at hc'
          subst hc'
          exact fun e => nomatch e
        · intro call' hh y hc' hr
          simp only [Option.some.injEq] at hc'
          subst hc'
          simp only [Option.some.injEq, Result.cached.injEq] at hr
          exact hr.2 ▸ h.gEntry x hx
      · split
        · simp only [freshHandle]
          refine ⟨rfl, h.ov, h.failed, ?_, ?_, ?_, h.gPc⟩
          · intro call' hc' _
            simp only [Option.some.injEq] at hc'
            subst hc'
            exact fun e => nomatch e
          · intro y hy
            simp only [Option.some.injEq] at hy
            exact Or.inl (hy ▸ h.ov)
          · intro call' hh y hc' hr
            simp only [Option.some.injEq] at hc'
            subst hc'
            simp only [Option.some.injEq, Result.cached.injEq] at hr
            exact Or.inl (hr.2 ▸ h.ov)
        · refine ⟨rfl, h.ov, h.failed, ?_, h.gEntry, ?_, h.gPc⟩
          · intro call' hc' _
            simp only [Option.some.injEq] at hc'
            subst hc'
            exact fun e => nomatch e
          · intro call' hh y hc' hr
            simp only [Option.some.injEq] at hc'
            subst hc'
            exact nomatch hr
  · exact h


theorem pubFold_call (res : Option Result) (sh : Bool) (l : List Nat) (s : St) :
    (List.foldl (pubStep res sh) s l).call = s.call :=
  pubFold_field (·.call) res sh (pubStep_field (·.call) res sh (fun _ _ _ => rfl) (fun _ _ => rfl)) l s
theorem pubFold_entry (res : Option Result) (sh : Bool) (l : List Nat) (s : St) :
    (List.foldl (pubStep res sh) s l).entry = s.entry :=
  pubFold_field (·.entry) res sh (pubStep_field (·.entry) res sh (fun _ _ _ => rfl) (fun _ _ => rfl)) l s
theorem pubFold_staleEntry (res : Option Result) (sh : Bool) (l : List Nat) (s : St) :
    (List.foldl (pubStep res sh) s l).staleEntry = s.staleEntry :=
  pubFold_field (·.staleEntry) res sh (pubStep_field (·.staleEntry) res sh (fun _ _ _ => rfl) (fun _ _ => rfl)) l s
theorem pubFold_originVer (res : Option Result) (sh : Bool) (l : List Nat) (s : St) :
    (List.foldl (pubStep res sh) s l).originVer = s.originVer :=
  pubFold_field (·.originVer) res sh (pubStep_field (·.originVer) res sh (fun _ _ _ => rfl) (fun _ _ => rfl)) l s
theorem pubFold_kind (res : Option Result) (sh : Bool) (l : List Nat) (s : St) :
    (List.foldl (pubStep res sh) s l).kind = s.kind :=
  pubFold_field (·.kind) res sh (pubStep_field (·.kind) res sh (fun _ _ _ => rfl) (fun _ _ => rfl)) l s
theorem pubFold_originLog (res : Option Result) (sh : Bool) (l : List Nat) (s : St) :
    (List.foldl (pubStep res sh) s l).originLog = s.originLog :=
  pubFold_field (·.originLog) res sh (pubStep_field (·.originLog) res sh (fun _ _ _ => rfl) (fun _ _ => rfl)) l s
theorem pubFold_nextHandle (res : Option Result) (sh : Bool) (l : List Nat) (s : St) :
    (List.foldl (pubStep res sh) s l).nextHandle = s.nextHandle :=
  pubFold_field (·.nextHandle) res sh (pubStep_field (·.nextHandle) res sh (fun _ _ _ => rfl) (fun _ _ => rfl)) l s
theorem pubFold_detached (res : Option Result) (sh : Bool) (l : List Nat) (s : St) :
    (List.foldl (pubStep res sh) s l).detached = s.detached :=
  pubFold_field (·.detached) res sh (pubStep_field (·.detached) res sh (fun _ _ _ => rfl) (fun _ _ => rfl)) l s
theorem pubFold_failed_some (r : Result) (sh : Bool) (l : List Nat) (s : St) :
    (List.foldl (pubStep (some r) sh) s l).failed = s.failed :=
  pubFold_field (·.failed) (some r) sh (pubStep_failed_some r sh) l s

/-- the state after `publish` of a fetched call, seen through `pcOf`. -/
theorem pcOf_publish {st : St} {call : Call} (hc : st.call = some call) (hf : call.fetched = true) (c : Nat) :
    pcOf (step st .publish) c =
      if c ∈ call.leader :: call.joined ∧ pcOf st c = .waiting
      then pubTgt call.result (!call.joined.isEmpty) else pcOf st c := by
  rw [step_publish]
  simp only [hc, hf, Bool.not_true, Bool.false_eq_true, if_false]
  rw [← pcOf_pubFold]
  exact pcOf_congr rfl c

theorem publish_eq {st : St} {call : Call} (hc : st.call = some call) (hf : call.fetched = true) :
    step st .publish =
      { List.foldl (pubStep call.result (!call.joined.isEmpty)) st (call.leader :: call.joined) with call := none } := by
  rw [step_publish]
  simp only [hc, hf, Bool.not_true, Bool.false_eq_true, if_false]

theorem publish_unfetched {st : St} {call : Call} (hc : st.call = some call) (hf : call.fetched = false) :
    step st .publish = st := by
  rw [step_publish]
  simp only [hc, hf, Bool.not_false, if_true]

theorem publish_none {st : St} (hc : st.call = none) : step st .publish = st := by
  rw [step_publish]
  simp only [hc]

theorem invA_publish {v : Nat} {e0 : Option Nat} {st : St} (h : InvA v e0 st) :
    InvA v e0 (step st .publish) := by
  cases hc : st.call with
  | none => rw [publish_none hc]; exact h
  | some call =>
    cases hf : call.fetched with
    | false => rw [publish_unfetched hc hf]; exact h
    | true =>
      cases hr : call.result with
      | none => exact absurd hr (h.res call hc hf)
      | some r =>
        refine ⟨?_, ?_, ?_, ?_, ?_, ?_, ?_⟩
        · rw [publish_eq hc hf]; exact (pubFold_detached _ _ _ _).trans h.det
        · rw [publish_eq hc hf]; exact (pubFold_originVer _ _ _ _).trans h.ov
        · rw [publish_eq hc hf, hr]; exact (pubFold_failed_some _ _ _ _).trans h.failed
        · rw [publish_eq hc hf]; intro call' hc'; exact nomatch hc'
        · rw [publish_eq hc hf]; intro x hx; exact h.gEntry x ((pubFold_entry _ _ _ _).symm.trans hx)
        · rw [publish_eq hc hf]; intro call' hh x hc'; exact nomatch hc'
        · intro c
          rw [pcOf_publish hc hf]
          split
          · rw [hr]
            intro x hx
            cases r with
            | cached hh y =>
              simp only [pubTgt, verOf, Option.some.injEq] at hx
              exact hx ▸ h.gCall call hh y hc hr
            | notCacheable => exact nomatch hx
          · exact h.gPc c

theorem invA_ownFetch {v : Nat} {e0 : Option Nat} {st : St} (h : InvA v e0 st) (c : Nat) :
    InvA v e0 (ownFetch st c) := by
  refine ⟨h.det, h.ov, h.failed, h.res, h.gEntry, h.gCall, ?_⟩
  intro c'
  rw [pcOf_ownFetch]
  split
  · intro x hx
    simp only [verOf, Option.some.injEq] at hx
    exact Or.inl (hx ▸ h.ov)
  · exact h.gPc c'

theorem invA_act {v : Nat} {e0 : Option Nat} {st : St} (h : InvA v e0 st) (c : Nat) :
    InvA v e0 (step st (.act c)) := by
  simp only [step]
  split
  · exact invA_ownFetch h c
  · rename_i hh x hpc
    apply invA_setPc h
    intro y hy
    simp only [verOf, Option.some.injEq] at hy
    exact h.gPc c y (by rw [hpc]; exact congrArg some hy)
  · split
    · rename_i x hx
      simp only [freshHandle]
      apply invA_setPc (st := { st with nextHandle := st.nextHandle + 1 })
        ⟨h.det, h.ov, h.failed, h.res, h.gEntry, h.gCall, h.gPc⟩
      intro y hy
      simp only [verOf, Option.some.injEq] at hy
      exact hy ▸ h.gEntry x hx
    · exact invA_ownFetch h c
  · exact h

theorem invA_disconnect {v : Nat} {e0 : Option Nat} {st : St} (h : InvA v e0 st) (c : Nat) :
    InvA v e0 (step st (.disconnect c)) := by
  simp only [step]
  split
  · exact h
  · exact invA_setPc h c (goodPc_of_verOf_none rfl)

theorem invA_evict {v : Nat} {e0 : Option Nat} {st : St} (h : InvA v e0 st) :
    InvA v e0 (step st .evict) :=
  ⟨h.det, h.ov, h.failed, h.res, (fun _ hx => nomatch hx), h.gCall, h.gPc⟩

theorem invA_step {v : Nat} {e0 : Option Nat} (st : St) (s : Step) (h : InvA v e0 st) :
    InvA v e0 (step st s) := by
  cases s with
  | arrive c => exact invA_arrive h c
  | leaderFetch => exact invA_leaderFetch h
  | publish => exact invA_publish h
  | act c => exact invA_act h c
  | disconnect c => exact invA_disconnect h c
  | evict => exact invA_evict h

theorem everyone_gets_a_full_answer (n : Nat) (entry : Option Nat) (stale : Bool) (v : Nat) (k : OriginKind)
    (steps : List Step) :
    let st := run steps (init n entry stale v k true)
    st.failed = [] ∧ ∀ c ver h, pcOf st c = .responded ver h → (ver = v ∨ entry = some ver) := by
  intro st
  have h : InvA v entry st := run_inv invA_step steps _ (invA_init n entry stale v k)
  refine ⟨h.failed, ?_⟩
  intro c ver hh hpc
  exact h.gPc c ver (by rw [hpc]; rfl)


/-! ### `act` and `disconnect`, seen through `pcOf` -/

/-- what `act` makes of the pc of the acting client. -/
def actPc (st : St) : Pc → Pc
  | .returned .notCacheable _ => .responded st.originVer st.nextHandle
  | .returned (.cached h v) false => .responded v h
  | .returned (.cached _ _) true =>
    (match st.entry with
      | some v => .responded v st.nextHandle
      | none => .responded st.originVer st.nextHandle)
  | p => p

theorem pcOf_act (st : St) (c c' : Nat) :
    pcOf (step st (.act c)) c' = if c' = c then actPc st (pcOf st c) else pcOf st c' := by
  simp only [step]
  split
  · rename_i hpc
    rw [pcOf_ownFetch, hpc]; rfl
  · rename_i hpc
    rw [pcOf_setPc, hpc]; rfl
  · rename_i hpc
    rw [hpc]
    split
    · rename_i x hx
      simp only [freshHandle, pcOf_setPc, actPc, hx]
      split
      · rfl
      · exact pcOf_congr rfl c'
    · rename_i hx
      simp only [pcOf_ownFetch, actPc, hx]
  · rename_i h1 h2 h3
    split
    · rename_i hcc
      subst hcc
      generalize pcOf st c' = p at *
      unfold actPc
      split
      · exact absurd rfl (h1 _)
      · exact absurd rfl (h2 _ _)
      · exact absurd rfl (h3 _ _)
      · rfl
    · rfl

theorem act_call (st : St) (c : Nat) : (step st (.act c)).call = st.call := by
  simp only [step]
  split
  · rfl
  · rfl
  · split <;> rfl
  · rfl

theorem act_failed (st : St) (c : Nat) : (step st (.act c)).failed = st.failed := by
  simp only [step]
  split
  · rfl
  · rfl
  · split <;> rfl
  · rfl

theorem act_entry (st : St) (c : Nat) : (step st (.act c)).entry = st.entry := by
  simp only [step]
  split
  · rfl
  · rfl
  · split <;> rfl
  · rfl

def discPc : Pc → Pc
  | .responded v h => .responded v h
  | _ => .gone

theorem pcOf_disconnect (st : St) (c c' : Nat) :
    pcOf (step st (.disconnect c)) c' = if c' = c then discPc (pcOf st c) else pcOf st c' := by
  simp only [step]
  split
  · rename_i hpc
    rw [hpc]
    split
    · rename_i hcc; rw [hcc, hpc]; rfl
    · rfl
  · rename_i hpc
    rw [pcOf_setPc]
    split
    · generalize pcOf st c = p at *
      unfold discPc
      split
      · exact absurd rfl (hpc _ _)
      · rfl
    · rfl

theorem disconnect_call (st : St) (c : Nat) : (step st (.disconnect c)).call = st.call := by
  simp only [step]; split <;> rfl
theorem disconnect_failed (st : St) (c : Nat) : (step st (.disconnect c)).failed = st.failed := by
  simp only [step]; split <;> rfl
theorem disconnect_entry (st : St) (c : Nat) : (step st (.disconnect c)).entry = st.entry := by
  simp only [step]; split <;> rfl
theorem disconnect_staleEntry (st : St) (c : Nat) : (step st (.disconnect c)).staleEntry = st.staleEntry := by
  simp only [step]; split <;> rfl
theorem disconnect_originLog (st : St) (c : Nat) : (step st (.disconnect c)).originLog = st.originLog := by
  simp only [step]; split <;> rfl
theorem disconnect_originVer (st : St) (c : Nat) : (step st (.disconnect c)).originVer = st.originVer := by
  simp only [step]; split <;> rfl
theorem disconnect_kind (st : St) (c : Nat) : (step st (.disconnect c)).kind = st.kind := by
  simp only [step]; split <;> rfl
theorem disconnect_detached (st : St) (c : Nat) : (step st (.disconnect c)).detached = st.detached := by
  simp only [step]; split <;> rfl
theorem disconnect_nextHandle (st : St) (c : Nat) : (step st (.disconnect c)).nextHandle = st.nextHandle := by
  simp only [step]; split <;> rfl


/-! ### `leaderFetch` keeps the pcs and the callers of the call -/

theorem leaderFetch_pcs (st : St) : (step st .leaderFetch).pcs = st.pcs := by
  simp only [step]
  split
  · split
    · rfl
    · split
      · rfl
      · split
        · rfl
        · split <;> rfl
  · rfl

theorem pcOf_leaderFetch (st : St) (c : Nat) : pcOf (step st .leaderFetch) c = pcOf st c :=
  pcOf_congr (leaderFetch_pcs st) c

theorem leaderFetch_none {st : St} (hc : st.call = none) : step st .leaderFetch = st := by
  simp only [step, hc]

theorem leaderFetch_callers {st : St} {call : Call} (hc : st.call = some call) :
    ∃ call', (step st .leaderFetch).call = some call' ∧ call'.leader = call.leader ∧
      call'.joined = call.joined ∧ call'.fetched = true := by
  simp only [step, hc]
  split
  · rename_i hf; exact ⟨call, hc, rfl, rfl, hf⟩
  · split
    · exact ⟨_, rfl, rfl, rfl, rfl⟩
    · split
      · exact ⟨_, rfl, rfl, rfl, rfl⟩
      · split <;> exact ⟨_, rfl, rfl, rfl, rfl⟩

/-! ### invariant B: whoever waits is a caller of the current call -/

def Wait (st : St) : Prop :=
  ∀ c, pcOf st c = .waiting → ∃ call, st.call = some call ∧ c ∈ call.leader :: call.joined

theorem wait_init (n : Nat) (e : Option Nat) (s : Bool) (v : Nat) (k : OriginKind) (d : Bool) :
    Wait (init n e s v k d) := by
  intro c hc
  rw [pcOf_init] at hc
  exact nomatch hc

theorem wait_arrive {st : St} (h : Wait st) (c : Nat) : Wait (step st (.arrive c)) := by
  simp only [step]
  split
  · exact h
  · split
    · rename_i call hc
      split
      · intro c' hc'
        refine ⟨_, rfl, ?_⟩
        rw [pcOf_setPc] at hc'
        split at hc'
        · rename_i e
          rw [e]
          exact List.mem_cons_of_mem _ (List.mem_append_right _ (List.mem_singleton.2 rfl))
        · obtain ⟨call', hcall', hm⟩ := h c' hc'
          rw [hc] at hcall'
          simp only [Option.some.injEq] at hcall'
          subst hcall'
          rcases List.mem_cons.1 hm with e | hm
          · exact e ▸ List.mem_cons_self
          · exact List.mem_cons_of_mem _ (List.mem_append_left _ hm)
      · exact h
    · rename_i hc
      intro c' hc'
      refine ⟨_, rfl, ?_⟩
      rw [pcOf_setPc] at hc'
      split at hc'
      · rename_i e
        rw [e]
        exact List.mem_cons_self
      · obtain ⟨call', hcall', _⟩ := h c' hc'
        rw [hc] at hcall'
        exact nomatch hcall'

theorem wait_leaderFetch {st : St} (h : Wait st) : Wait (step st .leaderFetch) := by
  intro c hc
  rw [pcOf_leaderFetch] at hc
  obtain ⟨call, hcall, hm⟩ := h c hc
  obtain ⟨call', hcall', hl, hj, _⟩ := leaderFetch_callers hcall
  exact ⟨call', hcall', by rw [hl, hj]; exact hm⟩

/-- after `publish` of a fetched (or absent) call nobody waits. -/
theorem publish_no_waiting {st : St} (h : Wait st)
    (hf : ∀ call, st.call = some call → call.fetched = true) (c : Nat) :
    pcOf (step st .publish) c ≠ .waiting := by
  cases hc : st.call with
  | none =>
    rw [publish_none hc]
    intro hw
    obtain ⟨call, hcall, _⟩ := h c hw
    rw [hc] at hcall
    exact nomatch hcall
  | some call =>
    rw [pcOf_publish hc (hf call hc)]
    split
    · exact pubTgt_ne_waiting _ _
    · rename_i hn
      intro hw
      obtain ⟨call', hcall', hm⟩ := h c hw
      rw [hc] at hcall'
      simp only [Option.some.injEq] at hcall'
      subst hcall'
      exact hn ⟨hm, hw⟩

theorem wait_publish {st : St} (h : Wait st) : Wait (step st .publish) := by
  cases hc : st.call with
  | none => rw [publish_none hc]; exact h
  | some call =>
    cases hf : call.fetched with
    | false => rw [publish_unfetched hc hf]; exact h
    | true =>
      intro c hw
      exact absurd hw (publish_no_waiting h (fun call' hc' => by
        rw [hc] at hc'
        simp only [Option.some.injEq] at hc'
        exact hc' ▸ hf) c)

theorem actPc_waiting {st : St} {p : Pc} (h : actPc st p = .waiting) : p = .waiting := by
  unfold actPc at h
  split at h
  · exact nomatch h
  · exact nomatch h
  · split at h <;> exact nomatch h
  · exact h

theorem discPc_ne_waiting (p : Pc) : discPc p ≠ .waiting := by
  unfold discPc; split <;> exact fun h => nomatch h

theorem wait_act {st : St} (h : Wait st) (c : Nat) : Wait (step st (.act c)) := by
  intro c' hw
  rw [act_call]
  apply h
  rw [pcOf_act] at hw
  split at hw
  · rename_i e; rw [e]; exact actPc_waiting hw
  · exact hw

theorem wait_disconnect {st : St} (h : Wait st) (c : Nat) : Wait (step st (.disconnect c)) := by
  intro c' hw
  rw [disconnect_call]
  apply h
  rw [pcOf_disconnect] at hw
  split at hw
  · exact absurd hw (discPc_ne_waiting _)
  · exact hw

theorem wait_evict {st : St} (h : Wait st) : Wait (step st .evict) := h

theorem wait_step (st : St) (s : Step) (h : Wait st) : Wait (step st s) := by
  cases s with
  | arrive c => exact wait_arrive h c
  | leaderFetch => exact wait_leaderFetch h
  | publish => exact wait_publish h
  | act c => exact wait_act h c
  | disconnect c => exact wait_disconnect h c
  | evict => exact wait_evict h

/-- the client has its final answer, has hung up, or never came. -/
def Done (st : St) (c : Nat) : Prop :=
  pcOf st c = .idle ∨ pcOf st c = .gone ∨ ∃ ver h, pcOf st c = .responded ver h

theorem actPc_done {st : St} {p : Pc} (h : p ≠ .waiting) :
    actPc st p = .idle ∨ actPc st p = .gone ∨ ∃ ver h, actPc st p = .responded ver h := by
  unfold actPc
  split
  · exact Or.inr (Or.inr ⟨_, _, rfl⟩)
  · exact Or.inr (Or.inr ⟨_, _, rfl⟩)
  · split <;> exact Or.inr (Or.inr ⟨_, _, rfl⟩)
  · rename_i h1 h2 h3
    cases p with
    | idle => exact Or.inl rfl
    | waiting => exact absurd rfl h
    | returned r s =>
      cases r with
      | notCacheable => exact absurd rfl (h1 s)
      | cached hh x =>
        cases s with
        | false => exact absurd rfl (h2 hh x)
        | true => exact absurd rfl (h3 hh x)
    | responded x hh => exact Or.inr (Or.inr ⟨_, _, rfl⟩)
    | gone => exact Or.inr (Or.inl rfl)

theorem actPc_of_done {st : St} {p : Pc}
    (h : p = .idle ∨ p = .gone ∨ ∃ ver h, p = .responded ver h) : actPc st p = p := by
  rcases h with h | h | ⟨x, hh, h⟩ <;> rw [h] <;> rfl

theorem done_act {st : St} {c : Nat} (h : Done st c) (c' : Nat) : Done (step st (.act c')) c := by
  unfold Done
  rw [pcOf_act]
  split
  · rename_i e
    subst e
    rw [actPc_of_done h]; exact h
  · exact h

theorem done_run_acts {c : Nat} : ∀ (l : List Nat) (st : St), Done st c → Done (run (l.map .act) st) c
  | [], _, h => h
  | a :: l, st, h => done_run_acts l (step st (.act a)) (done_act h a)

theorem no_waiting_act {st : St} (h : ∀ c, pcOf st c ≠ .waiting) (a : Nat) :
    ∀ c, pcOf (step st (.act a)) c ≠ .waiting := by
  intro c hw
  rw [pcOf_act] at hw
  split at hw
  · exact h a (actPc_waiting hw)
  · exact h c hw

theorem acts_done : ∀ (l : List Nat) (st : St), (∀ c, pcOf st c ≠ .waiting) →
    ∀ c ∈ l, Done (run (l.map .act) st) c
  | [], _, _, _, hc => nomatch hc
  | a :: l, st, h, c, hc => by
    rw [List.map_cons, run_cons]
    by_cases e : c = a
    · subst e
      apply done_run_acts
      unfold Done
      rw [pcOf_act, if_pos rfl]
      exact actPc_done (h c)
    · have hc' : c ∈ l := by
        rcases List.mem_cons.1 hc with e' | hm
        · exact absurd e' e
        · exact hm
      exact acts_done l _ (no_waiting_act h a) c hc'

theorem nobody_left_waiting' (n : Nat) (entry : Option Nat) (stale : Bool) (v : Nat) (k : OriginKind) (d : Bool)
    (steps : List Step) :
    let st := run (steps ++ [.leaderFetch, .publish] ++ (List.range n).map .act) (init n entry stale v k d)
    ∀ c, c < n → (pcOf st c = .idle ∨ pcOf st c = .gone ∨ ∃ ver h, pcOf st c = .responded ver h) := by
  intro st c hc
  have h1 : Wait (run steps (init n entry stale v k d)) := run_inv wait_step steps _ (wait_init n entry stale v k d)
  have h2 := wait_leaderFetch h1
  have h3 : ∀ call, (step (run steps (init n entry stale v k d)) .leaderFetch).call = some call →
      call.fetched = true := by
    intro call hcall
    cases hc0 : (run steps (init n entry stale v k d)).call with
    | none =>
      rw [leaderFetch_none hc0, hc0] at hcall
      exact nomatch hcall
    | some call0 =>
      obtain ⟨call', hcall', _, _, hf⟩ := leaderFetch_callers hc0
      rw [hcall'] at hcall
      simp only [Option.some.injEq] at hcall
      exact hcall ▸ hf
  have h4 := publish_no_waiting h2 h3
  have := acts_done (List.range n) _ h4 c (List.mem_range.2 hc)
  show Done st c
  have hst : st = run ((List.range n).map .act)
      (step (step (run steps (init n entry stale v k d)) .leaderFetch) .publish) := by
    show run _ _ = _
    rw [run_append, run_append]
    rfl
  rw [hst]
  exact this

theorem nobody_left_waiting (n : Nat) (entry : Option Nat) (stale : Bool) (v : Nat) (k : OriginKind)
    (steps : List Step) :
    let st := run (steps ++ [.leaderFetch, .publish] ++ (List.range n).map .act) (init n entry stale v k true)
    ∀ c, c < n → (pcOf st c = .idle ∨ pcOf st c = .gone ∨ ∃ ver h, pcOf st c = .responded ver h) :=
  nobody_left_waiting' n entry stale v k true steps


/-! ### invariant C: data handles are never shared -/

/-- the data handle a client owns: the one it reads through, or the leader's
    handle that a sole caller will read through. -/
def hOf : Pc → Option Nat
  | .responded _ h => some h
  | .returned (.cached h _) false => some h
  | _ => none

structure InvC (st : St) : Prop where
  lt : ∀ c h, hOf (pcOf st c) = some h → h < st.nextHandle
  inj : ∀ c1 c2 h, hOf (pcOf st c1) = some h → hOf (pcOf st c2) = some h → c1 = c2
  callLt : ∀ call h x, st.call = some call → call.result = some (.cached h x) → h < st.nextHandle
  callFresh : ∀ call h x c, st.call = some call → call.result = some (.cached h x) →
    hOf (pcOf st c) ≠ some h

theorem invC_init (n : Nat) (e : Option Nat) (s : Bool) (v : Nat) (k : OriginKind) (d : Bool) :
    InvC (init n e s v k d) := by
  refine ⟨?_, ?_, ?_, ?_⟩
  · intro c h hc; rw [pcOf_init] at hc; exact nomatch hc
  · intro c1 c2 h hc; rw [pcOf_init] at hc; exact nomatch hc
  · intro call h x hc; exact nomatch hc
  · intro call h x c hc; exact nomatch hc

/-- no new handle anywhere. -/
theorem invC_mono {st st' : St} (h : InvC st) (hn : st.nextHandle ≤ st'.nextHandle)
    (hcall : ∀ call' hh x, st'.call = some call' → call'.result = some (.cached hh x) →
      ∃ call, st.call = some call ∧ call.result = some (.cached hh x))
    (hpc : ∀ c' hh, hOf (pcOf st' c') = some hh → hOf (pcOf st c') = some hh) : InvC st' := by
  refine ⟨?_, ?_, ?_, ?_⟩
  · intro c hh hc
    exact Nat.lt_of_lt_of_le (h.lt c hh (hpc c hh hc)) hn
  · intro c1 c2 hh h1 h2
    exact h.inj c1 c2 hh (hpc c1 hh h1) (hpc c2 hh h2)
  · intro call' hh x hc hr
    obtain ⟨call, hc0, hr0⟩ := hcall call' hh x hc hr
    exact Nat.lt_of_lt_of_le (h.callLt call hh x hc0 hr0) hn
  · intro call' hh x c hc hr hp
    obtain ⟨call, hc0, hr0⟩ := hcall call' hh x hc hr
    exact h.callFresh call hh x c hc0 hr0 (hpc c hh hp)

/-- one client takes a brand-new handle. -/
theorem invC_fresh {st st' : St} (h : InvC st) (c : Nat) (p : Pc)
    (hn : st'.nextHandle = st.nextHandle + 1) (hcall : st'.call = st.call)
    (hpc : ∀ c', pcOf st' c' = if c' = c then p else pcOf st c')
    (hp : hOf p = some st.nextHandle) : InvC st' := by
  have key : ∀ c' hh, hOf (pcOf st' c') = some hh →
      (c' = c ∧ hh = st.nextHandle) ∨ (c' ≠ c ∧ hOf (pcOf st c') = some hh) := by
    intro c' hh hc
    rw [hpc] at hc
    split at hc
    · rename_i e
      rw [hp] at hc
      simp only [Option.some.injEq] at hc
      exact Or.inl ⟨e, hc.symm⟩
    · rename_i e
      exact Or.inr ⟨e, hc⟩
  refine ⟨?_, ?_, ?_, ?_⟩
  · intro c' hh hc
    rw [hn]
    rcases key c' hh hc with ⟨_, e⟩ | ⟨_, ho⟩
    · rw [e]; exact Nat.lt_succ_self _
    · exact Nat.lt_succ_of_lt (h.lt c' hh ho)
  · intro c1 c2 hh h1 h2
    rcases key c1 hh h1 with ⟨e1, eh1⟩ | ⟨_, ho1⟩
    · rcases key c2 hh h2 with ⟨e2, _⟩ | ⟨_, ho2⟩
      · rw [e1, e2]
      · have := h.lt c2 hh ho2
        rw [eh1] at this
        exact absurd this (Nat.lt_irrefl _)
    · rcases key c2 hh h2 with ⟨_, eh2⟩ | ⟨_, ho2⟩
      · have := h.lt c1 hh ho1
        rw [eh2] at this
        exact absurd this (Nat.lt_irrefl _)
      · exact h.inj c1 c2 hh ho1 ho2
  · intro call hh x hc hr
    rw [hcall] at hc
    rw [hn]
    exact Nat.lt_succ_of_lt (h.callLt call hh x hc hr)
  · intro call hh x c' hc hr hp'
    rw [hcall] at hc
    rcases key c' hh hp' with ⟨_, eh⟩ | ⟨_, ho⟩
    · have := h.callLt call hh x hc hr
      rw [eh] at this
      exact absurd this (Nat.lt_irrefl _)
    · exact h.callFresh call hh x c' hc hr ho

/-- the call takes a brand-new handle. -/
theorem invC_callFresh {st st' : St} (h : InvC st) (hpcs : st'.pcs = st.pcs)
    (hn : st'.nextHandle = st.nextHandle + 1)
    (hcall : ∀ call' hh x, st'.call = some call' → call'.result = some (.cached hh x) → hh = st.nextHandle) :
    InvC st' := by
  refine ⟨?_, ?_, ?_, ?_⟩
  · intro c hh hc
    rw [pcOf_congr hpcs] at hc
    rw [hn]
    exact Nat.lt_succ_of_lt (h.lt c hh hc)
  · intro c1 c2 hh h1 h2
    rw [pcOf_congr hpcs] at h1 h2
    exact h.inj c1 c2 hh h1 h2
  · intro call' hh x hc hr
    rw [hcall call' hh x hc hr, hn]
    exact Nat.lt_succ_self _
  · intro call' hh x c hc hr hp
    rw [pcOf_congr hpcs] at hp
    have := h.lt c hh hp
    rw [hcall call' hh x hc hr] at this
    exact absurd this (Nat.lt_irrefl _)

theorem invC_arrive {st : St} (h : InvC st) (c : Nat) : InvC (step st (.arrive c)) := by
  simp only [step]
  split
  · exact h
  · split
    · rename_i call hc
      split
      · refine invC_mono h ?_ ?_ ?_
        · exact Nat.le_refl _
        · intro call' hh x hc' hr
          simp only [setPc_call, Option.some.injEq] at hc'
          subst hc'
          exact ⟨call, hc, hr⟩
        · intro c' hh hp
          rw [pcOf_setPc] at hp
          split at hp
          · exact nomatch hp
          · exact hp
      · exact h
    · refine invC_mono h ?_ ?_ ?_
      · exact Nat.le_refl _
      · intro call' hh x hc' hr
        simp only [setPc_call, Option.some.injEq] at hc'
        subst hc'
        exact nomatch hr
      · intro c' hh hp
        rw [pcOf_setPc] at hp
        split at hp
        · exact nomatch hp
        · exact hp

theorem invC_leaderFetch {st : St} (h : InvC st) : InvC (step st .leaderFetch) := by
  simp only [step]
  split
  · rename_i call hc
    split
    · exact h
    · split
      · refine invC_mono h ?_ ?_ ?_
        · exact Nat.le_refl _
        · intro call' hh x hc' hr
          simp only [Option.some.injEq] at hc'
          subst hc'
          exact nomatch hr
        · intro c' hh hp; exact hp
      · split
        · refine invC_callFresh h ?_ ?_ ?_
          · rfl
          · rfl
          intro call' hh x hc' hr
          simp only [freshHandle, Option.some.injEq] at hc'
          subst hc'
          simp only [Option.some.injEq, Result.cached.injEq] at hr
          exact hr.1.symm
        · split
          · refine invC_callFresh h ?_ ?_ ?_
            · rfl
            · rfl
            intro call' hh x hc' hr
            simp only [freshHandle, Option.some.injEq] at hc'
            subst hc'
            simp only [Option.some.injEq, Result.cached.injEq] at hr
            exact hr.1.symm
          · refine invC_mono h ?_ ?_ ?_
            · exact Nat.le_refl _
            · intro call' hh x hc' hr
              simp only [Option.some.injEq] at hc'
              subst hc'
              exact nomatch hr
            · intro c' hh hp; exact hp
  · exact h

theorem invC_publish {st : St} (h : InvC st) : InvC (step st .publish) := by
  cases hc : st.call with
  | none => rw [publish_none hc]; exact h
  | some call =>
    cases hf : call.fetched with
    | false => rw [publish_unfetched hc hf]; exact h
    | true =>
      have hnh : (step st .publish).nextHandle = st.nextHandle := by
        rw [publish_eq hc hf]; exact pubFold_nextHandle _ _ _ _
      have hcn : (step st .publish).call = none := by rw [publish_eq hc hf]
      -- the only new owner is a sole leader taking over the call's handle
      have key : ∀ c' hh, hOf (pcOf (step st .publish) c') = some hh →
          hOf (pcOf st c') = some hh ∨
            (c' = call.leader ∧ ∃ x, call.result = some (.cached hh x)) := by
        intro c' hh hp
        rw [pcOf_publish hc hf] at hp
        split at hp
        · rename_i hm
          cases hj : call.joined with
          | nil =>
            rw [hj] at hm
            have hl : c' = call.leader := by simpa using hm.1
            cases hr : call.result with
            | none => rw [hr] at hp; exact nomatch hp
            | some r =>
              cases r with
              | notCacheable => rw [hr] at hp; exact nomatch hp
              | cached h0 x =>
                rw [hr, hj] at hp
                simp only [pubTgt, List.isEmpty_nil, Bool.not_true, hOf, Option.some.injEq] at hp
                exact Or.inr ⟨hl, x, by rw [hp]⟩
          | cons a l =>
            rw [hj] at hp
            cases hr : call.result with
            | none => rw [hr] at hp; exact nomatch hp
            | some r =>
              rw [hr] at hp
              cases r with
              | notCacheable => exact nomatch hp
              | cached h0 x => exact nomatch hp
        · exact Or.inl hp
      refine ⟨?_, ?_, ?_, ?_⟩
      · intro c' hh hp
        rw [hnh]
        rcases key c' hh hp with ho | ⟨_, x, hr⟩
        · exact h.lt c' hh ho
        · exact h.callLt call hh x hc hr
      · intro c1 c2 hh h1 h2
        rcases key c1 hh h1 with ho1 | ⟨e1, x1, hr1⟩
        · rcases key c2 hh h2 with ho2 | ⟨_, x2, hr2⟩
          · exact h.inj c1 c2 hh ho1 ho2
          · exact absurd ho1 (h.callFresh call hh x2 c1 hc hr2)
        · rcases key c2 hh h2 with ho2 | ⟨e2, _, _⟩
          · exact absurd ho2 (h.callFresh call hh x1 c2 hc hr1)
          · rw [e1, e2]
      · intro call' hh x hc'
        rw [hcn] at hc'
        exact nomatch hc'
      · intro call' hh x c hc'
        rw [hcn] at hc'
        exact nomatch hc'

theorem invC_act {st : St} (h : InvC st) (c : Nat) : InvC (step st (.act c)) := by
  simp only [step]
  split
  · refine invC_fresh h c _ ?_ ?_ (pcOf_ownFetch st c) ?_ <;> rfl
  · rename_i hh x hpc
    refine invC_mono h ?_ ?_ ?_
    · exact Nat.le_refl _
    · intro call' h0 y hc' hr; exact ⟨call', hc', hr⟩
    · intro c' h0 hp
      rw [pcOf_setPc] at hp
      split at hp
      · rename_i e
        rw [e, hpc]
        exact hp
      · exact hp
  · split
    · rename_i x hx
      simp only [freshHandle]
      refine invC_fresh h c (.responded x st.nextHandle) ?_ ?_ ?_ ?_
      · rfl
      · rfl
      rotate_left
      · rfl
      intro c'
      rw [pcOf_setPc]
      split
      · rfl
      · exact pcOf_congr rfl c'
    · refine invC_fresh h c _ ?_ ?_ (pcOf_ownFetch st c) ?_ <;> rfl
  · exact h

theorem invC_disconnect {st : St} (h : InvC st) (c : Nat) : InvC (step st (.disconnect c)) := by
  simp only [step]
  split
  · exact h
  · refine invC_mono h ?_ ?_ ?_
    · exact Nat.le_refl _
    · intro call' h0 y hc' hr; exact ⟨call', hc', hr⟩
    · intro c' h0 hp
      rw [pcOf_setPc] at hp
      split at hp
      · exact nomatch hp
      · exact hp

theorem invC_evict {st : St} (h : InvC st) : InvC (step st .evict) :=
  ⟨h.lt, h.inj, h.callLt, h.callFresh⟩

theorem invC_step (st : St) (s : Step) (h : InvC st) : InvC (step st s) := by
  cases s with
  | arrive c => exact invC_arrive h c
  | leaderFetch => exact invC_leaderFetch h
  | publish => exact invC_publish h
  | act c => exact invC_act h c
  | disconnect c => exact invC_disconnect h c
  | evict => exact invC_evict h

theorem no_shared_body (n : Nat) (entry : Option Nat) (stale : Bool) (v : Nat) (k : OriginKind) (d : Bool)
    (steps : List Step) :
    let st := run steps (init n entry stale v k d)
    ∀ c1 c2 v1 h1 v2 h2, c1 ≠ c2 → pcOf st c1 = .responded v1 h1 → pcOf st c2 = .responded v2 h2 → h1 ≠ h2 := by
  intro st c1 c2 v1 h1 v2 h2 hne hp1 hp2 e
  have h : InvC st := run_inv invC_step steps _ (invC_init n entry stale v k d)
  apply hne
  apply h.inj c1 c2 h1
  · rw [hp1]; rfl
  · rw [hp2, e]; rfl


/-! ### the one-call schedules: arrivals, hang-ups, fetch, publish, callers' steps -/

/-- before the leader's fetch: a call is in flight, nothing has happened at the origin. -/
structure Pre (e0 : Option Nat) (s0 : Bool) (k : OriginKind) (v : Nat) (st : St) : Prop where
  log : st.originLog = 0
  failed : st.failed = []
  entry : st.entry = e0
  stale : st.staleEntry = s0
  kind : st.kind = k
  ov : st.originVer = v
  det : st.detached = true
  call : ∃ call, st.call = some call ∧ call.fetched = false ∧ call.result = none
  pcs : ∀ c, pcOf st c = .idle ∨ pcOf st c = .waiting ∨ pcOf st c = .gone

theorem pre_first (n : Nat) (e0 : Option Nat) (s0 : Bool) (v : Nat) (k : OriginKind) (c : Nat) :
    Pre e0 s0 k v (step (init n e0 s0 v k true) (.arrive c)) := by
  have hi : pcOf (init n e0 s0 v k true) c = .idle := pcOf_init ..
  have hcall : (init n e0 s0 v k true).call = none := rfl
  simp only [step, hi, ne_eq, not_true_eq_false, if_false, hcall]
  refine ⟨rfl, rfl, rfl, rfl, rfl, rfl, rfl, ⟨_, rfl, rfl, rfl⟩, ?_⟩
  intro c'
  rw [pcOf_setPc]
  split
  · exact Or.inr (Or.inl rfl)
  · exact Or.inl (by rw [← pcOf_init n e0 s0 v k true c']; exact pcOf_congr rfl c')

theorem pre_arrive {e0 : Option Nat} {s0 : Bool} {k : OriginKind} {v : Nat} {st : St}
    (h : Pre e0 s0 k v st) (c : Nat) : Pre e0 s0 k v (step st (.arrive c)) := by
  obtain ⟨call, hc, hf, hr⟩ := h.call
  simp only [step, hc, hr, Option.isNone_none, if_true]
  split
  · exact h
  · refine ⟨h.log, h.failed, h.entry, h.stale, h.kind, h.ov, h.det, ⟨_, rfl, hf, rfl⟩, ?_⟩
    intro c'
    rw [pcOf_setPc]
    split
    · exact Or.inr (Or.inl rfl)
    · exact h.pcs c'

theorem pre_disconnect {e0 : Option Nat} {s0 : Bool} {k : OriginKind} {v : Nat} {st : St}
    (h : Pre e0 s0 k v st) (c : Nat) : Pre e0 s0 k v (step st (.disconnect c)) := by
  refine ⟨?_, ?_, ?_, ?_, ?_, ?_, ?_, ?_, ?_⟩
  · rw [disconnect_originLog]; exact h.log
  · rw [disconnect_failed]; exact h.failed
  · rw [disconnect_entry]; exact h.entry
  · rw [disconnect_staleEntry]; exact h.stale
  · rw [disconnect_kind]; exact h.kind
  · rw [disconnect_originVer]; exact h.ov
  · rw [disconnect_detached]; exact h.det
  · rw [disconnect_call]; exact h.call
  · intro c'
    rw [pcOf_disconnect]
    split
    · rcases h.pcs c with e | e | e <;> rw [e] <;> exact Or.inr (Or.inr rfl)
    · exact h.pcs c'

theorem pre_arrivals {e0 : Option Nat} {s0 : Bool} {k : OriginKind} {v : Nat} (cs : List Nat) (st : St)
    (h : Pre e0 s0 k v st) : Pre e0 s0 k v (run (arrivals cs) st) := by
  refine run_inv_of (A := fun s => ∃ c, s = .arrive c) ?_ (arrivals cs) st ?_ h
  · intro st s ⟨c, e⟩ hp
    rw [e]; exact pre_arrive hp c
  · intro s hs
    obtain ⟨c, _, e⟩ := List.mem_map.1 hs
    exact ⟨c, e.symm⟩

theorem pre_disconnects {e0 : Option Nat} {s0 : Bool} {k : OriginKind} {v : Nat} (l : List Step) (st : St)
    (hl : Disconnects l) (h : Pre e0 s0 k v st) : Pre e0 s0 k v (run l st) := by
  refine run_inv_of (A := fun s => ∃ c, s = .disconnect c) ?_ l st hl h
  intro st s ⟨c, e⟩ hp
  rw [e]; exact pre_disconnect hp c

/-- after the leader's fetch: `L` origin requests so far, version `w` stored and in the result. -/
structure Mid (L w : Nat) (st : St) : Prop where
  log : st.originLog = L
  failed : st.failed = []
  entry : st.entry = some w
  call : ∃ call h, st.call = some call ∧ call.fetched = true ∧ call.result = some (.cached h w)
  pcs : ∀ c, pcOf st c = .idle ∨ pcOf st c = .waiting ∨ pcOf st c = .gone

theorem mid_fresh {w : Nat} {k : OriginKind} {v : Nat} {st : St} (h : Pre (some w) false k v st) :
    Mid 0 w (step st .leaderFetch) := by
  obtain ⟨call, hc, hf, _⟩ := h.call
  simp only [step, hc, hf, Bool.false_eq_true, if_false, h.det, Bool.not_true, Bool.false_and,
    h.entry, h.stale, freshHandle]
  exact ⟨h.log, h.failed, rfl, ⟨_, _, rfl, rfl, rfl⟩, h.pcs⟩

theorem mid_cold {v : Nat} {st : St} (h : Pre none false .cacheable v st) :
    Mid 1 v (step st .leaderFetch) := by
  obtain ⟨call, hc, hf, _⟩ := h.call
  simp only [step, hc, hf, Bool.false_eq_true, if_false, h.det, Bool.not_true, Bool.false_and,
    h.entry, h.stale, h.kind, freshHandle]
  refine ⟨?_, h.failed, ?_, ⟨_, st.nextHandle, rfl, rfl, ?_⟩, h.pcs⟩
  · show st.originLog + 1 = 1
    rw [h.log]
  · show some st.originVer = some v
    rw [h.ov]
  · show some (Result.cached _ st.originVer) = some (Result.cached _ v)
    rw [h.ov]

theorem mid_stale {v0 v : Nat} {st : St} (h : Pre (some v0) true .cacheable v st) :
    Mid 1 v (step st .leaderFetch) := by
  obtain ⟨call, hc, hf, _⟩ := h.call
  simp only [step, hc, hf, Bool.false_eq_true, if_false, h.det, Bool.not_true, Bool.false_and,
    h.entry, h.stale, h.kind, freshHandle]
  refine ⟨?_, h.failed, ?_, ⟨_, st.nextHandle, rfl, rfl, ?_⟩, h.pcs⟩
  · show st.originLog + 1 = 1
    rw [h.log]
  · show some st.originVer = some v
    rw [h.ov]
  · show some (Result.cached _ st.originVer) = some (Result.cached _ v)
    rw [h.ov]

/-- what a pc may be once the call has returned with version `w`. -/
def okPc (w : Nat) : Pc → Prop
  | .returned (.cached _ x) _ => x = w
  | .returned .notCacheable _ => False
  | .responded x _ => x = w
  | _ => True

structure Post (L w : Nat) (st : St) : Prop where
  log : st.originLog = L
  failed : st.failed = []
  entry : st.entry = some w
  pcs : ∀ c, okPc w (pcOf st c)

theorem post_of_mid {L w : Nat} {st : St} (h : Mid L w st) : Post L w (step st .publish) := by
  obtain ⟨call, hh, hc, hf, hr⟩ := h.call
  refine ⟨?_, ?_, ?_, ?_⟩
  · rw [publish_eq hc hf]; exact (pubFold_originLog _ _ _ _).trans h.log
  · rw [publish_eq hc hf, hr]; exact (pubFold_failed_some _ _ _ _).trans h.failed
  · rw [publish_eq hc hf]; exact (pubFold_entry _ _ _ _).trans h.entry
  · intro c
    rw [pcOf_publish hc hf]
    split
    · rw [hr]; exact rfl
    · rcases h.pcs c with e | e | e <;> rw [e] <;> trivial

theorem post_act {L w : Nat} {st : St} (h : Post L w st) (c : Nat) : Post L w (step st (.act c)) := by
  have hc := h.pcs c
  simp only [step]
  split
  · rename_i hpc; rw [hpc] at hc; exact hc.elim
  · rename_i hh x hpc
    rw [hpc] at hc
    refine ⟨h.log, h.failed, h.entry, ?_⟩
    intro c'
    rw [pcOf_setPc]
    split
    · exact hc
    · exact h.pcs c'
  · simp only [h.entry, freshHandle]
    refine ⟨h.log, h.failed, rfl, ?_⟩
    intro c'
    rw [pcOf_setPc]
    split
    · exact rfl
    · exact h.pcs c'
  · exact h

theorem post_disconnect {L w : Nat} {st : St} (h : Post L w st) (c : Nat) :
    Post L w (step st (.disconnect c)) := by
  refine ⟨?_, ?_, ?_, ?_⟩
  · rw [disconnect_originLog]; exact h.log
  · rw [disconnect_failed]; exact h.failed
  · rw [disconnect_entry]; exact h.entry
  · intro c'
    rw [pcOf_disconnect]
    split
    · have := h.pcs c
      generalize pcOf st c = p at this
      cases p <;> first | exact this | trivial
    · exact h.pcs c'

theorem post_callerSteps {L w : Nat} (l : List Step) (st : St) (hl : CallerSteps l) (h : Post L w st) :
    Post L w (run l st) := by
  refine run_inv_of (A := fun s => (∃ c, s = .act c) ∨ (∃ c, s = .disconnect c)) ?_ l st hl h
  intro st s hs hp
  rcases hs with ⟨c, e⟩ | ⟨c, e⟩
  · rw [e]; exact post_act hp c
  · rw [e]; exact post_disconnect hp c

/-- the common skeleton of the one-call theorems. -/
theorem one_call {e0 : Option Nat} {s0 : Bool} {k : OriginKind} {v L w : Nat}
    (hmid : ∀ st, Pre e0 s0 k v st → Mid L w (step st .leaderFetch))
    (n : Nat) (cs : List Nat) (pre tail : List Step)
    (hne : cs ≠ []) (hpre : Disconnects pre) (htail : CallerSteps tail) :
    let st := run (arrivals cs ++ pre ++ [.leaderFetch, .publish] ++ tail) (init n e0 s0 v k true)
    st.originLog = L ∧ st.failed = [] ∧ ∀ c ver h, pcOf st c = .responded ver h → ver = w := by
  intro st
  cases cs with
  | nil => exact absurd rfl hne
  | cons c cs =>
    have h1 : Pre e0 s0 k v (run (arrivals (c :: cs)) (init n e0 s0 v k true)) :=
      pre_arrivals cs _ (pre_first n e0 s0 v k c)
    have h2 := pre_disconnects pre _ hpre h1
    have h3 := post_of_mid (hmid _ h2)
    have h4 : Post L w st := by
      have := post_callerSteps tail _ htail h3
      show Post L w (run _ _)
      rw [run_append, run_append, run_append]
      exact this
    refine ⟨h4.log, h4.failed, ?_⟩
    intro c' ver hh hpc
    have := h4.pcs c'
    rw [hpc] at this
    exact this

theorem single_fetch_cold (n v : Nat) (cs : List Nat) (pre tail : List Step)
    (hne : cs ≠ []) (_hnd : cs.Nodup) (hpre : Disconnects pre) (htail : CallerSteps tail) :
    let st := run (arrivals cs ++ pre ++ [.leaderFetch, .publish] ++ tail) (init n none false v .cacheable true)
    st.originLog = 1 ∧ st.failed = [] ∧ ∀ c ver h, pcOf st c = .responded ver h → ver = v :=
  one_call (fun _ h => mid_cold h) n cs pre tail hne hpre htail

theorem single_fetch_stale (n v0 v : Nat) (cs : List Nat) (pre tail : List Step)
    (hne : cs ≠ []) (_hnd : cs.Nodup) (hpre : Disconnects pre) (htail : CallerSteps tail) :
    let st := run (arrivals cs ++ pre ++ [.leaderFetch, .publish] ++ tail) (init n (some v0) true v .cacheable true)
    st.originLog = 1 ∧ st.failed = [] ∧ ∀ c ver h, pcOf st c = .responded ver h → ver = v :=
  one_call (fun _ h => mid_stale h) n cs pre tail hne hpre htail

theorem no_fetch_fresh (n v0 v : Nat) (cs : List Nat) (pre tail : List Step) (k : OriginKind)
    (hne : cs ≠ []) (_hnd : cs.Nodup) (hpre : Disconnects pre) (htail : CallerSteps tail) :
    let st := run (arrivals cs ++ pre ++ [.leaderFetch, .publish] ++ tail) (init n (some v0) false v k true)
    st.originLog = 0 ∧ st.failed = [] ∧ ∀ c ver h, pcOf st c = .responded ver h → ver = v0 :=
  one_call (fun _ h => mid_fresh h) n cs pre tail hne hpre htail


/-! ### uncacheable answers: every caller fetches for itself -/

theorem pcOf_first_arrive (n : Nat) (e0 : Option Nat) (s0 : Bool) (v : Nat) (k : OriginKind) (d : Bool) (c c' : Nat) :
    pcOf (step (init n e0 s0 v k d) (.arrive c)) c' = if c' = c then .waiting else .idle := by
  have hi : pcOf (init n e0 s0 v k d) c = .idle := pcOf_init ..
  have hcall : (init n e0 s0 v k d).call = none := rfl
  simp only [step, hi, ne_eq, not_true_eq_false, if_false, hcall]
  rw [pcOf_setPc]
  split
  · rfl
  · rw [← pcOf_init n e0 s0 v k d c']; exact pcOf_congr rfl c'

theorem pcOf_arrive_pre {e0 : Option Nat} {s0 : Bool} {k : OriginKind} {v : Nat} {st : St}
    (h : Pre e0 s0 k v st) (c c' : Nat) :
    pcOf (step st (.arrive c)) c' = if c' = c ∧ pcOf st c = .idle then .waiting else pcOf st c' := by
  obtain ⟨call, hc, hf, hr⟩ := h.call
  simp only [step, hc, hr, Option.isNone_none, if_true]
  split
  · rename_i hi
    rw [if_neg (fun hh => hi hh.2)]
  · rename_i hi
    have hi' : pcOf st c = .idle := Classical.not_not.1 hi
    rw [pcOf_setPc]
    by_cases e : c' = c
    · rw [if_pos e, if_pos ⟨e, hi'⟩]
    · rw [if_neg e, if_neg (fun hh => e hh.1)]
      exact pcOf_congr rfl c'

/-- nobody has hung up or been served yet. -/
def AllIW (st : St) : Prop := ∀ c, pcOf st c = .idle ∨ pcOf st c = .waiting

theorem arrivals_waiting {e0 : Option Nat} {s0 : Bool} {k : OriginKind} {v : Nat} :
    ∀ (cs : List Nat) (st : St), Pre e0 s0 k v st → AllIW st →
      (∀ c, pcOf st c = .waiting → pcOf (run (arrivals cs) st) c = .waiting) ∧
      ∀ c ∈ cs, pcOf (run (arrivals cs) st) c = .waiting
  | [], _, _, _ => ⟨fun _ h => h, fun _ hc => nomatch hc⟩
  | a :: cs, st, hp, hiw => by
    have hp' := pre_arrive hp a
    have hiw' : AllIW (step st (.arrive a)) := by
      intro c
      rw [pcOf_arrive_pre hp]
      split
      · exact Or.inr rfl
      · exact hiw c
    have hkeep : ∀ c, pcOf st c = .waiting → pcOf (step st (.arrive a)) c = .waiting := by
      intro c hw
      rw [pcOf_arrive_pre hp]
      split
      · rfl
      · exact hw
    have ha : pcOf (step st (.arrive a)) a = .waiting := by
      rw [pcOf_arrive_pre hp]
      rcases hiw a with hi | hw
      · rw [if_pos ⟨rfl, hi⟩]
      · rw [if_neg (fun hh => by rw [hw] at hh; exact nomatch hh.2)]; exact hw
    obtain ⟨ih1, ih2⟩ := arrivals_waiting cs _ hp' hiw'
    refine ⟨fun c hw => ih1 c (hkeep c hw), ?_⟩
    intro c hc
    rcases List.mem_cons.1 hc with e | hm
    · rw [e]; exact ih1 a ha
    · exact ih2 c hm

theorem leaderFetch_uncacheable {k : OriginKind} {v : Nat} {st : St} (h : Pre none false k v st)
    (hk : k ≠ .cacheable) :
    (step st .leaderFetch).originLog = 1 ∧ (step st .leaderFetch).failed = [] ∧
      (step st .leaderFetch).originVer = v ∧
      ∃ call, (step st .leaderFetch).call = some call ∧ call.fetched = true ∧
        call.result = some .notCacheable := by
  obtain ⟨call, hc, hf, _⟩ := h.call
  have hlog : st.originLog + 1 = 1 := by rw [h.log]
  cases k with
  | cacheable => exact absurd rfl hk
  | uncacheable =>
    simp only [step, hc, hf, Bool.false_eq_true, if_false, h.det, Bool.not_true, Bool.false_and,
      h.entry, h.stale, h.kind]
    exact ⟨hlog, h.failed, h.ov, _, rfl, rfl, rfl⟩
  | storeFails =>
    simp only [step, hc, hf, Bool.false_eq_true, if_false, h.det, Bool.not_true, Bool.false_and,
      h.entry, h.stale, h.kind]
    exact ⟨hlog, h.failed, h.ov, _, rfl, rfl, rfl⟩

theorem act_notCacheable {st : St} {c : Nat} {s : Bool} (h : pcOf st c = .returned .notCacheable s) :
    step st (.act c) = ownFetch st c := by
  simp only [step, h]

theorem responded_run_acts {c x hh : Nat} : ∀ (l : List Nat) (st : St),
    pcOf st c = .responded x hh → pcOf (run (l.map .act) st) c = .responded x hh
  | [], _, h => h
  | a :: l, st, h => by
    apply responded_run_acts l
    rw [pcOf_act]
    split
    · rename_i e; rw [← e, h]; rfl
    · exact h

theorem acts_ownFetch : ∀ (l : List Nat) (st : St), l.Nodup →
    (∀ c ∈ l, ∃ s, pcOf st c = .returned .notCacheable s) →
    (run (l.map .act) st).originLog = st.originLog + l.length ∧
    (run (l.map .act) st).failed = st.failed ∧
    ∀ c ∈ l, ∃ h, pcOf (run (l.map .act) st) c = .responded st.originVer h
  | [], _, _, _ => ⟨rfl, rfl, fun _ hc => nomatch hc⟩
  | a :: l, st, hnd, hall => by
    rw [List.nodup_cons] at hnd
    obtain ⟨s, hs⟩ := hall a List.mem_cons_self
    have hstep := act_notCacheable hs
    have hall' : ∀ c ∈ l, ∃ s, pcOf (step st (.act a)) c = .returned .notCacheable s := by
      intro c hc
      have hne : c ≠ a := fun e => hnd.1 (e ▸ hc)
      rw [hstep, pcOf_ownFetch, if_neg hne]
      exact hall c (List.mem_cons_of_mem _ hc)
    obtain ⟨ih1, ih2, ih3⟩ := acts_ownFetch l (step st (.act a)) hnd.2 hall'
    rw [List.map_cons, run_cons]
    refine ⟨?_, ?_, ?_⟩
    · rw [ih1, hstep, ownFetch_originLog, List.length_cons]
      omega
    · rw [ih2, hstep, ownFetch_failed]
    · intro c hc
      rcases List.mem_cons.1 hc with e | hm
      · refine ⟨st.nextHandle, ?_⟩
        apply responded_run_acts
        rw [e, hstep, pcOf_ownFetch, if_pos rfl]
      · obtain ⟨hh, h3⟩ := ih3 c hm
        have hov : (step st (.act a)).originVer = st.originVer := by rw [hstep]; rfl
        rw [hov] at h3
        exact ⟨hh, h3⟩

theorem uncacheable_everyone_fetches (n v : Nat) (cs : List Nat) (k : OriginKind)
    (hne : cs ≠ []) (hnd : cs.Nodup) (hk : k ≠ .cacheable) :
    let st := run (arrivals cs ++ [.leaderFetch, .publish] ++ cs.map .act) (init n none false v k true)
    st.originLog = cs.length + 1 ∧ st.failed = [] ∧ ∀ c ∈ cs, ∃ h, pcOf st c = .responded v h := by
  intro st
  cases hcs : cs with
  | nil => exact absurd hcs hne
  | cons c0 cs' =>
    -- after the arrivals
    have hp0 := pre_first n none false v k c0
    have hiw0 : AllIW (step (init n none false v k true) (.arrive c0)) := by
      intro c
      rw [pcOf_first_arrive]
      split
      · exact Or.inr rfl
      · exact Or.inl rfl
    have hw0 : pcOf (step (init n none false v k true) (.arrive c0)) c0 = .waiting := by
      rw [pcOf_first_arrive, if_pos rfl]
    obtain ⟨hk1, hk2⟩ := arrivals_waiting cs' _ hp0 hiw0
    have hs1 : run (arrivals cs) (init n none false v k true) =
        run (arrivals cs') (step (init n none false v k true) (.arrive c0)) := by rw [hcs]; rfl
    have hp1 : Pre none false k v (run (arrivals cs) (init n none false v k true)) := by
      rw [hs1]; exact pre_arrivals cs' _ hp0
    have hwait1 : Wait (run (arrivals cs) (init n none false v k true)) :=
      run_inv wait_step _ _ (wait_init n none false v k true)
    have hall1 : ∀ c ∈ cs, pcOf (run (arrivals cs) (init n none false v k true)) c = .waiting := by
      intro c hc
      rw [hs1]
      rw [hcs] at hc
      rcases List.mem_cons.1 hc with e | hm
      · rw [e]; exact hk1 c0 hw0
      · exact hk2 c hm
    -- after the leader's fetch
    obtain ⟨hlog2, hfail2, hov2, call2, hc2, hf2, hr2⟩ := leaderFetch_uncacheable hp1 hk
    have hwait2 := wait_leaderFetch hwait1
    -- after publish
    have hall3 : ∀ c ∈ cs, ∃ s, pcOf (step (step (run (arrivals cs) (init n none false v k true))
        .leaderFetch) .publish) c = .returned .notCacheable s := by
      intro c hc
      have hw : pcOf (step (run (arrivals cs) (init n none false v k true)) .leaderFetch) c = .waiting := by
        rw [pcOf_leaderFetch]; exact hall1 c hc
      obtain ⟨call', hc', hm⟩ := hwait2 c hw
      rw [hc2] at hc'
      simp only [Option.some.injEq] at hc'
      subst hc'
      rw [pcOf_publish hc2 hf2, if_pos ⟨hm, hw⟩, hr2]
      exact ⟨_, rfl⟩
    have hlog3 : (step (step (run (arrivals cs) (init n none false v k true)) .leaderFetch) .publish).originLog = 1 := by
      rw [publish_eq hc2 hf2]; exact (pubFold_originLog _ _ _ _).trans hlog2
    have hfail3 : (step (step (run (arrivals cs) (init n none false v k true)) .leaderFetch) .publish).failed = [] := by
      rw [publish_eq hc2 hf2, hr2]; exact (pubFold_failed_some _ _ _ _).trans hfail2
    have hov3 : (step (step (run (arrivals cs) (init n none false v k true)) .leaderFetch) .publish).originVer = v := by
      rw [publish_eq hc2 hf2]; exact (pubFold_originVer _ _ _ _).trans hov2
    -- the callers act
    obtain ⟨h1, h2, h3⟩ := acts_ownFetch cs _ hnd hall3
    have hst : st = run (cs.map .act) (step (step (run (arrivals cs) (init n none false v k true))
        .leaderFetch) .publish) := by
      show run _ _ = _
      rw [run_append, run_append]
      rfl
    rw [← hcs, hst]
    refine ⟨?_, ?_, ?_⟩
    · rw [h1, hlog3]; omega
    · rw [h2, hfail3]
    · intro c hc
      obtain ⟨hh, h3'⟩ := h3 c hc
      rw [hov3] at h3'
      exact ⟨hh, h3'⟩

/-! ### late arrivals: arrivals and hang-ups interleaved in any order before the leader's fetch -/

def ArriveOrDisconnect (steps : List Step) : Prop :=
  ∀ s ∈ steps, (∃ c, s = .arrive c) ∨ (∃ c, s = .disconnect c)

/-- some client really arrives during `pre`: an `arrive c` that no `disconnect c`
    precedes (a client that hangs up before it ever arrives never arrives). -/
def SomeoneArrives (pre : List Step) : Prop :=
  ∃ c pre1 pre2, pre = pre1 ++ .arrive c :: pre2 ∧ .disconnect c ∉ pre1

/-- before anybody has arrived: no call, nothing has happened at the origin. -/
structure Pre0 (e0 : Option Nat) (s0 : Bool) (k : OriginKind) (v : Nat) (st : St) : Prop where
  log : st.originLog = 0
  failed : st.failed = []
  entry : st.entry = e0
  stale : st.staleEntry = s0
  kind : st.kind = k
  ov : st.originVer = v
  det : st.detached = true
  call : st.call = none
  pcs : ∀ c, pcOf st c = .idle ∨ pcOf st c = .gone

theorem pre0_init (n : Nat) (e0 : Option Nat) (s0 : Bool) (v : Nat) (k : OriginKind) :
    Pre0 e0 s0 k v (init n e0 s0 v k true) :=
  ⟨rfl, rfl, rfl, rfl, rfl, rfl, rfl, rfl, fun _ => Or.inl (pcOf_init ..)⟩

theorem pre0_disconnect {e0 : Option Nat} {s0 : Bool} {k : OriginKind} {v : Nat} {st : St}
    (h : Pre0 e0 s0 k v st) (c : Nat) : Pre0 e0 s0 k v (step st (.disconnect c)) := by
  refine ⟨?_, ?_, ?_, ?_, ?_, ?_, ?_, ?_, ?_⟩
  · rw [disconnect_originLog]; exact h.log
  · rw [disconnect_failed]; exact h.failed
  · rw [disconnect_entry]; exact h.entry
  · rw [disconnect_staleEntry]; exact h.stale
  · rw [disconnect_kind]; exact h.kind
  · rw [disconnect_originVer]; exact h.ov
  · rw [disconnect_detached]; exact h.det
  · rw [disconnect_call]; exact h.call
  · intro c'
    rw [pcOf_disconnect]
    split
    · rcases h.pcs c with e | e <;> rw [e] <;> exact Or.inr rfl
    · exact h.pcs c'

/-- an `arrive` of a client that is not idle (it hung up before arriving, or is
    already in flight) does nothing. -/
theorem arrive_not_idle {st : St} {c : Nat} (h : pcOf st c ≠ .idle) : step st (.arrive c) = st := by
  simp only [step, h, ne_eq, not_false_eq_true, if_true]

/-- the first real arrival starts the call. -/
theorem pre_of_pre0_arrive {e0 : Option Nat} {s0 : Bool} {k : OriginKind} {v : Nat} {st : St}
    (h : Pre0 e0 s0 k v st) {c : Nat} (hi : pcOf st c = .idle) :
    Pre e0 s0 k v (step st (.arrive c)) := by
  simp only [step, hi, ne_eq, not_true_eq_false, if_false, h.call]
  refine ⟨h.log, h.failed, h.entry, h.stale, h.kind, h.ov, h.det, ⟨_, rfl, rfl, rfl⟩, ?_⟩
  intro c'
  rw [pcOf_setPc]
  split
  · exact Or.inr (Or.inl rfl)
  · rcases h.pcs c' with e | e
    · exact Or.inl ((pcOf_congr rfl c').trans e)
    · exact Or.inr (Or.inr ((pcOf_congr rfl c').trans e))

/-- the state anywhere before the leader's fetch. -/
def PreAny (e0 : Option Nat) (s0 : Bool) (k : OriginKind) (v : Nat) (st : St) : Prop :=
  Pre0 e0 s0 k v st ∨ Pre e0 s0 k v st

theorem preAny_arrive {e0 : Option Nat} {s0 : Bool} {k : OriginKind} {v : Nat} {st : St}
    (h : PreAny e0 s0 k v st) (c : Nat) : PreAny e0 s0 k v (step st (.arrive c)) := by
  rcases h with h | h
  · by_cases hi : pcOf st c = .idle
    · exact Or.inr (pre_of_pre0_arrive h hi)
    · rw [arrive_not_idle hi]; exact Or.inl h
  · exact Or.inr (pre_arrive h c)

theorem preAny_disconnect {e0 : Option Nat} {s0 : Bool} {k : OriginKind} {v : Nat} {st : St}
    (h : PreAny e0 s0 k v st) (c : Nat) : PreAny e0 s0 k v (step st (.disconnect c)) := by
  rcases h with h | h
  · exact Or.inl (pre0_disconnect h c)
  · exact Or.inr (pre_disconnect h c)

theorem preAny_run {e0 : Option Nat} {s0 : Bool} {k : OriginKind} {v : Nat} (l : List Step) (st : St)
    (hl : ArriveOrDisconnect l) (h : PreAny e0 s0 k v st) : PreAny e0 s0 k v (run l st) := by
  refine run_inv_of (A := fun s => (∃ c, s = .arrive c) ∨ (∃ c, s = .disconnect c)) ?_ l st hl h
  intro st s hs hp
  rcases hs with ⟨c, e⟩ | ⟨c, e⟩
  · rw [e]; exact preAny_arrive hp c
  · rw [e]; exact preAny_disconnect hp c

theorem pre_run {e0 : Option Nat} {s0 : Bool} {k : OriginKind} {v : Nat} (l : List Step) (st : St)
    (hl : ArriveOrDisconnect l) (h : Pre e0 s0 k v st) : Pre e0 s0 k v (run l st) := by
  refine run_inv_of (A := fun s => (∃ c, s = .arrive c) ∨ (∃ c, s = .disconnect c)) ?_ l st hl h
  intro st s hs hp
  rcases hs with ⟨c, e⟩ | ⟨c, e⟩
  · rw [e]; exact pre_arrive hp c
  · rw [e]; exact pre_disconnect hp c

/-- whoever waits is in a call. -/
theorem pre_of_waiting {e0 : Option Nat} {s0 : Bool} {k : OriginKind} {v : Nat} {st : St}
    (h : PreAny e0 s0 k v st) {c : Nat} (hw : pcOf st c = .waiting) : Pre e0 s0 k v st := by
  rcases h with h | h
  · rcases h.pcs c with e | e <;> rw [e] at hw <;> exact nomatch hw
  · exact h

theorem pcOf_arrive_preAny {e0 : Option Nat} {s0 : Bool} {k : OriginKind} {v : Nat} {st : St}
    (h : PreAny e0 s0 k v st) (c c' : Nat) :
    pcOf (step st (.arrive c)) c' = if c' = c ∧ pcOf st c = .idle then .waiting else pcOf st c' := by
  rcases h with h | h
  · by_cases hi : pcOf st c = .idle
    · simp only [step, hi, ne_eq, not_true_eq_false, if_false, h.call]
      rw [pcOf_setPc]
      by_cases e : c' = c
      · rw [if_pos e, if_pos ⟨e, trivial⟩]
      · rw [if_neg e, if_neg (fun hh => e hh.1)]
        exact pcOf_congr rfl c'
    · rw [arrive_not_idle hi, if_neg (fun hh => hi hh.2)]
  · exact pcOf_arrive_pre h c c'

/-- a client that arrives at some point before the leader's fetch and does not
    hang up is waiting for the call when the fetch starts. -/
theorem arrived_waiting {e0 : Option Nat} {s0 : Bool} {k : OriginKind} {v : Nat} (c : Nat) :
    ∀ (l : List Step) (st : St), PreAny e0 s0 k v st → ArriveOrDisconnect l → .disconnect c ∉ l →
      (pcOf st c = .waiting ∨ (pcOf st c = .idle ∧ .arrive c ∈ l)) → pcOf (run l st) c = .waiting
  | [], _, _, _, _, h => by
    rcases h with h | ⟨_, h⟩
    · exact h
    · exact nomatch h
  | s :: l, st, hp, hl, hnd, h => by
    rw [run_cons]
    have hl' : ArriveOrDisconnect l := fun x hx => hl x (List.mem_cons_of_mem _ hx)
    have hnd' : .disconnect c ∉ l := fun hx => hnd (List.mem_cons_of_mem _ hx)
    rcases hl s List.mem_cons_self with ⟨a, e⟩ | ⟨a, e⟩
    · subst e
      apply arrived_waiting c l _ (preAny_arrive hp a) hl' hnd'
      rw [pcOf_arrive_preAny hp]
      by_cases hac : c = a
      · subst hac
        rcases h with h | ⟨h, _⟩
        · rw [if_neg (fun hh => by rw [h] at hh; exact nomatch hh.2)]; exact Or.inl h
        · rw [if_pos ⟨rfl, h⟩]; exact Or.inl rfl
      · rw [if_neg (fun hh => hac hh.1)]
        rcases h with h | ⟨h, hm⟩
        · exact Or.inl h
        · refine Or.inr ⟨h, ?_⟩
          rcases List.mem_cons.1 hm with e | hm
          · exact absurd (Step.arrive.inj e) hac
          · exact hm
    · subst e
      have hac : c ≠ a := fun e => hnd (e ▸ List.mem_cons_self)
      apply arrived_waiting c l _ (preAny_disconnect hp a) hl' hnd'
      rw [pcOf_disconnect, if_neg hac]
      rcases h with h | ⟨h, hm⟩
      · exact Or.inl h
      · refine Or.inr ⟨h, ?_⟩
        rcases List.mem_cons.1 hm with e | hm
        · exact nomatch e
        · exact hm

theorem aod_append {a b : List Step} (h : ArriveOrDisconnect (a ++ b)) :
    ArriveOrDisconnect a ∧ ArriveOrDisconnect b :=
  ⟨fun s hs => h s (List.mem_append_left _ hs), fun s hs => h s (List.mem_append_right _ hs)⟩

/-- a real arrival: a call is in flight when the leader's fetch starts. -/
theorem pre_of_someoneArrives {e0 : Option Nat} {s0 : Bool} {k : OriginKind} {v : Nat} (n : Nat)
    (pre : List Step) (hpre : ArriveOrDisconnect pre) (h : SomeoneArrives pre) :
    Pre e0 s0 k v (run pre (init n e0 s0 v k true)) := by
  obtain ⟨c, pre1, pre2, e, hnd⟩ := h
  subst e
  have e2 : pre1 ++ Step.arrive c :: pre2 = (pre1 ++ [.arrive c]) ++ pre2 := by simp
  rw [e2] at hpre ⊢
  obtain ⟨h1, h2⟩ := aod_append hpre
  rw [run_append]
  apply pre_run pre2 _ h2
  have hany := preAny_run (pre1 ++ [.arrive c]) _ h1 (Or.inl (pre0_init n e0 s0 v k))
  apply pre_of_waiting hany (c := c)
  apply arrived_waiting c _ _ (Or.inl (pre0_init n e0 s0 v k)) h1
  · intro hm
    rcases List.mem_append.1 hm with hm | hm
    · exact hnd hm
    · exact nomatch (List.mem_singleton.1 hm)
  · exact Or.inr ⟨pcOf_init .., List.mem_append_right _ (List.mem_singleton.2 rfl)⟩

/-- … and conversely: a call in flight means somebody really arrived. -/
theorem someoneArrives_of_pre {e0 : Option Nat} {s0 : Bool} {k : OriginKind} {v : Nat} :
    ∀ (l : List Step) (st : St), Pre0 e0 s0 k v st → ArriveOrDisconnect l → Pre e0 s0 k v (run l st) →
      ∃ c l1 l2, l = l1 ++ .arrive c :: l2 ∧ .disconnect c ∉ l1 ∧ pcOf st c = .idle
  | [], st, h0, _, h => by
    obtain ⟨call, hc, _⟩ := h.call
    have : st.call = none := h0.call
    rw [show run [] st = st from rfl, this] at hc
    exact nomatch hc
  | s :: l, st, h0, hl, h => by
    rw [run_cons] at h
    have hl' : ArriveOrDisconnect l := fun x hx => hl x (List.mem_cons_of_mem _ hx)
    rcases hl s List.mem_cons_self with ⟨a, e⟩ | ⟨a, e⟩
    · subst e
      by_cases hi : pcOf st a = .idle
      · exact ⟨a, [], l, rfl, List.not_mem_nil, hi⟩
      · rw [arrive_not_idle hi] at h
        obtain ⟨c, l1, l2, e, hnd, hc⟩ := someoneArrives_of_pre l st h0 hl' h
        refine ⟨c, .arrive a :: l1, l2, by rw [e]; rfl, ?_, hc⟩
        intro hm
        rcases List.mem_cons.1 hm with e' | hm
        · exact nomatch e'
        · exact hnd hm
    · subst e
      obtain ⟨c, l1, l2, e, hnd, hc⟩ := someoneArrives_of_pre l _ (pre0_disconnect h0 a) hl' h
      rw [pcOf_disconnect] at hc
      have hca : c ≠ a := by
        intro e'
        rw [if_pos e'] at hc
        exact absurd hc (by unfold discPc; split <;> exact fun hh => nomatch hh)
      rw [if_neg hca] at hc
      refine ⟨c, .disconnect a :: l1, l2, by rw [e]; rfl, ?_, hc⟩
      intro hm
      rcases List.mem_cons.1 hm with e' | hm
      · exact hca (Step.disconnect.inj e')
      · exact hnd hm

/-- nobody arrived: nothing happens at all. -/
structure Quiet (st : St) : Prop where
  log : st.originLog = 0
  failed : st.failed = []
  call : st.call = none
  pcs : ∀ c, pcOf st c = .idle ∨ pcOf st c = .gone

theorem quiet_of_pre0 {e0 : Option Nat} {s0 : Bool} {k : OriginKind} {v : Nat} {st : St}
    (h : Pre0 e0 s0 k v st) : Quiet st := ⟨h.log, h.failed, h.call, h.pcs⟩

theorem quiet_act {st : St} (h : Quiet st) (c : Nat) : step st (.act c) = st := by
  simp only [step]
  rcases h.pcs c with e | e <;> rw [e]

theorem quiet_disconnect {st : St} (h : Quiet st) (c : Nat) : Quiet (step st (.disconnect c)) := by
  refine ⟨?_, ?_, ?_, ?_⟩
  · rw [disconnect_originLog]; exact h.log
  · rw [disconnect_failed]; exact h.failed
  · rw [disconnect_call]; exact h.call
  · intro c'
    rw [pcOf_disconnect]
    split
    · rcases h.pcs c with e | e <;> rw [e] <;> exact Or.inr rfl
    · exact h.pcs c'

theorem quiet_callerSteps (l : List Step) (st : St) (hl : CallerSteps l) (h : Quiet st) : Quiet (run l st) := by
  refine run_inv_of (A := fun s => (∃ c, s = .act c) ∨ (∃ c, s = .disconnect c)) ?_ l st hl h
  intro st s hs hp
  rcases hs with ⟨c, e⟩ | ⟨c, e⟩
  · rw [e, quiet_act hp]; exact hp
  · rw [e]; exact quiet_disconnect hp c

/-- the common skeleton of the interleaved one-call theorems. -/
theorem one_call_interleaved {e0 : Option Nat} {s0 : Bool} {k : OriginKind} {v L w : Nat}
    (hmid : ∀ st, Pre e0 s0 k v st → Mid L w (step st .leaderFetch))
    (n : Nat) (pre tail : List Step) (hpre : ArriveOrDisconnect pre) (htail : CallerSteps tail) :
    let st := run (pre ++ [.leaderFetch, .publish] ++ tail) (init n e0 s0 v k true)
    st.failed = [] ∧ (∀ c ver h, pcOf st c = .responded ver h → ver = w) ∧
      (SomeoneArrives pre → st.originLog = L) ∧ (¬ SomeoneArrives pre → st.originLog = 0) := by
  intro st
  have hst : st = run tail (step (step (run pre (init n e0 s0 v k true)) .leaderFetch) .publish) := by
    show run _ _ = _
    rw [run_append, run_append]
    rfl
  rcases preAny_run pre _ hpre (Or.inl (pre0_init n e0 s0 v k)) with h0 | h1
  · -- nobody arrived
    have hq := quiet_of_pre0 h0
    have hq' : Quiet st := by
      rw [hst, leaderFetch_none hq.call, publish_none hq.call]
      exact quiet_callerSteps tail _ htail hq
    refine ⟨hq'.failed, ?_, ?_, fun _ => hq'.log⟩
    · intro c ver hh hpc
      rcases hq'.pcs c with e | e <;> rw [e] at hpc <;> exact nomatch hpc
    · intro hs
      have h1 := pre_of_someoneArrives (e0 := e0) (s0 := s0) (k := k) (v := v) n pre hpre hs
      obtain ⟨call, hc, _⟩ := h1.call
      rw [h0.call] at hc
      exact nomatch hc
  · have h4 : Post L w st := by
      rw [hst]
      exact post_callerSteps tail _ htail (post_of_mid (hmid _ h1))
    refine ⟨h4.failed, ?_, fun _ => h4.log, ?_⟩
    · intro c' ver hh hpc
      have := h4.pcs c'
      rw [hpc] at this
      exact this
    · intro hns
      obtain ⟨c, l1, l2, e, hnd, _⟩ := someoneArrives_of_pre pre _ (pre0_init n e0 s0 v k) hpre h1
      exact absurd ⟨c, l1, l2, e, hnd⟩ hns

theorem single_fetch_interleaved_cold (n v : Nat) (pre tail : List Step)
    (hpre : ArriveOrDisconnect pre) (htail : CallerSteps tail) :
    let st := run (pre ++ [.leaderFetch, .publish] ++ tail) (init n none false v .cacheable true)
    st.originLog ≤ 1 ∧ st.failed = [] ∧ (∀ c ver h, pcOf st c = .responded ver h → ver = v) ∧
      (st.originLog = 1 ↔ SomeoneArrives pre) := by
  intro st
  obtain ⟨h1, h2, h3, h4⟩ := one_call_interleaved (fun _ h => mid_cold h) n pre tail hpre htail
  by_cases hs : SomeoneArrives pre
  · have : st.originLog = 1 := h3 hs
    exact ⟨Nat.le_of_eq this, h1, h2, fun _ => hs, fun _ => this⟩
  · have : st.originLog = 0 := h4 hs
    refine ⟨by rw [this]; exact Nat.zero_le _, h1, h2, fun e => ?_, fun h => absurd h hs⟩
    rw [this] at e
    exact nomatch e

theorem single_fetch_interleaved_stale (n v0 v : Nat) (pre tail : List Step)
    (hpre : ArriveOrDisconnect pre) (htail : CallerSteps tail) :
    let st := run (pre ++ [.leaderFetch, .publish] ++ tail) (init n (some v0) true v .cacheable true)
    st.originLog ≤ 1 ∧ st.failed = [] ∧ (∀ c ver h, pcOf st c = .responded ver h → ver = v) ∧
      (st.originLog = 1 ↔ SomeoneArrives pre) := by
  intro st
  obtain ⟨h1, h2, h3, h4⟩ := one_call_interleaved (fun _ h => mid_stale h) n pre tail hpre htail
  by_cases hs : SomeoneArrives pre
  · have : st.originLog = 1 := h3 hs
    exact ⟨Nat.le_of_eq this, h1, h2, fun _ => hs, fun _ => this⟩
  · have : st.originLog = 0 := h4 hs
    refine ⟨by rw [this]; exact Nat.zero_le _, h1, h2, fun e => ?_, fun h => absurd h hs⟩
    rw [this] at e
    exact nomatch e

theorem no_fetch_interleaved_fresh (n v0 v : Nat) (pre tail : List Step) (k : OriginKind)
    (hpre : ArriveOrDisconnect pre) (htail : CallerSteps tail) :
    let st := run (pre ++ [.leaderFetch, .publish] ++ tail) (init n (some v0) false v k true)
    st.originLog = 0 ∧ st.failed = [] ∧ ∀ c ver h, pcOf st c = .responded ver h → ver = v0 := by
  intro st
  obtain ⟨h1, h2, h3, h4⟩ := one_call_interleaved (fun _ h => mid_fresh h) n pre tail hpre htail
  refine ⟨?_, h1, h2⟩
  by_cases hs : SomeoneArrives pre
  · exact h3 hs
  · exact h4 hs

/-! ### a late arrival joins the call in flight -/

/-- the call has returned to the client (or it has already been answered). -/
def Served (p : Pc) : Prop := (∃ r s, p = .returned r s) ∨ ∃ x h, p = .responded x h

theorem actPc_served {st : St} {p : Pc} (h : Served p) : ∃ x hh, actPc st p = .responded x hh := by
  rcases h with ⟨r, s, e⟩ | ⟨x, hh, e⟩
  · subst e
    cases r with
    | notCacheable => exact ⟨_, _, rfl⟩
    | cached h0 y =>
      cases s with
      | false => exact ⟨_, _, rfl⟩
      | true =>
        cases he : st.entry with
        | some z => exact ⟨z, st.nextHandle, by simp only [actPc, he]⟩
        | none => exact ⟨st.originVer, st.nextHandle, by simp only [actPc, he]⟩
  · subst e
    exact ⟨_, _, rfl⟩

theorem served_callerSteps (c : Nat) : ∀ (l : List Step) (st : St), CallerSteps l → .disconnect c ∉ l →
    Served (pcOf st c) → Served (pcOf (run l st) c)
  | [], _, _, _, h => h
  | s :: l, st, hl, hnd, h => by
    rw [run_cons]
    have hl' : CallerSteps l := fun x hx => hl x (List.mem_cons_of_mem _ hx)
    have hnd' : .disconnect c ∉ l := fun hx => hnd (List.mem_cons_of_mem _ hx)
    apply served_callerSteps c l _ hl' hnd'
    rcases hl s List.mem_cons_self with ⟨a, e⟩ | ⟨a, e⟩
    · subst e
      rw [pcOf_act]
      split
      · rename_i hca
        subst hca
        obtain ⟨x, hh, e⟩ := actPc_served (st := st) h
        exact Or.inr ⟨x, hh, e⟩
      · exact h
    · subst e
      have hac : c ≠ a := fun e => hnd (e ▸ List.mem_cons_self)
      rw [pcOf_disconnect, if_neg hac]
      exact h

/-- a caller that waits when the fetch has returned version `w`, after the call
    returns and the other callers take any of their steps, is answered with `w`
    when it acts — and the origin log stays where it was. -/
theorem waiting_caller_served {L w : Nat} {st : St} (hm : Mid L w st) (hwait : Wait st) {c : Nat}
    (hw : pcOf st c = .waiting) (tail : List Step) (htail : CallerSteps tail) (hnd : .disconnect c ∉ tail) :
    let st' := run (tail ++ [.act c]) (step st .publish)
    (∃ h, pcOf st' c = .responded w h) ∧ st'.originLog = L ∧ st'.failed = [] := by
  intro st'
  obtain ⟨call, hh, hc, hf, hr⟩ := hm.call
  have hp := post_of_mid hm
  have hs0 : Served (pcOf (step st .publish) c) := by
    obtain ⟨call', hc', hmem⟩ := hwait c hw
    rw [hc] at hc'
    simp only [Option.some.injEq] at hc'
    subst hc'
    rw [pcOf_publish hc hf, if_pos ⟨hmem, hw⟩, hr]
    exact Or.inl ⟨_, _, rfl⟩
  have hs1 := served_callerSteps c tail _ htail hnd hs0
  have hp1 := post_callerSteps tail _ htail hp
  have hp2 := post_act hp1 c
  have hst' : st' = step (run tail (step st .publish)) (.act c) := by
    show run _ _ = _
    rw [run_append]
    rfl
  rw [hst']
  refine ⟨?_, hp2.log, hp2.failed⟩
  obtain ⟨x, h0, e⟩ := actPc_served (st := run tail (step st .publish)) hs1
  have hpc : pcOf (step (run tail (step st .publish)) (.act c)) c = .responded x h0 := by
    rw [pcOf_act, if_pos rfl]; exact e
  have := hp2.pcs c
  rw [hpc] at this
  exact ⟨h0, by rw [hpc]; exact congrArg (Pc.responded · h0) this⟩

/-- the common skeleton of the late-arrival theorems. -/
theorem late_arrival_core {e0 : Option Nat} {s0 : Bool} {k : OriginKind} {v L w : Nat}
    (hmid : ∀ st, Pre e0 s0 k v st → Mid L w (step st .leaderFetch))
    (n : Nat) (c : Nat) (pre tail : List Step)
    (hpre : ArriveOrDisconnect pre) (harr : .arrive c ∈ pre) (hstay : .disconnect c ∉ pre)
    (htail : CallerSteps tail) (hstay' : .disconnect c ∉ tail) :
    let st := run (pre ++ [.leaderFetch, .publish] ++ tail ++ [.act c]) (init n e0 s0 v k true)
    (∃ h, pcOf st c = .responded w h) ∧ st.originLog = L ∧ st.failed = [] := by
  intro st
  have hany0 : PreAny e0 s0 k v (init n e0 s0 v k true) := Or.inl (pre0_init n e0 s0 v k)
  have hw : pcOf (run pre (init n e0 s0 v k true)) c = .waiting :=
    arrived_waiting c pre _ hany0 hpre hstay (Or.inr ⟨pcOf_init .., harr⟩)
  have h1 : Pre e0 s0 k v (run pre (init n e0 s0 v k true)) :=
    pre_of_waiting (preAny_run pre _ hpre hany0) hw
  have hwait : Wait (run pre (init n e0 s0 v k true)) := run_inv wait_step pre _ (wait_init n e0 s0 v k true)
  have hw2 : pcOf (step (run pre (init n e0 s0 v k true)) .leaderFetch) c = .waiting := by
    rw [pcOf_leaderFetch]; exact hw
  have := waiting_caller_served (hmid _ h1) (wait_leaderFetch hwait) hw2 tail htail hstay'
  have hst : st = run (tail ++ [.act c])
      (step (step (run pre (init n e0 s0 v k true)) .leaderFetch) .publish) := by
    show run _ _ = _
    simp only [run_append]
    rfl
  rw [hst]
  exact this

theorem late_arrival_joins_then (n v c : Nat) (pre tail : List Step)
    (hpre : ArriveOrDisconnect pre) (harr : .arrive c ∈ pre) (hstay : .disconnect c ∉ pre)
    (htail : CallerSteps tail) (hstay' : .disconnect c ∉ tail) :
    let st := run (pre ++ [.leaderFetch, .publish] ++ tail ++ [.act c]) (init n none false v .cacheable true)
    (∃ h, pcOf st c = .responded v h) ∧ st.originLog = 1 ∧ st.failed = [] :=
  late_arrival_core (fun _ h => mid_cold h) n c pre tail hpre harr hstay htail hstay'

theorem late_arrival_joins (n v c : Nat) (pre : List Step)
    (hpre : ArriveOrDisconnect pre) (harr : .arrive c ∈ pre) (hstay : .disconnect c ∉ pre) :
    let st := run (pre ++ [.leaderFetch, .publish, .act c]) (init n none false v .cacheable true)
    (∃ h, pcOf st c = .responded v h) ∧ st.originLog = 1 := by
  intro st
  have := late_arrival_joins_then n v c pre [] hpre harr hstay (fun _ h => nomatch h) (fun h => nomatch h)
  have hst : st = run (pre ++ [.leaderFetch, .publish] ++ [] ++ [.act c]) (init n none false v .cacheable true) := by
    show run _ _ = run _ _
    simp
  rw [hst]
  exact ⟨this.1, this.2.1⟩

theorem late_arrival_joins_stale (n v0 v c : Nat) (pre tail : List Step)
    (hpre : ArriveOrDisconnect pre) (harr : .arrive c ∈ pre) (hstay : .disconnect c ∉ pre)
    (htail : CallerSteps tail) (hstay' : .disconnect c ∉ tail) :
    let st := run (pre ++ [.leaderFetch, .publish] ++ tail ++ [.act c]) (init n (some v0) true v .cacheable true)
    (∃ h, pcOf st c = .responded v h) ∧ st.originLog = 1 ∧ st.failed = [] :=
  late_arrival_core (fun _ h => mid_stale h) n c pre tail hpre harr hstay htail hstay'

theorem late_arrival_joins_fresh (n v0 v c : Nat) (k : OriginKind) (pre tail : List Step)
    (hpre : ArriveOrDisconnect pre) (harr : .arrive c ∈ pre) (hstay : .disconnect c ∉ pre)
    (htail : CallerSteps tail) (hstay' : .disconnect c ∉ tail) :
    let st := run (pre ++ [.leaderFetch, .publish] ++ tail ++ [.act c]) (init n (some v0) false v k true)
    (∃ h, pcOf st c = .responded v0 h) ∧ st.originLog = 0 ∧ st.failed = [] :=
  late_arrival_core (fun _ h => mid_fresh h) n c pre tail hpre harr hstay htail hstay'

end Rv.Lemmas.Flight
