import Rv.Model.Duration
import Rv.Lemmas.Dec
/-
  Rv.Lemmas.Duration — `time.ParseDuration (d.String()) = d` for every int64
  `d`, and `Level.parse (l.String()) = l` for every int64 `l`, for the models
  of Rv.Model.Duration.
-/
namespace Rv.Lemmas.Duration
open Rv Rv.Duration Rv.Lemmas.Dec

/-! ## slog.Level -/

theorem indexAny_none : ∀ (x : Str), (∀ c ∈ x, c ≠ '+' ∧ c ≠ '-') → indexAny x = none
  | [], _ => rfl
  | c :: cs, h => by
      have hc := h c (by simp)
      have ih := indexAny_none cs (fun a ha => h a (by simp [ha]))
      simp only [indexAny, hc.1, hc.2, decide_false, Bool.or_self, Bool.false_eq_true, if_false, ih]

theorem indexAny_split : ∀ (name : Str) (c : Char) (rest : Str),
    (∀ a ∈ name, a ≠ '+' ∧ a ≠ '-') → (c = '+' ∨ c = '-') →
      indexAny (name ++ c :: rest) = some (name, c :: rest)
  | [], c, rest, _, hc => by
      rcases hc with hc | hc <;> subst hc <;> simp [indexAny]
  | a :: as, c, rest, h, hc => by
      have ha := h a (by simp)
      have ih := indexAny_split as c rest (fun b hb => h b (by simp [hb])) hc
      simp only [List.cons_append, indexAny, ha.1, ha.2, decide_false, Bool.or_self,
        Bool.false_eq_true, if_false, ih]

theorem atoi_neg (k : Nat) (hk : k ≤ pow63) : atoi ('-' :: toDec k) = some (-(k : Int)) := by
  have hne := toDec_ne_nil k
  have had := allDigits_toDec k
  have hv := decVal_toDec k
  simp [atoi, hne, had, hv]
  omega

theorem atoi_pos (k : Nat) (hk : k < pow63) : atoi ('+' :: toDec k) = some (k : Int) := by
  have hne := toDec_ne_nil k
  have had := allDigits_toDec k
  have hv := decVal_toDec k
  simp [atoi, hne, had, hv]
  unfold pow63 at *
  omega

/-- a level name followed by the offset that `Level.String` prints. -/
theorem parseLevel_levelStr (base : Str) (b val : Int)
    (hb : levelBase (upperName base) = some b) (hs : ∀ a ∈ base, a ≠ '+' ∧ a ≠ '-')
    (h1 : -(pow63 : Int) ≤ val) (h2 : val < pow63) :
    parseLevel (levelStr base val) = some (wrap64 (b + val)) := by
  unfold levelStr
  by_cases h0 : val = 0
  · subst h0
    simp only [if_true, parseLevel, indexAny_none base hs, hb]
  · rw [if_neg h0]
    by_cases hp : val > 0
    · have hk : val.natAbs < pow63 := by omega
      have hi : ¬ val < 0 := by omega
      simp only [hp, if_true, intToDec, hi, if_false, parseLevel,
        indexAny_split base '+' _ hs (Or.inl rfl), atoi_pos _ hk, hb]
      have : (val.natAbs : Int) = val := by omega
      rw [this]
    · have hk : val.natAbs ≤ pow63 := by omega
      have hi : val < 0 := by omega
      simp only [hp, if_false, intToDec, hi, if_true, parseLevel,
        indexAny_split base '-' _ hs (Or.inr rfl), atoi_neg _ hk, hb]
      have : -(val.natAbs : Int) = val := by omega
      rw [this]

theorem wrap64_id (x : Int) (h1 : -(pow63 : Int) ≤ x) (h2 : x < pow63) : wrap64 x = x := by
  unfold wrap64; unfold pow63 at *; omega

/-- `slog.Level`: `parse (l.String()) = l` for every 64-bit `int` value. -/
theorem level_round_trip64 (l : Int) (h1 : -(2 ^ 63 : Int) ≤ l) (h2 : l < 2 ^ 63) :
    parseLevel (levelString l) = some l := by
  have e : (2 ^ 63 : Int) = (pow63 : Int) := by decide
  rw [e] at h1 h2
  have p : (pow63 : Int) = 9223372036854775808 := rfl
  unfold levelString
  split
  · rw [parseLevel_levelStr (s "DEBUG") (-4) _ (by decide) (by decide) (by omega) (by omega),
      wrap64_id _ (by omega) (by omega)]
    congr 1; omega
  · split
    · rw [parseLevel_levelStr (s "INFO") 0 _ (by decide) (by decide) (by omega) (by omega),
        wrap64_id _ (by omega) (by omega)]
      congr 1; omega
    · split
      · rw [parseLevel_levelStr (s "WARN") 4 _ (by decide) (by decide) (by omega) (by omega),
          wrap64_id _ (by omega) (by omega)]
        congr 1; omega
      · rw [parseLevel_levelStr (s "ERROR") 8 _ (by decide) (by decide) (by omega) (by omega),
          wrap64_id _ (by omega) (by omega)]
        congr 1; omega

/-- the statement for a 32-bit `int`. -/
theorem level_round_trip (l : Int) (h1 : -(2 ^ 31 : Int) ≤ l) (h2 : l < 2 ^ 31) :
    parseLevel (levelString l) = some l :=
  level_round_trip64 l (by omega) (by omega)

/-! ## time.Duration: printing -/

theorem fmtIntLoop_zero (fuel : Nat) (buf : Str) : fmtIntLoop fuel 0 buf = buf := by
  cases fuel <;> simp [fmtIntLoop]

theorem fmtIntLoop_eq : ∀ (fuel v : Nat) (buf : Str), 0 < v → v < fuel →
    fmtIntLoop fuel v buf = toDecAux fuel v buf
  | 0, v, buf, _, h => by omega
  | fuel + 1, v, buf, h0, h => by
      simp only [fmtIntLoop, toDecAux, gt_iff_lt, h0, if_true]
      by_cases hz : v / 10 = 0
      · rw [if_pos hz, hz, fmtIntLoop_zero]
      · rw [if_neg hz]
        exact fmtIntLoop_eq fuel (v / 10) _ (by omega) (by omega)

/-- `fmtInt` prepends the decimal digits of `v`. -/
theorem fmtInt_eq (buf : Str) (v : Nat) : fmtInt buf v = toDec v ++ buf := by
  unfold fmtInt
  by_cases h : v = 0
  · subst h; rfl
  · rw [if_neg h, fmtIntLoop_eq _ _ _ (by omega) (by omega), toDecAux_append]; rfl

theorem pow_succ' (i : Nat) : 10 ^ (i + 1) = 10 * 10 ^ i := by
  rw [Nat.pow_succ, Nat.mul_comm]

/-- once a non-zero digit has been seen, all remaining digits are printed. -/
theorem fmtFracLoop_true : ∀ (i v : Nat) (buf : Str),
    ∃ fs, fmtFracLoop i v true buf = ('.' :: (fs ++ buf), v / 10 ^ i) ∧ allDigits fs = true ∧
      fs.length = i ∧ decVal fs = v % 10 ^ i
  | 0, v, buf => ⟨[], by simp [fmtFracLoop], rfl, rfl, by simp [decVal_nil, Nat.mod_one]⟩
  | i + 1, v, buf => by
      obtain ⟨fs, h1, h2, h3, h4⟩ := fmtFracLoop_true i (v / 10) (Char.ofNat (48 + v % 10) :: buf)
      have hlt : v % 10 < 10 := Nat.mod_lt _ (by omega)
      refine ⟨fs ++ [Char.ofNat (48 + v % 10)], ?_, ?_, ?_, ?_⟩
      · simp only [fmtFracLoop, Bool.true_or, if_true, h1, pow_succ', Nat.div_div_eq_div_mul,
          List.append_assoc, List.cons_append, List.nil_append]
      · rw [allDigits_append]
        exact ⟨h2, by simp [allDigits, isDigit_ofNat _ hlt]⟩
      · simp [h3]
      · rw [decVal_snoc, h4, digitVal_ofNat _ hlt, pow_succ', Nat.mod_mul]
        omega

/-- what `fmtFrac` prints for the remainder `r` of `prec` digits: nothing when
    `r = 0`, else a point and `r` without its trailing zeros. -/
def FracOf (fr : Str) (r prec : Nat) : Prop :=
  (r = 0 ∧ fr = []) ∨
  (∃ fs, fr = '.' :: fs ∧ allDigits fs = true ∧ fs ≠ [] ∧ fs.length ≤ prec ∧
    decVal fs * 10 ^ (prec - fs.length) = r)

theorem fmtFracLoop_false : ∀ (i v : Nat) (buf : Str),
    ∃ fr, fmtFracLoop i v false buf = (fr ++ buf, v / 10 ^ i) ∧ FracOf fr (v % 10 ^ i) i
  | 0, v, buf => ⟨[], by simp [fmtFracLoop], Or.inl ⟨by simp [Nat.mod_one], rfl⟩⟩
  | i + 1, v, buf => by
      have hlt : v % 10 < 10 := Nat.mod_lt _ (by omega)
      by_cases hd : v % 10 = 0
      · obtain ⟨fr, h1, h2⟩ := fmtFracLoop_false i (v / 10) buf
        refine ⟨fr, ?_, ?_⟩
        · simp only [fmtFracLoop, hd, bne_self_eq_false, Bool.or_self, Bool.false_eq_true,
            if_false, h1, pow_succ', Nat.div_div_eq_div_mul]
        · rw [pow_succ', Nat.mod_mul, hd, Nat.zero_add]
          rcases h2 with ⟨h0, hnil⟩ | ⟨fs, hfs, had, hne, hlen, hval⟩
          · exact Or.inl ⟨by rw [h0], hnil⟩
          · refine Or.inr ⟨fs, hfs, had, hne, by omega, ?_⟩
            have : i + 1 - fs.length = (i - fs.length) + 1 := by omega
            rw [this, pow_succ', ← hval]
            rw [Nat.mul_left_comm]
      · obtain ⟨fs, h1, h2, h3, h4⟩ :=
          fmtFracLoop_true i (v / 10) (Char.ofNat (48 + v % 10) :: buf)
        refine ⟨'.' :: (fs ++ [Char.ofNat (48 + v % 10)]), ?_, Or.inr ⟨_, rfl, ?_, by simp, by simp [h3], ?_⟩⟩
        · have hb : (v % 10 != 0) = true := by simp [hd]
          simp only [fmtFracLoop, hb, Bool.or_true, if_true, h1, pow_succ', Nat.div_div_eq_div_mul,
            List.append_assoc, List.cons_append, List.nil_append]
        · rw [allDigits_append]
          exact ⟨h2, by simp [allDigits, isDigit_ofNat _ hlt]⟩
        · have : i + 1 - (fs ++ [Char.ofNat (48 + v % 10)]).length = 0 := by simp [h3]
          rw [this, decVal_snoc, h4, digitVal_ofNat _ hlt, pow_succ', Nat.mod_mul]
          omega

theorem fmtFrac_spec (buf : Str) (v prec : Nat) :
    ∃ fr, fmtFrac buf v prec = (fr ++ buf, v / 10 ^ prec) ∧ FracOf fr (v % 10 ^ prec) prec :=
  fmtFracLoop_false prec v buf

/-! ## time.ParseDuration: the pieces of one loop iteration -/

/-- `rest` does not start with a digit. -/
def NoDigitHead (rest : Str) : Prop := ∀ c cs, rest = c :: cs → isDigit c = false

/-- `rest` is empty or starts a new number: the unit scan stops there. -/
def Stops (rest : Str) : Prop := ∀ c cs, rest = c :: cs → (c = '.' || isDigit c) = true

/-- no byte of `us` ends the unit scan. -/
def UnitChars (us : Str) : Prop := ∀ c ∈ us, (c = '.' || isDigit c) = false

theorem toDec_cons (n : Nat) : ∃ c cs, toDec n = c :: cs ∧ isDigit c = true := by
  have hne := toDec_ne_nil n
  have had := allDigits_toDec n
  cases h : toDec n with
  | nil => exact absurd h hne
  | cons c cs =>
    rw [h, allDigits_cons] at had
    exact ⟨c, cs, rfl, had.1⟩

theorem stops_toDec (n : Nat) (tl : Str) : Stops (toDec n ++ tl) := by
  obtain ⟨c, cs, h, hc⟩ := toDec_cons n
  intro a as ha
  rw [h] at ha
  simp only [List.cons_append, List.cons.injEq] at ha
  rw [← ha.1, hc, Bool.or_true]

theorem stops_nil : Stops [] := by
  intro c cs h; cases h

theorem leadingInt_digits (rest : Str) (hr : NoDigitHead rest) :
    ∀ (ds : Str) (x : Nat), allDigits ds = true → val x ds ≤ pow63 →
      leadingInt (ds ++ rest) x = some (val x ds, rest)
  | [], x, _, _ => by
      rw [List.nil_append, val_nil]
      cases rest with
      | nil => rfl
      | cons c cs => simp [leadingInt, hr c cs rfl]
  | c :: cs, x, hd, hv => by
      rw [allDigits_cons] at hd
      rw [val_cons] at hv
      have h9 := digitVal_le hd.1
      have hge := val_ge cs (x * 10 + digitVal c)
      have h1 : ¬ x > pow63 / 10 := by unfold pow63 at *; omega
      have h2 : ¬ x * 10 + digitVal c > pow63 := by omega
      simp only [List.cons_append, leadingInt, hd.1, Bool.not_true, Bool.false_eq_true, if_false,
        h1, h2, val_cons]
      exact leadingInt_digits rest hr cs _ hd.2 hv

/-! ### float64: the values that occur for printed durations are exact -/

theorem log2Aux_le : ∀ (fuel n : Nat), 0 < n → n ≤ fuel → 2 ^ log2Aux fuel n ≤ n
  | 0, n, h0, h => by omega
  | fuel + 1, n, h0, h => by
      simp only [log2Aux]
      split
      · rw [Nat.pow_zero]; omega
      · have ih := log2Aux_le fuel (n / 2) (by omega) (by omega)
        rw [Nat.pow_succ]; omega

theorem log2_le (n : Nat) (h : 0 < n) : 2 ^ log2 n ≤ n :=
  log2Aux_le n n h (Nat.le_refl n)

theorem two53 : (2 : Nat) ^ 53 = 9007199254740992 := by decide

theorem log2_le52 (v : Nat) (h0 : 0 < v) (h : v < 2 ^ 53) : log2 v ≤ 52 := by
  have h1 := log2_le v h0
  rcases Nat.lt_or_ge (log2 v) 53 with hlt | hge
  · omega
  · have := Nat.pow_le_pow_right (n := 2) (by omega) hge
    omega

theorem rne_exact (a d : Nat) (hd : 0 < d) : rne (a * d) d = a := by
  unfold rne
  simp only [Nat.mul_mod_left, Nat.mul_zero, hd, if_true, Nat.mul_div_cancel _ hd]

/-- the float64 `x` is the integer `v`, written as `(v * 2^k) / 2^k`. -/
def IsVal (x : F64) (v : Nat) : Prop := ∃ k, x = .fin (v * 2 ^ k) (2 ^ k)

/-- an integer below `2^53` is a float64: rounding returns it (as `v*2^k / 2^k`). -/
theorem round_exact (v d : Nat) (hd : 0 < d) (h0 : 0 < v) (h : v < 2 ^ 53) :
    IsVal (F64.round (v * d) d) v := by
  have hL := log2_le52 v h0 h
  have hfl : floorLog2 (v * d) d = (log2 v : Int) := by
    unfold floorLog2
    rw [if_pos (Nat.le_mul_of_pos_left d h0), Nat.mul_div_cancel _ hd]
  have hne : v * d ≠ 0 := Nat.ne_of_gt (Nat.mul_pos h0 hd)
  unfold F64.round
  rw [if_neg hne]
  simp only [hfl]
  have he : max ((log2 v : Int) - 52) (-1074) = (log2 v : Int) - 52 := by omega
  rw [he]
  by_cases h52 : log2 v = 52
  · have hz : ((log2 v : Int) - 52).toNat = 0 := by omega
    have hnn : (0 : Int) ≤ (log2 v : Int) - 52 := by omega
    rw [if_pos hnn, hz, Nat.pow_zero, Nat.mul_one, Nat.mul_one, rne_exact v d hd]
    have hbig : ¬ 2 ^ 1024 ≤ v := by
      have := Nat.pow_le_pow_right (n := 2) (by omega) (show 53 ≤ 1024 by omega)
      omega
    rw [if_neg hbig]
    exact ⟨0, by rw [Nat.pow_zero, Nat.mul_one]⟩
  · have hneg : ¬ (0 : Int) ≤ (log2 v : Int) - 52 := by omega
    rw [if_neg hneg]
    refine ⟨(-((log2 v : Int) - 52)).toNat, ?_⟩
    rw [Nat.mul_right_comm, rne_exact _ d hd]

theorem isVal_one : IsVal F64.one 1 := ⟨0, rfl⟩

theorem ofNat_exact (x : Nat) (h0 : 0 < x) (h : x < 2 ^ 53) : IsVal (F64.ofNat x) x := by
  have := round_exact x 1 (by omega) h0 h
  rw [Nat.mul_one] at this
  exact this

theorem mul_exact (x y : F64) (a b : Nat) (hx : IsVal x a) (hy : IsVal y b)
    (h0 : 0 < a * b) (h : a * b < 2 ^ 53) : IsVal (F64.mul x y) (a * b) := by
  obtain ⟨i, rfl⟩ := hx
  obtain ⟨j, rfl⟩ := hy
  show IsVal (F64.round (a * 2 ^ i * (b * 2 ^ j)) (2 ^ i * 2 ^ j)) (a * b)
  have e : a * 2 ^ i * (b * 2 ^ j) = a * b * (2 ^ i * 2 ^ j) := by ac_rfl
  rw [e]
  exact round_exact _ _ (Nat.mul_pos (Nat.pow_pos (by omega)) (Nat.pow_pos (by omega))) h0 h

theorem div_exact (x y : F64) (q b : Nat) (hx : IsVal x (q * b)) (hy : IsVal y b)
    (hb : 0 < b) (h0 : 0 < q) (h : q < 2 ^ 53) : IsVal (F64.div x y) q := by
  obtain ⟨i, rfl⟩ := hx
  obtain ⟨j, rfl⟩ := hy
  have hp : 0 < b * 2 ^ j := Nat.mul_pos hb (Nat.pow_pos (by omega))
  show IsVal (if b * 2 ^ j = 0 then F64.inf
    else F64.round (q * b * 2 ^ i * 2 ^ j) (2 ^ i * (b * 2 ^ j))) q
  rw [if_neg (by omega)]
  have e : q * b * 2 ^ i * 2 ^ j = q * (2 ^ i * (b * 2 ^ j)) := by ac_rfl
  rw [e]
  exact round_exact _ _ (Nat.mul_pos (Nat.pow_pos (by omega)) hp) h0 h

theorem toNat_exact (x : F64) (v : Nat) (hx : IsVal x v) : F64.toNat x = v := by
  obtain ⟨k, rfl⟩ := hx
  exact Nat.mul_div_cancel _ (Nat.pow_pos (by omega))

theorem pow10_le15 {j : Nat} (h : j ≤ 15) : 10 ^ j ≤ 1000000000000000 := by
  have := Nat.pow_le_pow_right (n := 10) (by omega) h
  have e : (10 : Nat) ^ 15 = 1000000000000000 := by decide
  omega

/-- `scale *= 10` is exact up to `10^15`. -/
theorem scale_step (sc : F64) (j : Nat) (hsc : IsVal sc (10 ^ j)) (h : j + 1 ≤ 15) :
    IsVal (F64.mul sc (F64.ofNat 10)) (10 ^ (j + 1)) := by
  have hp := pow10_le15 h
  have e2 := two53
  rw [Nat.pow_succ] at hp ⊢
  exact mul_exact sc _ (10 ^ j) 10 hsc (ofNat_exact 10 (by omega) (by omega))
    (Nat.mul_pos (Nat.pow_pos (by omega)) (by omega)) (by omega)

theorem leadingFraction_digits (rest : Str) (hr : NoDigitHead rest) :
    ∀ (fs : Str) (x j : Nat) (sc : F64), allDigits fs = true → x < 10 ^ j →
      j + fs.length ≤ 15 → IsVal sc (10 ^ j) →
      ∃ sc', leadingFraction (fs ++ rest) x sc false = (val x fs, sc', rest) ∧
        IsVal sc' (10 ^ (j + fs.length))
  | [], x, j, sc, _, _, _, hsc => by
      rw [List.nil_append, val_nil, List.length_nil, Nat.add_zero]
      refine ⟨sc, ?_, hsc⟩
      cases rest with
      | nil => rfl
      | cons c cs => simp [leadingFraction, hr c cs rfl]
  | c :: cs, x, j, sc, hd, hx, hj, hsc => by
      rw [allDigits_cons] at hd
      rw [List.length_cons] at hj
      have h9 := digitVal_le hd.1
      have hp := pow10_le15 (j := j) (by omega)
      have h1 : ¬ x > (pow63 - 1) / 10 := by unfold pow63; omega
      have h2 : ¬ x * 10 + digitVal c > pow63 := by unfold pow63; omega
      have hx' : x * 10 + digitVal c < 10 ^ (j + 1) := by rw [Nat.pow_succ]; omega
      obtain ⟨sc', h, hv⟩ := leadingFraction_digits rest hr cs _ (j + 1) _ hd.2 hx' (by omega)
        (scale_step sc j hsc (by omega))
      refine ⟨sc', ?_, ?_⟩
      · simp only [List.cons_append, leadingFraction, hd.1, Bool.not_true, Bool.false_eq_true,
          if_false, h1, h2, val_cons, h]
      · have : j + (cs.length + 1) = j + 1 + cs.length := by omega
        rw [List.length_cons, this]
        exact hv

theorem takeUnit_append (rest : Str) (hr : Stops rest) :
    ∀ (us : Str), UnitChars us → takeUnit (us ++ rest) = (us, rest)
  | [], _ => by
      rw [List.nil_append]
      cases rest with
      | nil => rfl
      | cons c cs =>
        have := hr c cs rfl
        simp only [takeUnit, this, if_true]
  | c :: cs, h => by
      have hc := h c (by simp)
      have ih := takeUnit_append rest hr cs (fun a ha => h a (by simp [ha]))
      simp only [List.cons_append, takeUnit, hc, Bool.false_eq_true, if_false, ih]

/-- the fraction step is exact when `10^k` divides the unit. -/
theorem fracNanos_exact (f unit k : Nat) (sc : F64) (hsc : IsVal sc (10 ^ k)) (hf0 : 0 < f)
    (hu : 0 < unit) (hu2 : unit < 2 ^ 53) (hdvd : unit % 10 ^ k = 0) (hf : f < 10 ^ k) :
    fracNanos f unit sc = f * (unit / 10 ^ k) := by
  have hpk : 0 < 10 ^ k := Nat.pow_pos (by omega)
  have hq : unit / 10 ^ k * 10 ^ k = unit := Nat.div_mul_cancel (Nat.dvd_of_mod_eq_zero hdvd)
  have hqpos : 0 < unit / 10 ^ k := by
    rcases Nat.eq_zero_or_pos (unit / 10 ^ k) with h | h
    · rw [h, Nat.zero_mul] at hq; omega
    · exact h
  have hkle : 10 ^ k ≤ unit := by
    have := Nat.mul_le_mul_right (10 ^ k) hqpos
    rw [hq, Nat.one_mul] at this
    exact this
  have hfq : f * (unit / 10 ^ k) < unit := by
    have := Nat.mul_lt_mul_of_pos_right hf hqpos
    rw [Nat.mul_comm (10 ^ k), hq] at this
    exact this
  have hqle : unit / 10 ^ k ≤ unit := Nat.div_le_self _ _
  have hU : IsVal (F64.ofNat unit) (unit / 10 ^ k * 10 ^ k) := by
    rw [hq]; exact ofNat_exact unit hu hu2
  have hD := div_exact _ sc (unit / 10 ^ k) (10 ^ k) hU hsc hpk hqpos (by omega)
  have hM := mul_exact _ _ f (unit / 10 ^ k) (ofNat_exact f hf0 (by omega)) hD
    (Nat.mul_pos hf0 hqpos) (by omega)
  exact toNat_exact _ _ hM

theorem parseFrac_noPoint (c : Char) (t : Str) (h : c ≠ '.') :
    parseFrac (c :: t) = (0, F64.one, c :: t, false) := by
  simp only [parseFrac, h, if_false]

theorem parseFrac_point (fs tl : Str) (hd : allDigits fs = true) (hne : fs ≠ [])
    (hlen : fs.length ≤ 15) (htl : NoDigitHead tl) :
    ∃ sc, parseFrac ('.' :: (fs ++ tl)) = (decVal fs, sc, tl, true) ∧
      IsVal sc (10 ^ fs.length) := by
  obtain ⟨sc, h, hsc⟩ := leadingFraction_digits tl htl fs 0 0 F64.one hd (by decide) (by omega)
    isVal_one
  rw [Nat.zero_add] at hsc
  rw [← decVal_eq] at h
  refine ⟨sc, ?_, hsc⟩
  have hpost : ((fs ++ tl).length != tl.length) = true := by
    cases fs with
    | nil => exact absurd rfl hne
    | cons a as => simp [List.length_append]; omega
  simp only [parseFrac, if_true, h, hpost]

/-- one iteration of the ParseDuration loop on a printed term: number, optional
    fraction, unit. -/
theorem parseLoop_term (fuel n d unit f : Nat) (str frus us rest : Str) (scale : F64) (post : Bool)
    (hs : str = toDec n ++ frus) (hn : n ≤ pow63) (hnd : NoDigitHead frus)
    (hfr : parseFrac frus = (f, scale, us ++ rest, post))
    (hus : UnitChars us) (hne : us ≠ []) (hu : unitOf us = some unit) (hrest : Stops rest)
    (d' : Nat) (hadd : addTerm d n f scale unit = some d') :
    parseLoop (fuel + 1) str d = parseLoop fuel rest d' := by
  obtain ⟨c, cs, hc, hcd⟩ := toDec_cons n
  have hL : leadingInt (c :: (cs ++ frus)) 0 = some (n, frus) := by
    have := leadingInt_digits frus hnd (toDec n) 0 (allDigits_toDec n)
      (by rw [← decVal_eq, decVal_toDec]; exact hn)
    rwa [← decVal_eq, decVal_toDec, hc, List.cons_append] at this
  have hpre : ((c :: (cs ++ frus)).length != frus.length) = true := by
    simp [List.length_append]; omega
  subst hs
  rw [hc, List.cons_append]
  simp only [parseLoop, hcd, Bool.or_true, Bool.not_true, Bool.false_eq_true, if_false, hL, hpre,
    Bool.false_and, hfr, takeUnit_append rest hrest us hus, hne, hu, hadd]

/-- the overflow tests of one term all pass when the running total stays ≤ 2^63. -/
theorem addTerm_of (d v f unit x : Nat) (scale : F64) (hu : 0 < unit)
    (hx : 0 < f → fracNanos f unit scale = x) (hx0 : f = 0 → x = 0)
    (hle : d + v * unit + x ≤ pow63) :
    addTerm d v f scale unit = some (d + v * unit + x) := by
  have h1 : ¬ v > pow63 / unit := by
    have : v ≤ pow63 / unit := (Nat.le_div_iff_mul_le hu).mpr (by omega)
    omega
  have hlt : d + v * unit + x < pow64 := by unfold pow64; unfold pow63 at hle; omega
  by_cases hf : 0 < f
  · have h2 : ¬ pow63 < v * unit + x := by omega
    have h3 : ¬ pow63 < d + v * unit + x := by omega
    simp only [addTerm, h1, if_false, gt_iff_lt, hf, if_true, hx hf]
    simp only [h2, if_false, ← Nat.add_assoc, Nat.mod_eq_of_lt hlt, h3]
  · have hf0 : f = 0 := by omega
    have hx00 := hx0 hf0
    subst hx00
    rw [Nat.add_zero] at hlt hle ⊢
    have h3 : ¬ pow63 < d + v * unit := by omega
    simp only [addTerm, h1, if_false, gt_iff_lt, hf, Nat.mod_eq_of_lt hlt, h3]

theorem unitChars_head {c : Char} {t : Str} (h : UnitChars (c :: t)) :
    c ≠ '.' ∧ isDigit c = false := by
  have := h c (by simp)
  simp only [Bool.or_eq_false_iff, decide_eq_false_iff_not] at this
  exact this

theorem noDigitHead_units {us : Str} (rest : Str) (hus : UnitChars us) (hne : us ≠ []) :
    NoDigitHead (us ++ rest) := by
  cases us with
  | nil => exact absurd rfl hne
  | cons c t =>
    intro a as h
    simp only [List.cons_append, List.cons.injEq] at h
    rw [← h.1]
    exact (unitChars_head hus).2

/-- a printed term without a fraction: `<n><unit>`. -/
theorem term_plain (fuel n d unit : Nat) (str us rest : Str)
    (hs : str = toDec n ++ (us ++ rest)) (hus : UnitChars us) (hne : us ≠ [])
    (hu : unitOf us = some unit) (hupos : 0 < unit) (hrest : Stops rest)
    (hle : d + n * unit ≤ pow63) :
    parseLoop (fuel + 1) str d = parseLoop fuel rest (d + n * unit) := by
  have hn : n ≤ pow63 := by
    have : n * 1 ≤ n * unit := Nat.mul_le_mul_left _ hupos
    omega
  have hfr : parseFrac (us ++ rest) = (0, F64.one, us ++ rest, false) := by
    cases us with
    | nil => exact absurd rfl hne
    | cons c t => exact parseFrac_noPoint c _ (unitChars_head hus).1
  have hadd := addTerm_of d n 0 unit 0 F64.one hupos (fun h => by omega) (fun _ => rfl)
    (by omega)
  rw [Nat.add_zero] at hadd
  exact parseLoop_term fuel n d unit 0 str (us ++ rest) us rest F64.one false hs hn
    (noDigitHead_units rest hus hne) hfr hus hne hu hrest _ hadd

/-- a printed term with the fraction that `fmtFrac` prints for `r`:
    `<n>[.<r without trailing zeros>]<unit>` with `unit = 10^prec`. -/
theorem term_frac (fuel n d unit r prec : Nat) (str fr us rest : Str)
    (hs : str = toDec n ++ (fr ++ (us ++ rest))) (hfr : FracOf fr r prec) (hprec : prec ≤ 15)
    (hunit : unit = 10 ^ prec) (hus : UnitChars us) (hne : us ≠ [])
    (hu : unitOf us = some unit) (hrest : Stops rest)
    (hle : d + n * unit + r ≤ pow63) :
    parseLoop (fuel + 1) str d = parseLoop fuel rest (d + n * unit + r) := by
  have hupos : 0 < unit := by rw [hunit]; exact Nat.pow_pos (by omega)
  rcases hfr with ⟨h0, hnil⟩ | ⟨fs, hfs, had, hfne, hlen, hval⟩
  · subst h0; subst hnil
    rw [Nat.add_zero] at hle ⊢
    exact term_plain fuel n d unit str us rest hs hus hne hu hupos hrest hle
  · subst hfs
    have hn : n ≤ pow63 := by
      have : n * 1 ≤ n * unit := Nat.mul_le_mul_left _ hupos
      omega
    obtain ⟨sc, hpf, hsc⟩ := parseFrac_point fs (us ++ rest) had hfne (by omega)
      (noDigitHead_units rest hus hne)
    have hsplit : unit = 10 ^ fs.length * 10 ^ (prec - fs.length) := by
      rw [hunit, ← Nat.pow_add]; congr 1; omega
    have hkpos : 0 < 10 ^ fs.length := Nat.pow_pos (by omega)
    have hdvd : unit % 10 ^ fs.length = 0 := by rw [hsplit]; exact Nat.mul_mod_right _ _
    have hquo : unit / 10 ^ fs.length = 10 ^ (prec - fs.length) := by
      rw [hsplit]; exact Nat.mul_div_cancel_left _ hkpos
    have hu53 : unit < 2 ^ 53 := by
      have := pow10_le15 hprec
      have e2 := two53
      omega
    have hx : 0 < decVal fs → fracNanos (decVal fs) unit sc = r := by
      intro hf0
      rw [fracNanos_exact _ unit fs.length sc hsc hf0 hupos hu53 hdvd (decVal_lt fs had), hquo,
        hval]
    have hadd := addTerm_of d n (decVal fs) unit r sc hupos
      hx (fun h0 => by rw [← hval, h0, Nat.zero_mul]) hle
    have hnd : NoDigitHead ('.' :: (fs ++ (us ++ rest))) := by
      intro a as h
      simp only [List.cons.injEq] at h
      rw [← h.1]; decide
    exact parseLoop_term fuel n d unit (decVal fs) str ('.' :: (fs ++ (us ++ rest))) us rest _ true
      (by rw [hs]; simp) hn hnd hpf hus hne hu hrest _ hadd

theorem parseLoop_nil (fuel d : Nat) : parseLoop fuel [] d = some d := by
  cases fuel <;> rfl

/-! ## time.Duration: `ParseDuration (d.String()) = d` -/

theorem toDec_len_pos (n : Nat) : 0 < (toDec n).length := by
  obtain ⟨c, cs, h, _⟩ := toDec_cons n
  rw [h]; simp

/-- durations below one second: `<int>[.<frac>]<unit>` with `unit = 10^prec`. -/
theorem parse_subsecond (u prec unit : Nat) (us : Str) (hprec : prec ≤ 15)
    (hunit : unit = 10 ^ prec) (hus : UnitChars us) (hne : us ≠ [])
    (hu : unitOf us = some unit) (hle : u ≤ pow63) :
    parseLoop (fmtInt (fmtFrac us u prec).1 (fmtFrac us u prec).2).length
      (fmtInt (fmtFrac us u prec).1 (fmtFrac us u prec).2) 0 = some u := by
  obtain ⟨fr, hfr, hF⟩ := fmtFrac_spec us u prec
  rw [hfr, fmtInt_eq]
  have hsum : 0 + u / 10 ^ prec * unit + u % 10 ^ prec = u := by
    rw [hunit, Nat.zero_add, Nat.mul_comm]; exact Nat.div_add_mod u (10 ^ prec)
  have hpos := toDec_len_pos (u / 10 ^ prec)
  obtain ⟨m, hm⟩ : ∃ m, (toDec (u / 10 ^ prec) ++ (fr ++ us)).length = m + 1 :=
    ⟨(toDec (u / 10 ^ prec) ++ (fr ++ us)).length - 1, by
      simp only [List.length_append] at hpos ⊢; omega⟩
  rw [hm, term_frac m (u / 10 ^ prec) 0 unit (u % 10 ^ prec) prec _ fr us [] (by simp) hF hprec
    hunit hus hne hu stops_nil (by omega), parseLoop_nil, hsum]

theorem unitChars_ns : UnitChars ['n', 's'] := by unfold UnitChars; decide
theorem unitChars_us : UnitChars (microSign ++ ['s']) := by unfold UnitChars; decide
theorem unitChars_ms : UnitChars ['m', 's'] := by unfold UnitChars; decide
theorem unitChars_s : UnitChars ['s'] := by unfold UnitChars; decide
theorem unitChars_m : UnitChars ['m'] := by unfold UnitChars; decide
theorem unitChars_h : UnitChars ['h'] := by unfold UnitChars; decide

/-- durations of one second or more: `[<h>h<m>m | <m>m]<s>[.<frac>]s`. -/
theorem parse_seconds (u : Nat) (h1 : second ≤ u) (hle : u ≤ pow63) :
    parseLoop (formatAbs u).length (formatAbs u) 0 = some u := by
  have e9 : (10 : Nat) ^ 9 = 1000000000 := by decide
  obtain ⟨fr, hfr, hF⟩ := fmtFrac_spec ['s'] u 9
  have hsec : ¬ u < second := by omega
  have hu : u = u / 10 ^ 9 * 1000000000 + u % 10 ^ 9 := by rw [e9]; omega
  have hrlt : u % 10 ^ 9 < 1000000000 := by rw [e9]; omega
  generalize u / 10 ^ 9 = secs at hfr hu
  generalize u % 10 ^ 9 = r at hF hu hrlt
  have p63 : pow63 = 9223372036854775808 := rfl
  have hS : ∀ fuel d, d + secs % 60 * 1000000000 + r ≤ pow63 →
      parseLoop (fuel + 1) (toDec (secs % 60) ++ (fr ++ ['s'])) d =
        some (d + secs % 60 * 1000000000 + r) := by
    intro fuel d hd
    rw [term_frac fuel (secs % 60) d 1000000000 r 9 _ fr ['s'] [] (by simp) hF (by omega)
      (by decide) unitChars_s (by simp) (by decide) stops_nil hd, parseLoop_nil]
  have hlS := toDec_len_pos (secs % 60)
  have hlM := toDec_len_pos (secs / 60 % 60)
  have hlH := toDec_len_pos (secs / 60 / 60)
  unfold formatAbs
  rw [if_neg hsec]
  simp only [hfr, fmtInt_eq]
  by_cases hm : secs / 60 > 0
  · rw [if_pos hm]
    by_cases hh : secs / 60 / 60 > 0
    · rw [if_pos hh]
      generalize hstr : toDec (secs / 60 / 60) ++ 'h' ::
        (toDec (secs / 60 % 60) ++ 'm' :: (toDec (secs % 60) ++ (fr ++ ['s']))) = str
      obtain ⟨m, hlen⟩ : ∃ m, str.length = m + 3 := ⟨str.length - 3, by
        rw [← hstr]; simp only [List.length_append, List.length_cons]; omega⟩
      rw [hlen,
        term_plain (m + 2) (secs / 60 / 60) 0 3600000000000 str ['h']
          (toDec (secs / 60 % 60) ++ 'm' :: (toDec (secs % 60) ++ (fr ++ ['s'])))
          (by rw [← hstr]; simp) unitChars_h (by simp) (by decide) (by omega) (stops_toDec _ _)
          (by omega),
        term_plain (m + 1) (secs / 60 % 60) _ 60000000000 _ ['m']
          (toDec (secs % 60) ++ (fr ++ ['s']))
          (by simp) unitChars_m (by simp) (by decide) (by omega) (stops_toDec _ _) (by omega),
        hS m _ (by omega)]
      congr 1; omega
    · rw [if_neg hh]
      generalize hstr : toDec (secs / 60 % 60) ++ 'm' :: (toDec (secs % 60) ++ (fr ++ ['s'])) = str
      obtain ⟨m, hlen⟩ : ∃ m, str.length = m + 2 := ⟨str.length - 2, by
        rw [← hstr]; simp only [List.length_append, List.length_cons]; omega⟩
      rw [hlen,
        term_plain (m + 1) (secs / 60 % 60) 0 60000000000 str ['m']
          (toDec (secs % 60) ++ (fr ++ ['s']))
          (by rw [← hstr]; simp) unitChars_m (by simp) (by decide) (by omega) (stops_toDec _ _)
          (by omega),
        hS m _ (by omega)]
      congr 1; omega
  · rw [if_neg hm]
    generalize hstr : toDec (secs % 60) ++ (fr ++ ['s']) = str
    obtain ⟨m, hlen⟩ : ∃ m, str.length = m + 1 := ⟨str.length - 1, by
      rw [← hstr]; simp only [List.length_append]; omega⟩
    rw [hlen, ← hstr, hS m 0 (by omega)]
    congr 1; omega

/-- the loop reads back the magnitude that `format` printed. -/
theorem parseLoop_formatAbs (u : Nat) (h0 : 0 < u) (hle : u ≤ pow63) :
    parseLoop (formatAbs u).length (formatAbs u) 0 = some u := by
  by_cases hs : u < second
  · have hne : u ≠ 0 := by omega
    have hform : formatAbs u =
        if u < 1000 then fmtInt (fmtFrac ['n', 's'] u 0).1 (fmtFrac ['n', 's'] u 0).2
        else if u < 1000000 then
          fmtInt (fmtFrac (microSign ++ ['s']) u 3).1 (fmtFrac (microSign ++ ['s']) u 3).2
        else fmtInt (fmtFrac ['m', 's'] u 6).1 (fmtFrac ['m', 's'] u 6).2 := by
      unfold formatAbs
      rw [if_pos hs, if_neg hne]
    rw [hform]
    split
    · exact parse_subsecond u 0 1 ['n', 's'] (by omega) (by decide) unitChars_ns (by simp)
        (by decide) hle
    · split
      · exact parse_subsecond u 3 1000 (microSign ++ ['s']) (by omega) (by decide) unitChars_us
          (by decide) (by decide) hle
      · exact parse_subsecond u 6 1000000 ['m', 's'] (by omega) (by decide) unitChars_ms
          (by simp) (by decide) hle
  · exact parse_seconds u (by omega) hle

theorem parseLoop_head (fuel : Nat) (c : Char) (t : Str) (d v : Nat)
    (h : parseLoop (fuel + 1) (c :: t) d = some v) : (c = '.' || isDigit c) = true := by
  by_cases hc : (c = '.' || isDigit c) = true
  · exact hc
  · simp only [parseLoop, hc, Bool.not_false, if_true] at h
    cases h

/-- the printed magnitude starts with a digit or a point: it carries no sign of
    its own, and it is neither "" nor "0". -/
theorem formatAbs_shape (u : Nat) (h0 : 0 < u) (hle : u ≤ pow63) :
    formatAbs u ≠ ['0'] ∧ ∃ c t, formatAbs u = c :: t ∧ c ≠ '-' ∧ c ≠ '+' := by
  have hP := parseLoop_formatAbs u h0 hle
  refine ⟨?_, ?_⟩
  · intro h
    rw [h] at hP
    have : parseLoop ['0'].length ['0'] 0 = none := by decide
    rw [this] at hP
    cases hP
  · cases hf : formatAbs u with
    | nil =>
      rw [hf] at hP
      simp only [List.length_nil, parseLoop, Option.some.injEq] at hP
      omega
    | cons c t =>
      rw [hf] at hP
      have hc := parseLoop_head _ c t 0 u hP
      refine ⟨c, t, rfl, ?_, ?_⟩
      · intro h; subst h; revert hc; decide
      · intro h; subst h; revert hc; decide

theorem parseUnsigned_formatAbs (neg : Bool) (u : Nat) (h0 : 0 < u) (hle : u ≤ pow63) :
    parseUnsigned neg (formatAbs u) =
      if neg then some (-(u : Int)) else if u > pow63 - 1 then none else some (u : Int) := by
  have hP := parseLoop_formatAbs u h0 hle
  obtain ⟨hz, c, t, hf, _, _⟩ := formatAbs_shape u h0 hle
  have hnil : formatAbs u ≠ [] := by rw [hf]; simp
  simp only [parseUnsigned, hz, hnil, if_false, hP]

/-- `time.ParseDuration(d.String()) == d` for every int64 `d`. -/
theorem duration_round_trip (d : Int) (h1 : -(2 ^ 63 : Int) ≤ d) (h2 : d < 2 ^ 63) :
    parseDuration (durString d) = some d := by
  have e : (2 ^ 63 : Int) = 9223372036854775808 := by decide
  rw [e] at h1 h2
  have p63 : pow63 = 9223372036854775808 := rfl
  by_cases hz : d = 0
  · subst hz; decide
  · have h0 : 0 < d.natAbs := by omega
    have hle : d.natAbs ≤ pow63 := by omega
    obtain ⟨_, c, t, hf, hc1, hc2⟩ := formatAbs_shape d.natAbs h0 hle
    unfold durString
    by_cases hn : d < 0
    · rw [if_pos hn]
      have : parseDuration ('-' :: formatAbs d.natAbs) = parseUnsigned true (formatAbs d.natAbs) := by
        simp [parseDuration]
      rw [this, parseUnsigned_formatAbs true _ h0 hle, if_pos rfl]
      congr 1; omega
    · rw [if_neg hn]
      have : parseDuration (formatAbs d.natAbs) = parseUnsigned false (formatAbs d.natAbs) := by
        rw [hf]
        simp [parseDuration, hc1, hc2]
      rw [this, parseUnsigned_formatAbs false _ h0 hle]
      have hgt : ¬ d.natAbs > pow63 - 1 := by omega
      simp only [Bool.false_eq_true, if_false, hgt]
      congr 1; omega

/-! ## concrete values: every branch of the four functions

  (the expected strings and numbers are those of the Go functions; "µ" is written
  as its two bytes `microSign`.) -/

section Examples

-- Duration.String
example : durString 0 = s "0s" := by decide
example : durString 1 = s "1ns" := by decide
example : durString 999 = s "999ns" := by decide
example : durString 1500 = s "1.5" ++ microSign ++ s "s" := by decide
example : durString 1000 = s "1" ++ microSign ++ s "s" := by decide
example : durString 999000000 = s "999ms" := by decide
example : durString 1050000 = s "1.05ms" := by decide
example : durString 1000000000 = s "1s" := by decide
example : durString 1500000000 = s "1.5s" := by decide
example : durString 60000000000 = s "1m0s" := by decide
example : durString 5400000000000 = s "1h30m0s" := by decide
example : durString 3600000000001 = s "1h0m0.000000001s" := by decide
example : durString (-1) = s "-1ns" := by decide
example : durString (-1500) = s "-1.5" ++ microSign ++ s "s" := by decide
example : durString (-5400000000000) = s "-1h30m0s" := by decide
example : durString (-9223372036854775808) = s "-2562047h47m16.854775808s" := by decide
example : durString 9223372036854775807 = s "2562047h47m16.854775807s" := by decide

-- ParseDuration on those strings
example : parseDuration (s "0s") = some 0 := by decide
example : parseDuration (s "1ns") = some 1 := by decide
example : parseDuration (s "1.5" ++ microSign ++ s "s") = some 1500 := by decide
example : parseDuration (s "999ms") = some 999000000 := by decide
example : parseDuration (s "1s") = some 1000000000 := by decide
example : parseDuration (s "1h30m0s") = some 5400000000000 := by decide
example : parseDuration (s "1h0m0.000000001s") = some 3600000000001 := by decide
example : parseDuration (s "-1.5" ++ microSign ++ s "s") = some (-1500) := by decide
example : parseDuration (s "-2562047h47m16.854775808s") = some (-9223372036854775808) := by decide
example : parseDuration (s "2562047h47m16.854775807s") = some 9223372036854775807 := by decide
example : parseDuration (s "2562047h47m16.854775808s") = none := by decide

-- ParseDuration on other inputs
example : parseDuration (s "") = none := by decide
example : parseDuration (s "0") = some 0 := by decide
example : parseDuration (s "-0") = some 0 := by decide
example : parseDuration (s "+") = none := by decide
example : parseDuration (s "1") = none := by decide
example : parseDuration (s " 1s") = none := by decide
example : parseDuration (s "1e3s") = none := by decide
example : parseDuration (s ".s") = none := by decide
example : parseDuration (s ".5s") = some 500000000 := by decide
example : parseDuration (s "5.s") = some 5000000000 := by decide
example : parseDuration (s "1.5h") = some 5400000000000 := by decide
example : parseDuration (s "1h1h") = some 7200000000000 := by decide
example : parseDuration (s "1us") = some 1000 := by decide
example : parseDuration (s "1" ++ microSign ++ s "s") = some 1000 := by decide
example : parseDuration (s "1" ++ muSign ++ s "s") = some 1000 := by decide
example : parseDuration (microSign ++ s "s") = none := by decide
example : parseDuration (s "9223372036854775807ns") = some 9223372036854775807 := by decide
example : parseDuration (s "9223372036854775808ns") = none := by decide
example : parseDuration (s "-9223372036854775808ns") = some (-9223372036854775808) := by decide
example : parseDuration (s "9223372036854775809ns") = none := by decide
example : parseDuration (s "2562048h") = none := by decide
-- `d += v` wraps around to 0 (a quirk of the Go function)
example : parseDuration (s "9223372036854775808ns9223372036854775808ns") = some 0 := by decide
-- inexact float64 arithmetic
example : parseDuration (s "1.5ns") = some 1 := by decide
example : parseDuration (s "0.9999999999s") = some 999999999 := by decide
example : parseDuration (s "0.3333333333333333333333h") = some 1200000000000 := by decide +kernel
example : parseDuration (s "2562047.788015215h") = some 9223372036854774000 := by decide

-- Level.String
example : levelString (-8) = s "DEBUG-4" := by decide
example : levelString (-4) = s "DEBUG" := by decide
example : levelString (-3) = s "DEBUG+1" := by decide
example : levelString 0 = s "INFO" := by decide
example : levelString 2 = s "INFO+2" := by decide
example : levelString 4 = s "WARN" := by decide
example : levelString 8 = s "ERROR" := by decide
example : levelString 9 = s "ERROR+1" := by decide

-- Level.parse
example : parseLevel (s "DEBUG-4") = some (-8) := by decide
example : parseLevel (s "DEBUG") = some (-4) := by decide
example : parseLevel (s "DEBUG+1") = some (-3) := by decide
example : parseLevel (s "INFO") = some 0 := by decide
example : parseLevel (s "INFO+2") = some 2 := by decide
example : parseLevel (s "WARN") = some 4 := by decide
example : parseLevel (s "ERROR") = some 8 := by decide
example : parseLevel (s "ERROR+1") = some 9 := by decide
example : parseLevel (s "info") = some 0 := by decide
example : parseLevel (s "Error-8") = some 0 := by decide
example : parseLevel (s "INFO+-3") = none := by decide
example : parseLevel (s "INFO+") = none := by decide
example : parseLevel (s "INFO+3+4") = none := by decide
example : parseLevel (s "INFO+1_000") = none := by decide
example : parseLevel (s "") = none := by decide
example : parseLevel (s "+3") = none := by decide
example : parseLevel (s "WARNING") = none := by decide
-- "ınfo" (dotless i, bytes C4 B1): strings.ToUpper maps it to "INFO"
example : parseLevel (Char.ofNat 0xC4 :: Char.ofNat 0xB1 :: s "nfo") = some 0 := by decide
-- int overflow of `*l += Level(offset)` wraps
example : parseLevel (s "ERROR+9223372036854775807") = some (-9223372036854775801) := by decide
example : parseLevel (s "ERROR+9223372036854775808") = none := by decide

end Examples

end Rv.Lemmas.Duration
