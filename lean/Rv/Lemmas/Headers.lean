import Rv.Model.Headers
/-
  Rv.Lemmas.Headers — helper lemmas and proofs for Props/C08.  Core Lean only.
-/
namespace Rv.Lemmas.Headers
open Rv Rv.Headers

/-! ### `values` -/

@[simp] theorem values_nil (n : Str) : values [] n = [] := rfl

theorem values_cons (kv : Str × Str) (h : Hdr) (n : Str) :
    values (kv :: h) n = if kv.1 = n then kv.2 :: values h n else values h n := by
  unfold values
  by_cases e : kv.1 = n
  · rw [if_pos e, List.filter_cons_of_pos (by simpa using e), List.map_cons]
  · rw [if_neg e, List.filter_cons_of_neg (by simpa using e)]

theorem values_append (a b : Hdr) (n : Str) : values (a ++ b) n = values a n ++ values b n := by
  simp only [values, List.filter_append, List.map_append]

/-- filtering with a predicate that holds for every pair named `n` keeps the values of `n`. -/
theorem values_filter (p : Str × Str → Bool) (n : Str) :
    ∀ (h : Hdr), (∀ kv ∈ h, kv.1 = n → p kv = true) → values (h.filter p) n = values h n
  | [], _ => rfl
  | kv :: rest, hp => by
      have ih := values_filter p n rest (fun x hx => hp x (List.mem_cons_of_mem _ hx))
      by_cases e : kv.1 = n
      · have hk : p kv = true := hp kv List.mem_cons_self e
        rw [List.filter_cons_of_pos hk, values_cons, values_cons, if_pos e, if_pos e, ih]
      · cases hk : p kv
        · rw [List.filter_cons_of_neg (by simp [hk]), values_cons, if_neg e, ih]
        · rw [List.filter_cons_of_pos hk, values_cons, values_cons, if_neg e, if_neg e, ih]

/-- filtering with a predicate that fails for every pair named `n` removes the values of `n`. -/
theorem values_filter_none (p : Str × Str → Bool) (n : Str) :
    ∀ (h : Hdr), (∀ kv ∈ h, kv.1 = n → p kv = false) → values (h.filter p) n = []
  | [], _ => rfl
  | kv :: rest, hp => by
      have ih := values_filter_none p n rest (fun x hx => hp x (List.mem_cons_of_mem _ hx))
      cases hk : p kv
      · rw [List.filter_cons_of_neg (by simp [hk]), ih]
      · have e : ¬ kv.1 = n := fun e => by rw [hp kv List.mem_cons_self e] at hk; cases hk
        rw [List.filter_cons_of_pos hk, values_cons, if_neg e, ih]

theorem values_del (h : Hdr) (k n : Str) :
    values (del h k) n = if n = k then [] else values h n := by
  unfold del
  by_cases e : n = k
  · rw [if_pos e]
    exact values_filter_none _ n h (fun kv _ hkv => by simp [hkv, e])
  · rw [if_neg e]
    exact values_filter _ n h (fun kv _ hkv => by simpa [hkv] using e)

theorem values_add (h : Hdr) (k v n : Str) :
    values (add h k v) n = if k = n then values h n ++ [v] else values h n := by
  unfold add
  rw [values_append, values_cons]
  by_cases e : k = n
  · simp only [e, if_true, values_nil]
  · simp only [e, if_false, values_nil, List.append_nil]

theorem values_set (h : Hdr) (k v n : Str) :
    values (set h k v) n = if k = n then [v] else values h n := by
  unfold Rv.Headers.set
  rw [values_append, values_cons, values_del]
  by_cases e : k = n
  · have e' : n = k := e.symm
    simp only [e, if_true, values_nil, List.nil_append]
  · have e' : ¬ n = k := fun x => e x.symm
    simp only [e, e', if_false, values_nil, List.append_nil]

theorem values_add_ne (h : Hdr) (k v n : Str) (e : k ≠ n) : values (add h k v) n = values h n := by
  rw [values_add, if_neg e]

theorem values_set_ne (h : Hdr) (k v n : Str) (e : k ≠ n) : values (set h k v) n = values h n := by
  rw [values_set, if_neg e]

theorem values_eq_nil_iff (h : Hdr) (n : Str) : values h n = [] ↔ ∀ v, (n, v) ∉ h := by
  induction h with
  | nil => simp
  | cons kv rest ih =>
      rw [values_cons]
      by_cases e : kv.1 = n
      · rw [if_pos e]
        constructor
        · intro hc; cases hc
        · intro hall
          exact absurd (List.mem_cons.2 (Or.inl (by rw [← e]))) (hall kv.2)
      · rw [if_neg e, ih]
        constructor
        · intro hall v hv
          rcases List.mem_cons.1 hv with hv | hv
          · exact e (by rw [← hv])
          · exact hall v hv
        · intro hall v hv
          exact hall v (List.mem_cons_of_mem _ hv)

/-! ### `removeHopByHop` -/

theorem hop_removed (hop : List Str) (h : Hdr) (kv : Str × Str)
    (hin : kv ∈ removeHopByHop hop h) : kv.1 ∉ hop ∧ kv.1 ∉ connTokens h := by
  unfold removeHopByHop at hin
  have hp := (List.mem_filter.1 hin).2
  simp only [Bool.and_eq_true, Bool.not_eq_true', List.contains_eq_mem, decide_eq_false_iff_not]
    at hp
  exact ⟨hp.2, hp.1⟩

theorem end_to_end_preserved (hop : List Str) (h : Hdr) (name : Str) (h1 : name ∉ hop)
    (h2 : name ∉ connTokens h) : values (removeHopByHop hop h) name = values h name := by
  unfold removeHopByHop
  apply values_filter
  intro kv _ e
  simp only [Bool.and_eq_true, Bool.not_eq_true', List.contains_eq_mem, decide_eq_false_iff_not]
  rw [e]
  exact ⟨h2, h1⟩

/-! ### `names` -/

theorem mem_names (n : Str) : ∀ (h : Hdr), n ∈ names h ↔ ∃ v, (n, v) ∈ h
  | [] => by simp [names]
  | kv :: rest => by
      simp only [names, List.mem_cons, List.mem_filter, mem_names n rest]
      constructor
      · rintro (e | ⟨⟨v, hv⟩, _⟩)
        · exact ⟨kv.2, Or.inl (by rw [e])⟩
        · exact ⟨v, Or.inr hv⟩
      · rintro ⟨v, hv | hv⟩
        · exact Or.inl (by rw [← hv])
        · by_cases e : n = kv.1
          · exact Or.inl e
          · exact Or.inr ⟨⟨v, hv⟩, by simpa using e⟩

theorem mem_names_iff_values (h : Hdr) (n : Str) : n ∈ names h ↔ values h n ≠ [] := by
  rw [mem_names, Ne, values_eq_nil_iff]
  constructor
  · rintro ⟨v, hv⟩ hall
    exact hall v hv
  · intro hne
    exact Classical.byContradiction fun hno => hne fun v hv => hno ⟨v, hv⟩

theorem names_nodup : ∀ (h : Hdr), (names h).Nodup
  | [] => List.nodup_nil
  | kv :: rest => by
      simp only [names]
      rw [List.nodup_cons]
      refine ⟨?_, (names_nodup rest).filter _⟩
      intro hm
      have := (List.mem_filter.1 hm).2
      simp at this

/-! ### `setHeaders` -/

/-- adding the values `vs` one by one under the name `k` appends them. -/
theorem foldl_add (k : Str) : ∀ (vs : List Str) (d : Hdr),
    vs.foldl (fun d' v => add d' k v) d = d ++ vs.map (fun v => (k, v))
  | [], d => by simp
  | v :: vs, d => by
      rw [List.foldl_cons, foldl_add k vs, add, List.map_cons, List.append_assoc]
      rfl

theorem values_map_pair (k n : Str) : ∀ (vs : List Str),
    values (vs.map (fun v => (k, v))) n = if k = n then vs else []
  | [] => by simp
  | v :: vs => by
      rw [List.map_cons, values_cons, values_map_pair k n vs]
      by_cases e : k = n
      · simp only [e, if_true]
      · simp only [e, if_false]

/-- one round of `SetHeaders`: name `k` gets exactly the source's values, every other
    name is untouched. -/
theorem values_step (src d : Hdr) (k n : Str) :
    values ((values src k).foldl (fun d' v => add d' k v) (del d k)) n
      = if n = k then values src k else values d n := by
  rw [foldl_add, values_append, values_del, values_map_pair]
  by_cases e : n = k
  · have e' : k = n := e.symm
    simp only [e, if_true, List.nil_append]
  · have e' : ¬ k = n := fun x => e x.symm
    simp only [e, e', if_false, List.append_nil]

theorem values_foldl_step (src : Hdr) (n : Str) : ∀ (ks : List Str) (d : Hdr),
    values (ks.foldl (fun d k => (values src k).foldl (fun d' v => add d' k v) (del d k)) d) n
      = if n ∈ ks then values src n else values d n
  | [], d => by simp
  | k :: ks, d => by
      rw [List.foldl_cons, values_foldl_step src n ks, values_step]
      by_cases hm : n ∈ ks
      · rw [if_pos hm, if_pos (List.mem_cons_of_mem _ hm)]
      · rw [if_neg hm]
        by_cases e : n = k
        · rw [if_pos e, if_pos (by rw [e]; exact List.mem_cons_self), e]
        · rw [if_neg e, if_neg (fun h => (List.mem_cons.1 h).elim e hm)]

theorem setHeaders_values (dst src : Hdr) (name : Str) :
    values (setHeaders dst src) name
      = if (values src name) ≠ [] then values src name else values dst name := by
  unfold setHeaders
  rw [values_foldl_step]
  by_cases hm : name ∈ names src
  · rw [if_pos hm, if_pos ((mem_names_iff_values src name).1 hm)]
  · rw [if_neg hm, if_neg (fun h => hm ((mem_names_iff_values src name).2 h))]

/-! ### the assembled response -/

/-- Set/Add of other names never touches `name`. -/
theorem values_foldl_own (name : Str) : ∀ (own : List (Bool × Str × Str)) (d : Hdr),
    (∀ x ∈ own, x.2.1 ≠ name) →
    values (own.foldl (fun d x => if x.1 then set d x.2.1 x.2.2 else add d x.2.1 x.2.2) d) name
      = values d name
  | [], _, _ => rfl
  | x :: own, d, hne => by
      rw [List.foldl_cons,
        values_foldl_own name own _ (fun y hy => hne y (List.mem_cons_of_mem _ hy))]
      have e : x.2.1 ≠ name := hne x List.mem_cons_self
      cases x.1
      · exact values_add_ne d _ _ name e
      · exact values_set_ne d _ _ name e

theorem response_faithful (hop : List Str) (o : Hdr) (own : List (Bool × Str × Str)) (name : Str)
    (hown : ∀ x ∈ own, x.2.1 ∈ proxyOwned) (h0 : name ∉ proxyOwned) (h1 : name ∉ hop)
    (h2 : name ∉ connTokens o) :
    values (own.foldl (fun d x => if x.1 then set d x.2.1 x.2.2 else add d x.2.1 x.2.2)
      (setHeaders [] (removeHopByHop hop o))) name = values o name := by
  rw [values_foldl_own name own _ (fun x hx e => h0 (e ▸ hown x hx)), setHeaders_values,
    end_to_end_preserved hop o name h1 h2]
  by_cases hv : values o name = []
  · rw [if_neg (fun h => h hv), hv]; rfl
  · rw [if_pos hv]

end Rv.Lemmas.Headers
