import Rv.Model.Mailbox
namespace Rv.Lemmas.Mailbox
open Rv.Mailbox

/-- what is still in flight, oldest first. -/
def queue (st : St) : List Nat := st.box.toList ++ st.parked

/-- a parked sender exists only while the buffer is full. -/
def Ok (st : St) : Prop := st.box = none → st.parked = []

theorem ok_step (st : St) (s : Step) (h : Ok st) : Ok (step true st s) := by
  cases s with
  | deliver v =>
    unfold step
    cases hb : st.box with
    | none => intro h'; simp at h'
    | some b => simp; intro h'; simp at h'
  | drain =>
    unfold step
    cases hb : st.box with
    | none => simpa [Ok, hb] using h
    | some b =>
      cases hp : st.parked with
      | nil => simp [Ok]
      | cons p ps => simp [Ok]

/-- history invariant: everything delivered so far is what was consumed followed
    by what is in flight, and the task follows the last consumed value. -/
theorem run_inv (steps : List Step) (st : St) (consumed : List Nat) (h : Ok st)
    (hi : st.interval = (consumed.getLast?).getD st.interval) :
    ∃ consumed', Ok (run true steps st) ∧
      consumed ++ queue st ++ delivered steps = consumed' ++ queue (run true steps st) ∧
      (consumed' = [] → consumed = [] ∧ (run true steps st).interval = st.interval) ∧
      (consumed' ≠ [] → (run true steps st).interval = (consumed'.getLast?).getD 0) := by
  induction steps generalizing st consumed with
  | nil =>
    refine ⟨consumed, h, by simp [run, delivered], ?_, ?_⟩
    · intro hc; simp [hc, run]
    · intro hc
      simp [run]
      cases hl : consumed.getLast? with
      | none => simp [List.getLast?_eq_none_iff] at hl; exact absurd hl hc
      | some x => rw [hi, hl]; rfl
  | cons s rest ih =>
    cases s with
    | deliver v =>
      have hok := ok_step st (.deliver v) h
      have hq : queue (step true st (.deliver v)) = queue st ++ [v] := by
        unfold step queue
        cases hb : st.box with
        | none => have := h hb; simp [this]
        | some b => simp
      have hint : (step true st (.deliver v)).interval = st.interval := by
        unfold step; cases st.box <;> simp
      obtain ⟨c', h1, h2, h3, h4⟩ := ih (step true st (.deliver v)) consumed hok (by rw [hint]; exact hi)
      refine ⟨c', h1, ?_, ?_, h4⟩
      · simp only [run, List.foldl_cons, delivered] at *
        rw [← h2, hq]; simp
      · intro hc; have := h3 hc; simp only [run, List.foldl_cons] at *; rw [this.2, hint]; exact ⟨this.1, rfl⟩
    | drain =>
      have hok := ok_step st .drain h
      cases hb : st.box with
      | none =>
        have hs : step true st .drain = st := by unfold step; simp [hb]
        obtain ⟨c', h1, h2, h3, h4⟩ := ih st consumed h hi
        refine ⟨c', ?_, ?_, ?_, ?_⟩ <;> simp only [run, List.foldl_cons, delivered, hs] at * <;> assumption
      | some b =>
        have hq : queue st = b :: queue (step true st .drain) := by
          unfold step queue; simp [hb]
          cases hp : st.parked <;> simp
        have hint : (step true st .drain).interval = b := by
          unfold step; simp [hb]; cases hp : st.parked <;> simp
        obtain ⟨c', h1, h2, h3, h4⟩ := ih (step true st .drain) (consumed ++ [b]) hok (by simp [hint])
        refine ⟨c', h1, ?_, ?_, h4⟩
        · simp only [run, List.foldl_cons, delivered] at *
          rw [← h2, hq]; simp
        · intro hc; have := (h3 hc).1; simp at this

/-- THE property: with blocking sends, once nothing is in flight the cleanup task
    follows the LAST interval delivered — for every number of changes and every
    interleaving of deliveries with the task's receives. -/
theorem follows_latest (i : Nat) (steps : List Step) (hq : quiescent (run true steps (init i)) = true)
    (hne : delivered steps ≠ []) :
    (run true steps (init i)).interval = ((delivered steps).getLast?).getD i := by
  obtain ⟨c', _, h2, h3, h4⟩ := run_inv steps (init i) [] (by simp [Ok, init]) (by simp)
  have hqe : queue (run true steps (init i)) = [] := by
    unfold quiescent at hq; unfold queue
    simp only [Bool.and_eq_true, Option.isNone_iff_eq_none, List.isEmpty_iff] at hq
    simp [hq.1, hq.2]
  rw [hqe] at h2
  have h2' : delivered steps = c' := by simpa [queue, init] using h2
  rw [h2']
  have hne' : c' ≠ [] := by rw [← h2']; exact hne
  rw [h4 hne']
  cases hl : c'.getLast? with
  | none => simp [List.getLast?_eq_none_iff] at hl; exact absurd hl hne'
  | some x => rfl

end Rv.Lemmas.Mailbox
