import Rv.Model.Config
/-
  Rv.Lemmas.Config — helper lemmas and proofs for Props/C18 and Props/C17b.
  Core Lean only.
-/
namespace Rv.Lemmas.Config
open Rv.Config

/-! ### `setBase`, `applyAll` as one `map` -/

/-- the base value a cell named `n` ends with after the sets, starting from `b`
    (the LAST set of that name wins). -/
def finalBase (sets : List (String × Val)) (n : String) (b : Val) : Val :=
  sets.foldl (fun b s => if n = s.1 then s.2 else b) b

/-- a cell after all the sets of a document were committed. -/
def retarget (sets : List (String × Val)) (c : Cell) : Cell :=
  { c with base := finalBase sets c.name c.base }

@[simp] theorem retarget_name (sets : List (String × Val)) (c : Cell) : (retarget sets c).name = c.name := rfl
@[simp] theorem retarget_override (sets : List (String × Val)) (c : Cell) :
    (retarget sets c).override = c.override := rfl
@[simp] theorem retarget_base (sets : List (String × Val)) (c : Cell) :
    (retarget sets c).base = finalBase sets c.name c.base := rfl

theorem finalBase_of_not_addressed {sets : List (String × Val)} {n : String} (b : Val)
    (h : ∀ s ∈ sets, s.1 ≠ n) : finalBase sets n b = b := by
  unfold finalBase
  induction sets generalizing b with
  | nil => rfl
  | cons s rest ih =>
    have hs : ¬ n = s.1 := fun e => h s (List.mem_cons_self ..) e.symm
    simp only [List.foldl_cons, if_neg hs]
    exact ih b (fun s' hs' => h s' (List.mem_cons_of_mem _ hs'))

theorem retarget_of_not_addressed {sets : List (String × Val)} (c : Cell)
    (h : ∀ s ∈ sets, s.1 ≠ c.name) : retarget sets c = c := by
  unfold retarget
  rw [finalBase_of_not_addressed c.base h]

theorem applyAll_eq_map (cfg : Cfg) (sets : List (String × Val)) :
    applyAll cfg sets = cfg.map (retarget sets) := by
  induction sets generalizing cfg with
  | nil =>
    have : retarget [] = id := by funext c; rfl
    simp [applyAll, this]
  | cons s rest ih =>
    have h : applyAll cfg (s :: rest) = applyAll (setBase cfg s.1 s.2) rest := rfl
    rw [h, ih, setBase, List.map_map]
    apply List.map_congr_left
    intro c _
    by_cases hc : c.name = s.1
    · simp [retarget, finalBase, hc]
    · simp [retarget, finalBase, hc]

theorem applyAll_names (cfg : Cfg) (sets : List (String × Val)) :
    (applyAll cfg sets).map (·.name) = cfg.map (·.name) := by
  rw [applyAll_eq_map, List.map_map]
  rfl

theorem applyAll_overrides (cfg : Cfg) (sets : List (String × Val)) :
    (applyAll cfg sets).map (·.override) = cfg.map (·.override) := by
  rw [applyAll_eq_map, List.map_map]
  rfl

theorem find_applyAll (cfg : Cfg) (sets : List (String × Val)) (n : String) :
    (applyAll cfg sets).find? (·.name = n) = (cfg.find? (·.name = n)).map (retarget sets) := by
  rw [applyAll_eq_map, List.find?_map]
  rfl

theorem known_iff {cfg : Cfg} {n : String} : known cfg n = true ↔ ∃ c ∈ cfg, c.name = n := by
  simp [known]

theorem find_of_known {cfg : Cfg} {n : String} (h : known cfg n = true) :
    ∃ c, cfg.find? (·.name = n) = some c ∧ c ∈ cfg ∧ c.name = n := by
  obtain ⟨c, hc, hn⟩ := known_iff.1 h
  cases hf : cfg.find? (·.name = n) with
  | none =>
    have := List.find?_eq_none.1 hf c hc
    simp [hn] at this
  | some d =>
    exact ⟨d, rfl, List.mem_of_find?_eq_some hf, by simpa using List.find?_some hf⟩

theorem find_of_nodup {cfg : Cfg} (hn : (cfg.map (·.name)).Nodup) {c : Cell} (hc : c ∈ cfg) :
    cfg.find? (·.name = c.name) = some c := by
  induction cfg with
  | nil => cases hc
  | cons d rest ih =>
    rw [List.map_cons, List.nodup_cons] at hn
    rcases List.mem_cons.1 hc with rfl | hc'
    · simp
    · have hne : d.name ≠ c.name := fun e => hn.1 (e ▸ List.mem_map_of_mem hc')
      rw [List.find?_cons_of_neg (by simpa using hne)]
      exact ih hn.2 hc'

/-! ### `update` by cases -/

theorem update_failed (st : State) (doc : List Entry) (persistOk : Bool)
    (h : hasIllTyped st.cfg doc = true ∨ verify (applyAll st.cfg (addressed st.cfg doc)) = false ∨
      persistOk = false) : update st doc persistOk = (st, .failed, []) := by
  unfold update
  rcases h with h | h | h
  · simp [h]
  · simp [h]
  · simp [h]

/-- the notifications of an accepted update. -/
def notesOf (cfg cfg' : Cfg) (sets : List (String × Val)) : List Note :=
  sets.filterMap (fun s =>
    match readOf cfg s.1, readOf cfg' s.1 with
    | some old, some new => if old ≠ new then some (s.1, new) else none
    | _, _ => none)

theorem update_accepted (st : State) (doc : List Entry) (persistOk : Bool)
    (h1 : hasIllTyped st.cfg doc = false) (h2 : verify (applyAll st.cfg (addressed st.cfg doc)) = true)
    (h3 : persistOk = true) :
    (update st doc persistOk).1.cfg = applyAll st.cfg (addressed st.cfg doc) ∧
    (update st doc persistOk).1.file = serialize (applyAll st.cfg (addressed st.cfg doc)) ∧
    (update st doc persistOk).2.1 ≠ .failed ∧
    (update st doc persistOk).2.2 =
      notesOf st.cfg (applyAll st.cfg (addressed st.cfg doc)) (addressed st.cfg doc) := by
  refine ⟨by simp [update, h1, h2, h3], by simp [update, h1, h2, h3], ?_,
    by simp only [update, h1, h2, h3, notesOf, Bool.false_eq_true, if_false, Bool.not_true]; rfl⟩
  simp only [update, h1, h2, h3, Bool.false_eq_true, if_false, Bool.not_true]
  split <;> simp

theorem update_cases (st : State) (doc : List Entry) (persistOk : Bool) :
    (hasIllTyped st.cfg doc = true ∨ verify (applyAll st.cfg (addressed st.cfg doc)) = false ∨
      persistOk = false) ∨
    (hasIllTyped st.cfg doc = false ∧ verify (applyAll st.cfg (addressed st.cfg doc)) = true ∧
      persistOk = true) := by
  cases hasIllTyped st.cfg doc <;> cases verify (applyAll st.cfg (addressed st.cfg doc)) <;>
    cases persistOk <;> simp

/-! ### C18 -/

theorem accepted_is_workable (cfg : Cfg) (ht : WellTyped cfg) (h : verify cfg = true) : workable cfg := by
  obtain ⟨t1, t2, t3, t4, t5, t6, t7, s1, s2, s3, s4, s5, s6, s7⟩ := ht
  obtain ⟨v1, h1⟩ := Option.isSome_iff_exists.1 s1
  obtain ⟨n1, rfl⟩ := t1 v1 h1
  obtain ⟨v2, h2⟩ := Option.isSome_iff_exists.1 s2
  obtain ⟨n2, rfl⟩ := t2 v2 h2
  obtain ⟨v3, h3⟩ := Option.isSome_iff_exists.1 s3
  obtain ⟨n3, rfl⟩ := t3 v3 h3
  obtain ⟨v4, h4⟩ := Option.isSome_iff_exists.1 s4
  obtain ⟨n4, rfl⟩ := t4 v4 h4
  obtain ⟨v5, h5⟩ := Option.isSome_iff_exists.1 s5
  obtain ⟨n5, rfl⟩ := t5 v5 h5
  obtain ⟨v6, h6⟩ := Option.isSome_iff_exists.1 s6
  obtain ⟨n6, rfl⟩ := t6 v6 h6
  obtain ⟨v7, h7⟩ := Option.isSome_iff_exists.1 s7
  obtain ⟨n7, rfl⟩ := t7 v7 h7
  simp only [verify, h1, h2, h3, h4, h5, h6, h7, Bool.and_eq_true, Bool.or_eq_true, decide_eq_true_eq,
    ne_eq] at h
  obtain ⟨⟨⟨⟨⟨⟨⟨⟨⟨⟨a1, _⟩, _⟩, _⟩, a5⟩, a6⟩, a7⟩, a8⟩, a9⟩, a10⟩, a11⟩ := h
  refine ⟨⟨n1, h1, a9⟩, ⟨n2, h2, a6⟩, ⟨n3, h3, a5⟩, ⟨n4, h4, a7, a8⟩, ?_, ⟨n6, h6, a10⟩, ⟨n7, h7, a1⟩⟩
  rw [h5]
  rcases a11 with e | e
  · exact Or.inl (by rw [e])
  · exact Or.inr (by rw [e])

theorem rejected_changes_nothing (st : State) (doc : List Entry) (persistOk : Bool)
    (h : (update st doc persistOk).2.1 = .failed) :
    (update st doc persistOk).1 = st ∧ (update st doc persistOk).2.2 = [] := by
  rcases update_cases st doc persistOk with hf | ⟨h1, h2, h3⟩
  · rw [update_failed st doc persistOk hf]
    exact ⟨rfl, rfl⟩
  · exact absurd h (update_accepted st doc persistOk h1 h2 h3).2.2.1

theorem fails_iff (st : State) (doc : List Entry) (persistOk : Bool) :
    (update st doc persistOk).2.1 = .failed ↔
      (hasIllTyped st.cfg doc = true ∨ verify (applyAll st.cfg (addressed st.cfg doc)) = false ∨
        persistOk = false) := by
  constructor
  · intro h
    rcases update_cases st doc persistOk with hf | ⟨h1, h2, h3⟩
    · exact hf
    · exact absurd h (update_accepted st doc persistOk h1 h2 h3).2.2.1
  · intro hf
    rw [update_failed st doc persistOk hf]

theorem hasIllTyped_perm (cfg : Cfg) {doc doc' : List Entry} (hp : doc.Perm doc') :
    hasIllTyped cfg doc = hasIllTyped cfg doc' := by
  unfold hasIllTyped
  induction hp with
  | nil => rfl
  | cons x _ ih => simp only [List.any_cons, ih]
  | swap x y l => simp only [List.any_cons, Bool.or_left_comm]
  | trans _ _ ih1 ih2 => exact ih1.trans ih2

theorem rejection_order_independent (st : State) (doc doc' : List Entry) (persistOk : Bool)
    (hp : doc.Perm doc') (h : hasIllTyped st.cfg doc = true) :
    (update st doc' persistOk) = (st, .failed, []) :=
  update_failed st doc' persistOk (Or.inl ((hasIllTyped_perm st.cfg hp).symm.trans h))

theorem accepted_changes_exactly (st : State) (doc : List Entry) (persistOk : Bool)
    (h : (update st doc persistOk).2.1 ≠ .failed) :
    let st' := (update st doc persistOk).1
    (∀ c ∈ st.cfg, (∀ s ∈ addressed st.cfg doc, s.1 ≠ c.name) → c ∈ st'.cfg) ∧
    st'.cfg.map (·.override) = st.cfg.map (·.override) ∧
    st'.cfg.map (·.name) = st.cfg.map (·.name) ∧
    st'.file = serialize st'.cfg ∧ verify st'.cfg = true := by
  intro st'
  rcases update_cases st doc persistOk with hf | ⟨h1, h2, h3⟩
  · exact absurd ((fails_iff st doc persistOk).2 hf) h
  · obtain ⟨hc, hfile, _, _⟩ := update_accepted st doc persistOk h1 h2 h3
    have hc' : st'.cfg = applyAll st.cfg (addressed st.cfg doc) := hc
    have hf' : st'.file = serialize (applyAll st.cfg (addressed st.cfg doc)) := hfile
    refine ⟨?_, ?_, ?_, ?_, ?_⟩
    · intro c hcm hna
      rw [hc', applyAll_eq_map]
      exact List.mem_map.2 ⟨c, hcm, retarget_of_not_addressed c hna⟩
    · rw [hc', applyAll_overrides]
    · rw [hc', applyAll_names]
    · rw [hf', hc']
    · rw [hc', h2]

theorem accepted_sets_value (st : State) (name : String) (v : Val) (persistOk : Bool)
    (hk : known st.cfg name = true)
    (h : (update st [.set name v] persistOk).2.1 ≠ .failed) :
    baseOf (update st [.set name v] persistOk).1.cfg name = some v := by
  rcases update_cases st [.set name v] persistOk with hf | ⟨h1, h2, h3⟩
  · exact absurd ((fails_iff st _ persistOk).2 hf) h
  · rw [(update_accepted st _ persistOk h1 h2 h3).1]
    have ha : addressed st.cfg [.set name v] = [(name, v)] := by simp [addressed, hk]
    obtain ⟨c, hfind, _, hcn⟩ := find_of_known hk
    rw [ha, baseOf, find_applyAll, hfind]
    simp [finalBase, hcn]

/-! ### C17b -/

theorem save_load_identity (cfg : Cfg) (hn : (cfg.map (·.name)).Nodup) :
    (load cfg (serialize cfg)).map (·.base) = cfg.map (·.base) := by
  unfold load
  rw [List.map_map]
  apply List.map_congr_left
  intro c hc
  have : (serialize cfg).find? (·.1 = c.name) = some (c.name, c.base) := by
    unfold serialize
    rw [List.find?_map]
    have := find_of_nodup hn hc
    simp only [Function.comp_def]
    rw [this]
    rfl
  simp [this]

theorem overwrite_keeps_file (st : State) (name : String) (v : Val) :
    (overwrite st name v).1.file = st.file ∧ serialize (overwrite st name v).1.cfg = serialize st.cfg := by
  refine ⟨rfl, ?_⟩
  simp only [overwrite, serialize, List.map_map]
  apply List.map_congr_left
  intro c _
  by_cases hc : c.name = name <;> simp [hc]

theorem run_cons (op : Op) (rest : List Op) (st : State) (view : String → Option Val) :
    run (op :: rest) st view =
      run rest (step st op).1
        ((step st op).2.foldl (fun v n => fun k => if k = n.1 then some n.2 else v k) view) := rfl

/-- an invariant of the state that every step of the history preserves holds at the end. -/
theorem run_inv (P : State → Prop) (ops : List Op) (st : State) (view : String → Option Val)
    (hstep : ∀ st op, op ∈ ops → P st → P (step st op).1) (h : P st) : P (run ops st view).1 := by
  induction ops generalizing st view with
  | nil => exact h
  | cons op rest ih =>
    rw [run_cons]
    exact ih _ _ (fun st' op' hm => hstep st' op' (List.mem_cons_of_mem _ hm))
      (hstep st op (List.mem_cons_self ..) h)

theorem step_update_cfg (st : State) (doc : List Entry) (ok : Bool) :
    (step st (.update doc ok)).1 = st ∨
    ((step st (.update doc ok)).1.cfg = st.cfg.map (retarget (addressed st.cfg doc)) ∧
     (step st (.update doc ok)).1.file = serialize (step st (.update doc ok)).1.cfg) := by
  show (update st doc ok).1 = st ∨ _ ∧ (update st doc ok).1.file = serialize (update st doc ok).1.cfg
  rcases update_cases st doc ok with hf | ⟨h1, h2, h3⟩
  · left; rw [update_failed st doc ok hf]
  · right
    obtain ⟨hc, hfile, _, _⟩ := update_accepted st doc ok h1 h2 h3
    exact ⟨hc.trans (applyAll_eq_map ..), hfile.trans (by rw [hc])⟩

theorem override_wins (ops : List Op) (st : State) (view : String → Option Val) (name : String) (v : Val)
    (hk : known st.cfg name = true)
    (hno : ∀ v', Op.overwrite name v' ∉ ops) :
    readOf (run (.overwrite name v :: ops) st view).1.cfg name = some v := by
  rw [run_cons]
  let P : State → Prop := fun s =>
    known s.cfg name = true ∧ ∀ c ∈ s.cfg, c.name = name → c.override = some v
  have hP : P (run ops (step st (.overwrite name v)).1
      ((step st (.overwrite name v)).2.foldl (fun v n => fun k => if k = n.1 then some n.2 else v k) view)).1 := by
    apply run_inv P
    · intro s op hop ⟨hks, hall⟩
      cases op with
      | update doc ok =>
        rcases step_update_cfg s doc ok with e | ⟨e, _⟩
        · rw [e]; exact ⟨hks, hall⟩
        · refine ⟨?_, ?_⟩
          · rw [e]
            obtain ⟨c, hc, hcn⟩ := known_iff.1 hks
            exact known_iff.2 ⟨_, List.mem_map_of_mem hc, hcn⟩
          · intro c hc hcn
            rw [e] at hc
            obtain ⟨d, hd, rfl⟩ := List.mem_map.1 hc
            exact hall d hd hcn
      | overwrite n' v' =>
        have hne : n' ≠ name := fun e => hno v' (e ▸ hop)
        refine ⟨?_, ?_⟩
        · obtain ⟨c, hc, hcn⟩ := known_iff.1 hks
          refine known_iff.2 ⟨_, List.mem_map_of_mem (f := fun c : Cell =>
            if c.name = n' then { c with override := some v' } else c) hc, ?_⟩
          have : ¬ c.name = n' := fun e => hne (e.symm.trans hcn)
          show (if c.name = n' then _ else c).name = name
          rw [if_neg this]
          exact hcn
        · intro c hc hcn
          obtain ⟨d, hd, rfl⟩ := List.mem_map.1 (show c ∈ s.cfg.map _ from hc)
          by_cases hdn : d.name = n'
          · simp only [hdn, if_true] at hcn
            exact absurd hcn hne
          · simp only [hdn, if_false] at hcn ⊢
            exact hall d hd hcn
    · refine ⟨?_, ?_⟩
      · obtain ⟨c, hc, hcn⟩ := known_iff.1 hk
        refine known_iff.2 ⟨_, List.mem_map_of_mem (f := fun c : Cell =>
          if c.name = name then { c with override := some v } else c) hc, ?_⟩
        simp [hcn]
      · intro c hc hcn
        obtain ⟨d, hd, rfl⟩ := List.mem_map.1 (show c ∈ st.cfg.map _ from hc)
        by_cases hdn : d.name = name
        · simp [hdn]
        · simp only [hdn, if_false] at hcn
  obtain ⟨hk', hall⟩ := hP
  obtain ⟨c, hfind, hc, hcn⟩ := find_of_known hk'
  rw [readOf, hfind]
  simp [Cell.read, hall c hc hcn]

theorem overrides_not_saved (ops : List Op) (st : State) (view : String → Option Val)
    (h : st.file = serialize st.cfg) :
    (run ops st view).1.file = serialize (run ops st view).1.cfg := by
  apply run_inv (fun s => s.file = serialize s.cfg) ops st view _ h
  intro s op _ hs
  cases op with
  | update doc ok =>
    rcases step_update_cfg s doc ok with e | ⟨_, e⟩
    · rw [e]; exact hs
    · exact e
  | overwrite n v =>
    obtain ⟨e1, e2⟩ := overwrite_keeps_file s n v
    show (overwrite s n v).1.file = serialize (overwrite s n v).1.cfg
    rw [e1, e2, hs]

/-! ### the component view -/

theorem foldl_notes (notes : List Note) (view : String → Option Val) (k : String) (w : Val)
    (h : ∀ n ∈ notes, n.1 = k → n.2 = w) :
    notes.foldl (fun v n => fun k => if k = n.1 then some n.2 else v k) view k =
      if notes.any (fun n => n.1 = k) then some w else view k := by
  induction notes generalizing view with
  | nil => simp
  | cons n rest ih =>
    simp only [List.foldl_cons, List.any_cons]
    rw [ih _ (fun n' hn' => h n' (List.mem_cons_of_mem _ hn'))]
    by_cases hk : n.1 = k
    · have hw := h n (List.mem_cons_self ..) hk
      simp [hk, hw]
    · have hk' : ¬ k = n.1 := fun e => hk e.symm
      have hd : decide (n.1 = k) = false := decide_eq_false hk
      simp only [hd, Bool.false_or, if_neg hk']

theorem step_names (st : State) (op : Op) : (step st op).1.cfg.map (·.name) = st.cfg.map (·.name) := by
  cases op with
  | update doc ok =>
    rcases step_update_cfg st doc ok with e | ⟨e, _⟩
    · rw [e]
    · rw [e, List.map_map]; rfl
  | overwrite n v =>
    show (st.cfg.map _).map (fun c : Cell => c.name) = _
    rw [List.map_map]
    apply List.map_congr_left
    intro c _
    by_cases hc : c.name = n <;> simp [hc]

theorem notesOf_follow (cfg : Cfg) (sets : List (String × Val)) (view : String → Option Val)
    (hn : (cfg.map (·.name)).Nodup) (h0 : ∀ c ∈ cfg, view c.name = some c.read) :
    ∀ c ∈ applyAll cfg sets,
      (notesOf cfg (applyAll cfg sets) sets).foldl (fun v n => fun k => if k = n.1 then some n.2 else v k) view
        c.name = some c.read := by
  intro c' hc'
  rw [applyAll_eq_map] at hc'
  obtain ⟨c, hc, rfl⟩ := List.mem_map.1 hc'
  have hold : readOf cfg c.name = some c.read := by rw [readOf, find_of_nodup hn hc]; rfl
  have hnew : readOf (applyAll cfg sets) c.name = some (retarget sets c).read := by
    rw [readOf, find_applyAll, find_of_nodup hn hc]; rfl
  have hnotes : ∀ n ∈ notesOf cfg (applyAll cfg sets) sets, n.1 = c.name → n.2 = (retarget sets c).read := by
    intro n hnm hnk
    obtain ⟨s, _, hg⟩ := List.mem_filterMap.1 hnm
    split at hg
    · rename_i old new ho hw
      split at hg
      · cases hg
        have : s.1 = c.name := hnk
        rw [this, hnew] at hw
        exact (Option.some.inj hw).symm
      · cases hg
    · cases hg
  rw [retarget_name, foldl_notes _ _ _ _ hnotes]
  split
  · rfl
  · rename_i hany
    rw [h0 c hc]
    by_cases hex : ∃ s ∈ sets, s.1 = c.name
    · obtain ⟨s, hs, hs1⟩ := hex
      by_cases heq : c.read = (retarget sets c).read
      · rw [heq]
      · exfalso
        apply hany
        rw [List.any_eq_true]
        refine ⟨(c.name, (retarget sets c).read), ?_, by simp⟩
        refine List.mem_filterMap.2 ⟨s, hs, ?_⟩
        simp only [hs1, hold, hnew]
        simp [heq]
    · have : ∀ s ∈ sets, s.1 ≠ c.name := fun s hs e => hex ⟨s, hs, e⟩
      rw [retarget_of_not_addressed c this]

theorem step_follows (st : State) (op : Op) (view : String → Option Val)
    (hn : (st.cfg.map (·.name)).Nodup) (h0 : ∀ c ∈ st.cfg, view c.name = some c.read) :
    ∀ c ∈ (step st op).1.cfg,
      (step st op).2.foldl (fun v n => fun k => if k = n.1 then some n.2 else v k) view c.name = some c.read := by
  cases op with
  | update doc ok =>
    show ∀ c ∈ (update st doc ok).1.cfg, (update st doc ok).2.2.foldl _ view c.name = some c.read
    rcases update_cases st doc ok with hf | ⟨h1, h2, h3⟩
    · rw [update_failed st doc ok hf]
      exact h0
    · obtain ⟨hc, _, _, hnotes⟩ := update_accepted st doc ok h1 h2 h3
      rw [hc, hnotes]
      exact notesOf_follow st.cfg _ view hn h0
  | overwrite n v =>
    intro c' hc'
    obtain ⟨c, hc, rfl⟩ := List.mem_map.1 (show c' ∈ st.cfg.map _ from hc')
    show (if known st.cfg n then [(n, v)] else []).foldl _ view _ = _
    by_cases hcn : c.name = n
    · have hk : known st.cfg n = true := known_iff.2 ⟨c, hc, hcn⟩
      simp [hk, hcn, Cell.read]
    · have hv : (if known st.cfg n then [(n, v)] else []).foldl
          (fun v n => fun k => if k = n.1 then some n.2 else v k) view c.name = view c.name := by
        cases known st.cfg n <;> simp [hcn]
      simp only [hcn, if_false]
      rw [hv]
      exact h0 c hc

theorem running_process_follows_override (ops : List Op) (st : State) (view : String → Option Val)
    (hn : (st.cfg.map (·.name)).Nodup)
    (h0 : ∀ c ∈ st.cfg, view c.name = some c.read) :
    ∀ c ∈ (run ops st view).1.cfg, (run ops st view).2 c.name = some c.read := by
  induction ops generalizing st view with
  | nil => exact h0
  | cons op rest ih =>
    rw [run_cons]
    exact ih _ _ (by rw [step_names]; exact hn) (step_follows st op view hn h0)

end Rv.Lemmas.Config
