import Rv.Model.Wire
import Rv.Lemmas.Dec
/-
  Rv.Lemmas.Wire — the framing of a kept-alive tunnel: a client that reads the
  stream with the RFC 9112 §6.3 rules recovers exactly the responses written.
  Core Lean only.

    (W1) frame_readOne            one complete response followed by ANY bytes is
                                  read back as `view r`, consuming exactly its bytes
    (W2) serve_isolated           any number of complete exchanges: exactly the
                                  responses written, nothing left over
         readAll_serve_append     the same with anything after them
    (W3) serve_stops_at_failure   after an incomplete response nothing is written;
                                  the client gets the earlier responses, then an
                                  unreadable remainder or the announced message + EOF
         readOne_failed           what a client makes of a failed write
         serve_stops_at_failure_any   the part that needs nothing of `bad`
    (W4) noClose_leaks            without the stop the next response's bytes become
                                  body of the truncated one
         untilClose_swallows, noBodyStatus_with_length_desyncs
                                  the two ways a COMPLETED write is not delimited
                                  (why `Resp.WF` contains `delimited`)

  All statements hold for arbitrary header fields (`Resp.WF.fields`), statuses,
  bodies and lengths; nothing is restricted to `hdrs = []`.
-/
namespace Rv.Lemmas.Wire
open Rv Rv.Wire Rv.Lemmas.Dec

/-! ### hexadecimal print / parse -/

theorem hexVal_hexDigit : ∀ k, k < 16 → hexVal (hexDigit k) = some k := by decide

theorem toHexAux_append : ∀ (fuel n : Nat) (acc : Str),
    toHexAux fuel n acc = toHexAux fuel n [] ++ acc
  | 0, n, acc => by simp [toHexAux]
  | fuel + 1, n, acc => by
      simp only [toHexAux]
      split
      · simp
      · rw [toHexAux_append fuel (n / 16) (_ :: acc), toHexAux_append fuel (n / 16) [_]]
        simp

theorem toHexAux_succ (fuel n : Nat) :
    toHexAux (fuel + 1) n [] =
      if n / 16 = 0 then [hexDigit (n % 16)]
      else toHexAux fuel (n / 16) [] ++ [hexDigit (n % 16)] := by
  simp only [toHexAux]
  split
  · rfl
  · rw [toHexAux_append]

theorem hexNatAux_snoc : ∀ (x : Str) (a : Nat) (c : Char),
    hexNatAux a (x ++ [c]) =
      match hexNatAux a x, hexVal c with
      | some v, some d => some (v * 16 + d)
      | _, _ => none
  | [], a, c => by
      simp only [List.nil_append, hexNatAux]
      cases hexVal c <;> rfl
  | y :: ys, a, c => by
      simp only [List.cons_append, hexNatAux]
      cases hy : hexVal y with
      | none => rfl
      | some d => exact hexNatAux_snoc ys (a * 16 + d) c

theorem hexNatAux_toHexAux : ∀ (fuel n : Nat), n < fuel → hexNatAux 0 (toHexAux fuel n []) = some n
  | 0, n, h => by omega
  | fuel + 1, n, h => by
      rw [toHexAux_succ]
      have hd := hexVal_hexDigit (n % 16) (Nat.mod_lt _ (by omega))
      split
      · rename_i h0
        simp only [hexNatAux, hd]
        congr 1; omega
      · rename_i h0
        rw [hexNatAux_snoc, hexNatAux_toHexAux fuel (n / 16) (by omega), hd]
        simp only
        congr 1; omega

theorem toHexAux_ne_nil (fuel n : Nat) : toHexAux (fuel + 1) n [] ≠ [] := by
  rw [toHexAux_succ]
  split <;> simp

theorem toHex_ne_nil (n : Nat) : toHex n ≠ [] := toHexAux_ne_nil n n

/-- the chunk size Go prints parses back. -/
theorem hexNat_toHex (n : Nat) : hexNat (toHex n) = some n := by
  unfold hexNat
  rw [if_neg (toHex_ne_nil n)]
  exact hexNatAux_toHexAux (n + 1) n (by omega)

/-- every character of a printed hex number is one of the 16 hex digits. -/
theorem toHexAux_all (P : Char → Prop) (hP : ∀ k, k < 16 → P (hexDigit k)) :
    ∀ (fuel n : Nat), ∀ c ∈ toHexAux fuel n [], P c
  | 0, n => by simp [toHexAux]
  | fuel + 1, n => by
      rw [toHexAux_succ]
      have hd := hP (n % 16) (Nat.mod_lt _ (by omega))
      split
      · intro c hc
        simp only [List.mem_singleton] at hc
        subst hc; exact hd
      · intro c hc
        simp only [List.mem_append, List.mem_singleton] at hc
        rcases hc with hc | hc
        · exact toHexAux_all P hP fuel (n / 16) c hc
        · subst hc; exact hd

theorem toHex_all (P : Char → Prop) (hP : ∀ k, k < 16 → P (hexDigit k)) (n : Nat) :
    ∀ c ∈ toHex n, P c := toHexAux_all P hP (n + 1) n


/-! ### lines -/

theorem takeLine_crlf (rest : Str) : takeLine ('\r' :: '\n' :: rest) = some ([], rest) := by
  simp [takeLine]

/-- a line without CR, followed by CRLF, is split exactly there. -/
theorem takeLine_append : ∀ (l : Str), (∀ c ∈ l, c ≠ '\r') → ∀ rest : Str,
    takeLine (l ++ crlf ++ rest) = some (l, rest)
  | [], _, rest => by simp [crlf, takeLine]
  | [a], h, rest => by
      have ha : a ≠ '\r' := h a (by simp)
      simp [crlf, takeLine, ha]
  | a :: b :: l, h, rest => by
      have ha : a ≠ '\r' := h a (by simp)
      have ih := takeLine_append (b :: l) (fun c hc => h c (List.mem_cons_of_mem _ hc)) rest
      simp only [List.cons_append] at ih ⊢
      simp only [takeLine, ha, false_and, ↓reduceIte, ih]

theorem cutAt_append (sep : Char) : ∀ (l : Str), (∀ c ∈ l, c ≠ sep) → ∀ rest : Str,
    cutAt sep (l ++ sep :: rest) = some (l, rest)
  | [], _, rest => by simp [cutAt]
  | a :: l, h, rest => by
      have ha : a ≠ sep := h a (by simp)
      have ih := cutAt_append sep l (fun c hc => h c (List.mem_cons_of_mem _ hc)) rest
      simp only [List.cons_append, cutAt, ha, ↓reduceIte, ih]

theorem cutPrefix_append : ∀ (p x : Str), cutPrefix (p ++ x) p = some x
  | [], x => by cases x <;> simp [cutPrefix]
  | a :: p, x => by
      simp only [List.cons_append, cutPrefix, ↓reduceIte]
      exact cutPrefix_append p x

theorem dropWhile_id (p : Char → Bool) : ∀ (x : Str), (∀ c ∈ x, p c = false) → x.dropWhile p = x
  | [], _ => rfl
  | a :: x, h => by
      have ha : p a = false := h a (by simp)
      simp [List.dropWhile, ha]

theorem trimOWS_id (x : Str) (h : ∀ c ∈ x, isOWS c = false) : trimOWS x = x := by
  unfold trimOWS
  rw [dropWhile_id isOWS x h, dropWhile_id isOWS x.reverse (fun c hc => h c (List.mem_reverse.mp hc))]
  exact List.reverse_reverse x

theorem trimOWS_sp (x : Str) : trimOWS (' ' :: x) = trimOWS x := by
  simp [trimOWS, List.dropWhile, isOWS]

/-! ### decimal numbers contain only digits -/

theorem mem_toDec {n : Nat} {c : Char} (h : c ∈ toDec n) : isDigit c = true := by
  have := allDigits_toDec n
  simp only [allDigits, List.all_eq_true] at this
  exact this c h

theorem digit_ne {c : Char} (h : isDigit c = true) :
    c ≠ '\r' ∧ c ≠ '\n' ∧ c ≠ ' ' ∧ c ≠ ':' ∧ isOWS c = false := by
  have hb := isDigit_bounds h
  refine ⟨?_, ?_, ?_, ?_, ?_⟩
  · intro e; subst e; revert hb; decide
  · intro e; subst e; revert hb; decide
  · intro e; subst e; revert hb; decide
  · intro e; subst e; revert hb; decide
  · cases ho : isOWS c with
    | false => rfl
    | true =>
      simp only [isOWS, Bool.or_eq_true, decide_eq_true_eq] at ho
      rcases ho with e | e <;> (subst e; revert hb; decide)


/-! ### the header section -/

theorem takeLine_hdrLine (nv : Str × Str) (h : FieldOK nv) (rest : Str) :
    takeLine (hdrLine nv ++ rest) = some (nv.1 ++ ':' :: ' ' :: nv.2, rest) := by
  obtain ⟨_, hn, hv, _⟩ := h
  have := takeLine_append (nv.1 ++ ':' :: ' ' :: nv.2) (by
    intro c hc
    simp only [List.mem_append, List.mem_cons] at hc
    rcases hc with hc | hc | hc | hc
    · exact (hn c hc).2.1
    · subst hc; decide
    · subst hc; decide
    · exact (hv c hc).1) rest
  simpa [hdrLine, List.append_assoc] using this

theorem parseHdr_hdrLine (nv : Str × Str) (h : FieldOK nv) :
    parseHdr (nv.1 ++ ':' :: ' ' :: nv.2) = some nv := by
  obtain ⟨hne, hn, _, ht⟩ := h
  unfold parseHdr
  rw [cutAt_append ':' nv.1 (fun c hc => (hn c hc).1)]
  simp only [hne, ↓reduceIte, trimOWS_sp, ht]

theorem hdrLine_ne_nil (nv : Str × Str) : nv.1 ++ ':' :: ' ' :: nv.2 ≠ [] := by
  simp

theorem hdrLines_append : ∀ (a b : List (Str × Str)), hdrLines (a ++ b) = hdrLines a ++ hdrLines b
  | [], b => rfl
  | x :: a, b => by simp [hdrLines, hdrLines_append a b]

theorem length_hdrLines : ∀ (hs : List (Str × Str)), hs.length ≤ (hdrLines hs).length
  | [] => by simp
  | x :: hs => by
      have := length_hdrLines hs
      simp only [hdrLines, hdrLine, crlf, List.length_cons, List.length_append]
      omega

/-- the header fields followed by the blank line are read back, whatever follows. -/
theorem readHdrs_lines : ∀ (hs : List (Str × Str)), (∀ nv ∈ hs, FieldOK nv) → ∀ (fuel : Nat),
    hs.length < fuel → ∀ rest : Str, readHdrs fuel (hdrLines hs ++ crlf ++ rest) = some (hs, rest)
  | [], _, fuel, hf, rest => by
      cases fuel with
      | zero => omega
      | succ fuel => simp [hdrLines, crlf, readHdrs, takeLine]
  | nv :: hs, h, fuel, hf, rest => by
      cases fuel with
      | zero => omega
      | succ fuel =>
        have hnv := h nv (by simp)
        have ih := readHdrs_lines hs (fun x hx => h x (List.mem_cons_of_mem _ hx)) fuel
          (by simp only [List.length_cons] at hf; omega) rest
        simp only [hdrLines, List.append_assoc] at ih ⊢
        simp only [readHdrs, takeLine_hdrLine nv hnv, hdrLine_ne_nil nv, ↓reduceIte,
          parseHdr_hdrLine nv hnv, ih]

theorem readHdrs_lines' (hs : List (Str × Str)) (h : ∀ nv ∈ hs, FieldOK nv) (rest : Str) :
    readHdrs ((hdrLines hs ++ crlf ++ rest).length + 1) (hdrLines hs ++ crlf ++ rest) = some (hs, rest) := by
  apply readHdrs_lines hs h
  have := length_hdrLines hs
  simp only [List.length_append]
  omega

/-! ### the status line -/

theorem takeLine_statusLine (st : Nat) (rest : Str) :
    takeLine (statusLine st ++ rest) = some (httpVer ++ toDec st ++ reason, rest) := by
  have := takeLine_append (httpVer ++ toDec st ++ reason) (by
    intro c hc
    simp only [List.mem_append] at hc
    rcases hc with (hc | hc) | hc
    · revert c; decide
    · exact (digit_ne (mem_toDec hc)).1
    · revert c; decide) rest
  simpa [statusLine, List.append_assoc] using this

theorem parseStatus_statusLine (st : Nat) : parseStatus (httpVer ++ toDec st ++ reason) = some st := by
  unfold parseStatus
  rw [List.append_assoc, cutPrefix_append]
  simp only [reason]
  rw [cutAt_append ' ' (toDec st) (fun c hc => (digit_ne (mem_toDec hc)).2.2.1)]
  simp only [allDigits_toDec, toDec_ne_nil, ne_eq, not_false_eq_true, and_self, ↓reduceIte, decVal_toDec]

/-- reading one response = reading its body once status line and header
    section are consumed. -/
theorem readOne_head (isHead : Bool) (st : Nat) (hs : List (Str × Str)) (h : ∀ nv ∈ hs, FieldOK nv)
    (x : Str) :
    readOne isHead (statusLine st ++ hdrLines hs ++ crlf ++ x) = readBody isHead st hs x := by
  unfold readOne
  have e : statusLine st ++ hdrLines hs ++ crlf ++ x = statusLine st ++ (hdrLines hs ++ crlf ++ x) := by
    simp only [List.append_assoc]
  rw [e, takeLine_statusLine]
  simp only [parseStatus_statusLine, readHdrs_lines' hs h x]


/-! ### chunked bodies -/

theorem takeWhile_id (p : Char → Bool) : ∀ (x : Str), (∀ c ∈ x, p c = true) → x.takeWhile p = x
  | [], _ => rfl
  | a :: x, h => by
      have ha : p a = true := h a (by simp)
      have ih := takeWhile_id p x (fun c hc => h c (List.mem_cons_of_mem _ hc))
      simp [List.takeWhile, ha, ih]

theorem chunkSize_toHex (n : Nat) : chunkSize (toHex n) = some n := by
  unfold chunkSize
  rw [takeWhile_id _ (toHex n) (toHex_all (fun c => (c != ';') = true) (by decide) n)]
  exact hexNat_toHex n

theorem takeLine_toHex (n : Nat) (rest : Str) : takeLine (toHex n ++ crlf ++ rest) = some (toHex n, rest) :=
  takeLine_append (toHex n) (toHex_all (fun c => c ≠ '\r') (by decide) n) rest

/-- the last chunk with its empty trailer section ends a chunked body. -/
theorem readChunks_last (fuel : Nat) (rest : Str) :
    readChunks (fuel + 1) (lastChunk ++ rest) = some ([], rest) := by
  have e : lastChunk ++ rest = ['0'] ++ crlf ++ (crlf ++ rest) := rfl
  have h0 : chunkSize ['0'] = some 0 := by decide
  have hh : readHdrs ((crlf ++ rest).length + 1) (crlf ++ rest) = some ([], rest) := by
    simp [crlf, readHdrs, takeLine]
  rw [e]
  simp only [readChunks, takeLine_append ['0'] (by decide) (crlf ++ rest), h0, ↓reduceIte, hh]

/-- what `frame` writes for a complete chunked body is read back as that body. -/
theorem readChunks_chunk (b : Str) (fuel : Nat) (rest : Str) :
    readChunks (fuel + 2) (chunk b ++ lastChunk ++ rest) = some (b, rest) := by
  unfold chunk
  by_cases hb : b = []
  · subst hb
    simp only [↓reduceIte, List.nil_append]
    exact readChunks_last (fuel + 1) rest
  · rw [if_neg hb]
    have hlen : b.length ≠ 0 := by
      intro h; exact hb (List.length_eq_zero_iff.mp h)
    have e : toHex b.length ++ crlf ++ b ++ crlf ++ lastChunk ++ rest
        = toHex b.length ++ crlf ++ (b ++ (crlf ++ (lastChunk ++ rest))) := by
      simp only [List.append_assoc]
    rw [e]
    have hle : b.length ≤ (b ++ (crlf ++ (lastChunk ++ rest))).length := by
      simp only [List.length_append]; omega
    rw [readChunks]
    simp only [takeLine_toHex, chunkSize_toHex, hlen, ↓reduceIte, hle,
      List.drop_left, cutPrefix_append, readChunks_last, List.take_left, List.append_nil]


/-! ### the framing fields -/

theorem fieldOK_te : FieldOK (nameTE, valChunked) := by unfold FieldOK; decide
theorem fieldOK_conn : FieldOK (nameConn, valClose) := by unfold FieldOK; decide
theorem fieldOK_cl0 : FieldOK (nameCL, ['0']) := by unfold FieldOK; decide

theorem fieldOK_cl (n : Nat) : FieldOK (nameCL, toDec n) := by
  have h1 : nameCL ≠ [] := by decide
  have h2 : ∀ c ∈ nameCL, c ≠ ':' ∧ c ≠ '\r' ∧ c ≠ '\n' := by decide
  refine ⟨h1, h2, ?_, ?_⟩
  · intro c hc
    have := digit_ne (mem_toDec hc)
    exact ⟨this.1, this.2.1⟩
  · exact trimOWS_id _ (fun c hc => (digit_ne (mem_toDec hc)).2.2.2.2)

/-- every field of the header section the model writes is well formed. -/
theorem wireHdrs_ok (r : Resp) (h : ∀ nv ∈ r.hdrs, FieldOK nv ∧ NotFraming nv) :
    ∀ nv ∈ wireHdrs r, FieldOK nv := by
  intro nv hnv
  simp only [wireHdrs, List.mem_append] at hnv
  rcases hnv with (hnv | hnv) | hnv
  · unfold preFields at hnv
    split at hnv
    · simp only [List.mem_singleton] at hnv; subst hnv; exact fieldOK_cl _
    · simp only [List.mem_singleton] at hnv; subst hnv; exact fieldOK_te
    · simp only [List.mem_singleton] at hnv; subst hnv; exact fieldOK_conn
    · simp at hnv
  · exact (h nv hnv).1
  · unfold postFields at hnv
    split at hnv
    · simp only [List.mem_singleton] at hnv; subst hnv; exact fieldOK_cl0
    · simp at hnv

theorem lookup_none (name : Str) : ∀ (hs : List (Str × Str)), (∀ nv ∈ hs, toLower nv.1 ≠ name) →
    lookup name hs = none
  | [], _ => rfl
  | nv :: hs, h => by
      have h1 := h nv (by simp)
      simp only [lookup, h1, ↓reduceIte]
      exact lookup_none name hs (fun x hx => h x (List.mem_cons_of_mem _ hx))

theorem lookup_append_none (name : Str) : ∀ (a b : List (Str × Str)), lookup name a = none →
    lookup name (a ++ b) = lookup name b
  | [], b, _ => rfl
  | nv :: a, b, h => by
      simp only [lookup] at h
      split at h
      · cases h
      · rename_i hne
        simp only [List.cons_append, lookup, hne, ↓reduceIte]
        exact lookup_append_none name a b h

theorem lookupTE_hdrs (r : Resp) (h : r.WF) : lookup lowTE r.hdrs = none :=
  lookup_none _ _ (fun nv hnv => (h.fields nv hnv).2.2)

theorem lookupCL_hdrs (r : Resp) (h : r.WF) : lookup lowCL r.hdrs = none :=
  lookup_none _ _ (fun nv hnv => (h.fields nv hnv).2.1)

/-! ### facts about the framing decision -/

theorem framing_noBody {r : Resp} (h : framing r = .noBody) : noBodyStatus r.status = true := by
  unfold framing at h
  split at h
  · split at h
    · assumption
    · cases h
  · split at h
    · split at h
      · assumption
      · cases h
    · cases h
  · cases h

theorem framing_length0 {r : Resp} (h : framing r = .length 0) : noBodyStatus r.status = false := by
  unfold framing at h
  split at h
  · split at h <;> cases h
  · split at h
    · split at h
      · cases h
      · simpa using ‹¬noBodyStatus r.status = true›
    · cases h
  · cases h

theorem framing_chunked {r : Resp} (h : framing r = .chunked) : noBodyStatus r.status = false := by
  unfold framing at h
  split at h
  · split at h
    · cases h
    · simpa using ‹¬noBodyStatus r.status = true›
  · split at h
    · split at h <;> cases h
    · cases h
  · cases h


/-! ### what the reader does after the header section of `r` -/

theorem toLower_te : toLower nameTE = lowTE := by decide
theorem toLower_cl : toLower nameCL = lowCL := by decide
theorem cl_ne_te : toLower nameCL ≠ lowTE := by decide
theorem chunked_ok : toLower (trimOWS valChunked) = valChunked := by decide

theorem readBody_head (st : Nat) (hs : List (Str × Str)) (x : Str) :
    readBody true st hs x = some (⟨st, hs, []⟩, x) := by
  simp [readBody]

theorem readBody_noBody (r : Resp) (hf : framing r = .noBody) (x : Str) :
    readBody false r.status (wireHdrs r) x = some (⟨r.status, wireHdrs r, []⟩, x) := by
  simp [readBody, framing_noBody hf]

/-- `Transfer-Encoding: chunked` written by the model: the reader reads chunks. -/
theorem readBody_chunked (r : Resp) (hf : framing r = .chunked) (x : Str) :
    readBody false r.status (wireHdrs r) x =
      match readChunks (x.length + 1) x with
      | none => none
      | some (b, x') => some (⟨r.status, wireHdrs r, b⟩, x') := by
  have hs := framing_chunked hf
  have hw : wireHdrs r = (nameTE, valChunked) :: r.hdrs := by
    simp [wireHdrs, preFields, postFields, hf]
  have hl : lookup lowTE (wireHdrs r) = some valChunked := by
    rw [hw]; simp only [lookup, toLower_te, ↓reduceIte]
  simp only [readBody, Bool.false_or, hs, Bool.false_eq_true, ↓reduceIte, hl, chunked_ok]
  cases readChunks (x.length + 1) x with
  | none => rfl
  | some p => rfl

/-- `Content-Length: n` written by the model on a status that allows a body:
    the reader takes n bytes, or fails when fewer are left. -/
theorem readBody_length (r : Resp) (h : r.WF) (n : Nat) (hf : framing r = .length n)
    (hs : noBodyStatus r.status = false) (x : Str) :
    readBody false r.status (wireHdrs r) x =
      if n ≤ x.length then some (⟨r.status, wireHdrs r, x.take n⟩, x.drop n) else none := by
  have hte := lookupTE_hdrs r h
  have hcl := lookupCL_hdrs r h
  cases n with
  | zero =>
    have hw : wireHdrs r = r.hdrs ++ [(nameCL, ['0'])] := by
      simp only [wireHdrs, preFields, postFields, hf, List.nil_append]
    have hl1 : lookup lowTE (wireHdrs r) = none := by
      rw [hw, lookup_append_none _ _ _ hte]; simp only [lookup, cl_ne_te, ↓reduceIte]
    have hl2 : lookup lowCL (wireHdrs r) = some ['0'] := by
      rw [hw, lookup_append_none _ _ _ hcl]; simp only [lookup, toLower_cl, ↓reduceIte]
    have h0 : allDigits ['0'] = true ∧ ['0'] ≠ [] := by decide
    have hv : decVal ['0'] = 0 := by decide
    simp only [readBody, Bool.false_or, hs, Bool.false_eq_true, ↓reduceIte, hl1, hl2, h0,
      ne_eq, not_false_eq_true, and_self, hv, Nat.zero_le]
  | succ n =>
    have hw : wireHdrs r = (nameCL, toDec (n + 1)) :: r.hdrs := by
      simp [wireHdrs, preFields, postFields, hf]
    have hl1 : lookup lowTE (wireHdrs r) = none := by
      rw [hw]; simp only [lookup, cl_ne_te, ↓reduceIte, hte]
    have hl2 : lookup lowCL (wireHdrs r) = some (toDec (n + 1)) := by
      rw [hw]; simp only [lookup, toLower_cl, ↓reduceIte]
    simp only [readBody, Bool.false_or, hs, Bool.false_eq_true, ↓reduceIte, hl1, hl2,
      allDigits_toDec, toDec_ne_nil, ne_eq, not_false_eq_true, and_self, decVal_toDec]

/-- a well-formed response that is not a HEAD answer and carries
    `Content-Length: n` has a status that allows a body. -/
theorem length_status (r : Resp) (h : r.WF) (hh : r.head = false) (n : Nat)
    (hf : framing r = .length n) : noBodyStatus r.status = false := by
  cases n with
  | zero => exact framing_length0 hf
  | succ n =>
    have hd := h.delimited
    simp only [delimited, hh, Bool.false_or, hf] at hd
    simpa using hd

/-! ### (W1) one response is read back exactly -/

theorem frame_complete {r : Resp} (hc : (frame r).2 = true) :
    (frame r).1 = headSection r ++ (bodyBytes r).1 ∧ (bodyBytes r).2 = true := by
  by_cases hp : probeFails r = true
  · simp [frame, hp] at hc
  · simpa [frame, hp] using hc

/-- the body part: after the header section of `r`, the reader takes exactly
    the body bytes of `r`. -/
theorem readBody_frame (r : Resp) (h : r.WF) (hb : (bodyBytes r).2 = true) (rest : Str) :
    readBody r.head r.status (wireHdrs r) ((bodyBytes r).1 ++ rest) = some (view r, rest) := by
  have hd := h.delimited
  unfold bodyBytes at hb ⊢
  unfold view announced
  cases hh : r.head with
  | true => simp [readBody]
  | false =>
    simp only [hh, Bool.false_eq_true, ↓reduceIte] at hb ⊢
    cases hf : framing r with
    | noBody => simp [readBody_noBody r hf]
    | untilClose => simp [delimited, hh, hf] at hd
    | chunked =>
      simp only [hf, Bool.not_eq_eq_eq_not, Bool.not_true] at hb
      have hfu : ((chunk r.body ++ lastChunk ++ rest).length + 1)
          = ((chunk r.body ++ lastChunk ++ rest).length - 1) + 2 := by
        simp only [List.length_append, lastChunk, List.length_cons]; omega
      simp only [readBody_chunked r hf, hb, Bool.false_eq_true, ↓reduceIte]
      rw [hfu, readChunks_chunk]
    | length n =>
      simp only [hf, Bool.and_eq_true, beq_iff_eq, Bool.not_eq_eq_eq_not, Bool.not_true] at hb
      have hlen : r.body.length = n := hb.1
      have htk : r.body.take n = r.body := by rw [← hlen]; exact List.take_length
      have hle : n ≤ (r.body ++ rest).length := by simp only [List.length_append]; omega
      simp only [readBody_length r h n hf (length_status r h hh n hf), htk, hle, ↓reduceIte,
        List.take_left' hlen, List.drop_left' hlen]

/-- (W1) a client reading by the message-length rules consumes EXACTLY the
    bytes of a completely written response and understands it as `view r`,
    whatever follows on the stream. -/
theorem frame_readOne (r : Resp) (h : r.WF) (hc : (frame r).2 = true) (rest : Str) :
    readOne r.head ((frame r).1 ++ rest) = some (view r, rest) := by
  obtain ⟨h1, h2⟩ := frame_complete hc
  rw [h1]
  have e : headSection r ++ (bodyBytes r).1 ++ rest
      = statusLine r.status ++ hdrLines (wireHdrs r) ++ crlf ++ ((bodyBytes r).1 ++ rest) := by
    simp only [headSection, List.append_assoc]
  rw [e, readOne_head _ _ _ (wireHdrs_ok r h.fields)]
  exact readBody_frame r h h2 rest


/-! ### (W2) any number of complete exchanges -/

theorem serve_append (pre l : List Resp) (hc : ∀ r ∈ pre, (frame r).2 = true) :
    serve (pre ++ l) = serve pre ++ serve l := by
  induction pre with
  | nil => rfl
  | cons r pre ih =>
    have h1 := hc r (by simp)
    have ih := ih (fun x hx => hc x (List.mem_cons_of_mem _ hx))
    simp only [List.cons_append, serve, h1, ↓reduceIte, ih, List.append_assoc]

/-- after any number of complete exchanges the reader has recovered exactly
    their messages and stands exactly at the first byte written after them. -/
theorem readAll_serve_append (pre : List Resp) (h : ∀ r ∈ pre, r.WF)
    (hc : ∀ r ∈ pre, (frame r).2 = true) (fl : List Bool) (x : Str) :
    readAll (pre.map (·.head) ++ fl) (serve pre ++ x) =
      (pre.map view ++ (readAll fl x).1, (readAll fl x).2) := by
  induction pre with
  | nil => rfl
  | cons r pre ih =>
    have h1 := hc r (by simp)
    have ih := ih (fun y hy => h y (List.mem_cons_of_mem _ hy))
      (fun y hy => hc y (List.mem_cons_of_mem _ hy))
    simp only [List.map_cons, List.cons_append, serve, h1, ↓reduceIte, List.append_assoc, readAll,
      frame_readOne r (h r (by simp)) h1, ih]

theorem readAll_nil (fl : List Bool) : readAll fl [] = ([], []) := by
  cases fl with
  | nil => rfl
  | cons b fl => simp [readAll, readOne, takeLine]

/-- (W2) a tunnel of complete exchanges, however many: the client recovers
    exactly the responses written, in order, nothing is left over — no byte is
    attributed to another exchange. -/
theorem serve_isolated (rs : List Resp) (h : ∀ r ∈ rs, r.WF) (hc : ∀ r ∈ rs, (frame r).2 = true) :
    readAll (rs.map (·.head)) (serve rs) = (rs.map view, []) := by
  have := readAll_serve_append rs h hc [] []
  simpa [readAll] using this

/-! ### (W3) the tunnel stops at the first incomplete response -/

theorem readHdrs_nil (fuel : Nat) : readHdrs fuel [] = none := by
  cases fuel <;> simp [readHdrs, takeLine]

theorem readChunks_nil (fuel : Nat) : readChunks fuel [] = none := by
  cases fuel <;> simp [readChunks, takeLine]

/-- a chunked body without its last chunk cannot be read to its end. -/
theorem readChunks_cut (b : Str) (fuel : Nat) : readChunks fuel (chunk b) = none := by
  unfold chunk
  by_cases hb : b = []
  · simp only [hb, ↓reduceIte, readChunks_nil]
  · rw [if_neg hb]
    cases fuel with
    | zero => rfl
    | succ fuel =>
      have hlen : b.length ≠ 0 := by
        intro h; exact hb (List.length_eq_zero_iff.mp h)
      have e : toHex b.length ++ crlf ++ b ++ crlf = toHex b.length ++ crlf ++ (b ++ (crlf ++ [])) := by
        simp only [List.append_assoc, List.append_nil]
      have hle : b.length ≤ (b ++ (crlf ++ [])).length := by
        simp only [List.length_append]; omega
      rw [e, readChunks]
      simp only [takeLine_toHex, chunkSize_toHex, hlen, ↓reduceIte, hle,
        List.drop_left, cutPrefix_append, readChunks_nil]

/-- what a client makes of a response whose write FAILED, when nothing follows
    it on the stream: either it cannot read a message at all (it knows the
    message is incomplete), or — the length was announced and all announced
    bytes did go out before the body reader failed / ran over — it reads the
    announced message and the stream is exhausted. -/
theorem readOne_failed (r : Resp) (h : r.WF) (hc : (frame r).2 = false) :
    readOne r.head (frame r).1 = none ∨
    (readOne r.head (frame r).1 = some (view r, []) ∧
      ∃ n, r.head = false ∧ framing r = .length n ∧ n ≤ r.body.length) := by
  by_cases hp : probeFails r = true
  · -- only the status line was written
    left
    have e : (frame r).1 = statusLine r.status ++ [] := by simp [frame, hp]
    rw [e]
    unfold readOne
    simp only [takeLine_statusLine, parseStatus_statusLine, readHdrs_nil]
  · have e : (frame r).1 = statusLine r.status ++ hdrLines (wireHdrs r) ++ crlf ++ (bodyBytes r).1 := by
      simp [frame, hp, headSection]
    have hb : (bodyBytes r).2 = false := by simpa [frame, hp] using hc
    rw [e, readOne_head _ _ _ (wireHdrs_ok r h.fields)]
    have hd := h.delimited
    unfold bodyBytes at hb ⊢
    cases hh : r.head with
    | true => simp [hh] at hb
    | false =>
      simp only [hh, Bool.false_eq_true, ↓reduceIte] at hb ⊢
      cases hf : framing r with
      | noBody => simp [hf] at hb
      | untilClose => simp [delimited, hh, hf] at hd
      | chunked =>
        left
        simp only [hf, Bool.not_eq_eq_eq_not, Bool.not_false] at hb
        simp only [readBody_chunked r hf, hb, ↓reduceIte, List.append_nil, readChunks_cut]
      | length n =>
        rw [readBody_length r h n hf (length_status r h hh n hf)]
        by_cases hn : n ≤ r.body.length
        · right
          have hl : (r.body.take n).length = n := by simp [List.length_take]; omega
          refine ⟨?_, n, by trivial, by trivial, hn⟩
          simp only [hl, Nat.le_refl, ↓reduceIte, view, announced, hh, Bool.false_eq_true, hf]
          have h1 : (r.body.take n).take n = r.body.take n := by
            rw [List.take_take]; simp
          have h2 : (r.body.take n).drop n = [] := by
            apply List.drop_eq_nil_of_le; omega
          rw [h1, h2]
        · left
          have hl : ¬ n ≤ (r.body.take n).length := by simp [List.length_take]; omega
          simp only [hl, ↓reduceIte]

/-- (W3) the tunnel after the fix: once a response could not be completed
    nothing more is written — no byte of `post` is on the wire — and the client
    gets the responses before it exactly, then either an unreadable remainder
    (made of bytes of `bad` only) or the message `bad` announced and the end of
    the stream.  No message of `post` is ever attributed to an earlier exchange. -/
theorem serve_stops_at_failure (pre post : List Resp) (bad : Resp)
    (h : ∀ r ∈ pre, r.WF) (hc : ∀ r ∈ pre, (frame r).2 = true)
    (hb : bad.WF) (hbc : (frame bad).2 = false) :
    serve (pre ++ [bad] ++ post) = serve pre ++ (frame bad).1 ∧
    (readAll ((pre ++ [bad] ++ post).map (·.head)) (serve (pre ++ [bad] ++ post))
        = (pre.map view, (frame bad).1) ∨
     readAll ((pre ++ [bad] ++ post).map (·.head)) (serve (pre ++ [bad] ++ post))
        = (pre.map view ++ [view bad], [])) := by
  have hs : serve (pre ++ [bad] ++ post) = serve pre ++ (frame bad).1 := by
    rw [List.append_assoc, serve_append pre _ hc]
    simp [serve, hbc]
  refine ⟨hs, ?_⟩
  have hm : (pre ++ [bad] ++ post).map (·.head) = pre.map (·.head) ++ (bad.head :: post.map (·.head)) := by
    simp
  rw [hs, hm, readAll_serve_append pre h hc]
  rcases readOne_failed bad hb hbc with h1 | ⟨h1, _⟩
  · left; simp [readAll, h1]
  · right; simp [readAll, h1, readAll_nil]

/-- the part of (W3) that needs no assumption on `bad`: whatever the client
    reads after the complete exchanges is read from bytes of `bad` alone. -/
theorem serve_stops_at_failure_any (pre post : List Resp) (bad : Resp)
    (h : ∀ r ∈ pre, r.WF) (hc : ∀ r ∈ pre, (frame r).2 = true) (hbc : (frame bad).2 = false) :
    serve (pre ++ [bad] ++ post) = serve pre ++ (frame bad).1 ∧
    readAll ((pre ++ [bad] ++ post).map (·.head)) (serve (pre ++ [bad] ++ post)) =
      (pre.map view ++ (readAll ((bad :: post).map (·.head)) (frame bad).1).1,
       (readAll ((bad :: post).map (·.head)) (frame bad).1).2) := by
  have hs : serve (pre ++ [bad] ++ post) = serve pre ++ (frame bad).1 := by
    rw [List.append_assoc, serve_append pre _ hc]
    simp [serve, hbc]
  refine ⟨hs, ?_⟩
  have hm : (pre ++ [bad] ++ post).map (·.head) = pre.map (·.head) ++ (bad :: post).map (·.head) := by
    simp
  rw [hs, hm, readAll_serve_append pre h hc]


/-! ### (W4) without the stop the next response leaks into the truncated one -/

/-- a response without extra header fields is well formed as soon as its
    framing delimits it. -/
theorem wf_of_nil (r : Resp) (hh : r.hdrs = []) (hd : delimited r = true) : r.WF :=
  ⟨by simp [hh], hd⟩

/-- first exchange: `Content-Length: 10` announced, the body source yields 4
    bytes and fails. -/
def cut10 : Resp := { status := 200, cl := some 10, body := ['a', 'b', 'c', 'd'], fails := true }
/-- second exchange: complete, 2 bytes. -/
def ok2 : Resp := { status := 404, cl := some 2, body := ['x', 'y'] }

/-- (W4) the defect the code had: the loop went on after a failed write
    (`serveNoClose`).  The client, still owed 6 bytes of the first body, takes
    them from the START OF THE SECOND RESPONSE: it delivers `abcdHTTP/1` as the
    200's body, and the rest is not a message at all.  With the stop (`serve`)
    the client gets nothing for the first exchange and knows it is incomplete. -/
theorem noClose_leaks :
    ∃ rs : List Resp, (∀ r ∈ rs, r.WF) ∧
      (readAll (rs.map (·.head)) (serveNoClose rs)).1 =
        [⟨200, [(nameCL, ['1', '0'])], ['a', 'b', 'c', 'd', 'H', 'T', 'T', 'P', '/', '1']⟩] ∧
      (readAll (rs.map (·.head)) (serve rs)) = ([], (frame cut10).1) := by
  refine ⟨[cut10, ok2], ?_, ?_, ?_⟩
  · intro r hr
    simp only [List.mem_cons, List.not_mem_nil, or_false] at hr
    rcases hr with e | e <;> subst e <;> exact wf_of_nil _ rfl (by decide)
  · decide
  · decide

/-- the leaked bytes are the first 6 bytes of the second response. -/
example : (readAll [false, false] (serveNoClose [cut10, ok2])).1.map (·.body)
    = [cut10.body ++ (frame ok2).1.take 6] := by decide

/-! ### why `Resp.WF` asks for `delimited` -/

/-- `Content-Length: 0` announced, the body yields bytes: Go's Response.Write
    probes the body, switches to `Connection: close` framing and COMPLETES the
    write — `Failed()` is false, the tunnel goes on — and the client, told to
    read until the connection closes, takes every later response for body. -/
def zeroWithBody : Resp := { status := 200, cl := some 0, body := ['a', 'b'] }

theorem untilClose_swallows :
    framing zeroWithBody = .untilClose ∧ (frame zeroWithBody).2 = true ∧
    readAll [false, false] (serve [zeroWithBody, ok2]) =
      ([⟨200, [(nameConn, valClose)], ['a', 'b'] ++ (frame ok2).1⟩], []) := by decide

/-- a 304 announced with `Content-Length: 2` and 2 body bytes: Go writes the
    body, the write completes; a client expects no body after a 304 and tries
    to read the 2 bytes as the next status line. -/
def notModified2 : Resp := { status := 304, cl := some 2, body := ['a', 'b'] }

theorem noBodyStatus_with_length_desyncs :
    framing notModified2 = .length 2 ∧ (frame notModified2).2 = true ∧
    readAll [false, false] (serve [notModified2, ok2]) =
      ([⟨304, [(nameCL, ['2'])], []⟩], ['a', 'b'] ++ (frame ok2).1) := by decide

/-- the usual shape of that case — a 304 relayed with the Content-Length of the
    representation and no body — is on the wire a COMPLETE message for the
    client, but Go reports `ContentLength=5 with Body length 0`: the write
    counts as failed and the tunnel is closed. -/
example : (frame { status := 304, cl := some 5 }).2 = false ∧
    readOne false (frame { status := 304, cl := some 5 }).1 =
      some (⟨304, [(nameCL, ['5'])], []⟩, []) := by decide

/-! ### every branch, by evaluation -/

section Examples
def b4 : Str := ['a', 'b', 'c', 'd']
def hdrX : Str × Str := (['X', '-', 'A'], ['v', ' ', '1'])

-- unknown length, 200: chunked
example : framing { status := 200, body := b4 } = .chunked := by decide
example : (frame { status := 200, body := b4 }) =
    (s "HTTP/1.1 200 X\r\nTransfer-Encoding: chunked\r\n\r\n4\r\nabcd\r\n0\r\n\r\n", true) := by decide
example : readOne false ((frame { status := 200, hdrs := [hdrX], body := b4 }).1 ++ s "HTTP")
    = some (⟨200, [(nameTE, valChunked), hdrX], b4⟩, s "HTTP") := by decide
-- unknown length, empty body: only the last chunk
example : (frame { status := 200 }).1 = s "HTTP/1.1 200 X\r\nTransfer-Encoding: chunked\r\n\r\n0\r\n\r\n" := by decide
-- a body of 26 bytes: chunk size `1a`
example : (frame { status := 200, body := s "abcdefghijklmnopqrstuvwxyz" }).1 =
    s "HTTP/1.1 200 X\r\nTransfer-Encoding: chunked\r\n\r\n1a\r\nabcdefghijklmnopqrstuvwxyz\r\n0\r\n\r\n" := by decide
-- known length
example : (frame { status := 206, cl := some 4, hdrs := [hdrX], body := b4 }) =
    (s "HTTP/1.1 206 X\r\nContent-Length: 4\r\nX-A: v 1\r\n\r\nabcd", true) := by decide
-- known length 0: `Content-Length: 0` after the other fields
example : (frame { status := 200, cl := some 0, hdrs := [hdrX] }) =
    (s "HTTP/1.1 200 X\r\nX-A: v 1\r\nContent-Length: 0\r\n\r\n", true) := by decide
-- body shorter than announced / longer than announced / failing after the last byte
example : (frame { status := 200, cl := some 6, body := b4 }) =
    (s "HTTP/1.1 200 X\r\nContent-Length: 6\r\n\r\nabcd", false) := by decide
example : (frame { status := 200, cl := some 3, body := b4 }) =
    (s "HTTP/1.1 200 X\r\nContent-Length: 3\r\n\r\nabc", false) := by decide
example : (frame { status := 200, cl := some 4, body := b4, fails := true }) =
    (s "HTTP/1.1 200 X\r\nContent-Length: 4\r\n\r\nabcd", false) := by decide
-- 204 / 304 / 1xx without length: no framing field, no body, the body source is not read
example : (frame { status := 204, body := b4, fails := true }) = (s "HTTP/1.1 204 X\r\n\r\n", true) := by decide
example : (frame { status := 304, hdrs := [hdrX], body := b4 }) = (s "HTTP/1.1 304 X\r\nX-A: v 1\r\n\r\n", true) := by decide
example : framing { status := 101 } = .noBody := by decide
example : readAll [false, false] (serve [{ status := 304 }, { status := 204 }]) =
    ([⟨304, [], []⟩, ⟨204, [], []⟩], []) := by decide
-- 304 with `Content-Length: 0`: nothing either
example : (frame { status := 304, cl := some 0 }) = (s "HTTP/1.1 304 X\r\n\r\n", true) := by decide
-- HEAD: the header section of the GET answer, no body, never a last chunk
example : (frame { status := 200, head := true, body := b4 }) =
    (s "HTTP/1.1 200 X\r\nTransfer-Encoding: chunked\r\n\r\n", true) := by decide
example : (frame { status := 200, head := true, cl := some 4, body := b4, fails := true }) =
    (s "HTTP/1.1 200 X\r\nContent-Length: 4\r\n\r\n", true) := by decide
example : readAll [true, false] (serve [{ status := 200, head := true, cl := some 4 }, { status := 200, cl := some 4, body := b4 }]) =
    ([⟨200, [(nameCL, ['4'])], []⟩, ⟨200, [(nameCL, ['4'])], b4⟩], []) := by decide
-- a chunked body that fails: chunk written, no last chunk, the reader cannot finish
example : (frame { status := 200, body := b4, fails := true }) =
    (s "HTTP/1.1 200 X\r\nTransfer-Encoding: chunked\r\n\r\n4\r\nabcd\r\n", false) := by decide
example : readOne false (frame { status := 200, body := b4, fails := true }).1 = none := by decide
example : serve [{ status := 200, body := b4, fails := true }, ok2] = (frame { status := 200, body := b4, fails := true }).1 := by decide
-- the probe of a body announced with length 0 fails: only the status line
example : (frame { status := 200, cl := some 0, fails := true }) = (s "HTTP/1.1 200 X\r\n", false) := by decide
-- the reader: Transfer-Encoding overrides Content-Length, chunk extensions and trailers are skipped
example : readOne false (s "HTTP/1.1 200 OK\r\nContent-Length: 1\r\ntransfer-encoding:  Chunked \r\n\r\n2;x=y\r\nab\r\n0\r\nT: 1\r\n\r\nrest")
    = some (⟨200, [(s "Content-Length", s "1"), (s "transfer-encoding", s "Chunked")], s "ab"⟩, s "rest") := by decide
-- the reader: neither field: until the end of the stream
example : readOne false (s "HTTP/1.1 200 OK\r\n\r\nabc") = some (⟨200, [], s "abc"⟩, []) := by decide
-- the reader: invalid Content-Length is an error
example : readOne false (s "HTTP/1.1 200 OK\r\nContent-Length: 1x\r\n\r\nabc") = none := by decide
end Examples

end Rv.Lemmas.Wire
