import Rv.Model.History
import Rv.Lemmas.History
/-
  Rv.Lemmas.HistoryTime — helper lemmas for Props/HistoryTime: the TIME side of
  whole histories (C03).  `Rv.Lemmas.History` carries invariants about WHICH
  records are stored; here the invariant is about WHEN: every stored entry was
  written at a moment of the history, and its `expires` was computed at a
  moment of the history at which the origin answered for the entry's key — the
  storing 200 (`lifetimeEnd cfg e.o e.timeWritten`) or a later 304
  (`t + cfg.defaultMaxAge`).  Core Lean only.

  Plan: (1) what one `fetchUpstream` leaves in the store, entry by entry;
  (2) lift to `dedupFetchEnv` / `handleEnv` for any entry predicate that the
  two writers (`newEntry`, `renewed`) establish / preserve; (3) when a response
  is labelled `hit`; (4) plain GETs for a fresh / stale / absent entry;
  (5) the clock; (6) the time invariant over `step` / `run`.
-/
namespace Rv.Lemmas.HistoryTime
open Rv Rv.Fetch Rv.History
open Rv.Lemmas.FetchB Rv.Lemmas.FetchEnv Rv.Lemmas.History

/-! ### (1) one upstream exchange, entry by entry -/

/-- only a GET is storable. -/
theorem storable_get {cfg : Cfg} {o : ORes} {m : String} {now : Int} (h : storable cfg o m now = true) :
    storable cfg o "GET" now = true := by
  have hm : m = "GET" := by
    unfold storable at h
    simp only [Bool.and_eq_true, decide_eq_true_eq] at h
    exact h.2
  subst hm
  exact h

/-- `Lemmas.History.fu_cache` with the written entry named: the store is left
    as it was, or ONE entry replaces whatever was under the request's key —
    `newEntry` (a storable 200, lifetime computed NOW) or `renewed` of an entry
    that was there (a 304, lifetime restarted NOW). -/
theorem fu_cache_entry (cfg : Cfg) (tbl : Nat → Option ORes) (cm : Cache) (now : Int) (u : UpReq) (rp : Bool) :
    (fetchUpstream cfg tbl cm now u rp).cache = cm ∨
    (∃ ul o, storable cfg o ul.method now = true ∧
      (fetchUpstream cfg tbl cm now u rp).cache = newEntry cfg now ul o :: erase cm u.res u.query) ∨
    (∃ e0, e0 ∈ cm ∧
      (fetchUpstream cfg tbl cm now u rp).cache = renewed cfg now e0 :: erase cm u.res u.query) := by
  obtain ⟨ul, hlog, _, hcache⟩ := fetchUpstream_spec cfg tbl cm now u rp
  have hul : ul.res = u.res ∧ ul.query = u.query := by
    rcases hlog with ⟨_, rfl, _⟩ | ⟨_, _, h3⟩
    · exact ⟨rfl, rfl⟩
    · cases rp <;> simp [h3]
  obtain ⟨hres, hq⟩ := hul
  rw [hcache]
  rcases onAnswer_cases cfg cm now ul (originAnswer tbl ul) with h | h | ⟨o, _, _, hst, _, h⟩ | ⟨o, e0, _, hl, h⟩
  · exact Or.inl (by rw [h])
  · exact Or.inl (by rw [h])
  · exact Or.inr (Or.inl ⟨ul, o, hst, by rw [h, hres, hq]⟩)
  · exact Or.inr (Or.inr ⟨e0, (lookup_some hl).1, by rw [h, hres, hq]⟩)

/-! ### (2) entry predicates through `dedupFetchEnv` and `handleEnv` -/

/-- a predicate on ENTRIES (metadata included) that holds in the lookup-time
    and the mid-flight cache, that every freshly written entry satisfies and
    that a renewal preserves, holds in the store the fetch leaves. -/
theorem dfEnv_entries (P : CEntry → Prop) (cfg : Cfg) (tbl : Nat → Option ORes) (c cMid : Cache) (now : Int)
    (r : Req) (range : Option Str) (rp : Bool)
    (hc : ∀ e ∈ c, P e) (hm : ∀ e ∈ cMid, P e)
    (hnew : ∀ ul o, storable cfg o ul.method now = true → P (newEntry cfg now ul o))
    (hren : ∀ e, P e → P (renewed cfg now e)) :
    ∀ e ∈ (dedupFetchEnv cfg tbl c cMid now r range rp).cache, P e := by
  rcases dfEnv_struct cfg tbl c cMid now r range rp with ⟨e, _, _, heq⟩ | ⟨u, rp', _, _, _, hcache, _⟩
  · rw [heq]; exact hc
  · rw [hcache]
    rcases fu_cache_entry cfg tbl cMid now u rp' with h | ⟨ul, o, hst, h⟩ | ⟨e0, he0, h⟩
    · rw [h]; exact hm
    · rw [h]
      intro x hx
      rcases List.mem_cons.1 hx with rfl | hx
      · exact hnew ul o hst
      · exact hm x (mem_erase hx).1
    · rw [h]
      intro x hx
      rcases List.mem_cons.1 hx with rfl | hx
      · exact hren e0 (hm e0 he0)
      · exact hm x (mem_erase hx).1

/-- the same for a whole request (first fetch, or the retry without Range on
    the store the first one left). -/
theorem handleEnv_entries (P : CEntry → Prop) (cfg : Cfg) (tbl : Nat → Option ORes) (c cMid : Cache) (now : Int)
    (r : Req) (hc : ∀ e ∈ c, P e) (hm : ∀ e ∈ cMid, P e)
    (hnew : ∀ ul o, storable cfg o ul.method now = true → P (newEntry cfg now ul o))
    (hren : ∀ e, P e → P (renewed cfg now e)) :
    ∀ e ∈ (handleEnv cfg tbl c cMid now r).2.1, P e := by
  have h1 : ∀ e ∈ (df1Env cfg tbl c cMid now r).cache, P e :=
    dfEnv_entries P cfg tbl c cMid now r r.range (parsedOf r).isSome hc hm hnew hren
  rcases handleEnv_cache_log cfg tbl c cMid now r with ⟨h, _⟩ | ⟨h, _⟩
  · rw [h]; exact h1
  · rw [h]; exact dfEnv_entries P cfg tbl _ _ now r none false h1 h1 hnew hren

/-! ### (3) when is a response labelled `hit` -/

theorem afterFetch_label_ne_hit (tbl : Nat → Option ORes) (r : Req) (range : Option Str) (label : Label) (fu : FU)
    (hl : label ≠ .hit) : (afterFetch tbl r range label fu).label ≠ .hit := by
  rcases afterFetch_cases tbl r range label fu with ⟨e, st, _, heq⟩ | ⟨_, heq⟩
  · rw [heq]; exact hl
  · rw [heq]; exact (by decide : Label.miss ≠ Label.hit)

/-- a fetch is labelled `hit` only in the fresh-entry branch: a coalescable
    GET whose key has an entry at lookup time that has not expired; then there
    is no upstream exchange and the store is untouched. -/
theorem dfEnv_hit (cfg : Cfg) (tbl : Nat → Option ORes) (c cMid : Cache) (now : Int) (r : Req)
    (range : Option Str) (rp : Bool) (h : (dedupFetchEnv cfg tbl c cMid now r range rp).label = .hit) :
    ∃ e, rp = false ∧ r.method = "GET" ∧ lookup c r.res r.query = some e ∧ ¬ e.expires < now ∧
      dedupFetchEnv cfg tbl c cMid now r range rp =
        { out := .cached e 0, label := .hit, cache := c, log := [], rangeDropped := false } := by
  rcases dedupFetchEnv_shape cfg tbl c cMid now r range rp with
    ⟨hun, heq⟩ | ⟨_, _, _, heq⟩ | ⟨e, h1, h2, hl, hf, heq⟩ | ⟨e, _, _, _, _, heq⟩
  · rw [heq] at h
    have hne : ¬ (rp = false ∧ r.method = "GET") := by
      rintro ⟨h1, h2⟩
      rcases hun with h' | h'
      · rw [h1] at h'; cases h'
      · exact h' h2
    rcases dedupFetch_branches cfg tbl cMid now r range rp with
      ⟨_, ⟨_, heq2⟩ | ⟨_, heq2⟩⟩ | ⟨h1, h2, _⟩ | ⟨e, h1, h2, _⟩ | ⟨e, h1, h2, _⟩
    · rw [heq2] at h; cases h
    · rw [heq2] at h; cases h
    · exact absurd ⟨h1, h2⟩ hne
    · exact absurd ⟨h1, h2⟩ hne
    · exact absurd ⟨h1, h2⟩ hne
  · rw [heq] at h
    exact absurd h (afterFetch_label_ne_hit tbl r range .miss _ (by decide))
  · exact ⟨e, h1, h2, hl, hf, heq⟩
  · rw [heq] at h
    exact absurd h (afterFetch_label_ne_hit tbl r range .revalidated _ (by decide))

theorem relay_label_hit {a : OAns} {m : String} {l : Label} (h : (relay a m l).label = .hit) : l = .hit := by
  unfold relay at h
  simp only at h
  split at h
  · exact h
  · cases h

/-- a RESPONSE is labelled `hit` only when the first fetch took the fresh-entry
    branch; then the whole request is: the stored entry, served in full, no
    upstream exchange, the store untouched. -/
theorem handleEnv_hit (cfg : Cfg) (tbl : Nat → Option ORes) (c cMid : Cache) (now : Int) (r : Req)
    (h : (handleEnv cfg tbl c cMid now r).1.label = .hit) :
    ∃ e, r.method = "GET" ∧ lookup c r.res r.query = some e ∧ ¬ e.expires < now ∧
      handleEnv cfg tbl c cMid now r = (fullFromCache e .hit 0 r.method now, c, []) := by
  have key : (df1Env cfg tbl c cMid now r).label = .hit →
      ∃ e, r.method = "GET" ∧ lookup c r.res r.query = some e ∧ ¬ e.expires < now ∧
        handleEnv cfg tbl c cMid now r = (fullFromCache e .hit 0 r.method now, c, []) := by
    intro hl
    obtain ⟨e, hrp, hm, hlk, hf, heq⟩ := dfEnv_hit cfg tbl c cMid now r r.range (parsedOf r).isSome hl
    have hp : parsedOf r = none := by
      cases hh : parsedOf r with
      | none => rfl
      | some ab => rw [hh] at hrp; cases hrp
    have h1 : df1Env cfg tbl c cMid now r =
        { out := .cached e 0, label := .hit, cache := c, log := [], rangeDropped := false } := heq
    refine ⟨e, hm, hlk, hf, ?_⟩
    rw [handleEnv_eq, h1, hp]
    rfl
  rw [handleEnv_eq] at h
  rcases handleAux_cases cfg now r (parsedOf r) _ _ (df1Env_ne cfg tbl c cMid now r) (df2Env_ne cfg tbl c cMid now r) with
    ⟨a, _, heq⟩ | ⟨e, st, _, heq | heq | ⟨s, en, heq⟩ | ⟨_, _, _, ⟨e2, st2, _, heq⟩ | ⟨a2, _, heq⟩⟩⟩
  · rw [heq] at h; exact key (relay_label_hit h)
  · rw [heq] at h; exact key h
  · rw [heq] at h; simp [resp416] at h
  · rw [heq] at h; simp [resp206] at h
  · rw [heq] at h; simp [respRetry200] at h
  · rw [heq] at h; simp [respRetryRelay] at h

/-! ### (4) plain GETs: fresh, stale, absent -/

theorem dedupFetchEnv_noentry (cfg : Cfg) (tbl : Nat → Option ORes) (c cMid : Cache) (now : Int) (r : Req)
    (range : Option Str) (hm : r.method = "GET") (hn : lookup c r.res r.query = none) :
    dedupFetchEnv cfg tbl c cMid now r range false =
      afterFetch tbl r range .miss (fetchUpstream cfg tbl cMid now (upReq r range) false) := by
  rcases dedupFetchEnv_shape cfg tbl c cMid now r range false with
    ⟨h | h, _⟩ | ⟨_, _, _, heq⟩ | ⟨e', _, _, hl, _, _⟩ | ⟨e', _, _, hl, _, _⟩
  · cases h
  · exact absurd hm h
  · exact heq
  · rw [hn] at hl; cases hl
  · rw [hn] at hl; cases hl

theorem dedupFetchEnv_fresh (cfg : Cfg) (tbl : Nat → Option ORes) (c cMid : Cache) (now : Int) (r : Req)
    (range : Option Str) (e : CEntry)
    (hm : r.method = "GET") (he : lookup c r.res r.query = some e) (hf : ¬ e.expires < now) :
    dedupFetchEnv cfg tbl c cMid now r range false =
      { out := .cached e 0, label := .hit, cache := c, log := [], rangeDropped := false } := by
  rcases dedupFetchEnv_shape cfg tbl c cMid now r range false with
    ⟨h | h, _⟩ | ⟨_, _, hl, _⟩ | ⟨e', _, _, hl, _, heq⟩ | ⟨e', _, _, hl, hs, _⟩
  · cases h
  · exact absurd hm h
  · rw [he] at hl; cases hl
  · rw [he] at hl; cases hl; exact heq
  · rw [he] at hl; cases hl; exact absurd hs hf

/-- a plain GET for a key with no entry: one unconditional fetch. -/
theorem handleEnv_noentry (cfg : Cfg) (tbl : Nat → Option ORes) (c cMid : Cache) (now : Int) (r : Req)
    (hm : r.method = "GET") (hr : r.range = none) (hn : lookup c r.res r.query = none) :
    handleEnv cfg tbl c cMid now r =
      plainStep tbl now r .miss (fetchUpstream cfg tbl cMid now (upReq r none) false) := by
  have h1 : df1Env cfg tbl c cMid now r =
      afterFetch tbl r none .miss (fetchUpstream cfg tbl cMid now (upReq r none) false) := by
    unfold df1Env
    rw [parsedOf_none_range hr, hr]
    exact dedupFetchEnv_noentry cfg tbl c cMid now r none hm hn
  rw [handleEnv_eq, parsedOf_none_range hr, h1, handleAux_plain]

/-- a plain GET for a key with a fresh entry: the entry, no upstream exchange. -/
theorem handleEnv_fresh (cfg : Cfg) (tbl : Nat → Option ORes) (c cMid : Cache) (now : Int) (r : Req) (e : CEntry)
    (hm : r.method = "GET") (hr : r.range = none) (he : lookup c r.res r.query = some e) (hf : ¬ e.expires < now) :
    handleEnv cfg tbl c cMid now r = (fullFromCache e .hit 0 r.method now, c, []) := by
  have h1 : df1Env cfg tbl c cMid now r =
      { out := .cached e 0, label := .hit, cache := c, log := [], rangeDropped := false } := by
    unfold df1Env
    rw [parsedOf_none_range hr, hr]
    exact dedupFetchEnv_fresh cfg tbl c cMid now r none e hm he hf
  rw [handleEnv_eq, parsedOf_none_range hr, h1]
  rfl

/-- the log of a plain request starts with the first request of its fetch. -/
theorem plainStep_log_head (tbl : Nat → Option ORes) (now : Int) (r : Req) (label : Label) (fu : FU)
    (u : UpReq) (rest : List UpReq) (hlog : fu.log = u :: rest) :
    ∃ rest', (plainStep tbl now r label fu).2.2 = u :: rest' := by
  unfold plainStep
  split
  · exact ⟨rest, hlog⟩
  · exact ⟨rest ++ [upReq r none], by simp only [hlog]; rfl⟩

/-- a plain request that went upstream is not labelled `hit`. -/
theorem plainStep_label_ne_hit (tbl : Nat → Option ORes) (now : Int) (r : Req) (label : Label) (fu : FU)
    (hl : label ≠ .hit) : (plainStep tbl now r label fu).1.label ≠ .hit := by
  unfold plainStep
  split
  · exact hl
  · intro h
    exact absurd (relay_label_hit h) (by decide)

/-- C03/C06: a plain GET for a key whose entry has expired goes to the origin,
    and the first thing the origin sees is the conditional request built from
    the stored validators — for every mid-flight cache. -/
theorem handleEnv_stale_log (cfg : Cfg) (tbl : Nat → Option ORes) (c cMid : Cache) (now : Int) (r : Req) (e : CEntry)
    (hm : r.method = "GET") (hr : r.range = none) (he : lookup c r.res r.query = some e) (hs : e.expires < now) :
    (∃ rest, (handleEnv cfg tbl c cMid now r).2.2 =
      { res := r.res, method := "GET", query := r.query, inm := e.o.etag, ims := lmOf e, range := none } :: rest) ∧
    (handleEnv cfg tbl c cMid now r).1.label ≠ .hit := by
  rw [handleEnv_stale cfg tbl c cMid now r e hm hr he hs, ← condReq_get r e hm]
  obtain ⟨rest, hlog⟩ := (fu_facts cfg tbl cMid now (condReq r none e) false).1
  exact ⟨plainStep_log_head tbl now r .revalidated _ _ rest hlog,
    plainStep_label_ne_hit tbl now r .revalidated _ (by decide)⟩

/-- a plain GET for a key with no entry goes to the origin, unconditionally. -/
theorem handleEnv_noentry_log (cfg : Cfg) (tbl : Nat → Option ORes) (c cMid : Cache) (now : Int) (r : Req)
    (hm : r.method = "GET") (hr : r.range = none) (hn : lookup c r.res r.query = none) :
    (∃ rest, (handleEnv cfg tbl c cMid now r).2.2 = upReq r none :: rest) ∧
    (handleEnv cfg tbl c cMid now r).1.label ≠ .hit := by
  rw [handleEnv_noentry cfg tbl c cMid now r hm hr hn]
  obtain ⟨rest, hlog⟩ := (fu_facts cfg tbl cMid now (upReq r none) false).1
  exact ⟨plainStep_log_head tbl now r .miss _ _ rest hlog,
    plainStep_label_ne_hit tbl now r .miss _ (by decide)⟩

theorem get_ne_head {m : String} (hm : m = "GET") : m ≠ "HEAD" := by
  rw [hm]; decide

/-! ### (5) the clock -/

/-- the time a history lets pass: the sum of its `elapse` amounts. -/
def elapsed : List HOp → Nat
  | [] => 0
  | .elapse ms :: rest => ms + elapsed rest
  | _ :: rest => elapsed rest

theorem step_now (cfg : Cfg) (w : World) (op : HOp) :
    (step cfg w op).1.now = w.now + (elapsed [op] : Nat) := by
  cases op <;> simp [step, elapsed]

theorem elapsed_cons (op : HOp) (rest : List HOp) : elapsed (op :: rest) = elapsed [op] + elapsed rest := by
  cases op <;> simp [elapsed]

theorem elapsed_append (a b : List HOp) : elapsed (a ++ b) = elapsed a + elapsed b := by
  induction a with
  | nil => simp [elapsed]
  | cons op rest ih => rw [List.cons_append, elapsed_cons, elapsed_cons op rest, ih]; omega

/-- the clock of a world reached by a history is the start time plus the
    elapsed amounts — nothing else moves it. -/
theorem run_now (cfg : Cfg) (ops : List HOp) (w : World) :
    (run cfg ops w).1.now = w.now + (elapsed ops : Nat) := by
  induction ops generalizing w with
  | nil => simp [run_nil, elapsed]
  | cons op rest ih =>
    rw [run_cons_fst, ih, step_now, elapsed_cons op rest]
    omega

theorem run_now_le (cfg : Cfg) (ops : List HOp) (w : World) : w.now ≤ (run cfg ops w).1.now := by
  rw [run_now]; omega

/-! ### (6) the time invariant -/

/-- what is known about the metadata of a stored entry at time `now`: it was
    written at a moment `timeWritten ∈ [0, now]` at which its record was
    storable, and its `expires` is the lifetime the origin's 200 gave it at that
    very moment, or `defaultMaxAge` after a later moment `t ≤ now` (a 304). -/
def Timed (cfg : Cfg) (now : Int) (e : CEntry) : Prop :=
  0 ≤ e.timeWritten ∧ e.timeWritten ≤ now ∧ storable cfg e.o "GET" e.timeWritten = true ∧
  (e.expires = lifetimeEnd cfg e.o e.timeWritten ∨
    ∃ t, e.timeWritten ≤ t ∧ t ≤ now ∧ e.expires = t + cfg.defaultMaxAge)

theorem timed_mono {cfg : Cfg} {now now' : Int} {e : CEntry} (hle : now ≤ now') (h : Timed cfg now e) :
    Timed cfg now' e := by
  obtain ⟨h0, h1, h2, h3⟩ := h
  refine ⟨h0, Int.le_trans h1 hle, h2, ?_⟩
  rcases h3 with h3 | ⟨t, ht1, ht2, ht3⟩
  · exact Or.inl h3
  · exact Or.inr ⟨t, ht1, Int.le_trans ht2 hle, ht3⟩

theorem timed_new {cfg : Cfg} {now : Int} (h0 : 0 ≤ now) (ul : UpReq) (o : ORes)
    (hst : storable cfg o ul.method now = true) : Timed cfg now (newEntry cfg now ul o) :=
  ⟨h0, Int.le_refl _, storable_get hst, Or.inl rfl⟩

theorem timed_renewed {cfg : Cfg} {now : Int} {e : CEntry} (h : Timed cfg now e) :
    Timed cfg now (renewed cfg now e) :=
  ⟨h.1, h.2.1, h.2.2.1, Or.inr ⟨now, h.2.1, Int.le_refl _, rfl⟩⟩

/-- the time invariant of every reachable world. -/
structure TInv (cfg : Cfg) (w : World) : Prop where
  now_nonneg : 0 ≤ w.now
  timed : ∀ e ∈ w.cache, Timed cfg w.now e

theorem tinv_init (cfg : Cfg) : TInv cfg init :=
  ⟨Int.le_refl _, fun _ h => (by cases h)⟩

theorem step_tinv (cfg : Cfg) (w : World) (op : HOp) (h : TInv cfg w) : TInv cfg (step cfg w op).1 := by
  cases op with
  | request r d =>
    rw [step_request]
    refine ⟨h.now_nonneg, ?_⟩
    exact handleEnv_entries (Timed cfg w.now) cfg (tblFn w.tbl) w.cache (midOf w r d) w.now r h.timed
      (fun e he => h.timed e (mid_sub w r d e he))
      (fun ul o hst => timed_new h.now_nonneg ul o hst) (fun e he => timed_renewed he)
  | elapse ms =>
    have hle : w.now ≤ w.now + (ms : Int) := by omega
    exact ⟨Int.le_trans h.now_nonneg hle, fun e he => timed_mono hle (h.timed e he)⟩
  | setOrigin res o => exact ⟨h.now_nonneg, h.timed⟩
  | removeOrigin res => exact ⟨h.now_nonneg, h.timed⟩
  | dropEntry res q => exact ⟨h.now_nonneg, fun e he => h.timed e (mem_erase he).1⟩

theorem run_tinv (cfg : Cfg) (ops : List HOp) (w : World) (h : TInv cfg w) : TInv cfg (run cfg ops w).1 := by
  induction ops generalizing w with
  | nil => exact h
  | cons op rest ih => rw [run_cons_fst]; exact ih _ (step_tinv cfg w op h)

/-! #### one request in a world -/

/-- the exchange and the store a `request` step yields are those of `outOf`. -/
theorem step_request_eq {cfg : Cfg} {w w' : World} {r r' : Req} {d : Bool} {resp : Resp} {log : List UpReq}
    (hs : step cfg w (.request r d) = (w', some (r', resp, log))) :
    w'.cache = (outOf cfg w r d).2.1 ∧ resp = (outOf cfg w r d).1 ∧ log = (outOf cfg w r d).2.2 := by
  rw [step_request] at hs
  cases hs
  exact ⟨rfl, rfl, rfl⟩

theorem fullFromCache_get_body (e : CEntry) (label : Label) (st : Nat) {m : String} (now : Int) (hm : m = "GET") :
    (fullFromCache e label st m now).body = .stored e.o.ver 0 e.o.size := by
  show (if m = "HEAD" then Body.empty else Body.stored e.o.ver 0 e.o.size) = _
  rw [if_neg (get_ne_head hm)]

theorem request_hit (cfg : Cfg) (w : World) (r : Req) (d : Bool) (h : (outOf cfg w r d).1.label = .hit) :
    ∃ e, r.method = "GET" ∧ lookup w.cache r.res r.query = some e ∧ ¬ e.expires < w.now ∧
      outOf cfg w r d = (fullFromCache e .hit 0 r.method w.now, w.cache, []) :=
  handleEnv_hit cfg (tblFn w.tbl) w.cache (midOf w r d) w.now r h

theorem request_fresh (cfg : Cfg) (w : World) (r : Req) (d : Bool) (e : CEntry)
    (hm : r.method = "GET") (hr : r.range = none) (he : lookup w.cache r.res r.query = some e)
    (hf : ¬ e.expires < w.now) :
    outOf cfg w r d = (fullFromCache e .hit 0 r.method w.now, w.cache, []) :=
  handleEnv_fresh cfg (tblFn w.tbl) w.cache (midOf w r d) w.now r e hm hr he hf

theorem request_stale (cfg : Cfg) (w : World) (r : Req) (d : Bool) (e : CEntry)
    (hm : r.method = "GET") (hr : r.range = none) (he : lookup w.cache r.res r.query = some e)
    (hs : e.expires < w.now) :
    (∃ rest, (outOf cfg w r d).2.2 =
      { res := r.res, method := "GET", query := r.query, inm := e.o.etag, ims := lmOf e, range := none } :: rest) ∧
    (outOf cfg w r d).1.label ≠ .hit :=
  handleEnv_stale_log cfg (tblFn w.tbl) w.cache (midOf w r d) w.now r e hm hr he hs

theorem request_noentry (cfg : Cfg) (w : World) (r : Req) (d : Bool)
    (hm : r.method = "GET") (hr : r.range = none) (hn : lookup w.cache r.res r.query = none) :
    (∃ rest, (outOf cfg w r d).2.2 =
      { res := r.res, method := "GET", query := r.query, inm := "", ims := none, range := none } :: rest) ∧
    (outOf cfg w r d).1.label ≠ .hit := by
  obtain ⟨⟨rest, h1⟩, h2⟩ := handleEnv_noentry_log cfg (tblFn w.tbl) w.cache (midOf w r d) w.now r hm hr hn
  refine ⟨⟨rest, ?_⟩, h2⟩
  show (handleEnv cfg (tblFn w.tbl) w.cache (midOf w r d) w.now r).2.2 = _
  rw [h1, upReq, hm]

end Rv.Lemmas.HistoryTime
